(* Flat encodings of the rng / rtc / 9p driver models (C20, part "misc"), kinds 2067..2099.               *)
(*  2067 driver created   ins [queue size; indirect; event_idx]   outs []   (the handshake is C08's)     *)
(*  2068 rng request_entropy ins [taddr; ae; uf; u_id; u_len; dst_id; dst_len; dst_addr; npolls] ++ polls *)
(*                        outs [class; value; spins] ++ events                                            *)
(*  2069 rtc operation    ins [op; clock_id; taddr; ae; uf; u_id; u_len; req_id; req_addr; resp_id;       *)
(*                             resp_addr; npolls] ++ polls ++ response bytes (device memory at the end)   *)
(*                        outs [class; v1; v2; v3; spins; n] ++ request bytes (n, as the device read      *)
(*                             them through the device address) ++ events                                 *)
(*  2070 9p request       ins [req_len; resp_len; taddr; ae; uf; u_id; u_len; req_id; req_addr; resp_id;  *)
(*                             resp_addr; h0; h1; h2; h3; npolls] ++ polls                                *)
(*                        outs [class; value; spins] ++ events                                            *)
(*  2071 9p mount tag     ins [ntries] ++ per try [g1; len_ok; len_or_err; nbytes; (ok, v_or_err)*; g2]   *)
(*                        outs [class; code; n] ++ tag bytes ++ [99] ++ config-access events              *)
(*  2072 rtc invalid_feature_bits ins [device features]  outs [value (0 = None)]                          *)
(*  2073 rng enable/disable_interrupts ins [enable]  outs events                                          *)
(*  2090..2096 monitors (see below): inputs observed on the implementation, expected output [1]          *)
From VD Require Import Base.Words Model.Queue Model.Blk Model.BlkSpec Model.Misc Model.MiscSpec
  Extract.QueueIO Extract.BlkIO.

Definition enc_anwp {A} (f : A -> list N) (width : nat) (x : option (outcome A * qstate * list bev * N))
  (q : qstate) : qstate * (list N * N * list bev) :=
  match x with
  | None => (q, (4 :: repeat 0 width, 0, []))
  | Some (Ok v, q', evs, sp) => (q', (0 :: f v, sp, evs))
  | Some (Err e, q', evs, sp) => (q', (1 :: e :: repeat 0 (width - 1)%nat, sp, evs))
  | Some (Panic, q', evs, sp) => (q', (2 :: repeat 0 width, sp, evs))
  | Some (UB, q', evs, sp) => (q', (3 :: repeat 0 width, sp, evs))
  end.

Definition run_rng (q : qstate) (ins : list N) : qstate * list N :=
  match ins with
  | taddr :: ae :: uf :: u_id :: u_len :: dst_id :: dst_len :: dst_addr :: npolls :: rest =>
      let polls := firstn (cnt npolls rest) rest in
      let '(q', (res, sp, evs)) :=
        enc_anwp (fun v => [v]) 1 (rng_request_entropy q (mkBuf dst_id dst_len dst_addr) taddr ae uf polls u_id u_len) q in
      (q', res ++ [sp] ++ enc_bevs evs)
  | _ => (q, [77777])
  end.

Definition run_rtc (q : qstate) (ins : list N) : qstate * list N :=
  match ins with
  | op :: clock_id :: taddr :: ae :: uf :: u_id :: u_len :: req_id :: req_addr :: resp_id :: resp_addr :: npolls :: rest =>
      let k := cnt npolls rest in
      let polls := firstn k rest in
      let rb := skipn k rest in
      let x := rtc_op q op clock_id req_id req_addr resp_id resp_addr taddr ae uf polls u_id u_len rb in
      let '(q', (res, sp, evs)) := enc_anwp (fun v => v) 3 x q in
      let reqb := rtc_enc_req (rtc_op_req op clock_id) in
      (q', res ++ [sp] ++ [lenN reqb] ++ reqb ++ enc_bevs evs)
  | _ => (q, [77777])
  end.

Definition run_p9 (q : qstate) (ins : list N) : qstate * list N :=
  match ins with
  | req_len :: resp_len :: taddr :: ae :: uf :: u_id :: u_len :: req_id :: req_addr :: resp_id :: resp_addr
      :: h0 :: h1 :: h2 :: h3 :: npolls :: rest =>
      let polls := firstn (cnt npolls rest) rest in
      let x := p9_request q (mkBuf req_id req_len req_addr) (mkBuf resp_id resp_len resp_addr) taddr ae uf polls
                          u_id u_len [h0; h1; h2; h3] in
      let '(q', (res, sp, evs)) := enc_anwp (fun v => [v]) 1 x q in
      (q', res ++ [sp] ++ enc_bevs evs)
  | _ => (q, [77777])
  end.

Definition dec_ans (ok v : N) : cans := if ok =? 0 then AErr v else AOk v.

Fixpoint take_answers (k : nat) (l : list N) : list cans * list N :=
  match k, l with
  | S k', ok :: v :: rest => let '(a, r) := take_answers k' rest in (dec_ans ok v :: a, r)
  | _, _ => ([], l)
  end.

Fixpoint take_tag_tries (k : nat) (l : list N) : list tag_try :=
  match k, l with
  | S k', g1 :: len_ok :: len :: nbytes :: rest =>
      let '(ans, r) := take_answers (cnt nbytes rest) rest in
      match r with
      | g2 :: rest' => mkTT g1 (dec_ans len_ok len) ans g2 :: take_tag_tries k' rest'
      | [] => []
      end
  | _, _ => []
  end.

Definition run_tag (ins : list N) : list N :=
  match ins with
  | ntries :: rest =>
      match read_mount_tag (take_tag_tries (cnt ntries rest) rest) with
      | None => [4; 0; 0; 99]
      | Some (Ok bs, evs) => [0; 0; lenN bs] ++ bs ++ [99] ++ enc_tevs evs
      | Some (Err e, evs) => [1; e; 0; 99] ++ enc_tevs evs
      | Some (Panic, evs) => [2; 0; 0; 99] ++ enc_tevs evs
      | Some (UB, evs) => [3; 0; 0; 99] ++ enc_tevs evs
      end
  | _ => [77777]
  end.

Definition misc_step (st : option qstate) (k : N) (ins : list N) : option qstate * list N :=
  if k =? 2067 then
    match ins with
    | [size; ind; ev] => (Some (qnew size (n2b ind) (n2b ev)), [])
    | _ => (st, [77777]) end
  else if k =? 2071 then (st, run_tag ins)
  else if k =? 2072 then (st, match ins with [f] => [rtc_invalid_feature_bits f] | _ => [77777] end)
  else
    match st with
    | None => (st, [77777])
    | Some q =>
        if k =? 2068 then let '(q', o) := run_rng q ins in (Some q', o) else
        if k =? 2069 then let '(q', o) := run_rtc q ins in (Some q', o) else
        if k =? 2070 then let '(q', o) := run_p9 q ins in (Some q', o) else
        if k =? 2073 then
          match ins with
          | [en] => let '(q', evs) := rng_set_interrupts q (n2b en) in (Some q', enc_bevs evs)
          | _ => (st, [77777]) end else
        (st, [77777])
    end.

(* ---------------- monitors: the property evaluated on what the implementation did ---------------- *)
(* 2090 entropy request, as the reference device saw it and as the caller got it back.
   ins [dst_len; used length the device recorded; class; value; caller's buffer == the device's bytes;
        n; (len, writable) * n] *)
Definition mon_rng (ins : list N) : bool :=
  match ins with
  | dst_len :: used :: class :: value :: bytes_ok :: n :: rest =>
      let '(parts, _) := take_parts (cnt n rest) rest in
      shape_eqb parts [(dst_len, true)] && (class =? 0) && (value =? used) && (bytes_ok =? 1)
  | _ => false
  end.

Definition op_sreq (op clock_id : N) : sreq :=
  if op =? 0 then SCfg else if op =? 1 then SClockCap clock_id else SRead clock_id.

Definition sreq_eqb (a b : sreq) : bool :=
  match a, b with
  | SCfg, SCfg => true
  | SClockCap x, SClockCap y => x =? y
  | SRead x, SRead y => x =? y
  | SCrossCap x h, SCrossCap y g => (x =? y) && (h =? g)
  | SReadCross x h, SReadCross y g => (x =? y) && (h =? g)
  | _, _ => false
  end.

(* 2091 one clock request as the reference device received it.
   ins [op; clock_id the caller passed; n; (len, writable) * n] ++ the device-readable bytes *)
Definition mon_rtc_wire (ins : list N) : bool :=
  match ins with
  | op :: clock_id :: n :: rest =>
      let '(parts, bytes) := take_parts (cnt n rest) rest in
      match spec_dec_req bytes with
      | Some r => sreq_eqb r (op_sreq op clock_id) && shape_eqb parts (spec_rtc_shape r)
      | None => false
      end
  | _ => false
  end.

(* 2092 the result of a clock operation against the response the device left in memory.
   ins [op; class; v1; v2; v3] ++ the response area as the device left it *)
Definition mon_rtc_result (ins : list N) : bool :=
  match ins with
  | op :: class :: v1 :: v2 :: v3 :: resp =>
      let st := byte_at resp 0 in
      if negb (st =? 0) then rtc_result_conforms st class v1
      else if op =? 0 then (class =? 0) && (v1 =? le16_at resp 8)
      else if op =? 2 then (class =? 0) && (v1 =? le64_at resp 8)
      else match spec_clock_cap (byte_at resp 8) (byte_at resp 9) (byte_at resp 10) with
           | Some (k, s, a) => (class =? 0) && (v1 =? k) && (v2 =? s) && (v3 =? b2n a)
           | None => class =? 1
           end
  | _ => false
  end.

(* 2093 one 9p request as the reference device received it.
   ins [req_len; resp_len; device-read bytes == caller's request; n; (len, writable) * n] *)
Definition mon_p9_wire (ins : list N) : bool :=
  match ins with
  | req_len :: resp_len :: req_ok :: n :: rest =>
      let '(parts, _) := take_parts (cnt n rest) rest in
      shape_eqb parts (spec_p9_shape req_len resp_len) && (req_ok =? 1)
  | _ => false
  end.

(* 2094 the result of a 9p request.
   ins [used length the device recorded; class; value; caller's response buffer == device's bytes;
        the four size bytes the device wrote] *)
Definition mon_p9_result (ins : list N) : bool :=
  match ins with
  | [used; class; value; resp_ok; h0; h1; h2; h3] =>
      (resp_ok =? 1)
      && (if spec_p9_size [h0; h1; h2; h3] =? used then (class =? 0) && (value =? used)
          else (class =? 1) && (value =? EIoError))
  | _ => false
  end.

(* 2095 argument check of a 9p request. ins [req_len; resp_len; class; code; requests the device received] *)
Definition mon_p9_args (ins : list N) : bool :=
  match ins with
  | [req_len; resp_len; class; code; received] =>
      if (req_len =? 0) || (resp_len <? P9_MIN) then (class =? 1) && (code =? EInvalidParam) && (received =? 0)
      else received =? 1
  | _ => false
  end.

Fixpoint list_eqb (a b : list N) : bool :=
  match a, b with
  | [], [] => true
  | x :: a', y :: b' => (x =? y) && list_eqb a' b'
  | _, _ => false
  end.

(* 2096 the mount tag against the (stable) config space of the device.
   ins [class; code; the platform's own UTF-8 check of the device's tag; m] ++ returned tag (m bytes) ++ config space *)
Definition mon_tag (ins : list N) : bool :=
  match ins with
  | class :: code :: rust_valid :: m :: rest =>
      let k := cnt m rest in
      let got := firstn k rest in
      let cfg := skipn k rest in
      match spec_tag cfg with
      | Some tag =>
          Bool.eqb (utf8_valid tag) (n2b rust_valid)
          && (if utf8_valid tag then (class =? 0) && list_eqb got tag
              else (class =? 1) && (code =? EIoError))
      | None =>
          (class =? 1)
          && (if (2 <=? lenN cfg) && (le16_at cfg 0 =? 0) then code =? EInvalidParam
              else code =? EConfigSpaceTooSmall)
      end
  | _ => false
  end.

Definition misc_monitor (k : N) (ins : list N) : list N :=
  if k =? 2090 then [b2n (mon_rng ins)] else
  if k =? 2091 then [b2n (mon_rtc_wire ins)] else
  if k =? 2092 then [b2n (mon_rtc_result ins)] else
  if k =? 2093 then [b2n (mon_p9_wire ins)] else
  if k =? 2094 then [b2n (mon_p9_result ins)] else
  if k =? 2095 then [b2n (mon_p9_args ins)] else
  if k =? 2096 then [b2n (mon_tag ins)] else [77777].

Definition misc_is_monitor (k : N) : bool := (2090 <=? k) && (k <? 2100).
