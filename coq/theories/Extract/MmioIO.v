(* Flat encodings of the MMIO transport operations / observations for the correspondence runner  *)
(* (kinds 1000..1099).                                                                           *)
(*  1001 probe            ins [size; magic; version; device_id]                                  *)
(*                        outs [class; a; b] ++ trace    (0 version type | 1 error-code payload) *)
(*  1002 probe MONITOR    ins [size; magic; version; device_id; class; a; b] ++ observed trace   *)
(*  1010 operation        ins [wrapped; mode; version; device_type; opcode; a1..a5] ++ answers   *)
(*                        outs [class; value] ++ trace                                           *)
(*  1011 operation MONITOR ins [version; opcode; a1..a5; class; value] ++ observed trace         *)
(*  1021 session MONITOR  ins [version] ++ observed trace of probe; operations; drop             *)
(* A trace is flattened as (is_write, offset, width, value) per access.                          *)
From VD Require Import Base.Words Model.Mmio Model.MmioSpec.

Definition dec_version (n : N) : option version :=
  if n =? 1 then Some Legacy else if n =? 2 then Some Modern else None.

Definition dec_mode (n : N) : mode := if n =? 0 then Debug else Release.

Definition enc_probe (r : probe_result) : list N :=
  match r with
  | POk v dt => [0; version_num v; dt]
  | PErr c p => [1; c; p]
  end.

Definition run_probe (ins : list N) : list N :=
  match ins with
  | [size; magic; version; device_id] =>
      let '(r, tr) := probe size magic version device_id in enc_probe r ++ enc_trace tr
  | _ => [77777]
  end.

Definition mon_probe (ins : list N) : list N :=
  match ins with
  | size :: magic :: version :: device_id :: rc :: ra :: rb :: tr =>
      [b2n (probe_conform_b size magic version device_id rc ra rb (dec_trace (length tr) tr))]
  | _ => [77777]
  end.

Definition run_op (ins : list N) : list N :=
  match ins with
  | wrapped :: m :: ver :: dt :: opc :: a1 :: a2 :: a3 :: a4 :: a5 :: ans =>
      match dec_version ver, op_decode opc a1 a2 a3 a4 a5 with
      | Some v, Some o =>
          let '(r, tr) := if n2b wrapped then some_exec (dec_mode m) v dt o ans
                          else exec (dec_mode m) v dt o ans in
          enc_outcome r ++ enc_trace tr
      | _, _ => [77777]
      end
  | _ => [77777]
  end.

Definition mon_op (ins : list N) : list N :=
  match ins with
  | ver :: opc :: a1 :: a2 :: a3 :: a4 :: a5 :: rc :: rv :: tr =>
      match dec_version ver with
      | Some v => [b2n (mmio_conform_b v opc a1 a2 a3 a4 a5 rc rv (dec_trace (length tr) tr))]
      | None => [77777]
      end
  | _ => [77777]
  end.

Definition mon_session (ins : list N) : list N :=
  match ins with
  | ver :: tr =>
      match dec_version ver with
      | Some v => [b2n (session_conform_b v (dec_trace (length tr) tr))]
      | None => [77777]
      end
  | _ => [77777]
  end.

Definition mmio_step (k : N) (ins : list N) : list N :=
  if k =? 1001 then run_probe ins else
  if k =? 1002 then mon_probe ins else
  if k =? 1010 then run_op ins else
  if k =? 1011 then mon_op ins else
  if k =? 1021 then mon_session ins else
  [77777].

Definition mmio_is_monitor (k : N) : bool := (k =? 1002) || (k =? 1011) || (k =? 1021).
