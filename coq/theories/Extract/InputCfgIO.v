(* Flat encodings (kinds 1320..1339, inside C13's range) of the VirtIOInput configuration queries           *)
(* (Model/InputCfg.v) and their monitors (Model/InputCfgSpec.v).                                        *)
(*  window   [tk; present; len; base] as in ConfigIO (a ModelTransport is tk 1 with len = its config     *)
(*           bytes and base 0: same window test, one access per u8)                                       *)
(*  query    [op; select; subsel; out_len]   op 0 query_config_select(select, subsel, out[out_len])       *)
(*           1 name 2 serial_number 3 ids 4 prop_bits 5 ev_bits(subsel) 6 abs_info(subsel)                *)
(*  1320 one query against a device answering every read from a stream                                    *)
(*         ins  [mode] ++ window ++ query ++ answers                                                       *)
(*         outs result ++ trace     result: op 0 -> [0; size; out_len] ++ the whole slice (238 = untouched) *)
(*                                          others -> [0; n] ++ values; [1; e]; [2; 0]; [3; 0]             *)
(*  1321 MONITOR accesses: ins [select written; subsel written] ++ observed trace                         *)
(*  1322 MONITOR value:    ins [qkind; out_len; rest of the caller's slice untouched] ++ result            *)
(*                             ++ [n] ++ n x [tag; off; width; val]                                         *)
(*         qkind 0 raw 1 string 2 bitmap 3 devids 4 absinfo; result = [0; n] ++ values | [1; e] | [2; 0]   *)
(*  1323 one query against configuration memory with scheduled updates (tearing)                           *)
(*         ins  [mode] ++ window ++ [gen0; cfglen] ++ cfg ++ [nslots] ++ slots ++ query                    *)
(*         outs result ++ trace                                                                            *)
(*  1324 MONITOR (observation runs only): the value is the query on SOME image the device exposed          *)
(*         ins  [mode] ++ window ++ [cfglen; nsnap] ++ snapshots ++ query ++ result                        *)
(* A trace is flattened as (tag, offset, width, value) per access; tag 0 read, 1 write, 2 generation.      *)
From VD Require Import Base.Words Model.Config Model.ConfigSpec Model.Input Model.InputCfg Model.InputCfgSpec
  Extract.ConfigIO.

(* the version the implementation is expected to follow: with the bound on `size` in query_config_select
   (corpus/proposals/input_cfg_fix.diff) *)
Definition ic_impl_bounded : bool := true.

Definition ic_dec_query (op select subsel out_len : N) : option icq :=
  if op =? 0 then Some (ICSelect select out_len)
  else if op =? 1 then Some ICName else if op =? 2 then Some ICSerial else if op =? 3 then Some ICIds
  else if op =? 4 then Some ICPropBits else if op =? 5 then Some ICEvBits else if op =? 6 then Some ICAbsInfo
  else None.

Definition ic_enc_res (q : icq) (r : res) : list N :=
  match q, r with
  | ICSelect _ out_len, Ok (sz :: l) =>
      0 :: sz :: out_len :: l ++ repeat 238 (N.to_nat (N.min out_len 1024) - length l)
  | _, _ => cfg_enc_res r
  end.

Definition ic_run_query (ins : list N) : list N :=
  match ins with
  | m :: r =>
      match cfg_take_window r with
      | Some (tk, w, op :: select :: subsel :: out_len :: ans) =>
          match ic_dec_query op select subsel out_len with
          | Some q =>
              let '(res, tr) := ic_query_gen ic_impl_bounded (cfg_mode m) tk w q subsel ans in
              ic_enc_res q res ++ cfg_enc_trace tr
          | None => cbad
          end
      | _ => cbad
      end
  | _ => cbad
  end.

Definition ic_mon_access (ins : list N) : list N :=
  match ins with
  | sel :: sub :: tr =>
      let t := cfg_dec_trace (length tr) tr in
      if lenN tr =? 4 * lenN t then [b2n (ics_protocol_b sel sub t && ics_inside_b t)] else cbad
  | _ => cbad
  end.

Definition ic_dec_qkind (k out_len : N) : option icsq :=
  if k =? 0 then Some (QRaw out_len) else if k =? 1 then Some QString else if k =? 2 then Some QBitmap
  else if k =? 3 then Some QDevids else if k =? 4 then Some QAbsinfo else None.

Definition ic_mon_value (ins : list N) : list N :=
  match ins with
  | k :: out_len :: untouched :: r =>
      match ic_dec_qkind k out_len, cfg_take_res r with
      | Some q, Some (res, n :: tr) =>
          if n * 4 =? lenN tr
          then [b2n ((untouched =? 1) && ics_result_b q res (cfg_dec_trace (length tr) tr))]
          else cbad
      | _, _ => cbad
      end
  | _ => cbad
  end.

Definition ic_run_dev (ins : list N) : list N :=
  match ins with
  | m :: r =>
      match cfg_take_window r with
      | Some (tk, w, gen0 :: cfglen :: r1) =>
          match cfg_takeN cfglen r1 with
          | Some (cfg, nslots :: r2) =>
              if nslots <=? 1048576 then
                match cfg_take_slots (cfg_cnt nslots r2) cfglen r2 with
                | Some (sc, [op; select; subsel; out_len]) =>
                    match ic_dec_query op select subsel out_len with
                    | Some q =>
                        let '(res, _, _, tr) :=
                          ic_query_dev ic_impl_bounded (cfg_mode m) tk w q subsel (mkDev cfg (gen0 mod gen_mod tk)) sc in
                        ic_enc_res q res ++ cfg_enc_trace tr
                    | None => cbad
                    end
                | _ => cbad
                end
              else cbad
          | _ => cbad
          end
      | _ => cbad
      end
  | _ => cbad
  end.

(* the value is the query evaluated on one of the images: result as [0; n] ++ values (for op 0: size, then the
   bytes stored) | [1; e] | ... *)
Definition ic_mon_snapshot (ins : list N) : list N :=
  match ins with
  | m :: r =>
      match cfg_take_window r with
      | Some (tk, w, cfglen :: nsnap :: r1) =>
          if nsnap <=? 1048576 then
            match cfg_take_images (cfg_cnt nsnap r1) cfglen r1 with
            | Some (snaps, op :: select :: subsel :: out_len :: r2) =>
                match ic_dec_query op select subsel out_len, cfg_take_res r2 with
                | Some q, Some (res, []) =>
                    let p := ic_reads ic_impl_bounded (cfg_mode m) tk w q in
                    [b2n (is_panic res || existsb (fun s => res_eqb res (ic_finish q (eval p s))) snaps)]
                | _, _ => cbad
                end
            | _ => cbad
            end
          else cbad
      | _ => cbad
      end
  | _ => cbad
  end.

Definition inputcfg_step (k : N) (ins : list N) : list N :=
  if k =? 1320 then ic_run_query ins else
  if k =? 1321 then ic_mon_access ins else
  if k =? 1322 then ic_mon_value ins else
  if k =? 1323 then ic_run_dev ins else
  if k =? 1324 then ic_mon_snapshot ins else
  cbad.

Definition inputcfg_is_monitor (k : N) : bool := (k =? 1321) || (k =? 1322) || (k =? 1324).
