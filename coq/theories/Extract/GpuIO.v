(* Flat encodings of the GPU driver model (C20, GPU part), kinds 2000..2033.                            *)
(*  answers:  a list of  0 e  (add_notify_wait_pop returned Err e)  |  1 n b0..b(n-1)  (Ok; receive buffer)  *)
(*  events:   1 n bytes.. (control request) | 2 n bytes.. (cursor request) | 3 pages paddr (dma_alloc)    *)
(*            | 4 paddr pages (dma_dealloc) | 5 q (queue_unset) | 6 (transport dropped = reset)           *)
(*  2000 new                 ins [device features]                  outs [has_edid]                      *)
(*  2001 change_resolution   ins [w; h; paddr] ++ answers           outs [class; value] ++ events         *)
(*  2002 flush               ins answers                            outs [class; code] ++ events          *)
(*  2003 setup_cursor        ins [image_len; x; y; hot_x; hot_y; paddr] ++ answers   outs as 2002         *)
(*  2004 move_cursor         ins [x; y] ++ answers                  outs as 2002                          *)
(*  2005 resolution          ins answers                            outs [class; w|code; h] ++ events     *)
(*  2006 get_edid            ins [scanout] ++ answers               outs [class; code] ++ events          *)
(*  2007 edid_preferred_resolution   ins answers                    outs [class; w|code; h] ++ events     *)
(*  2008 edid_supported_resolutions  ins answers                    outs [class; code; n; (w h)*] ++ [99] ++ events *)
(*  2009 setup_framebuffer   ins [paddr] ++ answers                 outs as 2001                          *)
(*  2010 drop                                                       outs events                          *)
(*  2011 Edid methods on the blob the device sent: ins [size] ++ bytes                                    *)
(*                           outs [class; w|code; h; class; code; n; (w h)*]                              *)
(*  2020..2026 monitors (below): inputs observed on the implementation, expected output [1]               *)
From VD Require Import Base.Words Model.Blk Model.BlkSpec Model.Edid Model.Gpu Model.GpuSpec Extract.QueueIO.

Definition gbad : list N := [77777].

(* ---------- answers ---------- *)
Fixpoint parse_rsps (fuel : nat) (l : list N) : list rsp :=
  match fuel with
  | O => []
  | S f =>
      match l with
      | 0 :: e :: rest => RQ e :: parse_rsps f rest
      | 1 :: n :: rest => let k := cnt n rest in RB (firstn k rest) :: parse_rsps f (skipn k rest)
      | _ => []
      end
  end.
Definition rsps_of (l : list N) : list rsp := parse_rsps (length l) l.

(* ---------- events ---------- *)
Definition enc_gev (e : gev) : list N :=
  match e with
  | GCtrl b => 1 :: lenN b :: b
  | GCursor b => 2 :: lenN b :: b
  | GAlloc pg pa => [3; pg; pa]
  | GDealloc pa pg => [4; pa; pg]
  | GQueueUnset q => [5; q]
  | GReset => [6]
  end.
Definition enc_gevs (l : list gev) : list N := concat (map enc_gev l).

Definition enc_res {A} (f : A -> list N) (dflt : list N) (x : option (outcome A * gstate * list rsp * list gev)) (s : gstate)
  : gstate * list N :=
  match x with
  | None => (s, [4] ++ dflt)
  | Some (Ok v, s', _, evs) => (s', [0] ++ f v ++ enc_gevs evs)
  | Some (Err e, s', _, evs) => (s', [1; e] ++ tl dflt ++ enc_gevs evs)
  | Some (Panic, s', _, evs) => (s', [2] ++ dflt ++ enc_gevs evs)
  | Some (UB, s', _, evs) => (s', [3] ++ dflt ++ enc_gevs evs)
  end.

Definition enc_pairs (l : list (N * N)) : list N := flat_map (fun p => [fst p; snd p]) l.
Definition enc_pref (o : outcome (N * N)) : list N :=
  match o with Ok (w, h) => [0; w; h] | Err e => [1; e; 0] | Panic => [2; 0; 0] | UB => [3; 0; 0] end.
Definition enc_std (o : outcome (list (N * N))) : list N :=
  match o with
  | Ok l => [0; 0; lenN l] ++ enc_pairs l
  | Err e => [1; e; 0] | Panic => [2; 0; 0] | UB => [3; 0; 0]
  end.

Definition gpu_step (st : option gstate) (k : N) (ins : list N) : option gstate * list N :=
  if k =? 2000 then
    match ins with
    | [feats] => let s := gpu_new feats in (Some s, [b2n (g_edid s)])
    | _ => (st, gbad) end
  else if k =? 2011 then
    match ins with
    | size :: blob => (st, enc_pref (preferred_resolution blob size) ++ enc_std (standard_timings blob size))
    | _ => (st, gbad) end
  else
  match st with
  | None => (st, gbad)
  | Some s =>
      if k =? 2001 then
        match ins with
        | w :: h :: paddr :: r =>
            let '(s', o) := enc_res (fun v => [v]) [0] (change_resolution (w32 w) (w32 h) paddr s (rsps_of r)) s in (Some s', o)
        | _ => (st, gbad) end
      else if k =? 2002 then
        let '(s', o) := enc_res (fun _ : unit => [0]) [0] (flush s (rsps_of ins)) s in (Some s', o)
      else if k =? 2003 then
        match ins with
        | il :: x :: y :: hx :: hy :: paddr :: r =>
            let '(s', o) := enc_res (fun _ : unit => [0]) [0]
                              (setup_cursor il (w32 x) (w32 y) (w32 hx) (w32 hy) paddr s (rsps_of r)) s in (Some s', o)
        | _ => (st, gbad) end
      else if k =? 2004 then
        match ins with
        | x :: y :: r =>
            let '(s', o) := enc_res (fun _ : unit => [0]) [0] (move_cursor (w32 x) (w32 y) s (rsps_of r)) s in (Some s', o)
        | _ => (st, gbad) end
      else if k =? 2005 then
        let '(s', o) := enc_res (fun p : N * N => [fst p; snd p]) [0; 0] (resolution s (rsps_of ins)) s in (Some s', o)
      else if k =? 2006 then
        match ins with
        | sc :: r =>
            let '(s', o) := enc_res (fun _ : list N * N => [0]) [0] (get_edid (w32 sc) s (rsps_of r)) s in (Some s', o)
        | _ => (st, gbad) end
      else if k =? 2007 then
        let '(s', o) := enc_res (fun p : N * N => [fst p; snd p]) [0; 0] (edid_preferred_resolution s (rsps_of ins)) s in (Some s', o)
      else if k =? 2008 then
        match edid_supported_resolutions s (rsps_of ins) with
        | None => (st, [4; 0; 0; 99])
        | Some (o, s', _, evs) => (Some s', enc_std o ++ [99] ++ enc_gevs evs)
        end
      else if k =? 2009 then
        match ins with
        | paddr :: r =>
            let '(s', o) := enc_res (fun v => [v]) [0] (setup_framebuffer paddr s (rsps_of r)) s in (Some s', o)
        | _ => (st, gbad) end
      else if k =? 2010 then (None, enc_gevs (gpu_drop s))
      else (st, gbad)
  end.

(* ================= monitors: the property evaluated on what the implementation did ================= *)
Fixpoint take_shape (k : nat) (l : list N) : list (N * bool) * list N :=
  match k, l with
  | S k', len :: w :: rest => let '(ps, r) := take_shape k' rest in ((len, n2b w) :: ps, r)
  | _, _ => ([], l)
  end.

(* size of the response structure the device will write for a command (5.7.6.8) *)
Definition resp_size (c : scmd) : N :=
  match c with
  | SGetDisplayInfo => 408          (* hdr + 16 * 24 *)
  | SGetEdid _ _ => 1056            (* hdr + 8 + 1024 *)
  | SUpdateCursor _ _ _ _ _ _ _ _ | SMoveCursor _ _ _ _ _ _ _ _ => 0
  | _ => 24
  end.
Definition cmd_size (c : scmd) : N :=
  match c with
  | SGetDisplayInfo => 24
  | SResourceCreate2D _ _ _ _ => 40
  | SResourceUnref _ _ | SDetachBacking _ _ | SGetEdid _ _ => 32
  | SSetScanout _ _ _ _ _ _ | SResourceFlush _ _ _ _ _ _ => 48
  | STransferToHost2D _ _ _ _ _ _ _ | SUpdateCursor _ _ _ _ _ _ _ _ | SMoveCursor _ _ _ _ _ _ _ _ => 56
  | SAttachBacking _ n _ => 32 + 16 * n
  end.
Fixpoint shape_readable_first (l : list (N * bool)) : bool :=
  match l with
  | [] => true
  | (_, false) :: t => shape_readable_first t
  | (_, true) :: t => forallb (fun e => snd e) t
  end.
Fixpoint sumN' (l : list N) : N := match l with [] => 0 | x :: t => x + sumN' t end.

(* 2020: one request as the reference device found it.
   ins [cursor queue?; n; (len, writable)*n; m; expected command, flat (built by the harness from the caller's
        parameters in the order of the specification's structure); k; the first k device-readable bytes] *)
Definition mon_wire (ins : list N) : bool :=
  match ins with
  | q :: n :: rest =>
      let '(shape, r1) := take_shape (cnt n rest) rest in
      match r1 with
      | m :: r2 =>
          let km := cnt m r2 in
          let exp := firstn km r2 in
          match skipn km r2 with
          | k :: r3 =>
              let bytes := firstn (cnt k r3) r3 in
              match spec_decode bytes with
              | Some (h, c) =>
                  plain_hdr h
                  && lN_eqb (flat_cmd (snd (norm_cmd (n2b q, c)))) exp
                  && shape_readable_first shape
                  && (cmd_size c <=? sumN' (map fst (filter (fun e => negb (snd e)) shape)))
                  && (resp_size c <=? sumN' (map fst (filter (fun e => snd e) shape)))
              | None => false
              end
          | _ => false
          end
      | _ => false
      end
  | _ => false
  end.

(* requests as the device saw them: (cursor queue?; n; bytes) *)
Fixpoint take_reqs (fuel : nat) (l : list N) : option (list qcmd) :=
  match fuel with
  | O => Some []
  | S f =>
      match l with
      | [] => Some []
      | q :: n :: rest =>
          let k := cnt n rest in
          match spec_decode (firstn k rest), take_reqs f (skipn k rest) with
          | Some (h, c), Some cs => if plain_hdr h then Some ((n2b q, c) :: cs) else None
          | _, _ => None
          end
      | _ => None
      end
  end.

Definition dec_sop (op p1 p2 p3 p4 p5 : N) : option sop :=
  if op =? 1 then Some (OChange (n2b p1) p2 p3 p4 p5)
  else if op =? 2 then Some (OFlush p1 p2 p3)
  else if op =? 3 then Some (OSetupCursor p1 p2 p3 p4 p5)
  else if op =? 4 then Some (OMove p1 p2)
  else if op =? 5 then Some OResolution
  else if op =? 6 then Some (OGetEdid p1)
  else None.

(* 2021: one public operation during which every answer was the expected success and dma_alloc worked.
   ins [op; p1..p5; result class] ++ requests *)
Definition mon_sequence (ins : list N) : bool :=
  match ins with
  | op :: p1 :: p2 :: p3 :: p4 :: p5 :: class :: rest =>
      match dec_sop op p1 p2 p3 p4 p5, take_reqs (length rest) rest with
      | Some o, Some cmds => seq_ok o class cmds
      | _, _ => false
      end
  | _ => false
  end.

(* 2022: one public operation with its answers. ins [result class; n] ++ n * [cursor?; answered (0 transport
   error, 1 response); response type; k; bytes] *)
Fixpoint take_answered (fuel : nat) (l : list N) : option (list qcmd * list (option N)) :=
  match fuel with
  | O => Some ([], [])
  | S f =>
      match l with
      | [] => Some ([], [])
      | q :: a :: t :: n :: rest =>
          let k := cnt n rest in
          match spec_decode (firstn k rest), take_answered f (skipn k rest) with
          | Some (_, c), Some (cs, rs) => Some ((n2b q, c) :: cs, (if a =? 0 then None else Some t) :: rs)
          | _, _ => None
          end
      | _ => None
      end
  end.
Definition mon_errors (ins : list N) : bool :=
  match ins with
  | class :: rest =>
      match take_answered (length rest) rest with
      | Some (cs, rs) => resp_ok cs rs class
      | None => false
      end
  | _ => false
  end.

(* 2023: the life of one driver instance without device errors, as resource / memory events:
   [tag; a; b; c]*: 1 create rid w h | 2 attach rid addr len | 3 detach rid | 4 unref rid | 5 transfer rid
                    | 6 alloc pages paddr | 7 dealloc paddr pages | 8 reset *)
Fixpoint take_bevs (fuel : nat) (l : list N) : option (list bev) :=
  match fuel with
  | O => Some []
  | S f =>
      match l with
      | [] => Some []
      | t :: a :: b :: c :: rest =>
          let e := if t =? 1 then Some (BCreate a b c) else if t =? 2 then Some (BAttach a b c)
                   else if t =? 3 then Some (BDetach a) else if t =? 4 then Some (BUnref a)
                   else if t =? 5 then Some (BTransfer a) else if t =? 6 then Some (BAlloc a b)
                   else if t =? 7 then Some (BDealloc a b) else if t =? 8 then Some BReset else None in
          match e, take_bevs f rest with
          | Some e', Some es => Some (e' :: es)
          | _, _ => None
          end
      | _ => None
      end
  end.
Definition mon_backing (ins : list N) : bool :=
  match take_bevs (length ins) ins with
  | Some evs => backing_ok evs
  | None => false
  end.

(* 2024: resolution() against pmodes[0] of the device's answer. ins [dev width; dev height; class; w; h] *)
Definition mon_resolution (ins : list N) : bool :=
  match ins with
  | [dw; dh; class; w; h] => (class =? 0) && (w =? dw) && (h =? dh)
  | _ => false
  end.

(* 2025: the Edid the driver returned for the blob the device sent, against the E-EDID text.
   ins [size] ++ 1024 bytes ++ [preferred class; w; h; n] ++ (w h)*n *)
Fixpoint take_wh (k : nat) (l : list N) : list (N * N) :=
  match k, l with
  | S k', a :: b :: rest => (a, b) :: take_wh k' rest
  | _, _ => []
  end.
Definition pair_eqb (a b : N * N) : bool := (fst a =? fst b) && (snd a =? snd b).
Fixpoint pairs_eqb (a b : list (N * N)) : bool :=
  match a, b with
  | [], [] => true
  | x :: a', y :: b' => pair_eqb x y && pairs_eqb a' b'
  | _, _ => false
  end.
Fixpoint sorted_desc (l : list (N * N)) : bool :=
  match l with
  | [] => true
  | x :: t => forallb (fun y => pixels y <=? pixels x) t && sorted_desc t
  end.
(* same multiset, and entries of equal pixel count in the same relative order *)
Definition stable_perm (l raw : list (N * N)) : bool :=
  forallb (fun k => pairs_eqb (filter (fun p => pixels p =? k) l) (filter (fun p => pixels p =? k) raw))
          (map pixels (l ++ raw)).
Definition std_ok (blob : list N) (size : N) (l : list (N * N)) : bool :=
  if size <? 128 then (match l with [] => true | _ => false end)
  else sorted_desc l && stable_perm l (spec_std_list blob) && (lenN l <=? 8).
Definition mon_edid (ins : list N) : bool :=
  match ins with
  | size :: rest =>
      let blob := firstn 1024 rest in
      match skipn 1024 rest with
      | pc :: pw :: ph :: n :: r2 =>
          let l := take_wh (cnt n r2) r2 in
          (lenN blob =? 1024)
          && (match spec_preferred blob size with
              | Some (w, h) => (pc =? 0) && (pw =? w) && (ph =? h)
              | None => pc =? 1
              end)
          && (lenN l =? n) && std_ok blob size l
      | _ => false
      end
  | _ => false
  end.

(* 2026: setup_cursor: the bytes the device read from the cursor backing at TRANSFER_TO_HOST_2D are the
   caller's image. ins [equal; length] *)
Definition mon_image (ins : list N) : bool :=
  match ins with
  | [eq; len] => (eq =? 1) && (len =? 16384)
  | _ => false
  end.

Definition gpu_monitor (k : N) (ins : list N) : list N :=
  if k =? 2020 then [b2n (mon_wire ins)] else
  if k =? 2021 then [b2n (mon_sequence ins)] else
  if k =? 2022 then [b2n (mon_errors ins)] else
  if k =? 2023 then [b2n (mon_backing ins)] else
  if k =? 2024 then [b2n (mon_resolution ins)] else
  if k =? 2025 then [b2n (mon_edid ins)] else
  if k =? 2026 then [b2n (mon_image ins)] else gbad.

Definition gpu_is_monitor (k : N) : bool := (2020 <=? k) && (k <=? 2033).
