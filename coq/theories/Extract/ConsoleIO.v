(* Flat encodings for the console model (C15), kinds 1500..1599.                                   *)
(*  1500..1510: one operation of the real driver per line, predicted by Model/Console.v;           *)
(*  1550..1560: monitors - the property itself evaluated on what the implementation was observed  *)
(*  to do.  The monitors keep their own state (the bytes the reference device wrote and the caller *)
(*  has not been given yet) and never look at the model state, so they stay meaningful when the    *)
(*  model and the implementation have diverged.                                                    *)
From VD Require Import Base.Words Model.Queue Model.Console Extract.QueueIO.

Definition enc_cev (e : cev) : list N :=
  match e with
  | CQ _ q => enc_qev q
  | CNotify q => [11; q]
  | CAckIntr => [12]
  | CReadGen => [13]
  | CReadCfg off len => [14; off; len]
  | CWriteCfg off len v => [15; off; len; v]
  end.
Definition enc_cevs (l : list cev) : list N := concat (map enc_cev l).

Definition take (k : N) (l : list N) : list N * list N := (firstn (cnt k l) l, skipn (cnt k l) l).

(* a view: u_idx, the two used-ring slots, and the bytes in the receive buffer *)
Definition parse_view (l : list N) : option (view * list N) :=
  match l with
  | ui :: i0 :: l0 :: i1 :: l1 :: nd :: rest =>
      let '(d, r) := take nd rest in Some (mkView ui [(i0, l0); (i1, l1)] d, r)
  | _ => None
  end.
Fixpoint parse_views (k : nat) (l : list N) : list view :=
  match k with
  | O => []
  | S k' => match parse_view l with
            | Some (v, r) => v :: parse_views k' r
            | None => []
            end
  end.
Fixpoint parse_rounds (k : nat) (l : list N) : list cfg_round :=
  match k, l with
  | S k', b :: cc :: cv :: rc :: rv :: a :: rest => (b, (cc, cv), (rc, rv), a) :: parse_rounds k' rest
  | _, _ => []
  end.

Definition mode_of (x : N) : mode := if x =? 0 then Debug else Release.

(* [class; code; count; nbytes; bytes...] *)
Definition enc_bytes_outcome (o : option (outcome (N * list N))) : list N :=
  match o with
  | Some (Ok (sp, bs)) => [0; 0; sp; lenN bs] ++ bs
  | Some (Err e) => [1; e; 0; 0]
  | Some Panic => [2; 0; 0; 0]
  | Some UB => [3; 0; 0; 0]
  | None => [4; 0; 0; 0]
  end.
Definition enc_opt_outcome_n (o : option (outcome N)) : list N :=
  match o with
  | Some oc => enc_outcome oc
  | None => [4; 0]
  end.
Definition enc_bool_outcome (o : outcome bool) : list N :=
  match o with Ok b => [0; b2n b] | Err e => [1; e] | Panic => [2; 0] | UB => [3; 0] end.
Definition enc_recv_outcome (o : outcome (option N)) : list N :=
  match o with
  | Ok (Some b) => [0; 1; b]
  | Ok None => [0; 0; 0]
  | Err e => [1; e; 0]
  | Panic => [2; 0; 0]
  | UB => [3; 0; 0]
  end.

(* ---------- monitors ---------- *)
Record cmon := mkMon {
  m_q : list N;          (* written by the device, not yet handed to the caller *)
  m_posted : N }.        (* receive buffers visible to the device and not yet filled *)
Definition mon_init : cmon := mkMon [] 0.

Fixpoint prefix_b (a b : list N) : bool :=
  match a, b with
  | [], _ => true
  | x :: a', y :: b' => (x =? y) && prefix_b a' b'
  | _ :: _, [] => false
  end.
Fixpoint eq_b (a b : list N) : bool :=
  match a, b with
  | [], [] => true
  | x :: a', y :: b' => (x =? y) && eq_b a' b'
  | _, _ => false
  end.
Definition is_nil (l : list N) : bool := match l with [] => true | _ => false end.

Definition mon_step (mo : cmon) (k : N) (ins : list N) : cmon * bool :=
  if k =? 1550 then
    (* a new receive buffer has become visible to the device: [avail idx; device's used idx].
       Allowed only when everything written so far has been handed to the caller and nothing else is posted *)
    match ins with
    | [ai; ui] => (mkMon (m_q mo) 1, is_nil (m_q mo) && (m_posted mo =? 0) && (sub16 ai ui =? 1))
    | _ => (mo, false)
    end
  else if k =? 1551 then
    (* the reference device wrote a chunk into the posted buffer *)
    (mkMon (m_q mo ++ ins) 0, (m_posted mo =? 1) && (1 <=? lenN ins) && (lenN ins <=? PAGE))
  else if k =? 1552 then
    (* the API handed bytes to the caller: [consuming; bytes...]; they must be the next bytes of the stream *)
    match ins with
    | cflag :: bs =>
        (if n2b cflag then mkMon (skipn (length bs) (m_q mo)) (m_posted mo) else mo,
         prefix_b bs (m_q mo) && negb (is_nil bs))
    | _ => (mo, false)
    end
  else if k =? 1553 then
    (* consume(amt) returned normally: it may only skip bytes that have been received *)
    match ins with
    | [amt] => (mkMon (skipn (cnt amt (m_q mo)) (m_q mo)) (m_posted mo), amt <=? lenN (m_q mo))
    | _ => (mo, false)
    end
  else if k =? 1554 then
    (* fill_buf returned: exactly the unread bytes, and at least one *)
    (mo, eq_b ins (m_q mo) && negb (is_nil ins))
  else if k =? 1555 then
    (* recv / read_ready reported whether data is available: [flag] *)
    match ins with
    | [flag] => (mo, if n2b flag then negb (is_nil (m_q mo)) else is_nil (m_q mo))
    | _ => (mo, false)
    end
  else if k =? 1556 then
    (* a send: [n; caller's bytes...; m; bytes the device read from the chain...; elements; writable elements] *)
    match ins with
    | n :: rest =>
        let '(a, r1) := take n rest in
        match r1 with
        | m :: rest2 =>
            let '(b, r2) := take m rest2 in
            (mo, match r2 with
                 | [nel; nw] => eq_b a b && (lenN a =? n) && (lenN b =? m) && (nel =? 1) && (nw =? 0) && negb (n =? 0)
                 | _ => false end)
        | _ => (mo, false)
        end
    | _ => (mo, false)
    end
  else if k =? 1557 then
    (* at most one receive buffer outstanding: [avail idx; device's used idx] *)
    match ins with
    | [ai; ui] => (mo, sub16 ai ui <=? 1)
    | _ => (mo, false)
    end
  else if k =? 1558 then
    (* a blocking call whose data the device supplied must return: [gave_up; class] *)
    match ins with
    | [g; cl] => (mo, (g =? 0) && (cl =? 0))
    | _ => (mo, false)
    end
  else if k =? 1559 then
    (* a recv(pop) has handed out a byte: [avail idx; device's used idx], both read from device-visible
       memory after the call.  If that byte was the last one the device had written (everything handed
       over), exactly one receive buffer must now be posted - whatever the suppression words said and
       wherever the indices stand; otherwise none may be (the chunk is still being read).  Together with
       1551 (the device then fills that buffer) and 1555 / 1552 / 1558 (the next call reports and returns
       those bytes) this is "the buffer comes back and the next chunk is delivered". *)
    match ins with
    | [ai; ui] => (mo, sub16 ai ui =? (if is_nil (m_q mo) then 1 else 0))
    | _ => (mo, false)
    end
  else if k =? 1560 then
    (* a send of a non-empty buffer to a device that serves the transmit queue (when notified, having asked for
       it; or by polling) must return Ok: [gave_up; class].  "every send places the caller's bytes on the
       transmit queue" - a send that fails or never returns has not (1556 looks at the bytes of those that do) *)
    match ins with
    | [g; cl] => (mo, (g =? 0) && (cl =? 0))
    | _ => (mo, false)
    end
  else (mo, false).

(* ---------- the per-line step ---------- *)
Record cio := mkCio { io_c : option cstate; io_mon : cmon }.
Definition cio_init : cio := mkCio None mon_init.

Definition console_is_monitor (k : N) : bool := (1550 <=? k) && (k <? 1570).

Definition bad1 : list N := [77777].

Definition model_step (st : option cstate) (k : N) (ins : list N) : option cstate * list N :=
  if k =? 1500 then
    match ins with
    | [df; addr; ae; uf] =>
        let '(o, c, evs) := console_new df addr ae uf in
        (Some c, enc_unit_outcome o ++ enc_cevs evs)
    | _ => (st, bad1)
    end
  else
  match st with
  | None => (st, bad1)
  | Some c =>
    if k =? 1501 then
      match ins with
      | md :: pop :: addr :: ae :: uf :: rest =>
          match parse_view rest with
          | Some (v, _) =>
              let '(o, c', evs) := recv (mode_of md) c (n2b pop) v addr ae uf in
              (Some c', enc_recv_outcome o ++ enc_cevs evs)
          | None => (st, bad1)
          end
      | _ => (st, bad1)
      end
    else if k =? 1502 then
      match parse_view ins with
      | Some (v, _) => let '(o, c', evs) := read_ready c v in (Some c', enc_bool_outcome o ++ enc_cevs evs)
      | None => (st, bad1)
      end
    else if k =? 1503 then
      match ins with
      | isr :: rest =>
          match parse_view rest with
          | Some (v, _) => let '(o, c', evs) := ack_interrupt c isr v in (Some c', enc_bool_outcome o ++ enc_cevs evs)
          | None => (st, bad1)
          end
      | _ => (st, bad1)
      end
    else if k =? 1504 then
      match ins with
      | md :: n :: addr :: ae :: uf :: nv :: rest =>
          let '(o, c', evs) := read (mode_of md) c n addr ae uf (parse_views (cnt nv rest) rest) in
          (Some c', enc_bytes_outcome o ++ enc_cevs evs)
      | _ => (st, bad1)
      end
    else if k =? 1505 then
      match ins with
      | addr :: ae :: uf :: nv :: rest =>
          let '(o, c', evs) := fill_buf c addr ae uf (parse_views (cnt nv rest) rest) in
          (Some c', enc_bytes_outcome o ++ enc_cevs evs)
      | _ => (st, bad1)
      end
    else if k =? 1506 then
      match ins with
      | [md; amt] => let '(o, c') := consume (mode_of md) c amt in (Some c', enc_unit_outcome o)
      | _ => (st, bad1)
      end
    else if (k =? 1507) || (k =? 1508) then
      match ins with
      | len :: addr :: ae :: uf :: nobs :: rest =>
          let '(obs, r) := take nobs rest in
          match parse_view r with
          | Some (v, _) =>
              let '(o, c', evs) := (if k =? 1507 then send_bytes else io_write) c len addr ae uf obs v in
              (Some c', enc_opt_outcome_n o ++ enc_cevs evs)
          | None => (st, bad1)
          end
      | _ => (st, bad1)
      end
    else if k =? 1509 then
      match ins with
      | nr :: rest =>
          match size c (parse_rounds (cnt nr rest) rest) with
          | Some (Ok (Some (co, ro)), evs) => (st, [0; 1; co; ro] ++ enc_cevs evs)
          | Some (Ok None, evs) => (st, [0; 0; 0; 0] ++ enc_cevs evs)
          | Some (Err e, evs) => (st, [1; e; 0; 0] ++ enc_cevs evs)
          | Some (Panic, evs) => (st, [2; 0; 0; 0] ++ enc_cevs evs)
          | Some (UB, evs) => (st, [3; 0; 0; 0] ++ enc_cevs evs)
          | None => (st, [4; 0; 0; 0])
          end
      | _ => (st, bad1)
      end
    else if k =? 1510 then
      match ins with
      | [chr; res] => let '(o, evs) := emergency_write c chr res in (st, enc_unit_outcome o ++ enc_cevs evs)
      | _ => (st, bad1)
      end
    else (st, bad1)
  end.

Definition console_step (st : option cio) (k : N) (ins : list N) : option cio * list N :=
  let io := match st with Some io => io | None => cio_init end in
  if console_is_monitor k then
    let '(mo, b) := mon_step (io_mon io) k ins in (Some (mkCio (io_c io) mo), [b2n b])
  else
    let '(c', out) := model_step (io_c io) k ins in (Some (mkCio c' (io_mon io)), out).
