(* Flat encodings of the sound-driver model (C20, sound part), kinds 2034..2066.                          *)
(*  2034 new        ins [dev_features; jacks; streams; chmaps]                                          *)
(*                  outs [indirect; event_idx; jacks(); streams(); chmaps()]                            *)
(*  2035 control    ins [op; a1..a7; n_env] ++ cenv*                                                    *)
(*                    op 1 pcm_set_params (sid buffer period features channels format rate)             *)
(*                    op 2 pcm_prepare/release/start/stop (request code, sid)                           *)
(*                    op 3 jack_remap (jack association sequence)                                       *)
(*                    op 4 queries (which, sid): 0 output_streams 1 input_streams 2 rates 3 formats     *)
(*                                               4 channel range 5 features                             *)
(*                  outs [class; code; nvals] ++ vals ++ views ++ [99] ++ events                        *)
(*  2036 pcm_xfer   ins [sid; nframes] ++ frames ++ [n_env] ++ cenv* ++ [n_iter] ++ xenv*               *)
(*                  outs [class; code; 0] ++ views ++ [99] ++ events                                    *)
(*  2037 pcm_xfer_nb ins [sid; nframes] ++ frames ++ [bid; rid; abuf; arsp; taddr; ae; uf; n_env] ++ cenv* *)
(*                  outs [class; token; 0] ++ views ++ [99] ++ events                                   *)
(*  2038 pcm_xfer_ok ins [token; u_idx; u_id; u_len; st]   outs [class; code] ++ events                 *)
(*  cenv = [areq; arecv; taddr; ae; uf; uidx; uid; ulen; nrsp] ++ rsp bytes                             *)
(*  xenv = [asid; achunk; astat; taddr; ae; uf; uidx; uid; ulen; st]                                    *)
(*  view = [0;0;0] | [1; writable length; n] ++ n device-readable bytes                                 *)
(*  2039 configuration reads of new: ins [a0 class; a0 value; a1 class; a1 value; a2 class; a2 value]     *)
(*                  (class 0 = the transport answers the value, 1 = it refuses with that error code)       *)
(*                  outs [class; code; jacks; streams; chmaps] ++ (off, width) of each read_config_space    *)
(*  1980 event queue of new (C19): ins [dev_features; start; ae; uf] ++ 32 share answers                    *)
(*                  outs [class; code] ++ the shares [1; id; len; writable; addr] ++ [11] if queue 1 was notified *)
(*  1981 latest_notification (C19): ins [u_idx; u_id; u_len; addr; ae; uf] ++ buffer bytes after copy-back  *)
(*                  outs [class; has | code; type; data] ++ queue events (as kind 1901)                     *)
(*  1982 MONITOR (C19): the clauses of SoundProofs.snd_notif_stocked on device memory and the logs          *)
(*  2050..2066 monitors: inputs observed on the implementation, expected output [1]                     *)
From VD Require Import Base.Words Model.Queue Model.Owning Model.Blk Model.BlkSpec Model.SoundSpec Model.Sound Extract.QueueIO.

Definition enc_sev (e : sev) : list N :=
  match e with SQ _ q => enc_qev q | SNotify qi => [11; qi] end.
Definition enc_sevs (l : list sev) : list N := concat (map enc_sev l).

Definition enc_view (v : dview) : list N :=
  match v with None => [0; 0; 0] | Some (rb, wl) => [1; wl; lenN rb] ++ rb end.
Definition enc_views (l : list dview) : list N := lenN l :: concat (map enc_view l).

Fixpoint take_cenvs (n : nat) (l : list N) : list cenv * list N :=
  match n with
  | O => ([], l)
  | S n' =>
      match l with
      | areq :: arecv :: taddr :: ae :: uf :: uidx :: uid :: ulen :: nrsp :: rest =>
          let k := cnt nrsp rest in
          let '(es, r) := take_cenvs n' (skipn k rest) in
          (mkCE areq arecv taddr ae uf uidx uid ulen (firstn k rest) :: es, r)
      | _ => ([], l)
      end
  end.

Fixpoint take_xenvs (n : nat) (l : list N) : list xenv :=
  match n with
  | O => []
  | S n' =>
      match l with
      | a :: b :: c :: t :: ae :: uf :: ui :: uid :: ul :: st :: rest => mkXE a b c t ae uf ui uid ul st :: take_xenvs n' rest
      | _ => []
      end
  end.

Definition enc_res {A} (f : A -> list N) (r : sres A) (s : sstate) : option sstate * list N :=
  match r with
  | None => (Some s, [4; 0; 0])
  | Some (o, s', evs, vs) =>
      (Some s',
       (match o with
        | Ok v => [0; 0] ++ (lenN (f v) :: f v)
        | Err e => [1; e; 0]
        | Panic => [2; 0; 0]
        | UB => [3; 0; 0]
        end) ++ enc_views vs ++ [99] ++ enc_sevs evs)
  end.

Definition run_ctl (s : sstate) (ins : list N) : option sstate * list N :=
  match ins with
  | op :: a1 :: a2 :: a3 :: a4 :: a5 :: a6 :: a7 :: n_env :: rest =>
      let '(es, _) := take_cenvs (cnt n_env rest) rest in
      if op =? 1 then enc_res (fun _ : unit => []) (snd_pcm_set_params s a1 a2 a3 a4 a5 a6 a7 es) s
      else if op =? 2 then enc_res (fun _ : unit => []) (snd_pcm_cmd s a1 a2 es) s
      else if op =? 3 then enc_res (fun _ : unit => []) (snd_jack_remap s a1 a2 a3 es) s
      else if op =? 4 then enc_res (fun l : list N => l) (snd_get s a1 a2 es) s
      else (Some s, [77777])
  | _ => (Some s, [77777])
  end.

Definition run_xfer (s : sstate) (ins : list N) : option sstate * list N :=
  match ins with
  | sid :: nframes :: rest =>
      let kf := cnt nframes rest in
      let frames := firstn kf rest in
      match skipn kf rest with
      | n_env :: rest2 =>
          let '(es, rest3) := take_cenvs (cnt n_env rest2) rest2 in
          match rest3 with
          | n_iter :: rest4 =>
              enc_res (fun _ : unit => []) (snd_pcm_xfer s sid frames es (take_xenvs (cnt n_iter rest4) rest4)) s
          | _ => (Some s, [77777])
          end
      | _ => (Some s, [77777])
      end
  | _ => (Some s, [77777])
  end.

Definition run_xfer_nb (s : sstate) (ins : list N) : option sstate * list N :=
  match ins with
  | sid :: nframes :: rest =>
      let kf := cnt nframes rest in
      let frames := firstn kf rest in
      match skipn kf rest with
      | bid :: rid :: abuf :: arsp :: taddr :: ae :: uf :: n_env :: rest2 =>
          let '(es, _) := take_cenvs (cnt n_env rest2) rest2 in
          match snd_pcm_xfer_nb s sid frames bid rid es (mkNE abuf arsp taddr ae uf) with
          | None => (Some s, [4; 0; 0])
          | Some (o, s', evs, vs) =>
              (Some s', (match o with Ok v => [0; v; 0] | Err e => [1; e; 0] | Panic => [2; 0; 0] | UB => [3; 0; 0] end)
                          ++ enc_views vs ++ [99] ++ enc_sevs evs)
          end
      | _ => (Some s, [77777])
      end
  | _ => (Some s, [77777])
  end.

Definition sound_step (st : option sstate) (k : N) (ins : list N) : option sstate * list N :=
  if k =? 2034 then
    match ins with
    | [feats; jacks; streams; chmaps] =>
        (* Vec of `streams` default parameters: refuse absurd counts instead of building a huge list *)
        if 65536 <? w32 streams then (None, [77777]) else
        let s := snd_new feats jacks streams chmaps in
        (Some s, [b2n (q_indirect (s_tx s)); b2n (q_event_idx (s_tx s)); s_jacks s; s_streams s; s_chmaps s])
    | _ => (st, [77777])
    end
  else if k =? 2039 then
    match ins with
    | [c0; v0; c1; v1; c2; v2] =>
        let ans := fun c v : N => if c =? 0 then Ok v else Err v in
        let '(o, evs) := snd_read_config (ans c0 v0) (ans c1 v1) (ans c2 v2) in
        (st, (match o with
              | Ok (j, s, c) => [0; 0; j; s; c]
              | Err e => [1; e; 0; 0; 0]
              | Panic => [2; 0; 0; 0; 0]
              | UB => [3; 0; 0; 0; 0]
              end) ++ concat (map (fun e => match e with SCRead off w => [off; w] end) evs))
    | _ => (st, [77777])
    end
  else
  match st with
  | None => (st, [77777])
  | Some s =>
      if k =? 2035 then run_ctl s ins
      else if k =? 2036 then run_xfer s ins
      else if k =? 2037 then run_xfer_nb s ins
      else if k =? 2038 then
        match ins with
        | [token; u_idx; u_id; u_len; stw] =>
            let '(o, s', evs) := snd_pcm_xfer_ok s token u_idx u_id u_len stw in
            (Some s', enc_unit_outcome o ++ enc_sevs evs)
        | _ => (st, [77777])
        end
      else (st, [77777])
  end.

(* ---------------- monitors: the property evaluated on what the implementation did ---------------- *)
Fixpoint take_parts (k : nat) (l : list N) : list (N * bool) * list N :=
  match k, l with
  | S k', len :: w :: rest => let '(ps, r) := take_parts k' rest in ((len, n2b w) :: ps, r)
  | _, _ => ([], l)
  end.

Definition sndreq_eqb (a b : sndreq) : bool :=
  match a, b with
  | RqQuery c1 s1 n1 z1, RqQuery c2 s2 n2 z2 => (c1 =? c2) && (s1 =? s2) && (n1 =? n2) && (z1 =? z2)
  | RqJackRemap j1 a1 s1, RqJackRemap j2 a2 s2 => (j1 =? j2) && (a1 =? a2) && (s1 =? s2)
  | RqSetParams s1 b1 p1 f1 c1 m1 r1 d1, RqSetParams s2 b2 p2 f2 c2 m2 r2 d2 =>
      (s1 =? s2) && (b1 =? b2) && (p1 =? p2) && (f1 =? f2) && (c1 =? c2) && (m1 =? m2) && (r1 =? r2) && (d1 =? d2)
  | RqPcm c1 s1, RqPcm c2 s2 => (c1 =? c2) && (s1 =? s2)
  | _, _ => false
  end.

(* what the caller asked for, as the specification's request: kind 1 query (code, total), 2 jack_remap,
   3 set_params, 4 pcm command *)
Definition expected_req (kind a1 a2 a3 a4 a5 a6 a7 : N) : option sndreq :=
  if kind =? 1 then Some (RqQuery a1 0 a2 (spec_item_size a1))
  else if kind =? 2 then Some (RqJackRemap a1 a2 a3)
  else if kind =? 3 then Some (RqSetParams a1 a2 a3 a4 a5 a6 a7 0)
  else if kind =? 4 then Some (RqPcm a1 a2)
  else None.

(* 2050: one control message as the reference device received it.
   ins [kind; a1..a7 (what the caller asked); n; (len, writable) * n; the device-readable bytes] *)
Definition mon_ctl (ins : list N) : bool :=
  match ins with
  | kind :: a1 :: a2 :: a3 :: a4 :: a5 :: a6 :: a7 :: n :: rest =>
      let '(parts, req) := take_parts (cnt n rest) rest in
      match spec_decode_ctl req, expected_req kind a1 a2 a3 a4 a5 a6 a7 with
      | Some got, Some want =>
          sndreq_eqb got want && spec_ctl_shape parts (lenN req)
          && (match got with RqSetParams _ b p _ _ _ _ _ => spec_params_ok b p | _ => true end)
      | _, _ => false
      end
  | _ => false
  end.

(* 2051: the result of a control operation against the statuses the device answered during it.
   ins [the operation has a request of its own (1) or is answered from stored data (0); class;
        status the device answered to the operation's own request (0 = the device received none);
        status of the PCM_INFO query made during the call (0 = none)] *)
Definition mon_ctl_result (ins : list N) : bool :=
  match ins with
  | [has_req; class; own; pcmq] =>
      if negb ((pcmq =? 0) || (pcmq =? SND_S_OK)) then class =? 1
      else if own =? 0 then (if has_req =? 1 then negb (class =? 0) else true)
      else snd_result_conforms own class
  | _ => false
  end.

(* 2052: one TX message as the reference device received it.
   ins [stream the caller named; period configured for it; the device has accepted parameters for it;
        data == the expected piece of the caller's frames; n; (len, writable) * n; the first 4 readable bytes;
        number of readable bytes] *)
Definition mon_tx (ins : list N) : bool :=
  match ins with
  | sid :: period :: had_params :: data_ok :: n :: rest =>
      let '(parts, tl) := take_parts (cnt n rest) rest in
      match tl with
      | [b0; b1; b2; b3; nread] =>
          let wl := sumN (map fst (filter (fun p => snd p) parts)) in
          let rl := sumN (map fst (filter (fun p => negb (snd p)) parts)) in
          match spec_decode_tx [b0; b1; b2; b3] wl with
          | Some (got_sid, _) =>
              (got_sid =? sid) && (rl =? nread) && (5 <=? nread) && (nread - 4 <=? period)
              && (had_params =? 1) && (data_ok =? 1)
              && forallb (fun p => negb (fst p =? 0)) parts
          | None => false
          end
      | _ => false
      end
  | _ => false
  end.

(* 2053: a whole blocking pcm_xfer against a device that completes in order.
   ins [class; every status the device wrote was OK; concatenation of the data the device received ==
        the caller's frames; messages received; most messages outstanding at any time; queue size;
        descriptors per message (3 direct, 1 indirect); outstanding after the call] *)
Definition mon_xfer (ins : list N) : bool :=
  match ins with
  | [class; all_ok; concat_ok; nmsg; max_out; qsize; per; remain] =>
      (max_out * per <=? qsize)
      && (if all_ok =? 1 then (class =? 0) && (concat_ok =? 1) && (remain =? 0) else class =? 1)
  | _ => false
  end.

(* 2054: pcm_xfer_ok for a token whose transfer the device completed.
   ins [status the device wrote for THIS token; class; the other outstanding transfers are untouched;
        live shares == those of the transfers still outstanding] *)
Definition mon_nb_result (ins : list N) : bool :=
  match ins with
  | [stw; class; others_ok; shares_ok] => snd_result_conforms stw class && (others_ok =? 1) && (shares_ok =? 1)
  | _ => false
  end.

(* 2055: values returned against what the device reported.
   ins [which; sid; class; n; returned values (n); m; then per reported stream: direction rates formats
        chmin chmax features] *)
Fixpoint take_pcm (k : nat) (l : list N) : list pcm_info :=
  match k, l with
  | S k', d :: r :: f :: mn :: mx :: ft :: rest => mkPcm 0 ft f r d mn mx :: take_pcm k' rest
  | _, _ => []
  end.
Definition list_eqb (a b : list N) : bool := (lenN a =? lenN b) && forallb (fun p => fst p =? snd p) (combine a b).
Definition mon_values (ins : list N) : bool :=
  match ins with
  | which :: sid :: class :: n :: rest =>
      let k := cnt n rest in
      let vals := firstn k rest in
      match skipn k rest with
      | m :: rest2 =>
          let infos := take_pcm (N.to_nat (N.min m 4096)) rest2 in
          if which =? 0 then (class =? 0) && list_eqb vals (streams_with_dir infos SND_D_OUTPUT 0)
          else if which =? 1 then (class =? 0) && list_eqb vals (streams_with_dir infos SND_D_INPUT 0)
          else match nth_safe infos sid with
               | None => class =? 1
               | Some p =>
                   (class =? 0)
                   && list_eqb vals (if which =? 2 then [p_rates p] else if which =? 3 then [p_formats p]
                                     else if which =? 4 then [p_chmin p; p_chmax p] else [p_features p])
               end
      | _ => false
      end
  | _ => false
  end.

(* 2056: latest_notification. ins [class; has; type returned; data returned; an event was pending;
        code the device wrote; data the device wrote; length the device reported; buffers posted afterwards + pending] *)
Definition mon_notif (ins : list N) : bool :=
  match ins with
  | [class; has; ty; data; pending; code; dev_data; ulen; posted] =>
      (posted =? SND_QUEUE_SIZE)
      && (if pending =? 0 then (class =? 0) && (has =? 0)
          else if negb (ulen =? 8) then (class =? 0) && (has =? 0)
          else if spec_event_known code then (class =? 0) && (has =? 1) && (ty =? code) && (data =? dev_data)
          else class =? 1)
  | _ => false
  end.

(* 2057: the state rule. ins [the device has accepted parameters for the stream; class; code; TX messages the
        device received during the call] *)
Definition mon_state_rule (ins : list N) : bool :=
  match ins with
  | [had_params; class; code; seen] =>
      if had_params =? 0 then (class =? 1) && (seen =? 0) else true
  | _ => false
  end.

(* 2058: configuration. ins [jacks streams chmaps in config space; jacks() streams() chmaps()] *)
Definition mon_snd_config (ins : list N) : bool :=
  match ins with
  | [j; s; c; gj; gs; gc] => (j =? gj) && (s =? gs) && (c =? gc)
  | _ => false
  end.

(* 2059: the queries of set_up in the order the device received them. ins [n; codes] *)
Definition mon_setup_order (ins : list N) : bool :=
  match ins with
  | n :: codes =>
      list_eqb codes (firstn (cnt n codes) [SND_R_JACK_INFO; SND_R_PCM_INFO; SND_R_CHMAP_INFO]) && (lenN codes =? n)
  | _ => false
  end.

(* 2060: no operation may end in a panic unless the caller broke a documented precondition.
   ins [class; documented precondition broken (stream id out of range, frames length <> period, unknown token)] *)
Definition mon_no_panic (ins : list N) : bool :=
  match ins with
  | [class; excused] => negb (class =? 2) || (excused =? 1)
  | _ => false
  end.

(* 2061: configuration against the raw bytes. ins [class; jacks(); streams(); chmaps()] ++ the 12 configuration bytes *)
Definition mon_snd_config_bytes (ins : list N) : bool :=
  match ins with
  | class :: gj :: gs :: gc :: cfg =>
      let '(j, s, c) := spec_snd_config cfg in
      (lenN cfg =? 12) && (class =? 0) && (j =? gj) && (s =? gs) && (c =? gc)
  | _ => false
  end.

(* 2062: a stream query against the raw answer of the device to PCM_INFO.
   ins [which; sid; class; code; n; returned values (n); count (streams in configuration space); the answer bytes] *)
Definition mon_values_raw (ins : list N) : bool :=
  match ins with
  | which :: sid :: class :: code :: n :: rest =>
      let k := cnt n rest in
      let vals := firstn k rest in
      match skipn k rest with
      | count :: rsp =>
          match spec_stream_query rsp (N.to_nat (N.min count 127)) which sid EInvalidParam with
          | Ok want => (class =? 0) && list_eqb vals want
          | Err e => (class =? 1) && (code =? e)
          | _ => false
          end
      | _ => false
      end
  | _ => false
  end.

Definition sound_monitor (k : N) (ins : list N) : list N :=
  if k =? 2050 then [b2n (mon_ctl ins)] else
  if k =? 2051 then [b2n (mon_ctl_result ins)] else
  if k =? 2052 then [b2n (mon_tx ins)] else
  if k =? 2053 then [b2n (mon_xfer ins)] else
  if k =? 2054 then [b2n (mon_nb_result ins)] else
  if k =? 2055 then [b2n (mon_values ins)] else
  if k =? 2056 then [b2n (mon_notif ins)] else
  if k =? 2057 then [b2n (mon_state_rule ins)] else
  if k =? 2058 then [b2n (mon_snd_config ins)] else
  if k =? 2059 then [b2n (mon_setup_order ins)] else
  if k =? 2060 then [b2n (mon_no_panic ins)] else
  if k =? 2061 then [b2n (mon_snd_config_bytes ins)] else
  if k =? 2062 then [b2n (mon_values_raw ins)] else [77777].

Definition sound_is_monitor (k : N) : bool := (2050 <=? k) && (k <=? 2066).

(* ---------------- the event queue (C19): kinds 1980..1989 ---------------- *)
Definition enc_snd_oev (e : oev) : list N :=
  match e with OQ q => enc_qev q | ONotify => [11] end.
(* of the construction only the shares and the notification are observed *)
Definition enc_snd_new_oev (e : oev) : list N :=
  match e with OQ (QShare id len w addr) => enc_qev (QShare id len w addr) | ONotify => [11] | _ => [] end.

Definition enc_notif_outcome (o : outcome (option (N * N))) : list N :=
  match o with
  | Ok None => [0; 0; 0; 0]
  | Ok (Some (ty, data)) => [0; 1; ty; data]
  | Err e => [1; e; 0; 0]
  | Panic => [2; 0; 0; 0]
  | UB => [3; 0; 0; 0]
  end.

Definition sndevt_step (st : option qstate) (k : N) (ins : list N) : option qstate * list N :=
  if k =? 1980 then
    match ins with
    | feats :: start :: ae :: uf :: addrs =>
        if lenN addrs =? 32 then
          let '(o, q, evs) := snd_evq_new feats start addrs ae uf in
          (Some q, enc_unit_outcome o ++ concat (map enc_snd_new_oev evs))
        else (st, [77777])
    | _ => (st, [77777])
    end
  else if k =? 1981 then
    match st, ins with
    | Some q, u_idx :: u_id :: u_len :: addr :: ae :: uf :: bytes =>
        let '(o, q', evs) := snd_latest_notification q (mkNV u_idx u_id u_len bytes addr ae uf) in
        (Some q', enc_notif_outcome o ++ concat (map enc_snd_oev evs))
    | _, _ => (st, [77777])
    end
  else (st, [77777]).

(* 1982, one latest_notification:
   [pending; id_in_range; class; code; has; avail_delta; reposted_head; used_id; desc_len; desc_writable; desc_is_buf;
    notifies_q1; notifies_other; must_notify; shares; unshares; used_len; type returned; data returned;
    code the device wrote; data the device wrote]
   pending / id_in_range / avail_delta / reposted_head / desc_* / must_notify / shares / unshares as in monitor 1970 (the
   descriptor named by the ring entry the call published, as the device reads it; desc_is_buf: it points at a live share of
   event buffer used_id, 8 bytes); code / data the device wrote: the two le32 at the start of the completed buffer.
   Clauses of SoundProofs.snd_notif_stocked: nothing pending -> None and nothing touched; id outside the queue -> WrongToken
   and nothing touched; otherwise - whatever length the device recorded and whatever the bytes are - the buffer is posted
   again under the same token, queue 1 is notified iff required, and the result is the specification's reading of the bytes
   recorded as written *)
Definition mon_snd_notif (ins : list N) : bool :=
  match ins with
  | [pending; inrange; class; code; has; adelta; head; uid; dlen; dw; disbuf; n1; nother; must; shares; unshares; ulen; ty; data; dcode; ddata] =>
      if pending =? 0 then
        (class =? 0) && (has =? 0) && (adelta =? 0) && (n1 =? 0) && (nother =? 0) && (shares =? 0) && (unshares =? 0)
      else if inrange =? 0 then
        (class =? 1) && (code =? EWrongToken) && (adelta =? 0) && (n1 =? 0) && (nother =? 0) && (shares =? 0) && (unshares =? 0)
      else
        (adelta =? 1) && (head =? uid) && (dlen =? 8) && (dw =? 1) && (disbuf =? 1)
        && (nother =? 0) && (n1 <=? 1) && implb (must =? 1) (n1 =? 1) && (shares =? 1) && (unshares =? 1)
        && (if 8 <? ulen then (class =? 1) && (code =? EIoError)
            else if ulen =? 8 then
              (if spec_event_known dcode then (class =? 0) && (has =? 1) && (ty =? dcode) && (data =? ddata)
               else (class =? 1) && (code =? EIoError))
            else (class =? 0) && (has =? 0))
  | _ => false
  end.

Definition sndevt_is_monitor (k : N) : bool := (k =? 1982).
Definition sndevt_monitor (k : N) (ins : list N) : list N := if k =? 1982 then [b2n (mon_snd_notif ins)] else [77777].
