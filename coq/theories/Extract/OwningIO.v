(* Flat encodings for the OwningQueue model (C19), kinds 1900.. *)
From VD Require Import Base.Words Model.Queue Model.Owning Extract.QueueIO.

Definition enc_oev (e : oev) : list N :=
  match e with OQ q => enc_qev q | ONotify => [11] end.
Definition enc_oevs (l : list oev) : list N := concat (map enc_oev l).

Definition enc_opt_outcome (o : outcome (option (N * N))) : list N :=
  match o with
  | Ok None => [0; 0; 0; 0]
  | Ok (Some (len, tok)) => [0; 1; len; tok]
  | Err e => [1; e; 0; 0]
  | Panic => [2; 0; 0; 0]
  | UB => [3; 0; 0; 0]
  end.

(* 1900: new [size; indirect; event_idx; bufsz; start; addrs...]; 1901: poll [bufsz; u_idx; u_id; u_len; addr; ae; uf; hres] *)
Definition owning_step (st : option qstate) (k : N) (ins : list N) : option qstate * list N :=
  if k =? 1900 then
    match ins with
    | size :: ind :: ev :: bufsz :: start :: addrs =>
        let '(o, s, evs) := owning_new_loop addrs 0 bufsz (qset_indices (qnew size (n2b ind) (n2b ev)) start) in
        (Some s, enc_unit_outcome o ++ enc_qevs evs)
    | _ => (st, [77777]) end
  else if k =? 1901 then
    match st, ins with
    | Some s, [bufsz; u_idx; u_id; u_len; addr; ae; uf; hres] =>
        let '(o, s', evs) := owning_poll s bufsz u_idx u_id u_len addr ae uf hres in
        (Some s', enc_opt_outcome o ++ enc_oevs evs)
    | _, _ => (st, [77777]) end
  else (st, [77777]).

(* 1950 monitor: [size; bufsz; posted_after; class; has; len; token; expected_token; bytes_match; u_len; hres; pending]
   pending: a completion the driver had not consumed was in the used ring when the poll started (u_len: its recorded length) *)
Definition mon_owning (ins : list N) : bool :=
  match ins with
  | [size; bufsz; posted; class; has; len; tok; exp_tok; bytes_ok; u_len; hres; pending] =>
      (* whatever the handler answered and whatever length the device claimed: stocked again *)
      (posted =? size)
      && (if (class =? 0) && (has =? 1) then
            (tok =? exp_tok) && (len =? u_len) && (len <=? bufsz) && (bytes_ok =? 1)
          (* Ok(None): nothing was pending, or the caller's handler said so; a pending completion that fits its buffer and
             that the handler would have taken is never swallowed (each completion is delivered exactly once) *)
          else if class =? 0 then negb ((pending =? 1) && (hres =? 0) && (u_len <=? bufsz))
          else if class =? 1 then (bufsz <? u_len) || (hres =? 2)   (* the only errors a conforming-token device / the handler can cause *)
          else false)
  | _ => false
  end.

(* 1951 monitor (VirtIOInput::pop_pending_event): [kind; posted+pending; expected; bytes_ok; had_pending] *)
Definition mon_input (ins : list N) : bool :=
  match ins with
  | [kind; posted; expected; bytes_ok; had_pending] =>
      if kind =? 1 then (posted =? expected) && (bytes_ok =? 1)
      else if kind =? 2 then (posted =? expected) && (had_pending =? 0)
      else false
  | _ => false
  end.
