(* Flat encodings of the constructor runs / observations for the correspondence runner (kinds 800..899). *)
(*  810 constructor on the model transport                                                             *)
(*        ins  [driver; mode; legacy; offered; p1; p2; utf8; ng; gens..; nc; cfg bytes..; nq; (used max a1 a2 uflags aevent)..] *)
(*        outs [class; code] ++ events                                                                  *)
(*  811 constructor on the real MmioTransport over the emulated register file                           *)
(*        ins  [version; driver; mode; offered; p1; p2; utf8; ng; gens..; nc; cfg..; nq; answers..]      *)
(*        outs [class; code] ++ register accesses (20 w off width val) interleaved with the kept events *)
(*  812 constructor on the real PciTransport over the emulated PCI function (Model/InitPci.v)            *)
(*        ins  [driver; mode; offered; p1; p2; utf8; notify_len; multiplier; cfg_present; cfg_vaddr; nn; queue_notify_off..;  *)
(*              ng; gens..; nc; cfg..; nq; answers..]                                                   *)
(*        outs [class; code] ++ window accesses (21 win w off width val) interleaved with the kept events *)
(*  820 feature-gated operation on a constructed driver (model transport)                               *)
(*        ins  [driver; offered; generation; opcode; arg; nc; cfg..]   outs [class; code; used_event] ++ events *)
(*  850 MONITOR handshake on the observed transport-call log   ins [driver; offered; returned_ok] ++ events *)
(*  851 MONITOR handshake on the observed MMIO register log    ins [driver; offered; returned_ok] ++ accesses (w off width val) *)
(*  852 MONITOR negotiated flags and queues                    ins [driver; offered; p1; returned_ok] ++ events *)
(*  853 MONITOR feature-gated operation                        ins [driver; offered; opcode; class; code; saw_indirect; used_event] ++ events *)
(*  854 MONITOR handshake + PCI access rules on the observed window accesses                           *)
(*        ins [driver; offered; returned_ok; multiplier] ++ accesses (win w off width val)              *)
(*        win 0 common cfg, 1 notify, 2 ISR, 3 device cfg; 9 = outside every window; 8 = the harness     *)
(*        reports a poll of device_status the device had to break (a wait that never ends). Written once *)
(*        for the construction (returned_ok as observed) and once for the whole life incl. the drop (0). *)
(* Event encoding: 1 s | 2 | 3 f | 4 p | 5 q ind ev ap | 6 q | 7 q | 8 pages dir paddr ap |              *)
(*   9 q size desc drv dev | 10 | 11 off len | 12 off len | 13 len dir ap | 14 q                         *)
From VD Require Import Base.Words Model.Layout Model.Init Model.Mmio Model.InitSpec Model.InitPci.

Definition ibad : list N := [77777].

Definition enc_tev (e : tev) : list N :=
  match e with
  | TSetStatus s => [1; s]
  | TReadFeatures _ => [2]
  | TWriteFeatures f => [3; f]
  | TGuestPageSize p => [4; p]
  | TQueueNew q i v a => [5; q; b2n i; b2n v; b2n a]
  | TQueueUsed q _ => [6; q]
  | TMaxQueueSize q _ => [7; q]
  | TAlloc p d a ap => [8; p; d; a; b2n ap]
  | TQueueSet q n d a u => [9; q; n; d; a; u]
  | TReadGen _ => [10]
  | TReadConfig o l _ => [11; o; l]
  | TWriteConfig o l => [12; o; l]
  | TShare l d ap => [13; l; d; b2n ap]
  | TNotify q => [14; q]
  end.
Definition enc_tr (l : list tev) : list N := concat (map enc_tev l).

Definition enc_racc (r : racc) : list N :=
  match r with
  | RAcc a => 20 :: enc_access a
  | RKeep e => enc_tev e
  end.
Definition enc_raccs (l : list racc) : list N := concat (map enc_racc l).

(* decoding an observed event list; None when it is not an encoding *)
Fixpoint dec_tr (fuel : nat) (l : list N) : option (list tev) :=
  match fuel with
  | O => match l with [] => Some [] | _ => None end
  | S k =>
      match l with
      | [] => Some []
      | 1 :: s :: r => option_map (cons (TSetStatus s)) (dec_tr k r)
      | 2 :: r => option_map (cons (TReadFeatures 0)) (dec_tr k r)
      | 3 :: f :: r => option_map (cons (TWriteFeatures f)) (dec_tr k r)
      | 4 :: p :: r => option_map (cons (TGuestPageSize p)) (dec_tr k r)
      | 5 :: q :: i :: v :: a :: r => option_map (cons (TQueueNew q (n2b i) (n2b v) (n2b a))) (dec_tr k r)
      | 6 :: q :: r => option_map (cons (TQueueUsed q false)) (dec_tr k r)
      | 7 :: q :: r => option_map (cons (TMaxQueueSize q 0)) (dec_tr k r)
      | 8 :: p :: d :: a :: ap :: r => option_map (cons (TAlloc p d a (n2b ap))) (dec_tr k r)
      | 9 :: q :: n :: d :: a :: u :: r => option_map (cons (TQueueSet q n d a u)) (dec_tr k r)
      | 10 :: r => option_map (cons (TReadGen 0)) (dec_tr k r)
      | 11 :: o :: ln :: r => option_map (cons (TReadConfig o ln true)) (dec_tr k r)
      | 12 :: o :: ln :: r => option_map (cons (TWriteConfig o ln)) (dec_tr k r)
      | 13 :: ln :: d :: ap :: r => option_map (cons (TShare ln d (n2b ap))) (dec_tr k r)
      | 14 :: q :: r => option_map (cons (TNotify q)) (dec_tr k r)
      | _ => None
      end
  end.

Definition dec_driver (n : N) : option driver :=
  match n with
  | 0 => Some DBlk | 1 => Some DConsole | 2 => Some DGpu | 3 => Some DInput | 4 => Some DNetRaw
  | 5 => Some DNet | 6 => Some DRng | 7 => Some DRtc | 8 => Some DSocket | 9 => Some DSound
  | 10 => Some D9p | _ => None
  end.

Definition dec_mode (n : N) : mode := if n =? 0 then Debug else Release.

Definition cnt_l {A} (k : N) (l : list A) : nat := N.to_nat (N.min k (lenN l)).

Fixpoint dec_qans (fuel : nat) (l : list N) : list qans :=
  match fuel, l with
  | S k, u :: m :: a1 :: a2 :: uf :: ae :: r => mkQa (n2b u) m a1 a2 uf ae :: dec_qans k r
  | _, _ => []
  end.

(* [ng; gens..; nc; cfg..; nq; answers..] *)
Definition dec_env_tail (l : list N) : option (list N * list N * list qans) :=
  match l with
  | ng :: r =>
      let g := firstn (cnt_l ng r) r in
      match skipn (cnt_l ng r) r with
      | nc :: r2 =>
          let c := firstn (cnt_l nc r2) r2 in
          match skipn (cnt_l nc r2) r2 with
          | nq :: r3 => Some (g, c, dec_qans (cnt_l nq r3) r3)
          | _ => None
          end
      | _ => None
      end
  | _ => None
  end.

Definition run_construct (ins : list N) : list N :=
  match ins with
  | d :: m :: legacy :: offered :: p1 :: p2 :: utf8 :: tail =>
      match dec_driver d, dec_env_tail tail with
      | Some d, Some (g, c, q) =>
          let e := mkEnv (dec_mode m) TKModel (n2b legacy) offered c g q p1 p2 (n2b utf8) in
          let '(o, tr) := construct d e in enc_outcome o ++ enc_tr tr
      | _, _ => ibad
      end
  | _ => ibad
  end.

Definition run_construct_mmio (ins : list N) : list N :=
  match ins with
  | ver :: d :: m :: offered :: p1 :: p2 :: utf8 :: tail =>
      match dec_driver d, dec_env_tail tail with
      | Some d, Some (g, c, q) =>
          let tk := if ver =? 1 then TKMmioLegacy else TKMmioModern in
          let e := mkEnv (dec_mode m) tk false offered c g q p1 p2 (n2b utf8) in
          let '(o, l) := construct_mmio d e in enc_outcome o ++ enc_raccs l
      | _, _ => ibad
      end
  | _ => ibad
  end.

(* ---------- the real PciTransport ---------- *)
Definition enc_pacc (a : pacc) : list N := [p_win a; b2n (p_write a); p_off a; p_width a; p_val a].
Definition enc_pracc (r : pracc) : list N :=
  match r with
  | PAcc a => 21 :: enc_pacc a
  | PKeep e => enc_tev e
  end.
Definition enc_praccs (l : list pracc) : list N := concat (map enc_pracc l).

Fixpoint dec_paccs (fuel : nat) (l : list N) : list pacc :=
  match fuel, l with
  | S k, win :: w :: off :: width :: val :: rest => mkP win (n2b w) off width val :: dec_paccs k rest
  | _, _ => []
  end.

Definition run_construct_pci (ins : list N) : list N :=
  match ins with
  | d :: m :: offered :: p1 :: p2 :: utf8 :: nlen :: mult :: cfgp :: cfgva :: nn :: r =>
      let noffs := firstn (cnt_l nn r) r in
      match dec_driver d, dec_env_tail (skipn (cnt_l nn r) r) with
      | Some d, Some (g, c, q) =>
          let pe := mkPe nlen mult noffs (n2b cfgp) cfgva in
          let e := mkEnv (dec_mode m) TKPci false offered c g q p1 p2 (n2b utf8) in
          let '(o, l) := construct_pci d pe e in enc_outcome o ++ enc_praccs l
      | _, _ => ibad
      end
  | _ => ibad
  end.

Definition mon_handshake_pci (ins : list N) : list N :=
  match ins with
  | d :: offered :: ok :: mult :: tr =>
      match dec_driver d with
      | Some d => [b2n (pci_handshake_b (supported d) offered mult (n2b ok) (dec_paccs (length tr) tr))]
      | None => ibad
      end
  | _ => ibad
  end.

Definition dec_gop (opc arg : N) : option gop :=
  match opc with
  | 1 => Some GBlkReadonly | 2 => Some GBlkFlush | 3 => Some GConsoleSize | 4 => Some GConsoleEmergWrite
  | 5 => Some GGpuGetEdid | 6 => Some GNetHeader | 7 => Some (GNetSend arg) | 8 => Some (GRngRequest arg)
  | 9 => Some (GGpuEdidVia 9) | 10 => Some (GGpuEdidVia 10) | 11 => Some GNetRecvHdr
  | 12 => Some (GNetTxBegin arg) | 13 => Some GBlkFill
  | _ => None
  end.

Definition run_gop (ins : list N) : list N :=
  match ins with
  | d :: offered :: gen :: opc :: arg :: nc :: r =>
      match dec_driver d, dec_gop opc arg with
      | Some d, Some o =>
          if gop_driver_ok d o then
            let '(res, tr, ue) := gop_run (negotiated d offered) (firstn (cnt_l nc r) r) gen o in
            enc_outcome res ++ [ue] ++ enc_tr tr
          else ibad
      | _, _ => ibad
      end
  | _ => ibad
  end.

Definition mon_handshake (ins : list N) : list N :=
  match ins with
  | d :: offered :: ok :: tr =>
      match dec_driver d, dec_tr (length tr) tr with
      | Some d, Some t => [b2n (hs_accept (supported d) offered (n2b ok) t)]
      | _, _ => ibad
      end
  | _ => ibad
  end.

Definition mon_handshake_mmio (ins : list N) : list N :=
  match ins with
  | d :: offered :: ok :: tr =>
      match dec_driver d with
      | Some d => [b2n (hs_accept (supported d) offered (n2b ok) (lift lst0 (dec_trace (length tr) tr)))]
      | None => ibad
      end
  | _ => ibad
  end.

Definition pair_eqb (a b : N * N) : bool := (fst a =? fst b) && (snd a =? snd b).
Fixpoint list_eqb (a b : list (N * N)) : bool :=
  match a, b with
  | [], [] => true
  | x :: s, y :: t => pair_eqb x y && list_eqb s t
  | _, _ => false
  end.

(* the SAME queues, in whatever order the driver created them: the property asks that the driver configures its queues before
   DRIVER_OK, not in which order (a rewrite that creates the receive queue before the transmit queue is harmless; an earlier
   version of this monitor compared the two lists in order and raised a false alarm on exactly that rewrite) *)
Definition same_queues (a b : list (N * N)) : bool :=
  (lenN a =? lenN b) && forallb (fun x => existsb (pair_eqb x) b) a && forallb (fun x => existsb (pair_eqb x) a) b.

Definition mon_flags (ins : list N) : list N :=
  match ins with
  | d :: offered :: p1 :: ok :: tr =>
      match dec_driver d, dec_tr (length tr) tr with
      | Some d, Some t =>
          [b2n (flags_ok_b (negotiated d offered) t
                && implb (n2b ok) (same_queues (queues_of t) (expected_queues d p1)))]
      | _, _ => ibad
      end
  | _ => ibad
  end.

Definition mon_gate (ins : list N) : list N :=
  match ins with
  | d :: offered :: opc :: rc :: rv :: si :: ue :: tr =>
      match dec_driver d, dec_tr (length tr) tr with
      | Some d, Some t => [b2n (gate_ok_b (negotiated d offered) opc rc rv (n2b si) ue t)]
      | _, _ => ibad
      end
  | _ => ibad
  end.

(* 855 MONITOR transmit buffer length: ins [driver; offered; buffer length; result class] *)
Definition mon_tx_len (ins : list N) : list N :=
  match ins with
  | [d; offered; len; rc] =>
      match dec_driver d with Some d => [b2n (gate_tx_len_b (negotiated d offered) len rc)] | None => ibad end
  | _ => ibad
  end.

Definition init_step (k : N) (ins : list N) : list N :=
  if k =? 810 then run_construct ins else
  if k =? 811 then run_construct_mmio ins else
  if k =? 812 then run_construct_pci ins else
  if k =? 820 then run_gop ins else
  if k =? 850 then mon_handshake ins else
  if k =? 851 then mon_handshake_mmio ins else
  if k =? 852 then mon_flags ins else
  if k =? 853 then mon_gate ins else
  if k =? 855 then mon_tx_len ins else
  if k =? 854 then mon_handshake_pci ins else
  ibad.

Definition init_is_monitor (k : N) : bool := (850 <=? k) && (k <? 860).
