(* Flat entry points for traces that come from the ALLOC-LESS build of the crate (harness built with       *)
(* --no-default-features).  Every scenario of such a trace starts with a kind-3 line; Dispatch.step then  *)
(* replays the scenario through Model/QueueNoAlloc.v:                                                     *)
(*   100  VirtQueue::new   [size; indirect REQUESTED; event_idx]  -> na_new (the request is dropped)       *)
(*   110  add              same encoding as QueueIO.run_add (the table address is there and ignored)       *)
(*   120  pop_used         same encoding as QueueIO.run_pop                                               *)
(*   133  available_desc                                                                                  *)
(*   every other queue kind (101, 130-132, 134, 140, 141) is the shared code: QueueIO.queue_step          *)
(* The drivers that exist in that build (blk, raw net, rng, rtc) are models over Model/Queue.v; the queue *)
(* they create is forced to `q_indirect = false` after every step (`na_force_*`), which by                *)
(* Proofs/QueueNoAllocProofs.v (na_add_eq, na_pop_used_eq, na_available_desc_eq) is the alloc-less queue.  *)
(* Monitors that exist only for this build: 151 (C03 refusal clause) and 169 (C01: no INDIRECT descriptor, *)
(* no table share, whatever was requested).                                                               *)
From VD Require Import Base.Words Model.Queue Model.QueueNoAlloc Extract.QueueIO Model.Blk Model.Net Extract.NetIO.

Definition na_run_add (s : qstate) (ins : list N) : qstate * list N :=
  match ins with
  | _taddr :: n_in :: n_out :: rest =>
      let '(bi, r1) := take_bufs3 (cnt n_in rest) rest in
      let '(bo, _) := take_bufs3 (cnt n_out r1) r1 in
      let '(o, s', evs) := na_add s bi bo in
      (s', enc_outcome o ++ enc_qevs evs)
  | _ => (s, [77777])
  end.

Definition na_run_pop (s : qstate) (ins : list N) : qstate * list N :=
  match ins with
  | token :: u_idx :: u_id :: u_len :: n_in :: n_out :: rest =>
      let '(bi, r1) := take_bufs2 (cnt n_in rest) rest in
      let '(bo, _) := take_bufs2 (cnt n_out r1) r1 in
      let '(o, s', evs) := na_pop_used s token bi bo u_idx u_id u_len in
      (s', enc_outcome o ++ enc_qevs evs)
  | _ => (s, [77777])
  end.

Definition na_queue_step (s : qstate) (k : N) (ins : list N) : qstate * list N :=
  if k =? 110 then na_run_add s ins else
  if k =? 120 then na_run_pop s ins else
  if k =? 133 then (s, [na_available_desc s]) else
  queue_step s k ins.

Definition na_queue_new (ins : list N) : option qstate :=
  match ins with
  | [size; ind; ev] => Some (na_new size (n2b ind) (n2b ev))
  | _ => None
  end.

(* a queue created by a driver of this build: whatever the driver negotiated and requested *)
Definition na_force_q (q : qstate) : qstate :=
  mkQ (q_size q) false (q_event_idx q) (q_num_used q) (q_free_head q) (q_avail_idx q) (q_last_used q)
      (q_shadow q) (q_ind q) (q_dtable q) (q_aflags q) (q_aidx q) (q_uevent q) (q_aring q).
Definition na_force_blk (b : bstate) : bstate := mkB (na_force_q (b_q b)) (b_cap b) (b_feat b).
Definition na_force_raw (r : netraw) : netraw := mkRaw (n_legacy r) (na_force_q (n_rx r)) (na_force_q (n_tx r)).
Definition na_force_net (st : netst) : netst :=
  match st with
  | NSRaw s => NSRaw (na_force_raw s)
  | NSV v => NSV (mkV (na_force_raw (v_raw v)) (v_slots v))
  end.

(* ---------------- monitors of this build ---------------- *)
(* 151 (C03): [queue size; descriptors held by the outstanding chains (one per buffer); buffers offered; result class;
              error code; shares during the call; indirect requested at new] *)
(* 169 (C01 / C08): [indirect requested at new; buffers; the published head reads as an INDIRECT descriptor;
              descriptors of the whole device-visible table carrying INDIRECT; shares that are not caller buffers]
       at VirtQueue::new: [indirect requested; creation failed] *)
Definition na_is_monitor (k : N) : bool := (k =? 151) || (k =? 169).
Definition na_monitor (k : N) (ins : list N) : list N :=
  if k =? 151 then
    match ins with
    | [size; held; n; class; code; shares; _req] => [b2n (na_refusal_spec size held n class code shares)]
    | _ => [77777] end
  else if k =? 169 then
    match ins with
    | [_req; _n; head_ind; flagged; tshares] => [b2n ((head_ind =? 0) && (flagged =? 0) && (tshares =? 0))]
    | [_req; failed] => [b2n (failed =? 0)]      (* creation form: the request never makes VirtQueue::new fail *)
    | _ => [77777] end
  else [77777].
