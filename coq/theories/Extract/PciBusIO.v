(* Flat encodings (kinds 1200..1299) of the PCI bus helpers for the correspondence runner, and the
   C12 monitors: the property's predicates evaluated on what the IMPLEMENTATION was observed to do
   against the harness' twin of the reference PCI function. *)
From VD Require Import Base.Words Model.PciBus.

(* the version of bar_info the implementation is expected to follow *)
Definition bar_info_impl := bar_info.
Definition bars_impl := bars.

Definition pbad : list N := [77777].
Definition n2mode (x : N) : mode := if x =? 0 then Debug else Release.

Fixpoint take_slots (k : nat) (l : list N) : list slot * list N :=
  match k, l with
  | S k', a :: b :: c :: r => let '(x, y) := take_slots k' r in (mkSlot a b c :: x, y)
  | _, _ => ([], l)
  end.
Fixpoint take_n (k : nat) (l : list N) : list N * list N :=
  match k, l with
  | S k', a :: r => let '(x, y) := take_n k' r in (a :: x, y)
  | _, _ => ([], l)
  end.
Definition pcnt (k : N) (l : list N) : nat := N.to_nat (N.min k (lenN l)).

Definition enc_info (o : option barinfo) : list N :=
  match o with
  | None => [0; 0; 0; 0; 0]
  | Some (BarMem ty pf a s) => [1; ty; b2n pf; a; s]
  | Some (BarIO a s) => [2; 0; 0; a; s]
  end.
Definition enc_res (o : outcome (option barinfo)) : list N :=
  match o with
  | Ok i => 0 :: enc_info i
  | Err e => [1; e; 0; 0; 0; 0]
  | Panic => [2; 0; 0; 0; 0; 0]
  | UB => [3; 0; 0; 0; 0; 0]
  end.
Definition enc_final (d : pcifn) : list N := f_cmd d :: f_status d :: bar_vals d.
Definition enc_trace (tr : list acc) : list N :=
  concat (map (fun a => [b2n (a_write a); a_off a; a_val a; a_cmd a]) tr).
Fixpoint dec_trace (fuel : nat) (l : list N) : list acc :=
  match fuel, l with
  | S f, w :: o :: v :: c :: r => mkAcc (n2b w) o v c :: dec_trace f r
  | _, _ => []
  end.

(* [cmd; status; 6 x (kind, mask, val)] ++ rest *)
Definition take_fn (l : list N) : option (pcifn * list N) :=
  match l with
  | c :: s :: r =>
      let '(bs, rest) := take_slots 6 r in
      if lenN bs =? 6 then Some (mkFn c s bs [], rest) else None
  | _ => None
  end.

Fixpoint list_eqb (a b : list N) : bool :=
  match a, b with
  | [], [] => true
  | x :: a', y :: b' => (x =? y) && list_eqb a' b'
  | _, _ => false
  end.

(* ---------------- correspondence kinds ---------------- *)
(* 1210 bar_info: [mode; slot; fn] -> result(6) ++ final(8) ++ [99] ++ trace *)
Definition run_bar_info (ins : list N) : list N :=
  match ins with
  | m :: i :: r =>
      match take_fn r with
      | Some (d, _) =>
          let '(o, d', tr) := bar_info_impl (n2mode m) d i in
          enc_res o ++ enc_final d' ++ [99] ++ enc_trace tr
      | None => pbad end
  | _ => pbad
  end.
(* 1211 bars: [mode; fn] -> class, code, 6 x info(5), final(8), 99, trace *)
Definition run_bars (ins : list N) : list N :=
  match ins with
  | m :: r =>
      match take_fn r with
      | Some (d, _) =>
          let '(o, d', tr) := bars_impl (n2mode m) d in
          (match o with
           | Ok l => [0; 0] ++ concat (map enc_info l)
           | Err e => [1; e]
           | Panic => [2; 0]
           | UB => [3; 0] end) ++ enc_final d' ++ [99] ++ enc_trace tr
      | None => pbad end
  | _ => pbad
  end.
(* 1212 get_status_command: [word] -> [status bits; command bits] *)
Definition run_get_sc (ins : list N) : list N :=
  match ins with
  | [w] => [fst (status_command_of w); snd (status_command_of w)]
  | _ => pbad end.
(* 1213 set_command: [x; retain] with Command::from_bits_retain(x) / from_bits_truncate(x):
   the single access performed: [offset; value] *)
Definition run_set_cmd (ins : list N) : list N :=
  match ins with
  | [x; retain] =>
      let c := if n2b retain then w16 x else N.land (w16 x) CMD_NAMED in
      match snd (set_command (mkFn 0 0 [] [], []) c) with
      | [a] => [b2n (a_write a); a_off a; a_val a]
      | _ => pbad end
  | _ => pbad end.

(* 1201 cam_offset: [ecam; bus; dev; fn; reg] *)
Definition run_cam (ins : list N) : list N :=
  match ins with
  | [e; b; d; f; r] => enc_outcome (cam_offset (n2b e) b d f r)
  | _ => pbad end.
(* 1202 / 1203 MmioCam::read_word / write_word seen at the MMIO backend:
   [class; number of accesses; is_write; offset in the window; width] *)
Definition run_mmiocam (w : bool) (ins : list N) : list N :=
  match ins with
  | [e; b; d; f; r] =>
      match cam_offset (n2b e) b d f r with
      | Ok a => [0; 1; b2n w; a; 4]
      | _ => [2; 0; 0; 0; 0] end
  | _ => pbad end.
(* 1206 one whole bus: number of offsets, their sum and their position-weighted sum over
   device 0..31 x function 0..7 x register 0,4..252 in lexicographic order *)
Fixpoint cam_sweep (e : bool) (b : N) (l : list (N * N * N)) (idx cnt sum wsum : N) : list N :=
  match l with
  | [] => [cnt; sum; wsum]
  | (d, f, r) :: t =>
      match cam_offset e b d f r with
      | Ok a => cam_sweep e b t (idx + 1) (cnt + 1) (sum + a) (wsum + (idx + 1) * a)
      | _ => cam_sweep e b t (idx + 1) cnt sum wsum
      end
  end.
Definition all_dfr : list (N * N * N) :=
  flat_map (fun d => flat_map (fun f => map (fun r => (d, f, 4 * r)) (seqN 0 64)) (seqN 0 8)) (seqN 0 32).
Definition run_cam_bus (ins : list N) : list N :=
  match ins with
  | [e; b] => cam_sweep (n2b e) b all_dfr 0 0 0 0
  | _ => pbad end.

(* population of a bus: (dev, fn, word0, word2, word3) per listed function; the others read all ones *)
Fixpoint take_pop (k : nat) (l : list N) : list (N * N * (N * N * N)) * list N :=
  match k, l with
  | S k', d :: f :: a :: b :: c :: r => let '(x, y) := take_pop k' r in ((d, f, (a, b, c)) :: x, y)
  | _, _ => ([], l)
  end.
Fixpoint pop_read (p : list (N * N * (N * N * N))) (dev fn off : N) : N :=
  match p with
  | [] => ones32
  | (d, f, (a, b, c)) :: t =>
      if (d =? dev) && (f =? fn) then
        (if off =? 0 then a else if off =? 8 then b else if off =? 12 then c else 0)
      else pop_read t dev fn off
  end.
Definition enc_item (bus : N) (it : N * N * dfinfo) : list N :=
  let '(d, f, i) := it in
  [bus; d; f; i_vendor i; i_device i; i_class i; i_subclass i; i_prog_if i; i_revision i; i_header i].
(* 1220 enumerate_bus: [bus; n; population] -> [count; items] *)
Definition run_enum (ins : list N) : list N :=
  match ins with
  | bus :: n :: r =>
      let '(p, _) := take_pop (pcnt n r) r in
      let l := enumerate_bus (pop_read p) in
      lenN l :: concat (map (enc_item bus) l)
  | _ => pbad end.

(* capability lists: (offset, header word) pairs; unlisted registers read 0 *)
Fixpoint take_pairs (k : nat) (l : list N) : list (N * N) * list N :=
  match k, l with
  | S k', a :: b :: r => let '(x, y) := take_pairs k' r in ((a, b) :: x, y)
  | _, _ => ([], l)
  end.
Fixpoint assocN (p : list (N * N)) (off : N) : N :=
  match p with
  | [] => 0
  | (o, h) :: t => if o =? off then h else assocN t off
  end.
Definition cap_read (w4 w34 : N) (p : list (N * N)) (off : N) : N :=
  if off =? 4 then w4 else if off =? 52 then w34 else assocN p off.
Definition enc_caps (l : list (N * N * N)) : list N :=
  concat (map (fun c => let '(o, i, p) := c in [o; i; p]) l).
(* 1230 capabilities: [word4; word0x34; n; pairs] -> [finished; count; items] *)
Definition run_caps (ins : list N) : list N :=
  match ins with
  | w4 :: w34 :: n :: r =>
      let '(p, _) := take_pairs (pcnt n r) r in
      let '(l, fin) := capabilities 64 (cap_read w4 w34 p) in
      b2n fin :: lenN l :: enc_caps l
  | _ => pbad end.

(* ---------------- monitors (inputs observed on the implementation; expected [1]) ---------------- *)
(* 1250: reported (kind, address, prefetchable, size) = what the BAR is.
   [slot; 6 x (kind, mask, val); observed result(6)] *)
Definition mon_truth (ins : list N) : list N :=
  match ins with
  | i :: r =>
      let '(bs, obs) := take_slots 6 r in
      [b2n (match slot_truth bs i with
            | Some t => list_eqb (enc_res (Ok t)) obs
            | None => true end)]
  | _ => pbad end.
(* 1251: command register restored. [before; after] *)
Definition mon_cmd (ins : list N) : list N :=
  match ins with [a; b] => [b2n (a =? b)] | _ => pbad end.
(* 1252: all six BAR registers restored. [6 before; 6 after] *)
Definition mon_bars (ins : list N) : list N :=
  let '(a, b) := take_n 6 ins in [b2n ((lenN a =? 6) && list_eqb a b)].
(* 1253: no sizing pattern while decoding is enabled. [fn; n; trace (w, off, val, cmd logged by the twin)]:
   (a) every all-ones BAR write was issued with both decode bits clear (as logged),
   (b) replaying the writes on the reference function, BARs hold their original content whenever
       decoding is enabled,
   (c) no register other than the command register and the six BARs is written *)
Definition mon_decode (ins : list N) : list N :=
  match take_fn ins with
  | Some (d, n :: r) =>
      let tr := dec_trace (pcnt n r) r in
      [b2n ((lenN tr =? n) && sizing_writes_safe tr && decode_safe (bar_vals d) d tr
            (* (c) probing writes the command register and the six BAR registers only *)
            && forallb (fun a => negb (a_write a) || is_bar_off (a_off a) || (a_off a =? 4)) tr)]
  | _ => pbad end.
(* 1254: bars(): every BAR of the layout reported as it is, upper halves reported absent.
   [6 x (kind, mask, val); 6 x info(5)] *)
Fixpoint bars_truth (fuel : nat) (bs : list slot) (i : N) (obs : list (list N)) : bool :=
  match fuel with
  | O => true
  | S f =>
      if 6 <=? i then true else
      match slot_truth bs i with
      | None => true   (* not a well-formed layout: nothing is required of the result *)
      | Some t =>
          list_eqb (enc_info t) (nthN obs i [])
          && (if takes_two t then list_eqb (enc_info None) (nthN obs (i + 1) []) && bars_truth f bs (i + 2) obs
              else bars_truth f bs (i + 1) obs)
      end
  end.
Fixpoint chunk5 (fuel : nat) (l : list N) : list (list N) :=
  match fuel, l with
  | S f, a :: b :: c :: d :: e :: r => [a; b; c; d; e] :: chunk5 f r
  | _, _ => []
  end.
Definition mon_bars_truth (ins : list N) : list N :=
  let '(bs, obs) := take_slots 6 ins in
  [b2n ((lenN bs =? 6) && (lenN obs =? 30) && bars_truth 6 bs 0 (chunk5 6 obs))].

(* 1205: cam_offset / MmioCam: [ecam; bus; dev; fn; reg; class; offset]: for a valid 4-aligned request
   the offset is inside the window, 4-aligned and decodes back to the request (hence injective);
   otherwise it is refused, or at least stays inside the window *)
Definition mon_cam (ins : list N) : list N :=
  match ins with
  | [e; b; d; f; r; cls; off] =>
      let sh := if n2b e then 4096 else 256 in
      let insz := (off <? cam_size (n2b e)) && (off mod 4 =? 0) in
      [b2n (if (b <? 256) && (d <? 32) && (f <? 8) && (r <? 256) && (r mod 4 =? 0) then
              (cls =? 0) && insz && (off mod sh =? r) && ((off / sh) mod 8 =? f)
              && ((off / sh / 8) mod 32 =? d) && (off / sh / 256 =? b)
            else (cls =? 2) || insz)]
  | _ => pbad end.
(* 1207: whole-space sweep counted by the harness:
   [ecam; tuples; distinct offsets; outside window; misaligned; refused] *)
Definition mon_cam_all (ins : list N) : list N :=
  match ins with
  | [e; n; distinct; oob; mis; refused] =>
      [b2n ((n =? 4194304) && (distinct =? n) && (oob =? 0) && (mis =? 0) && (refused =? 0))]
  | _ => pbad end.

(* 1255: enumeration: [n; population (distinct (dev,fn)); count; items(10 each)]:
   items strictly increasing in (dev, fn), each a listed present function with fields decoded from the
   right bit ranges, and as many items as present functions *)
Fixpoint pop_find (p : list (N * N * (N * N * N))) (dev fn : N) : option (N * N * N) :=
  match p with
  | [] => None
  | (d, f, w) :: t => if (d =? dev) && (f =? fn) then Some w else pop_find t dev fn
  end.
Fixpoint items_ok (fuel : nat) (p : list (N * N * (N * N * N))) (bus last : N) (l : list N) : bool :=
  match fuel, l with
  | _, [] => true
  | S f', b :: d :: fn :: ven :: dv :: cl :: sc :: pi :: rev :: hdr :: r =>
      (b =? bus) && (last <? 1 + d * 8 + fn) && (d <? 32) && (fn <? 8)
      && match pop_find p d fn with
         | Some (w0, w2, w3) =>
             negb (w0 =? ones32)
             && (ven =? w0 mod 65536) && (dv =? (w0 / 65536) mod 65536)
             && (cl =? (w2 / 16777216) mod 256) && (sc =? (w2 / 65536) mod 256)
             && (pi =? (w2 / 256) mod 256) && (rev =? w2 mod 256)
             && (hdr =? (w3 / 65536) mod 128)
         | None => false end
      && items_ok f' p bus (1 + d * 8 + fn) r
  | _, _ => false
  end.
Definition mon_enum (ins : list N) : list N :=
  match ins with
  | bus :: n :: r =>
      let '(p, rest) := take_pop (pcnt n r) r in
      match rest with
      | cnt :: items =>
          let present := lenN (filter (fun e => let '(d, f, (a, _, _)) := e in
                                         negb (a =? ones32) && (d <? 32) && (f <? 8)) p) in
          [b2n ((cnt =? present) && (lenN items =? 10 * cnt) && items_ok (pcnt cnt items) p bus 0 items)]
      | _ => pbad end
  | _ => pbad end.

(* 1256: capability walk of a well-formed list: [n; intended (offset, id, private) x n; count; observed] *)
Definition mon_caps (ins : list N) : list N :=
  match ins with
  | n :: r =>
      let '(want, rest) := take_n (3 * pcnt n r) r in
      match rest with
      | cnt :: got => [b2n ((cnt =? n) && list_eqb want got)]
      | _ => pbad end
  | _ => pbad end.

Definition pci_monitor (k : N) (ins : list N) : list N :=
  if k =? 1250 then mon_truth ins else
  if k =? 1251 then mon_cmd ins else
  if k =? 1252 then mon_bars ins else
  if k =? 1253 then mon_decode ins else
  if k =? 1254 then mon_bars_truth ins else
  if k =? 1205 then mon_cam ins else
  if k =? 1207 then mon_cam_all ins else
  if k =? 1255 then mon_enum ins else
  if k =? 1256 then mon_caps ins else pbad.

Definition pci_step (k : N) (ins : list N) : list N :=
  if k =? 1201 then run_cam ins else
  if k =? 1202 then run_mmiocam false ins else
  if k =? 1203 then run_mmiocam true ins else
  if k =? 1206 then run_cam_bus ins else
  if k =? 1210 then run_bar_info ins else
  if k =? 1211 then run_bars ins else
  if k =? 1212 then run_get_sc ins else
  if k =? 1213 then run_set_cmd ins else
  if k =? 1220 then run_enum ins else
  if k =? 1230 then run_caps ins else
  pci_monitor k ins.
Definition pci_is_monitor (k : N) : bool :=
  (k =? 1205) || (k =? 1207) || ((1250 <=? k) && (k <? 1260)).
