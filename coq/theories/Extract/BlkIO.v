(* Flat encodings of the block-driver model (C14), kinds 1400..1499.                                   *)
(*  1400 new        ins dev_features :: ntries :: (g1 lo_ok lo hi_ok hi g2)*                            *)
(*                  outs [class; code; capacity; readonly; indirect; event_idx] ++ tevs ++ [99] ++ tevs *)
(*  1401 submit_nb  ins [op; sector; taddr; ae; uf; hdr_id; hdr_addr; data_id; data_len; data_addr;    *)
(*                       resp_id; resp_addr]   outs [class; token] ++ header bytes (16) ++ events       *)
(*  1402 complete   ins [op; token; u_idx; u_id; u_len; st; hdr_id; data_id; data_len; resp_id]         *)
(*                  outs [class; code] ++ events                                                        *)
(*  1403 blocking   ins [op; sector; taddr; ae; uf; u_id; u_len; st; hdr_id; hdr_addr; data_id;         *)
(*                       data_len; data_addr; resp_id; resp_addr; npolls] ++ polls ++ id bytes          *)
(*                  outs [class; value; spins] ++ events                                                *)
(*  1404 peek_used  ins [u_idx; u_id]  outs [has; token]                                                *)
(*  1405 accessors  outs [capacity; readonly; queue size]                                               *)
(*  1406 enable/disable_interrupts  ins [enable]  outs events                                           *)
(*  1450..1454 monitors (see below): inputs observed on the implementation, expected output [1]         *)
From VD Require Import Base.Words Model.Queue Model.Blk Model.BlkSpec Extract.QueueIO.

Definition enc_bev (e : bev) : list N :=
  match e with BQ q => enc_qev q | BNotify => [11] end.
Definition enc_bevs (l : list bev) : list N := concat (map enc_bev l).

Definition enc_tev (e : tev) : list N :=
  match e with
  | TSetStatus v => [1; v]
  | TReadFeatures => [2]
  | TWriteFeatures v => [3; v]
  | TGuestPageSize v => [4; v]
  | TReadGen => [5]
  | TReadConfig off len => [6; off; len]
  end.
Definition enc_tevs (l : list tev) : list N := concat (map enc_tev l).

Definition dec_op (n : N) : option bop :=
  if n =? 0 then Some OpIn else if n =? 1 then Some OpOut else if n =? 4 then Some OpFlush
  else if n =? 8 then Some OpGetId else None.

Definition opt (ok v : N) : option N := if ok =? 0 then None else Some v.

Fixpoint take_tries (k : nat) (l : list N) : list cfg_try :=
  match k, l with
  | S k', g1 :: lo_ok :: lo :: hi_ok :: hi :: g2 :: rest =>
      mkTry g1 (opt lo_ok lo) (opt hi_ok hi) g2 :: take_tries k' rest
  | _, _ => []
  end.

Definition run_new (ins : list N) : option bstate * list N :=
  match ins with
  | feats :: ntries :: rest =>
      match blk_new feats (take_tries (cnt ntries rest) rest) with
      | None => (None, [4; 0; 0; 0; 0; 0])
      | Some (Ok s, pre, post) =>
          (Some s, [0; 0; blk_capacity s; b2n (blk_readonly s); b2n (q_indirect (b_q s)); b2n (q_event_idx (b_q s))]
                     ++ enc_tevs pre ++ [99] ++ enc_tevs post)
      | Some (Err e, pre, post) => (None, [1; e; 0; 0; 0; 0] ++ enc_tevs pre ++ [99] ++ enc_tevs post)
      | Some (Panic, pre, post) => (None, [2; 0; 0; 0; 0; 0] ++ enc_tevs pre ++ [99] ++ enc_tevs post)
      | Some (UB, pre, post) => (None, [3; 0; 0; 0; 0; 0] ++ enc_tevs pre ++ [99] ++ enc_tevs post)
      end
  | _ => (None, [77777])
  end.

Definition run_submit (s : bstate) (ins : list N) : bstate * list N :=
  match ins with
  | [op; sector; taddr; ae; uf; hdr_id; hdr_addr; data_id; data_len; data_addr; resp_id; resp_addr] =>
      match dec_op op with
      | Some o =>
          let r := mkReq o sector (mkBuf hdr_id 16 hdr_addr) (mkBuf data_id data_len data_addr) (mkBuf resp_id 1 resp_addr) in
          let '(res, s', evs) := blk_submit s r taddr ae uf in
          (s', enc_outcome res ++ (match res with Panic => [] | _ => hdr_bytes r end) ++ enc_bevs evs)
      | None => (s, [77777])
      end
  | _ => (s, [77777])
  end.

Definition run_complete (s : bstate) (ins : list N) : bstate * list N :=
  match ins with
  | [op; token; u_idx; u_id; u_len; st; hdr_id; data_id; data_len; resp_id] =>
      match dec_op op with
      | Some o =>
          let r := mkReq o 0 (mkBuf hdr_id 16 0) (mkBuf data_id data_len 0) (mkBuf resp_id 1 0) in
          let '(res, s', evs) := blk_complete s token r u_idx u_id u_len st in
          (s', enc_unit_outcome res ++ enc_bevs evs)
      | None => (s, [77777])
      end
  | _ => (s, [77777])
  end.

Definition enc_req_result {A} (f : A -> N) (x : option (outcome A * bstate * list bev * N)) (s : bstate)
  : bstate * list N :=
  match x with
  | None => (s, [4; 0; 0])
  | Some (Ok v, s', evs, sp) => (s', [0; f v; sp] ++ enc_bevs evs)
  | Some (Err e, s', evs, sp) => (s', [1; e; sp] ++ enc_bevs evs)
  | Some (Panic, s', evs, sp) => (s', [2; 0; sp] ++ enc_bevs evs)
  | Some (UB, s', evs, sp) => (s', [3; 0; sp] ++ enc_bevs evs)
  end.

Definition run_blocking (s : bstate) (ins : list N) : bstate * list N :=
  match ins with
  | op :: sector :: taddr :: ae :: uf :: u_id :: u_len :: st :: hdr_id :: hdr_addr :: data_id :: data_len
       :: data_addr :: resp_id :: resp_addr :: npolls :: rest =>
      let k := cnt npolls rest in
      let polls := firstn k rest in
      let idbytes := skipn k rest in
      let hdr := mkBuf hdr_id 16 hdr_addr in
      let data := mkBuf data_id data_len data_addr in
      let resp := mkBuf resp_id 1 resp_addr in
      match dec_op op with
      | Some OpFlush => enc_req_result (fun _ => 0) (blk_flush s hdr resp taddr ae uf polls u_id u_len st) s
      | Some OpGetId =>
          enc_req_result (fun v => v) (blk_device_id s hdr data resp taddr ae uf polls u_id u_len st idbytes) s
      | Some o => enc_req_result (fun _ => 0) (blk_request s (mkReq o sector hdr data resp) taddr ae uf polls u_id u_len st) s
      | None => (s, [77777])
      end
  | _ => (s, [77777])
  end.

Definition blk_step (st : option bstate) (k : N) (ins : list N) : option bstate * list N :=
  if k =? 1400 then run_new ins else
  match st with
  | None => (st, [77777])
  | Some s =>
      if k =? 1401 then let '(s', o) := run_submit s ins in (Some s', o) else
      if k =? 1402 then let '(s', o) := run_complete s ins in (Some s', o) else
      if k =? 1403 then let '(s', o) := run_blocking s ins in (Some s', o) else
      if k =? 1404 then
        match ins with
        | [ui; uid] => (st, match blk_peek_used s ui uid with Some v => [1; v] | None => [0; 0] end)
        | _ => (st, [77777]) end else
      if k =? 1405 then (st, [blk_capacity s; b2n (blk_readonly s); blk_queue_size]) else
      if k =? 1406 then
        match ins with
        | [en] => let '(s', evs) := blk_set_interrupts s (n2b en) in (Some s', enc_bevs evs)
        | _ => (st, [77777]) end
      else (st, [77777])
  end.

(* ---------------- monitors: the property evaluated on what the implementation did ---------------- *)
Fixpoint take_parts (k : nat) (l : list N) : list (N * bool) * list N :=
  match k, l with
  | S k', len :: w :: rest => let '(ps, r) := take_parts k' rest in ((len, n2b w) :: ps, r)
  | _, _ => ([], l)
  end.

(* 1450: one request as the reference device received it.
   ins [type the caller asked for; sector; data length; device-read data == caller's data (writes);
        n; (len, writable) * n; the bytes of the first element as read through its device address] *)
Definition mon_wire (ins : list N) : bool :=
  match ins with
  | ty :: sector :: data_len :: data_ok :: n :: rest =>
      let '(parts, hdr) := take_parts (cnt n rest) rest in
      match spec_decode_hdr hdr, spec_shape ty data_len with
      | Some (t, rs, sec), Some shape =>
          (t =? ty) && (rs =? 0) && (sec =? sector) && shape_eqb parts shape && (data_ok =? 1)
      | _, _ => false
      end
  | _ => false
  end.

(* 1451: one completion. ins [status byte the device wrote for THIS token; class; code;
        caller's data buffer == the bytes the device supplied for THIS token (reads / id; 1 otherwise);
        buffers of the other outstanding requests untouched; live shares == those of the outstanding requests] *)
Definition mon_result (ins : list N) : bool :=
  match ins with
  | [st; class; code; data_ok; others_ok; shares_ok] =>
      result_conforms st class code && (data_ok =? 1) && (others_ok =? 1) && (shares_ok =? 1)
  | _ => false
  end.

(* 1452: ins [capacity_low; capacity_high (stable config values); capacity(); device features;
              features the driver accepted; readonly()] *)
Definition mon_config (ins : list N) : bool :=
  match ins with
  | [lo; hi; cap; dev_feats; accepted; ro] =>
      (* capacity and read-only state as the device exposes them; WHICH offered features the driver accepts is C08's clause
         (monitors 850 / 852), not C14's: an earlier version also demanded here that RO and FLUSH are accepted exactly when
         offered and would have refused a driver that declines FLUSH, which C14 allows (it then never sends a flush) *)
      (cap =? spec_capacity lo hi)
      && Bool.eqb (n2b ro) (spec_readonly dev_feats)
  | _ => false
  end.

(* 1453: flush. ins [features accepted; requests the device received during the call; type of that
              request; result class; result code; status the device answered] *)
Definition mon_flush (ins : list N) : bool :=
  match ins with
  | [accepted; seen; ty; class; code; st] =>
      if spec_may_flush accepted then (seen =? 1) && (ty =? T_FLUSH) && result_conforms st class code
      (* without the feature nothing is sent; what flush() returns then is not the property's business (blk.rs returns Ok;
         an earlier version of this monitor demanded Ok) *)
      else (seen =? 0)
  | _ => false
  end.

(* 1454: differential check of the reference disk against the caller-side expectation.
   ins [sectors compared; all equal] *)
Definition mon_disk (ins : list N) : bool :=
  match ins with
  | [_; eq] => eq =? 1
  | _ => false
  end.

Definition blk_monitor (k : N) (ins : list N) : list N :=
  if k =? 1450 then [b2n (mon_wire ins)] else
  if k =? 1451 then [b2n (mon_result ins)] else
  if k =? 1452 then [b2n (mon_config ins)] else
  if k =? 1453 then [b2n (mon_flush ins)] else
  if k =? 1454 then [b2n (mon_disk ins)] else [77777].

Definition blk_is_monitor (k : N) : bool := (1450 <=? k) && (k <? 1460).
