(* Flat entry points used by the correspondence runner: one model step per trace line.  *)
(* step st kind inputs = (st', expected observations).                                   *)
(* Kinds flagged by is_monitor have inputs that are *observed* on the implementation and  *)
(* a constant expected output: a mismatch there is a property violation on the real code. *)
From VD Require Import Base.Words Model.Layout Model.Queue Extract.QueueIO Extract.QueueMon Extract.OwningIO Extract.MmioIO Model.PciBus Extract.PciBusIO Extract.PciIO Model.Blk Extract.BlkIO Model.Console Extract.ConsoleIO Extract.ConfigIO Extract.NetIO Extract.ConnMgrIO Extract.VsockIO Extract.InitIO Model.Gpu Extract.GpuIO Extract.MiscIO Model.Sound Extract.SoundIO Model.Input Extract.InputIO Extract.InputCfgIO.
(* C09: required without Import (qualified use below), so that its short names shadow nothing here *)
From VD Require Extract.TeardownIO.
(* C11 / C13, x86-64 hypercall PCI transport: required without Import as well *)
From VD Require Model.HypPci Extract.HypPciIO.
(* the alloc-less build of the crate (kind 3): Model/QueueNoAlloc.v *)
From VD Require Import Model.QueueNoAlloc Extract.QueueNoAllocIO.

Inductive mstate :=
| MNone
| MTag (n : N)
| MQueue (q : qstate)
| MOwning (q : option qstate)
| MBlk (b : option bstate)
| MConsole (c : option cio)
| MNet (n : option netst)
| MSound (s : option sstate)
| MConnMgr (c : option cmio)
| MVsock (s : option vstate)
| MTeardown (t : option TeardownIO.tio)
| MGpu (g : option gstate)
| MMisc (q : option qstate)
| MPci (t : option Model.Pci.ptrans)
| MInput (i : option istate)
| MHyp (t : option HypPci.htrans)
| MNoAlloc (inner : mstate).   (* the scenario comes from the alloc-less build; `inner` is its model state *)

Definition bad : list N := [77777].

(* diagnostic kinds: private driver state; a mismatch is reported but is no verdict by itself *)
Definition is_diag (k : N) : bool := (k =? 140).

Definition is_monitor (k : N) : bool :=
  (k =? 1) || (k =? 2) || (k =? 612) || (k =? 613) || ((149 <=? k) && (k <? 170)) || (k =? 1950) || (k =? 1951) || (k =? 1952) || mmio_is_monitor k || pci_is_monitor k || blk_is_monitor k || console_is_monitor k || config_is_monitor k || net_is_monitor k || connmgr_is_monitor k || vsock_is_monitor k || TeardownIO.teardown_is_monitor k || init_is_monitor k || gpu_is_monitor k || misc_is_monitor k || pcit_is_monitor k || sound_is_monitor k || input_is_monitor k || HypPciIO.hyp_is_monitor k || na_is_monitor k || inputcfg_is_monitor k || sndevt_is_monitor k.

Definition dir_reads (d : N) : bool := (d =? 0) || (d =? 2).
Definition dir_writes (d : N) : bool := (d =? 1) || (d =? 2).

Definition step_alloc (st : mstate) (k : N) (ins : list N) : mstate * list N :=
  (* generic: 1 = ledger violations, 2 = leaked regions / shares; both expected 0 *)
  if k =? 1 then (st, [0]) else
  if k =? 2 then (st, [0]) else
  (* ---- C06 ---- *)
  if k =? 601 then (st, match ins with [x] => [align_up x] | _ => bad end) else
  if k =? 602 then (st, match ins with [x] => [pages x] | _ => bad end) else
  if k =? 603 then (st, match ins with [n] => [desc_size n; avail_size n; used_size n] | _ => bad end) else
  if k =? 610 then (st, run_queue_new ins) else
  if k =? 611 then (st, match ins with [n] => [0; n - 1; 0] | _ => bad end) else
  if k =? 612 then
    (st, match ins with
         | [legacy; n; desc; drv; dev; a1; p1; a2; p2; d1; d2] =>
             [b2n (regions_ok_b (n2b legacy) n desc drv dev a1 p1 a2 p2
                   && dir_reads d1 && dir_writes d2)]
         | _ => bad end)
  else
  (* 613 MONITOR (C06): [transport forbids; result class; allocations; registrations; registered size; requested size] *)
  if k =? 613 then
    (st, match ins with
         | [forbid; cls; na; ns; rsz; n] =>
             [b2n (if forbid =? 1 then (cls =? 1) && (na =? 0) && (ns =? 0)
                   else implb (cls =? 0) ((ns =? 1) && (rsz =? n)))]
         | _ => bad end)
  else
  (* ---- C10: MMIO transport (kinds 1000..1099) ---- *)
  if (1000 <=? k) && (k <? 1100) then (st, mmio_step k ins) else
  (* ---- C08: initialisation handshake and feature gating (kinds 800..899) ---- *)
  if (800 <=? k) && (k <? 900) then (st, init_step k ins) else
  (* ---- C11 / C13: x86-64 pKVM hypercall PCI transport (kinds 1130..1199, 1360..1398) ---- *)
  if HypPciIO.hyp_kind k then
    (let t := match st with MHyp t => t | _ => None end in
     let '(t', o) := HypPciIO.hyp_step t k ins in (MHyp t', o)) else
  (* ---- virtqueue core (C01-C05, C07, C19) ---- *)
  if k =? 100 then
    match ins with
    | [size; ind; ev] => (MQueue (qnew size (n2b ind) (n2b ev)), [])
    | _ => (st, bad) end
  else if (1000 <=? k) && (k <? 1100) then (st, mmio_step k ins)
  else if (1200 <=? k) && (k <? 1300) then (st, pci_step k ins)
  (* ---- C13 / C07: VirtIOInput configuration queries (kinds 1320..1339) ---- *)
  else if (1320 <=? k) && (k <? 1340) then (st, inputcfg_step k ins)
  else if (1300 <=? k) && (k <? 1400) then (st, config_step k ins)
  (* ---- C14: block driver (kinds 1400..1499) ---- *)
  else if (1400 <=? k) && (k <? 1500) then
    (if blk_is_monitor k then (st, blk_monitor k ins) else
     let b := match st with MBlk b => b | _ => None end in
     let '(b', o) := blk_step b k ins in (MBlk b', o))
  (* ---- C15: console (kinds 1500..1599) ---- *)
  else if (1500 <=? k) && (k <? 1600) then
    (let c := match st with MConsole c => c | _ => None end in
     let '(c', o) := console_step c k ins in (MConsole c', o))
  (* ---- C16: network drivers (kinds 1600..1699) ---- *)
  else if net_is_monitor k then (st, net_monitor k ins)
  else if (1600 <=? k) && (k <? 1650) then
    (let n := match st with MNet n => n | _ => None end in
     let '(n', o) := net_step n k ins in (MNet n', o))
  (* ---- C18: vsock connection manager (kinds 1800..1899) ---- *)
  else if (1800 <=? k) && (k <? 1900) then
    (let c := match st with MConnMgr c => c | _ => None end in
     let '(c', o) := connmgr_step c k ins in (MConnMgr c', o))
  (* ---- C17: vsock credit and ring buffer (kinds 1700..1799) ---- *)
  else if (1700 <=? k) && (k <? 1800) then
    (let s := match st with MVsock s => s | _ => None end in
     let '(s', o) := vsock_step s k ins in (MVsock s', o))
  (* ---- C09: construction / teardown (kinds 900..999) ---- *)
  else if (900 <=? k) && (k <? 1000) then
    (if TeardownIO.teardown_is_monitor k then (st, TeardownIO.teardown_monitor k ins) else
     let t := match st with MTeardown t => t | _ => None end in
     let '(t', o) := TeardownIO.teardown_step t k ins in (MTeardown t', o))
  (* ---- C20, GPU part (kinds 2000..2033) ---- *)
  else if (2000 <=? k) && (k <=? 2033) then
    (if gpu_is_monitor k then (st, gpu_monitor k ins) else
     let g := match st with MGpu g => g | _ => None end in
     let '(g', o) := gpu_step g k ins in (MGpu g', o))
  (* ---- C20, rng / rtc / 9p part (kinds 2067..2099) ---- *)
  else if (2067 <=? k) && (k <? 2100) then
    (if misc_is_monitor k then (st, misc_monitor k ins) else
     let q := match st with MMisc q => q | _ => None end in
     let '(q', o) := misc_step q k ins in (MMisc q', o))
  (* ---- C11: PCI transport (kinds 1100..1199) ---- *)
  else if (1100 <=? k) && (k <? 1200) then
    (let t := match st with MPci t => t | _ => None end in
     let '(t', o) := pcit_step t k ins in (MPci t', o))
  (* ---- C20, sound driver (kinds 2034..2066) ---- *)
  else if (2034 <=? k) && (k <=? 2066) then
    (if sound_is_monitor k then (st, sound_monitor k ins) else
     let s := match st with MSound s => s | _ => None end in
     let '(s', o) := sound_step s k ins in (MSound s', o))
  (* ---- C19 / C07: VirtIOInput event queue (kinds 1960..1979) ---- *)
  else if (1960 <=? k) && (k <? 1980) then
    (if input_is_monitor k then (st, input_monitor k ins) else
     let i := match st with MInput i => i | _ => None end in
     let '(i', o) := input_step i k ins in (MInput i', o))
  (* ---- C19: VirtIOSound event queue / latest_notification (kinds 1980..1989; the state is the event queue) ---- *)
  else if (1980 <=? k) && (k <? 1990) then
    (if sndevt_is_monitor k then (st, sndevt_monitor k ins) else
     let q := match st with MOwning q => q | _ => None end in
     let '(q', o) := sndevt_step q k ins in (MOwning q', o))
  (* 1952 MONITOR (C19, socket receive): [header.len; length of the body handed on; body = bytes after the header] *)
  else if k =? 1952 then (st, match ins with [hl; bl; same] => [b2n ((hl =? bl) && (same =? 1))] | _ => bad end)
  else if k =? 1950 then (st, [b2n (mon_owning ins)])
  else if k =? 1951 then (st, [b2n (mon_input ins)])
  else if (1900 <=? k) && (k <? 1950) then
    let q := match st with MOwning q => q | _ => None end in
    let '(q', o) := owning_step q k ins in (MOwning q', o)
  else if (149 <=? k) && (k <? 170) then (st, queue_monitor k ins)
  else if (100 <? k) && (k <? 150) then
    match st with
    | MQueue q => let '(q', o) := queue_step q k ins in (MQueue q', o)
    | _ => (st, bad) end
  else (st, bad).

(* ---- the alloc-less build (`--no-default-features`) ----
   A kind-3 line at the start of a scenario says that the trace comes from the harness variant built without the cargo
   feature `alloc`.  From then on: VirtQueue::new / add / pop_used / available_desc are those of Model/QueueNoAlloc.v, the
   other queue kinds and every monitor are the shared ones, and a queue created by a driver model (blk, raw net, rng / rtc)
   is forced to `q_indirect = false` (see Extract/QueueNoAllocIO.v). *)
Definition step_na (st : mstate) (k : N) (ins : list N) : mstate * list N :=
  if k =? 100 then match na_queue_new ins with Some q => (MQueue q, []) | None => (st, bad) end
  else if na_is_monitor k then (st, na_monitor k ins)
  else if (100 <? k) && (k <? 150) then
    match st with
    | MQueue q => let '(q', o) := na_queue_step q k ins in (MQueue q', o)
    | _ => (st, bad) end
  else
    let '(st', o) := step_alloc st k ins in
    (match st' with
     | MQueue q => MQueue (na_force_q q)
     | MBlk (Some b) => MBlk (Some (na_force_blk b))
     | MNet (Some n) => MNet (Some (na_force_net n))
     | MMisc (Some q) => MMisc (Some (na_force_q q))
     | _ => st'
     end, o).

Definition step (st : mstate) (k : N) (ins : list N) : mstate * list N :=
  match st with
  | MNoAlloc i => let '(i', o) := step_na i k ins in (MNoAlloc i', o)
  | _ => if k =? 3 then (MNoAlloc MNone, []) else step_alloc st k ins
  end.
