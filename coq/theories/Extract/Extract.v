From VD Require Import Base.Words Extract.Dispatch.
Require Extraction.
Require Import ExtrOcamlBasic.
Extraction Language OCaml.
Extraction "model.ml" Dispatch.step Dispatch.is_monitor Dispatch.is_diag Dispatch.MNone
  N.add N.mul N.div_eucl N.eqb N.of_nat.
