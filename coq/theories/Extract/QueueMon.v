(* Property monitors evaluated on what the IMPLEMENTATION exposes (device-visible memory as read by
   the reference device, ledger of the instrumented platform).  They are the boolean forms of the
   statements proved about the model in Proofs/; see Properties/C01.v .. C04.v. *)
From VD Require Import Base.Words Model.Queue.

Fixpoint take2 (k : nat) (l : list N) : list (N * N) * list N :=
  match k, l with
  | S k', a :: b :: r => let '(x, y) := take2 k' r in ((a, b) :: x, y)
  | _, _ => ([], l)
  end.
Fixpoint take5 (k : nat) (l : list N) : list (N * N * N * N * N) * list N :=
  match k, l with
  | S k', a :: b :: c :: d :: e :: r => let '(x, y) := take5 k' r in ((a, b, c, d, e) :: x, y)
  | _, _ => ([], l)
  end.
Fixpoint takeN (k : nat) (l : list N) : list N * list N :=
  match k, l with
  | S k', a :: r => let '(x, y) := takeN k' r in (a :: x, y)
  | _, _ => ([], l)
  end.

(* bounded conversion: never build a unary number larger than the list being parsed *)
Definition cnt (k : N) (l : list N) : nat := N.to_nat (N.min k (lenN l)).

Fixpoint nodupb (l : list N) : bool :=
  match l with
  | [] => true
  | x :: t => negb (existsb (N.eqb x) t) && nodupb t
  end.

(* raw walk entries (idx, addr, len, flags, next) form a well-linked direct chain inside a table of
   `size` descriptors *)
Fixpoint linked (size : N) (es : list (N * N * N * N * N)) : bool :=
  match es with
  | [] => false
  | [(i, _, _, f, _)] => (i <? size) && negb (has_flag f F_NEXT) && negb (has_flag f F_INDIRECT)
  | (i, _, _, f, nx) :: (((j, _, _, _, _) :: _) as rest) =>
      (i <? size) && has_flag f F_NEXT && negb (has_flag f F_INDIRECT) && (nx =? j) && linked size rest
  end.

(* table entries are numbered 0.. and chained k -> k+1 *)
Fixpoint table_linked (k : N) (es : list (N * N * N * N * N)) : bool :=
  match es with
  | [] => false
  | [(i, _, _, f, _)] => (i =? k) && negb (has_flag f F_NEXT) && negb (has_flag f F_INDIRECT)
  | (i, _, _, f, nx) :: rest =>
      (i =? k) && has_flag f F_NEXT && negb (has_flag f F_INDIRECT) && (nx =? k + 1) && table_linked (k + 1) rest
  end.

(* elements (addr, len, writable) against the expected buffers: first n_in readable, the rest writable *)
Fixpoint elems_match (es : list (N * N * N * N * N)) (exp : list (N * N)) (n_in : nat) : bool :=
  match es, exp with
  | [], [] => true
  | (_, a, l, f, _) :: es', (ea, el) :: exp' =>
      (a =? ea) && (l =? el)
      && Bool.eqb (has_flag f F_WRITE) (match n_in with O => true | S _ => false end)
      && elems_match es' exp' (pred n_in)
  | _, _ => false
  end.

Definition mon_publish (ins : list N) : bool :=
  match ins with
  | size :: indirect :: old_idx :: tok :: ring_val :: aidx_now :: n_in :: n_out :: r0 =>
      let n := n_in + n_out in
      let '(exp, r1) := take2 (cnt n r0) r0 in
      match r1 with
      | n_others :: r2 =>
          let '(others, r3) := takeN (cnt n_others r2) r2 in
          match r3 with
          | is_ind :: bad :: hflags :: hlen :: m :: r4 =>
              let '(es, _) := take5 (cnt m r4) r4 in
              let idxs := if is_ind =? 1 then [tok] else map (fun e => match e with (i, _, _, _, _) => i end) es in
              (ring_val =? tok) && (aidx_now =? w16 (old_idx + 1)) && (bad =? 0) && (m =? n) && (tok <? size)
              && (if is_ind =? 1
                  then (indirect =? 1) && (1 <? n) && (hflags =? F_INDIRECT) && (hlen =? 16 * n) && table_linked 0 es
                  (* a direct chain is well-formed on any queue: the property asks that indirect tables are used ONLY when enabled,
                     not that they are used whenever they could be (an earlier version demanded `indirect = 0 or n = 1` here) *)
                  else linked size es
                       && match es with (i, _, _, _, _) :: _ => i =? tok | [] => false end)
              && elems_match es exp (cnt n_in r0)
              && nodupb (idxs ++ others)
          | _ => false
          end
      | _ => false
      end
  | _ => false
  end.

Fixpoint all_pairs (sel : N * N -> N) (l : list (N * N)) : bool :=
  match l with [] => true | p :: t => (sel p =? 1) && all_pairs sel t end.

(* kind 152: [success; n; (matches_device, unchanged)*n; completed] *)
Definition mon_data (ins : list N) : bool :=
  match ins with
  | success :: n :: r =>
      let '(ps, r1) := take2 (cnt n r) r in
      match r1 with
      | [completed] =>
          if success =? 1 then (completed =? 1) && all_pairs fst ps else all_pairs snd ps
      | _ => false
      end
  | _ => false
  end.

(* kind 155: [event_idx; new; old; ev; uflags; observed; size] *)
Definition mon_notify (ins : list N) : bool :=
  match ins with
  | [eidx; new; old; ev; uflags; obs; size] =>
      if eidx =? 1 then (if need_event ev new old then obs =? 1 else true)
      else obs =? b2n (N.land uflags 1 =? 0)
  | _ => false
  end.

(* kind 156: [event_idx; ev; uflags; old; new; notified; gave_up; class; policy; spins] *)
Definition mon_cosim (ins : list N) : bool :=
  match ins with
  | [eidx; ev; uflags; old; new; notified; gave_up; class; pol; spins] =>
      let required := if eidx =? 1 then need_event ev new old else (N.land uflags 1 =? 0) in
      (gave_up =? 0) && (class =? 0)
      && (if required then 1 <=? notified else true)
      && (if (eidx =? 0) && negb required then notified =? 0 else true)
  | _ => false
  end.

(* kind 164 (C05 at driver level): a blocking driver operation against a scripted device.
   [gave_up; policy (0 = serves on notify only, 1 = polls, 2 = serves late); n; (event_idx; new; old; ev; uflags)*n]:
   the rounds in which the operation made buffers available on queues the device serves.  The operation must have
   returned (gave_up = 0: it never waited on a device that was not told) whenever the device polls, and for a
   notification-driven device whenever every round was one the specification wants announced *)
Fixpoint all_required (k : nat) (l : list N) : bool :=
  match k, l with
  | S k', eidx :: new :: old :: ev :: uf :: r =>
      (if eidx =? 1 then need_event ev new old else (N.land uf 1 =? 0)) && all_required k' r
  | _, _ => true
  end.
Definition mon_blocking (ins : list N) : bool :=
  match ins with
  | gave_up :: pol :: n :: r =>
      if (pol =? 0) && negb (all_required (cnt n r) r) then true else gave_up =? 0
  | _ => false
  end.

(* kind 160 (C07): [outcome class (0 ok, 1 error, 2 clean panic); delivered length within the buffer;
   number of contract violations the instrumented platform has seen (unshare / dealloc not matching a live
   share / allocation)] *)
Definition mon_safe (ins : list N) : bool :=
  match ins with
  | class :: len_ok :: viol :: _ => (class <=? 2) && (len_ok =? 1) && (viol =? 0)
  | _ => false
  end.

(* kind 165 (C07, driver level): one public operation of a driver against an adversarial device:
   [driver; operation; outcome class; detail (the error code of an Err, the message class of a panic, the signal
    of a dead process); length returned to the caller; capacity of the buffer that length refers to;
    platform-contract violations seen so far; heap frees that hit memory shared with the live device, plus caller
    buffers handed back while the device still owns them, so far].
   Outcome class: 0 = Ok, 1 = Err, 2 = a panic that unwound cleanly, 3 = the process died (abort, signal: a
   non-unwinding failure), 4 = the harness itself failed. The clause is: the call ended in a result, an error or a
   clean panic; no slice handed out or filled by the driver exceeds its backing buffer (the harness supplies length
   and capacity only for such operations: 0 / 0 elsewhere; a device-reported number that the driver merely passes
   through - rng, 9p, net (hdr_len, pkt_len) - is not subject to this clause); no unshare / dealloc without a
   matching live share / allocation; no free of memory the device still owns. *)
Definition mon_drv_safe (ins : list N) : bool :=
  match ins with
  | [drv; op; class; detail; ret; cap; viol; frees] =>
      (class <=? 2) && (ret <=? cap) && (viol =? 0) && (frees =? 0)
  | _ => false
  end.

(* kind 166 (C07, driver level): the same history on the same device answers, once plain and once with the device
   scribbling over descriptor table and available ring after every driver write:
   [driver; the caller-visible results are equal; number of result items; first differing item] *)
Definition mon_drv_indep (ins : list N) : bool :=
  match ins with
  | [drv; equal; n; first] => equal =? 1
  | _ => false
  end.

Definition queue_monitor (k : N) (ins : list N) : list N :=
  if k =? 160 then [b2n (mon_safe ins)] else
  (* kind 168 (C03): [available_desc(); queue size; descriptors held by the outstanding chains; indirect queue]: the counts
     are exact (on an indirect queue available_desc() reports SIZE while a descriptor is free, else 0) *)
  if k =? 168 then match ins with
                   | [free; size; held; ind] => [b2n (if ind =? 1 then free =? (if held =? size then 0 else size) else free + held =? size)]
                   | _ => [77777] end else
  (* kind 167 (C04): add_notify_wait_pop refused because an earlier chain completed first:
     [class; is WrongToken; unshares during the refused call; shares during it; expected shares; class of the later pop of
      the helper's own chain; unshares of that pop; platform-contract violations]: the refusal is WrongToken, the buffers
     were shared once and stay shared until their own completion is consumed, which unshares each exactly once *)
  if k =? 167 then match ins with
                   | [class; wrong; un1; sh; esh; class2; un2; viol] =>
                       [b2n ((class =? 1) && (wrong =? 1) && (un1 =? 0) && (sh =? esh) && (class2 =? 0) && (un2 =? esh) && (viol =? 0))]
                   | _ => [77777] end else
  (* kind 163 (C03 / C04): [buffers; queue size; class; is QueueFull; shares; state unchanged]: a chain longer than the
     queue is refused with QueueFull, shares nothing and changes nothing *)
  if k =? 163 then match ins with
                   | [n; size; class; full; shares; same] =>
                       [b2n (implb (size <? n) ((class =? 1) && (full =? 1) && (shares =? 0) && (same =? 1)))]
                   | _ => [77777] end else
  (* kind 149 (C01 / C03 / C04 / C07): an add during which the heap refused the indirect table
     [buffers; queue size; class; the refused allocation was reached; shares; private and device-visible state unchanged;
      every other outstanding chain still reads as before]: the call ends in an error or a clean panic with nothing shared and
      nothing changed; if the driver copes with the refusal and accepts the submission, no outstanding chain is touched *)
  if k =? 149 then match ins with
                   | [n; size; class; hit; shares; same; others] =>
                       [b2n (implb (hit =? 1) (((class =? 1) || (class =? 2)) && (shares =? 0) && (same =? 1) || (class =? 0) && (others =? 1)))]
                   | _ => [77777] end else
  if k =? 165 then [b2n (mon_drv_safe ins)] else
  if k =? 166 then [b2n (mon_drv_indep ins)] else
  (* kind 161 (C03): [pending at the cursor; the used element names the token; the submission is the token's; consumed]:
     a published completion for the presented token is consumed *)
  if k =? 161 then match ins with [pend; names; own; ok] => [b2n (implb ((pend =? 1) && (names =? 1) && (own =? 1)) (ok =? 1))] | _ => [77777] end else
  (* kind 162 (C03): [pending; id at the cursor; can_pop; peek is Some; peeked token]: what the device has published is
     visible: can_pop iff pending, peek_used = Some (id mod 2^16) iff pending *)
  if k =? 162 then match ins with
                   | [pend; uid; cp; pk; tok] => [b2n ((cp =? pend) && (pk =? pend) && implb (pend =? 1) (tok =? uid mod 65536))]
                   | _ => [77777] end else
  (* kind 159 (C03): after a refused poll [private state unchanged; number of effects] *)
  if k =? 159 then match ins with [same; nev] => [b2n ((same =? 1) && (nev =? 0))] | _ => [77777] end else
  (* kind 158 (C02): [instants checked; instants at which an entry below the visible index was incomplete] *)
  if k =? 158 then match ins with [checks; viol] => [b2n (viol =? 0)] | _ => [77777] end else
  if k =? 155 then [b2n (mon_notify ins)] else
  if k =? 164 then [b2n (mon_blocking ins)] else
  if k =? 156 then [b2n (mon_cosim ins)] else
  if k =? 157 then match ins with [ue; lu] => [b2n (ue =? lu)] | _ => [77777] end else
  if k =? 150 then [b2n (mon_publish ins)] else
  if k =? 152 then [b2n (mon_data ins)] else
  if k =? 153 then match ins with [en; fl] => [b2n (fl =? (if en =? 1 then 0 else 1))] | _ => [77777] end else
  if k =? 154 then match ins with [live; expect] => [b2n (live =? expect)] | _ => [77777] end else
  [77777].
