(* Flat encodings for the vsock credit / ring buffer model (C17), kinds 1700..1799.               *)
(* Correspondence kinds (the model predicts the observation):                                     *)
(*  1700 init      ins [mode; guest; peer_cid; peer_port; local_port; cap; pba; pfc; tx; fwd; pend] *)
(*  1701 send      ins [len]        outs [class; code] ++ counters ++ pkts                        *)
(*  1702 poll      ins buffer bytes outs [class; code; has_event] ++ event(8) ++ counters ++ [used; start] ++ pkts *)
(*  1703 recv      ins [out_len]    outs [class; n] ++ bytes ++ counters ++ [used; start]         *)
(*  1704 update_credit ins []       outs [0] ++ pkts                                              *)
(*  1705 buffer    ins []           outs contents of the connection's ring buffer                 *)
(*  1710 VirtIOSocket::send on a preset ConnectionInfo (stateless)                                *)
(*                 ins [mode; dst_cid; dst_port; src_port; pba; pfc; tx; buf_alloc; fwd; pend; src_cid; len] *)
(*                 outs [class; code] ++ counters ++ pkts                                         *)
(*  1711 read_header_and_body ins bytes  outs [class; code] (++ header(10) ++ [body_len] ++ body)  *)
(*  1712 done_forwarding ins [mode; fwd; length] outs [class; fwd']                               *)
(*  1720 RingBuffer::new ins [cap] outs [used; start; cap]                                        *)
(*  1721 add       ins bytes        outs [class; ok; used; start] ++ buffer                       *)
(*  1722 drain     ins [out_len]    outs [class; n] ++ bytes ++ [used; start; rest of out untouched] *)
(*  1723 set_cursor ins [used; start] (verification hook)                                         *)
(* counters = [peer_buf_alloc; peer_fwd_cnt; tx_cnt; fwd_cnt; pending]                            *)
(* pkts (model side) = [n] ++ per packet the 10 header fields and the payload length              *)
(* Monitor kinds (inputs observed on the implementation, expected output [1]):                    *)
(*  1751/1752/1753 bounded FIFO: new [cap] / add [ok] ++ bytes / drain [out_len; n] ++ bytes      *)
(*  1760 observer init [guest; peer_cid; peer_port; local_port; cap; rx_base; tx_base; inflight; alloc; req] *)
(*  1761 send [len; class; code] ++ opkts      1762 peer control packet [op; alloc; k; class; has_event] ++ opkts *)
(*  1763 peer data [alloc; k; class; n] ++ bytes ++ opkts    1764 recv [out_len; class; n] ++ bytes ++ opkts *)
(*  1765 update_credit [class] ++ opkts        1766 other packet: opkts (exactly one)             *)
(*  1767 header bytes against the fields asked for [10 fields] ++ 44 bytes                        *)
(*  1770 credit rule on 32-bit counters [pba; pfc; tx; pend; len; class; code; tx'; pend'; npkts; op; hlen; plen] *)
(*  1771 done_forwarding [fwd; length; class; fwd']                                               *)
(* opkts (observed) = [n] ++ per packet 44 header bytes, payload length, payload intact           *)
From VD Require Import Base.Words Model.Vsock Model.VsockSpec.

(* which code the model stands for: true = after the repairs (C17_F7, C17_F9), false = as found *)
Definition vsock_fixed : bool := true.

Record vstate := mkVS {
  vs_mode : mode; vs_guest : N; vs_v : vconn;
  vs_rb : ringbuf;
  vs_spec : sspec;
  vs_qcap : N; vs_q : list N }.

Definition vs0 : vstate :=
  mkVS Debug 0 (vconn_new 0 0 0 1) (rb_new 1) (spec_init 0 0 0 0 1 0 0 0 0 false) 1 [].
Definition vk_get (st : option vstate) : vstate := match st with Some s => s | None => vs0 end.

Definition vcnt (k : N) (l : list N) : nat := N.to_nat (N.min k (lenN l)).
Definition vk_takeN (k : N) (l : list N) : list N * list N := let n := vcnt k l in (firstn n l, skipn n l).
Definition vk_dec_mode (n : N) : mode := if n =? 0 then Debug else Release.
Definition vk_MAXCAP : N := 1048576.

Definition vk_enc_hdr_fields (h : hdr) : list N :=
  [h_src_cid h; h_dst_cid h; h_src_port h; h_dst_port h; h_len h; h_type h; h_op h; h_flags h; h_buf_alloc h; h_fwd_cnt h].
Definition vk_enc_pkt (p : pkt) : list N := match p with Pkt h n => vk_enc_hdr_fields h ++ [n] end.
Definition vk_enc_pkts (l : list pkt) : list N := lenN l :: concat (map vk_enc_pkt l).
Definition vk_enc_counters (c : conn) : list N :=
  [c_peer_buf_alloc c; c_peer_fwd_cnt c; c_tx_cnt c; c_fwd_cnt c; b2n (c_pending c)].
Definition vk_enc_unit (o : outcome unit) : list N :=
  match o with Ok _ => [0; 0] | Err e => [1; e] | Panic => [2; 0] | UB => [3; 0] end.
Definition vk_enc_evtype (t : evtype) : list N :=
  match t with
  | TConnectionRequest => [1; 0] | TConnected => [2; 0] | TDisconnected r => [3; b2n r]
  | TReceived n => [4; n] | TCreditRequest => [5; 0] | TCreditUpdate => [6; 0] end.
Definition vk_enc_event (e : option event) : list N :=
  match e with
  | Some e => [e_src_cid e; e_src_port e; e_dst_cid e; e_dst_port e; e_buf_alloc e; e_fwd_cnt e] ++ vk_enc_evtype (e_type e)
  | None => [0; 0; 0; 0; 0; 0; 0; 0]
  end.

Fixpoint vk_take_opkts (k : nat) (l : list N) : list opkt * list N :=
  match k with
  | O => ([], l)
  | S k' =>
      match skipn 44 l with
      | plen :: intact :: r =>
          let '(ps, rest) := vk_take_opkts k' r in ((firstn 44 l, plen, n2b intact) :: ps, rest)
      | _ => ([], [])
      end
  end.
Definition vk_dec_opkts (l : list N) : list opkt :=
  match l with n :: r => fst (vk_take_opkts (vcnt n r) r) | [] => [] end.

Definition vk_set_v (s : vstate) (v : vconn) : vstate := mkVS (vs_mode s) (vs_guest s) v (vs_rb s) (vs_spec s) (vs_qcap s) (vs_q s).
Definition vk_set_rb (s : vstate) (rb : ringbuf) : vstate := mkVS (vs_mode s) (vs_guest s) (vs_v s) rb (vs_spec s) (vs_qcap s) (vs_q s).
Definition vk_set_spec (s : vstate) (sp : sspec) : vstate := mkVS (vs_mode s) (vs_guest s) (vs_v s) (vs_rb s) sp (vs_qcap s) (vs_q s).
Definition vk_set_q (s : vstate) (cap : N) (q : list N) : vstate := mkVS (vs_mode s) (vs_guest s) (vs_v s) (vs_rb s) (vs_spec s) cap q.

Definition vk_run_send (m : mode) (c : conn) (src_cid len : N) : outcome unit * conn * list pkt :=
  if vsock_fixed then send c src_cid len else send_prefix m c src_cid len.
Definition vk_run_recv (m : mode) (v : vconn) (out_len : N) : outcome (list N) * vconn :=
  if vsock_fixed then recv v out_len else recv_prefix m v out_len.
Definition vk_run_done_forwarding (m : mode) (c : conn) (n : N) : outcome conn :=
  if vsock_fixed then Ok (done_forwarding c n) else done_forwarding_prefix m c n.

Definition vk_mon (r : sspec * bool) (s : vstate) : option vstate * list N :=
  (Some (vk_set_spec s (fst r)), [b2n (snd r)]).

Definition vsock_step (st : option vstate) (k : N) (ins : list N) : option vstate * list N :=
  let s := vk_get st in
  let bad := (st, [77777]) in
  if k =? 1700 then
    match ins with
    | [m; guest; pc; pp; lp; cap; pba; pfc; tx; fwd; pend] =>
        let cap := N.min cap vk_MAXCAP in
        let c := mkConn pc pp lp pba pfc tx cap fwd (n2b pend) in
        (Some (mkVS (vk_dec_mode m) guest (mkV c (rb_new cap)) (vs_rb s) (vs_spec s) (vs_qcap s) (vs_q s)), [])
    | _ => bad end
  else if k =? 1701 then
    match ins with
    | [len] =>
        let '(o, c, p) := vk_run_send (vs_mode s) (v_info (vs_v s)) (vs_guest s) len in
        (Some (vk_set_v s (mkV c (v_rb (vs_v s)))), vk_enc_unit o ++ vk_enc_counters c ++ vk_enc_pkts p)
    | _ => bad end
  else if k =? 1702 then
    match poll_packet (vs_v s) (vs_guest s) ins with
    | Some (o, v, p) =>
        let r := match o with
                 | Ok (Some e) => [0; 0; 1] ++ vk_enc_event (Some e)
                 | Ok None => [0; 0; 0] ++ vk_enc_event None
                 | Err e => [1; e; 0] ++ vk_enc_event None
                 | Panic => [2; 0; 0] ++ vk_enc_event None
                 | UB => [3; 0; 0] ++ vk_enc_event None end in
        (Some (vk_set_v s v), r ++ vk_enc_counters (v_info v) ++ [rb_used (v_rb v); rb_start (v_rb v)] ++ vk_enc_pkts p)
    | None => bad end
  else if k =? 1703 then
    match ins with
    | [out_len] =>
        let '(o, v) := vk_run_recv (vs_mode s) (vs_v s) out_len in
        let r := match o with Ok b => [0; lenN b] ++ b | Err e => [1; e] | Panic => [2; 0] | UB => [3; 0] end in
        (Some (vk_set_v s v), r ++ vk_enc_counters (v_info v) ++ [rb_used (v_rb v); rb_start (v_rb v)])
    | _ => bad end
  else if k =? 1704 then (st, 0 :: vk_enc_pkts (vupdate_credit (vs_v s) (vs_guest s)))
  else if k =? 1705 then (st, rb_buf (v_rb (vs_v s)))
  else if k =? 1710 then
    match ins with
    | [m; dc; dp; sp; pba; pfc; tx; ba; fwd; pend; src; len] =>
        let '(o, c, p) := vk_run_send (vk_dec_mode m) (mkConn dc dp sp pba pfc tx ba fwd (n2b pend)) src len in
        (st, vk_enc_unit o ++ vk_enc_counters c ++ vk_enc_pkts p)
    | _ => bad end
  else if k =? 1711 then
    (st, match read_header_and_body ins with
         | Ok (h, body) => [0; 0] ++ vk_enc_hdr_fields h ++ [lenN body] ++ body
         | Err e => [1; e] | Panic => [2; 0] | UB => [3; 0] end)
  else if k =? 1712 then
    match ins with
    | [m; fwd; n] =>
        (st, match vk_run_done_forwarding (vk_dec_mode m) (mkConn 0 0 0 0 0 0 0 fwd false) n with
             | Ok c => [0; c_fwd_cnt c] | Err e => [1; e] | Panic => [2; 0] | UB => [3; 0] end)
    | _ => bad end
  else if k =? 1720 then
    match ins with
    | [cap] => let cap := N.min cap vk_MAXCAP in (Some (vk_set_rb s (rb_new cap)), [0; 0; cap])
    | _ => bad end
  else if k =? 1721 then
    let '(o, rb) := rb_add (vs_rb s) ins in
    (Some (vk_set_rb s rb),
     match o with Ok b => [0; b2n b] | Err e => [1; e] | Panic => [2; 0] | UB => [3; 0] end
     ++ [rb_used rb; rb_start rb] ++ rb_buf rb)
  else if k =? 1722 then
    match ins with
    | [out_len] =>
        let '(o, rb) := rb_drain (vs_rb s) out_len in
        (Some (vk_set_rb s rb),
         match o with Ok b => [0; lenN b] ++ b | Err e => [1; e] | Panic => [2; 0] | UB => [3; 0] end
         ++ [rb_used rb; rb_start rb; 1])
    | _ => bad end
  else if k =? 1723 then
    match ins with
    | [used; start] => (Some (vk_set_rb s (mkRB (rb_buf (vs_rb s)) used start)), [])
    | _ => bad end
  (* ---- monitors ---- *)
  else if k =? 1751 then
    match ins with [cap] => (Some (vk_set_q s cap []), [1]) | _ => bad end
  else if k =? 1752 then
    match ins with
    | ok :: bytes =>
        if 1 <? ok then (st, [0])   (* the call panicked *)
        else let '(q, b) := mon_fifo_add (vs_qcap s) (vs_q s) bytes (n2b ok) in (Some (vk_set_q s (vs_qcap s) q), [b2n b])
    | _ => bad end
  else if k =? 1753 then
    match ins with
    | out_len :: n :: bytes => let '(q, b) := mon_fifo_drain (vs_q s) out_len n bytes in (Some (vk_set_q s (vs_qcap s) q), [b2n b])
    | _ => bad end
  else if k =? 1760 then
    match ins with
    | [guest; pc; pp; lp; cap; rxb; txb; infl; alloc; req] =>
        (Some (vk_set_spec s (spec_init guest pc pp lp cap rxb txb infl alloc (n2b req))), [1])
    | _ => bad end
  else if k =? 1761 then
    match ins with
    | len :: class :: code :: r => vk_mon (mon_send (vs_spec s) len class code (vk_dec_opkts r)) s
    | _ => bad end
  else if k =? 1762 then
    match ins with
    | op :: alloc :: kk :: class :: has :: r => vk_mon (mon_peer_ctrl (vs_spec s) op alloc kk class (n2b has) (vk_dec_opkts r)) s
    | _ => bad end
  else if k =? 1763 then
    match ins with
    | alloc :: kk :: class :: n :: r =>
        let '(bytes, r') := vk_takeN n r in vk_mon (mon_peer_data (vs_spec s) bytes alloc kk class (vk_dec_opkts r')) s
    | _ => bad end
  else if k =? 1764 then
    match ins with
    | out_len :: class :: n :: r =>
        let '(bytes, r') := vk_takeN n r in vk_mon (mon_recv (vs_spec s) out_len class n bytes (vk_dec_opkts r')) s
    | _ => bad end
  else if k =? 1765 then
    match ins with
    | class :: r => vk_mon (mon_update_credit (vs_spec s) class (vk_dec_opkts r)) s
    | _ => bad end
  else if k =? 1766 then
    match vk_dec_opkts ins with
    | [p] => vk_mon (mon_other_pkt (vs_spec s) p) s
    | _ => (st, [0]) end
  else if k =? 1767 then
    match ins with
    | f1 :: f2 :: f3 :: f4 :: f5 :: f6 :: f7 :: f8 :: f9 :: f10 :: bytes =>
        (st, [b2n match spec_dec bytes with
                  | Some h => list_eqb (vk_enc_hdr_fields h) [f1; f2; f3; f4; f5; f6; f7; f8; f9; f10] && (lenN bytes =? 44)
                  | None => false end])
    | _ => bad end
  else if k =? 1770 then
    match ins with
    | [pba; pfc; tx; pend; len; class; code; tx'; pend'; npkts; op; hlen; plen] =>
        let free := pba - sub32 tx pfc in
        (st, [b2n (if len <=? free
                   then (class =? 0) && (tx' =? add32 tx len) && (pend' =? pend) && (npkts =? 1) && (op =? OP_RW) && (hlen =? len) && (plen =? len)
                   else (class =? 1) && (code =? SE_InsufficientBufferSpaceInPeer) && (tx' =? tx) && (pend' =? 1)
                        && (if pend =? 0 then (npkts =? 1) && (op =? OP_CREDIT_REQUEST) && (hlen =? 0) && (plen =? 0) else npkts =? 0))])
    | _ => bad end
  else if k =? 1771 then
    match ins with
    | [fwd; n; class; fwd'] => (st, [b2n ((class =? 0) && (fwd' =? add32 fwd (w32 n)))])
    | _ => bad end
  else bad.

Definition vsock_is_monitor (k : N) : bool := ((1751 <=? k) && (k <=? 1753)) || ((1760 <=? k) && (k <=? 1771)).
