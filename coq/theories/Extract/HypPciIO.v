(* Flat encodings of the x86-64 pKVM hypercall PCI transport (Model/HypPci.v) for the correspondence     *)
(* runner: kinds 1130..1199 (C11), 1257 (C12) and 1360..1398 (C13).  The model state is the transport   *)
(* the MODEL                                                                                             *)
(* constructed (kind 1131); every later operation line (1140) is predicted from it.                     *)
(*  1131 new              ins [mode; cmd; status; 6 x (kind, mask, val); 64 registers]                   *)
(*                        outs [class; a; b; c; 99] ++ regions (paddr, size) ++ [99; cmd; status;        *)
(*                             6 BAR values; 99] ++ configuration accesses (write, offset, value, cmd)   *)
(*                        class 0 = transport (a = device type, b = multiplier), 1 = error (code,        *)
(*                        payloads), 2 = panic, 4 = would not terminate (never run on the real code)     *)
(*  1132 new MONITOR      ins [cmd; status; 6 x (kind, mask, val); 64 registers; class; multiplier; n]   *)
(*                             ++ n x (paddr, size): the regions of the transport that came back         *)
(*  1140 operation        ins [wrapped; mode; opcode; a1..a5] ++ answers   outs [class; value] ++ trace  *)
(*                        opcode: Model/Pci.v op_code, 13 = read_config_generation, 14 = drop            *)
(*  1141 operation MONITOR ins [7 window numbers; opcode; a1..a5; class; value] ++ observed trace        *)
(*  1142 MONITOR          ins [n] ++ n x (address, size) of the allocated memory BARs ++ observed trace  *)
(*                        of an operation: every hypercall inside one of them                            *)
(*  1143 session MONITOR  ins [7 window numbers] ++ observed trace of the whole life                     *)
(*  1150 HypCam word      ins [mode; ecam; phys_base; bus; dev; fn; reg; is_write; data; answer]         *)
(*                        outs [class; value] ++ trace                                                    *)
(*  1151 HypCam MONITOR   ins [ecam; phys_base; bus; dev; fn; reg; is_write; data; class; value] ++ trace *)
(*  1152 HypCam MONITOR   ins [ecam; phys_base; bus; dev; fn; n] ++ n x (is_write, register, value) ++    *)
(*                        observed trace: the i-th hypercall IS the i-th configuration access            *)
(*  1257 HypCam MONITOR (C12) ins [ecam; phys_base; n] ++ n x (bus, dev, fn, reg, class, number of hypercalls,  *)
(*                        address, size of the first hypercall): every valid request went to EXACTLY           *)
(*                        phys_base + offset (in N), inside [phys_base, phys_base + window), distinct requests  *)
(*                        to distinct addresses; invalid ones were refused without a hypercall                 *)
(*  1361 config read      ins [wrapped; mode; present; base; size; s; a; off; answer] outs [class; value] ++ trace *)
(*  1363 config write     ins [wrapped; mode; present; base; size; s; a; off; v]      outs [class; code] ++ trace  *)
(*  1362 config MONITOR   ins [present; base; size; s; a; off; is_write; v; class; value] ++ observed trace *)
(* A hypercall trace is flattened as (is_write, physical address, size, data) per hypercall.             *)
From VD Require Import Base.Words Model.PciBus Model.Pci Model.PciSpec Model.HypPci Extract.PciIO.

(* the version of the code the implementation is expected to follow *)
Definition HIMPL : hfixes := HFIXED.

Definition enc_hnres (r : hnres) : list N :=
  match r with
  | HNOk t => [0; ht_devtype t; ht_mult t; 0; 99]
              ++ [r_paddr (ht_common t); r_size (ht_common t); r_paddr (ht_notify t); r_size (ht_notify t);
                  r_paddr (ht_isr t); r_size (ht_isr t)]
              ++ match ht_cfg t with Some r => [r_paddr r; r_size r] | None => [] end
  | HNErr c p q => [1; c; p; q; 99]
  | HNPanic => [2; 0; 0; 0; 99]
  | HNDiverge => [4; 0; 0; 0; 99]
  end.

Definition hrun_new (ins : list N) : option htrans * list N :=
  match ins with
  | m :: r =>
      match take_fn_regs r with
      | Some (d, []) =>
          let '(res, s) := hyp_new (hx_pci HIMPL) (cmode m) d in
          (match res with HNOk t => Some t | _ => None end,
           enc_hnres res ++ [99; f_cmd (n_fn s); f_status (n_fn s)]
           ++ bar_vals (n_fn s) ++ [99] ++ enc_cfg_trace (n_log s))
      | _ => (None, cbad)
      end
  | _ => (None, cbad)
  end.

Fixpoint dec_pairs (fuel : nat) (l : list N) : list (N * N) :=
  match fuel, l with
  | S f, p :: s :: r => (p, s) :: dec_pairs f r
  | _, _ => []
  end.
Fixpoint drop_n {A} (k : nat) (l : list A) : list A :=
  match k, l with
  | S k', _ :: r => drop_n k' r
  | _, _ => l
  end.

Definition hmon_new (ins : list N) : list N :=
  match take_fn_regs ins with
  | Some (d, rc :: mult :: n :: r) =>
      let regs := dec_pairs (ccnt n r) r in
      [b2n ((lenN regs =? n) && (lenN r =? 2 * n) && hyp_new_conform_b d rc mult regs)]
  | _ => cbad
  end.

Definition hrun_op (st : option htrans) (ins : list N) : list N :=
  match st, ins with
  | Some t, wrapped :: m :: opc :: a1 :: a2 :: a3 :: a4 :: a5 :: ans =>
      if opc =? 13 then
        let '(r, tr) := if n2b wrapped then some_hyp_read_gen HIMPL (cmode m) t ans
                        else hyp_read_gen HIMPL (cmode m) t ans in
        enc_outcome r ++ enc_mtrace tr
      else
      match op_decode opc a1 a2 a3 a4 a5 with
      | Some o =>
          let '(r, tr) := if n2b wrapped then some_hexec (cmode m) t o ans else hexec (cmode m) t o ans in
          enc_outcome r ++ enc_mtrace tr
      | None => cbad
      end
  | _, _ => cbad
  end.

Definition hmon_op (ins : list N) : list N :=
  match take_wins ins with
  | Some (w, opc :: a1 :: a2 :: a3 :: a4 :: a5 :: rc :: rv :: tr) =>
      [b2n (hyp_conform_b w opc a1 a2 a3 a4 a5 rc rv (dec_mtrace (length tr) tr))]
  | _ => cbad
  end.
Definition hmon_bars (ins : list N) : list N :=
  match ins with
  | n :: r =>
      let bars := dec_pairs (ccnt n r) r in
      let tr := drop_n (2 * length bars) r in
      [b2n ((lenN bars =? n) && in_bars_b bars (dec_mtrace (length tr) tr))]
  | _ => cbad
  end.
Definition hmon_session (ins : list N) : list N :=
  match take_wins ins with
  | Some (w, tr) => [b2n (hyp_session_b w (dec_mtrace (length tr) tr))]
  | None => cbad
  end.

Definition hrun_cam (ins : list N) : list N :=
  match ins with
  | [m; ecam; base; bus; dev; fn; reg; wr; data; ans] =>
      let '(r, tr) := if n2b wr then hyp_cam_write (cmode m) (n2b ecam) base bus dev fn reg data
                      else hyp_cam_read (cmode m) (n2b ecam) base bus dev fn reg ans in
      enc_outcome r ++ enc_mtrace tr
  | _ => cbad
  end.
Definition hmon_cam (ins : list N) : list N :=
  match ins with
  | ecam :: base :: bus :: dev :: fn :: reg :: wr :: data :: rc :: rv :: tr =>
      [b2n (hyp_cam_conform_b (n2b ecam) base bus dev fn reg (n2b wr) data rc rv (dec_mtrace (length tr) tr))]
  | _ => cbad
  end.
(* the configuration accesses of a whole `new` made through HypCam: (is_write, register, value) each,
   against the hypercalls observed, pairwise *)
Fixpoint cam_pairs (ecam : bool) (base bus dev fn : N) (accs : list N) (tr : list macc) : bool :=
  match accs, tr with
  | [], [] => true
  | wr :: reg :: v :: r, x :: t =>
      match cam_offset ecam bus dev fn reg with
      | Ok off => Bool.eqb (m_write x) (n2b wr) && (m_addr x =? base + off) && (m_width x =? 4) && (m_val x =? v)
                  && (off <? cam_size ecam) && (base + cam_size ecam <=? two64)
      | _ => false
      end && cam_pairs ecam base bus dev fn r t
  | _, _ => false
  end.
Definition hmon_cam_new (ins : list N) : list N :=
  match ins with
  | ecam :: base :: bus :: dev :: fn :: n :: r =>
      let k := ccnt (3 * n) r in
      let tr := drop_n k r in
      [b2n ((N.of_nat k =? 3 * n) && cam_pairs (n2b ecam) base bus dev fn (fst (ctake k r)) (dec_mtrace (length tr) tr))]
  | _ => cbad
  end.

(* C12: the addresses of a batch of HypCam requests *)
Fixpoint dec_camobs (fuel : nat) (l : list N) : list camobs :=
  match fuel, l with
  | S f, b :: d :: fn :: r :: c :: k :: a :: w :: rest => mkCO b d fn r c k a w :: dec_camobs f rest
  | _, _ => []
  end.
Definition hmon_cam_addrs (ins : list N) : list N :=
  match ins with
  | ecam :: base :: n :: r =>
      let obs := dec_camobs (ccnt n r) r in
      [b2n ((lenN obs =? n) && (lenN r =? 8 * n) && hyp_cam_addrs_b (n2b ecam) base obs)]
  | _ => cbad
  end.

(* configuration access: a transport whose device-specific region is (base, size), nothing else matters *)
Definition cfg_trans (present base size : N) : htrans :=
  mkHT 0 (mkHR 0 0) (mkHR 0 0) 0 (mkHR 0 0) (if n2b present then Some (mkHR base size) else None).
Definition hrun_cfg_read (ins : list N) : list N :=
  match ins with
  | [wrapped; m; present; base; size; s; a; off; ans] =>
      let t := cfg_trans present base size in
      let '(r, tr) := if n2b wrapped then some_hyp_cfg_read (cmode m) t s a off ans
                      else hyp_cfg_read (cmode m) t s a off ans in
      enc_outcome r ++ enc_mtrace tr
  | _ => cbad
  end.
Definition hrun_cfg_write (ins : list N) : list N :=
  match ins with
  | [wrapped; m; present; base; size; s; a; off; v] =>
      let t := cfg_trans present base size in
      let '(r, tr) := if n2b wrapped then some_hyp_cfg_write (cmode m) t s a off v
                      else hyp_cfg_write (cmode m) t s a off v in
      enc_outcome r ++ enc_mtrace tr
  | _ => cbad
  end.
Definition hmon_cfg (ins : list N) : list N :=
  match ins with
  | present :: base :: size :: s :: a :: off :: wr :: v :: rc :: rv :: tr =>
      [b2n (hyp_cfg_conform_b (n2b present) base size s a off (n2b wr) v rc rv (dec_mtrace (length tr) tr))]
  | _ => cbad
  end.

Definition hyp_step (st : option htrans) (k : N) (ins : list N) : option htrans * list N :=
  if k =? 1131 then hrun_new ins else
  if k =? 1132 then (st, hmon_new ins) else
  if k =? 1140 then (st, hrun_op st ins) else
  if k =? 1141 then (st, hmon_op ins) else
  if k =? 1142 then (st, hmon_bars ins) else
  if k =? 1143 then (st, hmon_session ins) else
  if k =? 1150 then (st, hrun_cam ins) else
  if k =? 1151 then (st, hmon_cam ins) else
  if k =? 1152 then (st, hmon_cam_new ins) else
  if k =? 1257 then (st, hmon_cam_addrs ins) else
  if k =? 1361 then (st, hrun_cfg_read ins) else
  if k =? 1362 then (st, hmon_cfg ins) else
  if k =? 1363 then (st, hrun_cfg_write ins) else
  (st, cbad).

(* the kinds this file owns *)
Definition hyp_kind (k : N) : bool := ((1130 <=? k) && (k <? 1200)) || ((1360 <=? k) && (k <? 1399)) || (k =? 1257).
Definition hyp_is_monitor (k : N) : bool :=
  (k =? 1132) || (k =? 1141) || (k =? 1142) || (k =? 1143) || (k =? 1151) || (k =? 1152) || (k =? 1362) || (k =? 1257).
