(* Flat encodings of queue operations / observations for the correspondence runner. *)
From VD Require Import Base.Words Model.Queue.

Definition enc_desc (d : desc) : list N := [d_addr d; d_len d; d_flags d; d_next d].

Definition enc_qev (e : qev) : list N :=
  match e with
  | QShare id len w addr => [1; id; len; b2n w; addr]
  | QShareTable head n addr => [2; head; n; addr]
  | QUnshare addr id len w => [3; addr; id; len; b2n w]
  | QUnshareTable addr head n => [4; addr; head; n]
  | QStoreDesc i d => 5 :: i :: enc_desc d
  | QStoreRing slot head => [6; slot; head]
  | QFence => [7]
  | QStoreIdx v => [8; v]
  | QStoreFlags v => [9; v]
  | QStoreUsedEvent v => [10; v]
  end.
Definition enc_qevs (l : list qev) : list N := concat (map enc_qev l).

(* k buffers encoded as (id, len, addr) triples *)
Fixpoint take_bufs3 (k : nat) (l : list N) : list ubuf * list N :=
  match k, l with
  | S k', id :: len :: addr :: rest =>
      let '(bs, r) := take_bufs3 k' rest in (mkBuf id len addr :: bs, r)
  | _, _ => ([], l)
  end.
(* k buffers encoded as (id, len) pairs (pop_used: the caller does not know device addresses) *)
Fixpoint take_bufs2 (k : nat) (l : list N) : list ubuf * list N :=
  match k, l with
  | S k', id :: len :: rest =>
      let '(bs, r) := take_bufs2 k' rest in (mkBuf id len 0 :: bs, r)
  | _, _ => ([], l)
  end.

Definition cnt (k : N) (l : list N) : nat := N.to_nat (N.min k (lenN l)).

Definition enc_unit_outcome (o : outcome unit) : list N :=
  match o with Ok _ => [0; 0] | Err e => [1; e] | Panic => [2; 0] | UB => [3; 0] end.

Definition run_add (s : qstate) (ins : list N) : qstate * list N :=
  match ins with
  | taddr :: n_in :: n_out :: rest =>
      let '(bi, r1) := take_bufs3 (cnt n_in rest) rest in
      let '(bo, _) := take_bufs3 (cnt n_out r1) r1 in
      let '(o, s', evs) := add s bi bo taddr in
      (s', enc_outcome o ++ enc_qevs evs)
  | _ => (s, [77777])
  end.

(* kind 111: an add during which the heap refuses the allocation of the indirect table (ins as for 110) *)
Definition run_add_af (s : qstate) (ins : list N) : qstate * list N :=
  match ins with
  | taddr :: n_in :: n_out :: rest =>
      let '(bi, r1) := take_bufs3 (cnt n_in rest) rest in
      let '(bo, _) := take_bufs3 (cnt n_out r1) r1 in
      let '(o, s', evs) := add_af s bi bo taddr false in
      (s', enc_outcome o ++ enc_qevs evs)
  | _ => (s, [77777])
  end.

Definition run_pop (s : qstate) (ins : list N) : qstate * list N :=
  match ins with
  | token :: u_idx :: u_id :: u_len :: n_in :: n_out :: rest =>
      let '(bi, r1) := take_bufs2 (cnt n_in rest) rest in
      let '(bo, _) := take_bufs2 (cnt n_out r1) r1 in
      let '(o, s', evs) := pop_used s token bi bo u_idx u_id u_len in
      (s', enc_outcome o ++ enc_qevs evs)
  | _ => (s, [77777])
  end.

Definition enc_private (s : qstate) : list N :=
  [q_num_used s; q_free_head s; q_avail_idx s; q_last_used s]
    ++ concat (map enc_desc (q_shadow s))
    ++ map (fun o => match o with Some _ => 1 | None => 0 end) (q_ind s).

Definition enc_visible (s : qstate) : list N :=
  [q_aflags s; q_aidx s; q_uevent s] ++ q_aring s ++ concat (map enc_desc (q_dtable s)).

Definition queue_step (s : qstate) (k : N) (ins : list N) : qstate * list N :=
  if k =? 101 then match ins with [v] => (qset_indices s v, []) | _ => (s, [77777]) end else
  if k =? 110 then run_add s ins else
  if k =? 111 then run_add_af s ins else
  if k =? 120 then run_pop s ins else
  if k =? 130 then match ins with [ae; uf] => (s, [b2n (should_notify s ae uf)]) | _ => (s, [77777]) end else
  if k =? 131 then match ins with [ui] => (s, [b2n (can_pop s ui)]) | _ => (s, [77777]) end else
  if k =? 132 then match ins with
                   | [ui; uid] => (s, match peek_used s ui uid with Some v => [1; v] | None => [0; 0] end)
                   | _ => (s, [77777]) end else
  if k =? 133 then (s, [available_desc s]) else
  if k =? 134 then match ins with
                   | [en] => let '(s', evs) := set_dev_notify s (n2b en) in (s', enc_qevs evs)
                   | _ => (s, [77777]) end else
  if k =? 140 then (s, enc_private s) else
  if k =? 141 then (s, enc_visible s) else
  (s, [77777]).
