(* Flat encodings for the vsock connection manager (C18), kinds 1800..1899.                                  *)
(*  1800 new            ins [mode(0 debug,1 release); guest cid; per-connection capacity; RX_BUFFER_SIZE]    *)
(*  1801 listen [p]   1802 unlisten [p]   1803 connect [cid; port; lp]   1804 send [cid; port; lp; data..]   *)
(*  1805 recv [cid; port; lp; n]   1806 recv_buffer_available_bytes   1807 is_connection_established          *)
(*  1808 update_credit   1809 shutdown   1810 force_close [cid; port; lp]   1811 is_local_port_used [p]      *)
(*  1812 poll [has; used_len; bytes of the completed rx buffer..]                                            *)
(*       outs of 1801..1812: result ++ [number of packets put on the tx queue] ++ per packet [len; bytes..]  *)
(*       (predicted by the IMPLEMENTATION model Model/ConnMgr.v)                                             *)
(*  1840 probe [(cid port lp)*] outs per key [present; established; available bytes]                         *)
(* MONITORS (expected output [1]): the property evaluated on what the implementation was seen to do         *)
(*  1851..1862 = 1801..1812 against the ABSTRACT SPEC (Model/ConnMgrSpec.v), which is advanced by these      *)
(*       lines only: ins [n; the n inputs of the operation; the observed outs]                               *)
(*  1890 probe against the spec: ins [nkeys; keys; observed]                                                 *)
(*  1891 frame: ins [has_key; cid; port; lp; (cid port lp  p e a  p' e' a')*]: no other key changes          *)
(*  1892 unknown / duplicate connections: ins [kind; present_before; class; code; ntx; present_after]        *)
(*  1893 rx stock: ins [buffers the device holds; completions not yet polled; queue size]                    *)
(*  1894 packet clauses: ins [framing_ok; for_us; op; len; present; avail; body_len; class; has_event;       *)
(*                            ntx; tx_op; present'; avail'; established']                                    *)
(*  1895 recv clauses: ins [present; avail; n; class; nbytes; ntx; tx_op; present'; avail']                  *)
(* TRANSMISSIONS THAT FAIL (the outcome of add_notify_wait_pop on the tx queue is an input):                  *)
(*  1821..1832 = 1801..1812 with ins [s1; e1; s2; e2] ++ the inputs of the operation: the outcome of the      *)
(*       transmission the operation may make, for a header-only packet (s1 e1) and for one with a payload     *)
(*       (s2 e2): s = 0 Ok, 1 `add` failed with error e (nothing published), 2 `pop_used` failed with e       *)
(*       (published, seen by the device); outs as 1801..1812, the packets being those the DEVICE saw          *)
(*  1871..1882 (monitors) = 1821..1832 against the abstract spec (sp_step_tx): ins [n; the n inputs; outs]    *)
(*  1896 a failed transmission leaves the connection as it was: ins [kind (1803..1812); s; e; present; est;   *)
(*       avail; class; code; present'; est'; avail'] (the key the operation / packet names, before and after)  *)
(*  1897 a failed send consumes no credit: ins [credit the peer granted; class; code; e; retry len; class']   *)
(*  1898 a peer shutdown whose RST cannot be sent is not forgotten: ins [class; code; e; send class; code]    *)
From VD Require Import Base.Words Model.ConnMgr Model.ConnMgrSpec.

Record cmio := mkIo { io_md : mode; io_m : cm; io_s : spec }.

Definition dec_md (n : N) : mode := if n =? 0 then Debug else Release.

Definition dec_op (k : N) (ins : list N) : option cop :=
  if k =? 1801 then match ins with [p] => Some (OpListen p) | _ => None end
  else if k =? 1802 then match ins with [p] => Some (OpUnlisten p) | _ => None end
  else if k =? 1803 then match ins with [c; p; l] => Some (OpConnect (mkAddr c p) l) | _ => None end
  else if k =? 1804 then match ins with c :: p :: l :: data => Some (OpSend (mkAddr c p) l data) | _ => None end
  else if k =? 1805 then match ins with [c; p; l; n] => Some (OpRecv (mkAddr c p) l n) | _ => None end
  else if k =? 1806 then match ins with [c; p; l] => Some (OpAvail (mkAddr c p) l) | _ => None end
  else if k =? 1807 then match ins with [c; p; l] => Some (OpEstablished (mkAddr c p) l) | _ => None end
  else if k =? 1808 then match ins with [c; p; l] => Some (OpUpdateCredit (mkAddr c p) l) | _ => None end
  else if k =? 1809 then match ins with [c; p; l] => Some (OpShutdown (mkAddr c p) l) | _ => None end
  else if k =? 1810 then match ins with [c; p; l] => Some (OpForceClose (mkAddr c p) l) | _ => None end
  else if k =? 1811 then match ins with [p] => Some (OpPortUsed p) | _ => None end
  else if k =? 1812 then
    match ins with
    | has :: ulen :: bytes => Some (OpPoll (if has =? 0 then None else Some (ulen, bytes)))
    | _ => None
    end
  else None.

Definition dec_txres (s e : N) : txres := if s =? 0 then TxOk else if s =? 1 then TxAddFail e else TxPopFail e.
Definition dec_txin (s1 e1 s2 e2 : N) : txin := (dec_txres s1 e1, dec_txres s2 e2).

Definition enc_etype (t : etype) : list N :=
  match t with
  | EtRequest => [0; 0]
  | EtConnected => [1; 0]
  | EtDisconnected false => [2; 0]
  | EtDisconnected true => [3; 0]
  | EtReceived len => [4; len]
  | EtCreditRequest => [5; 0]
  | EtCreditUpdate => [6; 0]
  end.

Definition enc_res (r : outcome rval) : list N :=
  match r with
  | Ok VUnit => [0; 0]
  | Ok (VNum n) => [0; 1; n]
  | Ok (VBytes l) => [0; 2; lenN l] ++ l
  | Ok (VEvent None) => [0; 3]
  | Ok (VEvent (Some ev)) =>
      [0; 4; a_cid (ev_src ev); a_port (ev_src ev); a_cid (ev_dst ev); a_port (ev_dst ev);
       ev_buf_alloc ev; ev_fwd_cnt ev] ++ enc_etype (ev_type ev)
  | Err e => [1; e]
  | Panic => [2; 0]
  | UB => [3; 0]
  end.

Definition enc_tx (tx : list pkt) : list N :=
  lenN tx :: concat (map (fun p => lenN (encode_pkt p) :: encode_pkt p) tx).

Definition enc_result (r : outcome rval) (tx : list pkt) : list N := enc_res r ++ enc_tx tx.

Fixpoint cm_list_eqb (a b : list N) : bool :=
  match a, b with
  | [], [] => true
  | x :: a', y :: b' => (x =? y) && cm_list_eqb a' b'
  | _, _ => false
  end.

Fixpoint cm_split_at (k : nat) (l : list N) : list N * list N :=
  match k, l with
  | O, _ => ([], l)
  | S k', x :: t => let '(a, b) := cm_split_at k' t in (x :: a, b)
  | S _, [] => ([], [])
  end.

Definition cm_cnt (k : N) (l : list N) : nat := N.to_nat (N.min k (lenN l)).

(* keys as triples *)
Fixpoint dec_keys (fuel : nat) (l : list N) : list key :=
  match fuel, l with
  | S f, c :: p :: lp :: rest => (c, p, lp) :: dec_keys f rest
  | _, _ => []
  end.

Definition enc_probe (o : option sentry) : list N :=
  match o with
  | None => [0; 0; 0]
  | Some e => [1; b2n (se_est e); lenN (se_buf e)]
  end.

(* the implementation model's view of a key: first match in the vector *)
Fixpoint cm_entry (k : key) (l : list conn) : option sentry :=
  match l with
  | [] => None
  | c :: t =>
      if key_eqb (mk_key (ci_dst (cn_info c)) (ci_src_port (cn_info c))) k
      then Some (mkEntry (cn_est c) (cn_shut c) (cn_buf c) (ci_cr (cn_info c)))
      else cm_entry k t
  end.

(* ---- stateless monitors ---- *)
Fixpoint frame_ok (fuel : nat) (has : bool) (k : key) (l : list N) : bool :=
  match fuel, l with
  | S f, c :: p :: lp :: p0 :: e0 :: a0 :: p1 :: e1 :: a1 :: rest =>
      ((has && key_eqb k (c, p, lp)) || ((p0 =? p1) && (e0 =? e1) && (a0 =? a1))) && frame_ok f has k rest
  | _, [] => true
  | _, _ => false
  end.

Definition mon_frame (ins : list N) : bool :=
  match ins with
  | has :: c :: p :: lp :: rest => frame_ok (length rest) (n2b has) (c, p, lp) rest
  | _ => false
  end.

Definition E_NotConnected : N := serr SE_NotConnected 0.
Definition E_ConnectionExists : N := serr SE_ConnectionExists 0.

(* operations on unknown connections fail with NotConnected (and create nothing, send nothing); a duplicate
   connect fails with ConnectionExists; a fresh connect sends one packet and creates the entry *)
Definition mon_known (ins : list N) : bool :=
  match ins with
  | [kind; present; class; code; ntx; present'] =>
      if kind =? 1803 then
        if present =? 1 then (class =? 1) && (code =? E_ConnectionExists) && (ntx =? 0) && (present' =? 1)
        else (class =? 0) && (ntx =? 1) && (present' =? 1)
      else if (1804 <=? kind) && (kind <=? 1810) then
        if present =? 0 then (class =? 1) && (code =? E_NotConnected) && (ntx =? 0) && (present' =? 0)
        else negb ((class =? 1) && (code =? E_NotConnected))
      else false
  | _ => false
  end.

Definition mon_stock (ins : list N) : bool :=
  match ins with
  | [held; pending; size] => held + pending =? size
  | _ => false
  end.

(* the packet rules of the property on one observed poll *)
Definition mon_packet (ins : list N) : bool :=
  match ins with
  | [framing_ok; for_us; op; len; present; avail; body_len; class; has_event; ntx; tx_op; present'; avail'; est'] =>
      let unchanged := (present' =? present) && (avail' =? avail) in
      let wf := (1 <=? op) && (op <=? 7) && ((op =? 5) || (len =? 0)) in
      if negb (n2b framing_ok) || negb wf then (class =? 1) && (ntx =? 0) && unchanged
      else if negb (n2b for_us) then (class =? 0) && (has_event =? 0) && (ntx =? 0) && unchanged
      else if present =? 0 then
        if op =? 1 then
          (* accepted and reported, or reset and not reported *)
          (class =? 0)
          && (((has_event =? 1) && (ntx =? 1) && (tx_op =? VOP_RESPONSE) && (present' =? 1) && (est' =? 1) && (avail' =? 0))
              || ((has_event =? 0) && (ntx =? 1) && (tx_op =? VOP_RST) && (present' =? 0)))
        else (class =? 0) && (has_event =? 0) && (ntx =? 0) && (present' =? 0)
      else
        if op =? 5 then
          (ntx =? 0) && (present' =? 1)
          && (((class =? 0) && (has_event =? 1) && (avail' =? avail + body_len))
              || ((class =? 1) && (avail' =? avail)))
        else if (op =? 3) || (op =? 4) then
          (class =? 0) && (has_event =? 1)
          && (if avail =? 0 then (present' =? 0) && (if op =? 4 then (ntx =? 1) && (tx_op =? VOP_RST) else ntx =? 0)
              else (present' =? 1) && (avail' =? avail) && (ntx =? 0))
        else if op =? 1 then
          (class =? 0)
          && (((has_event =? 1) && (ntx =? 1) && (tx_op =? VOP_RESPONSE) && (present' =? 1) && (est' =? 1) && (avail' =? avail))
              || ((has_event =? 0) && (ntx =? 1) && (tx_op =? VOP_RST) && (present' =? 0)))
        else if op =? 7 then (class =? 0) && (has_event =? 0) && (ntx =? 1) && (tx_op =? VOP_CREDIT_UPDATE) && unchanged
        else (class =? 0) && (has_event =? 1) && (ntx =? 0) && unchanged
              && (if op =? 2 then est' =? 1 else true)
  | _ => false
  end.

(* recv: the oldest min(n, available) bytes; the connection disappears only when drained, with a RST *)
Definition mon_recv (ins : list N) : bool :=
  match ins with
  | [present; avail; n; class; nbytes; ntx; tx_op; present'; avail'] =>
      if present =? 0 then (class =? 1) && (ntx =? 0) && (present' =? 0)
      else
        (class =? 0) && (nbytes =? N.min n avail)
        && (if present' =? 1 then (avail' =? avail - nbytes) && (ntx =? 0)
            else (nbytes =? avail) && (ntx =? 1) && (tx_op =? VOP_RST))
  | _ => false
  end.

(* an operation (or the reply to a packet) whose transmission failed returned the tx queue's error: the connection
   it names is, through the public queries, exactly as before; in particular a connection that was not there is not
   there afterwards (failed connect, request whose RESPONSE / RST could not be sent) and no buffered byte is gone *)
Definition E_PeerSocketShutdown : N := serr SE_PeerSocketShutdown 0.
Definition mon_txfail (ins : list N) : bool :=
  match ins with
  | [kind; s; e; present; est; avail; class; code; present'; est'; avail'] =>
      if (1803 <=? kind) && (kind <=? 1812) then
        if negb (s =? 0) && (class =? 1) && (code =? e) then
          (present' =? present) && (est' =? est) && (avail' =? avail)
        else true
      else false
  | _ => false
  end.

(* the peer granted `credit` bytes, a send failed in the tx queue, a retry of `len` bytes within the credit goes out *)
Definition mon_send_credit (ins : list N) : bool :=
  match ins with
  | [credit; class; code; e; len; class'] =>
      if (class =? 1) && (code =? e) && (len <=? credit) then class' =? 0 else true
  | _ => false
  end.

(* poll on the peer's SHUTDOWN failed in the tx queue (the RST is still owed): a send is refused *)
Definition mon_shut_remembered (ins : list N) : bool :=
  match ins with
  | [class; code; e; sclass; scode] =>
      if (class =? 1) && (code =? e) then (sclass =? 1) && (scode =? E_PeerSocketShutdown) else true
  | _ => false
  end.

Definition connmgr_is_monitor (k : N) : bool :=
  ((1851 <=? k) && (k <=? 1862)) || ((1871 <=? k) && (k <=? 1882)) || ((1890 <=? k) && (k <=? 1898)).

Definition cm_bad : list N := [77777].

Definition connmgr_step (st : option cmio) (k : N) (ins : list N) : option cmio * list N :=
  if k =? 1800 then
    match ins with
    | [md; cid; cap; rxsz] => (Some (mkIo (dec_md md) (cm_new cid cap rxsz) (sp_new cid cap rxsz)), [])
    | _ => (st, cm_bad)
    end
  else if k =? 1891 then (st, [b2n (mon_frame ins)])
  else if k =? 1892 then (st, [b2n (mon_known ins)])
  else if k =? 1893 then (st, [b2n (mon_stock ins)])
  else if k =? 1894 then (st, [b2n (mon_packet ins)])
  else if k =? 1895 then (st, [b2n (mon_recv ins)])
  else if k =? 1896 then (st, [b2n (mon_txfail ins)])
  else if k =? 1897 then (st, [b2n (mon_send_credit ins)])
  else if k =? 1898 then (st, [b2n (mon_shut_remembered ins)])
  else
    match st with
    | None => (st, cm_bad)
    | Some io =>
        if (1801 <=? k) && (k <=? 1812) then
          match dec_op k ins with
          | Some o =>
              let '(m', r, tx) := cm_step (io_md io) (io_m io) o in
              (Some (mkIo (io_md io) m' (io_s io)), enc_result r tx)
          | None => (st, cm_bad)
          end
        else if (1821 <=? k) && (k <=? 1832) then
          match ins with
          | s1 :: e1 :: s2 :: e2 :: opins =>
              match dec_op (k - 20) opins with
              | Some o =>
                  let '(m', r, tx) := cm_step_tx (io_md io) (io_m io) o (dec_txin s1 e1 s2 e2) in
                  (Some (mkIo (io_md io) m' (io_s io)), enc_result r tx)
              | None => (st, cm_bad)
              end
          | _ => (st, cm_bad)
          end
        else if (1871 <=? k) && (k <=? 1882) then
          match ins with
          | n :: rest =>
              let '(allins, observed) := cm_split_at (cm_cnt n rest) rest in
              match allins with
              | s1 :: e1 :: s2 :: e2 :: opins =>
                  match dec_op (k - 70) opins with
                  | Some o =>
                      let '(s', r, tx) := sp_step_tx (io_md io) (io_s io) o (dec_txin s1 e1 s2 e2) in
                      (Some (mkIo (io_md io) (io_m io) s'), [b2n (cm_list_eqb (enc_result r tx) observed)])
                  | None => (st, cm_bad)
                  end
              | _ => (st, cm_bad)
              end
          | _ => (st, cm_bad)
          end
        else if k =? 1840 then
          (st, concat (map (fun key => enc_probe (cm_entry key (m_conns (io_m io)))) (dec_keys (length ins) ins)))
        else if (1851 <=? k) && (k <=? 1862) then
          match ins with
          | n :: rest =>
              let '(opins, observed) := cm_split_at (cm_cnt n rest) rest in
              match dec_op (k - 50) opins with
              | Some o =>
                  let '(s', r, tx) := sp_step (io_md io) (io_s io) o in
                  (Some (mkIo (io_md io) (io_m io) s'), [b2n (cm_list_eqb (enc_result r tx) observed)])
              | None => (st, cm_bad)
              end
          | _ => (st, cm_bad)
          end
        else if k =? 1890 then
          match ins with
          | n :: rest =>
              let '(kl, observed) := cm_split_at (cm_cnt (3 * n) rest) rest in
              (st, [b2n (cm_list_eqb (concat (map (fun key => enc_probe (slookup key (sp_tab (io_s io))))
                                               (dec_keys (length kl) kl))) observed)])
          | _ => (st, cm_bad)
          end
        else (st, cm_bad)
    end.
