(* Flat encodings for the construction / teardown model (C09), kinds 900..999.                       *)
(*  901 constructor  ins  [variant; driver; legacy; net queue size; utf8; chk;                        *)
(*                         nal; (paddr vaddr)*nal; ncf; (code value)*ncf; generation answers...]      *)
(*                   outs [class; code] ++ events       (class 0 = Ok, 1 = Err code)                  *)
(*  902 gpu resolution ins [mode; setup; w; h; paddr; vaddr; verdicts...]  outs [class; code] ++ events*)
(*  903 gpu cursor     ins [len_ok; paddr; vaddr; verdicts...]             outs [class; code] ++ events*)
(*  905 usage          ins [(is_post q tok)...]   chains made available / taken back, as OBSERVED     *)
(*  909 drop           outs events                                                                   *)
(*  950 MONITOR balanced   ins observed events of one whole life cycle                               *)
(*  951 MONITOR quiesced   ins [mode] ++ observed events: mode 0 = queue_unset disables the queue,    *)
(*                         dropping the transport does nothing; 1 = ... dropping the transport resets;*)
(*                         2 = PCI reading: queue_unset does NOTHING, only a reset (status 0 or the    *)
(*                         transport drop) quiesces (quiesced_pci_b)                                  *)
(*  952 MONITOR a refused dma_alloc is reported as Err(DmaError): ins [refused; class; code]          *)
(* Events: 1 pages dir paddr vaddr | 2 paddr vaddr pages | 3 q size desc drv dev | 4 q | 5 status |   *)
(*         6 (transport dropped) | 7 off len | 8 (generation read) | 9 q tok (posted) |               *)
(*         10 q tok (taken back) | 11 q tok (heap buffer of an OUTSTANDING chain released).           *)
(* A release of a buffer that is not outstanding is not observable (it is an ordinary free), so the   *)
(* encoder drops TFree events of chains that are not outstanding at that point.                       *)
From VD Require Import Base.Words Model.Layout Model.Teardown.

Definition tio := (list atom * list (N * N))%type.   (* the driver value, the chains outstanding *)

Definition has_pair (x : N * N) (l : list (N * N)) : bool := existsb (pair_eqb x) l.
Definition del_pair (x : N * N) (l : list (N * N)) : list (N * N) := filter (fun y => negb (pair_eqb y x)) l.

Fixpoint enc_evs (posted : list (N * N)) (l : list tev) : list N * list (N * N) :=
  match l with
  | [] => ([], posted)
  | e :: t =>
      let '(h, posted') :=
        match e with
        | TAlloc p d a v => ([1; p; d; a; v], posted)
        | TDealloc a v p => ([2; a; v; p], posted)
        | TQueueSet q s d1 d2 d3 => ([3; q; s; d1; d2; d3], posted)
        | TQueueUnset q => ([4; q], posted)
        | TStatus v => ([5; v], posted)
        | TDrop => ([6], posted)
        | TCfg o n => ([7; o; n], posted)
        | TGen => ([8], posted)
        | TPost q k => ([9; q; k], (q, k) :: posted)
        | TUnpost q k => ([10; q; k], del_pair (q, k) posted)
        | TFree q k => (if has_pair (q, k) posted then [11; q; k] else [], posted)
        end in
      let '(r, p2) := enc_evs posted' t in (h ++ r, p2)
  end.

(* decoding an observed event list; fuel = length of the input *)
Fixpoint dec_evs (fuel : nat) (l : list N) : option (list tev) :=
  match fuel with
  | O => match l with [] => Some [] | _ => None end
  | S f =>
      match l with
      | [] => Some []
      | 1 :: p :: d :: a :: v :: t => option_map (cons (TAlloc p d a v)) (dec_evs f t)
      | 2 :: a :: v :: p :: t => option_map (cons (TDealloc a v p)) (dec_evs f t)
      | 3 :: q :: s :: d1 :: d2 :: d3 :: t => option_map (cons (TQueueSet q s d1 d2 d3)) (dec_evs f t)
      | 4 :: q :: t => option_map (cons (TQueueUnset q)) (dec_evs f t)
      | 5 :: v :: t => option_map (cons (TStatus v)) (dec_evs f t)
      | 6 :: t => option_map (cons TDrop) (dec_evs f t)
      | 7 :: o :: n :: t => option_map (cons (TCfg o n)) (dec_evs f t)
      | 8 :: t => option_map (cons TGen) (dec_evs f t)
      | 9 :: q :: k :: t => option_map (cons (TPost q k)) (dec_evs f t)
      | 10 :: q :: k :: t => option_map (cons (TUnpost q k)) (dec_evs f t)
      | 11 :: q :: k :: t => option_map (cons (TFree q k)) (dec_evs f t)
      | _ => None
      end
  end.

Fixpoint take_pairs (k : nat) (l : list N) : list (N * N) * list N :=
  match k with
  | O => ([], l)
  | S k' => match l with
            | a :: b :: t => let '(r, rest) := take_pairs k' t in ((a, b) :: r, rest)
            | _ => ([], l)
            end
  end.

Definition cnt {A} (k : N) (l : list A) : nat := N.to_nat (N.min k (lenN l)).

Definition dec_mode (n : N) : mode := if n =? 0 then Debug else Release.

Definition enc_class (o : outcome N) : list N :=
  match o with Ok _ => [0; 0] | Err e => [1; e] | Panic => [2; 0] | UB => [3; 0] end.

Fixpoint dec_usage (fuel : nat) (l : list N) : list tev :=
  match fuel with
  | O => []
  | S f => match l with
           | k :: q :: t :: r => (if k =? 1 then TPost q t else TUnpost q t) :: dec_usage f r
           | _ => []
           end
  end.

Definition teardown_step (st : option tio) (k : N) (ins : list N) : option tio * list N :=
  if k =? 901 then
    match ins with
    | variant :: d :: legacy :: nq :: utf8 :: chk :: nal :: r1 =>
        let '(al, r2) := take_pairs (cnt nal r1) r1 in
        match r2 with
        | ncf :: r3 =>
            let '(cf, gn) := take_pairs (cnt ncf r3) r3 in
            let p := if variant =? 0 then prog d nq else prog_prefix d nq in
            let '(res, ev) := run (n2b legacy) p (cst0 al cf gn (n2b utf8) (n2b chk)) in
            let '(flat, posted) := enc_evs [] ev in
            match res with
            | ROk a => (Some (a, posted), [0; 0] ++ flat)
            | RErr e => (None, [1; e] ++ flat)
            end
        | _ => (st, [77777])
        end
    | _ => (st, [77777])
    end
  else if k =? 902 then
    match st, ins with
    | Some (a, posted), m :: setup :: w :: h :: pa :: va :: oks =>
        let '(a', o, ev) := gpu_res (dec_mode m) (n2b setup) w h (map n2b oks) pa va a in
        let '(flat, posted') := enc_evs posted ev in
        (Some (a', posted'), enc_class o ++ flat)
    | _, _ => (st, [77777])
    end
  else if k =? 903 then
    match st, ins with
    | Some (a, posted), len_ok :: pa :: va :: oks =>
        let '(a', o, ev) := gpu_cursor (n2b len_ok) (map n2b oks) pa va a in
        let '(flat, posted') := enc_evs posted ev in
        (Some (a', posted'), enc_class o ++ flat)
    | _, _ => (st, [77777])
    end
  else if k =? 905 then
    match st with
    | Some (a, posted) =>
        let '(_, posted') := enc_evs posted (dec_usage (length ins) ins) in (Some (a, posted'), [])
    | None => (st, [77777])
    end
  else if k =? 909 then
    match st with
    | Some (a, posted) => (None, fst (enc_evs posted (drop_atoms a)))
    | None => (st, [77777])
    end
  else (st, [77777]).

Definition teardown_monitor (k : N) (ins : list N) : list N :=
  if k =? 950 then
    match dec_evs (length ins) ins with Some tr => [b2n (balanced_b tr)] | None => [77777] end
  else if k =? 951 then
    match ins with
    | resets :: r =>
        match dec_evs (length r) r with
        | Some tr => [b2n (if resets =? 2 then quiesced_pci_b tr else quiesced_b (n2b resets) tr)]
        | None => [77777]
        end
    | _ => [77777]
    end
  else if k =? 952 then
    match ins with
    | [refused; class; code] =>
        [b2n (if n2b refused then (class =? 1) && (code =? EDmaError) else negb (class =? 2))]
    | _ => [77777]
    end
  else [77777].

Definition teardown_is_monitor (k : N) : bool := (k =? 950) || (k =? 951) || (k =? 952).
