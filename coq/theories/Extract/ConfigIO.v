(* Flat encodings (kinds 1300..1399) of configuration-space access and multi-field reads for the  *)
(* correspondence runner, and the C13 monitors.                                                  *)
(*  window          [tk; present; len; base]   tk 0 legacy MMIO / 1 modern MMIO / 2 PCI;          *)
(*                  len = bytes (MMIO) or u32 words (PCI); base = address of the window           *)
(*  1301 read       ins [mode] ++ window ++ [s; a; off] ++ answers                                *)
(*                  outs [class; value] ++ trace                                                  *)
(*  1302 MONITOR    ins window ++ [s; a; off; class; value] ++ observed trace                     *)
(*  1303 write      ins [mode] ++ window ++ [s; a; off; v]      outs [class; code] ++ trace       *)
(*  1304 MONITOR    ins window ++ [s; a; off; v; class; code] ++ observed trace                   *)
(*  1310 read_consistent (+ plain reads after it)                                                 *)
(*                  ins [mode] ++ window ++ [gen0; cfglen] ++ cfg ++ [nslots] ++ slots            *)
(*                      ++ closure ++ [ntail] ++ ntail x [s; a; off]                              *)
(*                      slot = [nupd] ++ nupd x image (cfglen bytes each)                         *)
(*                      closure = [code; nparams] ++ params   (code 0 lo|hi<<32, 1 console size,  *)
(*                                2 MAC, 3 9p mount tag, 4 field list params = n x [s; a; off])   *)
(*                  outs result ++ trace     result = [0; n] ++ values | [1; e] | [2; 0] | [3; 0] *)
(*                                           ([9] = the loop did not end within the schedule)     *)
(*  1311 MONITOR    ins [mode] ++ window ++ [cfglen; nsnap] ++ snapshots ++ closure ++ result     *)
(*                      ++ [nev] ++ nev x [tag; off; width; val; snapshot index]                  *)
(*  1312 MONITOR    same inputs as 1311: the value is the closure on SOME exposed snapshot        *)
(* A trace is flattened as (tag, offset, width, value) per access; tag 0 = read in the config     *)
(* window, 1 = write in the config window, 2 = read of the generation register.                  *)
From VD Require Import Base.Words Model.Config Model.ConfigSpec.

(* the version of the length test the implementation is expected to follow *)
Definition cfg_check_impl : check_fn := end_check.

Definition cbad : list N := [77777].
Definition cfg_mode (x : N) : mode := if x =? 0 then Debug else Release.
Definition cfg_tk (x : N) : option tkind :=
  if x =? 0 then Some TLegacy else if x =? 1 then Some TModern else if x =? 2 then Some TPci else None.
(* a count read from a trace line, bounded by a constant before it becomes a nat (computing the
   length of the rest of the line for every image would make decoding quadratic) *)
Definition cfg_cnt (k : N) (l : list N) : nat := N.to_nat (N.min k 1048576).

Definition cfg_enc_acc (a : cacc) : list N := [c_tag a; c_off a; c_width a; c_val a].
Definition cfg_enc_trace (l : list cacc) : list N := concat (map cfg_enc_acc l).
Fixpoint cfg_dec_trace (fuel : nat) (l : list N) : list cacc :=
  match fuel, l with
  | S k, t :: off :: width :: val :: rest => mkCA t off width val :: cfg_dec_trace k rest
  | _, _ => []
  end.
Fixpoint cfg_dec_oevs (fuel : nat) (l : list N) : list oev :=
  match fuel, l with
  | S k, t :: off :: width :: val :: ix :: rest => (mkCA t off width val, ix) :: cfg_dec_oevs k rest
  | _, _ => []
  end.

Definition cfg_enc_res (r : res) : list N :=
  match r with
  | Ok l => 0 :: lenN l :: l
  | Err e => [1; e]
  | Panic => [2; 0]
  | UB => [3; 0]
  end.

(* k numbers off the front; None if there are fewer *)
Fixpoint cfg_take (k : nat) (l : list N) : option (list N * list N) :=
  match k with
  | O => Some ([], l)
  | S k' =>
      match l with
      | [] => None
      | a :: r => match cfg_take k' r with Some (x, y) => Some (a :: x, y) | None => None end
      end
  end.
Definition cfg_takeN (k : N) (l : list N) : option (list N * list N) :=
  if k <=? 1048576 then cfg_take (cfg_cnt k l) l else None.

(* k images of n bytes each *)
Fixpoint cfg_take_images (k : nat) (n : N) (l : list N) : option (list (list N) * list N) :=
  match k with
  | O => Some ([], l)
  | S k' =>
      match cfg_takeN n l with
      | Some (img, r) =>
          match cfg_take_images k' n r with Some (x, y) => Some (img :: x, y) | None => None end
      | None => None
      end
  end.

(* k slots: [nupd] ++ nupd images *)
Fixpoint cfg_take_slots (k : nat) (n : N) (l : list N) : option (sched * list N) :=
  match k with
  | O => Some ([], l)
  | S k' =>
      match l with
      | nupd :: r =>
          if nupd <=? 1048576 then
            match cfg_take_images (cfg_cnt nupd r) n r with
            | Some (imgs, r') =>
                match cfg_take_slots k' n r' with Some (x, y) => Some (imgs :: x, y) | None => None end
            | None => None
            end
          else None
      | [] => None
      end
  end.

Fixpoint cfg_take_triples (k : nat) (l : list N) : option (list (N * N * N) * list N) :=
  match k with
  | O => Some ([], l)
  | S k' =>
      match l with
      | s :: a :: off :: r =>
          match cfg_take_triples k' r with Some (x, y) => Some ((s, a, off) :: x, y) | None => None end
      | _ => None
      end
  end.

(* [tk; present; len; base] ++ rest *)
Definition cfg_take_window (l : list N) : option (tkind * window * list N) :=
  match l with
  | tk :: pr :: len :: base :: r =>
      match cfg_tk tk with Some t => Some (t, mkWin (n2b pr) len base, r) | None => None end
  | _ => None
  end.

(* [code; nparams] ++ params ++ rest *)
Definition cfg_take_closure (m : mode) (tk : tkind) (w : window) (l : list N) : option (prog * list N) :=
  match l with
  | code :: np :: r =>
      match cfg_takeN np r with
      | Some (ps, rest) =>
          if code =? 0 then Some (p_lo_hi m tk w, rest)
          else if code =? 1 then Some (p_console_size m tk w, rest)
          else if code =? 2 then Some (p_net_mac m tk w, rest)
          else if code =? 3 then Some (p_9p_tag m tk w, rest)
          else if code =? 4 then
            match cfg_take_triples (cfg_cnt (np / 3) ps) ps with
            | Some (fs, []) => Some (p_seq m tk w fs [], rest)
            | _ => None
            end
          else None
      | None => None
      end
  | _ => None
  end.

(* result ++ rest *)
Definition cfg_take_res (l : list N) : option (res * list N) :=
  match l with
  | 0 :: n :: r => match cfg_takeN n r with Some (vs, rest) => Some (Ok vs, rest) | None => None end
  | 1 :: e :: r => Some (Err e, r)
  | 2 :: _ :: r => Some (Panic, r)
  | 3 :: _ :: r => Some (UB, r)
  | _ => None
  end.

Definition cfg_run_read (ins : list N) : list N :=
  match ins with
  | m :: r =>
      match cfg_take_window r with
      | Some (tk, w, s :: a :: off :: ans) =>
          if (a =? 0) || (MAX_T <? s) then cbad
          else let '(o, tr) := cfg_read_gen cfg_check_impl (cfg_mode m) tk w s a off ans in
               enc_outcome o ++ cfg_enc_trace tr
      | _ => cbad
      end
  | _ => cbad
  end.

Definition cfg_mon_read (ins : list N) : list N :=
  match cfg_take_window ins with
  | Some (tk, w, s :: a :: off :: rc :: rv :: tr) =>
      if a =? 0 then cbad
      else [b2n (bounds_read_b tk w s a off rc rv (cfg_dec_trace (length tr) tr))]
  | _ => cbad
  end.

Definition cfg_run_write (ins : list N) : list N :=
  match ins with
  | m :: r =>
      match cfg_take_window r with
      | Some (tk, w, [s; a; off; v]) =>
          if (a =? 0) || (MAX_T <? s) then cbad
          else let '(o, tr) := cfg_write_gen cfg_check_impl (cfg_mode m) tk w s a off v in
               enc_outcome o ++ cfg_enc_trace tr
      | _ => cbad
      end
  | _ => cbad
  end.

Definition cfg_mon_write (ins : list N) : list N :=
  match cfg_take_window ins with
  | Some (tk, w, s :: a :: off :: v :: rc :: rv :: tr) =>
      if a =? 0 then cbad
      else [b2n (bounds_write_b tk w s a off v rc rv (cfg_dec_trace (length tr) tr))]
  | _ => cbad
  end.

Definition cfg_total_updates (sc : sched) : nat := length (concat sc).

Definition cfg_run_phase (ins : list N) : list N :=
  match ins with
  | m :: r =>
      match cfg_take_window r with
      | Some (tk, w, gen0 :: cfglen :: r1) =>
          match cfg_takeN cfglen r1 with
          | Some (cfg, nslots :: r2) =>
              if nslots <=? 1048576 then
                match cfg_take_slots (cfg_cnt nslots r2) cfglen r2 with
                | Some (sc, r3) =>
                    match cfg_take_closure (cfg_mode m) tk w r3 with
                    | Some (p, ntail :: r4) =>
                        match cfg_take_triples (cfg_cnt ntail r4) r4 with
                        | Some (tail, []) =>
                            if ntail <=? 1048576 then
                              match phase (S (S (cfg_total_updates sc))) (cfg_mode m) tk w p tail
                                          (mkDev cfg (gen0 mod gen_mod tk)) sc with
                              | Some (res, _, _, tr) => cfg_enc_res res ++ cfg_enc_trace tr
                              | None => [9]
                              end
                            else cbad
                        | _ => cbad
                        end
                    | _ => cbad
                    end
                | None => cbad
                end
              else cbad
          | _ => cbad
          end
      | _ => cbad
      end
  | _ => cbad
  end.

(* decoded inputs of the two snapshot monitors *)
Definition cfg_dec_mon (ins : list N) : option (tkind * prog * list (list N) * res * list oev) :=
  match ins with
  | m :: r =>
      match cfg_take_window r with
      | Some (tk, w, cfglen :: nsnap :: r1) =>
          if nsnap <=? 1048576 then
            match cfg_take_images (cfg_cnt nsnap r1) cfglen r1 with
            | Some (snaps, r2) =>
                if negb (lenN snaps =? nsnap) then None else
                match cfg_take_closure (cfg_mode m) tk w r2 with
                | Some (p, r3) =>
                    match cfg_take_res r3 with
                    | Some (res, nev :: r4) =>
                        if nev * 5 =? lenN r4
                        then Some (tk, p, snaps, res, cfg_dec_oevs (length r4) r4)
                        else None
                    | _ => None
                    end
                | None => None
                end
            | None => None
            end
          else None
      | _ => None
      end
  | _ => None
  end.

Definition cfg_mon_untorn (ins : list N) : list N :=
  match cfg_dec_mon ins with
  | Some (tk, p, snaps, res, evs) => [b2n (untorn_b tk p snaps res evs)]
  | None => cbad
  end.

Definition cfg_mon_some_snapshot (ins : list N) : list N :=
  match cfg_dec_mon ins with
  | Some (tk, p, snaps, res, evs) =>
      [b2n (match tk with TLegacy => true | _ => some_snapshot_b p snaps res end)]
  | None => cbad
  end.

Definition config_step (k : N) (ins : list N) : list N :=
  if k =? 1301 then cfg_run_read ins else
  if k =? 1302 then cfg_mon_read ins else
  if k =? 1303 then cfg_run_write ins else
  if k =? 1304 then cfg_mon_write ins else
  if k =? 1310 then cfg_run_phase ins else
  if k =? 1311 then cfg_mon_untorn ins else
  if k =? 1312 then cfg_mon_some_snapshot ins else
  cbad.

Definition config_is_monitor (k : N) : bool :=
  (k =? 1302) || (k =? 1304) || (k =? 1311) || (k =? 1312).
