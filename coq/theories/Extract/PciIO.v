(* Flat encodings (kinds 1100..1199) of the PCI transport for the correspondence runner, and the C11     *)
(* monitors.  The model state is the transport the MODEL constructed (kind 1101); every later          *)
(* operation line (1110) is predicted from it, so that a transport which stored anything else than     *)
(* the model's (a window, the multiplier, the device type) shows as a divergence of its accesses.      *)
(*  1101 new             ins [mode; cmd; status; 6 x (kind, mask, val); 64 registers; v0; v1; v2; v3]   *)
(*                       outs [class; a; b; c; 99] ++ requests (paddr, size) ++ [99; cmd; status;      *)
(*                            6 BAR values; 99] ++ configuration accesses (write, offset, value, cmd)  *)
(*                       class 0 = transport (a = device type), 1 = error (code, payloads), 2 = panic, *)
(*                       4 = would not terminate (cyclic capability list; never run on the real code)  *)
(*  1102 new MONITOR     ins [cmd; status; 6 x (kind, mask, val); 64 registers; class; n] ++           *)
(*                            n x (paddr, size, vaddr answered)                                         *)
(*  1104 device id table ins [vendor] outs [accepted ids; sum of (id + 1) * (type + 1)] over 2^16 ids  *)
(*  1105 device_type     ins [id] outs [0 | 1; type]                                                    *)
(*  1110 operation       ins [wrapped; mode; opcode; a1..a5] ++ answers   outs [class; value] ++ trace *)
(*  1111 operation MONITOR ins [7 window numbers; opcode; a1..a5; class; value] ++ observed trace      *)
(*  1121 session MONITOR ins [7 window numbers] ++ observed trace of all operations and the drop       *)
(* An MMIO trace is flattened as (is_write, virtual address, width, value) per access.                  *)
From VD Require Import Base.Words Model.PciBus Model.Pci Model.PciSpec.

(* the version of the code the implementation is expected to follow *)
Definition IMPL : fixes := FIXED.

Definition cbad : list N := [77777].
Definition cmode (x : N) : mode := if x =? 0 then Debug else Release.

Fixpoint ctake_slots (k : nat) (l : list N) : list slot * list N :=
  match k, l with
  | S k', a :: b :: c :: r => let '(x, y) := ctake_slots k' r in (mkSlot a b c :: x, y)
  | _, _ => ([], l)
  end.
Fixpoint ctake (k : nat) (l : list N) : list N * list N :=
  match k, l with
  | S k', a :: r => let '(x, y) := ctake k' r in (a :: x, y)
  | _, _ => ([], l)
  end.
Definition ccnt (k : N) (l : list N) : nat := N.to_nat (N.min k (lenN l)).

(* [cmd; status; 6 x (kind, mask, val); 64 registers] ++ rest *)
Definition take_fn_regs (l : list N) : option (pcifn * list N) :=
  match l with
  | c :: s :: r =>
      let '(bs, r1) := ctake_slots 6 r in
      let '(regs, rest) := ctake 64 r1 in
      if (lenN bs =? 6) && (lenN regs =? 64) then Some (mkFn c s bs regs, rest) else None
  | _ => None
  end.

Definition enc_nres (r : nres) : list N :=
  match r with
  | NOk t => [0; t_devtype t; 0; 0]
  | NErr c p q => [1; c; p; q]
  | NPanic => [2; 0; 0; 0]
  | NDiverge => [4; 0; 0; 0]
  end.
Definition enc_reqs (l : list (N * N)) : list N := concat (map (fun r => [fst r; snd r]) l).
Definition enc_cfg_trace (tr : list acc) : list N :=
  concat (map (fun a => [b2n (a_write a); a_off a; a_val a; a_cmd a]) tr).
Definition enc_mtrace (tr : list macc) : list N :=
  concat (map (fun a => [b2n (m_write a); m_addr a; m_width a; m_val a]) tr).
Fixpoint dec_mtrace (fuel : nat) (l : list N) : list macc :=
  match fuel, l with
  | S f, w :: a :: wd :: v :: r => mkM (n2b w) a wd v :: dec_mtrace f r
  | _, _ => []
  end.
Fixpoint dec_reqs (fuel : nat) (l : list N) : list (N * N * N) :=
  match fuel, l with
  | S f, p :: s :: v :: r => (p, s, v) :: dec_reqs f r
  | _, _ => []
  end.

Definition run_new (ins : list N) : option ptrans * list N :=
  match ins with
  | m :: r =>
      match take_fn_regs r with
      | Some (d, [v0; v1; v2; v3]) =>
          let '(res, s) := new IMPL (cmode m) d v0 v1 v2 v3 in
          (match res with NOk t => Some t | _ => None end,
           enc_nres res ++ [99] ++ enc_reqs (n_reqs s) ++ [99; f_cmd (n_fn s); f_status (n_fn s)]
           ++ bar_vals (n_fn s) ++ [99] ++ enc_cfg_trace (n_log s))
      | _ => (None, cbad)
      end
  | _ => (None, cbad)
  end.

Definition mon_new (ins : list N) : list N :=
  match take_fn_regs ins with
  | Some (d, rc :: n :: r) =>
      let reqs := dec_reqs (ccnt n r) r in
      [b2n ((lenN reqs =? n) && new_conform_b d rc reqs)]
  | _ => cbad
  end.

(* the whole 16-bit id space in one line *)
Fixpoint id_sweep (ids : list N) (cnt sum : N) : list N :=
  match ids with
  | [] => [cnt; sum]
  | id :: t =>
      match device_type id with
      | Some dt => id_sweep t (cnt + 1) (sum + (id + 1) * (dt + 1))
      | None => id_sweep t cnt sum
      end
  end.
Definition run_id_table (ins : list N) : list N :=
  match ins with
  | [vendor] => if vendor =? VIRTIO_VENDOR_ID then id_sweep (flat_map (fun hi => map (fun lo => 256 * hi + lo) (seqN 0 256)) (seqN 0 256)) 0 0 else [0; 0]
  | _ => cbad
  end.
Definition run_device_type (ins : list N) : list N :=
  match ins with
  | [id] => match device_type id with Some dt => [1; dt] | None => [0; 0] end
  | _ => cbad
  end.

Definition run_op (st : option ptrans) (ins : list N) : list N :=
  match st, ins with
  | Some t, wrapped :: m :: opc :: a1 :: a2 :: a3 :: a4 :: a5 :: ans =>
      match op_decode opc a1 a2 a3 a4 a5 with
      | Some o =>
          let '(r, tr) := if n2b wrapped then some_exec (cmode m) t o ans else exec (cmode m) t o ans in
          enc_outcome r ++ enc_mtrace tr
      | None => cbad
      end
  | _, _ => cbad
  end.

Definition take_wins (l : list N) : option (wins * list N) :=
  match l with
  | c :: cl :: n :: nl :: mu :: i :: il :: r => Some (mkWins c cl n nl mu i il, r)
  | _ => None
  end.
Definition mon_op (ins : list N) : list N :=
  match take_wins ins with
  | Some (w, opc :: a1 :: a2 :: a3 :: a4 :: a5 :: rc :: rv :: tr) =>
      [b2n (pci_conform_b w opc a1 a2 a3 a4 a5 rc rv (dec_mtrace (length tr) tr))]
  | _ => cbad
  end.
Definition mon_session (ins : list N) : list N :=
  match take_wins ins with
  | Some (w, tr) => [b2n (session_conform_b w (dec_mtrace (length tr) tr))]
  | None => cbad
  end.

Definition pcit_step (st : option ptrans) (k : N) (ins : list N) : option ptrans * list N :=
  if k =? 1101 then run_new ins else
  if k =? 1102 then (st, mon_new ins) else
  if k =? 1104 then (st, run_id_table ins) else
  if k =? 1105 then (st, run_device_type ins) else
  if k =? 1110 then (st, run_op st ins) else
  if k =? 1111 then (st, mon_op ins) else
  if k =? 1121 then (st, mon_session ins) else
  (st, cbad).

Definition pcit_is_monitor (k : N) : bool := (k =? 1102) || (k =? 1111) || (k =? 1121).
