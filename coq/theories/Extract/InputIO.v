(* Flat encodings for the VirtIOInput model (C19 / C07), kinds 1960..1979. *)
From VD Require Import Base.Words Model.Queue Model.Input Extract.QueueIO.

Definition enc_iev (e : iev) : list N :=
  match e with IQ q => enc_qev q | IDriverOk => [12] | INotify q => [11; q] end.
Definition enc_ievs (l : list iev) : list N := concat (map enc_iev l).

Definition enc_ievent_outcome (o : outcome (option ievent)) : list N :=
  match o with
  | Ok None => [0; 0; 0; 0; 0]
  | Ok (Some e) => [0; 1; ie_type e; ie_code e; ie_value e]
  | Err e => [1; e; 0; 0; 0]
  | Panic => [2; 0; 0; 0; 0]
  | UB => [3; 0; 0; 0; 0]
  end.

Definition enc_icev (e : icev) : list N :=
  match e with ICWrite off v => [20; off; v] | ICRead off => [21; off] end.

(* configuration answers: a number below 256 is the byte read, anything else a failed read *)
Definition dec_ans (x : N) : option N := if x <? 256 then Some x else None.

(* what the platform leaves in the driver-side copy of a shared device-writable buffer: no observation depends on it
   (InputProofs.input_pop_stocked), the harness platform writes 0xa5 *)
Definition io_poison : list N := repeat 165 8.

(* 1960 new   [ind; ev; ae; uf; addrs...]                                   -> unit outcome ++ events
   1961 pop   [u_idx1; u_id1; u_idx2; u_id2; u_len; addr; ae; uf; bytes...] -> event outcome ++ events
   1962 query_config_select [select; subsel; out_len; wr_ok1; wr_ok2; size answer; data answers...]
                                                                           -> [class; size | code; out_len; the whole slice (238 where nothing was stored)] ++ accesses *)
Definition input_step (st : option istate) (k : N) (ins : list N) : option istate * list N :=
  if k =? 1960 then
    match ins with
    | ind :: ev :: ae :: uf :: addrs =>
        let '(o, s, evs) := input_new (n2b ind) (n2b ev) 0 addrs io_poison ae uf in
        (Some s, enc_unit_outcome o ++ enc_ievs evs)
    | _ => (st, [77777]) end
  else if k =? 1961 then
    match st, ins with
    | Some s, u_idx1 :: u_id1 :: u_idx2 :: u_id2 :: u_len :: addr :: ae :: uf :: bytes =>
        let '(o, s', evs) := input_pop s (mkInV u_idx1 u_id1 u_idx2 u_id2 u_len bytes addr io_poison ae uf) in
        (Some s', enc_ievent_outcome o ++ enc_ievs evs)
    | _, _ => (st, [77777]) end
  else if k =? 1962 then
    match ins with
    | select :: subsel :: out_len :: w1 :: w2 :: size :: data =>
        let '(o, evs) := input_query_config_select select subsel out_len (n2b w1) (n2b w2) (dec_ans size) (map dec_ans data) in
        (st, match o with
             | Ok (sz, l) => 0 :: sz :: out_len :: l ++ repeat 238 (N.to_nat (N.min out_len 1024) - length l)
             | Err e => [1; e; 0]
             | Panic => [2; 0; 0]
             | UB => [3; 0; 0]
             end ++ concat (map enc_icev evs))
    | _ => (st, [77777]) end
  else (st, [77777]).

(* ---------------- monitors: the statement of InputProofs.input_pop_stocked / input_new_stocked evaluated on what the
   implementation was SEEN to do (device memory read by the harness, platform and transport logs) ---------------- *)
(* 1970, one pop_pending_event:
   [pending; id_in_range; class; has_event; avail_delta; reposted_head; used_id; desc_len; desc_writable; desc_is_buf;
    notifies_q0; notifies_other; must_notify; shares; unshares; used_len]
   pending      : the used index differed from the number of completions consumed so far
   id_in_range  : the id in the used element is below 32
   class        : 0 returned, 2 panicked
   avail_delta  : how far the available index moved
   reposted_head: the ring entry published by the call; desc_*: the descriptor it names as the device reads it;
   desc_is_buf  : that descriptor points at a live share of event_buf[used_id], 8 bytes
   must_notify  : the device asked for a notification of this publication (VirtIO 2.7.10 / flags)
   used_len     : the length the device recorded - the verdict does not depend on it: delivery and re-post are required
                  for EVERY length (InputProofs.input_repost_every_len) *)
Definition mon_input_pop (ins : list N) : bool :=
  match ins with
  | [pending; inrange; class; has; adelta; head; uid; dlen; dw; disbuf; n0; nother; must; shares; unshares; _] =>
      if pending =? 0 then
        (class =? 0) && (has =? 0) && (adelta =? 0) && (n0 =? 0) && (nother =? 0) && (shares =? 0) && (unshares =? 0)
      else if inrange =? 0 then
        (* a clean panic, or a return without an event, before anything is touched (C07: "a normal result, an error or a clean
           panic"; an earlier version demanded the panic, which is what input.rs does, and would have flagged a rewrite that
           ignores the bogus id and returns None) *)
        ((class =? 2) || ((class =? 0) && (has =? 0))) && (adelta =? 0) && (n0 =? 0) && (nother =? 0) && (shares =? 0) && (unshares =? 0)
      else
        (class =? 0) && (has =? 1) && (adelta =? 1) && (head =? uid) && (dlen =? 8) && (dw =? 1) && (disbuf =? 1)
        && (nother =? 0) && (n0 <=? 1) && implb (must =? 1) (n0 =? 1) && (shares =? 1) && (unshares =? 1)
  | _ => false
  end.

(* 1971, new: [class; posted; ring_in_order; descs_ok; notified_before_driver_ok; notifies_other; notifies_q0; must_notify]
   posted: available index after new; ring_in_order: slot i holds i for i < 32; descs_ok: how many descriptors i point
   at a live 8-byte device-writable share of event_buf[i] *)
Definition mon_input_new (ins : list N) : bool :=
  match ins with
  | [class; posted; ring_ok; descs_ok; early; nother; n0; must] =>
      if class =? 0 then
        (posted =? 32) && (ring_ok =? 1) && (descs_ok =? 32) && (early =? 0) && (nother =? 0) && (n0 <=? 1)
        && implb (must =? 1) (n0 =? 1)
      else true
  | _ => false
  end.

Definition input_is_monitor (k : N) : bool := (k =? 1970) || (k =? 1971).
Definition input_monitor (k : N) (ins : list N) : list N :=
  if k =? 1970 then [b2n (mon_input_pop ins)] else if k =? 1971 then [b2n (mon_input_new ins)] else [77777].
