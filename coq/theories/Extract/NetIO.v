(* Flat encodings for the network driver models (C16), kinds 1600..1699. *)
From VD Require Import Base.Words Model.Queue Model.Net Model.NetSpec Extract.QueueIO.

Inductive netst :=
| NSRaw (s : netraw)
| NSV (v : vnet).

Definition raw_of (st : netst) : netraw := match st with NSRaw s => s | NSV v => v_raw v end.
Definition with_raw (st : netst) (s : netraw) : netst :=
  match st with NSRaw _ => NSRaw s | NSV v => NSV (mkV s (v_slots v)) end.

(* queue events as in QueueIO (the harness knows which queue an operation touches); notify carries the queue *)
Definition enc_nev (e : nev) : list N :=
  match e with NQ _ q => enc_qev q | NNotify q => [11; q] end.
Definition enc_nevs (l : list nev) : list N := concat (map enc_nev l).

Definition enc_pair_outcome (o : outcome (N * N)) : list N :=
  match o with Ok (a, b) => [0; a; b] | Err e => [1; e; 0] | Panic => [2; 0; 0] | UB => [3; 0; 0] end.
Definition enc_opt (o : option N) : list N := match o with Some v => [1; v] | None => [0; 0] end.

Definition take (k : N) (l : list N) : list N * list N := (firstn (cnt k l) l, skipn (cnt k l) l).

Fixpoint triples (l : list N) : list (N * N * N) :=
  match l with
  | a :: b :: c :: rest => (a, b, c) :: triples rest
  | _ => []
  end.

Definition bad : list N := [77777].

Definition net_step (st : option netst) (k : N) (ins : list N) : option netst * list N :=
  if k =? 1600 then
    match ins with
    | [devf; size] => (Some (NSRaw (raw_new devf size)), [net_negotiate devf])
    | _ => (st, bad) end
  else if k =? 1620 then
    match ins with
    | devf :: size :: buf_len :: env =>
        let '(o, v, evs) := vnet_new devf size buf_len (triples env) in
        (Some (NSV v), net_negotiate devf :: enc_unit_outcome o ++ enc_nevs evs)
    | _ => (st, bad) end
  else
  match st with
  | None => (st, bad)
  | Some x =>
    let s := raw_of x in
    if k =? 1601 then
      let '(o, after) := fill_buffer_header s ins in (st, enc_outcome o ++ after)
    else if k =? 1602 then
      match ins with
      | [id; len; addr; ae; uf] =>
          let '(o, s', evs) := transmit_begin s (mkBuf id len addr) ae uf in
          (Some (with_raw x s'), enc_outcome o ++ enc_nevs evs)
      | _ => (st, bad) end
    else if k =? 1603 then
      match ins with [ui; uid] => (st, enc_opt (poll_transmit s ui uid)) | _ => (st, bad) end
    else if k =? 1604 then
      match ins with
      | [token; id; len; ui; uid; ulen] =>
          let '(o, s', evs) := transmit_complete s token (mkBuf id len 0) ui uid ulen in
          (Some (with_raw x s'), enc_outcome o ++ enc_nevs evs)
      | _ => (st, bad) end
    else if k =? 1605 then
      match ins with
      | [id; len; addr; ae; uf] =>
          let '(o, s', evs) := receive_begin s (mkBuf id len addr) ae uf in
          (Some (with_raw x s'), enc_outcome o ++ enc_nevs evs)
      | _ => (st, bad) end
    else if k =? 1606 then
      match ins with [ui; uid] => (st, enc_opt (poll_receive s ui uid)) | _ => (st, bad) end
    else if k =? 1607 then
      match ins with
      | [token; id; len; ui; uid; ulen] =>
          let '(o, s', evs) := receive_complete s token (mkBuf id len 0) ui uid ulen in
          (Some (with_raw x s'), enc_pair_outcome o ++ enc_nevs evs)
      | _ => (st, bad) end
    else if k =? 1608 then
      match ins with
      | [hid; haddr; fid; flen; faddr; taddr; ae; uf; ui; uid; ulen] =>
          let '(o, s', evs) := net_send s hid haddr (mkBuf fid flen faddr) taddr ae uf ui uid ulen in
          (Some (with_raw x s'), enc_unit_outcome o ++ enc_nevs evs)
      | _ => (st, bad) end
    else if k =? 1609 then (st, concat (send_payload (n_legacy s) ins))
    else if k =? 1610 then
      match ins with
      | [id; len; addr; ae; uf; ui; uid; ulen] =>
          let '(o, s', evs) := receive_wait s (mkBuf id len addr) ae uf ui uid ulen in
          (Some (with_raw x s'), enc_pair_outcome o ++ enc_nevs evs)
      | _ => (st, bad) end
    else if k =? 1611 then (st, [b2n (raw_can_send s)])
    else if k =? 1626 then
      match ins with
      | plen :: bytes =>
          (st, match rx_packet (n_legacy s) bytes plen with
               | Ok p => 0 :: p | Err e => [1; e] | Panic => [2] | UB => [3] end)
      | _ => (st, bad) end
    else
    match x with
    | NSRaw _ => (st, bad)
    | NSV v =>
      if k =? 1621 then
        match ins with
        | [ui; uid; ulen] =>
            let '(o, v', evs) := vnet_receive v ui uid ulen in
            (Some (NSV v'),
             match o with
             | Ok b => [0; rb_id b; rb_plen b; rb_len b]
             | Err e => [1; e; 0; 0] | Panic => [2; 0; 0; 0] | UB => [3; 0; 0; 0] end ++ enc_nevs evs)
        | _ => (st, bad) end
      else if k =? 1622 then
        match ins with
        | [id; len; plen; addr; ae; uf] =>
            let '(o, v', evs) := vnet_recycle v (mkRx id len plen 0) addr ae uf in
            (Some (NSV v'), enc_unit_outcome o ++ enc_nevs evs)
        | _ => (st, bad) end
      else if k =? 1623 then
        match ins with [ui] => (st, [b2n (vnet_can_recv v ui)]) | _ => (st, bad) end
      else (st, bad)
    end
  end.

(* ---- monitors: the specification (Model/NetSpec.v) evaluated on what the implementation did ---- *)
(* 1650 [neg; nl; lens..; anyw; nw; wire..; nf; frame..] *)
Definition mon_tx (ins : list N) : bool :=
  match ins with
  | neg :: nl :: r0 =>
      let '(lens, r1) := take nl r0 in
      match r1 with
      | anyw :: nw :: r2 =>
          let '(wire, r3) := take nw r2 in
          match r3 with
          | nf :: r4 =>
              let '(frame, r5) := take nf r4 in
              (lenN lens =? nl) && (lenN wire =? nw) && (lenN frame =? nf)
              && match r5 with [] => true | _ => false end
              && spec_tx_ok_b neg lens (n2b anyw) wire frame
          | _ => false end
      | _ => false end
  | _ => false end.

(* 1651 [neg; used_len; hdr_ret; plen_ret; nw; written..; np; packet..] *)
Definition mon_rx (ins : list N) : bool :=
  match ins with
  | neg :: used_len :: hdr_ret :: plen_ret :: nw :: r0 =>
      let '(written, r1) := take nw r0 in
      match r1 with
      | np :: r2 =>
          let '(packet, r3) := take np r2 in
          (lenN written =? nw) && (lenN packet =? np) && match r3 with [] => true | _ => false end
          && spec_rx_ok_b neg used_len written hdr_ret plen_ret packet
      | _ => false end
  | _ => false end.

(* 1652 [size; np; posted..; nc; pending..; no; owned..] *)
Definition mon_own (ins : list N) : bool :=
  match ins with
  | size :: np :: r0 =>
      let '(posted, r1) := take np r0 in
      match r1 with
      | nc :: r2 =>
          let '(pending, r3) := take nc r2 in
          match r3 with
          | no :: r4 =>
              let '(owned, r5) := take no r4 in
              (lenN posted =? np) && (lenN pending =? nc) && (lenN owned =? no)
              && match r5 with [] => true | _ => false end
              && spec_ownership_ok_b size posted pending owned
          | _ => false end
      | _ => false end
  | _ => false end.

(* 1653 [can_recv_observed; device used idx; completions consumed; can_send_observed; size; descriptors in flight; indirect] *)
Definition mon_ready (ins : list N) : bool :=
  match ins with
  | [cr; dui; consumed; cs; size; inflight; ind] =>
      Bool.eqb (n2b cr) (spec_can_recv dui consumed) && Bool.eqb (n2b cs) (spec_can_send size inflight (n2b ind))
  | _ => false end.

(* 1654 [class; code]: recycling a buffer the caller owns succeeds *)
Definition mon_recycle (ins : list N) : bool :=
  match ins with [class; _] => class =? 0 | _ => false end.

(* 1655 [neg; header length the driver uses]: the size required by the negotiated features *)
Definition mon_hdr (ins : list N) : bool :=
  match ins with [neg; h] => h =? spec_hdr_len neg | _ => false end.

(* 1656 [pending; class; code; id returned; id expected]: VirtIONet::receive delivers the completed buffer *)
Definition mon_receive (ins : list N) : bool :=
  match ins with [p; class; code; idr; ide] => spec_receive_ok_b (n2b p) class code idr ide | _ => false end.

(* 1657 [expected_ok; class]: raw transmit_complete / receive_complete *)
Definition mon_complete (ins : list N) : bool :=
  match ins with [e; class] => spec_complete_ok_b (n2b e) class | _ => false end.

Definition net_monitor (k : N) (ins : list N) : list N :=
  if k =? 1650 then [b2n (mon_tx ins)] else
  if k =? 1651 then [b2n (mon_rx ins)] else
  if k =? 1652 then [b2n (mon_own ins)] else
  if k =? 1653 then [b2n (mon_ready ins)] else
  if k =? 1654 then [b2n (mon_recycle ins)] else
  if k =? 1655 then [b2n (mon_hdr ins)] else
  if k =? 1656 then [b2n (mon_receive ins)] else
  if k =? 1657 then [b2n (mon_complete ins)] else
  (* 1658 [offered; accepted]: the accepted features are offered ones, and VIRTIO_NET_F_MRG_RXBUF (bit 15) is not among
     them: the receive path hands out one buffer per frame (5.1.6.4: with MRG_RXBUF a frame may span several buffers) *)
  if k =? 1658 then match ins with [off; neg] => [b2n ((N.land neg off =? neg) && negb (N.testbit neg 15))] | _ => [77777] end else
  [77777].

Definition net_is_monitor (k : N) : bool := (1650 <=? k) && (k <? 1660).
