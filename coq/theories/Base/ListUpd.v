(* Lists indexed by N with functional update: the array lemmas used by the queue proofs. *)
From VD Require Import Base.Words.
From Coq Require Import Lia.

Lemma upd_length {A} (l : list A) i x : length (upd l i x) = length l.
Proof. revert i; induction l as [|h t IH]; intros [|i]; simpl; auto. Qed.

Lemma nth_error_upd_eq {A} (l : list A) i x : (i < length l)%nat -> nth_error (upd l i x) i = Some x.
Proof.
  revert i; induction l as [|h t IH]; intros [|i] H; simpl in *; try lia; auto.
  apply IH; lia.
Qed.

Lemma nth_error_upd_neq {A} (l : list A) i j x : i <> j -> nth_error (upd l i x) j = nth_error l j.
Proof.
  revert i j; induction l as [|h t IH]; intros [|i] [|j] H; simpl; auto; try congruence.
Qed.

Lemma lenN_updN {A} (l : list A) i x : lenN (updN l i x) = lenN l.
Proof. unfold lenN, updN. now rewrite upd_length. Qed.

Lemma nthN_updN_eq {A} (l : list A) i x : i < lenN l -> nthN_error (updN l i x) i = Some x.
Proof. unfold lenN, nthN_error, updN. intros H. apply nth_error_upd_eq. lia. Qed.

Lemma nthN_updN_neq {A} (l : list A) i j x : i <> j -> nthN_error (updN l i x) j = nthN_error l j.
Proof. unfold nthN_error, updN. intros H. apply nth_error_upd_neq. lia. Qed.

Lemma nthN_some_lt {A} (l : list A) i x : nthN_error l i = Some x -> i < lenN l.
Proof.
  unfold nthN_error, lenN. intros H.
  assert (N.to_nat i < length l)%nat by (apply nth_error_Some; congruence). lia.
Qed.

Lemma nthN_lt_some {A} (l : list A) i : i < lenN l -> exists x, nthN_error l i = Some x.
Proof.
  unfold nthN_error, lenN. intros H.
  destruct (nth_error l (N.to_nat i)) eqn:E; [eauto|].
  apply nth_error_None in E. lia.
Qed.

Lemma nthN_none_ge {A} (l : list A) i : nthN_error l i = None -> lenN l <= i.
Proof. unfold nthN_error, lenN. intros H. apply nth_error_None in H. lia. Qed.

Lemma lenN_app {A} (a b : list A) : lenN (a ++ b) = lenN a + lenN b.
Proof. unfold lenN. rewrite app_length. lia. Qed.

Lemma lenN_cons {A} (x : A) l : lenN (x :: l) = 1 + lenN l.
Proof. unfold lenN. simpl length. lia. Qed.

Lemma lenN_nil {A} : lenN (@nil A) = 0.
Proof. reflexivity. Qed.

Lemma lenN_map {A B} (f : A -> B) l : lenN (map f l) = lenN l.
Proof. unfold lenN. now rewrite map_length. Qed.

Lemma lenN_repeat {A} (x : A) n : lenN (repeat x n) = N.of_nat n.
Proof. unfold lenN. now rewrite repeat_length. Qed.

Lemma nthN_repeat {A} (x : A) n i : i < N.of_nat n -> nthN_error (repeat x n) i = Some x.
Proof.
  unfold nthN_error. intros H.
  assert (Hn : (N.to_nat i < n)%nat) by lia. clear H.
  revert n Hn. generalize (N.to_nat i) as k.
  induction k as [|k IH]; intros [|n] H; simpl; try lia; auto. apply IH. lia.
Qed.
