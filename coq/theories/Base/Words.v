(* Machine words, outcomes and error codes shared by every model.           *)
(* Plain stdlib only, so that extraction with ExtrOcamlBasic stays clean.   *)
From Coq Require Export NArith List Bool.
Export ListNotations.
Open Scope N_scope.

Definition w8  (x : N) : N := x mod 256.
Definition w16 (x : N) : N := x mod 65536.
Definition w32 (x : N) : N := x mod 4294967296.
Definition w64 (x : N) : N := x mod 18446744073709551616.

Definition two16 : N := 65536.
Definition two32 : N := 4294967296.
Definition two64 : N := 18446744073709551616.

Definition add16 (a b : N) : N := w16 (a + b).
(* wrapping subtraction on 16-bit words; both arguments < 2^16 *)
Definition sub16 (a b : N) : N := w16 (a + two16 - w16 b).
Definition add32 (a b : N) : N := w32 (a + b).
Definition sub32 (a b : N) : N := w32 (a + two32 - w32 b).
Definition add64 (a b : N) : N := w64 (a + b).

(* cargo profile: plain + - * panic on overflow in Debug and wrap in Release *)
Inductive mode := Debug | Release.

Inductive outcome (A : Type) : Type :=
| Ok (a : A)
| Err (e : N)
| Panic
| UB.
Arguments Ok {A} a.
Arguments Err {A} e.
Arguments Panic {A}.
Arguments UB {A}.

(* virtio_drivers::Error, as small integers (the harness uses the same map) *)
Definition EQueueFull : N := 1.
Definition ENotReady : N := 2.
Definition EWrongToken : N := 3.
Definition EAlreadyUsed : N := 4.
Definition EInvalidParam : N := 5.
Definition EDmaError : N := 6.
Definition EIoError : N := 7.
Definition EUnsupported : N := 8.
Definition EConfigSpaceTooSmall : N := 9.
Definition EConfigSpaceMissing : N := 10.
Definition ESocket : N := 11.

(* Flat encoding of outcomes for the correspondence check:
   0 v = Ok, 1 e = Err, 2 0 = Panic, 3 0 = UB *)
Definition enc_outcome (o : outcome N) : list N :=
  match o with
  | Ok v => [0; v]
  | Err e => [1; e]
  | Panic => [2; 0]
  | UB => [3; 0]
  end.

Definition b2n (b : bool) : N := if b then 1 else 0.
Definition n2b (n : N) : bool := negb (N.eqb n 0).

(* list helpers over N indices *)
Definition nthN {A} (l : list A) (i : N) (d : A) : A := nth (N.to_nat i) l d.
Definition nthN_error {A} (l : list A) (i : N) : option A := nth_error l (N.to_nat i).

Fixpoint upd {A} (l : list A) (i : nat) (x : A) : list A :=
  match l, i with
  | [], _ => []
  | _ :: t, O => x :: t
  | h :: t, S j => h :: upd t j x
  end.
Definition updN {A} (l : list A) (i : N) (x : A) : list A := upd l (N.to_nat i) x.

Definition lenN {A} (l : list A) : N := N.of_nat (length l).

Fixpoint seqN (start : N) (len : nat) : list N :=
  match len with
  | O => []
  | S k => start :: seqN (start + 1) k
  end.
