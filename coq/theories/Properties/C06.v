(* C06 - Queue memory is laid out, registered and released correctly for every size. *)
(* This file contains only statements; every proof is `exact` of a lemma in Proofs/. *)
From VD Require Import Base.Words Model.Layout Proofs.LayoutProofs Extract.Dispatch Proofs.LayoutMonProofs.

(* the sixteen supported sizes are exactly the powers of two 2^0 .. 2^15 *)
Theorem C06_sizes : forall n, In n sizes <-> exists k, k <= 15 /\ n = 2 ^ k.
Proof. exact sizes_pow2. Qed.

(* align_up as written is NOT the spec's ALIGN in general (it overshoots by a page on multiples),
   but it is ALIGN on every value the queue code applies it to *)
Theorem C06_align_up_exact : forall n, In n sizes ->
  align_up (desc_size n + avail_size n) = ALIGN (desc_size n + avail_size n)
  /\ align_up (used_size n) = ALIGN (used_size n).
Proof. exact align_up_is_ALIGN_on_queue_sizes. Qed.

Theorem C06_align_up_general : forall x,
  (x mod PAGE <> 0 -> align_up x = ALIGN x) /\ (x mod PAGE = 0 -> align_up x = ALIGN x + PAGE).
Proof. intros x; split; [exact (align_up_exact x) | exact (align_up_overshoots x)]. Qed.

(* success: alignment 16/2/4, sizes, pairwise disjointness, containment in the live DMA regions,
   legacy = avail right after the table and used ring at ALIGN(desc+avail) of one region *)
Theorem C06_regions : forall legacy n idx maxsz a1 a2 l evs,
  In n sizes ->
  a1 mod PAGE = 0 -> a2 mod PAGE = 0 ->
  (legacy = false ->
     a1 + pages (desc_size n + avail_size n) * PAGE <= a2 \/ a2 + pages (used_size n) * PAGE <= a1) ->
  queue_new legacy n idx false maxsz a1 a2 = (Ok l, evs) ->
  regions_ok_b legacy n (desc_paddr l) (driver_paddr l) (device_paddr l)
               (l_a1 l) (l_p1 l) (l_a2 l) (l_p2 l) = true.
Proof. exact regions_ok. Qed.

(* success: which allocations (page counts, directions) and exactly one registration, last *)
Theorem C06_registration : forall legacy n idx maxsz a1 a2 l evs,
  queue_new legacy n idx false maxsz a1 a2 = (Ok l, evs) ->
  n <= maxsz /\ a1 <> 0 /\ (legacy = false -> a2 <> 0) /\
  l_legacy l = legacy /\ l_a1 l = a1 /\
  evs = (if legacy then [EvAlloc (legacy_pages n) DIR_BOTH a1]
         else [EvAlloc (pages (desc_size n + avail_size n)) DIR_TO_DEV a1;
               EvAlloc (pages (used_size n)) DIR_FROM_DEV a2])
        ++ [EvQueueSet idx n (desc_paddr l) (driver_paddr l) (device_paddr l)] /\
  (if legacy then l_p1 l = legacy_pages n
   else l_p1 l = pages (desc_size n + avail_size n) /\ l_a2 l = a2 /\ l_p2 l = pages (used_size n)).
Proof. exact new_ok_shape. Qed.

Theorem C06_legacy_total : forall n, In n sizes ->
  legacy_pages n * PAGE = ALIGN (desc_size n + avail_size n) + ALIGN (used_size n).
Proof. exact legacy_total. Qed.

(* refusal without allocating or registering anything *)
Theorem C06_refusal_in_use : forall legacy n idx maxsz a1 a2,
  queue_new legacy n idx true maxsz a1 a2 = (Err EAlreadyUsed, []).
Proof. exact new_in_use. Qed.

Theorem C06_refusal_too_big : forall legacy n idx maxsz a1 a2,
  maxsz < n -> queue_new legacy n idx false maxsz a1 a2 = (Err EInvalidParam, []).
Proof. exact new_too_big. Qed.

(* a failing allocation: DmaError (no panic), every earlier allocation returned once, no queue_set *)
Theorem C06_dma_failure : forall legacy n idx maxsz a1 a2 e evs,
  queue_new legacy n idx false maxsz a1 a2 = (Err e, evs) -> n <= maxsz ->
  e = EDmaError /\ (a1 = 0 \/ a2 = 0) /\ allocs evs = deallocs evs /\ queue_sets evs = [].
Proof. exact new_dma_failure. Qed.

Theorem C06_no_panic : forall legacy n idx in_use maxsz a1 a2,
  fst (queue_new legacy n idx in_use maxsz a1 a2) <> Panic
  /\ fst (queue_new legacy n idx in_use maxsz a1 a2) <> UB.
Proof. exact new_no_panic. Qed.

(* release: each allocation returned exactly once with the same (paddr, pages) *)
Theorem C06_release : forall legacy n idx maxsz a1 a2 l evs,
  queue_new legacy n idx false maxsz a1 a2 = (Ok l, evs) ->
  deallocs (queue_drop l) = allocs evs /\ deallocs evs = [] /\ allocs (queue_drop l) = [].
Proof. exact drop_balanced. Qed.

(* non-vacuity: a concrete legacy queue of size 8 at 0x10000 *)
Example C06_nonvacuous :
  exists l evs, queue_new true 8 0 false 8 65536 0 = (Ok l, evs)
    /\ device_paddr l = 65536 + 4096 /\ In 8 sizes.
Proof. eexists; eexists; vm_compute; repeat split; auto 10. Qed.

(* ---- the monitors decided inline in Extract/Dispatch.v step_alloc mean what they stand for (Proofs/LayoutMonProofs.v) ---- *)
(* kinds 1 / 2 (ledger lines): the expected output is [0] in every model state, whatever the inputs: an accepted line states
   0 platform-contract violations / 0 DMA regions or shares still live *)
Theorem C06_monitor_ledger_meaning : forall st k ins obs,
  k = 1 \/ k = 2 -> snd (step st k ins) = obs -> obs = [0] /\ is_monitor k = true.
Proof. exact mon_ledger_meaning. Qed.

(* kind 612: what a true verdict states about the three areas given to queue_set and the live DMA regions holding them *)
Theorem C06_monitor_612_meaning : forall st legacy n desc drv dev a1 p1 a2 p2 d1 d2,
  snd (step_alloc st 612 [legacy; n; desc; drv; dev; a1; p1; a2; p2; d1; d2]) = [1] ->
  desc mod 16 = 0 /\ drv mod 2 = 0 /\ dev mod 4 = 0
  /\ (desc + 16 * n <= drv \/ drv + 2 * (3 + n) <= desc)
  /\ (desc + 16 * n <= dev \/ dev + (6 + 8 * n) <= desc)
  /\ (drv + 2 * (3 + n) <= dev \/ dev + (6 + 8 * n) <= drv)
  /\ (a1 <= desc /\ desc + 16 * n <= a1 + p1 * 4096)
  /\ (a1 <= drv /\ drv + 2 * (3 + n) <= a1 + p1 * 4096)
  /\ (d1 = 0 \/ d1 = 2)
  /\ (d2 = 1 \/ d2 = 2)
  /\ (legacy = 0 -> a2 <= dev /\ dev + (6 + 8 * n) <= a2 + p2 * 4096)
  /\ (legacy <> 0 ->
        (a1 <= dev /\ dev + (6 + 8 * n) <= a1 + p1 * 4096) /\ a1 mod 4096 = 0 /\ drv = desc + 16 * n
        /\ dev = a1 + (16 * n + 2 * (3 + n) + 4095) / 4096 * 4096).
Proof. exact mon612_meaning. Qed.

Theorem C06_monitor_612_decodes : forall st ins, snd (step_alloc st 612 ins) = [1] ->
  exists legacy n desc drv dev a1 p1 a2 p2 d1 d2, ins = [legacy; n; desc; drv; dev; a1; p1; a2; p2; d1; d2].
Proof. exact mon612_decodes. Qed.

(* kind 612 holds of queue_new of the model for the sixteen sizes, both layouts, page-aligned non-overlapping platform answers *)
Theorem C06_monitor_612_holds_of_model : forall st legacy n idx maxsz a1 a2 l evs,
  In n sizes -> a1 mod PAGE = 0 -> a2 mod PAGE = 0 ->
  (legacy = false ->
     a1 + pages (desc_size n + avail_size n) * PAGE <= a2 \/ a2 + pages (used_size n) * PAGE <= a1) ->
  queue_new legacy n idx false maxsz a1 a2 = (Ok l, evs) ->
  snd (step_alloc st 612 (enc612 legacy n l)) = [1]
  /\ (if legacy then In (EvAlloc (l_p1 l) DIR_BOTH (l_a1 l)) evs
      else In (EvAlloc (l_p1 l) DIR_TO_DEV (l_a1 l)) evs /\ In (EvAlloc (l_p2 l) DIR_FROM_DEV (l_a2 l)) evs).
Proof. exact mon612_holds_of_model. Qed.

(* kind 613: a forbidden creation is refused having allocated and registered nothing; a successful one registered one queue of
   the requested size *)
Theorem C06_monitor_613_meaning : forall st forbid cls na ns rsz n,
  snd (step_alloc st 613 [forbid; cls; na; ns; rsz; n]) = [1] ->
  (forbid = 1 -> cls = 1 /\ na = 0 /\ ns = 0)
  /\ (forbid <> 1 -> cls = 0 -> ns = 1 /\ rsz = n).
Proof. exact mon613_meaning. Qed.

Theorem C06_monitor_613_decodes : forall st ins, snd (step_alloc st 613 ins) = [1] ->
  exists forbid cls na ns rsz n, ins = [forbid; cls; na; ns; rsz; n].
Proof. exact mon613_decodes. Qed.

(* kind 613 holds of queue_new of the model for EVERY size, layout, transport answer and platform answer *)
Theorem C06_monitor_613_holds_of_model : forall st legacy n idx in_use maxsz a1 a2,
  let r := queue_new legacy n idx in_use maxsz a1 a2 in
  snd (step_alloc st 613 [b2n (in_use || (maxsz <? n)); res_class (fst r); n_allocs (snd r); lenN (queue_sets (snd r));
                          reg_size (snd r); n]) = [1].
Proof. exact mon613_holds_of_model. Qed.

Print Assumptions C06_sizes.
Print Assumptions C06_align_up_exact.
Print Assumptions C06_align_up_general.
Print Assumptions C06_regions.
Print Assumptions C06_registration.
Print Assumptions C06_legacy_total.
Print Assumptions C06_refusal_in_use.
Print Assumptions C06_refusal_too_big.
Print Assumptions C06_dma_failure.
Print Assumptions C06_no_panic.
Print Assumptions C06_release.
Print Assumptions C06_monitor_ledger_meaning.
Print Assumptions C06_monitor_612_meaning.
Print Assumptions C06_monitor_612_decodes.
Print Assumptions C06_monitor_612_holds_of_model.
Print Assumptions C06_monitor_613_meaning.
Print Assumptions C06_monitor_613_decodes.
Print Assumptions C06_monitor_613_holds_of_model.
