(* C20 (GPU part): Model/Gpu.v + Model/Edid.v (the driver) against Model/GpuSpec.v (structures, type     *)
(* numbers, operation sequences, backing-memory rules from VirtIO 1.2 section 5.7; EDID fields from the   *)
(* VESA E-EDID text).                                                                                      *)
From VD Require Import Base.Words Base.ListUpd Model.Blk Model.BlkSpec Model.Edid Model.Gpu Model.GpuSpec
  Proofs.QueueInv Proofs.BlkProofs.
From Coq Require Import ZArith Lia ZifyBool ZifyN Permutation.
From Coq Require Export Sorted.
Ltac Zify.zify_post_hook ::= Z.div_mod_to_equations.

(* ================= codec: field extraction from a concatenation of little-endian fields ================= *)
(* the field that contains byte offset off: (its start, its size, its value) *)
Fixpoint locate (fs : list (nat * N)) (off : nat) : option (nat * nat * N) :=
  match fs with
  | [] => None
  | (n, v) :: t =>
      if (off <? n)%nat then Some (O, n, v)
      else match locate t (off - n) with
           | Some (o, n', v') => Some ((n + o)%nat, n', v')
           | None => None
           end
  end.

Lemma sfield_within : forall fs off len tail o n v,
  locate fs off = Some (o, n, v) -> (off + len <= o + n)%nat ->
  sfield off len (enc_fields fs ++ tail) = le_val (firstn len (skipn (off - o) (le_bytes n v))).
Proof.
  induction fs as [|[n0 v0] t IH]; intros off len tail o n v Hl Hle; cbn [locate] in Hl; [discriminate|].
  unfold enc_fields in *. cbn [flat_map fst snd]. rewrite <- app_assoc.
  destruct (Nat.ltb_spec off n0) as [Hlt|Hge].
  - injection Hl as <- <- <-. unfold sfield. rewrite Nat.sub_0_r.
    rewrite skipn_app, le_bytes_length. replace (off - n0)%nat with O by lia. cbn [skipn].
    rewrite firstn_app, skipn_length, le_bytes_length. replace (len - (n0 - off))%nat with O by lia.
    cbn [firstn]. now rewrite app_nil_r.
  - destruct (locate t (off - n0)) as [[[o' n'] v']|] eqn:E; [|discriminate]. injection Hl as <- <- <-.
    unfold sfield. rewrite skipn_app, le_bytes_length.
    rewrite (skipn_all2 (le_bytes n0 v0)) by (rewrite le_bytes_length; lia). cbn [app].
    specialize (IH (off - n0)%nat len tail o' n' v' E ltac:(lia)). unfold sfield in IH. rewrite IH.
    replace (off - n0 - o')%nat with (off - (n0 + o'))%nat by lia. reflexivity.
Qed.

Lemma sfield_full fs off tail n v :
  locate fs off = Some (off, n, v) -> v < 256 ^ N.of_nat n ->
  sfield off n (enc_fields fs ++ tail) = v.
Proof.
  intros Hl Hv. rewrite (sfield_within fs off n tail off n v Hl) by lia.
  rewrite Nat.sub_diag. cbn [skipn]. rewrite firstn_all2 by (rewrite le_bytes_length; lia).
  rewrite le_val_le_bytes. now apply N.mod_small.
Qed.

Lemma lenN_enc_fields fs tail :
  lenN (enc_fields fs ++ tail) = N.of_nat (fold_right (fun f a => (fst f + a)%nat) O fs) + lenN tail.
Proof.
  unfold lenN. rewrite app_length. induction fs as [|[n v] t IH]; [cbn; lia|].
  unfold enc_fields in *. cbn [flat_map fold_right fst snd]. rewrite app_length, le_bytes_length. lia.
Qed.

(* ---------- what each driver request means in the specification's terms ---------- *)
Definition spec_of (r : greq) : scmd :=
  match r with
  | RGetDisplayInfo => SGetDisplayInfo
  | RCreate2D rid w h => SResourceCreate2D rid FORMAT_B8G8R8A8_UNORM w h
  | RUnref rid => SResourceUnref rid 0
  | RSetScanout x y w h sid rid => SSetScanout x y w h sid rid
  | RFlush x y w h rid => SResourceFlush x y w h rid 0
  | RTransfer x y w h off rid => STransferToHost2D x y w h off rid 0
  | RAttach rid addr len => SAttachBacking rid 1 [(addr, len, 0)]
  | RDetach rid => SDetachBacking rid 0
  | RGetEdid sc => SGetEdid sc 0
  | RCursor mv sid x y rid hx hy =>
      if mv then SMoveCursor sid x y 0 rid hx hy 0 else SUpdateCursor sid x y 0 rid hx hy 0
  end.

Definition req_type (r : greq) : N :=
  match r with
  | RGetDisplayInfo => T_GET_DISPLAY_INFO
  | RCreate2D _ _ _ => T_RESOURCE_CREATE_2D
  | RUnref _ => T_RESOURCE_UNREF
  | RSetScanout _ _ _ _ _ _ => T_SET_SCANOUT
  | RFlush _ _ _ _ _ => T_RESOURCE_FLUSH
  | RTransfer _ _ _ _ _ _ => T_TRANSFER_TO_HOST_2D
  | RAttach _ _ _ => T_RESOURCE_ATTACH_BACKING
  | RDetach _ => T_RESOURCE_DETACH_BACKING
  | RGetEdid _ => T_GET_EDID
  | RCursor mv _ _ _ _ _ _ => if mv then T_MOVE_CURSOR else T_UPDATE_CURSOR
  end.

(* the parameters are u32 / u64 values *)
Definition req_wf (r : greq) : Prop :=
  match r with
  | RGetDisplayInfo => True
  | RCreate2D rid w h => rid < two32 /\ w < two32 /\ h < two32
  | RUnref rid | RDetach rid | RGetEdid rid => rid < two32
  | RSetScanout x y w h sid rid => x < two32 /\ y < two32 /\ w < two32 /\ h < two32 /\ sid < two32 /\ rid < two32
  | RFlush x y w h rid => x < two32 /\ y < two32 /\ w < two32 /\ h < two32 /\ rid < two32
  | RTransfer x y w h off rid => x < two32 /\ y < two32 /\ w < two32 /\ h < two32 /\ off < two64 /\ rid < two32
  | RAttach rid addr len => rid < two32 /\ addr < two64 /\ len < two32
  | RCursor _ sid x y rid hx hy => sid < two32 /\ x < two32 /\ y < two32 /\ rid < two32 /\ hx < two32 /\ hy < two32
  end.

Ltac fld :=
  repeat match goal with
  | |- context [sfield ?off ?len (enc_fields ?fs ++ ?tail)] =>
      first [ rewrite (sfield_full fs off tail len _ eq_refl) by (first [assumption | reflexivity])
            | rewrite (sfield_within fs off len tail _ _ _ eq_refl) by (cbn; lia) ]
  end.

Ltac calc_len H :=
  match type of H with
  | _ = N.of_nat ?k + _ => let v := eval vm_compute in (N.of_nat k) in change (N.of_nat k) with v in H
  end.

Lemma need_ok (n : N) (bs : list N) (x : shdr * scmd) :
  n <= lenN bs -> (if n <=? lenN bs then Some x else None) = Some x.
Proof. intros H. destruct (N.leb_spec n (lenN bs)); [reflexivity|lia]. Qed.

(* the decoder written from the specification's field tables recovers exactly the caller's parameters from
   the bytes the driver puts at the start of its send buffer, whatever follows them in the buffer *)
Theorem roundtrip r tail :
  req_wf r -> spec_decode (enc_req r ++ tail) = Some (mkH (req_type r) 0 0 0 0 0, spec_of r).
Proof.
  intros Hwf. unfold spec_decode, enc_req.
  assert (Hlen := lenN_enc_fields (req_fields r) tail).
  destruct r; cbn [req_wf] in Hwf; cbn [req_fields req_type spec_of] in *;
    repeat match goal with H : _ /\ _ |- _ => destruct H end;
    try (destruct is_move);
    calc_len Hlen;
    match goal with |- context [lenN ?l <? 24] => set (bs := l) in * end;
    (destruct (N.ltb_spec (lenN bs) 24) as [Hs|_]; [lia|]);
    subst bs; unfold dec_hdr; fld; cbn [N.eqb Pos.eqb T_GET_DISPLAY_INFO T_RESOURCE_CREATE_2D T_RESOURCE_UNREF T_SET_SCANOUT
      T_RESOURCE_FLUSH T_TRANSFER_TO_HOST_2D T_RESOURCE_ATTACH_BACKING T_RESOURCE_DETACH_BACKING T_GET_EDID T_UPDATE_CURSOR
      T_MOVE_CURSOR CMD_GET_DISPLAY_INFO CMD_RESOURCE_CREATE_2D CMD_RESOURCE_UNREF CMD_SET_SCANOUT CMD_RESOURCE_FLUSH
      CMD_TRANSFER_TO_HOST_2D CMD_RESOURCE_ATTACH_BACKING CMD_RESOURCE_DETACH_BACKING CMD_GET_EDID CMD_UPDATE_CURSOR CMD_MOVE_CURSOR].
  all: try (rewrite need_ok by lia; reflexivity).
  change (16 <? 1) with false. cbn iota. change (32 + 16 * 1) with 48. change (N.to_nat (N.min 1 16)) with 1%nat.
  cbn [dec_entries Nat.add]. fld. rewrite need_ok by lia. reflexivity.
Qed.

Lemma enc_req_length r : lenN (enc_req r) = match spec_of r with
  | SGetDisplayInfo => 24 | SResourceCreate2D _ _ _ _ => 40
  | SResourceUnref _ _ | SDetachBacking _ _ | SGetEdid _ _ => 32
  | SSetScanout _ _ _ _ _ _ | SResourceFlush _ _ _ _ _ _ => 48
  | STransferToHost2D _ _ _ _ _ _ _ | SUpdateCursor _ _ _ _ _ _ _ _ | SMoveCursor _ _ _ _ _ _ _ _ => 56
  | SAttachBacking _ n _ => 32 + 16 * n end.
Proof.
  pose proof (lenN_enc_fields (req_fields r) []) as H. rewrite app_nil_r in H. unfold enc_req. rewrite H.
  destruct r; try (destruct is_move); reflexivity.
Qed.

Example roundtrip_nonvacuous :
  req_wf (RAttach 47806 70368744177664 4294967292)
  /\ enc_req (RSetScanout 1 2 640 480 0 47806)
     = [3;1;0;0; 0;0;0;0; 0;0;0;0;0;0;0;0; 0;0;0;0; 0;0;0;0;  1;0;0;0; 2;0;0;0; 128;2;0;0; 224;1;0;0;  0;0;0;0; 190;186;0;0]
  /\ spec_decode (enc_req (RAttach 47806 70368744177664 4294967292) ++ [7; 7; 7])
     = Some (mkH 262 0 0 0 0 0, SAttachBacking 47806 1 [(70368744177664, 4294967292, 0)]).
Proof. split; [cbv; repeat split; reflexivity|]. split; vm_compute; reflexivity. Qed.

(* ================= what the device sees of an operation ================= *)
Definition qbytes (e : gev) : option (bool * list N) :=
  match e with GCtrl b => Some (false, b) | GCursor b => Some (true, b) | _ => None end.

(* the commands a device decodes from the requests of an event list, in order; None if some request is
   not a well-formed plain command *)
Fixpoint cmds_of (evs : list gev) : option (list qcmd) :=
  match evs with
  | [] => Some []
  | e :: t =>
      match qbytes e with
      | None => cmds_of t
      | Some (q, b) =>
          match spec_decode b, cmds_of t with
          | Some (h, c), Some cs => if plain_hdr h then Some ((q, c) :: cs) else None
          | _, _ => None
          end
      end
  end.

Lemma cmds_of_app a b x y : cmds_of a = Some x -> cmds_of b = Some y -> cmds_of (a ++ b) = Some (x ++ y).
Proof.
  revert x. induction a as [|e a IH]; intros x Ha Hb; cbn [cmds_of app] in *.
  - injection Ha as <-. exact Hb.
  - destruct (qbytes e) as [[q bs]|]; [|now apply IH].
    destruct (spec_decode bs) as [[h c]|]; [|discriminate].
    destruct (cmds_of a) as [cs|] eqn:E; [|discriminate].
    destruct (plain_hdr h); [|discriminate]. injection Ha as <-.
    rewrite (IH cs eq_refl Hb). reflexivity.
Qed.

Lemma cmds_of_req (q : bool) r :
  req_wf r -> cmds_of [if q then GCursor (enc_req r) else GCtrl (enc_req r)] = Some [(q, spec_of r)].
Proof.
  intros Hwf. pose proof (roundtrip r [] Hwf) as H. rewrite app_nil_r in H.
  destruct q; cbn [cmds_of qbytes]; rewrite H; reflexivity.
Qed.

Definition silent (evs : list gev) : Prop := Forall (fun e => qbytes e = None) evs.
Lemma cmds_of_silent evs : silent evs -> cmds_of evs = Some [].
Proof. induction 1 as [|e t He _ IH]; cbn [cmds_of]; [reflexivity|]. now rewrite He. Qed.

(* ================= errors: any answer that is not the expected success ends the operation ================= *)
Definition resp_view (r : rsp) : option N := match r with RQ _ => None | RB b => Some (hdr_type b) end.
Definition class {A} (o : outcome A) : N := match o with Ok _ => 0 | Err _ => 1 | Panic => 2 | UB => 3 end.

Definition good1 (qc : qcmd) (rv : option N) : bool :=
  match rv, (if fst qc then None else expected_ok (snd qc)) with
  | None, _ => false
  | Some _, None => true
  | Some t, Some e => t =? e
  end.

Inductive tr_good : list qcmd -> list (option N) -> Prop :=
| tg_nil : tr_good [] []
| tg_cons (c : qcmd) (rv : option N) (cs : list qcmd) (rs : list (option N)) : good1 c rv = true -> tr_good cs rs -> tr_good (c :: cs) (rv :: rs).

Definition tr_bad (cmds : list qcmd) (rvs : list (option N)) : Prop :=
  exists c1 r1 c rv, cmds = c1 ++ [c] /\ rvs = r1 ++ [rv] /\ tr_good c1 r1 /\ good1 c rv = false.

(* every answer was the expected one, or the first unexpected one is the last request and the result is an error *)
Definition J {A} (o : outcome A) (cmds : list qcmd) (rvs : list (option N)) : Prop :=
  tr_good cmds rvs \/ (tr_bad cmds rvs /\ exists e, o = Err e).

Lemma resp_ok_step c rv cs rs cl :
  resp_ok (c :: cs) (rv :: rs) cl
  = if good1 c rv then resp_ok cs rs cl
    else (cl =? 1) && resp_ok cs rs cl.
Proof. destruct c as [q c]. reflexivity. Qed.

Lemma tr_good_resp_ok cmds rvs cl : tr_good cmds rvs -> resp_ok cmds rvs cl = true.
Proof. induction 1 as [|c rv cs rs Hg _ IH]; [reflexivity|]. now rewrite resp_ok_step, Hg. Qed.

Theorem J_resp_ok {A} (o : outcome A) cmds rvs : J o cmds rvs -> resp_ok cmds rvs (class o) = true.
Proof.
  intros [Hg|[(c1 & r1 & c & rv & -> & -> & Hg & Hb) [e ->]]]; [now apply tr_good_resp_ok|].
  induction Hg as [|c0 rv0 cs rs Hg0 _ IH]; cbn [app].
  - rewrite resp_ok_step, Hb. reflexivity.
  - rewrite resp_ok_step, Hg0. exact IH.
Qed.

Lemma tr_good_app a b x y : tr_good a x -> tr_good b y -> tr_good (a ++ b) (x ++ y).
Proof. induction 1; cbn [app]; [auto|]. intros. constructor; auto. Qed.

Lemma tr_good_length a x : tr_good a x -> length a = length x.
Proof. induction 1; cbn [length]; congruence. Qed.

Lemma J_app {B} (o : outcome B) a x b y :
  tr_good a x -> J o b y -> J o (a ++ b) (x ++ y).
Proof.
  intros Ha [Hb|[(c1 & r1 & c & rv & -> & -> & Hg & Hbad) He]].
  - left. now apply tr_good_app.
  - right. split; [|exact He]. exists (a ++ c1), (x ++ r1), c, rv. rewrite !app_assoc.
    repeat split; auto. now apply tr_good_app.
Qed.

(* an operation of the model is sound when, on every list of environment answers: the answers it consumed are a
   prefix, one per request it emitted, every request decodes as a plain command, and J holds *)
Definition sound {A} (m : gm A) : Prop :=
  forall s rs o s' t evs, m s rs = Some (o, s', t, evs) ->
  exists used cmds, rs = used ++ t /\ cmds_of evs = Some cmds /\ length used = length cmds
                    /\ J o cmds (map resp_view used).

Lemma sound_pure {A} (o : outcome A) (f : gstate -> gstate) (evs : list gev) :
  silent evs -> sound (fun s rs => Some (o, f s, rs, evs)).
Proof.
  intros Hs s rs o' s' t evs' H. injection H as <- <- <- <-. exists [], []. cbn [app length map].
  repeat split; auto using cmds_of_silent. left. constructor.
Qed.
Lemma sound_ret {A} (a : A) : sound (gret a). Proof. apply (sound_pure (Ok a) (fun s => s) []). constructor. Qed.
Lemma sound_fail {A} e : sound (@gfail A e). Proof. apply (sound_pure (Err e) (fun s => s) []). constructor. Qed.
Lemma sound_panic {A} : sound (@gpanic A). Proof. apply (sound_pure Panic (fun s => s) []). constructor. Qed.
Lemma sound_set f : sound (gset f). Proof. apply (sound_pure (Ok tt) f []). constructor. Qed.
Lemma sound_emit evs : silent evs -> sound (gemit evs). Proof. apply (sound_pure (Ok tt) (fun s => s) evs). Qed.
Lemma sound_lift {A} (o : outcome A) : (forall e, o <> Err e) -> sound (glift o).
Proof. intros _. apply (sound_pure o (fun s => s) []). constructor. Qed.
Lemma sound_get : sound gget.
Proof.
  intros s rs o s' t evs H. injection H as <- <- <- <-. exists [], []. cbn. repeat split; auto. left. constructor.
Qed.

(* the continuation is only run on values the first part can really return *)
Lemma sound_bind {A B} (m : gm A) (f : A -> gm B) :
  sound m -> (forall a, (exists s rs s1 t e, m s rs = Some (Ok a, s1, t, e)) -> sound (f a)) -> sound (gbind m f).
Proof.
  intros Hm Hf s rs o s' t evs H. unfold gbind in H.
  destruct (m s rs) as [[[[o1 s1] t1] e1]|] eqn:Em; [|discriminate].
  destruct (Hm _ _ _ _ _ _ Em) as (u1 & c1 & -> & Hc1 & Hl1 & HJ1).
  destruct o1 as [a|e0| |].
  - destruct (f a s1 t1) as [[[[o2 s2] t2] e2]|] eqn:Ef; [|discriminate]. injection H as <- <- <- <-.
    assert (Hsf : sound (f a)) by (apply Hf; eauto 10).
    destruct (Hsf _ _ _ _ _ _ Ef) as (u2 & c2 & -> & Hc2 & Hl2 & HJ2).
    exists (u1 ++ u2), (c1 ++ c2). rewrite app_assoc, map_app, !app_length.
    repeat split; auto using cmds_of_app.
    destruct HJ1 as [Hg|[_ [e He]]]; [|discriminate].
    now apply J_app.
  - injection H as <- <- <- <-. exists u1, c1. repeat split; auto.
    destruct HJ1 as [Hg|[Hb _]]; [left; auto|right; split; eauto].
  - injection H as <- <- <- <-. exists u1, c1. repeat split; auto.
    destruct HJ1 as [Hg|[_ [e He]]]; [left; auto|discriminate].
  - injection H as <- <- <- <-. exists u1, c1. repeat split; auto.
    destruct HJ1 as [Hg|[_ [e He]]]; [left; auto|discriminate].
Qed.

Lemma sound_with_local_dma {A} pg paddr (body : gm A) : sound body -> sound (with_local_dma pg paddr body).
Proof.
  intros Hb s rs o s' t evs H. unfold with_local_dma in H.
  destruct (paddr =? 0).
  - injection H as <- <- <- <-. exists [], []. cbn. repeat split; auto. left. constructor.
  - destruct (body s rs) as [[[[o1 s1] t1] e1]|] eqn:Eb; [|discriminate].
    destruct (Hb _ _ _ _ _ _ Eb) as (u & c & -> & Hc & Hl & HJ).
    assert (Hc' : forall post, silent post -> cmds_of (GAlloc pg paddr :: e1 ++ post) = Some c).
    { intros post Hp. cbn [cmds_of qbytes]. rewrite (cmds_of_app e1 post c []); auto using cmds_of_silent.
      now rewrite app_nil_r. }
    destruct o1; injection H as <- <- <- <-; exists u, c; repeat split; auto.
    all: try (apply Hc'; repeat constructor).
    all: try (specialize (Hc' [] ltac:(constructor)); now rewrite app_nil_r in Hc').
Qed.

Lemma good1_ctrl r code b :
  expected_ok (spec_of r) = Some code -> good1 (false, spec_of r) (Some (hdr_type b)) = (hdr_type b =? code).
Proof. intros E. unfold good1. cbn [fst snd]. now rewrite E. Qed.

Lemma J_one_good {A} (o : outcome A) c rv : good1 c rv = true -> J o [c] [rv].
Proof. intros H. left. constructor; [exact H|constructor]. Qed.
Lemma J_one_bad {A} (e : N) c rv : good1 c rv = false -> J (@Err A e) [c] [rv].
Proof. intros H. right. split; [|eauto]. exists [], [], c, rv. repeat split; auto. constructor. Qed.

Ltac sound_request r code Hwf Hexp :=
  let s := fresh "s" in let rs := fresh "rs" in let o := fresh "o" in let s' := fresh "s'" in
  let t := fresh "t" in let evs := fresh "evs" in let H := fresh "H" in
  intros s rs o s' t evs H;
  cbv beta iota delta [ctrl_nodata get_display_info gbind ctrl_request glift check_type gret] in H;
  destruct rs as [|[e|b] rs]; [discriminate| |];
  [ injection H as <- <- <- <-; exists [RQ e], [(false, spec_of r)];
    split; [reflexivity|]; split; [exact (cmds_of_req false r Hwf)|]; split; [reflexivity|];
    apply J_one_bad; reflexivity
  | pose proof (good1_ctrl r code b Hexp) as Hg;
    destruct (N.eqb_spec (hdr_type b) code) as [Eq|Ne];
    injection H as <- <- <- <-; exists [RB b], [(false, spec_of r)];
    (split; [reflexivity|]; split; [exact (cmds_of_req false r Hwf)|]; split; [reflexivity|]);
    [ apply J_one_good; exact Hg | apply J_one_bad; exact Hg ] ].

Lemma sound_ctrl_nodata r :
  req_wf r -> expected_ok (spec_of r) = Some OK_NODATA -> sound (ctrl_nodata r).
Proof. intros Hwf Hexp. sound_request r OK_NODATA Hwf Hexp. Qed.

Lemma sound_get_display_info : sound get_display_info.
Proof. sound_request RGetDisplayInfo OK_DISPLAY_INFO I (eq_refl (Some OK_DISPLAY_INFO)). Qed.

Lemma sound_cursor_request r : req_wf r -> sound (cursor_request r).
Proof.
  intros Hwf s rs o s' t evs H. unfold cursor_request in H.
  destruct rs as [|[e|b] rs]; [discriminate| |]; injection H as <- <- <- <-.
  - exists [RQ e], [(true, spec_of r)]. split; [reflexivity|]. split; [exact (cmds_of_req true r Hwf)|].
    split; [reflexivity|]. apply J_one_bad. reflexivity.
  - exists [RB b], [(true, spec_of r)]. split; [reflexivity|]. split; [exact (cmds_of_req true r Hwf)|].
    split; [reflexivity|]. apply J_one_good. reflexivity.
Qed.

Lemma sound_get_edid sc : sc < two32 -> sound (get_edid sc).
Proof.
  intros Hsc. unfold get_edid. apply sound_bind; [apply sound_get|]. intros s _.
  destruct (negb (g_edid s)); [apply sound_fail|].
  intros s0 rs o s' t evs H.
  cbv beta iota delta [gbind ctrl_request glift check_type gret] in H.
  assert (Hwf : req_wf (RGetEdid sc)) by exact Hsc.
  destruct rs as [|[e|b] rs]; [discriminate| |].
  - injection H as <- <- <- <-. exists [RQ e], [(false, spec_of (RGetEdid sc))].
    split; [reflexivity|]. split; [exact (cmds_of_req false _ Hwf)|]. split; [reflexivity|]. apply J_one_bad. reflexivity.
  - pose proof (good1_ctrl (RGetEdid sc) OK_EDID b eq_refl) as Hg.
    destruct (N.eqb_spec (hdr_type b) OK_EDID) as [Eq|Ne]; injection H as <- <- <- <-;
      exists [RB b], [(false, spec_of (RGetEdid sc))];
      (split; [reflexivity|]; split; [exact (cmds_of_req false _ Hwf)|]; split; [reflexivity|]).
    + apply J_one_good. exact Hg.
    + apply J_one_bad. exact Hg.
Qed.

Lemma le_val_bound l : Forall (fun b => b < 256) l -> le_val l < 256 ^ N.of_nat (length l).
Proof.
  induction 1 as [|b l Hb _ IH]; cbn [le_val length]; [reflexivity|].
  replace (N.of_nat (S (length l))) with (N.succ (N.of_nat (length l))) by lia. rewrite N.pow_succ_r'. nia.
Qed.

Lemma rdf_lt off b : rdf off 4 b < two32.
Proof.
  unfold rdf. set (l := map w8 (firstn 4 (skipn off b))).
  assert (Hl : (length l <= 4)%nat) by (subst l; rewrite map_length, firstn_length; lia).
  assert (Hb : Forall (fun x => x < 256) l).
  { subst l. apply Forall_forall. intros x Hx. apply in_map_iff in Hx. destruct Hx as (y & <- & _).
    unfold w8. apply N.mod_lt. discriminate. }
  pose proof (le_val_bound l Hb) as H.
  assert (256 ^ N.of_nat (length l) <= 256 ^ 4) by (apply N.pow_le_mono_r; lia).
  change (256 ^ 4) with two32 in *. lia.
Qed.

Ltac wf := cbn [req_wf]; unfold RESOURCE_ID_FB, RESOURCE_ID_CURSOR, SCANOUT_ID, CURSOR_W, CURSOR_H, CURSOR_SIZE, two32, two64 in *;
           repeat split; lia.

Ltac snd :=
  repeat first
    [ apply sound_ret | apply sound_fail | apply sound_panic | apply sound_get | apply sound_set
    | apply sound_emit; repeat constructor
    | apply sound_ctrl_nodata; [wf | reflexivity]
    | apply sound_cursor_request; wf
    | apply sound_get_display_info
    | apply sound_with_local_dma
    | apply sound_bind; [|intros ? _] ].

Lemma sound_teardown : sound teardown.
Proof.
  unfold teardown. apply sound_bind; [apply sound_get|]. intros s _.
  destruct (g_fb s) as [[pa pg]|]; unfold set_scanout, resource_detach_backing, resource_unref; snd.
Qed.

Lemma sound_change_tail w h size paddr :
  w < two32 -> h < two32 -> size < two32 -> paddr < two64 -> sound (change_tail w h size paddr).
Proof.
  intros Hw Hh Hs Hp. unfold change_tail, resource_attach_backing, set_scanout. snd.
  destruct (gpu_pages size =? 0); snd.
Qed.

(* C20_errors, change_resolution: for every state, every parameter, every list of answers *)
Theorem sound_change_resolution w h paddr :
  w < two32 -> h < two32 -> paddr < two64 -> sound (change_resolution w h paddr).
Proof.
  intros Hw Hh Hp. unfold change_resolution.
  destruct (N.leb_spec two32 (w * h * 4)) as [Hbig|Hsmall]; cbn [orb]; [apply sound_fail|].
  destruct (w * h * 4 =? 0); [apply sound_fail|].
  apply sound_bind; [apply sound_teardown|intros ? _]. apply sound_bind; [apply sound_set|intros ? _].
  apply sound_bind; [apply sound_ctrl_nodata; [wf|reflexivity]|intros ? _].
  now apply sound_change_tail.
Qed.

Theorem sound_change_resolution_prefix m w h paddr :
  w < two32 -> h < two32 -> paddr < two64 -> sound (change_resolution_prefix m w h paddr).
Proof.
  intros Hw Hh Hp. unfold change_resolution_prefix.
  apply sound_bind; [apply sound_teardown|intros ? _]. apply sound_bind; [apply sound_set|intros ? _].
  apply sound_bind; [apply sound_ctrl_nodata; [wf|reflexivity]|intros ? _].
  destruct (N.leb_spec two32 (w * h * 4)) as [Hbig|Hsmall].
  - destruct m; [apply sound_panic|]. apply sound_change_tail; auto. unfold w32. apply N.mod_lt. discriminate.
  - now apply sound_change_tail.
Qed.

Lemma get_display_info_range s rs wh s1 t e :
  get_display_info s rs = Some (Ok wh, s1, t, e) -> fst wh < two32 /\ snd wh < two32.
Proof.
  cbv beta iota delta [get_display_info gbind ctrl_request glift check_type gret].
  destruct rs as [|[e0|b] rs]; try discriminate.
  destruct (hdr_type b =? OK_DISPLAY_INFO); [|discriminate]. intros H. injection H as <- _ _ _.
  cbn [fst snd]. split; apply rdf_lt.
Qed.

Theorem sound_setup_framebuffer paddr : paddr < two64 -> sound (setup_framebuffer paddr).
Proof.
  intros Hp. unfold setup_framebuffer. apply sound_bind; [apply sound_get_display_info|].
  intros wh (s & rs & s1 & t & e & H). destruct (get_display_info_range _ _ _ _ _ _ H).
  now apply sound_change_resolution.
Qed.

(* the rectangle remembered by the driver consists of the u32 arguments of change_resolution *)
Definition gwf (s : gstate) : Prop :=
  match g_rect s with Some (w, h) => w < two32 /\ h < two32 | None => True end.

Definition sound_at {A} (s : gstate) (m : gm A) : Prop :=
  forall rs o s' t evs, m s rs = Some (o, s', t, evs) ->
  exists used cmds, rs = used ++ t /\ cmds_of evs = Some cmds /\ length used = length cmds
                    /\ J o cmds (map resp_view used).
Lemma sound_sound_at {A} (m : gm A) s : sound m -> sound_at s m.
Proof. intros H rs o s' t evs E. eapply H; eauto. Qed.

Theorem sound_flush s : gwf s -> sound_at s flush.
Proof.
  intros Hwf rs o s' t evs H. unfold flush, gbind at 1, gget in H. unfold gwf in Hwf.
  destruct (g_rect s) as [[w h]|].
  - destruct Hwf as [Hw Hh].
    assert (Hs : sound (transfer_to_host_2d w h 0 RESOURCE_ID_FB;;; resource_flush w h RESOURCE_ID_FB))
      by (unfold transfer_to_host_2d, resource_flush; snd).
    destruct ((transfer_to_host_2d w h 0 RESOURCE_ID_FB;;; resource_flush w h RESOURCE_ID_FB) s rs)
      as [[[[o1 s1] t1] e1]|] eqn:E; [|discriminate].
    destruct (Hs _ _ _ _ _ _ E) as (u & c & -> & Hc & Hl & HJ).
    injection H as <- <- <- <-. exists u, c. cbn [app]. auto.
  - cbn in H. injection H as <- <- <- <-. exists [], []. cbn. repeat split; auto. left. constructor.
Qed.

Theorem sound_setup_cursor il x y hx hy paddr :
  x < two32 -> y < two32 -> hx < two32 -> hy < two32 -> paddr < two64 -> sound (setup_cursor il x y hx hy paddr).
Proof.
  intros. unfold setup_cursor. destruct (negb (il =? CURSOR_SIZE)); [apply sound_fail|].
  apply sound_with_local_dma. unfold resource_create_2d, resource_attach_backing, transfer_to_host_2d, update_cursor.
  apply sound_bind; [apply sound_ctrl_nodata; [wf|reflexivity]|intros ? _].
  apply sound_bind; [apply sound_ctrl_nodata; [wf|reflexivity]|intros ? _].
  apply sound_bind; [apply sound_ctrl_nodata; [wf|reflexivity]|intros ? _].
  apply sound_bind; [apply sound_cursor_request; wf|intros ? _].
  apply sound_bind; [apply sound_get|intros s _].
  apply sound_bind; [apply sound_set|intros ? _].
  destruct (g_cur s) as [[pa pg]|]; apply sound_emit; repeat constructor.
Qed.

Theorem sound_move_cursor x y : x < two32 -> y < two32 -> sound (move_cursor x y).
Proof. intros. unfold move_cursor, update_cursor. apply sound_cursor_request. wf. Qed.

Theorem sound_resolution : sound resolution.
Proof. exact sound_get_display_info. Qed.

Theorem sound_edid_preferred : sound edid_preferred_resolution.
Proof.
  unfold edid_preferred_resolution. apply sound_bind; [apply sound_get_edid; reflexivity|]. intros e _.
  intros s rs o s' t evs H. injection H as <- <- <- <-. exists [], []. cbn. repeat split; auto. left. constructor.
Qed.
Theorem sound_edid_supported : sound edid_supported_resolutions.
Proof.
  unfold edid_supported_resolutions. apply sound_bind; [apply sound_get_edid; reflexivity|]. intros e _.
  intros s rs o s' t evs H. injection H as <- <- <- <-. exists [], []. cbn. repeat split; auto. left. constructor.
Qed.

(* C20_errors in the checker's form (the monitor 2022 evaluates the same function on the implementation) *)
Theorem errors_checker {A} (m : gm A) s rs o s' t evs :
  sound_at s m -> m s rs = Some (o, s', t, evs) ->
  exists used cmds, rs = used ++ t /\ cmds_of evs = Some cmds
                    /\ resp_ok cmds (map resp_view used) (class o) = true.
Proof.
  intros Hs H. destruct (Hs _ _ _ _ _ H) as (u & c & E & Hc & _ & HJ). exists u, c. auto using J_resp_ok.
Qed.

(* ... and in words: a successful operation saw only the expected success types *)
Theorem ok_means_all_expected {A} (m : gm A) s rs (a : A) s' t evs :
  sound_at s m -> m s rs = Some (Ok a, s', t, evs) ->
  exists used cmds, rs = used ++ t /\ cmds_of evs = Some cmds /\ tr_good cmds (map resp_view used).
Proof.
  intros Hs H. destruct (Hs _ _ _ _ _ H) as (u & c & E & Hc & _ & [Hg|[_ [e He]]]); [|discriminate].
  exists u, c. auto.
Qed.

(* ================= sequences: what an operation emits when every answer is the expected success ================= *)
Lemma gpu_pages_covers size : size <= gpu_pages size * 4096 /\ (0 < size -> gpu_pages size <> 0).
Proof. unfold gpu_pages, GPU_PAGE_SIZE. split; [|intros]; lia. Qed.

Ltac run_model :=
  cbv beta iota delta [change_resolution change_resolution_prefix change_tail teardown setup_framebuffer flush setup_cursor move_cursor
                       resolution get_display_info get_edid edid_preferred_resolution edid_supported_resolutions
                       gbind gret gfail gpanic gget gset gemit glift with_local_dma ctrl_nodata ctrl_request cursor_request
                       check_type resource_create_2d set_scanout resource_flush transfer_to_host_2d resource_attach_backing
                       resource_detach_backing resource_unref update_cursor set_fb set_rect set_cur g_fb g_rect g_cur g_edid map].

Ltac exec_ok :=
  repeat (run_model;
          repeat match goal with
                 | H : _ = false |- _ => rewrite H
                 | H : _ = true |- _ => rewrite H
                 | H : hdr_type ?b = _ |- context [hdr_type ?b] => rewrite H
                 end;
          cbn [N.eqb Pos.eqb OK_NODATA OK_DISPLAY_INFO OK_EDID app]);
  unfold GPU_PAGE_SIZE.

Theorem change_sequence s w h paddr bs :
  w < two32 -> h < two32 -> paddr <> 0 -> 0 < w * h * 4 < two32 ->
  Forall (fun b => hdr_type b = OK_NODATA) bs ->
  length bs = (match g_fb s with Some _ => 6 | None => 3 end)%nat ->
  let size := w * h * 4 in
  let pg := gpu_pages size in
  change_resolution w h paddr s (map RB bs)
  = Some (Ok (pg * 4096), mkG (Some (w, h)) (Some (paddr, pg)) (g_cur s) (g_edid s), [],
          (match g_fb s with
           | Some (pa, pg0) => [GCtrl (enc_req (RSetScanout 0 0 0 0 SCANOUT_ID 0)); GCtrl (enc_req (RDetach RESOURCE_ID_FB));
                                GCtrl (enc_req (RUnref RESOURCE_ID_FB)); GDealloc pa pg0]
           | None => []
           end)
          ++ [GCtrl (enc_req (RCreate2D RESOURCE_ID_FB w h)); GAlloc pg paddr;
              GCtrl (enc_req (RAttach RESOURCE_ID_FB paddr size)); GCtrl (enc_req (RSetScanout 0 0 w h SCANOUT_ID RESOURCE_ID_FB))])
  /\ size <= pg * 4096.
Proof.
  intros Hw Hh Hp Hsz Hok Hlen size pg.
  destruct (gpu_pages_covers size) as [Hcov Hnz]. specialize (Hnz (proj1 Hsz)).
  split; [|exact Hcov].
  assert (E1 : (two32 <=? w * h * 4) || (w * h * 4 =? 0) = false).
  { destruct (N.leb_spec two32 (w * h * 4)); [lia|]. destruct (N.eqb_spec (w * h * 4) 0); [lia|reflexivity]. }
  assert (E2 : (paddr =? 0) = false) by (apply N.eqb_neq; exact Hp).
  assert (E3 : (pg =? 0) = false) by (apply N.eqb_neq; exact Hnz).
  destruct s as [rect fb cur ed]. cbn [g_fb g_cur g_edid] in *.
  destruct fb as [[pa pg0]|];
    [ destruct bs as [|b1 [|b2 [|b3 [|b4 [|b5 [|b6 [|? ?]]]]]]]; try discriminate Hlen
    | destruct bs as [|b1 [|b2 [|b3 [|? ?]]]]; try discriminate Hlen ];
    repeat match goal with H : Forall _ (_ :: _) |- _ => inversion H; subst; clear H end;
    subst pg; subst size; exec_ok; reflexivity.
Qed.

Lemma cmds_of_ctrl r evs cs :
  req_wf r -> cmds_of evs = Some cs -> cmds_of (GCtrl (enc_req r) :: evs) = Some ((false, spec_of r) :: cs).
Proof. intros Hwf H. apply (cmds_of_app [GCtrl (enc_req r)] evs [(false, spec_of r)] cs); [exact (cmds_of_req false r Hwf)|exact H]. Qed.
Lemma cmds_of_cursor r evs cs :
  req_wf r -> cmds_of evs = Some cs -> cmds_of (GCursor (enc_req r) :: evs) = Some ((true, spec_of r) :: cs).
Proof. intros Hwf H. apply (cmds_of_app [GCursor (enc_req r)] evs [(true, spec_of r)] cs); [exact (cmds_of_req true r Hwf)|exact H]. Qed.

Lemma lN_eqb_refl l : lN_eqb l l = true.
Proof. induction l as [|x l IH]; cbn [lN_eqb]; [reflexivity|]. now rewrite N.eqb_refl. Qed.
Lemma qcmds_eqb_refl l : qcmds_eqb l l = true.
Proof.
  induction l as [|[q c] l IH]; cbn [qcmds_eqb]; [reflexivity|].
  unfold qcmd_eqb, cmd_eqb. cbn [fst snd]. rewrite lN_eqb_refl, IH. now destruct q.
Qed.

Lemma cmds_of_skip e evs : qbytes e = None -> cmds_of (e :: evs) = cmds_of evs.
Proof. intros H. cbn [cmds_of]. now rewrite H. Qed.

(* goal: cmds_of <explicit event list> = Some ?evar *)
Ltac dec_cmds :=
  cbn [app];
  repeat first [ rewrite cmds_of_skip by reflexivity
               | apply cmds_of_ctrl; [wf|]
               | apply cmds_of_cursor; [wf|] ];
  try (cbn [cmds_of]; reflexivity).

(* C20_sequence, change_resolution / the first half of setup_framebuffer: create, attach(paddr, 4wh), set_scanout,
   preceded by set_scanout(0), detach, unref when a framebuffer exists; the old memory is released after the unref
   and the new memory is allocated before it is attached *)
Theorem change_sequence_spec s w h paddr bs :
  w < two32 -> h < two32 -> paddr <> 0 -> paddr < two64 -> 0 < w * h * 4 < two32 ->
  Forall (fun b => hdr_type b = OK_NODATA) bs ->
  length bs = (match g_fb s with Some _ => 6 | None => 3 end)%nat ->
  exists v s' evs cmds,
    change_resolution w h paddr s (map RB bs) = Some (Ok v, s', [], evs)
    /\ cmds_of evs = Some cmds
    /\ Some cmds = expected_cmds (OChange (match g_fb s with Some _ => true | None => false end) RESOURCE_ID_FB w h paddr) RESOURCE_ID_FB
    /\ seq_ok (OChange (match g_fb s with Some _ => true | None => false end) RESOURCE_ID_FB w h paddr) 0 cmds = true
    /\ g_rect s' = Some (w, h) /\ g_fb s' = Some (paddr, gpu_pages (4 * w * h)) /\ 4 * w * h <= gpu_pages (4 * w * h) * 4096
    /\ v = gpu_pages (4 * w * h) * 4096.
Proof.
  intros Hw Hh Hp Hp2 Hsz Hok Hlen.
  destruct (change_sequence s w h paddr bs Hw Hh Hp Hsz Hok Hlen) as [E Hcov].
  replace (4 * w * h) with (w * h * 4) by lia.
  assert (Ex : expected_cmds (OChange (match g_fb s with Some _ => true | None => false end) RESOURCE_ID_FB w h paddr) RESOURCE_ID_FB
               = Some ((if (match g_fb s with Some _ => true | None => false end)
                        then [ctl (SSetScanout 0 0 0 0 0 0); ctl (SDetachBacking RESOURCE_ID_FB 0); ctl (SResourceUnref RESOURCE_ID_FB 0)] else [])
                       ++ [ctl (SResourceCreate2D RESOURCE_ID_FB FORMAT_B8G8R8A8_UNORM w h);
                           ctl (SAttachBacking RESOURCE_ID_FB 1 [(paddr, w * h * 4, 0)]);
                           ctl (SSetScanout 0 0 w h 0 RESOURCE_ID_FB)])).
  { unfold expected_cmds. replace (4 * w * h) with (w * h * 4) by lia.
    destruct (N.leb_spec two32 (w * h * 4)); [lia|]. destruct (N.eqb_spec (w * h * 4) 0); [lia|]. reflexivity. }
  assert (Hs4 : w * h * 4 < two32) by lia.
  destruct (g_fb s) as [[pa pg0]|]; cbn [app] in *; (eexists _, _, _, _; split; [exact E|]; rewrite Ex).
  - split; [dec_cmds|]. split; [reflexivity|]. split; [|auto].
    unfold seq_ok. cbn [first_create find snd ctl spec_of app]. rewrite Ex. cbn [N.eqb app].
    cbn [map norm_cmd ctl]. rewrite qcmds_eqb_refl. reflexivity.
  - split; [dec_cmds|]. split; [reflexivity|]. split; [|auto].
    unfold seq_ok. cbn [first_create find snd ctl spec_of app]. rewrite Ex. cbn [N.eqb app].
    cbn [map norm_cmd ctl]. rewrite qcmds_eqb_refl. reflexivity.
Qed.

(* a size that is zero or does not fit the le32 length is refused before anything is sent or changed, whatever
   the state and the answers *)
Theorem change_refuses s w h paddr rs :
  two32 <= 4 * w * h \/ 4 * w * h = 0 ->
  change_resolution w h paddr s rs = Some (Err EInvalidParam, s, rs, [])
  /\ expected_cmds (OChange (match g_fb s with Some _ => true | None => false end) RESOURCE_ID_FB w h paddr) RESOURCE_ID_FB = None
  /\ seq_ok (OChange (match g_fb s with Some _ => true | None => false end) RESOURCE_ID_FB w h paddr) 1 [] = true.
Proof.
  intros H. unfold change_resolution, seq_ok, expected_cmds. replace (4 * w * h) with (w * h * 4) by lia.
  assert (E : (two32 <=? w * h * 4) || (w * h * 4 =? 0) = true).
  { destruct H as [H|H]; [destruct (N.leb_spec two32 (w * h * 4)); [reflexivity|lia]|].
    replace (w * h * 4) with 0 by lia. apply orb_true_r. }
  rewrite E. repeat split.
Qed.

(* ---- the defect C20_gpu_size, on the code as it stood ---- *)
(* the property's sequence clause fails there: in the debug profile the operation panics after RESOURCE_CREATE_2D has
   been sent; in the release profile it attaches a backing shorter than the resource; a zero size panics in both
   profiles after SET_SCANOUT, releasing memory the device has just been given *)
Theorem change_sequence_refuted :
  (* debug: 65536 x 65536 *)
  (exists evs, change_resolution_prefix Debug 65536 65536 70368744177664 (gpu_new 0) [RB (resp_hdr 4352); RB (resp_hdr 4352); RB (resp_hdr 4352)]
               = Some (Panic, mkG (Some (65536, 65536)) None None false, [RB (resp_hdr 4352); RB (resp_hdr 4352)], evs)
               /\ cmds_of evs = Some [ctl (SResourceCreate2D RESOURCE_ID_FB 1 65536 65536)])
  (* release: 32768 x 32769 has 4 GiB + 128 KiB; the backing attached is 128 KiB *)
  /\ (exists v s' evs, change_resolution_prefix Release 32768 32769 70368744177664 (gpu_new 0) [RB (resp_hdr 4352); RB (resp_hdr 4352); RB (resp_hdr 4352)]
               = Some (Ok v, s', [], evs)
               /\ cmds_of evs = Some [ctl (SResourceCreate2D RESOURCE_ID_FB 1 32768 32769);
                                      ctl (SAttachBacking RESOURCE_ID_FB 1 [(70368744177664, 131072, 0)]);
                                      ctl (SSetScanout 0 0 32768 32769 0 RESOURCE_ID_FB)]
               /\ 131072 < 4 * 32768 * 32769)
  (* both profiles: width 0 *)
  /\ (forall m, exists evs, change_resolution_prefix m 0 27 70368744177664 (gpu_new 0) [RB (resp_hdr 4352); RB (resp_hdr 4352); RB (resp_hdr 4352)]
               = Some (Panic, mkG (Some (0, 27)) None None false, [], evs)
               /\ evs = [GCtrl (enc_req (RCreate2D RESOURCE_ID_FB 0 27)); GAlloc 0 70368744177664;
                         GCtrl (enc_req (RAttach RESOURCE_ID_FB 70368744177664 0)); GCtrl (enc_req (RSetScanout 0 0 0 27 0 RESOURCE_ID_FB));
                         GDealloc 70368744177664 0]).
Proof.
  split; [eexists; split; vm_compute; reflexivity|].
  split; [eexists _, _, _; split; [vm_compute; reflexivity|split; vm_compute; reflexivity]|].
  intros m. eexists. split; [|reflexivity]. destruct m; vm_compute; reflexivity.
Qed.

(* what still holds of the old code: outside the two bad size classes it is the repaired code *)
Theorem change_sequence_partial m s w h paddr rs :
  0 < w * h * 4 < two32 -> change_resolution_prefix m w h paddr s rs = change_resolution w h paddr s rs.
Proof.
  intros H. unfold change_resolution_prefix, change_resolution.
  destruct (N.leb_spec two32 (w * h * 4)); [lia|]. destruct (N.eqb_spec (w * h * 4) 0); [lia|]. reflexivity.
Qed.

Example change_sequence_nonvacuous :
  exists evs, change_resolution 640 480 70368744177664 (mkG (Some (8, 8)) (Some (70368744100000, 1)) None true)
                (map RB [resp_hdr 4352; resp_hdr 4352; resp_hdr 4352; resp_hdr 4352; resp_hdr 4352; resp_hdr 4352])
              = Some (Ok 1228800, mkG (Some (640, 480)) (Some (70368744177664, 300)) None true, [], evs)
              /\ cmds_of evs = expected_cmds (OChange true RESOURCE_ID_FB 640 480 70368744177664) RESOURCE_ID_FB.
Proof. eexists. split; vm_compute; reflexivity. Qed.

(* ---- flush: transfer, then flush, of the whole remembered rectangle ---- *)
Theorem flush_sequence s w h b1 b2 :
  g_rect s = Some (w, h) -> w < two32 -> h < two32 -> hdr_type b1 = OK_NODATA -> hdr_type b2 = OK_NODATA ->
  exists evs cmds,
    flush s [RB b1; RB b2] = Some (Ok tt, s, [], evs)
    /\ cmds_of evs = Some cmds
    /\ Some cmds = expected_cmds (OFlush RESOURCE_ID_FB w h) RESOURCE_ID_FB
    /\ seq_ok (OFlush RESOURCE_ID_FB w h) 0 cmds = true.
Proof.
  intros Hr Hw Hh H1 H2. destruct s as [rect fb cur ed]. cbn [g_rect] in Hr. subst rect.
  eexists _, _. split; [exec_ok; reflexivity|]. split; [dec_cmds|]. split; [reflexivity|].
  unfold seq_ok. cbn [first_create find snd spec_of expected_cmds N.eqb RESOURCE_ID_FB Pos.eqb map norm_cmd ctl].
  rewrite qcmds_eqb_refl. reflexivity.
Qed.

Theorem flush_not_ready s rs :
  g_rect s = None -> flush s rs = Some (Err ENotReady, s, rs, []) /\ seq_ok (OFlush 0 0 0) 1 [] = true.
Proof. intros H. unfold flush, gbind, gget. rewrite H. split; reflexivity. Qed.

(* ---- setup_cursor: create 64x64, attach(paddr, 16384), transfer, then UPDATE_CURSOR on the cursor queue with
        the caller's position and hot spot; the previous cursor memory is released only afterwards ---- *)
Theorem setup_cursor_sequence s x y hx hy paddr b1 b2 b3 b4 :
  x < two32 -> y < two32 -> hx < two32 -> hy < two32 -> paddr <> 0 -> paddr < two64 ->
  hdr_type b1 = OK_NODATA -> hdr_type b2 = OK_NODATA -> hdr_type b3 = OK_NODATA ->
  exists evs cmds,
    setup_cursor 16384 x y hx hy paddr s [RB b1; RB b2; RB b3; RB b4]
    = Some (Ok tt, set_cur s (Some (paddr, 4)), [], evs)
    /\ evs = [GAlloc 4 paddr; GCtrl (enc_req (RCreate2D RESOURCE_ID_CURSOR 64 64));
              GCtrl (enc_req (RAttach RESOURCE_ID_CURSOR paddr 16384)); GCtrl (enc_req (RTransfer 0 0 64 64 0 RESOURCE_ID_CURSOR));
              GCursor (enc_req (RCursor false 0 x y RESOURCE_ID_CURSOR hx hy))]
             ++ (match g_cur s with Some (pa, pg) => [GDealloc pa pg] | None => [] end)
    /\ cmds_of evs = Some cmds
    /\ Some cmds = expected_cmds (OSetupCursor x y hx hy paddr) RESOURCE_ID_CURSOR
    /\ seq_ok (OSetupCursor x y hx hy paddr) 0 cmds = true.
Proof.
  intros Hx Hy Hhx Hhy Hp Hp2 H1 H2 H3.
  assert (E2 : (paddr =? 0) = false) by (apply N.eqb_neq; exact Hp).
  destruct s as [rect fb cur ed].
  assert (Erun : setup_cursor 16384 x y hx hy paddr (mkG rect fb cur ed) [RB b1; RB b2; RB b3; RB b4]
          = Some (Ok tt, set_cur (mkG rect fb cur ed) (Some (paddr, 4)), [],
                  [GAlloc 4 paddr; GCtrl (enc_req (RCreate2D RESOURCE_ID_CURSOR 64 64));
                   GCtrl (enc_req (RAttach RESOURCE_ID_CURSOR paddr 16384)); GCtrl (enc_req (RTransfer 0 0 64 64 0 RESOURCE_ID_CURSOR));
                   GCursor (enc_req (RCursor false 0 x y RESOURCE_ID_CURSOR hx hy))]
                  ++ (match cur with Some (pa, pg) => [GDealloc pa pg] | None => [] end))).
  { unfold setup_cursor. change (negb (16384 =? CURSOR_SIZE)) with false. cbv iota.
    change (gpu_pages CURSOR_SIZE) with 4. change CURSOR_SIZE with 16384. change CURSOR_W with 64. change CURSOR_H with 64.
    change SCANOUT_ID with 0. exec_ok. destruct cur as [[pa pg]|]; reflexivity. }
  eexists _, _. split; [exact Erun|]. cbn [g_cur]. split; [reflexivity|].
  destruct cur as [[pa pg]|]; (split; [dec_cmds|]); (split; [reflexivity|]);
    unfold seq_ok; cbn [first_create find snd spec_of expected_cmds N.eqb RESOURCE_ID_CURSOR Pos.eqb map norm_cmd ctl GpuSpec.cur];
    rewrite qcmds_eqb_refl; reflexivity.
Qed.

Theorem move_cursor_sequence s x y b :
  x < two32 -> y < two32 ->
  exists evs cmds,
    move_cursor x y s [RB b] = Some (Ok tt, s, [], evs)
    /\ cmds_of evs = Some cmds
    /\ seq_ok (OMove x y) 0 cmds = true.
Proof.
  intros Hx Hy. eexists _, _. split; [exec_ok; reflexivity|]. split; [dec_cmds|].
  unfold seq_ok. cbn [first_create find snd spec_of expected_cmds map norm_cmd GpuSpec.cur].
  rewrite qcmds_eqb_refl. reflexivity.
Qed.

(* ================= values: what the driver returns is what the device reported ================= *)
Lemma map_w8_le_bytes n v : map w8 (le_bytes n v) = le_bytes n v.
Proof.
  revert v. induction n as [|n IH]; intros v; cbn [le_bytes map]; [reflexivity|].
  rewrite IH. f_equal. unfold w8. apply N.mod_mod. discriminate.
Qed.
Lemma map_w8_enc_fields fs : map w8 (enc_fields fs) = enc_fields fs.
Proof.
  unfold enc_fields. induction fs as [|[n v] t IH]; [reflexivity|].
  cbn [flat_map fst snd]. now rewrite map_app, map_w8_le_bytes, IH.
Qed.
Lemma rdf_sfield off len b : rdf off len b = sfield off len (map w8 b).
Proof. unfold rdf, sfield. now rewrite <- firstn_map, <- skipn_map. Qed.
Lemma rdf_enc_fields off len fs tail : rdf off len (enc_fields fs ++ tail) = sfield off len (enc_fields fs ++ map w8 tail).
Proof. now rewrite rdf_sfield, map_app, map_w8_enc_fields. Qed.

Definition hdr_resp_fields (t : N) : list (nat * N) := [u32f t; u32f 0; u64f 0; u32f 0; u32f 0].
Lemma resp_hdr_fields t : resp_hdr t = enc_fields (hdr_resp_fields t).
Proof. reflexivity. Qed.

(* resolution() = (width, height) of pmodes[0] of a GET_DISPLAY_INFO answer laid out as in 5.7.6.8, whatever the other
   fields and the other 15 entries are; nothing else is sent *)
Theorem resolution_value s t x y w h en fl rest :
  t < two32 -> x < two32 -> y < two32 -> w < two32 -> h < two32 -> en < two32 -> fl < two32 ->
  resolution s [RB (resp_display_info t ((x, y, w, h, en, fl) :: rest))]
  = Some ((if t =? T_RESP_OK_DISPLAY_INFO then Ok (w, h) else Err EIoError), s, [], [GCtrl (enc_req RGetDisplayInfo)]).
Proof.
  intros Ht Hx Hy Hw Hh He Hf. unfold resolution.
  set (b := resp_display_info t ((x, y, w, h, en, fl) :: rest)).
  assert (Eb : b = enc_fields (hdr_resp_fields t ++ [u32f x; u32f y; u32f w; u32f h; u32f en; u32f fl]) ++ flat_map display_one rest).
  { subst b. unfold resp_display_info. cbn [flat_map display_one]. rewrite resp_hdr_fields.
    unfold enc_fields. rewrite flat_map_app. cbn [flat_map fst snd u32f app]. rewrite <- !app_assoc. reflexivity. }
  assert (E0 : hdr_type b = t) by (unfold hdr_type; rewrite Eb, rdf_enc_fields; fld; reflexivity).
  assert (E1 : rdf 32 4 b = w) by (rewrite Eb, rdf_enc_fields; fld; reflexivity).
  assert (E2 : rdf 36 4 b = h) by (rewrite Eb, rdf_enc_fields; fld; reflexivity).
  run_model. rewrite E0, E1, E2. change OK_DISPLAY_INFO with T_RESP_OK_DISPLAY_INFO.
  destruct (t =? T_RESP_OK_DISPLAY_INFO); reflexivity.
Qed.

(* get_edid(scanout) returns exactly the size and the 1024 bytes of a GET_EDID answer laid out as in 5.7.6.8 *)
Theorem get_edid_value s sc t size blob rest :
  g_edid s = true -> t < two32 -> size < two32 -> length blob = 1024%nat ->
  get_edid sc s [RB (resp_edid t size blob ++ rest)]
  = Some ((if t =? T_RESP_OK_EDID then Ok (map w8 blob, size) else Err EIoError), s, [], [GCtrl (enc_req (RGetEdid sc))]).
Proof.
  intros Hed Ht Hsz Hlen.
  set (b := resp_edid t size blob ++ rest).
  assert (Eb : b = enc_fields (hdr_resp_fields t ++ [u32f size; u32f 0]) ++ (blob ++ rest)).
  { subst b. unfold resp_edid. rewrite resp_hdr_fields. unfold enc_fields. rewrite flat_map_app.
    cbn [flat_map fst snd u32f app]. rewrite <- !app_assoc. reflexivity. }
  assert (E0 : hdr_type b = t) by (unfold hdr_type; rewrite Eb, rdf_enc_fields; fld; reflexivity).
  assert (E1 : rdf 24 4 b = size) by (rewrite Eb, rdf_enc_fields; fld; reflexivity).
  assert (E2 : firstn 1024 (skipn 32 b) = blob).
  { rewrite Eb. rewrite skipn_app.
    assert (L : length (enc_fields (hdr_resp_fields t ++ [u32f size; u32f 0])) = 32%nat).
    { pose proof (lenN_enc_fields (hdr_resp_fields t ++ [u32f size; u32f 0]) []) as H. rewrite app_nil_r in H.
      calc_len H. unfold lenN in H. cbn [length] in H. lia. }
    rewrite L, skipn_all2 by lia. change (32 - 32)%nat with 0%nat. rewrite skipn_O. change ([] ++ blob ++ rest) with (blob ++ rest).
    rewrite firstn_app, Hlen, Nat.sub_diag, firstn_O, app_nil_r. apply firstn_all2. lia. }
  destruct s as [rect fb cur ed]. cbn [g_edid] in Hed. subst ed.
  run_model. cbn [negb]. run_model. rewrite E0, E1, E2. change OK_EDID with T_RESP_OK_EDID.
  destruct (t =? T_RESP_OK_EDID); reflexivity.
Qed.

Theorem get_edid_unsupported s sc rs :
  g_edid s = false -> get_edid sc s rs = Some (Err EUnsupported, s, rs, []).
Proof. intros H. destruct s as [rect fb cur ed]. cbn [g_edid] in H. subst ed. reflexivity. Qed.

(* has_edid is exactly "the device offers VIRTIO_GPU_F_EDID (bit 1)" *)
Theorem new_edid feats : g_edid (gpu_new feats) = N.testbit feats 1.
Proof.
  unfold gpu_new. cbn [g_edid]. rewrite <- N.land_assoc. change (N.land GPU_FEATURES F_EDID) with (2 ^ 1).
  rewrite <- (has_feat_testbit feats 1). reflexivity.
Qed.

(* ================= EDID: for every blob and every size ================= *)
Lemma byte_lt d i : byte d i < 256.
Proof. unfold byte, w8. apply N.mod_lt. discriminate. Qed.
Lemma byte_ebyte d i : byte d i = ebyte d i.
Proof. reflexivity. Qed.

Lemma in_seqN_256 x : x < 256 -> In x (seqN 0 256).
Proof. intros H. apply seqN_in. lia. Qed.

(* h = byte2 | (byte4 & 0xF0) << 4 is "low 8 bits + upper nibble as bits 8..11": all 65536 byte pairs *)
Lemma dtd_active lo nib : lo < 256 -> nib < 256 ->
  N.lor lo (N.shiftl (N.land nib 240) 4) = spec_active lo nib.
Proof.
  intros Hl Hn.
  assert (H : forallb (fun a => forallb (fun b => N.lor a (N.shiftl (N.land b 240) 4) =? spec_active a b) (seqN 0 256)) (seqN 0 256) = true)
    by (vm_compute; reflexivity).
  rewrite forallb_forall in H. specialize (H lo (in_seqN_256 lo Hl)).
  rewrite forallb_forall in H. specialize (H nib (in_seqN_256 nib Hn)). now apply N.eqb_eq.
Qed.

(* C20_values, preferred resolution: the first detailed timing descriptor read as the E-EDID text says *)
Theorem edid_preferred d size :
  preferred_resolution d size = match spec_preferred d size with Some p => Ok p | None => Err EIoError end.
Proof.
  unfold preferred_resolution, first_detailed_timing, has_base_block, spec_preferred, dtd_parse, DTD1_OFFSET.
  destruct (N.leb_spec 128 size) as [H|H]; destruct (N.ltb_spec size 128) as [H'|H']; try lia; [|reflexivity].
  cbn [Nat.add]. rewrite !dtd_active by apply byte_lt. change (byte d) with (ebyte d).
  destruct ((spec_active (ebyte d 56) (ebyte d 58) =? 0) || (spec_active (ebyte d 59) (ebyte d 61) =? 0)); reflexivity.
Qed.

Definition st_check (b0 b1 : N) : bool :=
  match st_parse b0 b1, spec_std b0 b1 with
  | Ok (Some (a, b)), Some (c, e) => (a =? c) && (b =? e) && (a <=? 2288) && (b <=? 2288)
  | Ok None, None => true
  | _, _ => false
  end.

(* (b0 + 31) * 8 and the four aspect ratios: all 65536 entries; unreachable!() is unreachable; results fit u32 *)
Lemma st_parse_spec b0 b1 : b0 < 256 -> b1 < 256 ->
  st_parse b0 b1 = Ok (spec_std b0 b1)
  /\ (forall p, spec_std b0 b1 = Some p -> fst p <= 2288 /\ snd p <= 2288).
Proof.
  intros H0 H1.
  assert (H : forallb (fun a => forallb (fun b => st_check a b) (seqN 0 256)) (seqN 0 256) = true) by (vm_compute; reflexivity).
  rewrite forallb_forall in H. specialize (H b0 (in_seqN_256 b0 H0)).
  rewrite forallb_forall in H. specialize (H b1 (in_seqN_256 b1 H1)).
  unfold st_check in H. destruct (st_parse b0 b1) as [[[a b]|]|er | |]; destruct (spec_std b0 b1) as [[c e]|]; try discriminate.
  - apply andb_prop in H. destruct H as [H Hb]. apply andb_prop in H. destruct H as [H Ha]. apply andb_prop in H. destruct H as [E1 E2].
    apply N.eqb_eq in E1, E2. apply N.leb_le in Ha, Hb. subst. split; [reflexivity|]. intros p Hp. injection Hp as <-. cbn. lia.
  - split; [reflexivity|]. intros p Hp. discriminate.
Qed.

Definition std_entry (d : list N) (i : nat) : list (N * N) :=
  match spec_std (ebyte d (38 + 2 * i)) (ebyte d (39 + 2 * i)) with Some p => [p] | None => [] end.

Lemma collect_spec d : forall k i, collect d i k = Ok (flat_map (std_entry d) (seq i k)).
Proof.
  induction k as [|k IH]; intros i; cbn [collect seq flat_map]; [reflexivity|].
  unfold standard_timing, STANDARD_TIMINGS_OFFSET, STANDARD_TIMING_LEN.
  destruct (st_parse_spec (byte d (38 + i * 2)) (byte d (38 + i * 2 + 1)) (byte_lt _ _) (byte_lt _ _)) as [E _].
  rewrite E, IH. unfold std_entry.
  replace (38 + 2 * i)%nat with (38 + i * 2)%nat by lia. replace (39 + 2 * i)%nat with (38 + i * 2 + 1)%nat by lia.
  change (byte d) with (ebyte d). destruct (spec_std _ _); reflexivity.
Qed.

Lemma spec_std_list_eq d : spec_std_list d = flat_map (std_entry d) (seq 0 8).
Proof. reflexivity. Qed.

(* ---- the stable sort by decreasing pixel count ---- *)
Lemma area_pixels p : area p = pixels p. Proof. reflexivity. Qed.

Lemma insert_perm x l : Permutation (insert_desc x l) (x :: l).
Proof.
  induction l as [|y t IH]; cbn [insert_desc]; [apply Permutation_refl|].
  destruct (area x <? area y); [|apply Permutation_refl].
  eapply perm_trans; [apply perm_skip, IH|apply perm_swap].
Qed.
Lemma sort_perm l : Permutation (sort_desc l) l.
Proof.
  induction l as [|x t IH]; cbn [sort_desc fold_right]; [constructor|].
  eapply perm_trans; [apply insert_perm|]. now apply perm_skip.
Qed.

Definition ge_px (a b : N * N) : Prop := pixels b <= pixels a.

Lemma insert_sorted x l : StronglySorted ge_px l -> StronglySorted ge_px (insert_desc x l).
Proof.
  induction 1 as [|y t Hs IH Hall]; cbn [insert_desc]; [repeat constructor|].
  destruct (N.ltb_spec (area x) (area y)) as [Hlt|Hge].
  - constructor; [exact IH|]. rewrite Forall_forall in *. intros z Hz.
    apply (Permutation_in _ (insert_perm x t)) in Hz. destruct Hz as [<-|Hz]; [unfold ge_px, pixels, area in *; lia|auto].
  - constructor; [constructor; auto|]. constructor; [unfold ge_px, pixels, area in *; lia|].
    rewrite Forall_forall in *. intros z Hz. specialize (Hall z Hz). unfold ge_px, pixels, area in *. lia.
Qed.
Lemma sort_sorted l : StronglySorted ge_px (sort_desc l).
Proof. induction l as [|x t IH]; cbn [sort_desc fold_right]; [constructor|]. now apply insert_sorted. Qed.

(* stability: entries of equal pixel count keep their relative order *)
Lemma insert_stable k x l : StronglySorted ge_px l ->
  filter (fun p => pixels p =? k) (insert_desc x l) = filter (fun p => pixels p =? k) (x :: l).
Proof.
  induction 1 as [|y t Hs IH Hall]; cbn [insert_desc]; [reflexivity|].
  destruct (N.ltb_spec (area x) (area y)) as [Hlt|Hge]; [|reflexivity].
  cbn [filter] in *. rewrite IH. unfold pixels, area in *.
  destruct (N.eqb_spec (fst y * snd y) k) as [Ey|Ny]; destruct (N.eqb_spec (fst x * snd x) k) as [Ex|Nx]; try reflexivity. lia.
Qed.
Lemma sort_stable k l : filter (fun p => pixels p =? k) (sort_desc l) = filter (fun p => pixels p =? k) l.
Proof.
  induction l as [|x t IH]; cbn [sort_desc fold_right]; [reflexivity|].
  rewrite insert_stable by apply sort_sorted. cbn [filter]. fold (sort_desc t). now rewrite IH.
Qed.

Lemma flat_map_std_length d : forall l, (length (flat_map (std_entry d) l) <= length l)%nat.
Proof. induction l as [|i t IH]; cbn [flat_map length]; [lia|]. rewrite app_length. unfold std_entry at 1. destruct (spec_std _ _); cbn [length]; lia. Qed.

(* C20_values, standard timings: never a panic; below 128 bytes nothing; otherwise exactly the used entries of the
   eight slots read as the E-EDID text says, largest pixel count first, ties in slot order; every value fits u32 *)
Theorem edid_standard d size :
  exists l, standard_timings d size = Ok l
    /\ (size < 128 -> l = [])
    /\ (128 <= size ->
          Permutation l (spec_std_list d) /\ StronglySorted ge_px l
          /\ (forall k, filter (fun p => pixels p =? k) l = filter (fun p => pixels p =? k) (spec_std_list d))
          /\ (length l <= 8)%nat
          /\ (forall p, In p l -> fst p <= 2288 /\ snd p <= 2288)).
Proof.
  unfold standard_timings, has_base_block, NUM_STANDARD_TIMINGS. rewrite collect_spec, <- spec_std_list_eq.
  destruct (N.leb_spec 128 size) as [H|H].
  - exists (sort_desc (spec_std_list d)). split; [reflexivity|]. split; [lia|]. intros _.
    split; [apply sort_perm|]. split; [apply sort_sorted|]. split; [intros k; apply sort_stable|].
    split.
    + rewrite (Permutation_length (sort_perm _)), spec_std_list_eq. apply (flat_map_std_length d (seq 0 8)).
    + intros p Hp. apply (Permutation_in _ (sort_perm _)) in Hp. rewrite spec_std_list_eq in Hp.
      apply in_flat_map in Hp. destruct Hp as (i & _ & Hp). unfold std_entry in Hp.
      destruct (spec_std (ebyte d (38 + 2 * i)) (ebyte d (39 + 2 * i))) as [q|] eqn:E; [|contradiction].
      destruct Hp as [<-|[]].
      exact (proj2 (st_parse_spec _ _ (byte_lt d (38 + 2 * i)) (byte_lt d (39 + 2 * i))) q E).
  - exists []. split; [reflexivity|]. split; [reflexivity|]. lia.
Qed.

(* "highest resolution": the first entry has the largest pixel count of all used slots *)
Theorem edid_highest d size l p :
  128 <= size -> standard_timings d size = Ok l -> In p (spec_std_list d) ->
  exists top rest, l = top :: rest /\ pixels p <= pixels top.
Proof.
  intros Hs Hl Hp. destruct (edid_standard d size) as (l' & E & _ & H). rewrite Hl in E. injection E as <-.
  destruct (H Hs) as (Hperm & Hsort & _).
  apply (Permutation_in _ (Permutation_sym Hperm)) in Hp.
  destruct l as [|top rest]; [contradiction|]. exists top, rest. split; [reflexivity|].
  destruct Hp as [<-|Hp]; [lia|]. inversion Hsort as [|? ? _ Hall]; subst. rewrite Forall_forall in Hall. exact (Hall p Hp).
Qed.

Example edid_nonvacuous :
  let d := repeat 0 38 ++ [225; 192; 209; 192; 209; 0; 169; 64; 179; 0; 149; 0; 129; 128; 129; 64] ++ [210; 84; 128; 160; 114; 56; 37; 64] ++ repeat 0 900 in
  preferred_resolution d 128 = Ok (1920, 1080)
  /\ standard_timings d 256 = Ok [(2048, 1152); (1920, 1200); (1920, 1080); (1600, 1200); (1680, 1050); (1280, 1024); (1440, 900); (1280, 960)]
  /\ standard_timings d 127 = Ok [] /\ preferred_resolution d 127 = Err EIoError.
Proof. cbv zeta. repeat split; vm_compute; reflexivity. Qed.

(* ================= backing memory over whole driver lives ================= *)
(* the resource / memory events of an event list when every request is answered with the expected success *)
Definition bevs_of_ev (e : gev) : list bev :=
  match e with
  | GCtrl b => match spec_decode b with Some (_, c) => bev_of_cmd c | None => [] end
  | GCursor _ => []
  | GAlloc pg pa => [BAlloc pg pa]
  | GDealloc pa pg => [BDealloc pa pg]
  | GQueueUnset _ => []
  | GReset => [BReset]
  end.
Definition bevs_of (evs : list gev) : list bev := flat_map bevs_of_ev evs.

Lemma bevs_ctrl r : req_wf r -> bevs_of_ev (GCtrl (enc_req r)) = bev_of_cmd (spec_of r).
Proof. intros H. unfold bevs_of_ev. pose proof (roundtrip r [] H) as E. rewrite app_nil_r in E. now rewrite E. Qed.

Lemma brun_app st a b : brun st (a ++ b) = match brun st a with Some st' => brun st' b | None => None end.
Proof. revert st. induction a as [|e a IH]; intros st; cbn [brun app]; [reflexivity|]. destruct (bstep st e); auto. Qed.

(* device resources and live DMA regions as determined by the driver state (two possible orders each) *)
Definition fb_res (s : gstate) : list bres :=
  match g_fb s, g_rect s with
  | Some (pa, _), Some (w, h) => [mkR RESOURCE_ID_FB w h (Some (pa, w * h * 4))]
  | _, _ => []
  end.
Definition cur_res (s : gstate) : list bres :=
  match g_cur s with Some (pa, _) => [mkR RESOURCE_ID_CURSOR 64 64 (Some (pa, 16384))] | None => [] end.
Definition regs (o : option (N * N)) : list (N * N) := match o with Some r => [r] | None => [] end.
Definition mk_st (s : gstate) (o1 o2 : bool) : bst :=
  mkBS (if o1 then fb_res s ++ cur_res s else cur_res s ++ fb_res s)
       (if o2 then regs (g_fb s) ++ regs (g_cur s) else regs (g_cur s) ++ regs (g_fb s)).

Definition apart (r1 r2 : N * N) : Prop := reg_inside r1 (fst r2) = false /\ reg_inside r2 (fst r1) = false.

(* facts about reachable driver states (absent errors) *)
Definition Good (s : gstate) : Prop :=
  match g_fb s, g_rect s with
  | Some (pa, pg), Some (w, h) => w * h * 4 <= pg * 4096 /\ pa <> 0 /\ pg <> 0 /\ w < two32 /\ h < two32
  | None, None => True
  | _, _ => False
  end
  /\ match g_cur s with Some (pa, pg) => pg = 4 /\ pa <> 0 | None => True end
  /\ match g_fb s, g_cur s with Some r1, Some r2 => apart r1 r2 | _, _ => True end.

(* what the platform guarantees for a new allocation: not the null address, not overlapping a live region *)
Definition fresh (s : gstate) (paddr pg : N) : Prop :=
  paddr <> 0
  /\ match g_fb s with Some r => apart r (paddr, pg) | None => True end
  /\ match g_cur s with Some r => apart r (paddr, pg) | None => True end.

Definition nodata (b : list N) : Prop := hdr_type b = OK_NODATA.

(* driver lives without device errors: every answer is the expected success type *)
Inductive Life : gstate -> list gev -> Prop :=
| L_new feats : Life (gpu_new feats) []
| L_change s h0 w h paddr bs v s' evs :
    Life s h0 -> w < two32 -> h < two32 -> paddr < two64 -> 0 < w * h * 4 < two32 ->
    fresh s paddr (gpu_pages (w * h * 4)) -> Forall nodata bs ->
    length bs = (match g_fb s with Some _ => 6 | None => 3 end)%nat ->
    change_resolution w h paddr s (map RB bs) = Some (Ok v, s', [], evs) ->
    Life s' (h0 ++ evs)
| L_flush s h0 b1 b2 s' evs :
    Life s h0 -> nodata b1 -> nodata b2 -> flush s [RB b1; RB b2] = Some (Ok tt, s', [], evs) -> Life s' (h0 ++ evs)
| L_setup_cursor s h0 x y hx hy paddr b1 b2 b3 b4 s' evs :
    Life s h0 -> x < two32 -> y < two32 -> hx < two32 -> hy < two32 -> paddr < two64 -> fresh s paddr 4 ->
    nodata b1 -> nodata b2 -> nodata b3 ->
    setup_cursor 16384 x y hx hy paddr s [RB b1; RB b2; RB b3; RB b4] = Some (Ok tt, s', [], evs) -> Life s' (h0 ++ evs)
| L_move s h0 x y b s' evs :
    Life s h0 -> x < two32 -> y < two32 -> move_cursor x y s [RB b] = Some (Ok tt, s', [], evs) -> Life s' (h0 ++ evs)
| L_resolution s h0 b o s' evs :
    Life s h0 -> resolution s [RB b] = Some (o, s', [], evs) -> Life s' (h0 ++ evs)
| L_get_edid s h0 sc b o s' t evs :
    Life s h0 -> sc < two32 -> get_edid sc s [RB b] = Some (o, s', t, evs) -> Life s' (h0 ++ evs).

Ltac btest :=
  repeat match goal with
  | |- context [if ?c then _ else _] =>
      first [ replace c with true by (symmetry; first [apply N.eqb_eq | apply N.leb_le | apply N.ltb_lt | apply andb_true_intro]; lia)
            | replace c with false by (symmetry; first [apply N.eqb_neq | apply N.leb_gt | apply N.ltb_ge]; lia) ]
  end.

Lemma reg_inside_self pa pg : reg_inside (pa, pg) pa = true.
Proof. unfold reg_inside. cbn [fst snd]. apply andb_true_intro. split; [apply N.leb_le|apply N.ltb_lt]; lia. Qed.
Lemma apart_neq r1 r2 : apart r1 r2 -> fst r1 <> fst r2.
Proof.
  intros [_ H] E. destruct r1 as [a1 g1], r2 as [a2 g2]. cbn [fst] in *. subst a2.
  rewrite reg_inside_self in H. discriminate.
Qed.

Lemma bevs_of_app a b : bevs_of (a ++ b) = bevs_of a ++ bevs_of b.
Proof. apply flat_map_app. Qed.

Ltac bsolve :=
  repeat match goal with
  | |- context [?a <=? ?b] =>
      first [ replace (a <=? b) with true by (symmetry; apply N.leb_le; lia)
            | replace (a <=? b) with false by (symmetry; apply N.leb_gt; lia) ]
  | |- context [?a =? ?b] =>
      first [ replace (a =? b) with true by (symmetry; apply N.eqb_eq; lia)
            | replace (a =? b) with false by (symmetry; apply N.eqb_neq; lia) ]
  end.

Ltac brun_eval :=
  repeat (cbn [brun bstep bev_of_cmd spec_of flat_map app find_res del_res find filter existsb negb andb orb
                 r_id r_w r_h r_back b_res b_live fst snd remove_reg regs fb_res cur_res mk_st
                 g_fb g_rect g_cur g_edid set_cur set_fb set_rect
                 N.eqb Pos.eqb RESOURCE_ID_FB RESOURCE_ID_CURSOR FORMAT_B8G8R8A8_UNORM];
          unfold covers, reg_eqb; cbn [fst snd];
          repeat match goal with H : reg_inside _ _ = false |- _ => rewrite H end;
          bsolve).

(* the invariant: after any such life the device's resources and the live DMA regions are exactly those the driver
   state describes (in one of two list orders), and the checker has accepted every event so far *)
Theorem life_inv s evs : Life s evs -> Good s /\ exists o1 o2, brun bst0 (bevs_of evs) = Some (mk_st s o1 o2).
Proof.
  induction 1 as [feats
                 | s h0 w h paddr bs v s' evs HL IH Hw Hh Hp Hsz Hfr Hok Hlen Hrun
                 | s h0 b1 b2 s' evs HL IH H1 H2 Hrun
                 | s h0 x y hx hy paddr b1 b2 b3 b4 s' evs HL IH Hx Hy Hhx Hhy Hp Hfr H1 H2 H3 Hrun
                 | s h0 x y b s' evs HL IH Hx Hy Hrun
                 | s h0 b o s' evs HL IH Hrun
                 | s h0 sc b o s' t evs HL IH Hsc Hrun ].
  - split; [repeat split|]. exists true, true. reflexivity.
  - destruct IH as [HG (o1 & o2 & IH)]. destruct Hfr as (Hp0 & Hf1 & Hf2).
    destruct (change_sequence s w h paddr bs Hw Hh Hp0 Hsz Hok Hlen) as [E Hcov]. rewrite E in Hrun. injection Hrun as <- <- <-.
    destruct (gpu_pages_covers (w * h * 4)) as [_ Hnz]. specialize (Hnz (proj1 Hsz)).
    rewrite bevs_of_app, brun_app, IH. clear IH E.
    destruct s as [rect fb cur ed]. unfold Good in *. cbn [g_fb g_rect g_cur g_edid] in *.
    destruct HG as (G1 & G2 & G3).
    destruct fb as [[pa pg0]|]; destruct rect as [[w0 h0']|]; try contradiction;
      destruct cur as [[pc pgc]|].
    all: repeat match goal with
                | H : apart _ _ |- _ => let N := fresh "Hne" in pose proof (apart_neq _ _ H) as N; destruct H; cbn [fst snd] in *
                | H : _ /\ _ |- _ => destruct H
                end.
    all: split; [repeat split; auto; try lia; unfold apart; cbn [fst snd]; auto|].
    all: exists true, true.
    all: unfold bevs_of; cbn [flat_map app]; rewrite !bevs_ctrl by wf; cbn [app bevs_of_ev].
    all: destruct o1, o2; brun_eval; try reflexivity.
  - (* flush *)
    destruct IH as [HG (o1 & o2 & IH)].
    destruct s as [rect fb cur ed]. unfold Good in HG. cbn [g_fb g_rect g_cur g_edid] in *.
    destruct rect as [[w h]|]; [|discriminate Hrun].
    destruct fb as [[pa pg0]|]; [|destruct HG as [[] _]].
    destruct HG as ((G1 & G2 & G3 & Gw & Gh) & G4 & G5).
    assert (E : flush (mkG (Some (w, h)) (Some (pa, pg0)) cur ed) [RB b1; RB b2]
                = Some (Ok tt, mkG (Some (w, h)) (Some (pa, pg0)) cur ed, [],
                        [GCtrl (enc_req (RTransfer 0 0 w h 0 RESOURCE_ID_FB)); GCtrl (enc_req (RFlush 0 0 w h RESOURCE_ID_FB))])).
    { unfold nodata in *. exec_ok. reflexivity. }
    rewrite E in Hrun. injection Hrun as Es Ee. subst s' evs.
    split; [unfold Good; cbn [g_fb g_rect g_cur]; repeat split; assumption|]. exists o1, o2.
    rewrite bevs_of_app, brun_app, IH. unfold bevs_of. cbn [flat_map app]. rewrite !bevs_ctrl by wf. cbn [app].
    destruct cur as [[pc pgc]|]; destruct o1, o2; brun_eval; reflexivity.
  - (* setup_cursor *)
    destruct IH as [HG (o1 & o2 & IH)]. destruct Hfr as (Hp0 & Hf1 & Hf2).
    destruct (setup_cursor_sequence s x y hx hy paddr b1 b2 b3 b4 Hx Hy Hhx Hhy Hp0 Hp H1 H2 H3)
      as (evs0 & cmds & E & Eevs & _). rewrite E in Hrun. injection Hrun as <- <-. subst evs0.
    rewrite bevs_of_app, brun_app, IH. clear IH E.
    destruct s as [rect fb cur ed]. unfold Good in *. cbn [g_fb g_rect g_cur g_edid set_cur] in *.
    destruct HG as (G1 & G2 & G3).
    destruct fb as [[pa pg0]|]; destruct rect as [[w0 h0']|]; try contradiction;
      destruct cur as [[pc pgc]|].
    all: repeat match goal with
                | H : apart _ _ |- _ => let N := fresh "Hne" in pose proof (apart_neq _ _ H) as N; destruct H; cbn [fst snd] in *
                | H : _ /\ _ |- _ => destruct H
                end.
    all: split; [repeat split; auto; try lia; unfold apart; cbn [fst snd]; auto|].
    all: exists false, false.
    all: unfold bevs_of; cbn [flat_map app]; rewrite !bevs_ctrl by wf; cbn [app bevs_of_ev].
    all: destruct o1, o2; brun_eval; try reflexivity.
  - (* move_cursor *)
    assert (E : move_cursor x y s [RB b] = Some (Ok tt, s, [], [GCursor (enc_req (RCursor true SCANOUT_ID x y RESOURCE_ID_CURSOR 0 0))]))
      by reflexivity.
    rewrite E in Hrun. injection Hrun as <- <-. rewrite bevs_of_app. cbn. rewrite app_nil_r. exact IH.
  - (* resolution *)
    assert (E : s' = s /\ evs = [GCtrl (enc_req RGetDisplayInfo)]).
    { revert Hrun. unfold resolution. run_model. destruct (hdr_type b =? OK_DISPLAY_INFO); intros H; injection H as <- <- <-; auto. }
    destruct E as [-> ->]. rewrite bevs_of_app. unfold bevs_of at 2. cbn [flat_map app]. rewrite bevs_ctrl by exact I.
    cbn. rewrite app_nil_r. exact IH.
  - (* get_edid *)
    assert (E : s' = s /\ (evs = [] \/ evs = [GCtrl (enc_req (RGetEdid sc))])).
    { revert Hrun. destruct s as [rect fb cur ed]. run_model. destruct ed; cbn [negb]; run_model.
      - destruct (hdr_type b =? OK_EDID); intros H; injection H as <- <- <- <-; auto.
      - intros H; injection H as <- <- <- <-; auto. }
    destruct E as [-> [->| ->]]; rewrite bevs_of_app.
    + cbn. rewrite app_nil_r. exact IH.
    + unfold bevs_of at 2. cbn [flat_map app]. rewrite bevs_ctrl by exact Hsc. cbn. rewrite app_nil_r. exact IH.
Qed.

(* C20_backing: over every life without device errors, including the final drop: every region handed to the device as
   backing lies inside live DMA memory and covers the advertised length, which covers the resource; memory is released
   only when no device resource is backed by it (after DETACH_BACKING / UNREF, or after the reset of Drop) *)
Theorem backing_life s evs : Life s evs -> backing_ok (bevs_of (evs ++ gpu_drop s)) = true.
Proof.
  intros HL. destruct (life_inv s evs HL) as [HG (o1 & o2 & E)].
  unfold backing_ok. rewrite bevs_of_app, brun_app, E.
  destruct s as [rect fb cur ed]. unfold Good in HG. cbn [g_fb g_rect g_cur g_edid] in HG.
  destruct HG as (G1 & G2 & G3).
  destruct fb as [[pa pg0]|]; destruct rect as [[w0 h0']|]; try contradiction; destruct cur as [[pc pgc]|].
  all: repeat match goal with
              | H : apart _ _ |- _ => let N := fresh "Hne" in pose proof (apart_neq _ _ H) as N; destruct H; cbn [fst snd] in *
              | H : _ /\ _ |- _ => destruct H
              end.
  all: unfold gpu_drop, bevs_of; cbn [g_fb g_cur flat_map app bevs_of_ev].
  all: destruct o1, o2; brun_eval; reflexivity.
Qed.

Example backing_nonvacuous :
  exists s evs, Life s evs /\ g_fb s = Some (70368744308736, 1) /\ g_cur s = Some (70368744243200, 4)
    /\ bevs_of (evs ++ gpu_drop s)
       = [BCreate 47806 4 4; BAlloc 1 70368744177664; BAttach 47806 70368744177664 64;
          BAlloc 4 70368744243200; BCreate 56030 64 64; BAttach 56030 70368744243200 16384; BTransfer 56030;
          BDetach 47806; BUnref 47806; BDealloc 70368744177664 1;
          BCreate 47806 8 8; BAlloc 1 70368744308736; BAttach 47806 70368744308736 256;
          BTransfer 47806; BReset; BDealloc 70368744308736 1; BDealloc 70368744243200 4].
Proof.
  set (ok := resp_hdr 4352).
  assert (L1 : Life (gpu_new 2) []) by constructor.
  assert (Hok : forall n, Forall nodata (repeat ok n)) by (intros n; induction n; constructor; auto; reflexivity).
  eassert (L2 : Life _ _).
  { eapply (L_change _ _ 4 4 70368744177664 (repeat ok 3)); [exact L1| | | | | |apply Hok|reflexivity|vm_compute; reflexivity];
      try (vm_compute; reflexivity); [split; vm_compute; reflexivity|repeat split; discriminate]. }
  eassert (L3 : Life _ _).
  { eapply (L_setup_cursor _ _ 1 2 3 4 70368744243200 ok ok ok ok); [exact L2| | | | | | | | | |vm_compute; reflexivity];
      try (vm_compute; reflexivity).
    split; [discriminate|]. split; [split; vm_compute; reflexivity|exact I]. }
  eassert (L4 : Life _ _).
  { eapply (L_change _ _ 8 8 70368744308736 (repeat ok 6)); [exact L3| | | | | |apply Hok|reflexivity|vm_compute; reflexivity];
      try (vm_compute; reflexivity); [split; vm_compute; reflexivity|].
    split; [discriminate|]. split; split; vm_compute; reflexivity. }
  eassert (L5 : Life _ _).
  { eapply (L_flush _ _ ok ok); [exact L4|reflexivity|reflexivity|vm_compute; reflexivity]. }
  eexists _, _. split; [exact L5|]. split; [reflexivity|]. split; [reflexivity|]. vm_compute. reflexivity.
Qed.

(* setup_framebuffer is the display query followed by change_resolution with the reported (width, height) *)
Theorem setup_framebuffer_unfold paddr s b0 rs :
  hdr_type b0 = OK_DISPLAY_INFO ->
  setup_framebuffer paddr s (RB b0 :: rs)
  = match change_resolution (rdf 32 4 b0) (rdf 36 4 b0) paddr s rs with
    | Some (o, s', t, e) => Some (o, s', t, GCtrl (enc_req RGetDisplayInfo) :: e)
    | None => None
    end.
Proof.
  intros H. unfold setup_framebuffer.
  cbv beta iota delta [gbind get_display_info ctrl_request glift check_type gret]. rewrite H.
  cbn [N.eqb Pos.eqb OK_DISPLAY_INFO fst snd app].
  destruct (change_resolution (rdf 32 4 b0) (rdf 36 4 b0) paddr s rs) as [[[[o s'] t] e]|]; reflexivity.
Qed.

Example errors_nonvacuous :
  (* the second answer is ERR_UNSPEC (0x1200): IoError, exactly two requests, the memory is released again *)
  change_resolution 4 4 70368744177664 (gpu_new 0) [RB (resp_hdr 4352); RB (resp_hdr 4608); RB (resp_hdr 4352)]
  = Some (Err EIoError, mkG (Some (4, 4)) None None false, [RB (resp_hdr 4352)],
          [GCtrl (enc_req (RCreate2D RESOURCE_ID_FB 4 4)); GAlloc 1 70368744177664;
           GCtrl (enc_req (RAttach RESOURCE_ID_FB 70368744177664 64)); GDealloc 70368744177664 1])
  (* a success type of another command (OK_DISPLAY_INFO where OK_NODATA is due) is an error too *)
  /\ (exists s' evs, flush (mkG (Some (4, 4)) (Some (70368744177664, 1)) None false) [RB (resp_hdr 4353); RB (resp_hdr 4352)]
                     = Some (Err EIoError, s', [RB (resp_hdr 4352)], evs) /\ length evs = 1%nat)
  (* the transport's own error is passed on *)
  /\ (exists s' evs, resolution (gpu_new 0) [RQ EWrongToken] = Some (Err EWrongToken, s', [], evs)).
Proof. split; [vm_compute; reflexivity|]. split; eexists _, _; [split|]; vm_compute; reflexivity. Qed.
