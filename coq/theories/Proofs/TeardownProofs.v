(* C09: teardown and failed construction free each resource once, after quiescing.            *)
(* Part A  balanced   : generic invariant of the constructor interpreter (ownership is conserved) *)
(* Part B  a refused dma_alloc is reported as Err(DmaError)                                    *)
(* Part C  quiesced   : strict (address-free) monitor + abstract interpretation of the eleven   *)
(*                      constructors, real monitor through the usage histories                  *)
(* Part D  what a true monitor verdict means on ANY event sequence (declarative statement)      *)
From VD Require Import Base.Words Model.Layout Model.Teardown.
From Coq Require Import ZArith Lia Permutation.

(* ================================================================================================ *)
(* Part A: balanced                                                                               *)

Definition owned_atom (a : atom) : list region :=
  match a with ADma r => [r] | AOpt _ (Some r) => [r] | _ => [] end.
Definition owned (l : list atom) : list region := flat_map owned_atom l.
Definition owned_frame (fr : list (N * list atom)) : list region := owned (frame_atoms fr).

Lemma owned_app a b : owned (a ++ b) = owned a ++ owned b.
Proof. unfold owned. apply flat_map_app. Qed.

Lemma frame_atoms_cons x a fr : frame_atoms ((x, a) :: fr) = a ++ frame_atoms fr.
Proof. reflexivity. Qed.

Lemma owned_frame_cons x a fr : owned_frame ((x, a) :: fr) = owned a ++ owned_frame fr.
Proof. unfold owned_frame. rewrite frame_atoms_cons. apply owned_app. Qed.

Lemma region_eqb_refl r : region_eqb r r = true.
Proof. destruct r as [[a b] c]. cbn. now rewrite !N.eqb_refl. Qed.

Lemma region_eqb_eq r s : region_eqb r s = true -> r = s.
Proof.
  destruct r as [[a b] c], s as [[a' b'] c']. cbn. intros H.
  apply andb_prop in H. destruct H as [H H3]. apply andb_prop in H. destruct H as [H1 H2].
  apply N.eqb_eq in H1, H2, H3. now subst.
Qed.

Lemma remove1_some r L X : remove1 r L = Some X -> Permutation L (r :: X).
Proof.
  revert X. induction L as [|x t IH]; intros X H; cbn in H; [discriminate|].
  destruct (region_eqb r x) eqn:E.
  - apply region_eqb_eq in E. subst x. inversion H; subst. reflexivity.
  - destruct (remove1 r t) as [t'|] eqn:Et; [|discriminate]. inversion H; subst.
    rewrite (IH t' eq_refl). apply perm_swap.
Qed.

Lemma remove1_in r L : In r L -> exists X, remove1 r L = Some X.
Proof.
  induction L as [|x t IH]; intros H; [destruct H|]. cbn.
  destruct (region_eqb r x) eqn:E; [eauto|].
  destruct H as [->|H]; [rewrite region_eqb_refl in E; discriminate|].
  destruct (IH H) as [X ->]. eauto.
Qed.

(* the ledger run succeeds and leaves (a permutation of) R allocated *)
Definition Bal (tr : list tev) (L R : list region) : Prop :=
  exists X, bal_run tr L = Some X /\ Permutation X R.

Lemma bal_run_app a b L :
  bal_run (a ++ b) L = match bal_run a L with Some L' => bal_run b L' | None => None end.
Proof.
  revert L. induction a as [|e t IH]; intros L; [reflexivity|].
  destruct e; cbn [app bal_run]; try apply IH.
  - destruct (paddr =? 0); apply IH.
  - destruct (remove1 (paddr, vaddr, pages) L); [apply IH|reflexivity].
Qed.

Lemma Bal_perm tr L L' R : Permutation L L' -> Bal tr L R -> Bal tr L' R.
Proof.
  revert L L'. induction tr as [|e t IH]; intros L L' HP [X [HX HR]].
  - cbn in HX. inversion HX; subst. exists L'. split; [reflexivity|]. now rewrite <- HP.
  - destruct e; cbn [bal_run] in HX |- *;
      try (apply (IH L L' HP); exists X; split; assumption).
    + destruct (paddr =? 0) eqn:E.
      * destruct (IH L L' HP) as [X' [H1 H2]]; [exists X; split; assumption|].
        exists X'. cbn [bal_run]. rewrite E. split; assumption.
      * destruct (IH ((paddr, vaddr, pages) :: L) ((paddr, vaddr, pages) :: L')) as [X' [H1 H2]];
          [now constructor|exists X; split; assumption|].
        exists X'. cbn [bal_run]. rewrite E. split; assumption.
    + destruct (remove1 (paddr, vaddr, pages) L) as [L1|] eqn:E1; [|discriminate].
      assert (Hin : In (paddr, vaddr, pages) L').
      { apply (Permutation_in _ HP). apply remove1_some in E1.
        apply (Permutation_in _ (Permutation_sym E1)). now left. }
      destruct (remove1_in _ _ Hin) as [L1' E1'].
      assert (HP1 : Permutation L1 L1').
      { apply remove1_some in E1. apply remove1_some in E1'.
        apply (Permutation_cons_inv (a := (paddr, vaddr, pages))).
        rewrite <- E1, <- E1'. exact HP. }
      destruct (IH L1 L1' HP1) as [X' [H1 H2]]; [exists X; split; assumption|].
      exists X'. cbn [bal_run]. rewrite E1'. split; assumption.
Qed.

Lemma Bal_nil L R : Permutation L R -> Bal [] L R.
Proof. intros H. exists L. split; [reflexivity|assumption]. Qed.

Lemma Bal_app a b L M R : Bal a L M -> Bal b M R -> Bal (a ++ b) L R.
Proof.
  intros [X [HX HM]] Hb.
  destruct (Bal_perm b M X R (Permutation_sym HM) Hb) as [Y [HY HR]].
  exists Y. rewrite bal_run_app, HX. split; assumption.
Qed.

(* events that the ledger does not look at *)
Definition neutral (e : tev) : bool :=
  match e with TAlloc _ _ _ _ | TDealloc _ _ _ => false | _ => true end.

Lemma Bal_neutral tr L R : forallb neutral tr = true -> Permutation L R -> Bal tr L R.
Proof.
  revert L. induction tr as [|e t IH]; intros L H HP; [now apply Bal_nil|].
  cbn in H. apply andb_prop in H. destruct H as [He Ht].
  destruct (IH L Ht HP) as [X [HX HR]]. exists X. split; [|assumption].
  destruct e; cbn in He; try discriminate; cbn [bal_run]; assumption.
Qed.

Lemma frees_neutral q t k : forallb neutral (frees q t k) = true.
Proof. revert t. induction k; intros t; cbn; auto. Qed.
Lemma posts_neutral q t k : forallb neutral (posts q t k) = true.
Proof. revert t. induction k; intros t; cbn; auto. Qed.

Lemma Bal_dealloc a v p L R :
  Permutation L ((a, v, p) :: R) -> Bal [TDealloc a v p] L R.
Proof.
  intros HP.
  assert (Hin : In (a, v, p) L) by (apply (Permutation_in _ (Permutation_sym HP)); now left).
  destruct (remove1_in _ _ Hin) as [X HX]. exists X. cbn [bal_run]. rewrite HX. split; [reflexivity|].
  apply remove1_some in HX. apply (Permutation_cons_inv (a := (a, v, p))). now rewrite <- HX.
Qed.

Lemma Bal_alloc pg d a v L : a <> 0 -> Bal [TAlloc pg d a v] L ((a, v, pg) :: L).
Proof.
  intros Ha. exists ((a, v, pg) :: L). cbn [bal_run].
  destruct (N.eqb_spec a 0); [contradiction|]. split; reflexivity.
Qed.

Lemma Bal_alloc_refused pg d v L : Bal [TAlloc pg d 0 v] L L.
Proof. exists L. split; reflexivity. Qed.

(* dropping a value returns exactly what it owns *)
Lemma drop_bal a : forall L R, Permutation L (owned a ++ R) -> Bal (drop_atoms a) L R.
Proof.
  induction a as [|x t IH]; intros L R HP; [now apply Bal_nil|].
  change (drop_atoms (x :: t)) with (drop_atom x ++ drop_atoms t).
  change (owned (x :: t)) with (owned_atom x ++ owned t) in HP. rewrite <- app_assoc in HP.
  destruct x as [[[pa va] pg]|s [[[pa va] pg]|]| |q|q n]; cbn [drop_atom owned_atom]; cbn [owned_atom app] in HP.
  - eapply Bal_app; [apply Bal_dealloc; exact HP|apply IH; reflexivity].
  - eapply Bal_app; [apply Bal_dealloc; exact HP|apply IH; reflexivity].
  - now apply IH.
  - eapply Bal_app; [apply Bal_neutral; [reflexivity|reflexivity]|now apply IH].
  - eapply Bal_app; [apply Bal_neutral; [reflexivity|reflexivity]|now apply IH].
  - eapply Bal_app; [apply Bal_neutral; [apply frees_neutral|reflexivity]|now apply IH].
Qed.

(* moving locals around conserves what is owned *)
Lemma take_owned x fr : forall a fr', take x fr = (a, fr') ->
  Permutation (owned_frame fr) (owned a ++ owned_frame fr').
Proof.
  induction fr as [|[y ay] t IH]; intros a fr' H; cbn in H.
  - inversion H; subst. reflexivity.
  - destruct (x =? y).
    + inversion H; subst. now rewrite owned_frame_cons.
    + destruct (take x t) as [r t'] eqn:E. inversion H; subst.
      rewrite !owned_frame_cons, (IH _ _ eq_refl), !app_assoc.
      apply Permutation_app_tail, Permutation_app_comm.
Qed.

Lemma owned_lits l : owned (lits l) = [].
Proof. induction l as [|[q n|s] t IH]; cbn; auto. Qed.

Lemma build_owned fs : forall fr tp a fr' tp', build fs fr tp = (a, fr', tp') ->
  Permutation (owned_frame fr) (owned a ++ owned_frame fr').
Proof.
  induction fs as [|f r IH]; intros fr tp a fr' tp' H; cbn in H.
  - inversion H; subst. reflexivity.
  - destruct f as [|x|n].
    + destruct (build r fr false) as [[a0 fr0] tp0] eqn:E. inversion H; subst.
      rewrite owned_app. destruct tp; cbn; eapply IH; eassumption.
    + destruct (take x fr) as [ax fr1] eqn:Et.
      destruct (build r fr1 tp) as [[a0 fr0] tp0] eqn:E. inversion H; subst.
      rewrite owned_app, <- app_assoc, (take_owned _ _ _ _ Et).
      apply Permutation_app_head. eapply IH; eassumption.
    + destruct (build r fr tp) as [[a0 fr0] tp0] eqn:E. inversion H; subst.
      rewrite owned_app, owned_lits. cbn. eapply IH; eassumption.
Qed.

(* config reads: no resource is touched, the frame is unchanged, nothing but config-space accesses happens *)
Definition cfgonly (e : tev) : bool := match e with TCfg _ _ | TGen => true | _ => false end.
Lemma cfgonly_neutral l : forallb cfgonly l = true -> forallb neutral l = true.
Proof.
  induction l as [|e t IH]; intros H; [reflexivity|]. cbn in H. apply andb_prop in H. destruct H as [He Ht].
  cbn. rewrite (IH Ht). destruct e; cbn in He |- *; try reflexivity; discriminate.
Qed.

Lemma do_reads_inv reads : forall c r c' ev, do_reads reads c = (r, c', ev) ->
  c_fr c' = c_fr c /\ c_tp c' = c_tp c /\ forallb cfgonly ev = true.
Proof.
  induction reads as [|[off len] t IH]; intros c r c' ev H; cbn in H.
  - inversion H; subst. auto.
  - unfold take_cfg in H. destruct (c_cf c) as [|[code val] cf'] eqn:Ecf.
    + cbn in H. inversion H; subst. auto.
    + destruct (code =? 0).
      * destruct (do_reads t (set_cf c cf')) as [[r0 c0] ev0] eqn:E. inversion H; subst.
        destruct (IH _ _ _ _ E) as (H1 & H2 & H3). cbn in H1, H2. auto.
      * inversion H; subst. cbn. auto.
Qed.

Lemma tag_bytes_neutral cf : forall idx len r cf' ev, tag_bytes cf idx len = (r, cf', ev) -> forallb cfgonly ev = true.
Proof.
  induction cf as [|[code val] t IH]; intros idx len r cf' ev H; cbn in H.
  - destruct (len <=? idx); inversion H; subst; reflexivity.
  - destruct (len <=? idx); [inversion H; subst; reflexivity|].
    destruct (code =? 0).
    + destruct (tag_bytes t (idx + 1) len) as [[r0 c0] ev0] eqn:E. inversion H; subst.
      cbn. eapply IH; eassumption.
    + inversion H; subst. reflexivity.
Qed.

Lemma tag_body_inv c r c' ev : tag_body c = (r, c', ev) ->
  c_fr c' = c_fr c /\ c_tp c' = c_tp c /\ forallb cfgonly ev = true.
Proof.
  unfold tag_body, take_cfg. intros H.
  destruct (c_cf c) as [|[code val] cf'] eqn:Ecf.
  - cbn in H. inversion H; subst. auto.
  - destruct (code =? 0); cbn [negb] in H; [|inversion H; subst; cbn; auto].
    destruct (w16 val =? 0); [inversion H; subst; cbn; auto|].
    destruct (tag_bytes (c_cf (set_cf c cf')) 0 (w16 val)) as [[r0 cf0] ev0] eqn:E.
    apply tag_bytes_neutral in E.
    destruct r0; [inversion H; subst; cbn; auto|].
    destruct (c_utf8 c); inversion H; subst; cbn; auto.
Qed.

Lemma forallb_neutral_app a b : forallb cfgonly (a ++ b) = forallb cfgonly a && forallb cfgonly b.
Proof. apply forallb_app. Qed.

Lemma consistent_inv body :
  (forall c r c' ev, body c = (r, c', ev) -> c_fr c' = c_fr c /\ c_tp c' = c_tp c /\ forallb cfgonly ev = true) ->
  forall gn c r c' ev gn', consistent gn body c = (r, c', ev, gn') ->
  c_fr c' = c_fr c /\ c_tp c' = c_tp c /\ forallb cfgonly ev = true.
Proof.
  intros Hb gn. remember (length gn) as k eqn:Hk.
  revert gn Hk. induction k as [k IH] using lt_wf_ind. intros gn Hk c r c' ev gn' H.
  destruct gn as [|g1 [|g2 rest]]; cbn in H.
  - destruct (body c) as [[r0 c0] ev0] eqn:E. inversion H; subst. destruct (Hb _ _ _ _ E) as (H1 & H2 & H3).
    cbn. rewrite forallb_neutral_app, H3. auto.
  - destruct (body c) as [[r0 c0] ev0] eqn:E. inversion H; subst. destruct (Hb _ _ _ _ E) as (H1 & H2 & H3).
    cbn. rewrite forallb_neutral_app, H3. auto.
  - destruct (body c) as [[r0 c0] ev0] eqn:E. destruct (Hb _ _ _ _ E) as (H1 & H2 & H3).
    destruct (g1 =? g2).
    + inversion H; subst. cbn. rewrite forallb_neutral_app, H3. auto.
    + destruct (consistent rest body c0) as [[[r1 c1] ev1] gn1] eqn:E1. inversion H; subst.
      destruct (IH (length rest) ltac:(cbn; lia) rest eq_refl _ _ _ _ _ E1) as (G1 & G2 & G3).
      cbn. rewrite forallb_neutral_app, H3. cbn. rewrite G3. split; [congruence|split; [congruence|reflexivity]].
Qed.

(* VirtQueue::new: what was allocated is either returned again (refusal) or owned by the new queue value *)
Local Opaque pages desc_size avail_size used_size legacy_pages align_up.
Lemma queue_alloc_bal legacy q n c r c' ev a L :
  queue_alloc legacy q n c = (r, c', ev, a) ->
  c_fr c' = c_fr c /\ c_tp c' = c_tp c /\
  match r with
  | Some e => e = EDmaError /\ a = [] /\ Bal ev L L
  | None => Bal ev L (owned a ++ L)
  end.
Proof.
  unfold queue_alloc, take_alloc. intros H.
  destruct legacy.
  - destruct (c_al c) as [|[a1 v1] al'].
    + cbn in H. inversion H; subst. repeat split; auto. apply Bal_alloc_refused.
    + destruct (N.eqb_spec a1 0).
      * inversion H; subst. repeat split; auto. apply Bal_alloc_refused.
      * inversion H; subst. repeat split; auto. cbn [owned flat_map owned_atom app].
        change [TAlloc (legacy_pages n) DIR_BOTH a1 v1; TQueueSet q n a1 (a1 + desc_size n) (a1 + align_up (desc_size n + avail_size n))]
          with ([TAlloc (legacy_pages n) DIR_BOTH a1 v1] ++ [TQueueSet q n a1 (a1 + desc_size n) (a1 + align_up (desc_size n + avail_size n))]).
        eapply Bal_app; [now apply Bal_alloc|apply Bal_neutral; reflexivity].
  - destruct (c_al c) as [|[a1 v1] al'].
    + cbn in H. inversion H; subst. repeat split; auto. apply Bal_alloc_refused.
    + destruct (N.eqb_spec a1 0).
      * inversion H; subst. repeat split; auto. apply Bal_alloc_refused.
      * cbn [c_al set_al] in H. destruct al' as [|[a2 v2] al''].
        -- cbn in H. inversion H; subst. repeat split; auto.
           change [TAlloc (pages (desc_size n + avail_size n)) DIR_TO_DEV a1 v1; TAlloc (pages (used_size n)) DIR_FROM_DEV 0 0;
                   TDealloc a1 v1 (pages (desc_size n + avail_size n))]
             with ([TAlloc (pages (desc_size n + avail_size n)) DIR_TO_DEV a1 v1] ++ [TAlloc (pages (used_size n)) DIR_FROM_DEV 0 0]
                   ++ [TDealloc a1 v1 (pages (desc_size n + avail_size n))]).
           eapply Bal_app; [now apply Bal_alloc|]. eapply Bal_app; [apply Bal_alloc_refused|]. apply Bal_dealloc. reflexivity.
        -- destruct (N.eqb_spec a2 0).
           ++ inversion H; subst. repeat split; auto.
              change [TAlloc (pages (desc_size n + avail_size n)) DIR_TO_DEV a1 v1; TAlloc (pages (used_size n)) DIR_FROM_DEV 0 0;
                      TDealloc a1 v1 (pages (desc_size n + avail_size n))]
                with ([TAlloc (pages (desc_size n + avail_size n)) DIR_TO_DEV a1 v1] ++ [TAlloc (pages (used_size n)) DIR_FROM_DEV 0 0]
                      ++ [TDealloc a1 v1 (pages (desc_size n + avail_size n))]).
              eapply Bal_app; [now apply Bal_alloc|]. eapply Bal_app; [apply Bal_alloc_refused|]. apply Bal_dealloc. reflexivity.
           ++ inversion H; subst. repeat split; auto. cbn [owned flat_map owned_atom app].
              change [TAlloc (pages (desc_size n + avail_size n)) DIR_TO_DEV a1 v1; TAlloc (pages (used_size n)) DIR_FROM_DEV a2 v2;
                      TQueueSet q n a1 (a1 + desc_size n) a2]
                with ([TAlloc (pages (desc_size n + avail_size n)) DIR_TO_DEV a1 v1] ++ [TAlloc (pages (used_size n)) DIR_FROM_DEV a2 v2]
                      ++ [TQueueSet q n a1 (a1 + desc_size n) a2]).
              eapply Bal_app; [now apply Bal_alloc|]. eapply Bal_app; [now apply Bal_alloc|].
              apply Bal_neutral; [reflexivity|]. apply perm_swap.
Qed.

Lemma set_gn_fr c l : c_fr (set_gn c l) = c_fr c. Proof. reflexivity. Qed.

(* one step of a constructor: the ledger stays in step with what the live locals own *)
Lemma exec_bal legacy s c r c' ev L :
  exec legacy s c = (r, c', ev) -> Permutation L (owned_frame (c_fr c)) ->
  Bal ev L (owned_frame (c_fr c')).
Proof.
  intros H HP. destruct s as [v|cons reads| |x q n|x q n|x y q n|x a|q n|e|x unsets fields]; cbn [exec] in H.
  - inversion H; subst. apply Bal_neutral; [reflexivity|assumption].
  - destruct cons.
    + destruct (consistent (c_gn c) (do_reads reads) c) as [[[r0 c0] ev0] gn0] eqn:E. inversion H; subst.
      destruct (consistent_inv _ (do_reads_inv reads) _ _ _ _ _ _ E) as (H1 & H2 & H3).
      apply cfgonly_neutral in H3. rewrite set_gn_fr, H1. now apply Bal_neutral.
    + destruct (do_reads_inv _ _ _ _ _ H) as (H1 & H2 & H3). apply cfgonly_neutral in H3. rewrite H1. now apply Bal_neutral.
  - destruct (consistent (c_gn c) tag_body c) as [[[r0 c0] ev0] gn0] eqn:E. inversion H; subst.
    destruct (consistent_inv _ tag_body_inv _ _ _ _ _ _ E) as (H1 & H2 & H3).
    apply cfgonly_neutral in H3. rewrite set_gn_fr, H1. now apply Bal_neutral.
  - destruct (queue_alloc legacy q n c) as [[[r0 c0] ev0] a0] eqn:E.
    destruct (queue_alloc_bal _ _ _ _ _ _ _ _ L E) as (H1 & H2 & H3).
    destruct r0 as [e|]; inversion H; subst.
    + destruct H3 as (_ & _ & H3). rewrite H1. eapply Bal_app with (b := []) in H3; [|apply Bal_nil; exact HP].
      now rewrite app_nil_r in H3.
    + cbn [push c_fr set_fr]. rewrite owned_frame_cons, H1.
      eapply Bal_app with (b := []) in H3; [rewrite app_nil_r in H3; exact H3|].
      apply Bal_nil. now apply Permutation_app_head.
  - destruct (queue_alloc legacy q n c) as [[[r0 c0] ev0] a0] eqn:E.
    destruct (queue_alloc_bal _ _ _ _ _ _ _ _ L E) as (H1 & H2 & H3).
    destruct r0 as [e|]; inversion H; subst.
    + destruct H3 as (_ & _ & H3). rewrite H1. eapply Bal_app with (b := []) in H3; [|apply Bal_nil; exact HP].
      now rewrite app_nil_r in H3.
    + cbn [push c_fr set_fr]. rewrite owned_frame_cons, H1.
      eapply Bal_app; [exact H3|]. apply Bal_neutral; [apply posts_neutral|].
      change (owned (ABufs q n :: a0)) with (owned a0). now apply Permutation_app_head.
  - destruct (take y (c_fr c)) as [ay fr'] eqn:E. inversion H; subst. cbn [c_fr set_fr].
    apply Bal_neutral; [apply posts_neutral|]. rewrite owned_frame_cons.
    change (owned (ABufs q n :: ay)) with (owned ay). rewrite HP. eapply take_owned; eassumption.
  - inversion H; subst. cbn [push c_fr set_fr]. apply Bal_neutral; [reflexivity|].
    now rewrite owned_frame_cons, owned_lits.
  - inversion H; subst. apply Bal_neutral; [apply posts_neutral|assumption].
  - destruct (c_chk c); inversion H; subst; now apply Bal_nil.
  - destruct (build fields (c_fr c) (c_tp c)) as [[a0 fr0] tp0] eqn:E. inversion H; subst.
    cbn [c_fr set_fr]. apply Bal_nil. rewrite owned_frame_cons, owned_app.
    assert (Hu : owned (map AUnset unsets) = []) by (induction unsets; cbn; auto). rewrite Hu. cbn [app].
    rewrite HP. eapply build_owned; eassumption.
Qed.

Lemma Bal_tail_neutral tr t L R : Bal tr L R -> forallb neutral t = true -> Bal (tr ++ t) L R.
Proof. intros H Ht. eapply Bal_app; [exact H|]. now apply Bal_neutral. Qed.

Lemma drop_flag_neutral (b : bool) : forallb neutral (if b then [TDrop] else []) = true.
Proof. destruct b; reflexivity. Qed.

(* the whole of new(): on an error everything is returned; on success the ledger holds exactly what the
   driver value owns *)
Lemma run_bal legacy p : forall c L, Permutation L (owned_frame (c_fr c)) ->
  match run legacy p c with
  | (RErr _, ev) => Bal ev L []
  | (ROk a, ev) => Bal ev L (owned a)
  end.
Proof.
  induction p as [|s p IH]; intros c L HP; cbn [run].
  - destruct (c_fr c) as [|[x a] rest] eqn:E.
    + apply Bal_neutral; [apply drop_flag_neutral|]. now rewrite HP.
    + apply Bal_tail_neutral; [|apply drop_flag_neutral].
      apply drop_bal. rewrite HP, owned_frame_cons. apply Permutation_app_comm.
  - destruct (exec legacy s c) as [[r c1] ev] eqn:E.
    pose proof (exec_bal _ _ _ _ _ _ L E HP) as HB.
    destruct r as [e|].
    + eapply Bal_app; [exact HB|]. unfold fail_drop.
      apply Bal_tail_neutral; [|apply drop_flag_neutral].
      apply drop_bal. now rewrite app_nil_r.
    + destruct HB as [X [HX HPX]].
      specialize (IH c1 X HPX). destruct (run legacy p c1) as [[e|a] ev'].
      * destruct IH as [Y [HY HPY]]. exists Y. rewrite bal_run_app, HX. auto.
      * destruct IH as [Y [HY HPY]]. exists Y. rewrite bal_run_app, HX. auto.
Qed.

(* ---- usage histories: the Option<Dma> fields of the GPU driver ---- *)
Definition owned_opt (r : option region) : list region := match r with Some x => [x] | None => [] end.

Lemma owned_cons x t : owned (x :: t) = owned_atom x ++ owned t.
Proof. reflexivity. Qed.

Lemma slot_split s : forall atoms old, get_slot s atoms = Some old ->
  Permutation (owned atoms) (owned_opt old ++ owned (set_slot s None atoms)).
Proof.
  induction atoms as [|x t IH]; intros old H; cbn [get_slot] in H; [discriminate|].
  destruct x as [r|s' r'| |q|q n]; cbn [set_slot].
  - rewrite !owned_cons. cbn [owned_atom app]. rewrite (IH _ H). apply Permutation_middle.
  - destruct (s =? s').
    + inversion H; subst. rewrite !owned_cons. destruct old; reflexivity.
    + rewrite !owned_cons, (IH _ H), !app_assoc. apply Permutation_app_tail, Permutation_app_comm.
  - rewrite !owned_cons. cbn [owned_atom app]. exact (IH _ H).
  - rewrite !owned_cons. cbn [owned_atom app]. exact (IH _ H).
  - rewrite !owned_cons. cbn [owned_atom app]. exact (IH _ H).
Qed.

Lemma get_set_slot s y : forall atoms old, get_slot s atoms = Some old -> get_slot s (set_slot s y atoms) = Some y.
Proof.
  induction atoms as [|x t IH]; intros old H; cbn in H; [discriminate|].
  destruct x as [r|s' r'| |q|q n]; cbn [set_slot get_slot]; eauto.
  destruct (s =? s') eqn:E; cbn [get_slot]; rewrite E; eauto.
Qed.

Lemma set_set_slot s y z : forall atoms, set_slot s z (set_slot s y atoms) = set_slot s z atoms.
Proof.
  induction atoms as [|x t IH]; [reflexivity|].
  destruct x as [r|s' r'| |q|q n]; cbn [set_slot]; try (now rewrite IH).
  destruct (s =? s') eqn:E; cbn [set_slot]; rewrite E; [reflexivity|now rewrite IH].
Qed.

Lemma owned_set_slot s y atoms old : get_slot s atoms = Some old ->
  Permutation (owned (set_slot s y atoms)) (owned_opt y ++ owned (set_slot s None atoms)).
Proof.
  intros H. rewrite (slot_split s _ y (get_set_slot s y _ _ H)). now rewrite set_set_slot.
Qed.

Lemma Bal_cons e t L M R : Bal [e] L M -> Bal t M R -> Bal (e :: t) L R.
Proof. intros H1 H2. change (e :: t) with ([e] ++ t). eapply Bal_app; eassumption. Qed.

Lemma gpu_teardown_bal old oks atoms kt oks1 atoms1 ev1 L :
  gpu_teardown old oks atoms = (kt, oks1, atoms1, ev1) ->
  get_slot 0 atoms = Some old -> Permutation L (owned atoms) ->
  Bal ev1 L (owned atoms1) /\ get_slot 0 atoms1 = Some (if kt then None else old).
Proof.
  unfold gpu_teardown. intros H Hs HP.
  destruct old as [[[oa ov] op]|].
  - destruct (take_ok oks) as [k1 o1]. destruct k1; cbn [negb] in H;
      [|inversion H; subst; split; [now apply Bal_nil|assumption]].
    destruct (take_ok o1) as [k2 o2]. destruct k2; cbn [negb] in H;
      [|inversion H; subst; split; [now apply Bal_nil|assumption]].
    destruct (take_ok o2) as [k3 o3]. destruct k3; cbn [negb] in H;
      [|inversion H; subst; split; [now apply Bal_nil|assumption]].
    inversion H; subst. split; [|eapply get_set_slot; eassumption].
    apply Bal_dealloc. rewrite HP. apply (slot_split 0 _ _ Hs).
  - inversion H; subst. split; [now apply Bal_nil|assumption].
Qed.

Lemma gpu_attach_bal m w h oks a v atoms a' o ev L :
  gpu_attach m w h oks a v atoms = (a', o, ev) ->
  get_slot 0 atoms = Some None -> Permutation L (owned atoms) ->
  Bal ev L (owned a') /\ exists r, get_slot 0 a' = Some r.
Proof.
  unfold gpu_attach. intros H Hs HP.
  destruct (take_ok oks) as [kc oks2]. destruct kc; cbn [negb] in H;
    [|inversion H; subst; split; [now apply Bal_nil|eauto]].
  set (p := pages (w32 (w32 (w * h) * 4))) in *.
  destruct (N.eqb_spec a 0) as [Ha|Ha].
  { inversion H; subst. split; [|eauto]. eapply Bal_cons; [apply Bal_alloc_refused|now apply Bal_nil]. }
  assert (Hfail : Bal [TAlloc p DIR_TO_DEV a v; TDealloc a v p] L (owned atoms)).
  { eapply Bal_cons; [now apply Bal_alloc|]. apply Bal_dealloc. now constructor. }
  destruct (take_ok oks2) as [ka oks3]. destruct ka; cbn [negb] in H; [|inversion H; subst; split; eauto].
  destruct (take_ok oks3) as [ks oks4]. destruct ks; cbn [negb] in H; [|inversion H; subst; split; eauto].
  destruct (p =? 0); [inversion H; subst; split; eauto|].
  inversion H; subst. split; [|erewrite get_set_slot; eauto].
  eapply Bal_cons; [now apply Bal_alloc|]. apply Bal_nil.
  rewrite (owned_set_slot 0 (Some (a, v, p)) _ _ Hs). cbn [owned_opt app]. constructor.
  rewrite HP. apply (slot_split 0 _ _ Hs).
Qed.

Lemma gpu_res_bal m setup w h oks a v atoms a' o ev L :
  gpu_res m setup w h oks a v atoms = (a', o, ev) -> Permutation L (owned atoms) -> Bal ev L (owned a').
Proof.
  unfold gpu_res. intros H HP.
  destruct (get_slot 0 atoms) as [old|] eqn:Hs; [|inversion H; subst; now apply Bal_nil].
  destruct (if setup then take_ok oks else (true, oks)) as [k0 oks0].
  destruct k0; cbn [negb] in H; [|inversion H; subst; now apply Bal_nil].
  destruct ((w * h * 4 =? 0) || (two32 <=? w * h * 4)); [inversion H; subst; now apply Bal_nil|].
  destruct (gpu_teardown old oks0 atoms) as [[[kt oks1] atoms1] ev1] eqn:Et.
  destruct (gpu_teardown_bal _ _ _ _ _ _ _ L Et Hs HP) as [HB Hs1].
  destruct kt; cbn [negb] in H; [|inversion H; subst; exact HB].
  destruct (gpu_attach m w h oks1 a v atoms1) as [[a2 o2] ev2] eqn:Ea. inversion H; subst.
  destruct HB as [X [HX HPX]].
  destruct (gpu_attach_bal _ _ _ _ _ _ _ _ _ _ X Ea Hs1 HPX) as [[Y [HY HPY]] _].
  exists Y. rewrite bal_run_app, HX. auto.
Qed.

Lemma gpu_cursor_bal len_ok oks a v atoms a' o ev L :
  gpu_cursor len_ok oks a v atoms = (a', o, ev) -> Permutation L (owned atoms) -> Bal ev L (owned a').
Proof.
  unfold gpu_cursor. intros H HP.
  destruct (get_slot 1 atoms) as [old|] eqn:Hs; [|inversion H; subst; now apply Bal_nil].
  destruct len_ok; cbn [negb] in H; [|inversion H; subst; now apply Bal_nil].
  destruct (N.eqb_spec a 0) as [Ha|Ha].
  { inversion H; subst. eapply Bal_cons; [apply Bal_alloc_refused|now apply Bal_nil]. }
  assert (Hfail : Bal [TAlloc 4 DIR_TO_DEV a v; TDealloc a v 4] L (owned atoms)).
  { eapply Bal_cons; [now apply Bal_alloc|]. apply Bal_dealloc. now constructor. }
  destruct (take_ok oks) as [k1 o1]. destruct k1; cbn [negb] in H; [|inversion H; subst; exact Hfail].
  destruct (take_ok o1) as [k2 o2]. destruct k2; cbn [negb] in H; [|inversion H; subst; exact Hfail].
  destruct (take_ok o2) as [k3 o3]. destruct k3; cbn [negb] in H; [|inversion H; subst; exact Hfail].
  inversion H; subst.
  eapply Bal_cons; [now apply Bal_alloc|].
  pose proof (slot_split 1 _ _ Hs) as Hsp.
  pose proof (owned_set_slot 1 (Some (a, v, 4)) _ _ Hs) as Hset. cbn [owned_opt app] in Hset.
  destruct old as [[[oa ov] op]|]; cbn [owned_opt app] in Hsp.
  - apply Bal_dealloc. rewrite Hset, HP, Hsp. apply perm_swap.
  - apply Bal_nil. rewrite Hset, HP, Hsp. reflexivity.
Qed.

Lemma usage_bal m ops : forall atoms L, Permutation L (owned atoms) ->
  Bal (snd (usage m atoms ops)) L (owned (fst (usage m atoms ops))).
Proof.
  induction ops as [|o r IH]; intros atoms L HP; cbn [usage]; [now apply Bal_nil|].
  destruct (uop_step m atoms o) as [a1 e1] eqn:E1.
  assert (HB : Bal e1 L (owned a1)).
  { destruct o as [q t|q t|setup w h oks a v|len_ok oks a v]; cbn [uop_step] in E1.
    - inversion E1; subst. now apply Bal_neutral.
    - inversion E1; subst. now apply Bal_neutral.
    - destruct (gpu_res m setup w h oks a v atoms) as [[a' o'] ev'] eqn:E. inversion E1; subst.
      eapply gpu_res_bal; eassumption.
    - destruct (gpu_cursor len_ok oks a v atoms) as [[a' o'] ev'] eqn:E. inversion E1; subst.
      eapply gpu_cursor_bal; eassumption. }
  destruct HB as [X [HX HPX]]. specialize (IH a1 X HPX).
  destruct (usage m a1 r) as [a2 e2]. cbn [fst snd] in *.
  destruct IH as [Y [HY HPY]]. exists Y. rewrite bal_run_app, HX. auto.
Qed.

(* C09, first sentence: for EVERY list of constructor steps, every layout, every answer of the platform
   (in particular: every dma_alloc refused), every config-space behaviour, and every usage history:
   each region is returned exactly once with its original address, pointer and page count, nothing else
   is returned, nothing is left. *)
Theorem balanced_any_program legacy p al cf gn utf8 chk m ops :
  balanced_b (snd (lifecycle legacy p (cst0 al cf gn utf8 chk) m ops)) = true.
Proof.
  unfold balanced_b, lifecycle.
  pose proof (run_bal legacy p (cst0 al cf gn utf8 chk) [] (Permutation_refl _)) as HR.
  destruct (run legacy p (cst0 al cf gn utf8 chk)) as [[e|a] ev]; cbn [snd].
  - destruct HR as [X [HX HP]]. rewrite HX. apply Permutation_sym, Permutation_nil in HP. now subst.
  - destruct HR as [X [HX HP]].
    pose proof (usage_bal m ops a X HP) as HU.
    destruct (usage m a ops) as [a' ev']. cbn [fst snd] in *.
    destruct HU as [Y [HY HPY]].
    destruct (drop_bal a' Y [] ltac:(now rewrite app_nil_r)) as [Z [HZ HPZ]].
    rewrite bal_run_app, HX, bal_run_app, HY, HZ. apply Permutation_sym, Permutation_nil in HPZ. now subst.
Qed.

Theorem balanced_drivers d nq legacy al cf gn utf8 chk m ops :
  balanced_b (snd (lifecycle legacy (prog d nq) (cst0 al cf gn utf8 chk) m ops)) = true.
Proof. apply balanced_any_program. Qed.

(* also for the code before the repair of VirtIO9p::new *)
Theorem balanced_drivers_prefix d nq legacy al cf gn utf8 chk m ops :
  balanced_b (snd (lifecycle legacy (prog_prefix d nq) (cst0 al cf gn utf8 chk) m ops)) = true.
Proof. apply balanced_any_program. Qed.

(* ================================================================================================ *)
(* Part B: a refused allocation is reported as Err(DmaError)                                      *)

Definition refused (e : tev) : bool := match e with TAlloc _ _ a _ => a =? 0 | _ => false end.

Lemma neutral_not_refused l : forallb neutral l = true -> existsb refused l = false.
Proof.
  induction l as [|e t IH]; intros H; [reflexivity|]. cbn in H. apply andb_prop in H. destruct H as [He Ht].
  cbn. rewrite (IH Ht). destruct e; cbn in He |- *; try reflexivity; discriminate.
Qed.

Lemma drop_not_refused a : existsb refused (drop_atoms a) = false.
Proof.
  induction a as [|x t IH]; [reflexivity|].
  change (drop_atoms (x :: t)) with (drop_atom x ++ drop_atoms t). rewrite existsb_app, IH, orb_false_r.
  destruct x as [[[pa va] pg]|s [[[pa va] pg]|]| |q|q n]; cbn [drop_atom]; try reflexivity.
  apply neutral_not_refused, frees_neutral.
Qed.

Lemma queue_alloc_refused legacy q n c r c' ev a :
  queue_alloc legacy q n c = (r, c', ev, a) ->
  match r with Some e => e = EDmaError | None => existsb refused ev = false end.
Proof.
  unfold queue_alloc, take_alloc. intros H. destruct legacy.
  - destruct (c_al c) as [|[a1 v1] al']; [cbn in H; inversion H; subst; reflexivity|].
    destruct (a1 =? 0) eqn:E; inversion H; subst; [reflexivity|]. cbn. now rewrite E.
  - destruct (c_al c) as [|[a1 v1] al']; [cbn in H; inversion H; subst; reflexivity|].
    destruct (a1 =? 0) eqn:E; [inversion H; subst; reflexivity|].
    cbn [c_al set_al] in H. destruct al' as [|[a2 v2] al'']; [cbn in H; inversion H; subst; reflexivity|].
    destruct (a2 =? 0) eqn:E2; inversion H; subst; [reflexivity|]. cbn. now rewrite E, E2.
Qed.

Lemma exec_refused legacy s c r c' ev :
  exec legacy s c = (r, c', ev) ->
  (existsb refused ev = true -> r = Some EDmaError) /\ (r = None -> existsb refused ev = false).
Proof.
  intros H.
  assert (Hn : forall l, forallb neutral l = true ->
             (existsb refused l = true -> r = Some EDmaError) /\ (r = None -> existsb refused l = false)).
  { intros l Hl. rewrite (neutral_not_refused l Hl). split; [discriminate|reflexivity]. }
  destruct s as [v|cons reads| |x q n|x q n|x y q n|x a|q n|e|x unsets fields]; cbn [exec] in H.
  - inversion H; subst. now apply Hn.
  - destruct cons.
    + destruct (consistent (c_gn c) (do_reads reads) c) as [[[r0 c0] ev0] gn0] eqn:E. inversion H; subst.
      destruct (consistent_inv _ (do_reads_inv reads) _ _ _ _ _ _ E) as (_ & _ & H3). now apply Hn, cfgonly_neutral.
    + destruct (do_reads_inv _ _ _ _ _ H) as (_ & _ & H3). now apply Hn, cfgonly_neutral.
  - destruct (consistent (c_gn c) tag_body c) as [[[r0 c0] ev0] gn0] eqn:E. inversion H; subst.
    destruct (consistent_inv _ tag_body_inv _ _ _ _ _ _ E) as (_ & _ & H3). now apply Hn, cfgonly_neutral.
  - destruct (queue_alloc legacy q n c) as [[[r0 c0] ev0] a0] eqn:E.
    pose proof (queue_alloc_refused _ _ _ _ _ _ _ _ E) as HR.
    destruct r0 as [e|]; inversion H; subst.
    + split; [reflexivity|discriminate].
    + split; [intros Hx; rewrite HR in Hx; discriminate|auto].
  - destruct (queue_alloc legacy q n c) as [[[r0 c0] ev0] a0] eqn:E.
    pose proof (queue_alloc_refused _ _ _ _ _ _ _ _ E) as HR.
    destruct r0 as [e|]; inversion H; subst.
    + split; [reflexivity|discriminate].
    + rewrite existsb_app, HR, (neutral_not_refused _ (posts_neutral q 0 (small n))).
      split; [discriminate|reflexivity].
  - destruct (take y (c_fr c)) as [ay fr']. inversion H; subst. apply Hn, posts_neutral.
  - inversion H; subst. now apply Hn.
  - inversion H; subst. apply Hn, posts_neutral.
  - destruct (c_chk c); inversion H; subst; split; try discriminate; auto.
  - destruct (build fields (c_fr c) (c_tp c)) as [[a0 fr0] tp0]. inversion H; subst. now apply Hn.
Qed.

(* C09: "the failure is reported as an error rather than a panic" - the constructors have no other
   outcome than Ok / Err in the model (cres); and whenever a dma_alloc was refused the result is
   exactly Err(DmaError) *)
Theorem dma_fault_is_error legacy p : forall c res ev,
  run legacy p c = (res, ev) -> existsb refused ev = true -> res = RErr EDmaError.
Proof.
  induction p as [|s p IH]; intros c res ev H Hx; cbn [run] in H.
  - destruct (c_fr c) as [|[x a] rest]; inversion H; subst.
    + destruct (c_tp c); discriminate.
    + rewrite existsb_app, drop_not_refused in Hx. destruct (c_tp c); discriminate.
  - destruct (exec legacy s c) as [[r c1] ev1] eqn:E.
    destruct (exec_refused _ _ _ _ _ _ E) as [H1 H2].
    destruct r as [e|].
    + inversion H; subst. rewrite existsb_app in Hx. unfold fail_drop in Hx.
      rewrite existsb_app, drop_not_refused in Hx.
      assert (Ht : existsb refused (if c_tp c1 then [TDrop] else []) = false) by (destruct (c_tp c1); reflexivity).
      rewrite Ht, !orb_false_r in Hx. specialize (H1 Hx). congruence.
    + destruct (run legacy p c1) as [res' ev'] eqn:Er. inversion H; subst.
      rewrite existsb_app, (H2 eq_refl) in Hx. cbn [orb] in Hx. eapply IH; eassumption.
Qed.

(* the same, spelled out for a refusal of the k-th allocation: if the constructor got that far, it fails *)
Theorem dma_fault_drivers d nq legacy c res ev :
  run legacy (prog d nq) c = (res, ev) -> existsb refused ev = true -> res = RErr EDmaError.
Proof. apply dma_fault_is_error. Qed.

Example dma_fault_nonvacuous :
  exists ev, run false (prog D_SOCKET 0) (cst0 [(4096, 1); (8192, 2); (12288, 3); (16384, 4); (20480, 5); (0, 0)] [(0, 3); (0, 0)] [] true true)
             = (RErr EDmaError, ev) /\ existsb refused ev = true.
Proof. eexists. split; vm_compute; reflexivity. Qed.

(* ================================================================================================ *)
(* Part C: quiesced                                                                               *)

(* ---- a strict, address-free monitor: it refuses EVERY release while some queue is live.
        Whatever it accepts, the real monitor accepts. ---- *)
Inductive qev := QStat (v : N) | QDropT | QSet (q : N) | QUnset (q : N) | QRel | QFree (q : N).

Definition proj (e : tev) : option qev :=
  match e with
  | TStatus v => Some (QStat v)
  | TDrop => Some QDropT
  | TQueueSet q _ _ _ _ => Some (QSet q)
  | TQueueUnset q => Some (QUnset q)
  | TDealloc _ _ _ => Some QRel
  | TFree q _ => Some (QFree q)
  | _ => None
  end.
Fixpoint projs (l : list tev) : list qev :=
  match l with
  | [] => []
  | e :: t => match proj e with Some x => x :: projs t | None => projs t end
  end.

Lemma projs_app a b : projs (a ++ b) = projs a ++ projs b.
Proof. induction a as [|e t IH]; [reflexivity|]. cbn. destruct (proj e); cbn; now rewrite IH. Qed.

Record sst := mkS { s_ok : bool; s_qs : list N }.
Definition s0 : sst := mkS false [].
Definition nonempty {A} (l : list A) : bool := match l with [] => false | _ => true end.
Definition memN (q : N) (l : list N) : bool := existsb (N.eqb q) l.

Definition sstep (resets : bool) (m : sst) (e : qev) : option sst :=
  match e with
  | QStat v => if v =? 0 then Some s0 else Some (mkS (s_ok m || N.testbit v DRIVER_OK_BIT) (s_qs m))
  | QDropT => if resets then Some s0 else Some m
  | QSet q => Some (mkS (s_ok m) (q :: filter (fun x => negb (x =? q)) (s_qs m)))
  | QUnset q => Some (mkS (s_ok m) (filter (fun x => negb (x =? q)) (s_qs m)))
  | QRel => if s_ok m && nonempty (s_qs m) then None else Some m
  | QFree q => if s_ok m && memN q (s_qs m) then None else Some m
  end.
Fixpoint srun (resets : bool) (l : list qev) (m : sst) : option sst :=
  match l with
  | [] => Some m
  | e :: t => match sstep resets m e with Some m' => srun resets t m' | None => None end
  end.

Lemma srun_app resets a b m :
  srun resets (a ++ b) m = match srun resets a m with Some m' => srun resets b m' | None => None end.
Proof. revert m. induction a as [|e t IH]; intros m; [reflexivity|]. cbn. destruct (sstep resets m e); auto. Qed.

Lemma qui_run_app resets a b m :
  qui_run resets (a ++ b) m = match qui_run resets a m with Some m' => qui_run resets b m' | None => None end.
Proof. revert m. induction a as [|e t IH]; intros m; [reflexivity|]. cbn. destruct (qstep resets m e); auto. Qed.

Definition abs (m : qst) : sst := mkS (q_ok m) (map fst (q_regs m)).

Lemma map_fst_filter (q : N) (l : list (N * (N * N * N))) :
  map fst (filter (fun r => negb (fst r =? q)) l) = filter (fun x => negb (x =? q)) (map fst l).
Proof. induction l as [|[k v] t IH]; [reflexivity|]. cbn. destruct (k =? q); cbn; now rewrite IH. Qed.

Lemma is_reg_mem q regs : is_reg q regs = memN q (map fst regs).
Proof.
  unfold is_reg, memN. induction regs as [|[k v] t IH]; [reflexivity|]. cbn. rewrite IH.
  now rewrite (N.eqb_sym k q).
Qed.

Lemma qstep_abs resets m e :
  match proj e with
  | Some x => forall s', sstep resets (abs m) x = Some s' -> exists m', qstep resets m e = Some m' /\ abs m' = s'
  | None => exists m', qstep resets m e = Some m' /\ abs m' = abs m
  end.
Proof.
  destruct e; cbn [proj]; try (eexists; split; [reflexivity|reflexivity]).
  - (* dealloc *) intros s' H. cbn [sstep abs s_ok s_qs] in H. cbn [qstep].
    destruct (q_ok m); cbn [andb] in *.
    + destruct (q_regs m) as [|r t]; cbn in H |- *; [inversion H; subst; eauto|discriminate].
    + inversion H; subst. eauto.
  - (* queue_set *) intros s' H. cbn [sstep abs s_ok s_qs] in H. inversion H; subst. eexists. split; [reflexivity|].
    unfold abs. cbn [q_ok q_regs map fst]. now rewrite map_fst_filter.
  - intros s' H. cbn [sstep abs s_ok s_qs] in H. inversion H; subst. eexists. split; [reflexivity|].
    unfold abs. cbn [q_ok q_regs]. now rewrite map_fst_filter.
  - intros s' H. cbn [sstep abs s_ok s_qs] in H. cbn [qstep].
    destruct (v =? 0); inversion H; subst; eexists; split; reflexivity.
  - intros s' H. cbn [sstep] in H. cbn [qstep]. destruct resets; inversion H; subst; eexists; split; reflexivity.
  - (* free *) intros s' H. cbn [sstep abs s_ok s_qs] in H. cbn [qstep]. rewrite is_reg_mem.
    destruct (q_ok m && memN q (map fst (q_regs m))); [discriminate|]. inversion H; subst. cbn [andb]. eauto.
Qed.

Lemma srun_sound resets tr : forall m s', srun resets (projs tr) (abs m) = Some s' ->
  exists m', qui_run resets tr m = Some m' /\ abs m' = s'.
Proof.
  induction tr as [|e t IH]; intros m s' H; cbn in H.
  - inversion H; subst. exists m. split; reflexivity.
  - pose proof (qstep_abs resets m e) as HA. cbn [qui_run]. destruct (proj e) as [x|].
    + cbn [srun] in H. destruct (sstep resets (abs m) x) as [s1|] eqn:E; [|discriminate].
      destruct (HA s1 eq_refl) as [m1 [H1 H2]]. rewrite H1. subst s1. now apply IH.
    + destruct HA as [m1 [H1 H2]]. rewrite H1. rewrite <- H2 in H. now apply IH.
Qed.

(* ---- coverage: whenever the strict monitor accepts the left sequence it accepts the right one, with the same state ---- *)
(* ... and the same with the queue_unset events removed from both (the PCI reading: queue_unset does nothing) *)
Definition is_qunset (e : qev) : bool := match e with QUnset _ => true | _ => false end.
Definition nuq (l : list qev) : list qev := filter (fun e => negb (is_qunset e)) l.

Lemma nuq_app a b : nuq (a ++ b) = nuq a ++ nuq b.
Proof. apply filter_app. Qed.

Definition Cov1 (a c : list qev) : Prop :=
  forall resets m m', srun resets a m = Some m' -> srun resets c m = Some m'.
Definition Cov (a c : list qev) : Prop := Cov1 a c /\ Cov1 (nuq a) (nuq c).

Lemma Cov1_refl a : Cov1 a a. Proof. intros r m m' H. exact H. Qed.
Lemma Cov1_app a1 c1 a2 c2 : Cov1 a1 c1 -> Cov1 a2 c2 -> Cov1 (a1 ++ a2) (c1 ++ c2).
Proof.
  intros H1 H2 r m m' H. rewrite srun_app in H |- *.
  destruct (srun r a1 m) as [m1|] eqn:E; [|discriminate]. rewrite (H1 _ _ _ E). now apply H2.
Qed.

Lemma Cov_refl a : Cov a a. Proof. split; apply Cov1_refl. Qed.
Lemma Cov_app a1 c1 a2 c2 : Cov a1 c1 -> Cov a2 c2 -> Cov (a1 ++ a2) (c1 ++ c2).
Proof.
  intros [H1 H1'] [H2 H2']. split; [now apply Cov1_app|]. rewrite !nuq_app. now apply Cov1_app.
Qed.

Lemma silent_projs l : forallb (fun e => match proj e with None => true | Some _ => false end) l = true -> projs l = [].
Proof.
  induction l as [|e t IH]; intros H; [reflexivity|]. cbn in H. apply andb_prop in H. destruct H as [He Ht].
  cbn. destruct (proj e); [discriminate|auto].
Qed.

Lemma cfgonly_projs l : forallb cfgonly l = true -> projs l = [].
Proof.
  intros H. apply silent_projs. rewrite forallb_forall in H |- *. intros e He. specialize (H e He).
  destruct e; cbn in H |- *; try reflexivity; discriminate.
Qed.

Lemma posts_projs q t k : projs (posts q t k) = [].
Proof. revert t. induction k; intros t; cbn; auto. Qed.

Lemma frees_cov1 q k : forall t, Cov1 [QFree q] (projs (frees q t k)).
Proof.
  induction k as [|k IH]; intros t r m m' H; cbn [frees projs proj].
  - cbn in H. destruct (s_ok m && memN q (s_qs m)); [discriminate|]. inversion H; subst. reflexivity.
  - cbn [srun]. cbn in H. cbn [sstep]. destruct (s_ok m && memN q (s_qs m)) eqn:E; [discriminate|].
    inversion H; subst. apply IH. cbn. now rewrite E.
Qed.

Lemma nuq_frees q k : forall t, nuq (projs (frees q t k)) = projs (frees q t k).
Proof. induction k as [|k IH]; intros t; cbn [frees projs proj]; [reflexivity|]. cbn. f_equal. apply IH. Qed.

Lemma frees_cov q k t : Cov [QFree q] (projs (frees q t k)).
Proof. split; [apply frees_cov1|]. rewrite nuq_frees. apply frees_cov1. Qed.

(* ---- abstract values: what a value does when dropped, with every address erased ---- *)
Inductive satom := SRel | STr | SUn (q : N) | SBuf (q : N).
Definition erase_atom (a : atom) : satom :=
  match a with ADma _ => SRel | AOpt _ _ => SRel | ATransport => STr | AUnset q => SUn q | ABufs q _ => SBuf q end.
Definition erase (l : list atom) : list satom := map erase_atom l.
Definition sdrop1 (a : satom) : qev :=
  match a with SRel => QRel | STr => QDropT | SUn q => QUnset q | SBuf q => QFree q end.
Definition sdrop (l : list satom) : list qev := map sdrop1 l.

Lemma drop_cov a : Cov (sdrop (erase a)) (projs (drop_atoms a)).
Proof.
  induction a as [|x t IH]; [apply Cov_refl|].
  change (drop_atoms (x :: t)) with (drop_atom x ++ drop_atoms t). rewrite projs_app.
  change (sdrop (erase (x :: t))) with ([sdrop1 (erase_atom x)] ++ sdrop (erase t)).
  apply Cov_app; [|exact IH].
  destruct x as [[[pa va] pg]|s [[[pa va] pg]|]| |q|q n]; cbn [drop_atom erase_atom sdrop1 projs proj];
    try apply Cov_refl.
  - split; intros r m m' H; cbn in H; (destruct (s_ok m && nonempty (s_qs m)); [discriminate|]); exact H.
  - apply frees_cov.
Qed.

Lemma erase_set_slot s r atoms : erase (set_slot s r atoms) = erase atoms.
Proof.
  induction atoms as [|x t IH]; [reflexivity|].
  destruct x as [r0|s' r'| |q|q n]; cbn [set_slot erase map erase_atom]; try (f_equal; exact IH).
  destruct (s =? s'); cbn [erase map erase_atom]; [reflexivity|f_equal; exact IH].
Qed.

(* ---- abstract interpretation of the constructor language: every answer of the environment is
        replaced by the finitely many ways a step can end ---- *)
Definition aframe := list (N * list satom).
Definition erase_fr (fr : list (N * list atom)) : aframe := map (fun xa => (fst xa, erase (snd xa))) fr.

Fixpoint stake (x : N) (fr : aframe) : list satom * aframe :=
  match fr with
  | [] => ([], [])
  | (y, a) :: t => if x =? y then (a, t) else let '(r, t') := stake x t in (r, (y, a) :: t')
  end.
Fixpoint sbuild (fs : list fref) (fr : aframe) (tp : bool) : list satom * aframe * bool :=
  match fs with
  | [] => ([], fr, tp)
  | FTransport :: r => let '(a, fr', tp') := sbuild r fr false in ((if tp then [STr] else []) ++ a, fr', tp')
  | FLocal x :: r => let '(ax, fr1) := stake x fr in let '(a, fr', tp') := sbuild r fr1 tp in (ax ++ a, fr', tp')
  | FNew n :: r => let '(a, fr', tp') := sbuild r fr tp in (erase (lits n) ++ a, fr', tp')
  end.

Lemma erase_app a b : erase (a ++ b) = erase a ++ erase b.
Proof. apply map_app. Qed.

Lemma erase_fr_cons y ay t : erase_fr ((y, ay) :: t) = (y, erase ay) :: erase_fr t.
Proof. reflexivity. Qed.

Lemma stake_erase x fr : forall a fr', take x fr = (a, fr') -> stake x (erase_fr fr) = (erase a, erase_fr fr').
Proof.
  induction fr as [|[y ay] t IH]; intros a fr' H.
  - cbn in H. inversion H; subst. reflexivity.
  - cbn [take] in H. rewrite erase_fr_cons. cbn [stake].
    destruct (x =? y); [inversion H; subst; reflexivity|].
    destruct (take x t) as [r t'] eqn:E. inversion H; subst. now rewrite (IH _ _ eq_refl), erase_fr_cons.
Qed.

Lemma sbuild_erase fs : forall fr tp a fr' tp', build fs fr tp = (a, fr', tp') ->
  sbuild fs (erase_fr fr) tp = (erase a, erase_fr fr', tp').
Proof.
  induction fs as [|f r IH]; intros fr tp a fr' tp' H; cbn in H |- *.
  - inversion H; subst. reflexivity.
  - destruct f as [|x|n].
    + destruct (build r fr false) as [[a0 fr0] tp0] eqn:E. inversion H; subst.
      rewrite (IH _ _ _ _ _ E), erase_app. destruct tp; reflexivity.
    + destruct (take x fr) as [ax fr1] eqn:Et. rewrite (stake_erase _ _ _ _ Et).
      destruct (build r fr1 tp) as [[a0 fr0] tp0] eqn:E. inversion H; subst.
      now rewrite (IH _ _ _ _ _ E), erase_app.
    + destruct (build r fr tp) as [[a0 fr0] tp0] eqn:E. inversion H; subst.
      now rewrite (IH _ _ _ _ _ E), erase_app.
Qed.

Definition ast := (aframe * bool)%type.
Definition afail_drop (a : ast) : list qev :=
  sdrop (flat_map snd (fst a)) ++ (if snd a then [QDropT] else []).

(* the ways a step can end: (it fails, state afterwards, what the strict monitor gets to see) *)
Definition aexec (legacy : bool) (s : cstep) (a : ast) : list (bool * ast * list qev) :=
  let '(fr, tp) := a in
  match s with
  | CStatus v => [(false, a, [QStat v])]
  | CCfg _ _ | C9pTag | CCheck _ => [(false, a, []); (true, a, [])]
  | CQueue x q n =>
      if legacy then [(true, a, []); (false, ((x, [SRel]) :: fr, tp), [QSet q])]
      else [(true, a, []); (true, a, [QRel]); (false, ((x, [SRel; SRel]) :: fr, tp), [QSet q])]
  | COwnQueue x q n =>
      if legacy then [(true, a, []); (false, ((x, [SBuf q; SRel]) :: fr, tp), [QSet q])]
      else [(true, a, []); (true, a, [QRel]); (false, ((x, [SBuf q; SRel; SRel]) :: fr, tp), [QSet q])]
  | CWrapOwn x y q n => let '(ay, fr') := stake y fr in [(false, ((x, SBuf q :: ay) :: fr', tp), [])]
  | CLocal x l => [(false, ((x, erase (lits l)) :: fr, tp), [])]
  | CPost _ _ => [(false, a, [])]
  | CBuild x unsets fields =>
      let '(b, fr', tp') := sbuild fields fr tp in [(false, ((x, map SUn unsets ++ b) :: fr', tp'), [])]
  end.

Fixpoint arun (legacy : bool) (p : list cstep) (a : ast) : list (option (list satom) * list qev) :=
  match p with
  | [] =>
      match fst a with
      | [] => [(Some [], if snd a then [QDropT] else [])]
      | (_, x) :: rest => [(Some x, sdrop (flat_map snd rest) ++ (if snd a then [QDropT] else []))]
      end
  | s :: p' =>
      flat_map (fun o : bool * ast * list qev =>
                  let '(failed, a', ev) := o in
                  if failed then [(None, ev ++ afail_drop a')]
                  else map (fun ro : option (list satom) * list qev => (fst ro, ev ++ snd ro)) (arun legacy p' a'))
               (aexec legacy s a)
  end.

Definition erase_st (c : cst) : ast := (erase_fr (c_fr c), c_tp c).
Definition erase_res (r : cres) : option (list satom) := match r with RErr _ => None | ROk a => Some (erase a) end.
Definition is_some {A} (o : option A) : bool := match o with Some _ => true | None => false end.

Lemma frame_atoms_erase fr : flat_map snd (erase_fr fr) = erase (frame_atoms fr).
Proof.
  induction fr as [|[x a] t IH]; [reflexivity|]. cbn [erase_fr map flat_map fst snd].
  rewrite frame_atoms_cons, erase_app. f_equal. exact IH.
Qed.

Lemma fail_drop_cov c : Cov (afail_drop (erase_st c)) (projs (fail_drop c)).
Proof.
  unfold afail_drop, fail_drop, erase_st. cbn [fst snd]. rewrite projs_app, frame_atoms_erase.
  apply Cov_app; [apply drop_cov|]. destruct (c_tp c); apply Cov_refl.
Qed.

Local Opaque pages desc_size avail_size used_size legacy_pages align_up.

(* VirtQueue::new seen by the strict monitor *)
Lemma queue_alloc_sim legacy q n c r c' ev a :
  queue_alloc legacy q n c = (r, c', ev, a) ->
  c_fr c' = c_fr c /\ c_tp c' = c_tp c /\
  match r with
  | Some _ => a = [] /\ (projs ev = [] \/ (legacy = false /\ projs ev = [QRel]))
  | None => projs ev = [QSet q] /\ erase a = (if legacy then [SRel] else [SRel; SRel])
  end.
Proof.
  unfold queue_alloc, take_alloc. intros H. destruct legacy.
  - destruct (c_al c) as [|[a1 v1] al']; [cbn in H; inversion H; subst; intuition auto|].
    destruct (a1 =? 0); inversion H; subst; intuition auto.
  - destruct (c_al c) as [|[a1 v1] al']; [cbn in H; inversion H; subst; intuition auto|].
    destruct (a1 =? 0); [inversion H; subst; intuition auto|].
    cbn [c_al set_al] in H. destruct al' as [|[a2 v2] al'']; [cbn in H; inversion H; subst; cbn; intuition auto|].
    destruct (a2 =? 0); inversion H; subst; cbn; intuition auto.
Qed.

Lemma exec_sim legacy s c r c' ev :
  exec legacy s c = (r, c', ev) ->
  exists aev, In (is_some r, erase_st c', aev) (aexec legacy s (erase_st c)) /\ Cov aev (projs ev).
Proof.
  intros H. unfold erase_st.
  destruct s as [v|cons reads| |x q n|x q n|x y q n|x a|q n|e|x unsets fields]; cbn [exec] in H; cbn [aexec].
  - inversion H; subst. exists [QStat v]. split; [now left|apply Cov_refl].
  - assert (HI : c_fr c' = c_fr c /\ c_tp c' = c_tp c /\ projs ev = []).
    { destruct cons.
      - destruct (consistent (c_gn c) (do_reads reads) c) as [[[r0 c0] ev0] gn0] eqn:E. inversion H; subst.
        destruct (consistent_inv _ (do_reads_inv reads) _ _ _ _ _ _ E) as (H1 & H2 & H3).
        rewrite set_gn_fr. cbn [set_gn c_tp]. auto using cfgonly_projs.
      - destruct (do_reads_inv _ _ _ _ _ H) as (H1 & H2 & H3). auto using cfgonly_projs. }
    destruct HI as (H1 & H2 & H3). rewrite H1, H2, H3. exists []. split; [|apply Cov_refl].
    destruct r; cbn; auto.
  - assert (HI : c_fr c' = c_fr c /\ c_tp c' = c_tp c /\ projs ev = []).
    { destruct (consistent (c_gn c) tag_body c) as [[[r0 c0] ev0] gn0] eqn:E. inversion H; subst.
      destruct (consistent_inv _ tag_body_inv _ _ _ _ _ _ E) as (H1 & H2 & H3).
      rewrite set_gn_fr. cbn [set_gn c_tp]. auto using cfgonly_projs. }
    destruct HI as (H1 & H2 & H3). rewrite H1, H2, H3. exists []. split; [|apply Cov_refl].
    destruct r; cbn; auto.
  - destruct (queue_alloc legacy q n c) as [[[r0 c0] ev0] a0] eqn:E.
    destruct (queue_alloc_sim _ _ _ _ _ _ _ _ E) as (H1 & H2 & H3).
    destruct r0 as [e0|]; inversion H; subst.
    + destruct H3 as [_ [H3|[Hl H3]]]; rewrite H1, H2, H3.
      * exists []. split; [|apply Cov_refl]. destruct legacy; cbn; auto.
      * subst legacy. exists [QRel]. split; [|apply Cov_refl]. cbn; auto.
    + destruct H3 as [H3 H4]. rewrite H3. exists [QSet q]. split; [|apply Cov_refl].
      cbn [push c_fr c_tp set_fr erase_fr map fst snd]. rewrite H1, H2, H4.
      destruct legacy; cbn; auto.
  - destruct (queue_alloc legacy q n c) as [[[r0 c0] ev0] a0] eqn:E.
    destruct (queue_alloc_sim _ _ _ _ _ _ _ _ E) as (H1 & H2 & H3).
    destruct r0 as [e0|]; inversion H; subst.
    + destruct H3 as [_ [H3|[Hl H3]]]; rewrite H1, H2, H3.
      * exists []. split; [|apply Cov_refl]. destruct legacy; cbn; auto.
      * subst legacy. exists [QRel]. split; [|apply Cov_refl]. cbn; auto.
    + destruct H3 as [H3 H4]. rewrite projs_app, H3, posts_projs. exists [QSet q]. split; [|apply Cov_refl].
      cbn [push c_fr c_tp set_fr erase_fr map fst snd erase erase_atom]. fold (erase a0). rewrite H1, H2, H4.
      destruct legacy; cbn; auto.
  - destruct (take y (c_fr c)) as [ay fr'] eqn:E. inversion H; subst.
    rewrite (stake_erase _ _ _ _ E), posts_projs. exists []. split; [|apply Cov_refl]. now left.
  - inversion H; subst. exists []. split; [|apply Cov_refl]. now left.
  - inversion H; subst. rewrite posts_projs. exists []. split; [|apply Cov_refl]. now left.
  - destruct (c_chk c); inversion H; subst; exists []; (split; [|apply Cov_refl]); cbn; auto.
  - destruct (build fields (c_fr c) (c_tp c)) as [[a0 fr0] tp0] eqn:E. inversion H; subst.
    rewrite (sbuild_erase _ _ _ _ _ _ E). exists []. split; [|apply Cov_refl]. left.
    cbn [set_fr c_fr c_tp erase_fr map fst snd]. rewrite erase_app.
    assert (Hu : erase (map AUnset unsets) = map SUn unsets) by (induction unsets as [|u t IHu]; cbn; [|rewrite <- IHu]; reflexivity).
    now rewrite Hu.
Qed.

(* every run of a constructor is covered by one of the finitely many abstract runs *)
Lemma run_sim legacy p : forall c res ev, run legacy p c = (res, ev) ->
  exists aev, In (erase_res res, aev) (arun legacy p (erase_st c)) /\ Cov aev (projs ev).
Proof.
  induction p as [|s p IH]; intros c res ev H; cbn [run] in H; cbn [arun].
  - unfold erase_st. cbn [fst snd]. destruct (c_fr c) as [|[x a] rest]; inversion H; subst; cbn [erase_fr map fst snd].
    + eexists. split; [now left|]. destruct (c_tp c); apply Cov_refl.
    + eexists. split; [now left|]. rewrite projs_app, frame_atoms_erase.
      apply Cov_app; [apply drop_cov|]. destruct (c_tp c); apply Cov_refl.
  - destruct (exec legacy s c) as [[r c1] ev1] eqn:E.
    destruct (exec_sim _ _ _ _ _ _ E) as [aev1 [Hin Hc1]].
    destruct r as [e|].
    + inversion H; subst. exists (aev1 ++ afail_drop (erase_st c1)). split.
      * apply in_flat_map. eexists. split; [exact Hin|]. cbn. now left.
      * rewrite projs_app. apply Cov_app; [exact Hc1|apply fail_drop_cov].
    + destruct (run legacy p c1) as [res' ev'] eqn:Er. inversion H; subst.
      destruct (IH _ _ _ Er) as [aev2 [Hin2 Hc2]].
      exists (aev1 ++ aev2). split.
      * apply in_flat_map. eexists. split; [exact Hin|]. cbn.
        apply in_map_iff. exists (erase_res res, aev2). split; [reflexivity|exact Hin2].
      * rewrite projs_app. now apply Cov_app.
Qed.

(* ---- a freshly constructed driver value holds no Dma in its Option fields ---- *)
Definition noslot_atom (x : atom) : bool := match x with AOpt _ (Some _) => false | _ => true end.
Definition noslot (a : list atom) : bool := forallb noslot_atom a.
Definition frame_noslot (fr : list (N * list atom)) : bool := forallb (fun xa => noslot (snd xa)) fr.

Lemma noslot_app a b : noslot (a ++ b) = noslot a && noslot b.
Proof. apply forallb_app. Qed.

Lemma frame_noslot_cons y ay t : frame_noslot ((y, ay) :: t) = noslot ay && frame_noslot t.
Proof. reflexivity. Qed.

Lemma take_noslot x fr : forall a fr', take x fr = (a, fr') -> frame_noslot fr = true ->
  noslot a = true /\ frame_noslot fr' = true.
Proof.
  induction fr as [|[y ay] t IH]; intros a fr' H Hf; cbn [take] in H.
  - inversion H; subst. auto.
  - rewrite frame_noslot_cons in Hf. apply andb_prop in Hf. destruct Hf as [Hy Ht]. destruct (x =? y).
    + inversion H; subst. auto.
    + destruct (take x t) as [r t'] eqn:E. inversion H; subst. destruct (IH _ _ eq_refl Ht) as [H1 H2].
      split; [assumption|]. rewrite frame_noslot_cons. now rewrite Hy, H2.
Qed.

Lemma noslot_lits l : noslot (lits l) = true.
Proof. induction l as [|[q n|s] t IH]; cbn; auto. Qed.

Lemma build_noslot fs : forall fr tp a fr' tp', build fs fr tp = (a, fr', tp') -> frame_noslot fr = true ->
  noslot a = true /\ frame_noslot fr' = true.
Proof.
  induction fs as [|f r IH]; intros fr tp a fr' tp' H Hf; cbn [build] in H.
  - inversion H; subst. auto.
  - destruct f as [|x|n].
    + destruct (build r fr false) as [[a0 fr0] tp0] eqn:E. inversion H; subst.
      destruct (IH _ _ _ _ _ E Hf) as [H1 H2]. rewrite noslot_app, H1. destruct tp; auto.
    + destruct (take x fr) as [ax fr1] eqn:Et. destruct (take_noslot _ _ _ _ Et Hf) as [Hx Hf1].
      destruct (build r fr1 tp) as [[a0 fr0] tp0] eqn:E. inversion H; subst.
      destruct (IH _ _ _ _ _ E Hf1) as [H1 H2]. now rewrite noslot_app, Hx, H1.
    + destruct (build r fr tp) as [[a0 fr0] tp0] eqn:E. inversion H; subst.
      destruct (IH _ _ _ _ _ E Hf) as [H1 H2]. now rewrite noslot_app, noslot_lits, H1.
Qed.

Lemma queue_alloc_noslot legacy q n c r c' ev a :
  queue_alloc legacy q n c = (r, c', ev, a) -> noslot a = true /\ c_fr c' = c_fr c.
Proof.
  unfold queue_alloc, take_alloc. intros H. destruct legacy.
  - destruct (c_al c) as [|[a1 v1] al']; [cbn in H; inversion H; subst; auto|].
    destruct (a1 =? 0); inversion H; subst; auto.
  - destruct (c_al c) as [|[a1 v1] al']; [cbn in H; inversion H; subst; auto|].
    destruct (a1 =? 0); [inversion H; subst; auto|].
    cbn [c_al set_al] in H. destruct al' as [|[a2 v2] al'']; [cbn in H; inversion H; subst; auto|].
    destruct (a2 =? 0); inversion H; subst; auto.
Qed.

Lemma exec_noslot legacy s c r c' ev :
  exec legacy s c = (r, c', ev) -> frame_noslot (c_fr c) = true -> frame_noslot (c_fr c') = true.
Proof.
  intros H Hf.
  destruct s as [v|cons reads| |x q n|x q n|x y q n|x a|q n|e|x unsets fields]; cbn [exec] in H.
  - inversion H; subst. assumption.
  - destruct cons.
    + destruct (consistent (c_gn c) (do_reads reads) c) as [[[r0 c0] ev0] gn0] eqn:E. inversion H; subst.
      destruct (consistent_inv _ (do_reads_inv reads) _ _ _ _ _ _ E) as (H1 & _ & _). now rewrite set_gn_fr, H1.
    + destruct (do_reads_inv _ _ _ _ _ H) as (H1 & _ & _). now rewrite H1.
  - destruct (consistent (c_gn c) tag_body c) as [[[r0 c0] ev0] gn0] eqn:E. inversion H; subst.
    destruct (consistent_inv _ tag_body_inv _ _ _ _ _ _ E) as (H1 & _ & _). now rewrite set_gn_fr, H1.
  - destruct (queue_alloc legacy q n c) as [[[r0 c0] ev0] a0] eqn:E.
    destruct (queue_alloc_noslot _ _ _ _ _ _ _ _ E) as [Ha H1].
    destruct r0; inversion H; subst; [now rewrite H1|]. cbn [push c_fr set_fr]. rewrite frame_noslot_cons, Ha, H1. exact Hf.
  - destruct (queue_alloc legacy q n c) as [[[r0 c0] ev0] a0] eqn:E.
    destruct (queue_alloc_noslot _ _ _ _ _ _ _ _ E) as [Ha H1].
    destruct r0; inversion H; subst; [now rewrite H1|]. cbn [push c_fr set_fr]. rewrite frame_noslot_cons, H1. change (noslot (ABufs q n :: a0)) with (noslot a0). rewrite Ha. exact Hf.
  - destruct (take y (c_fr c)) as [ay fr'] eqn:E. inversion H; subst.
    destruct (take_noslot _ _ _ _ E Hf) as [Hy Hf']. cbn [c_fr set_fr]. rewrite frame_noslot_cons. change (noslot (ABufs q n :: ay)) with (noslot ay). now rewrite Hy, Hf'.
  - inversion H; subst. cbn [push c_fr set_fr]. now rewrite frame_noslot_cons, noslot_lits, Hf.
  - inversion H; subst. assumption.
  - destruct (c_chk c); inversion H; subst; assumption.
  - destruct (build fields (c_fr c) (c_tp c)) as [[a0 fr0] tp0] eqn:E. inversion H; subst.
    destruct (build_noslot _ _ _ _ _ _ E Hf) as [Ha Hf']. cbn [c_fr set_fr]. rewrite frame_noslot_cons, noslot_app, Ha, Hf'. assert (Hu : noslot (map AUnset unsets) = true) by (induction unsets; cbn; auto).
    now rewrite Hu.
Qed.

Lemma run_noslot legacy p : forall c a ev, run legacy p c = (ROk a, ev) -> frame_noslot (c_fr c) = true -> noslot a = true.
Proof.
  induction p as [|s p IH]; intros c a ev H Hf; cbn [run] in H.
  - destruct (c_fr c) as [|[x ax] rest]; inversion H; subst; [reflexivity|].
    rewrite frame_noslot_cons in Hf. apply andb_prop in Hf. tauto.
  - destruct (exec legacy s c) as [[r c1] ev1] eqn:E. pose proof (exec_noslot _ _ _ _ _ _ E Hf) as Hf1.
    destruct r; [discriminate|]. destruct (run legacy p c1) as [res' ev'] eqn:Er. inversion H; subst.
    eapply IH; eassumption.
Qed.

(* ---- the usage histories under the REAL monitor ---- *)
Definition fresh_reg (regs : list (N * (N * N * N))) (r : region) : Prop :=
  let '(a, _, p) := r in existsb (reg_hit a p) regs = false.
Definition SlotsFresh (regs : list (N * (N * N * N))) (atoms : list atom) : Prop :=
  forall s r, In (AOpt s (Some r)) atoms -> fresh_reg regs r.

(* the region an operation may obtain from the platform: (address, pages) *)
Definition op_region (o : uop) : option (N * N) :=
  match o with
  | UGpuRes _ w h _ a _ => Some (a, pages (w32 (w32 (w * h) * 4)))
  | UGpuCursor _ _ a _ => Some (a, 4)
  | _ => None
  end.
(* the platform does not hand out memory that overlaps a registered queue area *)
Definition fresh_op (regs : list (N * (N * N * N))) (o : uop) : Prop :=
  match op_region o with Some (a, p) => existsb (reg_hit a p) regs = false | None => True end.

Lemma noslot_fresh regs atoms : noslot atoms = true -> SlotsFresh regs atoms.
Proof.
  intros H s r Hin. unfold noslot in H. rewrite forallb_forall in H. specialize (H _ Hin). discriminate.
Qed.

Lemma get_slot_in s : forall atoms r, get_slot s atoms = Some (Some r) -> exists s', In (AOpt s' (Some r)) atoms.
Proof.
  induction atoms as [|x t IH]; intros r H; cbn [get_slot] in H; [discriminate|].
  destruct x as [r0|s' r'| |q|q n]; try (destruct (IH _ H) as [s1 H1]; exists s1; now right).
  destruct (s =? s').
  - inversion H; subst. exists s'. now left.
  - destruct (IH _ H) as [s1 H1]. exists s1. now right.
Qed.

Lemma set_slot_in s y : forall atoms s' r, In (AOpt s' (Some r)) (set_slot s y atoms) ->
  y = Some r \/ In (AOpt s' (Some r)) atoms.
Proof.
  induction atoms as [|x t IH]; intros s' r H; cbn [set_slot] in H; [destruct H|].
  destruct x as [r0|s0 r0| |q|q n];
    try (destruct H as [H|H]; [right; now left|destruct (IH _ _ H); [now left|right; now right]]).
  destruct (s =? s0).
  - destruct H as [H|H]; [inversion H; subst; now left|right; now right].
  - destruct H as [H|H]; [right; now left|destruct (IH _ _ H); [now left|right; now right]].
Qed.

Lemma SlotsFresh_set regs s y atoms :
  SlotsFresh regs atoms -> (forall r, y = Some r -> fresh_reg regs r) -> SlotsFresh regs (set_slot s y atoms).
Proof.
  intros H Hy s' r Hin. destruct (set_slot_in _ _ _ _ _ Hin) as [E|E]; [now apply Hy|eapply H; eassumption].
Qed.

Lemma qstep_dealloc_fresh resets m a v p :
  existsb (reg_hit a p) (q_regs m) = false -> qstep resets m (TDealloc a v p) = Some m.
Proof. intros H. cbn [qstep]. now rewrite H, andb_false_r. Qed.

(* the GPU operations leave the monitor state exactly as it is *)
Lemma gpu_teardown_qui resets old oks atoms kt oks1 atoms1 ev1 m :
  gpu_teardown old oks atoms = (kt, oks1, atoms1, ev1) ->
  get_slot 0 atoms = Some old -> SlotsFresh (q_regs m) atoms ->
  qui_run resets ev1 m = Some m /\ SlotsFresh (q_regs m) atoms1 /\ erase atoms1 = erase atoms.
Proof.
  unfold gpu_teardown. intros H Hs HF.
  destruct old as [[[oa ov] op]|]; [|inversion H; subst; auto].
  destruct (take_ok oks) as [k1 o1]. destruct k1; cbn [negb] in H; [|inversion H; subst; auto].
  destruct (take_ok o1) as [k2 o2]. destruct k2; cbn [negb] in H; [|inversion H; subst; auto].
  destruct (take_ok o2) as [k3 o3]. destruct k3; cbn [negb] in H; [|inversion H; subst; auto].
  inversion H; subst. destruct (get_slot_in _ _ _ Hs) as [s' Hin]. pose proof (HF _ _ Hin) as Hf. cbn in Hf.
  split; [|split].
  - cbn [qui_run]. now rewrite qstep_dealloc_fresh.
  - apply SlotsFresh_set; [assumption|discriminate].
  - apply erase_set_slot.
Qed.

Lemma gpu_attach_qui resets md w h oks a v atoms a' o ev m :
  gpu_attach md w h oks a v atoms = (a', o, ev) ->
  SlotsFresh (q_regs m) atoms -> existsb (reg_hit a (pages (w32 (w32 (w * h) * 4)))) (q_regs m) = false ->
  qui_run resets ev m = Some m /\ SlotsFresh (q_regs m) a' /\ erase a' = erase atoms.
Proof.
  unfold gpu_attach. intros H HF Hfr.
  destruct (take_ok oks) as [kc oks2]. destruct kc; cbn [negb] in H; [|inversion H; subst; auto].
  set (p := pages (w32 (w32 (w * h) * 4))) in *.
  destruct (a =? 0); [inversion H; subst; auto|].
  assert (Hfail : qui_run resets [TAlloc p DIR_TO_DEV a v; TDealloc a v p] m = Some m).
  { cbn [qui_run qstep]. now rewrite Hfr, andb_false_r. }
  destruct (take_ok oks2) as [ka oks3]. destruct ka; cbn [negb] in H; [|inversion H; subst; auto].
  destruct (take_ok oks3) as [ks oks4]. destruct ks; cbn [negb] in H; [|inversion H; subst; auto].
  destruct (p =? 0); [inversion H; subst; auto|].
  inversion H; subst. split; [reflexivity|split; [|apply erase_set_slot]].
  apply SlotsFresh_set; [assumption|]. intros r Hr. inversion Hr; subst. exact Hfr.
Qed.

Lemma uop_qui resets md o atoms m :
  SlotsFresh (q_regs m) atoms -> fresh_op (q_regs m) o ->
  exists m', qui_run resets (snd (uop_step md atoms o)) m = Some m'
             /\ q_ok m' = q_ok m /\ q_regs m' = q_regs m
             /\ SlotsFresh (q_regs m) (fst (uop_step md atoms o))
             /\ erase (fst (uop_step md atoms o)) = erase atoms.
Proof.
  intros HF Hop. destruct o as [q t|q t|setup w h oks a v|len_ok oks a v]; cbn [uop_step].
  - eexists. cbn [snd fst qui_run qstep]. repeat split; auto.
  - eexists. cbn [snd fst qui_run qstep]. repeat split; auto.
  - unfold fresh_op in Hop. cbn [op_region] in Hop.
    destruct (gpu_res md setup w h oks a v atoms) as [[a' o'] ev'] eqn:E. cbn [fst snd].
    unfold gpu_res in E. destruct (get_slot 0 atoms) as [old|] eqn:Hs; [|inversion E; subst; exists m; auto].
    destruct (if setup then take_ok oks else (true, oks)) as [k0 oks0].
    destruct k0; cbn [negb] in E; [|inversion E; subst; exists m; auto].
    destruct ((w * h * 4 =? 0) || (two32 <=? w * h * 4)); [inversion E; subst; exists m; auto|].
    destruct (gpu_teardown old oks0 atoms) as [[[kt oks1] atoms1] ev1] eqn:Et.
    destruct (gpu_teardown_qui resets _ _ _ _ _ _ _ m Et Hs HF) as (Q1 & F1 & E1).
    destruct kt; cbn [negb] in E; [|inversion E; subst; exists m; auto].
    destruct (gpu_attach md w h oks1 a v atoms1) as [[a2 o2] ev2] eqn:Ea. inversion E; subst.
    destruct (gpu_attach_qui resets _ _ _ _ _ _ _ _ _ _ m Ea F1 Hop) as (Q2 & F2 & E2).
    exists m. rewrite qui_run_app, Q1, Q2. repeat split; auto. congruence.
  - unfold fresh_op in Hop. cbn [op_region] in Hop.
    destruct (gpu_cursor len_ok oks a v atoms) as [[a' o'] ev'] eqn:E. cbn [fst snd].
    unfold gpu_cursor in E. destruct (get_slot 1 atoms) as [old|] eqn:Hs; [|inversion E; subst; exists m; auto].
    destruct len_ok; cbn [negb] in E; [|inversion E; subst; exists m; auto].
    destruct (a =? 0); [inversion E; subst; exists m; auto|].
    assert (Hfail : qui_run resets [TAlloc 4 DIR_TO_DEV a v; TDealloc a v 4] m = Some m).
    { cbn [qui_run qstep]. now rewrite Hop, andb_false_r. }
    destruct (take_ok oks) as [k1 o1]. destruct k1; cbn [negb] in E; [|inversion E; subst; exists m; auto].
    destruct (take_ok o1) as [k2 o2]. destruct k2; cbn [negb] in E; [|inversion E; subst; exists m; auto].
    destruct (take_ok o2) as [k3 o3]. destruct k3; cbn [negb] in E; [|inversion E; subst; exists m; auto].
    inversion E; subst. exists m. split; [|split; [reflexivity|split; [reflexivity|split; [|apply erase_set_slot]]]].
    + destruct old as [[[oa ov] op]|]; [|reflexivity].
      destruct (get_slot_in _ _ _ Hs) as [s' Hin]. pose proof (HF _ _ Hin) as Hf. cbn in Hf.
      cbn [qui_run qstep]. now rewrite Hf, andb_false_r.
    + apply SlotsFresh_set; [assumption|]. intros r Hr. inversion Hr; subst. exact Hop.
Qed.

Lemma usage_qui resets md ops : forall atoms m,
  SlotsFresh (q_regs m) atoms -> Forall (fresh_op (q_regs m)) ops ->
  exists m', qui_run resets (snd (usage md atoms ops)) m = Some m'
             /\ q_ok m' = q_ok m /\ q_regs m' = q_regs m
             /\ erase (fst (usage md atoms ops)) = erase atoms.
Proof.
  induction ops as [|o r IH]; intros atoms m HF Hops; cbn [usage].
  - exists m. auto.
  - inversion Hops as [|? ? Ho Hr]; subst.
    destruct (uop_qui resets md o atoms m HF Ho) as (m1 & Q1 & K1 & R1 & F1 & E1).
    destruct (uop_step md atoms o) as [a1 e1]. cbn [fst snd] in *.
    rewrite <- R1 in F1, Hr. destruct (IH a1 m1 F1 Hr) as (m2 & Q2 & K2 & R2 & E2).
    destruct (usage md a1 r) as [a2 e2]. cbn [fst snd] in *.
    exists m2. rewrite qui_run_app, Q1, Q2. repeat split; congruence.
Qed.

(* every registration the monitor holds was made by a queue_set of the sequence *)
Fixpoint registered (ev : list tev) : list (N * (N * N * N)) :=
  match ev with
  | [] => []
  | TQueueSet q _ d1 d2 d3 :: t => (q, (d1, d2, d3)) :: registered t
  | _ :: t => registered t
  end.

Lemma incl_filter {A} (f : A -> bool) l : incl (filter f l) l.
Proof. intros x H. apply filter_In in H. tauto. Qed.

Lemma regs_incl resets ev : forall m m', qui_run resets ev m = Some m' -> incl (q_regs m') (q_regs m ++ registered ev).
Proof.
  induction ev as [|e t IH]; intros m m' H; cbn [qui_run] in H.
  - inversion H; subst. cbn. rewrite app_nil_r. apply incl_refl.
  - destruct (qstep resets m e) as [m1|] eqn:E; [|discriminate]. specialize (IH _ _ H).
    intros x Hx. specialize (IH x Hx). apply in_app_or in IH.
    destruct e; cbn [qstep] in E; cbn [registered];
      try (inversion E; subst; cbn [q_regs] in IH; apply in_or_app; tauto).
    + destruct (q_ok m && existsb (reg_hit paddr pages) (q_regs m)); inversion E; subst. apply in_or_app; tauto.
    + inversion E; subst. cbn [q_regs] in IH. apply in_or_app.
      destruct IH as [[<-|IH]|IH]; [right; now left| |right; now right].
      left. eapply incl_filter; eassumption.
    + inversion E; subst. cbn [q_regs] in IH. apply in_or_app.
      destruct IH as [IH|IH]; [left; eapply incl_filter; eassumption|tauto].
    + destruct (v =? 0); inversion E; subst; cbn [q_regs] in IH; apply in_or_app; [destruct IH as [[]|]|]; tauto.
    + destruct resets; inversion E; subst; cbn [q_regs] in IH; apply in_or_app; [destruct IH as [[]|]|]; tauto.
    + destruct (q_ok m && is_reg q (q_regs m) && existsb (pair_eqb (q, tok)) (q_posted m)); inversion E; subst.
      apply in_or_app; tauto.
Qed.

Lemma existsb_incl {A} (f : A -> bool) l l' : incl l l' -> existsb f l' = false -> existsb f l = false.
Proof.
  intros Hi H. destruct (existsb f l) eqn:E; [|reflexivity].
  apply existsb_exists in E. destruct E as [x [Hx Hf]].
  assert (existsb f l' = true) by (apply existsb_exists; exists x; split; [apply Hi|]; assumption). congruence.
Qed.

(* ---- putting it together ---- *)
Definition acheck (resets : bool) (o : option (list satom) * list qev) : bool :=
  match o with
  | (None, aev) => is_some (srun resets aev s0)
  | (Some sa, aev) => is_some (srun resets (aev ++ sdrop sa) s0)
  end.
Definition all_ok (resets legacy : bool) (p : list cstep) : bool :=
  forallb (acheck resets) (arun legacy p ([], true)).

Lemma quiesced_core resets legacy p al cf gn utf8 chk md ops :
  (forall aev, In (erase_res (fst (run legacy p (cst0 al cf gn utf8 chk))), aev) (arun legacy p ([], true)) ->
               acheck resets (erase_res (fst (run legacy p (cst0 al cf gn utf8 chk))), aev) = true) ->
  Forall (fresh_op (registered (snd (run legacy p (cst0 al cf gn utf8 chk))))) ops ->
  quiesced_b resets (snd (lifecycle legacy p (cst0 al cf gn utf8 chk) md ops)) = true.
Proof.
  intros Hall Hfresh. unfold quiesced_b, lifecycle. set (c := cst0 al cf gn utf8 chk) in *.
  destruct (run legacy p c) as [res ev] eqn:Er. cbn [fst snd] in Hfresh, Hall.
  destruct (run_sim _ _ _ _ _ Er) as [aev [Hin Hcov]].
  specialize (Hall _ Hin).
  destruct res as [e|a]; cbn [erase_res acheck] in Hall.
  - cbn [snd]. destruct (srun resets aev s0) as [s1|] eqn:Es; [|discriminate].
    destruct (srun_sound resets ev q0 s1 (proj1 Hcov _ _ _ Es)) as [m1 [Hq _]]. now rewrite Hq.
  - rewrite srun_app in Hall. destruct (srun resets aev s0) as [s1|] eqn:Es; [|discriminate].
    destruct (srun resets (sdrop (erase a)) s1) as [s2|] eqn:Ed; [|discriminate].
    destruct (srun_sound resets ev q0 s1 (proj1 Hcov _ _ _ Es)) as [m1 [Hq1 Ha1]].
    assert (Hns : noslot a = true) by (eapply run_noslot; [exact Er|reflexivity]).
    assert (Hfr : Forall (fresh_op (q_regs m1)) ops).
    { eapply Forall_impl; [|exact Hfresh]. intros o Ho. unfold fresh_op in *.
      destruct (op_region o) as [[ra rp]|]; [|exact I].
      eapply existsb_incl; [|exact Ho]. exact (regs_incl _ _ _ _ Hq1). }
    destruct (usage_qui resets md ops a m1 (noslot_fresh _ _ Hns) Hfr) as (m2 & Hq2 & K2 & R2 & E2).
    destruct (usage md a ops) as [a' ev']. cbn [fst snd] in *.
    assert (Habs : abs m2 = s1) by (rewrite <- Ha1; unfold abs; now rewrite K2, R2).
    rewrite <- E2, <- Habs in Ed.
    destruct (srun_sound resets (drop_atoms a') m2 s2 (proj1 (drop_cov a') _ _ _ Ed)) as [m3 [Hq3 _]].
    now rewrite qui_run_app, Hq1, qui_run_app, Hq2, Hq3.
Qed.

(* For a program all of whose finitely many abstract runs pass the strict monitor: every concrete life
   cycle (all platform answers, all config-space behaviours, all usage histories in which the platform
   does not hand out memory overlapping a registered queue area) passes the real monitor. *)
Theorem quiesced_any_program resets legacy p al cf gn utf8 chk md ops :
  all_ok resets legacy p = true ->
  Forall (fresh_op (registered (snd (run legacy p (cst0 al cf gn utf8 chk))))) ops ->
  quiesced_b resets (snd (lifecycle legacy p (cst0 al cf gn utf8 chk) md ops)) = true.
Proof.
  intros Hall Hfresh. apply quiesced_core; [|exact Hfresh].
  intros aev Hin. unfold all_ok in Hall. rewrite forallb_forall in Hall. exact (Hall _ Hin).
Qed.

(* the same when only the runs in which construction SUCCEEDS are known to pass *)
Definition all_ok_success (resets legacy : bool) (p : list cstep) : bool :=
  forallb (fun o => match fst o with Some _ => acheck resets o | None => true end) (arun legacy p ([], true)).

Theorem quiesced_when_constructed resets legacy p al cf gn utf8 chk md ops a :
  all_ok_success resets legacy p = true ->
  fst (run legacy p (cst0 al cf gn utf8 chk)) = ROk a ->
  Forall (fresh_op (registered (snd (run legacy p (cst0 al cf gn utf8 chk))))) ops ->
  quiesced_b resets (snd (lifecycle legacy p (cst0 al cf gn utf8 chk) md ops)) = true.
Proof.
  intros Hall Hok Hfresh. apply quiesced_core; [|exact Hfresh].
  intros aev Hin. unfold all_ok_success in Hall. rewrite forallb_forall in Hall.
  specialize (Hall _ Hin). rewrite Hok in *. exact Hall.
Qed.

(* ---- the eleven drivers ---- *)
Lemma drivers_all_ok d nq legacy : all_ok true legacy (prog d nq) = true.
Proof.
  unfold prog.
  repeat match goal with |- context [if ?b then _ else _] => destruct b end;
    destruct legacy; vm_compute; reflexivity.
Qed.

(* C09, second sentence, for the repaired tree: every driver, both layouts, every fault, every history *)
Theorem quiesced_drivers d nq legacy al cf gn utf8 chk md ops :
  Forall (fresh_op (registered (snd (run legacy (prog d nq) (cst0 al cf gn utf8 chk))))) ops ->
  quiesced_b true (snd (lifecycle legacy (prog d nq) (cst0 al cf gn utf8 chk) md ops)) = true.
Proof. apply quiesced_any_program, drivers_all_ok. Qed.

(* The drivers that have a Drop impl disable every queue themselves: for them the statement holds even for a
   transport whose drop does NOT reset the device. Sound and 9p have no Drop impl and rely on the reset. *)
Lemma drivers_all_ok_noreset d nq legacy : d <> D_SOUND -> d <> D_9P -> all_ok false legacy (prog d nq) = true.
Proof.
  intros H1 H2. unfold prog.
  repeat match goal with |- context [if ?b =? ?k then _ else _] => destruct (N.eqb_spec b k) end;
    try contradiction; destruct legacy; vm_compute; reflexivity.
Qed.

Theorem quiesced_drivers_without_reset d nq legacy al cf gn utf8 chk md ops :
  d <> D_SOUND -> d <> D_9P ->
  Forall (fresh_op (registered (snd (run legacy (prog d nq) (cst0 al cf gn utf8 chk))))) ops ->
  quiesced_b false (snd (lifecycle legacy (prog d nq) (cst0 al cf gn utf8 chk) md ops)) = true.
Proof. intros H1 H2. apply quiesced_any_program, drivers_all_ok_noreset; assumption. Qed.

(* ... and the assumption is needed for those two: a plain construct-and-drop already fails without it *)
Theorem sound_9p_need_transport_reset :
  quiesced_b false (snd (lifecycle false (prog D_9P 0) (cst0 [(4096, 1); (8192, 2)] [(0, 1); (0, 65)] [] true true) Debug [])) = false
  /\ quiesced_b false (snd (lifecycle false (prog D_SOUND 0)
        (cst0 [(4096, 1); (8192, 2); (12288, 3); (16384, 4); (20480, 5); (24576, 6); (28672, 7); (32768, 8)]
              [(0, 0); (0, 1); (0, 0)] [] true true) Debug [])) = false.
Proof. split; vm_compute; reflexivity. Qed.

(* ---- the tree before the repair of VirtIO9p::new (finding F3) ---- *)
(* config space with tag_len = 0: finish_init, then read_mount_tag fails, then the queue's two regions are
   returned while the device is live on queue 0, and only then the transport is dropped *)
Definition f3_witness : cst := cst0 [(4096, 1); (8192, 2)] [(0, 0)] [] true true.

Theorem quiesced_prefix_refuted :
  exists c, fst (lifecycle false (prog_prefix D_9P 0) c Debug []) = RErr EInvalidParam
            /\ quiesced_b true (snd (lifecycle false (prog_prefix D_9P 0) c Debug [])) = false.
Proof. exists f3_witness. split; vm_compute; reflexivity. Qed.

Example f3_witness_trace :
  snd (lifecycle false (prog_prefix D_9P 0) f3_witness Debug []) =
  [TStatus 0; TStatus 3; TStatus 11; TAlloc 1 0 4096 1; TAlloc 1 1 8192 2; TQueueSet 0 16 4096 4352 8192;
   TStatus 15; TGen; TCfg 0 2; TGen; TDealloc 4096 1 1; TDealloc 8192 2 1; TDrop].
Proof. vm_compute. reflexivity. Qed.

(* the repaired constructor on the same input: the read fails BEFORE DRIVER_OK *)
Example f3_witness_fixed :
  snd (lifecycle false (prog D_9P 0) f3_witness Debug []) =
  [TStatus 0; TStatus 3; TStatus 11; TAlloc 1 0 4096 1; TAlloc 1 1 8192 2; TQueueSet 0 16 4096 4352 8192;
   TGen; TCfg 0 2; TGen; TDealloc 4096 1 1; TDealloc 8192 2 1; TDrop]
  /\ quiesced_b true (snd (lifecycle false (prog D_9P 0) f3_witness Debug [])) = true.
Proof. split; vm_compute; reflexivity. Qed.

Lemma prefix_all_ok_success d nq legacy : all_ok_success true legacy (prog_prefix d nq) = true.
Proof.
  unfold prog_prefix, prog.
  repeat match goal with |- context [if ?b then _ else _] => destruct b end;
    destruct legacy; vm_compute; reflexivity.
Qed.

(* what did hold before the repair: everything whenever construction succeeds (and, for the ten other drivers,
   everything: prog_prefix d = prog d); the first sentence of the property held throughout (balanced_drivers_prefix) *)
Theorem quiesced_prefix_partial d nq legacy al cf gn utf8 chk md ops a :
  fst (run legacy (prog_prefix d nq) (cst0 al cf gn utf8 chk)) = ROk a ->
  Forall (fresh_op (registered (snd (run legacy (prog_prefix d nq) (cst0 al cf gn utf8 chk))))) ops ->
  quiesced_b true (snd (lifecycle legacy (prog_prefix d nq) (cst0 al cf gn utf8 chk) md ops)) = true.
Proof. intros Hok. apply quiesced_when_constructed with (a := a); [apply prefix_all_ok_success|exact Hok]. Qed.

Theorem quiesced_prefix_other_drivers d nq legacy al cf gn utf8 chk md ops :
  d <> D_9P ->
  Forall (fresh_op (registered (snd (run legacy (prog_prefix d nq) (cst0 al cf gn utf8 chk))))) ops ->
  quiesced_b true (snd (lifecycle legacy (prog_prefix d nq) (cst0 al cf gn utf8 chk) md ops)) = true.
Proof.
  intros Hd. unfold prog_prefix. destruct (N.eqb_spec d D_9P); [contradiction|]. apply quiesced_drivers.
Qed.

(* non-vacuity of the freshness hypothesis: a GPU history that allocates, replaces and releases frame buffer
   and cursor memory, with refused requests in between, against regions that do not overlap the queues *)
Definition gpu_example_cst : cst :=
  cst0 [(0x10000, 1); (0x20000, 2); (0x30000, 3); (0x40000, 4)] [(0, 0); (0, 1)] [] true true.
Definition gpu_example_ops : list uop :=
  [UGpuRes true 64 48 [] 0x100000 11; UGpuCursor true [] 0x200000 12;
   UGpuRes false 32 32 [true; true; true; true; false] 0x300000 13;
   UGpuRes false 16 16 [] 0x400000 14; UGpuCursor true [true; false] 0x500000 15;
   UGpuCursor true [] 0x600000 16; UPost 0 1; UGpuRes false 8 8 [] 0 0].

Example quiesced_nonvacuous :
  Forall (fresh_op (registered (snd (run false (prog D_GPU 0) gpu_example_cst)))) gpu_example_ops
  /\ snd (lifecycle false (prog D_GPU 0) gpu_example_cst Release gpu_example_ops) =
     [TStatus 0; TStatus 3; TStatus 11; TCfg 0 4; TCfg 8 4;
      TAlloc 1 0 0x10000 1; TAlloc 1 1 0x20000 2; TQueueSet 0 2 0x10000 0x10020 0x20000;
      TAlloc 1 0 0x30000 3; TAlloc 1 1 0x40000 4; TQueueSet 1 2 0x30000 0x30020 0x40000; TStatus 15;
      TAlloc 3 0 0x100000 11; TAlloc 4 0 0x200000 12;
      TDealloc 0x100000 11 3; TAlloc 1 0 0x300000 13; TDealloc 0x300000 13 1;
      TAlloc 1 0 0x400000 14;
      TAlloc 4 0 0x500000 15; TDealloc 0x500000 15 4;
      TAlloc 4 0 0x600000 16; TDealloc 0x200000 12 4;
      TPost 0 1;
      TDealloc 0x400000 14 1; TAlloc 1 0 0 0;
      TQueueUnset 0; TQueueUnset 1; TDrop; TDealloc 0x600000 16 4;
      TDealloc 0x10000 1 1; TDealloc 0x20000 2 1; TDealloc 0x30000 3 1; TDealloc 0x40000 4 1;
      TFree 0 0; TFree 0 1; TFree 1 0; TFree 1 1; TFree 0 0; TFree 0 1].
Proof.
  split; [|vm_compute; reflexivity].
  unfold gpu_example_ops. repeat (apply Forall_cons; [vm_compute; first [reflexivity|exact I]|]). apply Forall_nil.
Qed.

(* ---- the PCI reading: queue_unset does nothing, only a reset quiesces (Model/Teardown.v quiesced_pci_b) ---- *)
(* PciTransport::queue_unset is a no-op; what makes teardown safe there is that every driver struct declares
   `transport` as its FIRST field, so the transport is dropped (reset) before the queues' DMA memory and the
   driver-owned buffers. The statement below is the second sentence of C09 for such a transport. *)
Lemma no_unset_app a b : no_unset (a ++ b) = no_unset a ++ no_unset b.
Proof. apply filter_app. Qed.

Lemma projs_no_unset tr : projs (no_unset tr) = nuq (projs tr).
Proof.
  unfold no_unset, nuq. induction tr as [|e t IH]; [reflexivity|].
  destruct e; cbn [filter is_unset negb projs proj is_qunset]; rewrite ?IH; reflexivity.
Qed.

Lemma registered_no_unset ev : registered (no_unset ev) = registered ev.
Proof.
  unfold no_unset. induction ev as [|e t IH]; [reflexivity|].
  destruct e; cbn [filter is_unset negb registered]; rewrite ?IH; reflexivity.
Qed.

Definition nu (e : tev) : bool := negb (is_unset e).

Lemma no_unset_id l : forallb nu l = true -> no_unset l = l.
Proof.
  unfold no_unset. induction l as [|e t IH]; intros H; [reflexivity|].
  cbn [forallb] in H. apply andb_prop in H. destruct H as [He Ht]. cbn [filter].
  unfold nu in He. rewrite He. f_equal. now apply IH.
Qed.

(* the usage histories contain no queue_unset call *)
Lemma gpu_teardown_nu old oks atoms : forallb nu (snd (gpu_teardown old oks atoms)) = true.
Proof.
  unfold gpu_teardown. destruct old as [[[oa ov] op]|]; [|reflexivity].
  destruct (take_ok oks) as [k1 o1]. destruct k1; [|reflexivity].
  destruct (take_ok o1) as [k2 o2]. destruct k2; [|reflexivity].
  destruct (take_ok o2) as [k3 o3]. destruct k3; reflexivity.
Qed.

Lemma gpu_attach_nu md w h oks a v atoms : forallb nu (snd (gpu_attach md w h oks a v atoms)) = true.
Proof.
  unfold gpu_attach.
  destruct (take_ok oks) as [kc oks2]. destruct kc; [|reflexivity].
  destruct (a =? 0); [reflexivity|].
  destruct (take_ok oks2) as [ka oks3]. destruct ka; [|reflexivity].
  destruct (take_ok oks3) as [ks oks4]. destruct ks; [|reflexivity].
  destruct (pages (w32 (w32 (w * h) * 4)) =? 0); reflexivity.
Qed.

Lemma gpu_res_nu md setup w h oks a v atoms : forallb nu (snd (gpu_res md setup w h oks a v atoms)) = true.
Proof.
  unfold gpu_res.
  destruct (get_slot 0 atoms) as [old|]; [|reflexivity].
  destruct (if setup then take_ok oks else (true, oks)) as [k0 oks0]. destruct k0; [|reflexivity].
  destruct ((w * h * 4 =? 0) || (two32 <=? w * h * 4)); [reflexivity|].
  pose proof (gpu_teardown_nu old oks0 atoms) as H1.
  destruct (gpu_teardown old oks0 atoms) as [[[kt oks1] atoms1] ev1]. cbn [snd] in H1.
  destruct kt; cbn [negb]; [|exact H1].
  pose proof (gpu_attach_nu md w h oks1 a v atoms1) as H2.
  destruct (gpu_attach md w h oks1 a v atoms1) as [[a2 o2] ev2]. cbn [snd] in *.
  now rewrite forallb_app, H1, H2.
Qed.

Lemma gpu_cursor_nu len_ok oks a v atoms : forallb nu (snd (gpu_cursor len_ok oks a v atoms)) = true.
Proof.
  unfold gpu_cursor.
  destruct (get_slot 1 atoms) as [old|]; [|reflexivity].
  destruct len_ok; [|reflexivity].
  destruct (a =? 0); [reflexivity|].
  destruct (take_ok oks) as [k1 o1]. destruct k1; [|reflexivity].
  destruct (take_ok o1) as [k2 o2]. destruct k2; [|reflexivity].
  destruct (take_ok o2) as [k3 o3]. destruct k3; [|reflexivity].
  destruct old as [[[oa ov] op]|]; reflexivity.
Qed.

Lemma uop_nu md atoms o : forallb nu (snd (uop_step md atoms o)) = true.
Proof.
  destruct o as [q t|q t|setup w h oks a v|len_ok oks a v]; cbn [uop_step]; try reflexivity.
  - pose proof (gpu_res_nu md setup w h oks a v atoms) as H.
    destruct (gpu_res md setup w h oks a v atoms) as [[a' o'] ev']. exact H.
  - pose proof (gpu_cursor_nu len_ok oks a v atoms) as H.
    destruct (gpu_cursor len_ok oks a v atoms) as [[a' o'] ev']. exact H.
Qed.

Lemma usage_nu md ops : forall atoms, forallb nu (snd (usage md atoms ops)) = true.
Proof.
  induction ops as [|o r IH]; intros atoms; cbn [usage]; [reflexivity|].
  pose proof (uop_nu md atoms o) as H1. destruct (uop_step md atoms o) as [a1 e1].
  specialize (IH a1). destruct (usage md a1 r) as [a2 e2]. cbn [snd] in *.
  now rewrite forallb_app, H1, IH.
Qed.

Lemma no_unset_usage md atoms ops : no_unset (snd (usage md atoms ops)) = snd (usage md atoms ops).
Proof. apply no_unset_id, usage_nu. Qed.

(* the abstract runs under the strict monitor, queue_unset events removed, transport drop = reset *)
Definition acheck_pci (o : option (list satom) * list qev) : bool :=
  match o with
  | (None, aev) => is_some (srun true (nuq aev) s0)
  | (Some sa, aev) => is_some (srun true (nuq aev ++ nuq (sdrop sa)) s0)
  end.
Definition all_ok_pci (legacy : bool) (p : list cstep) : bool :=
  forallb acheck_pci (arun legacy p ([], true)).

Lemma quiesced_core_pci legacy p al cf gn utf8 chk md ops :
  (forall aev, In (erase_res (fst (run legacy p (cst0 al cf gn utf8 chk))), aev) (arun legacy p ([], true)) ->
               acheck_pci (erase_res (fst (run legacy p (cst0 al cf gn utf8 chk))), aev) = true) ->
  Forall (fresh_op (registered (snd (run legacy p (cst0 al cf gn utf8 chk))))) ops ->
  quiesced_pci_b (snd (lifecycle legacy p (cst0 al cf gn utf8 chk) md ops)) = true.
Proof.
  intros Hall Hfresh. unfold quiesced_pci_b, quiesced_b, lifecycle. set (c := cst0 al cf gn utf8 chk) in *.
  destruct (run legacy p c) as [res ev] eqn:Er. cbn [fst snd] in Hfresh, Hall.
  destruct (run_sim _ _ _ _ _ Er) as [aev [Hin Hcov]].
  specialize (Hall _ Hin).
  destruct res as [e|a]; cbn [erase_res acheck_pci] in Hall.
  - cbn [snd]. destruct (srun true (nuq aev) s0) as [s1|] eqn:Es; [|discriminate].
    pose proof (proj2 Hcov _ _ _ Es) as Hc. rewrite <- projs_no_unset in Hc.
    destruct (srun_sound true (no_unset ev) q0 s1 Hc) as [m1 [Hq _]]. now rewrite Hq.
  - rewrite srun_app in Hall. destruct (srun true (nuq aev) s0) as [s1|] eqn:Es; [|discriminate].
    destruct (srun true (nuq (sdrop (erase a))) s1) as [s2|] eqn:Ed; [|discriminate].
    pose proof (proj2 Hcov _ _ _ Es) as Hc. rewrite <- projs_no_unset in Hc.
    destruct (srun_sound true (no_unset ev) q0 s1 Hc) as [m1 [Hq1 Ha1]].
    assert (Hns : noslot a = true) by (eapply run_noslot; [exact Er|reflexivity]).
    assert (Hfr : Forall (fresh_op (q_regs m1)) ops).
    { eapply Forall_impl; [|exact Hfresh]. intros o Ho. unfold fresh_op in *.
      destruct (op_region o) as [[ra rp]|]; [|exact I].
      eapply existsb_incl; [|exact Ho].
      pose proof (regs_incl _ _ _ _ Hq1) as Hi. rewrite registered_no_unset in Hi. exact Hi. }
    destruct (usage_qui true md ops a m1 (noslot_fresh _ _ Hns) Hfr) as (m2 & Hq2 & K2 & R2 & E2).
    pose proof (no_unset_usage md a ops) as Hnu.
    destruct (usage md a ops) as [a' ev']. cbn [fst snd] in *.
    assert (Habs : abs m2 = s1) by (rewrite <- Ha1; unfold abs; now rewrite K2, R2).
    rewrite <- E2, <- Habs in Ed.
    pose proof (proj2 (drop_cov a') _ _ _ Ed) as Hd. rewrite <- projs_no_unset in Hd.
    destruct (srun_sound true (no_unset (drop_atoms a')) m2 s2 Hd) as [m3 [Hq3 _]].
    rewrite !no_unset_app, Hnu.
    now rewrite qui_run_app, Hq1, qui_run_app, Hq2, Hq3.
Qed.

Theorem quiesced_any_program_pci legacy p al cf gn utf8 chk md ops :
  all_ok_pci legacy p = true ->
  Forall (fresh_op (registered (snd (run legacy p (cst0 al cf gn utf8 chk))))) ops ->
  quiesced_pci_b (snd (lifecycle legacy p (cst0 al cf gn utf8 chk) md ops)) = true.
Proof.
  intros Hall Hfresh. apply quiesced_core_pci; [|exact Hfresh].
  intros aev Hin. unfold all_ok_pci in Hall. rewrite forallb_forall in Hall. exact (Hall _ Hin).
Qed.

Lemma drivers_all_ok_pci d nq legacy : all_ok_pci legacy (prog d nq) = true.
Proof.
  unfold prog.
  repeat match goal with |- context [if ?b then _ else _] => destruct b end;
    destruct legacy; vm_compute; reflexivity.
Qed.

(* C09, second sentence, on a transport whose queue_unset does nothing (PciTransport): every driver, both
   layouts, every fault, every history. No queue_unset call is counted as quiescing anything. *)
Theorem quiesced_drivers_pci d nq legacy al cf gn utf8 chk md ops :
  Forall (fresh_op (registered (snd (run legacy (prog d nq) (cst0 al cf gn utf8 chk))))) ops ->
  quiesced_pci_b (snd (lifecycle legacy (prog d nq) (cst0 al cf gn utf8 chk) md ops)) = true.
Proof. apply quiesced_any_program_pci, drivers_all_ok_pci. Qed.

(* The PCI reading is strictly stronger than the reading in which queue_unset disables the queue, and it is what
   ties the position of the `transport` field to the property: the event sequence of a VirtIOBlk whose `transport`
   field is declared LAST (queue_unset(0) in Drop::drop, then the queue's two regions, then the transport) passes
   the monitor that believes queue_unset and fails the PCI one. *)
Definition prog_blk_transport_last : list cstep :=
  begin_init ++ [CCfg true [(0, 4); (4, 4)]; CQueue 1 0 16; finish_init;
                 CBuild 9 [0] [FLocal 1; FTransport]].
Definition pci_witness : list tev :=
  [TStatus 0; TStatus 3; TStatus 11; TGen; TCfg 0 4; TCfg 4 4; TGen;
   TAlloc 1 0 4096 1; TAlloc 1 1 8192 2; TQueueSet 0 16 4096 4352 8192; TStatus 15;
   TQueueUnset 0; TDealloc 4096 1 1; TDealloc 8192 2 1; TDrop].

Theorem pci_needs_transport_first :
  snd (lifecycle false prog_blk_transport_last (cst0 [(4096, 1); (8192, 2)] [(0, 8); (0, 0)] [] true true) Debug []) = pci_witness
  /\ balanced_b pci_witness = true
  /\ quiesced_b true pci_witness = true
  /\ quiesced_b false pci_witness = true
  /\ quiesced_pci_b pci_witness = false
  /\ all_ok_pci false prog_blk_transport_last = false.
Proof. repeat split; vm_compute; reflexivity. Qed.

(* ... while the driver as it is (transport first) gives unset, transport drop, dealloc, dealloc on the same input *)
Example pci_witness_real_order :
  snd (lifecycle false (prog D_BLK 0) (cst0 [(4096, 1); (8192, 2)] [(0, 8); (0, 0)] [] true true) Debug []) =
  [TStatus 0; TStatus 3; TStatus 11; TGen; TCfg 0 4; TCfg 4 4; TGen;
   TAlloc 1 0 4096 1; TAlloc 1 1 8192 2; TQueueSet 0 16 4096 4352 8192; TStatus 15;
   TQueueUnset 0; TDrop; TDealloc 4096 1 1; TDealloc 8192 2 1].
Proof. vm_compute. reflexivity. Qed.

(* ================================================================================================ *)
(* Part D: what a true verdict of the monitors means, stated without the monitors                  *)
(* (they are what the harness evaluates on the event sequence OBSERVED on the implementation)      *)

Definition region_eq_dec (x y : region) : {x = y} + {x <> y}.
Proof. repeat decide equality. Defined.

(* how often region r was obtained / returned *)
Definition b2nat (b : bool) : nat := if b then 1%nat else 0%nat.
Fixpoint n_alloc (r : region) (tr : list tev) : nat :=
  match tr with
  | [] => O
  | TAlloc p _ a v :: t => Nat.add (b2nat (negb (a =? 0) && region_eqb (a, v, p) r)) (n_alloc r t)
  | _ :: t => n_alloc r t
  end.
Fixpoint n_dealloc (r : region) (tr : list tev) : nat :=
  match tr with
  | [] => O
  | TDealloc a v p :: t => Nat.add (b2nat (region_eqb (a, v, p) r)) (n_dealloc r t)
  | _ :: t => n_dealloc r t
  end.

(* every region (address, pointer, page count) is returned exactly as often as it was obtained - so nothing
   is leaked, nothing is returned twice, nothing else is returned - and never before it was obtained *)
Definition Balanced (tr : list tev) : Prop :=
  (forall r, n_alloc r tr = n_dealloc r tr)
  /\ (forall pre post, tr = pre ++ post -> forall r, (n_dealloc r pre <= n_alloc r pre)%nat).

Definition cnt_r (r : region) (L : list region) : nat := count_occ region_eq_dec L r.

Lemma region_eqb_dec x r : b2nat (region_eqb x r) = cnt_r r [x].
Proof.
  unfold cnt_r. cbn. destruct (region_eq_dec x r) as [->|Hn].
  - now rewrite region_eqb_refl.
  - destruct (region_eqb x r) eqn:E; [apply region_eqb_eq in E; contradiction|reflexivity].
Qed.

Lemma bal_run_counts tr : forall L X, bal_run tr L = Some X ->
  forall r, (cnt_r r L + n_alloc r tr = n_dealloc r tr + cnt_r r X)%nat.
Proof.
  induction tr as [|e t IH]; intros L X H r.
  - cbn in H. inversion H; subst. cbn. lia.
  - destruct e; cbn [bal_run] in H; cbn [n_alloc n_dealloc]; try (now apply IH).
    + destruct (paddr =? 0); cbn [negb andb].
      * specialize (IH _ _ H r). cbn [b2nat]. lia.
      * specialize (IH _ _ H r). rewrite region_eqb_dec. unfold cnt_r in *. cbn [count_occ] in IH.
        cbn [count_occ]. destruct (region_eq_dec (paddr, vaddr, pages) r); lia.
    + destruct (remove1 (paddr, vaddr, pages) L) as [L1|] eqn:E; [|discriminate].
      specialize (IH _ _ H r). apply remove1_some in E.
      pose proof (proj1 (Permutation_count_occ region_eq_dec _ _) E r) as Hc.
      rewrite region_eqb_dec. unfold cnt_r in *. cbn [count_occ] in Hc |- *.
      destruct (region_eq_dec (paddr, vaddr, pages) r); lia.
Qed.

Lemma bal_run_prefix a b L X : bal_run (a ++ b) L = Some X -> exists Y, bal_run a L = Some Y.
Proof. rewrite bal_run_app. destruct (bal_run a L); [eauto|discriminate]. Qed.

Theorem balanced_b_sound tr : balanced_b tr = true -> Balanced tr.
Proof.
  unfold balanced_b. intros H. destruct (bal_run tr []) as [[|x X]|] eqn:E; try discriminate. split.
  - intros r. pose proof (bal_run_counts _ _ _ E r) as Hc. unfold cnt_r in Hc. cbn in Hc. lia.
  - intros pre post -> r. destruct (bal_run_prefix _ _ _ _ E) as [Y HY].
    pose proof (bal_run_counts _ _ _ HY r) as Hc. unfold cnt_r in Hc at 1. cbn [count_occ] in Hc. lia.
Qed.

(* ---- quiesced, declaratively ---- *)
Definition is_reset (resets : bool) (e : tev) : bool :=
  match e with TStatus v => v =? 0 | TDrop => resets | _ => false end.
Definition arms (e : tev) : bool :=
  match e with TStatus v => negb (v =? 0) && N.testbit v DRIVER_OK_BIT | _ => false end.
Definition touches_q (q : N) (e : tev) : bool :=
  match e with TQueueSet q' _ _ _ _ => q' =? q | TQueueUnset q' => q' =? q | _ => false end.
Definition unposts (q t : N) (e : tev) : bool :=
  match e with TUnpost q' t' => (q' =? q) && (t' =? t) | _ => false end.

(* DRIVER_OK has been written and the device has not been reset since *)
Definition Armed (resets : bool) (pre : list tev) : Prop :=
  exists p1 e p2, pre = p1 ++ e :: p2 /\ arms e = true /\ forallb (fun x => negb (is_reset resets x)) p2 = true.
(* queue q is registered with these three areas: neither disabled, re-registered nor reset since *)
Definition Registered (resets : bool) (pre : list tev) (q d1 d2 d3 : N) : Prop :=
  exists p1 s p2, pre = p1 ++ TQueueSet q s d1 d2 d3 :: p2
                  /\ forallb (fun x => negb (is_reset resets x) && negb (touches_q q x)) p2 = true.
(* the device is live on queue q *)
Definition Live (resets : bool) (pre : list tev) (q d1 d2 d3 : N) : Prop :=
  Armed resets pre /\ Registered resets pre q d1 d2 d3.
(* the chain (q, t) has been made available and not been taken back *)
Definition Outstanding (pre : list tev) (q t : N) : Prop :=
  exists p1 p2, pre = p1 ++ TPost q t :: p2 /\ forallb (fun x => negb (unposts q t x)) p2 = true.

Definition Quiesced (resets : bool) (tr : list tev) : Prop :=
  forall pre e post, tr = pre ++ e :: post ->
    match e with
    | TDealloc a _ p =>
        forall q d1 d2 d3, Live resets pre q d1 d2 d3 ->
          covers a p d1 = false /\ covers a p d2 = false /\ covers a p d3 = false
    | TFree q t => ~ (Outstanding pre q t /\ exists d1 d2 d3, Live resets pre q d1 d2 d3)
    | _ => True
    end.

Lemma qstep_keeps_ok resets m e m' :
  qstep resets m e = Some m' -> q_ok m = true -> is_reset resets e = false -> q_ok m' = true.
Proof.
  intros H Hok Hr. destruct e; cbn [qstep] in H; cbn [is_reset] in Hr;
    try (inversion H; subst; cbn; assumption).
  - destruct (q_ok m && existsb (reg_hit paddr pages) (q_regs m)); inversion H; subst; assumption.
  - rewrite Hr in H. inversion H; subst. cbn. now rewrite Hok.
  - rewrite Hr in H. inversion H; subst. assumption.
  - destruct (q_ok m && is_reg q (q_regs m) && existsb (pair_eqb (q, tok)) (q_posted m)); inversion H; subst; assumption.
Qed.

Lemma qstep_keeps_reg resets m e m' q d :
  qstep resets m e = Some m' -> In (q, d) (q_regs m) ->
  is_reset resets e = false -> touches_q q e = false -> In (q, d) (q_regs m').
Proof.
  intros H Hin Hr Ht. destruct e; cbn [qstep] in H; cbn [is_reset] in Hr; cbn [touches_q] in Ht;
    try (inversion H; subst; cbn; assumption).
  - destruct (q_ok m && existsb (reg_hit paddr pages) (q_regs m)); inversion H; subst; assumption.
  - inversion H; subst. cbn [q_regs]. right. apply filter_In. split; [assumption|]. cbn.
    rewrite N.eqb_sym. now rewrite Ht.
  - inversion H; subst. cbn [q_regs]. apply filter_In. split; [assumption|]. cbn.
    rewrite N.eqb_sym. now rewrite Ht.
  - rewrite Hr in H. inversion H; subst. assumption.
  - rewrite Hr in H. inversion H; subst. assumption.
  - destruct (q_ok m && is_reg q0 (q_regs m) && existsb (pair_eqb (q0, tok)) (q_posted m)); inversion H; subst; assumption.
Qed.

Lemma qstep_keeps_posted resets m e m' q t :
  qstep resets m e = Some m' -> existsb (pair_eqb (q, t)) (q_posted m) = true ->
  unposts q t e = false -> existsb (pair_eqb (q, t)) (q_posted m') = true.
Proof.
  intros H Hin Hu. destruct e; cbn [qstep] in H; cbn [unposts] in Hu;
    try (inversion H; subst; cbn; assumption).
  - destruct (q_ok m && existsb (reg_hit paddr pages) (q_regs m)); inversion H; subst; assumption.
  - destruct (v =? 0); inversion H; subst; assumption.
  - destruct resets; inversion H; subst; assumption.
  - inversion H; subst. cbn [q_posted existsb]. now rewrite Hin, orb_true_r.
  - inversion H; subst. cbn [q_posted]. apply existsb_exists in Hin. destruct Hin as [[q1 t1] [Hin Hp]].
    apply existsb_exists. exists (q1, t1). split; [|assumption]. apply filter_In. split; [assumption|].
    unfold pair_eqb in *. cbn [fst snd] in *. apply andb_prop in Hp. destruct Hp as [Hq Ht].
    apply N.eqb_eq in Hq, Ht. subst q1 t1. rewrite (N.eqb_sym q q0), (N.eqb_sym t tok). now rewrite Hu.
  - destruct (q_ok m && is_reg q0 (q_regs m) && existsb (pair_eqb (q0, tok)) (q_posted m)); inversion H; subst; assumption.
Qed.

Lemma qui_keeps (P : qst -> Prop) (keep : tev -> bool) resets :
  (forall m e m', qstep resets m e = Some m' -> P m -> keep e = true -> P m') ->
  forall l m m', qui_run resets l m = Some m' -> P m -> forallb keep l = true -> P m'.
Proof.
  intros Hstep. induction l as [|e t IH]; intros m m' H HP Hk; cbn [qui_run] in H.
  - inversion H; subst. assumption.
  - cbn in Hk. apply andb_prop in Hk. destruct Hk as [He Ht].
    destruct (qstep resets m e) as [m1|] eqn:E; [|discriminate]. eapply IH; eauto.
Qed.

Lemma qui_split resets p1 e p2 m m' :
  qui_run resets (p1 ++ e :: p2) m = Some m' ->
  exists m1 m2, qui_run resets p1 m = Some m1 /\ qstep resets m1 e = Some m2 /\ qui_run resets p2 m2 = Some m'.
Proof.
  rewrite qui_run_app. destruct (qui_run resets p1 m) as [m1|]; [|discriminate]. cbn [qui_run].
  destruct (qstep resets m1 e) as [m2|] eqn:E; [|discriminate]. eauto.
Qed.

Lemma armed_ok resets pre m : qui_run resets pre q0 = Some m -> Armed resets pre -> q_ok m = true.
Proof.
  intros H (p1 & e & p2 & -> & Ha & Hp2).
  destruct (qui_split _ _ _ _ _ _ H) as (m1 & m2 & H1 & H2 & H3).
  assert (Hok2 : q_ok m2 = true).
  { destruct e; cbn [arms] in Ha; try discriminate. cbn [qstep] in H2.
    apply andb_prop in Ha. destruct Ha as [Hv Hb]. destruct (v =? 0); [discriminate|].
    inversion H2; subst. cbn. now rewrite Hb, orb_true_r. }
  apply (qui_keeps (fun m => q_ok m = true) (fun x => negb (is_reset resets x)) resets) with (l := p2) (m := m2); auto.
  intros ma ea mb Hs Hp Hk. eapply qstep_keeps_ok; eauto. now destruct (is_reset resets ea).
Qed.

Lemma registered_in resets pre m q d1 d2 d3 :
  qui_run resets pre q0 = Some m -> Registered resets pre q d1 d2 d3 -> In (q, (d1, d2, d3)) (q_regs m).
Proof.
  intros H (p1 & s & p2 & -> & Hp2).
  destruct (qui_split _ _ _ _ _ _ H) as (m1 & m2 & H1 & H2 & H3).
  assert (Hin2 : In (q, (d1, d2, d3)) (q_regs m2)) by (cbn [qstep] in H2; inversion H2; subst; now left).
  apply (qui_keeps (fun m => In (q, (d1, d2, d3)) (q_regs m))
           (fun x => negb (is_reset resets x) && negb (touches_q q x)) resets) with (l := p2) (m := m2); auto.
  intros ma ea mb Hs Hp Hk. apply andb_prop in Hk. destruct Hk as [K1 K2].
  eapply qstep_keeps_reg; eauto; [now destruct (is_reset resets ea)|now destruct (touches_q q ea)].
Qed.

Lemma outstanding_posted resets pre m q t :
  qui_run resets pre q0 = Some m -> Outstanding pre q t -> existsb (pair_eqb (q, t)) (q_posted m) = true.
Proof.
  intros H (p1 & p2 & -> & Hp2).
  destruct (qui_split _ _ _ _ _ _ H) as (m1 & m2 & H1 & H2 & H3).
  assert (Hin2 : existsb (pair_eqb (q, t)) (q_posted m2) = true).
  { cbn [qstep] in H2. inversion H2; subst. cbn [q_posted existsb]. unfold pair_eqb at 1. cbn [fst snd].
    now rewrite !N.eqb_refl. }
  apply (qui_keeps (fun m => existsb (pair_eqb (q, t)) (q_posted m) = true)
           (fun x => negb (unposts q t x)) resets) with (l := p2) (m := m2); auto.
  intros ma ea mb Hs Hp Hk. eapply qstep_keeps_posted; eauto. now destruct (unposts q t ea).
Qed.

Theorem quiesced_b_sound resets tr : quiesced_b resets tr = true -> Quiesced resets tr.
Proof.
  unfold quiesced_b. intros H. destruct (qui_run resets tr q0) as [mf|] eqn:E; [|discriminate].
  intros pre e post ->. destruct (qui_split _ _ _ _ _ _ E) as (m1 & m2 & H1 & H2 & _).
  destruct e; try exact I.
  - intros q d1 d2 d3 [Ha Hr].
    pose proof (armed_ok _ _ _ H1 Ha) as Hok. pose proof (registered_in _ _ _ _ _ _ _ H1 Hr) as Hin.
    cbn [qstep] in H2. rewrite Hok in H2. cbn [andb] in H2.
    destruct (existsb (reg_hit paddr pages) (q_regs m1)) eqn:Ex; [discriminate|].
    assert (Hh : reg_hit paddr pages (q, (d1, d2, d3)) = false).
    { destruct (reg_hit paddr pages (q, (d1, d2, d3))) eqn:Eh; [|reflexivity].
      assert (existsb (reg_hit paddr pages) (q_regs m1) = true) by (apply existsb_exists; eauto). congruence. }
    cbn [reg_hit] in Hh. apply orb_false_elim in Hh. destruct Hh as [Hh H3].
    apply orb_false_elim in Hh. tauto.
  - intros [Ho (d1 & d2 & d3 & Ha & Hr)].
    pose proof (armed_ok _ _ _ H1 Ha) as Hok. pose proof (registered_in _ _ _ _ _ _ _ H1 Hr) as Hin.
    pose proof (outstanding_posted _ _ _ _ _ H1 Ho) as Hp.
    cbn [qstep] in H2. rewrite Hok, Hp in H2.
    assert (Hreg : is_reg q (q_regs m1) = true).
    { apply existsb_exists. exists (q, (d1, d2, d3)). split; [assumption|]. cbn. apply N.eqb_refl. }
    rewrite Hreg in H2. discriminate.
Qed.

(* the theorems above, restated with the declarative predicates *)
Theorem drivers_Balanced d nq legacy al cf gn utf8 chk md ops :
  Balanced (snd (lifecycle legacy (prog d nq) (cst0 al cf gn utf8 chk) md ops)).
Proof. apply balanced_b_sound, balanced_drivers. Qed.

Theorem drivers_Quiesced d nq legacy al cf gn utf8 chk md ops :
  Forall (fresh_op (registered (snd (run legacy (prog d nq) (cst0 al cf gn utf8 chk))))) ops ->
  Quiesced true (snd (lifecycle legacy (prog d nq) (cst0 al cf gn utf8 chk) md ops)).
Proof. intros H. apply quiesced_b_sound, quiesced_drivers, H. Qed.

(* the PCI reading, declaratively: in the event sequence without the queue_unset calls (so `Registered` ends only at a
   reset or a re-registration) nothing registered or outstanding is released while the device is live *)
Theorem drivers_Quiesced_pci d nq legacy al cf gn utf8 chk md ops :
  Forall (fresh_op (registered (snd (run legacy (prog d nq) (cst0 al cf gn utf8 chk))))) ops ->
  Quiesced true (no_unset (snd (lifecycle legacy (prog d nq) (cst0 al cf gn utf8 chk) md ops))).
Proof. intros H. apply quiesced_b_sound. exact (quiesced_drivers_pci d nq legacy al cf gn utf8 chk md ops H). Qed.

(* the declarative predicates are not vacuous: on the GPU example history the device IS live on both queues when the
   frame buffer and cursor regions are released *)
Definition gpu_example_pre : list tev :=
  [TStatus 0; TStatus 3; TStatus 11; TCfg 0 4; TCfg 8 4;
   TAlloc 1 0 0x10000 1; TAlloc 1 1 0x20000 2; TQueueSet 0 2 0x10000 0x10020 0x20000;
   TAlloc 1 0 0x30000 3; TAlloc 1 1 0x40000 4; TQueueSet 1 2 0x30000 0x30020 0x40000; TStatus 15;
   TAlloc 3 0 0x100000 11; TAlloc 4 0 0x200000 12].

Example Live_nonvacuous :
  exists post, snd (lifecycle false (prog D_GPU 0) gpu_example_cst Release gpu_example_ops)
               = gpu_example_pre ++ TDealloc 0x100000 11 3 :: post
               /\ Live true gpu_example_pre 0 0x10000 0x10020 0x20000
               /\ Live true gpu_example_pre 1 0x30000 0x30020 0x40000.
Proof.
  eexists. split; [vm_compute; reflexivity|].
  assert (Ha : Armed true gpu_example_pre).
  { exists (firstn 11 gpu_example_pre), (TStatus 15), (skipn 12 gpu_example_pre). repeat split; vm_compute; reflexivity. }
  split; (split; [exact Ha|]).
  - exists (firstn 7 gpu_example_pre), 2, (skipn 8 gpu_example_pre). split; vm_compute; reflexivity.
  - exists (firstn 10 gpu_example_pre), 2, (skipn 11 gpu_example_pre). split; vm_compute; reflexivity.
Qed.
