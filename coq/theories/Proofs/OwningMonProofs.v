(* What the event-queue monitors MEAN and that they hold of the models:
     kind 1950 (C19, Extract/OwningIO.v mon_owning)     one OwningQueue::poll
     kind 1951 (C19, Extract/OwningIO.v mon_input)      one VirtIOInput::pop_pending_event, caller's side
     kind 1952 (C19, inline in Extract/Dispatch.v)      socket receive: header / body split
     kind 1970 (C19 / C07, Extract/InputIO.v mon_input_pop)  one pop_pending_event, device's side
     kind 1971 (C19 / C07, Extract/InputIO.v mon_input_new)  VirtIOInput::new, device's side
   A. meaning: a TRUE verdict on ANY input list states the clause, in plain terms;
   B. completeness: the line built from the MODEL's own behaviour (Model/Owning.v, Model/Input.v) is accepted - from
      OwningProofs.poll_stocked, InputProofs.input_pop_stocked / input_new_stocked. *)
From VD Require Import Base.Words Base.ListUpd Model.Queue Model.Owning Model.Input
  Proofs.QueueInv Proofs.QueueReach Proofs.QueueProps Proofs.NotifyProofs Proofs.OwningProofs Proofs.InputProofs
  Extract.OwningIO Extract.InputIO Extract.Dispatch.
From Coq Require Import ZArith Lia ZifyBool ZifyN.
Ltac Zify.zify_post_hook ::= Z.div_mod_to_equations.

Lemma b2n_true b : [b2n b] = [1] -> b = true.
Proof. destruct b; [reflexivity|discriminate]. Qed.

(* how the kinds reach the monitors *)
Lemma step_1950 st ins : step_alloc st 1950 ins = (st, [b2n (mon_owning ins)]).
Proof. reflexivity. Qed.
Lemma step_1951 st ins : step_alloc st 1951 ins = (st, [b2n (mon_input ins)]).
Proof. reflexivity. Qed.
Lemma step_1970 st ins : step_alloc st 1970 ins = (st, [b2n (mon_input_pop ins)]).
Proof. reflexivity. Qed.
Lemma step_1971 st ins : step_alloc st 1971 ins = (st, [b2n (mon_input_new ins)]).
Proof. reflexivity. Qed.

(* ------------------------------------------------------------------------------------------------ *)
(* kind 1950 *)
Theorem mon_owning_decodes ins : mon_owning ins = true ->
  exists size bufsz posted class has len tok exp_tok bytes_ok u_len hres pending,
    ins = [size; bufsz; posted; class; has; len; tok; exp_tok; bytes_ok; u_len; hres; pending].
Proof.
  intros H. unfold mon_owning in H.
  destruct ins as [|x0 [|x1 [|x2 [|x3 [|x4 [|x5 [|x6 [|x7 [|x8 [|x9 [|x10 [|x11 [|x12 r]]]]]]]]]]]]]; try discriminate H.
  now exists x0, x1, x2, x3, x4, x5, x6, x7, x8, x9, x10, x11.
Qed.

(* MEANING.  One poll of a queue of `size` buffers of `bufsz` bytes:
     posted   : buffers the device holds + completions the driver has not consumed yet, after the call
     class    : 0 the call returned Ok, 1 an error, 2 and more a panic / death
     has, len : Ok(Some(slice)) and the length of the slice
     tok      : the id in the used element at the driver's cursor;  exp_tok : the token of the oldest completion the device
                has made and the driver has not consumed (completion order)
     bytes_ok : the slice is, byte for byte, what the device wrote into that buffer (the first u_len bytes)
     u_len    : the length the device recorded for that completion;  hres : what the caller's handler answered (2 = error) *)
Theorem mon_owning_meaning size bufsz posted class has len tok exp_tok bytes_ok u_len hres pending :
  mon_owning [size; bufsz; posted; class; has; len; tok; exp_tok; bytes_ok; u_len; hres; pending] = true ->
  (* fully stocked again after EVERY poll, whatever it returned *)
  posted = size
  (* no panic *)
  /\ (class = 0 \/ class = 1)
  (* a delivery is the oldest unconsumed completion, with exactly the device's bytes, as many as it recorded and never more
     than the buffer holds *)
  /\ (class = 0 -> has = 1 -> tok = exp_tok /\ len = u_len /\ len <= bufsz /\ bytes_ok = 1)
  (* an error only for a recorded length above the buffer or a handler error *)
  /\ (class = 1 -> bufsz < u_len \/ hres = 2)
  (* no completion is swallowed: Ok(None) while a completion was pending only if the handler declined it (or its recorded
     length does not fit, which is the error case above) *)
  /\ (class = 0 -> has <> 1 -> pending = 1 -> hres = 0 -> bufsz < u_len).
Proof.
  unfold mon_owning. intros H. apply andb_prop in H. destruct H as [Hp H]. apply N.eqb_eq in Hp.
  split; [exact Hp|].
  destruct (N.eqb_spec class 0) as [E0|E0].
  - subst class. split; [now left|]. destruct (N.eqb_spec has 1) as [Eh|Eh].
    + subst has. cbn [N.eqb Pos.eqb andb] in H. split; [intros _ _; lia|]. split; [intros; discriminate|]. intros _ Hn; congruence.
    + cbn [andb] in H. split; [intros _ Hh; congruence|]. split; [intros; discriminate|].
      intros _ _ Hpe Hh0. subst pending hres. cbn [N.eqb Pos.eqb andb] in H.
      destruct (N.leb_spec u_len bufsz) as [Hl|Hl]; [discriminate H|exact Hl].
  - cbn [andb] in H. destruct (N.eqb_spec class 1) as [E1|E1]; [|discriminate H].
    split; [now right|]. split; [intros; contradiction|]. split; [intros _; lia|]. intros; contradiction.
Qed.

(* ---- completeness: the model's own poll ---- *)
Lemma add_direct_size s bufs : q_size (snd (fst (add_direct s bufs))) = q_size s.
Proof.
  unfold add_direct. destruct (add_direct_loop bufs (q_shadow s) (q_dtable s) (q_free_head s) (q_free_head s)) as [[x|e| |] evs];
    try reflexivity.
  destruct x as [[[sh dt] fh] last]. destruct (nthN_error sh last); reflexivity.
Qed.
Lemma add_indirect_size s bufs t : q_size (snd (fst (add_indirect s bufs t))) = q_size s.
Proof.
  unfold add_indirect. destruct (existsb _ bufs); [reflexivity|].
  destruct (nthN_error (q_ind s) (q_free_head s)) as [[tb|]|]; try reflexivity.
  destruct (nthN_error (q_shadow s) (q_free_head s)); reflexivity.
Qed.
Lemma add_size s ins outs t : q_size (snd (fst (add s ins outs t))) = q_size s.
Proof.
  unfold add. destruct (lenN (tag_bufs ins outs) =? 0); [reflexivity|].
  destruct (negb (capacity_ok s (lenN (tag_bufs ins outs)))); [reflexivity|].
  destruct (q_indirect s && (1 <? lenN (tag_bufs ins outs))).
  - pose proof (add_indirect_size s (tag_bufs ins outs) t) as E.
    destruct (add_indirect s (tag_bufs ins outs) t) as [[o s1] evs]. cbn [fst snd] in E. destruct o; cbn [fst snd set_avail q_size]; exact E.
  - pose proof (add_direct_size s (tag_bufs ins outs)) as E.
    destruct (add_direct s (tag_bufs ins outs)) as [[o s1] evs]. cbn [fst snd] in E. destruct o; cbn [fst snd set_avail q_size]; exact E.
Qed.
Lemma recycle_size s head bufs : q_size (snd (fst (recycle s head bufs))) = q_size s.
Proof.
  unfold recycle. destruct (nthN_error (q_shadow s) head) as [hd|]; [|reflexivity].
  destruct (has_flag (d_flags hd) F_INDIRECT).
  - destruct (nthN_error (q_ind s) head) as [[tbl|]|]; try reflexivity.
    destruct (q_num_used s =? 0); [reflexivity|].
    destruct (negb (lenN tbl =? lenN bufs)); [reflexivity|].
    destruct (unshare_ind bufs tbl) as [o evs]. reflexivity.
  - destruct (recycle_loop bufs (q_shadow s) (q_dtable s) (Some head) (q_free_head s) (q_num_used s)) as [[x|e| |] evs];
      try reflexivity.
    destruct x as [[sh dt] nu]. reflexivity.
Qed.
Lemma pop_used_size s token ins outs u_idx u_id u_len :
  q_size (snd (fst (pop_used s token ins outs u_idx u_id u_len))) = q_size s.
Proof.
  unfold pop_used. destruct (negb (can_pop s u_idx)); [reflexivity|].
  destruct (negb (w16 u_id =? token)); [reflexivity|].
  pose proof (recycle_size s (w16 u_id) (tag_bufs ins outs)) as E.
  destruct (recycle s (w16 u_id) (tag_bufs ins outs)) as [[o s1] evs]. cbn [fst snd] in E.
  destruct o; cbn [fst snd]; try exact E.
  destruct (q_event_idx s1); cbn [fst snd set_last_used q_size]; exact E.
Qed.
(* OwningQueue::poll never changes the size of its queue, in ANY state *)
Lemma owning_poll_size s bufsz u_idx u_id u_len addr ae uf hres :
  q_size (snd (fst (owning_poll s bufsz u_idx u_id u_len addr ae uf hres))) = q_size s.
Proof.
  unfold owning_poll, owning_pop. destruct (peek_used s u_idx u_id) as [token|]; [|reflexivity].
  destruct (q_size s <=? token); [reflexivity|].
  pose proof (pop_used_size s token [] [obuf token bufsz 0] u_idx u_id u_len) as E.
  destruct (pop_used s token [] [obuf token bufsz 0] u_idx u_id u_len) as [[o s1] evs]. cbn [fst snd] in E.
  destruct o as [len|e| |]; cbn [fst snd]; try exact E.
  unfold owning_readd. destruct (q_size s1 <=? token); [cbn [fst snd]; exact E|].
  pose proof (add_size s1 [] [obuf token bufsz addr] 0) as E2.
  destruct (add s1 [] [obuf token bufsz addr] 0) as [[o2 s2] evs2]. cbn [fst snd] in E2.
  destruct o2 as [tok|e| |]; cbn [fst snd]; try congruence.
  destruct (tok =? token); cbn [fst snd]; congruence.
Qed.

Definition res_class {A} (o : outcome A) : N := match o with Ok _ => 0 | Err _ => 1 | Panic => 2 | UB => 3 end.
Definition poll_has (o : outcome (option (N * N))) : N := match o with Ok (Some _) => 1 | _ => 0 end.
Definition poll_len (o : outcome (option (N * N))) : N := match o with Ok (Some (l, _)) => l | Err e => e | _ => 0 end.

(* The line scen/c19.rs writes, built from the model's poll against a device that names buffers of the queue (a
   conforming-token device: the scenario of kind 1950) and a handler answering 0 / 1 / 2:
     posted = the outstanding chains after the call; tok = the used id; exp_tok = the same id when a completion was pending
     (the harness' record of the oldest completion is what the device wrote into the ring), else 0; bytes_ok = 1 on a delivery
     (bytes are not part of Model/Owning.v: that the slice holds the device's bytes is C04's copy-back), else 0; u_len = the
     recorded length when the call delivered or failed.
   It is accepted in EVERY reachable stocked state, and the queue is stocked again. *)
Theorem mon1950_holds_of_model s chains h bufsz u_idx u_id u_len addr ae uf hres o s' evs :
  Reach s chains h -> Stocked s chains bufsz -> bufsz <> 0 -> bufsz < two32 ->
  hres <= 2 -> (q_last_used s <> w16 u_idx -> w16 u_id < q_size s) ->
  owning_poll s bufsz u_idx u_id u_len addr ae uf hres = (o, s', evs) ->
  exists chains' h', Reach s' chains' h' /\ Stocked s' chains' bufsz
    /\ mon_owning [q_size s; bufsz; lenN chains'; res_class o; poll_has o; poll_len o; w16 u_id;
                   (if q_last_used s =? w16 u_idx then 0 else w16 u_id); poll_has o;
                   (if q_last_used s =? w16 u_idx then 0 else w32 u_len); hres;
                   (if q_last_used s =? w16 u_idx then 0 else 1)] = true.
Proof.
  intros HR Hst Hb0 Hb32 Hh Hconf Hrun.
  pose proof (owning_poll_size s bufsz u_idx u_id u_len addr ae uf hres) as Hsz. rewrite Hrun in Hsz. cbn [fst snd] in Hsz.
  destruct (poll_stocked s chains h bufsz u_idx u_id u_len addr ae uf hres o s' evs HR Hst Hb0 Hb32 Hrun) as (P1 & _ & P3).
  destruct (N.eq_dec (q_last_used s) (w16 u_idx)) as [E|E].
  - destruct (P1 E) as (-> & -> & ->). exists chains, h. split; [exact HR|]. split; [exact Hst|].
    destruct Hst as [_ Hlen]. unfold mon_owning. rewrite E, !N.eqb_refl. cbn [res_class poll_has poll_len N.eqb Pos.eqb andb orb negb].
    rewrite Hlen, N.eqb_refl. reflexivity.
  - destruct (P3 E (Hconf E)) as (Eo & _ & chains' & h' & HR' & Hst'). exists chains', h'.
    split; [exact HR'|]. split; [exact Hst'|].
    destruct Hst' as [_ Hlen']. unfold mon_owning. rewrite Hlen', Hsz, N.eqb_refl. cbn [andb].
    replace (q_last_used s =? w16 u_idx) with false by (symmetry; now apply N.eqb_neq).
    subst o. destruct (N.ltb_spec bufsz (w32 u_len)) as [Hl|Hl].
    + cbn [res_class poll_has poll_len N.eqb Pos.eqb andb orb]. reflexivity.
    + unfold handler_result. destruct (N.eqb_spec hres 0) as [H0|H0].
      * cbn [res_class poll_has poll_len N.eqb Pos.eqb andb orb]. rewrite !N.eqb_refl. cbn [andb].
        apply N.leb_le in Hl. rewrite Hl. reflexivity.
      * destruct (N.eqb_spec hres 1) as [H1|H1]; cbn [res_class poll_has poll_len N.eqb Pos.eqb andb orb].
        { subst hres. cbn [N.eqb Pos.eqb andb negb]. reflexivity. }
        replace (hres =? 2) with true by lia. reflexivity.
Qed.

(* AUDIT witness: a completion was pending, the handler would have answered Some, yet the poll returned Ok(None) having
   consumed and re-posted the buffer (an event silently dropped). As first written the line had no field saying that something
   was pending and the verdict was true; the line now carries `pending` and the recorded length, and the verdict is false *)
Example mon_owning_rejects_dropped_event :
  mon_owning [4; 8; 4; 0; 0; 0; 1; 1; 0; 5; 0; 1] = false /\ mon_owning [4; 8; 4; 0; 0; 0; 1; 1; 0; 5; 1; 1] = true.
Proof. split; reflexivity. Qed.

(* ------------------------------------------------------------------------------------------------ *)
(* kind 1951 *)
Theorem mon_input_decodes ins : mon_input ins = true ->
  exists kind posted expected bytes_ok had_pending, ins = [kind; posted; expected; bytes_ok; had_pending].
Proof.
  intros H. unfold mon_input in H. destruct ins as [|x0 [|x1 [|x2 [|x3 [|x4 [|x5 r]]]]]]; try discriminate H.
  now exists x0, x1, x2, x3, x4.
Qed.

(* MEANING.  kind: what pop_pending_event did (1 handed out an event, 2 returned None; 3 panicked, 0 no driver);
   posted: buffers the device holds + completions not yet consumed, after the call; expected: the queue size;
   bytes_ok: the event is, byte for byte, the oldest unconsumed completion's buffer; had_pending: a completion was waiting *)
Theorem mon_input_meaning kind posted expected bytes_ok had_pending :
  mon_input [kind; posted; expected; bytes_ok; had_pending] = true ->
  (* the call returned (no panic), and the queue is fully stocked again *)
  (kind = 1 \/ kind = 2) /\ posted = expected
  (* an event is the oldest unconsumed completion with exactly its bytes (hence: in order, none twice) *)
  /\ (kind = 1 -> bytes_ok = 1)
  (* None only when nothing was waiting (none skipped) *)
  /\ (kind = 2 -> had_pending = 0).
Proof.
  unfold mon_input. intros H.
  destruct (N.eqb_spec kind 1) as [E1|E1]; [|destruct (N.eqb_spec kind 2) as [E2|E2]; [|discriminate H]].
  - split; [now left|]. split; [lia|]. split; [intros; lia|intros; lia].
  - split; [now right|]. split; [lia|]. split; [intros; lia|intros; lia].
Qed.

(* ------------------------------------------------------------------------------------------------ *)
(* kind 1952 (socket receive, read_header_and_body): [header.len; length of the body handed on; the body is exactly the bytes
   that follow the header in the buffer] *)
Lemma step_1952 st hl bl same : step_alloc st 1952 [hl; bl; same] = (st, [b2n ((hl =? bl) && (same =? 1))]).
Proof. reflexivity. Qed.

Theorem mon1952_meaning st hl bl same : snd (step_alloc st 1952 [hl; bl; same]) = [1] -> bl = hl /\ same = 1.
Proof. rewrite step_1952. cbn [snd]. intros H. apply b2n_true in H. lia. Qed.

Theorem mon1952_decodes st ins : snd (step_alloc st 1952 ins) = [1] -> exists hl bl same, ins = [hl; bl; same].
Proof.
  intros H. change (snd (step_alloc st 1952 ins))
    with (match ins with [hl; bl; same] => [b2n ((hl =? bl) && (same =? 1))] | _ => bad end) in H.
  destruct ins as [|x0 [|x1 [|x2 [|x3 r]]]]; try discriminate H. now exists x0, x1, x2.
Qed.

(* ------------------------------------------------------------------------------------------------ *)
(* kind 1970 *)
Theorem mon_input_pop_decodes ins : mon_input_pop ins = true ->
  exists pending inrange class has adelta head uid dlen dw disbuf n0 nother must shares unshares used_len,
    ins = [pending; inrange; class; has; adelta; head; uid; dlen; dw; disbuf; n0; nother; must; shares; unshares; used_len].
Proof.
  intros H. unfold mon_input_pop in H.
  destruct ins as [|x0 [|x1 [|x2 [|x3 [|x4 [|x5 [|x6 [|x7 [|x8 [|x9 [|x10 [|x11 [|x12 [|x13 [|x14 [|x15 [|x16 r]]]]]]]]]]]]]]]]];
    try discriminate H.
  now exists x0, x1, x2, x3, x4, x5, x6, x7, x8, x9, x10, x11, x12, x13, x14, x15.
Qed.

(* MEANING (field meanings: Extract/InputIO.v).  The verdict does not depend on used_len. *)
Theorem mon_input_pop_meaning pending inrange class has adelta head uid dlen dw disbuf n0 nother must shares unshares used_len :
  mon_input_pop [pending; inrange; class; has; adelta; head; uid; dlen; dw; disbuf; n0; nother; must; shares; unshares; used_len]
    = true ->
  (* nothing pending: None, nothing published, nobody notified, nothing shared or unshared *)
  (pending = 0 -> class = 0 /\ has = 0 /\ adelta = 0 /\ n0 = 0 /\ nother = 0 /\ shares = 0 /\ unshares = 0)
  (* an id outside event_buf: a clean panic, or a return without an event, before anything is touched *)
  /\ (pending <> 0 -> inrange = 0 ->
        (class = 2 \/ (class = 0 /\ has = 0)) /\ adelta = 0 /\ n0 = 0 /\ nother = 0 /\ shares = 0 /\ unshares = 0)
  (* a completion under a token of event_buf, for EVERY recorded length: an event is returned; exactly one new ring entry,
     naming the used id itself (same token), whose descriptor is 8 bytes, device-writable and points at a live share of
     event_buf[used id]; that buffer was unshared once and shared once; only queue 0 is ever notified, at most once, and
     it is notified when the device asked for it *)
  /\ (pending <> 0 -> inrange <> 0 ->
        class = 0 /\ has = 1 /\ adelta = 1 /\ head = uid /\ dlen = 8 /\ dw = 1 /\ disbuf = 1
        /\ nother = 0 /\ n0 <= 1 /\ (must = 1 -> n0 = 1) /\ shares = 1 /\ unshares = 1).
Proof.
  unfold mon_input_pop. intros H.
  destruct (N.eqb_spec pending 0) as [Ep|Ep].
  - split; [intros _; lia|]. split; intros; contradiction.
  - split; [intros; contradiction|].
    destruct (N.eqb_spec inrange 0) as [Ei|Ei].
    + split; [intros _ _; destruct (N.eqb_spec class 2) as [Ec|Ec]; cbn [orb] in H; [repeat split; try lia; now left|];
              destruct (N.eqb_spec class 0) as [Ec0|Ec0]; cbn [andb] in H; [|discriminate H];
              destruct (N.eqb_spec has 0) as [Eh|Eh]; cbn [andb] in H; [|discriminate H]; repeat split; try lia; right; split; assumption|].
      intros; contradiction.
    + split; [intros; contradiction|]. intros _ _.
      destruct (N.eqb_spec must 1) as [Em|Em]; cbn [implb] in H; repeat split; try lia.
Qed.

(* the verdict is the same for every recorded length *)
Theorem mon_input_pop_len_indep l1 l2 pending inrange class has adelta head uid dlen dw disbuf n0 nother must shares unshares :
  mon_input_pop [pending; inrange; class; has; adelta; head; uid; dlen; dw; disbuf; n0; nother; must; shares; unshares; l1]
  = mon_input_pop [pending; inrange; class; has; adelta; head; uid; dlen; dw; disbuf; n0; nother; must; shares; unshares; l2].
Proof. reflexivity. Qed.

(* ------------------------------------------------------------------------------------------------ *)
(* kind 1971 *)
Theorem mon_input_new_decodes ins : mon_input_new ins = true ->
  exists class posted ring_ok descs_ok early nother n0 must, ins = [class; posted; ring_ok; descs_ok; early; nother; n0; must].
Proof.
  intros H. unfold mon_input_new in H.
  destruct ins as [|x0 [|x1 [|x2 [|x3 [|x4 [|x5 [|x6 [|x7 [|x8 r]]]]]]]]]; try discriminate H.
  now exists x0, x1, x2, x3, x4, x5, x6, x7.
Qed.

(* MEANING: when new returned a driver, the device finds all 32 buffers posted (available index 32, ring slot i = i, every
   descriptor i an 8-byte device-writable live share of event_buf[i]); no notification before DRIVER_OK, none of another
   queue, at most one of queue 0 and one whenever the device asked for it.  Nothing is stated when new failed. *)
Theorem mon_input_new_meaning class posted ring_ok descs_ok early nother n0 must :
  mon_input_new [class; posted; ring_ok; descs_ok; early; nother; n0; must] = true ->
  class = 0 ->
  posted = 32 /\ ring_ok = 1 /\ descs_ok = 32 /\ early = 0 /\ nother = 0 /\ n0 <= 1 /\ (must = 1 -> n0 = 1).
Proof.
  unfold mon_input_new. intros H ->. cbn [N.eqb] in H.
  destruct (N.eqb_spec must 1) as [Em|Em]; cbn [implb] in H; repeat split; lia.
Qed.

(* ------------------------------------------------------------------------------------------------ *)
(* B. completeness of 1970 / 1971 / 1951 against Model/Input.v.
   What the harness reads out of device memory after the call is, on the model side:
     the available index the device sees  q_aidx, the ring, the descriptor table  q_dtable;
   the platform and transport logs are the event list. *)
Definition n_notify (q : N) (evs : list iev) : N :=
  lenN (filter (fun e => match e with INotify x => x =? q | _ => false end) evs).
Definition n_notify_other (evs : list iev) : N :=
  lenN (filter (fun e => match e with INotify x => negb (x =? 0) | _ => false end) evs).
Definition n_shares (evs : list iev) : N :=
  lenN (filter (fun e => match e with IQ (QShare _ _ _ _) => true | IQ (QShareTable _ _ _) => true | _ => false end) evs).
Definition n_unshares (evs : list iev) : N :=
  lenN (filter (fun e => match e with IQ (QUnshare _ _ _ _) => true | IQ (QUnshareTable _ _ _) => true | _ => false end) evs).
(* scen/c19.rs spec_must_notify: VirtIO 2.7.10 / the flag *)
Definition must_notify (event_idx : bool) (ae uf new old : N) : bool :=
  if event_idx then need_event (w16 ae) new old else N.land uf 1 =? 0.
Definition pop_has (o : outcome (option ievent)) : N := match o with Ok (Some _) => 1 | _ => 0 end.

Lemma filter_map_IQ (f : iev -> bool) (g : qev -> bool) l :
  (forall e, f (IQ e) = g e) -> lenN (filter f (map IQ l)) = lenN (filter g l).
Proof.
  intros Hfg. induction l as [|e t IH]; [reflexivity|]. cbn [map filter]. rewrite Hfg.
  destruct (g e); [rewrite !lenN_cons|]; now rewrite IH.
Qed.
Lemma filter_IQ_none (f : iev -> bool) (l : list qev) : (forall e, f (IQ e) = false) -> lenN (filter f (map IQ l)) = 0.
Proof. intros Hf. induction l as [|e r IH]; [reflexivity|]. cbn [map filter]. rewrite Hf. exact IH. Qed.
Lemma lenN_filter_app {A} (f : A -> bool) a b : lenN (filter f (a ++ b)) = lenN (filter f a) + lenN (filter f b).
Proof. rewrite filter_app. apply lenN_app. Qed.

Definition q_is_share (e : qev) : bool := match e with QShare _ _ _ _ => true | QShareTable _ _ _ => true | _ => false end.
Definition q_is_unshare (e : qev) : bool := match e with QUnshare _ _ _ _ => true | QUnshareTable _ _ _ => true | _ => false end.

Lemma shares_of_count l : lenN (filter q_is_share l) = lenN (shares_of l).
Proof.
  induction l as [|e t IH]; [reflexivity|]. unfold shares_of in *. cbn [filter flat_map q_is_share].
  destruct e; cbn [app]; rewrite ?lenN_cons, ?lenN_app; cbn [q_is_share]; rewrite ?lenN_cons; try exact IH; now rewrite IH.
Qed.
Lemma unshares_of_count l : lenN (filter q_is_unshare l) = lenN (unshares_of l).
Proof.
  induction l as [|e t IH]; [reflexivity|]. unfold unshares_of in *. cbn [filter flat_map q_is_unshare].
  destruct e; cbn [app]; rewrite ?lenN_cons, ?lenN_app; cbn [q_is_unshare]; rewrite ?lenN_cons; try exact IH; now rewrite IH.
Qed.

(* ---- what `add` does to the available ring, in ANY state ---- *)
Definition same_avail (s s' : qstate) : Prop :=
  q_size s' = q_size s /\ q_avail_idx s' = q_avail_idx s /\ q_aring s' = q_aring s /\ q_event_idx s' = q_event_idx s.

Lemma add_direct_avail s bufs : same_avail s (snd (fst (add_direct s bufs))).
Proof.
  unfold add_direct, same_avail.
  destruct (add_direct_loop bufs (q_shadow s) (q_dtable s) (q_free_head s) (q_free_head s)) as [[x|e| |] evs]; cbn [fst snd]; auto.
  destruct x as [[[sh dt] fh] last]. destruct (nthN_error sh last); cbn [fst snd set_core q_size q_avail_idx q_aring q_event_idx]; auto.
Qed.
Lemma add_indirect_avail s bufs t : same_avail s (snd (fst (add_indirect s bufs t))).
Proof.
  unfold add_indirect, same_avail. destruct (existsb _ bufs); cbn [fst snd]; auto.
  destruct (nthN_error (q_ind s) (q_free_head s)) as [[tb|]|]; cbn [fst snd]; auto.
  destruct (nthN_error (q_shadow s) (q_free_head s)); cbn [fst snd set_core q_size q_avail_idx q_aring q_event_idx]; auto.
Qed.
Lemma add_ring s ins outs t head s' evs :
  add s ins outs t = (Ok head, s', evs) ->
  q_aidx s' = w16 (q_avail_idx s + 1) /\ q_avail_idx s' = w16 (q_avail_idx s + 1)
  /\ q_aring s' = updN (q_aring s) (N.land (q_avail_idx s) (q_size s - 1)) head
  /\ q_size s' = q_size s /\ q_event_idx s' = q_event_idx s.
Proof.
  unfold add. destruct (lenN (tag_bufs ins outs) =? 0); [discriminate|].
  destruct (negb (capacity_ok s (lenN (tag_bufs ins outs)))); [discriminate|].
  assert (F : same_avail s (snd (fst (if q_indirect s && (1 <? lenN (tag_bufs ins outs))
                                      then add_indirect s (tag_bufs ins outs) t else add_direct s (tag_bufs ins outs))))).
  { destruct (q_indirect s && (1 <? lenN (tag_bufs ins outs))); [apply add_indirect_avail|apply add_direct_avail]. }
  destruct (if q_indirect s && (1 <? lenN (tag_bufs ins outs))
            then add_indirect s (tag_bufs ins outs) t else add_direct s (tag_bufs ins outs)) as [[o s1] evs1].
  cbn [fst snd] in F. destruct F as (F1 & F2 & F3 & F4).
  destruct o as [hd0|e| |]; intros H; try discriminate H. inversion H; subst head s' evs.
  cbn [set_avail q_aidx q_avail_idx q_aring q_size q_event_idx]. rewrite F1, F2, F3, F4. auto.
Qed.

(* ---- kind 1970 on the model ---- *)
(* the line of scen/c19.rs InRig::poll, every observed part read from the model: the used ring as the driver sees it
   before the call (v), the available index / ring / descriptor table the device sees after it (in_q s'), the platform and
   transport logs (evs).  disbuf: the descriptor named by the new ring entry points at the share the platform made for
   event_buf[t] during the call (iv_addr v). *)
Definition enc1970 (s : istate) (v : inview) (o : outcome (option ievent)) (s' : istate) (evs : list iev) : list N :=
  let q := in_q s in
  let q' := in_q s' in
  let t := w16 (iv_id1 v) in
  let after := q_aidx q' in
  let head := nthN (q_aring q') (sub16 after 1 mod 32) 0 in
  let d := nthN (q_dtable q') (head mod 32) zero_desc in
  [b2n (negb (q_last_used q =? w16 (iv_idx1 v))); b2n (t <? 32); res_class o; pop_has o; sub16 after (q_aidx q); head; t;
   d_len d; b2n (N.land (d_flags d) 7 =? 2); b2n ((t <? 32) && (d_addr d =? iv_addr v) && (d_len d =? 8));
   n_notify 0 evs; n_notify_other evs; b2n (must_notify (q_event_idx q') (iv_ae v) (iv_uf v) after (q_aidx q));
   n_shares evs; n_unshares evs; iv_len v].

Lemma sub16_self a : a < two16 -> sub16 a a = 0.
Proof. unfold sub16, w16, two16. intros H. lia. Qed.
Lemma sub16_succ a : a < two16 -> sub16 (w16 (a + 1)) a = 1.
Proof. unfold sub16, w16, two16. intros H. lia. Qed.
Lemma ring_slot a : sub16 (w16 (a + 1)) 1 mod 32 = a mod 32.
Proof. unfold sub16, w16, two16. lia. Qed.

Lemma Reach_aidx s chains h : Reach s chains h ->
  q_aidx s = q_avail_idx s /\ q_avail_idx s < two16 /\ lenN (q_aring s) = q_size s /\ lenN (q_dtable s) = q_size s.
Proof.
  intros HR. destruct (Reach_Inv _ _ _ HR) as [(fl & _ & _ & _ & _ & _ & _ & _ & _ & Hd & _ & Hr & Ha & Hlt & _) _]. auto.
Qed.

Lemma stocked_desc s chains h t addr :
  Reach s chains h -> In (in_chain t addr) chains ->
  exists nx, nthN_error (q_dtable s) t = Some (mkDesc addr 8 2 nx).
Proof.
  intros HR Hin. destruct (Reach_Inv _ _ _ HR) as [(fl & _ & _ & _ & _ & _ & Hch & _) _].
  rewrite Forall_forall in Hch. specialize (Hch _ Hin). unfold chain_ok, in_chain in Hch. cbn [c_tbl c_idxs c_bufs c_head] in Hch.
  destruct Hch as ((nx & Hs) & _ & Hdt). exists nx. destruct (Hdt t (or_introl eq_refl)) as [E _]. rewrite E, Hs. reflexivity.
Qed.

Lemma nthN_of_error {A} (l : list A) i x d : nthN_error l i = Some x -> nthN l i d = x.
Proof. unfold nthN_error, nthN. intros H. now apply nth_error_nth. Qed.

Lemma n_notify_nil q : n_notify q [] = 0. Proof. reflexivity. Qed.

Lemma count_pop_evs (qs : list qev) (tail : list iev) :
  (forall e, In e tail -> exists x, e = INotify x) ->
  n_shares (map IQ qs ++ tail) = lenN (shares_of qs) /\ n_unshares (map IQ qs ++ tail) = lenN (unshares_of qs)
  /\ n_notify 0 (map IQ qs ++ tail) = n_notify 0 tail /\ n_notify_other (map IQ qs ++ tail) = n_notify_other tail.
Proof.
  intros Ht. unfold n_shares, n_unshares, n_notify, n_notify_other. rewrite !lenN_filter_app.
  assert (Z : forall f : iev -> bool, (forall x, f (INotify x) = false) -> lenN (filter f tail) = 0).
  { intros f Hf. induction tail as [|e r IH]; [reflexivity|]. destruct (Ht e (or_introl eq_refl)) as [x ->].
    cbn [filter]. rewrite Hf. apply IH. intros e' He'. apply Ht. now right. }
  assert (Y : forall f : iev -> bool, (forall e, f (IQ e) = false) -> lenN (filter f (map IQ qs)) = 0).
  { intros f Hf. induction qs as [|e r IH]; [reflexivity|]. cbn [map filter]. rewrite Hf. exact IH. }
  repeat split.
  - rewrite Z by reflexivity. rewrite (filter_map_IQ _ q_is_share) by (intros e; destruct e; reflexivity).
    rewrite shares_of_count. lia.
  - rewrite Z by reflexivity. rewrite (filter_map_IQ _ q_is_unshare) by (intros e; destruct e; reflexivity).
    rewrite unshares_of_count. lia.
  - rewrite Y by reflexivity. lia.
  - rewrite Y by reflexivity. lia.
Qed.

(* COMPLETENESS of 1970: in every reachable stocked state, for every device behaviour (any index, id - inside event_buf or
   not -, recorded length, buffer contents), every share answer and all suppression words, against a device that does not
   change the used ring between the two reads of one call (the harness device never does): the line is accepted *)
Theorem mon1970_holds_of_model s chains h v o s' evs :
  Reach (in_q s) chains h -> IStocked s chains ->
  iv_idx2 v = iv_idx1 v -> iv_id2 v = iv_id1 v ->
  input_pop s v = (o, s', evs) ->
  mon_input_pop (enc1970 s v o s' evs) = true.
Proof.
  intros HR HS Ei Ed Hrun.
  destruct (Reach_aidx _ _ _ HR) as (Ha & Hlt & _ & _).
  pose proof (input_pop_stocked s chains h v o s' evs HR HS Hrun) as P. cbv zeta in P.
  destruct P as (P1 & P2 & _ & P4).
  assert (Hsub0 : sub16 (q_aidx (in_q s)) (q_aidx (in_q s)) = 0).
  { rewrite Ha. apply sub16_self. exact Hlt. }
  unfold enc1970. cbv zeta.
  destruct (N.eqb_spec (q_last_used (in_q s)) (w16 (iv_idx1 v))) as [E1|E1]; cbn [negb b2n].
  { destruct (P1 E1) as (-> & -> & ->). unfold mon_input_pop. cbn [N.eqb res_class pop_has]. rewrite Hsub0. reflexivity. }
  destruct (N.ltb_spec (w16 (iv_id1 v)) 32) as [E2|E2]; cbn [b2n].
  2:{ destruct (P2 E1 E2) as (-> & -> & ->). unfold mon_input_pop. cbn [N.eqb Pos.eqb res_class pop_has]. rewrite Hsub0. reflexivity. }
  set (t := w16 (iv_id1 v)) in *.
  destruct (P4 E1 E2 ltac:(now rewrite Ei) ltac:(now rewrite Ed)) as
    (pre & c & post & a & q2 & evs_add & -> & Hhead & Hcb & -> & -> & -> & (q1 & Hadd) & Hsh & Hun & Hlu & Hai & (h' & HR2) & HS2).
  cbn [in_q].
  destruct (Reach_aidx _ _ _ HR2) as (Ha2 & Hlt2 & Hlr2 & Hld2).
  destruct HS2 as (_ & Hsz2 & _). cbn [in_q] in Hsz2. unfold IN_QSIZE in Hsz2.
  destruct (add_ring _ _ _ _ _ _ _ Hadd) as (Hx1 & Hx2 & Hring & Hxs & _).
  (* the ring entry the device finds at (available index - 1) mod 32 is t *)
  assert (Hslot : sub16 (q_aidx q2) 1 mod 32 = N.land (q_avail_idx q1) (q_size q1 - 1)).
  { rewrite Hx1, <- Hxs, Hsz2. change (32 - 1) with (N.ones 5). rewrite N.land_ones. change (2 ^ 5) with 32.
    apply ring_slot. }
  assert (Hhd : nthN (q_aring q2) (sub16 (q_aidx q2) 1 mod 32) 0 = t).
  { rewrite Hslot, Hring. apply nthN_of_error. apply nthN_updN_eq.
    assert (L : lenN (q_aring q2) = lenN (q_aring q1)) by (rewrite Hring; apply lenN_updN).
    rewrite <- L, Hlr2, Hsz2. rewrite <- Hxs, Hsz2. change (32 - 1) with (N.ones 5). rewrite N.land_ones. change (2 ^ 5) with 32.
    apply N.mod_lt. discriminate. }
  rewrite Hhd. replace (t mod 32) with t by (symmetry; apply N.mod_small; exact E2).
  destruct (stocked_desc q2 _ h' t (iv_addr v) HR2 ltac:(apply in_or_app; right; now left)) as (nx & Hd).
  rewrite (nthN_of_error _ _ _ zero_desc Hd). cbn [d_len d_flags d_addr].
  (* the logs *)
  set (qs := [QStoreDesc t (mkDesc 0 0 (0 + wflag true) (q_free_head (in_q s))); QUnshare a t IN_EV_SIZE true]
             ++ (if q_event_idx (in_q s) then [QStoreUsedEvent (w16 (q_last_used (in_q s) + 1))] else []) ++ evs_add).
  set (tail := if should_notify q2 (iv_ae v) (iv_uf v) then [INotify IN_Q_EVENT] else []).
  destruct (count_pop_evs qs tail) as (C1 & C2 & C3 & C4).
  { intros e He. unfold tail in He. destruct (should_notify q2 (iv_ae v) (iv_uf v)); [|contradiction].
    destruct He as [<-|[]]. now exists IN_Q_EVENT. }
  rewrite C1, C2, C3, C4.
  assert (S1 : lenN (shares_of qs) = 1).
  { unfold qs. rewrite !shares_of_app, Hsh. destruct (q_event_idx (in_q s)); reflexivity. }
  assert (U1 : lenN (unshares_of qs) = 1).
  { unfold qs. rewrite !unshares_of_app, Hun. destruct (q_event_idx (in_q s)); reflexivity. }
  rewrite S1, U1.
  assert (Hdelta : sub16 (q_aidx q2) (q_aidx (in_q s)) = 1).
  { rewrite Ha2, Hai, Ha. apply sub16_succ. exact Hlt. }
  rewrite Hdelta.
  unfold mon_input_pop. cbn [N.eqb Pos.eqb res_class pop_has b2n andb].
  rewrite !N.eqb_refl. replace (t <? 32) with true by lia. cbn [andb b2n N.eqb Pos.eqb].
  change (N.land 2 7 =? 2) with true. cbn [b2n N.eqb Pos.eqb andb].
  (* the notification *)
  assert (Hno : n_notify_other tail = 0 /\ n_notify 0 tail = (if should_notify q2 (iv_ae v) (iv_uf v) then 1 else 0)).
  { unfold tail. destruct (should_notify q2 (iv_ae v) (iv_uf v)); split; reflexivity. }
  destruct Hno as [-> ->].
  assert (Hmust : must_notify (q_event_idx q2) (iv_ae v) (iv_uf v) (q_aidx q2) (q_aidx (in_q s)) = true ->
                  should_notify q2 (iv_ae v) (iv_uf v) = true).
  { unfold must_notify. destruct (q_event_idx q2) eqn:Eev.
    - intros Hn. apply (event_mode q2 (iv_ae v) (iv_uf v) (q_aidx (in_q s)) Eev Hlt2).
      + rewrite Ha. exact Hlt.
      + rewrite <- Ha2, Hdelta. lia.
      + rewrite <- Ha2. exact Hn.
    - intros Hn. rewrite (flag_mode q2 _ _ Eev). exact Hn. }
  destruct (must_notify (q_event_idx q2) (iv_ae v) (iv_uf v) (q_aidx q2) (q_aidx (in_q s))) eqn:Em; cbn [b2n N.eqb Pos.eqb implb].
  - rewrite (Hmust eq_refl). reflexivity.
  - destruct (should_notify q2 (iv_ae v) (iv_uf v)); reflexivity.
Qed.

(* ---- kind 1951 on the model: the caller's side of one pop_pending_event against a device that names buffers of the queue
   and keeps the used ring still during the call.  Either nothing was pending, None came back and the line is
   [2; posted; 32; 1; 0]; or the event is exactly what event_buf[token] held after the copy-back (so the harness' byte
   comparison gives 1) and the line is [1; posted; 32; 1; 1]; posted = the outstanding chains afterwards. *)
Theorem mon1951_holds_of_model s chains h v o s' evs :
  Reach (in_q s) chains h -> IStocked s chains ->
  iv_idx2 v = iv_idx1 v -> iv_id2 v = iv_id1 v ->
  (q_last_used (in_q s) <> w16 (iv_idx1 v) -> w16 (iv_id1 v) < IN_QSIZE) ->
  input_pop s v = (o, s', evs) ->
  exists chains' h', Reach (in_q s') chains' h' /\ IStocked s' chains'
    /\ ((q_last_used (in_q s) = w16 (iv_idx1 v) /\ o = Ok None /\ mon_input [2; lenN chains'; IN_QSIZE; 1; 0] = true)
        \/ (q_last_used (in_q s) <> w16 (iv_idx1 v) /\ o = Ok (Some (in_ev_of_bytes (firstn 8 (iv_wr v))))
            /\ mon_input [1; lenN chains'; IN_QSIZE; 1; 1] = true)).
Proof.
  intros HR HS Ei Ed Hconf Hrun.
  pose proof (input_pop_stocked s chains h v o s' evs HR HS Hrun) as P. cbv zeta in P.
  destruct P as (P1 & _ & _ & P4).
  assert (Hmon : forall k c' (s2 : istate), IStocked s2 c' -> (k = 1 \/ k = 2) ->
                 mon_input [k; lenN c'; IN_QSIZE; 1; (if k =? 1 then 1 else 0)] = true).
  { intros k c' s2 ((_ & Hl) & Hq & _) Hk. rewrite Hl, Hq. destruct Hk as [-> | ->]; reflexivity. }
  destruct (N.eq_dec (q_last_used (in_q s)) (w16 (iv_idx1 v))) as [E1|E1].
  - destruct (P1 E1) as (-> & -> & ->). exists chains, h. split; [exact HR|]. split; [exact HS|]. left.
    split; [exact E1|]. split; [reflexivity|]. exact (Hmon 2 chains s HS (or_intror eq_refl)).
  - destruct (P4 E1 (Hconf E1) ltac:(now rewrite Ei) ltac:(now rewrite Ed)) as
      (pre & c & post & a & q2 & evs_add & -> & _ & _ & -> & -> & _ & _ & _ & _ & _ & _ & (h' & HR2) & HS2).
    eexists; exists h'. split; [exact HR2|]. split; [exact HS2|]. right.
    split; [exact E1|]. split; [reflexivity|]. exact (Hmon 1 _ _ HS2 (or_introl eq_refl)).
Qed.

(* ---- kind 1971 on the model ---- *)
Fixpoint before_ok (l : list iev) : list iev :=
  match l with [] => [] | IDriverOk :: _ => [] | e :: r => e :: before_ok r end.
Definition n_early (evs : list iev) : N :=
  lenN (filter (fun e => match e with INotify _ => true | _ => false end) (before_ok evs)).

(* scen/c19.rs InRig::new: [class; available index; slot i holds i for i < 32; descriptors i that are 8 bytes, device-writable
   (flags & 7 = 2) and point at the share the platform made for event_buf[i] (the i-th share answer); notifications before
   DRIVER_OK; of other queues; of queue 0; VirtIO 2.7.10 / flag asks for one] *)
Definition enc1971 (addrs : list N) (ae uf : N) (o : outcome unit) (s : istate) (evs : list iev) : list N :=
  let q := in_q s in
  [res_class o; q_aidx q;
   b2n (forallb (fun i => nthN (q_aring q) i 0 =? i) (seqN 0 32));
   lenN (filter (fun i => let d := nthN (q_dtable q) i zero_desc in
                          (d_len d =? 8) && (N.land (d_flags d) 7 =? 2) && (d_addr d =? nth (N.to_nat i) addrs 0)) (seqN 0 32));
   n_early evs; n_notify_other evs; n_notify 0 evs; b2n (must_notify (q_event_idx q) ae uf (q_aidx q) 0)].

Lemma post_loop_ring : forall k i addrs s s' evs,
  input_post_loop k i addrs s = (Ok tt, s', evs) ->
  q_size s = 32 -> lenN (q_aring s) = 32 -> q_avail_idx s = i -> i + N.of_nat k <= 32 ->
  (forall j, j < i -> nthN (q_aring s) j 0 = j) ->
  forall j, j < i + N.of_nat k -> nthN (q_aring s') j 0 = j.
Proof.
  induction k as [|k IH]; intros i addrs s s' evs Hrun Hsz Hlen Hai Hb Hpre j Hj.
  - cbn [input_post_loop] in Hrun. inversion Hrun; subst. apply Hpre. lia.
  - cbn [input_post_loop] in Hrun.
    destruct (add s [] [in_ebuf i (hd 0 addrs)] 0) as [[o1 s1] evs1] eqn:Hadd.
    destruct o1 as [tok|e| |]; try discriminate Hrun.
    destruct (N.eqb_spec tok i) as [->|_]; [|discriminate Hrun].
    destruct (input_post_loop k (i + 1) (tl addrs) s1) as [[o2 s2] evs2] eqn:Hloop.
    inversion Hrun; subst o2 s2 evs. clear Hrun.
    destruct (add_ring _ _ _ _ _ _ _ Hadd) as (_ & Hx2 & Hring & Hxs & _).
    assert (Hslot : N.land (q_avail_idx s) (q_size s - 1) = i).
    { rewrite Hai, Hsz. change (32 - 1) with (N.ones 5). rewrite N.land_ones. change (2 ^ 5) with 32. apply N.mod_small. lia. }
    rewrite Hslot in Hring.
    assert (G1 : q_size s1 = 32) by (now rewrite Hxs).
    assert (G2 : lenN (q_aring s1) = 32) by (rewrite Hring, lenN_updN; exact Hlen).
    assert (G3 : q_avail_idx s1 = i + 1) by (rewrite Hx2, Hai; unfold w16; apply N.mod_small; lia).
    assert (G4 : i + 1 + N.of_nat k <= 32) by lia.
    assert (G5 : forall j', j' < i + 1 -> nthN (q_aring s1) j' 0 = j').
    { intros j' Hj'. rewrite Hring. destruct (N.eq_dec j' i) as [->|Hne].
      - apply nthN_of_error. apply nthN_updN_eq. lia.
      - pose proof (nthN_updN_neq (q_aring s) i j' i (not_eq_sym Hne)) as E. unfold nthN_error in E.
        assert (L : (N.to_nat j' < length (q_aring s))%nat) by (unfold lenN in Hlen; lia).
        assert (L' : (N.to_nat j' < length (updN (q_aring s) i i))%nat) by (unfold updN; rewrite upd_length; exact L).
        rewrite (nth_error_nth' _ 0 L'), (nth_error_nth' _ 0 L) in E. inversion E as [E']. unfold nthN. rewrite E'.
        apply (Hpre j'). lia. }
    apply (IH (i + 1) (tl addrs) s1 s' evs2 Hloop G1 G2 G3 G4 G5). lia.
Qed.

Lemma filter_all {A} (f : A -> bool) l : forallb f l = true -> filter f l = l.
Proof.
  induction l as [|x t IH]; [reflexivity|]. cbn [forallb filter]. intros H. apply andb_prop in H. destruct H as [H1 H2].
  rewrite H1, IH by exact H2. reflexivity.
Qed.

Lemma before_ok_map l tail : before_ok (map IQ l ++ IDriverOk :: tail) = map IQ l.
Proof. induction l as [|e t IH]; [reflexivity|]. cbn [map app before_ok]. now rewrite IH. Qed.

(* COMPLETENESS of 1971: VirtIOInput::new as the code runs it (indices from 0), for every feature choice, every share answer
   and all suppression words: the constructor returns a driver and the line is accepted *)
Theorem mon1971_holds_of_model ind ev addrs poison ae uf :
  exists s evs, input_new ind ev 0 addrs poison ae uf = (Ok tt, s, evs)
    /\ mon_input_new (enc1971 addrs ae uf (Ok tt) s evs) = true.
Proof.
  destruct (input_new_stocked ind ev 0 addrs poison ae uf ltac:(reflexivity)) as (s & qevs & Hrun & HR & HS & Hai & Hlu).
  eexists; eexists. split; [exact Hrun|].
  destruct (Reach_aidx _ _ _ HR) as (Ha & Hlt & Hlr & Hld).
  destruct HS as (_ & Hsz & _). unfold IN_QSIZE in Hsz.
  change (w16 (0 + IN_QSIZE)) with 32 in Hai.
  (* the ring: replay the posting loop *)
  assert (Hring : forall j, j < 32 -> nthN (q_aring (in_q s)) j 0 = j).
  { unfold input_new in Hrun.
    destruct (input_post_loop IN_QSIZE_nat 0 addrs (qset_indices (qnew IN_QSIZE ind ev) 0)) as [[o q] qe] eqn:Hloop.
    destruct o as [[]|e| |]; try discriminate Hrun.
    assert (Eq : q = in_q s) by (inversion Hrun; reflexivity). subst q.
    intros j Hj. apply (post_loop_ring IN_QSIZE_nat 0 addrs _ _ _ Hloop); try reflexivity; try (intros; lia).
    exact Hj. }
  assert (Hdesc : forall j, j < 32 -> exists nx, nthN_error (q_dtable (in_q s)) j = Some (mkDesc (nth (N.to_nat j) addrs 0) 8 2 nx)).
  { intros j Hj. apply (stocked_desc (in_q s) _ qevs j (nth (N.to_nat j) addrs 0) HR).
    apply (nth_error_In _ (N.to_nat j)). rewrite in_posted_nth by (unfold IN_QSIZE_nat; lia).
    rewrite N2Nat.id. reflexivity. }
  unfold enc1971. cbv zeta. unfold mon_input_new. cbn [res_class N.eqb].
  rewrite Ha, Hai. cbn [N.eqb Pos.eqb andb].
  assert (R1 : forallb (fun i => nthN (q_aring (in_q s)) i 0 =? i) (seqN 0 32) = true).
  { apply forallb_forall. intros i Hi. apply seqN_in in Hi. apply N.eqb_eq. apply Hring. lia. }
  rewrite R1. cbn [b2n N.eqb Pos.eqb andb].
  rewrite filter_all.
  2:{ apply forallb_forall. intros i Hi. apply seqN_in in Hi. destruct (Hdesc i ltac:(lia)) as (nx & Hd).
      rewrite (nthN_of_error _ _ _ zero_desc Hd). cbn [d_len d_flags d_addr]. rewrite !N.eqb_refl. reflexivity. }
  change (lenN (seqN 0 32) =? 32) with true. cbn [andb].
  unfold n_early. rewrite before_ok_map.
  set (tail := if should_notify (in_q s) ae uf then [INotify IN_Q_EVENT] else []).
  assert (Y : forall f : iev -> bool, (forall e, f (IQ e) = false) -> lenN (filter f (map IQ qevs)) = 0)
    by (intros f Hf; now apply filter_IQ_none).
  rewrite Y by reflexivity. cbn [N.eqb andb].
  unfold n_notify_other, n_notify. rewrite !lenN_filter_app, !Y by reflexivity. cbn [filter]. fold tail.
  assert (Hno : lenN (filter (fun e => match e with INotify x => negb (x =? 0) | _ => false end) tail) = 0
                /\ lenN (filter (fun e => match e with INotify x => x =? 0 | _ => false end) tail)
                   = (if should_notify (in_q s) ae uf then 1 else 0)).
  { unfold tail. destruct (should_notify (in_q s) ae uf); split; reflexivity. }
  destruct Hno as [-> ->]. cbn [N.add N.eqb andb].
  assert (Hmust : must_notify (q_event_idx (in_q s)) ae uf 32 0 = true -> should_notify (in_q s) ae uf = true).
  { unfold must_notify. destruct (q_event_idx (in_q s)) eqn:Eev.
    - intros Hn. apply (event_mode (in_q s) ae uf 0 Eev Hlt); [reflexivity| |now rewrite Hai].
      rewrite Hai. vm_compute. split; discriminate.
    - intros Hn. rewrite (flag_mode _ _ _ Eev). exact Hn. }
  destruct (must_notify (q_event_idx (in_q s)) ae uf 32 0) eqn:Em; cbn [b2n N.eqb Pos.eqb implb].
  - rewrite (Hmust eq_refl). reflexivity.
  - destruct (should_notify (in_q s) ae uf); reflexivity.
Qed.

(* ------------------------------------------------------------------------------------------------ *)
(* AUDIT witnesses (machine-checked; discussed in the builder's report)                              *)
(* 1970 accepts a graceful refusal of a used id outside event_buf: a driver that ignores such a completion and returns None,
   touching nothing, ends "in a normal result" as C07 allows. (As first written the monitor demanded the PANIC input.rs produces
   and rejected this line; the clause was relaxed to "a clean panic or a return without an event".) *)
Example mon1970_accepts_graceful_refusal :
  mon_input_pop [1; 0; 0; 0; 0; 0; 40; 0; 0; 0; 0; 0; 0; 0; 0; 0] = true.
Proof. reflexivity. Qed.
(* 1971 states nothing when new did not return a driver: on the honest device of the scenario a failing constructor passes *)
Example mon1971_accepts_failed_new : mon_input_new [1; 0; 0; 0; 0; 0; 0; 0] = true.
Proof. reflexivity. Qed.
