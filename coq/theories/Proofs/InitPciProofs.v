(* C08 on the real PCI transport: the accesses PciTransport performs for the transport calls of every     *)
(* constructor (Model/InitPci.v lower_pci, built on the C11 access model Model/Pci.v exec), decoded by the  *)
(* specification's reading of virtio_pci_common_cfg (lift_pci), are the constructor's handshake events     *)
(* again; hence the initialisation automaton accepts them and the PCI access rules hold.                    *)
From Coq Require Import ZArith Lia ZifyBool ZifyN.
From VD Require Import Base.Words Model.Layout Model.Init Model.InitSpec Model.InitPci Proofs.InitProofs.
From VD Require Model.Pci Model.Config.
Ltac Zify.zify_post_hook ::= Z.div_mod_to_equations.

(* ---------------------------------------------------------------------------------------------- *)
(* plumbing                                                                                        *)
Lemma paccs_of_app : forall l1 l2, paccs_of (l1 ++ l2) = paccs_of l1 ++ paccs_of l2.
Proof. intros. unfold paccs_of. rewrite map_app, concat_app. reflexivity. Qed.

Lemma paccs_of_pacc : forall l, paccs_of (map PAcc l) = l.
Proof. induction l as [|a t IH]; [reflexivity|]. unfold paccs_of in *. cbn [map concat app]. rewrite IH. reflexivity. Qed.

Lemma paccs_of_rel : forall l, paccs_of (map (fun a => PAcc (rel a)) l) = map rel l.
Proof. induction l as [|a t IH]; [reflexivity|]. unfold paccs_of in *. cbn [map concat app]. rewrite IH. reflexivity. Qed.

Fixpoint lift_state_pci (mult : N) (s : pst) (l : list pacc) : pst :=
  match l with
  | [] => s
  | a :: t => lift_state_pci mult (fst (fst (lift1_pci mult s a))) t
  end.

Lemma lift_pci_app : forall mult l1 l2 s,
  lift_pci mult s (l1 ++ l2) = lift_pci mult s l1 ++ lift_pci mult (lift_state_pci mult s l1) l2.
Proof.
  induction l1 as [|a t IH]; intros l2 s; [reflexivity|].
  cbn [app lift_pci lift_state_pci]. destruct (lift1_pci mult s a) as [[s' ev] ok]. cbn [fst].
  rewrite IH, app_assoc. reflexivity.
Qed.

Lemma order_ok_pci_app : forall mult l1 l2 s,
  order_ok_pci mult s (l1 ++ l2) = order_ok_pci mult s l1 && order_ok_pci mult (lift_state_pci mult s l1) l2.
Proof.
  induction l1 as [|a t IH]; intros l2 s; [reflexivity|].
  cbn [app order_ok_pci lift_state_pci]. destruct (lift1_pci mult s a) as [[s' ev] ok]. cbn [fst].
  rewrite IH, andb_assoc. reflexivity.
Qed.

Lemma lift_state_pci_app : forall mult l1 l2 s,
  lift_state_pci mult s (l1 ++ l2) = lift_state_pci mult (lift_state_pci mult s l1) l2.
Proof. induction l1 as [|a t IH]; intros l2 s; [reflexivity|]. cbn [app lift_state_pci]. apply IH. Qed.

(* between two Transport calls the decoder holds no half of a feature word *)
Definition clean (s : pst) : bool :=
  match ps_dlo s, ps_dhi s, ps_flo s, ps_fhi s with
  | None, None, None, None => true
  | _, _, _, _ => false
  end.

(* the canonical transport: its windows start at multiples of 2^48; the multiplier is even (PciTransport::new
   refuses an odd one, C11_windows) and the notification window is at most 2^47 elements long (its length is a
   32-bit number of bytes) *)
Definition pe_ok (pe : penv) : bool := (pe_mult pe mod 2 =? 0) && (pe_nlen pe <=? 140737488355328).

(* ---------------------------------------------------------------------------------------------- *)
(* what the decoder reads back from the accesses of one Transport call                             *)
Definition norm_ev (e : tev) : list tev :=
  match e with
  | TSetStatus s => [TSetStatus (w8 s)]
  | TReadFeatures a => [TReadFeatures (w32 (w32 a) + 4294967296 * w32 (N.shiftr a 32))]
  | TWriteFeatures f => [TWriteFeatures (w32 f + 4294967296 * w32 (N.shiftr f 32))]
  | TQueueSet q n d a u =>
      [TQueueSet q (w16 n) (w32 d + 4294967296 * N.shiftr d 32) (w32 a + 4294967296 * N.shiftr a 32)
                 (w32 u + 4294967296 * N.shiftr u 32)]
  | TNotify q => [TNotify q]
  | _ => []
  end.

Ltac unfold_lift :=
  cbn [lift_pci order_ok_pci lift_state_pci lift1_pci common_step plain_read put_half both val64 oval
       p_win p_write p_off p_width p_val N.eqb Pos.eqb andb orb negb
       WIN_COMMON WIN_NOTIFY WIN_ISR WIN_DEVICE set_q ps_dsel ps_dlo ps_dhi ps_fsel ps_flo ps_fhi ps_qsel ps_qs ps_noff
       fst snd app qget noff_get clean].

Definition QS (q n d a u : N) : list pacc :=
  [mkP 0 true 22 2 q; mkP 0 true 24 2 n; mkP 0 true 32 8 d; mkP 0 true 40 8 a; mkP 0 true 48 8 u; mkP 0 true 28 2 1].

Lemma lift_queue_set : forall mult s q n d a u,
  lift_pci mult s (QS q n d a u)
  = [TQueueSet q n (w32 d + 4294967296 * N.shiftr d 32) (w32 a + 4294967296 * N.shiftr a 32)
               (w32 u + 4294967296 * N.shiftr u 32)]
  /\ order_ok_pci mult s (QS q n d a u) = true
  /\ clean (lift_state_pci mult s (QS q n d a u)) = clean s.
Proof.
  intros. destruct s as [dsel dlo dhi fsel flo fhi qsel qs noffs]. unfold QS. unfold_lift.
  rewrite !N.eqb_refl. cbn [qr_size qr_dlo qr_dhi qr_alo qr_ahi qr_ulo qr_uhi oval val64 both andb].
  repeat split; reflexivity.
Qed.

(* accesses to the device-specific configuration window carry no handshake event *)
Lemma lift_device : forall mult l s,
  forallb (fun a => p_win a =? WIN_DEVICE) l = true ->
  lift_pci mult s l = [] /\ order_ok_pci mult s l = true /\ lift_state_pci mult s l = s.
Proof.
  induction l as [|a t IH]; intros s H; [repeat split; reflexivity|].
  cbn [forallb] in H. apply andb_prop in H. destruct H as [Ha Ht]. apply N.eqb_eq in Ha.
  cbn [lift_pci order_ok_pci lift_state_pci]. unfold lift1_pci. rewrite Ha.
  cbn [WIN_DEVICE WIN_COMMON WIN_NOTIFY WIN_ISR N.eqb Pos.eqb fst snd app andb].
  exact (IH s Ht).
Qed.

Lemma cfg_accesses_pci_device : forall pe cfg off len,
  forallb (fun a => p_win a =? WIN_DEVICE) (cfg_accesses_pci pe cfg off len) = true.
Proof.
  intros. unfold cfg_accesses_pci. induction (Config.chunks (pe_cfg_va pe + off) off len) as [|c t IH]; [reflexivity|].
  cbn [map forallb p_win]. rewrite IH. reflexivity.
Qed.

(* the notification: queue_select, queue_notify_off, then the 16-bit write at that offset times the multiplier *)
Lemma rel_notify : forall i q, 2 * i < WB ->
  rel (Pci.MW (WIN_NOTIFY * WB + 2 * i) 2 q) = mkP WIN_NOTIFY true (2 * i) 2 q.
Proof.
  intros i q Hi. unfold rel, Pci.MW. cbn [Pci.m_addr Pci.m_write Pci.m_width Pci.m_val].
  unfold WIN_NOTIFY, WB in *. f_equal.
  - symmetry. apply (N.div_unique _ _ 1 (2 * i)); lia.
  - symmetry. apply (N.mod_unique _ _ 1 (2 * i)); lia.
Qed.

Lemma lift_notify : forall m pe q s,
  pe_ok pe = true ->
  let r := Pci.exec m (canon_t pe) (Pci.ONotify q) [noff_of (pe_noff pe) q] in
  let l := map rel (snd r) in
  lift_pci (pe_mult pe) s l = (match fst r with Ok _ => [TNotify q] | _ => [] end)
  /\ order_ok_pci (pe_mult pe) s l = true
  /\ clean (lift_state_pci (pe_mult pe) s l) = clean s.
Proof.
  intros m pe q s Hpe. apply andb_prop in Hpe. destruct Hpe as [Hm Hn]. apply N.eqb_eq in Hm. apply N.leb_le in Hn.
  destruct s as [dsel dlo dhi fsel flo fhi qsel qs noffs].
  cbn [Pci.exec]. unfold Pci.ans16. cbn [nth].
  cbn [canon_t Pci.t_common Pci.t_notify Pci.t_notify_len Pci.t_mult].
  set (off := w16 (noff_of (pe_noff pe) q)).
  destruct (off * pe_mult pe / 2 <? pe_nlen pe) eqn:Hi; cbn [fst snd map app].
  - apply N.ltb_lt in Hi.
    change (rel (Pci.MW (WIN_COMMON * WB + Pci.c_queue_select) 2 q)) with (mkP 0 true 22 2 q).
    change (rel (Pci.MR (WIN_COMMON * WB + Pci.c_queue_notify_off) 2 off)) with (mkP 0 false 30 2 off).
    rewrite rel_notify by (unfold WB; lia).
    unfold_lift. rewrite !N.eqb_refl.
    assert (He : 2 * (off * pe_mult pe / 2) = off * pe_mult pe).
    { assert (Hx : (off * pe_mult pe) mod 2 = 0).
      { rewrite N.mul_mod by discriminate. rewrite Hm, N.mul_0_r. reflexivity. }
      pose proof (N.div_mod (off * pe_mult pe) 2) as Hd. lia. }
    rewrite He, N.eqb_refl. repeat split; reflexivity.
  - change (rel (Pci.MW (WIN_COMMON * WB + Pci.c_queue_select) 2 q)) with (mkP 0 true 22 2 q).
    change (rel (Pci.MR (WIN_COMMON * WB + Pci.c_queue_notify_off) 2 off)) with (mkP 0 false 30 2 off).
    unfold_lift. repeat split; reflexivity.
Qed.

(* one Transport call: the decoder reads its accesses back as the call (values truncated to the register
   widths); a notification that panics performed no write to the notification window *)
Lemma lift_lower1_pci : forall m pe cfg e s,
  pe_ok pe = true -> clean s = true ->
  let l := paccs_of (snd (lower1_pci m pe cfg e)) in
  lift_pci (pe_mult pe) s l = (if fst (lower1_pci m pe cfg e) then [] else norm_ev e)
  /\ order_ok_pci (pe_mult pe) s l = true
  /\ clean (lift_state_pci (pe_mult pe) s l) = true.
Proof.
  intros m pe cfg e s Hpe Hc.
  destruct e; cbn [lower1_pci fst snd norm_ev]; unfold pacc_of; rewrite ?paccs_of_rel, ?paccs_of_pacc.
  - (* set_status *)
    destruct s as [dsel dlo dhi fsel flo fhi qsel qs noffs]. cbn [Pci.exec snd map].
    change (rel (Pci.MW (Pci.t_common (canon_t pe) + Pci.c_device_status) 1 (w8 s0))) with (mkP 0 true 20 1 (w8 s0)).
    unfold_lift. repeat split; try reflexivity. destruct (w8 s0 =? 0); [reflexivity|exact Hc].
  - (* read_device_features *)
    destruct s as [dsel dlo dhi fsel flo fhi qsel qs noffs]. unfold clean in Hc. cbn [ps_dlo ps_dhi ps_flo ps_fhi] in Hc.
    destruct dlo; [discriminate Hc|]. destruct dhi; [discriminate Hc|]. destruct flo; [discriminate Hc|]. destruct fhi; [discriminate Hc|].
    cbn [Pci.exec snd map]. unfold Pci.ans32. cbn [nth].
    change (rel (Pci.MW (Pci.t_common (canon_t pe) + Pci.c_device_feature_select) 4 0)) with (mkP 0 true 0 4 0).
    change (rel (Pci.MW (Pci.t_common (canon_t pe) + Pci.c_device_feature_select) 4 1)) with (mkP 0 true 0 4 1).
    change (rel (Pci.MR (Pci.t_common (canon_t pe) + Pci.c_device_feature) 4 (w32 (w32 answer))))
      with (mkP 0 false 4 4 (w32 (w32 answer))).
    change (rel (Pci.MR (Pci.t_common (canon_t pe) + Pci.c_device_feature) 4 (w32 (N.shiftr answer 32))))
      with (mkP 0 false 4 4 (w32 (N.shiftr answer 32))).
    unfold_lift. repeat split; reflexivity.
  - (* write_driver_features *)
    destruct s as [dsel dlo dhi fsel flo fhi qsel qs noffs]. unfold clean in Hc. cbn [ps_dlo ps_dhi ps_flo ps_fhi] in Hc.
    destruct dlo; [discriminate Hc|]. destruct dhi; [discriminate Hc|]. destruct flo; [discriminate Hc|]. destruct fhi; [discriminate Hc|].
    cbn [Pci.exec snd map].
    change (rel (Pci.MW (Pci.t_common (canon_t pe) + Pci.c_driver_feature_select) 4 0)) with (mkP 0 true 8 4 0).
    change (rel (Pci.MW (Pci.t_common (canon_t pe) + Pci.c_driver_feature_select) 4 1)) with (mkP 0 true 8 4 1).
    change (rel (Pci.MW (Pci.t_common (canon_t pe) + Pci.c_driver_feature) 4 (w32 f))) with (mkP 0 true 12 4 (w32 f)).
    change (rel (Pci.MW (Pci.t_common (canon_t pe) + Pci.c_driver_feature) 4 (w32 (N.shiftr f 32))))
      with (mkP 0 true 12 4 (w32 (N.shiftr f 32))).
    unfold_lift. repeat split; reflexivity.
  - (* set_guest_page_size: no access *)
    cbn [Pci.exec snd map]. repeat split; try reflexivity. exact Hc.
  - (* TQueueNew: kept *) cbn [paccs_of map concat]. repeat split; try reflexivity. exact Hc.
  - (* queue_used *)
    destruct s as [dsel dlo dhi fsel flo fhi qsel qs noffs]. cbn [Pci.exec snd map]. unfold Pci.ans16. cbn [nth].
    change (rel (Pci.MW (Pci.t_common (canon_t pe) + Pci.c_queue_select) 2 q)) with (mkP 0 true 22 2 q).
    change (rel (Pci.MR (Pci.t_common (canon_t pe) + Pci.c_queue_enable) 2 (w16 (b2n answer))))
      with (mkP 0 false 28 2 (w16 (b2n answer))).
    unfold_lift. repeat split; try reflexivity. exact Hc.
  - (* max_queue_size *)
    destruct s as [dsel dlo dhi fsel flo fhi qsel qs noffs]. cbn [Pci.exec snd map]. unfold Pci.ans16. cbn [nth].
    change (rel (Pci.MW (Pci.t_common (canon_t pe) + Pci.c_queue_select) 2 q)) with (mkP 0 true 22 2 q).
    change (rel (Pci.MR (Pci.t_common (canon_t pe) + Pci.c_queue_size) 2 (w16 answer))) with (mkP 0 false 24 2 (w16 answer)).
    unfold_lift. repeat split; try reflexivity. exact Hc.
  - (* TAlloc: kept *) cbn [paccs_of map concat]. repeat split; try reflexivity. exact Hc.
  - (* queue_set *)
    cbn [Pci.exec snd map].
    change (rel (Pci.MW (Pci.t_common (canon_t pe) + Pci.c_queue_select) 2 q)) with (mkP 0 true 22 2 q).
    change (rel (Pci.MW (Pci.t_common (canon_t pe) + Pci.c_queue_size) 2 (w16 size))) with (mkP 0 true 24 2 (w16 size)).
    change (rel (Pci.MW (Pci.t_common (canon_t pe) + Pci.c_queue_desc) 8 desc)) with (mkP 0 true 32 8 desc).
    change (rel (Pci.MW (Pci.t_common (canon_t pe) + Pci.c_queue_driver) 8 drv)) with (mkP 0 true 40 8 drv).
    change (rel (Pci.MW (Pci.t_common (canon_t pe) + Pci.c_queue_device) 8 dev)) with (mkP 0 true 48 8 dev).
    change (rel (Pci.MW (Pci.t_common (canon_t pe) + Pci.c_queue_enable) 2 1)) with (mkP 0 true 28 2 1).
    destruct (lift_queue_set (pe_mult pe) s q (w16 size) desc drv dev) as [H1 [H2 H3]]. unfold QS in *.
    rewrite H1, H2, H3. repeat split; try reflexivity. exact Hc.
  - (* read_config_generation *)
    destruct s as [dsel dlo dhi fsel flo fhi qsel qs noffs].
    change (Config.gen_off Config.TPci) with 21. change (Config.gen_width Config.TPci) with 1.
    unfold_lift. repeat split; try reflexivity. exact Hc.
  - (* read_config_space *)
    destruct ok; [|cbn [paccs_of map concat]; repeat split; try reflexivity; exact Hc].
    rewrite paccs_of_pacc.
    destruct (lift_device (pe_mult pe) _ s (cfg_accesses_pci_device pe cfg off len)) as [H1 [H2 H3]].
    rewrite H1, H2, H3. repeat split; try reflexivity. exact Hc.
  - (* write_config_space: not used by a constructor *) cbn [paccs_of map concat]. repeat split; try reflexivity. exact Hc.
  - (* TShare: kept *) cbn [paccs_of map concat]. repeat split; try reflexivity. exact Hc.
  - (* notify *)
    pose proof (lift_notify m pe q s Hpe) as Hn. cbv zeta in Hn.
    destruct (Pci.exec m (canon_t pe) (Pci.ONotify q) [noff_of (pe_noff pe) q]) as [o tr] eqn:He.
    cbn [fst snd] in Hn. destruct Hn as [H1 [H2 H3]].
    destruct o; cbn [fst snd]; rewrite paccs_of_rel, H1, H2, H3; repeat split; try reflexivity; exact Hc.
Qed.

(* the calls a constructor completed: everything up to a notification whose unwrap() panics *)
Fixpoint completed (m : mode) (pe : penv) (cfg : list N) (tr : list tev) : list tev :=
  match tr with
  | [] => []
  | e :: t => if fst (lower1_pci m pe cfg e) then [] else e :: completed m pe cfg t
  end.

Lemma completed_all : forall m pe cfg tr, fst (lower_pci m pe cfg tr) = false -> completed m pe cfg tr = tr.
Proof.
  induction tr as [|e t IH]; intro H; [reflexivity|]. cbn [lower_pci completed] in *.
  destruct (lower1_pci m pe cfg e) as [p l]. cbn [fst] in *. destruct p; [discriminate H|].
  destruct (lower_pci m pe cfg t) as [p' l']. cbn [fst] in *. rewrite (IH H). reflexivity.
Qed.

Lemma lift_lower_pci_norm : forall m pe cfg tr s,
  pe_ok pe = true -> clean s = true ->
  let l := paccs_of (snd (lower_pci m pe cfg tr)) in
  lift_pci (pe_mult pe) s l = concat (map norm_ev (completed m pe cfg tr))
  /\ order_ok_pci (pe_mult pe) s l = true.
Proof.
  intros m pe cfg tr. induction tr as [|e t IH]; intros s Hpe Hc; [split; reflexivity|].
  cbv zeta. cbn [lower_pci completed].
  destruct (lift_lower1_pci m pe cfg e s Hpe Hc) as [H1 [H2 H3]]. cbv zeta in H1, H2, H3.
  destruct (lower1_pci m pe cfg e) as [p l]. cbn [fst snd] in *. destruct p.
  - cbn [snd map concat]. split; assumption.
  - destruct (IH (lift_state_pci (pe_mult pe) s (paccs_of l)) Hpe H3) as [H4 H5]. cbv zeta in H4, H5.
    destruct (lower_pci m pe cfg t) as [p' l']. cbn [fst snd] in *.
    rewrite paccs_of_app, lift_pci_app, order_ok_pci_app, H1, H2, H4, H5. cbn [map concat]. split; reflexivity.
Qed.

(* ---------------------------------------------------------------------------------------------- *)
(* the automaton on what the decoder reads back                                                    *)
Lemma subset_15_small : forall s, subset s 15 = true -> s < 16.
Proof.
  intros s H. unfold subset in H. apply N.eqb_eq in H. change 15 with (N.ones 4) in H.
  rewrite N.land_ones in H. rewrite <- H. apply N.mod_lt. discriminate.
Qed.

Lemma hs_step_norm : forall sup off h e h',
  wide_ok e = true -> hs_step sup off h e = Some h' -> hs_scan sup off h (norm_ev e) = Some h'.
Proof.
  intros sup off h e h' Hw Hs. destruct e; cbn [norm_ev hs_scan]; try (cbn [hs_step] in Hs; exact Hs).
  - (* status: an accepted value fits the 8-bit register *)
    assert (H8 : w8 s = s).
    { cbn [hs_step] in Hs. destruct (s =? 0) eqn:H0; [apply N.eqb_eq in H0; subst s; reflexivity|].
      destruct (negb (h_reset h)); [discriminate Hs|]. destruct (subset s 15) eqn:H15; [|discriminate Hs].
      apply subset_15_small in H15. unfold w8. apply N.mod_small. lia. }
    rewrite H8, Hs. reflexivity.
  - (* the answer of read_device_features is not constrained *)
    cbn [hs_step] in *. destruct (has (h_status h) ST_DRIVER); [|discriminate Hs]. exact Hs.
  - cbn [wide_ok] in Hw. apply N.ltb_lt in Hw. rewrite (recombine f Hw), Hs. reflexivity.
  - cbn [hs_step] in *. destruct (_ && _); [|discriminate Hs]. exact Hs.
  - rewrite Hs. reflexivity.
Qed.

Lemma hs_scan_norm : forall sup off tr h h',
  forallb wide_ok tr = true -> hs_scan sup off h tr = Some h' ->
  hs_scan sup off h (concat (map norm_ev tr)) = Some h'.
Proof.
  induction tr as [|e t IH]; intros h h' Hw Hs; [exact Hs|].
  cbn [forallb] in Hw. apply andb_prop in Hw. destruct Hw as [He Ht].
  cbn [hs_scan] in Hs. destruct (hs_step sup off h e) as [h1|] eqn:H1; [|discriminate Hs].
  cbn [map concat]. rewrite hs_scan_app, (hs_step_norm _ _ _ _ _ He H1). exact (IH h1 h' Ht Hs).
Qed.

(* a prefix of an accepted sequence is accepted *)
Lemma completed_scan : forall sup off m pe cfg tr h h',
  hs_scan sup off h tr = Some h' ->
  exists h'', hs_scan sup off h (completed m pe cfg tr) = Some h''
              /\ (fst (lower_pci m pe cfg tr) = false -> h'' = h').
Proof.
  intros sup off m pe cfg tr. induction tr as [|e t IH]; intros h h' Hs.
  - exists h. inversion Hs. split; [reflexivity|trivial].
  - cbn [hs_scan] in Hs. destruct (hs_step sup off h e) as [h1|] eqn:H1; [|discriminate Hs].
    cbn [completed lower_pci]. destruct (lower1_pci m pe cfg e) as [p l]. cbn [fst]. destruct p.
    + exists h. split; [reflexivity|]. cbn [fst]. discriminate.
    + destruct (IH h1 h' Hs) as [h2 [H2 Hn]]. exists h2. cbn [hs_scan]. rewrite H1.
      destruct (lower_pci m pe cfg t) as [p' l']. cbn [fst] in *. split; assumption.
Qed.

Lemma completed_wide : forall m pe cfg tr, forallb wide_ok tr = true -> forallb wide_ok (completed m pe cfg tr) = true.
Proof.
  induction tr as [|e t IH]; intro H; [reflexivity|]. cbn [forallb] in H. apply andb_prop in H. destruct H as [He Ht].
  cbn [completed]. destruct (fst (lower1_pci m pe cfg e)); [reflexivity|]. cbn [forallb]. rewrite He, (IH Ht). reflexivity.
Qed.

Lemma is_ok_remap : forall pe o, is_ok (remap_missing pe o) = is_ok o.
Proof. intros pe o. destruct o; try reflexivity. cbn [remap_missing]. destruct (_ && _); reflexivity. Qed.

(* C08 on the real PCI transport: for every constructor, every PCI function (window placement, multiplier,
   queue_notify_off answers, with or without a device-specific window) and every environment, the accesses
   PciTransport performs, decoded by the specification's reading of virtio_pci_common_cfg and of the
   notification window, form an accepted initialisation sequence *)
Theorem construct_pci_accept : forall d pe e,
  pe_ok pe = true ->
  hs_accept (supported d) (e_offered e) (is_ok (fst (construct_pci d pe e)))
            (lift_pci (pe_mult pe) pst0 (paccs_of (snd (construct_pci d pe e)))) = true.
Proof.
  intros d pe e Hpe. unfold construct_pci.
  destruct (construct_scan d (pci_env pe e)) as [h [Hs Hl]]. pose proof (construct_wide d (pci_env pe e)) as Hw.
  change (e_offered (pci_env pe e)) with (e_offered e) in Hs.
  destruct (construct d (pci_env pe e)) as [o tr]. cbn [fst snd] in *.
  destruct (lift_lower_pci_norm (e_mode e) pe (e_cfg (pci_env pe e)) tr pst0 Hpe eq_refl) as [Hn _]. cbv zeta in Hn.
  destruct (completed_scan _ _ (e_mode e) pe (e_cfg (pci_env pe e)) tr hs0 h Hs) as [h2 [Hs2 Heq]].
  pose proof (hs_scan_norm _ _ _ _ _ (completed_wide (e_mode e) pe (e_cfg (pci_env pe e)) tr Hw) Hs2) as Hs3.
  destruct (lower_pci (e_mode e) pe (e_cfg (pci_env pe e)) tr) as [p l]. cbn [fst snd] in *.
  unfold hs_accept. rewrite Hn, Hs3. destruct p; [reflexivity|].
  rewrite (Heq eq_refl), is_ok_remap. destruct (is_ok o); [|reflexivity]. cbn [implb]. apply N.eqb_eq. exact (Hl eq_refl).
Qed.

(* ... and every access obeys the rules of the PCI layout: natural widths, no write to a read-only field,
   queue_enable := 1 only after the three addresses of the selected queue, never queue_enable := 0, a
   notification is the 16-bit write of q at queue_notify_off(q) * multiplier. For ANY sequence of Transport calls. *)
Theorem lower_pci_order_ok : forall m pe cfg tr,
  pe_ok pe = true -> order_ok_pci (pe_mult pe) pst0 (paccs_of (snd (lower_pci m pe cfg tr))) = true.
Proof. intros m pe cfg tr Hpe. exact (proj2 (lift_lower_pci_norm m pe cfg tr pst0 Hpe eq_refl)). Qed.

(* the monitor of kind 854 holds of the model *)
Theorem construct_pci_monitor : forall d pe e,
  pe_ok pe = true ->
  pci_handshake_b (supported d) (e_offered e) (pe_mult pe) (is_ok (fst (construct_pci d pe e)))
                  (paccs_of (snd (construct_pci d pe e))) = true.
Proof.
  intros d pe e Hpe. unfold pci_handshake_b. rewrite (construct_pci_accept d pe e Hpe). cbn [andb].
  unfold construct_pci. destruct (construct d (pci_env pe e)) as [o tr].
  pose proof (lower_pci_order_ok (e_mode e) pe (e_cfg (pci_env pe e)) tr Hpe) as H.
  destruct (lower_pci (e_mode e) pe (e_cfg (pci_env pe e)) tr) as [p l]. exact H.
Qed.

(* ---------------------------------------------------------------------------------------------- *)
(* the exact round trip: when the arguments fit the registers, decoding the lowered trace gives the  *)
(* status / feature / queue_set / notify calls back, with their arguments, in order                  *)
Definition narrow_ok (e : tev) : bool :=
  match e with
  | TSetStatus s => s <? 256
  | TReadFeatures a => a <? two64
  | TWriteFeatures f => f <? two64
  | TQueueSet _ n _ _ _ => n <? 65536
  | _ => true
  end.

Lemma split_any : forall x, w32 x + 4294967296 * N.shiftr x 32 = x.
Proof.
  intro x. unfold w32. rewrite N.shiftr_div_pow2. change (2 ^ 32) with 4294967296.
  pose proof (N.div_mod x 4294967296). lia.
Qed.

Lemma norm_narrow : forall e, narrow_ok e = true -> norm_ev e = if core_ev e then [e] else [].
Proof.
  intros e H. destruct e; cbn [norm_ev core_ev narrow_ok] in *; try reflexivity.
  - apply N.ltb_lt in H. unfold w8. rewrite N.mod_small by exact H. reflexivity.
  - apply N.ltb_lt in H. replace (w32 (w32 answer)) with (w32 answer) by (unfold w32; rewrite N.mod_mod by discriminate; reflexivity).
    rewrite (recombine answer H). reflexivity.
  - apply N.ltb_lt in H. rewrite (recombine f H). reflexivity.
  - apply N.ltb_lt in H. unfold w16. rewrite N.mod_small by exact H. rewrite !split_any. reflexivity.
Qed.

Lemma norm_narrow_tr : forall tr, forallb narrow_ok tr = true -> concat (map norm_ev tr) = core tr.
Proof.
  induction tr as [|e t IH]; intro H; [reflexivity|]. cbn [forallb] in H. apply andb_prop in H. destruct H as [He Ht].
  cbn [map concat]. unfold core in *. cbn [filter]. rewrite (norm_narrow e He), (IH Ht). destruct (core_ev e); reflexivity.
Qed.

Theorem lift_lower_pci_exact : forall m pe cfg tr,
  pe_ok pe = true -> forallb narrow_ok tr = true -> fst (lower_pci m pe cfg tr) = false ->
  lift_pci (pe_mult pe) pst0 (paccs_of (snd (lower_pci m pe cfg tr))) = core tr.
Proof.
  intros m pe cfg tr Hpe Hn Hp.
  rewrite (proj1 (lift_lower_pci_norm m pe cfg tr pst0 Hpe eq_refl)), (completed_all m pe cfg tr Hp).
  exact (norm_narrow_tr tr Hn).
Qed.

(* ---------------------------------------------------------------------------------------------- *)
(* every constructor's calls fit the registers of the PCI transport (so the round trip is exact)    *)
Definition small_qans (l : list qans) : bool := forallb (fun a => qa_max a <? 65536) l.

Lemma cfg_narrow : forall l, forallb ev_cfg l = true -> forallb narrow_ok l = true.
Proof. intro l. apply forallb_weaken. destruct x; cbn; congruence. Qed.

Lemma queue_new_ev_narrow : forall e f a idx size,
  qa_max a < 65536 -> forallb narrow_ok (snd (queue_new_ev e f a idx size)) = true.
Proof.
  intros e f a idx size Ha. unfold queue_new_ev.
  destruct (qa_used a); [reflexivity|].
  destruct (w32 (qa_max a) <? size) eqn:Hsz; [reflexivity|].
  assert (Hn : size < 65536).
  { apply N.ltb_ge in Hsz. unfold w32 in Hsz. rewrite N.mod_small in Hsz by lia. lia. }
  pose proof (allocate_no_queue_set (legacy_layout e) size (qa_a1 a) (qa_a2 a)) as Hq.
  destruct (allocate (legacy_layout e) size (qa_a1 a) (qa_a2 a)) as [o evs]. cbn [snd] in Hq.
  assert (Hal : forallb narrow_ok (concat (map (alloc_ev (bit f B_ACCESS_PLATFORM)) evs)) = true).
  { clear - Hq. induction evs as [|x t IH]; [reflexivity|]. cbn [map concat]. apply forallb_app_intro.
    - pose proof (Hq x (or_introl eq_refl)) as Hx. destruct x; [reflexivity|reflexivity|contradiction].
    - apply IH. intros y Hy. apply Hq. right. exact Hy. }
  assert (Hlt : (size <? 65536) = true) by (apply N.ltb_lt; exact Hn).
  destruct o; cbn [snd app forallb narrow_ok andb];
    try (apply forallb_app_intro; [exact Hal|cbn [forallb narrow_ok]; rewrite Hlt; reflexivity]); exact Hal.
Qed.

Lemma hd_small : forall l, small_qans l = true -> qa_max (hd qa_default l) < 65536.
Proof.
  intros l H. destruct l as [|a t]; [cbn; lia|]. cbn [small_qans forallb hd] in *.
  apply andb_prop in H. destruct H as [Ha _]. apply N.ltb_lt. exact Ha.
Qed.

Lemma tl_small : forall l, small_qans l = true -> small_qans (tl l) = true.
Proof. intros l H. destruct l as [|a t]; [reflexivity|]. cbn [small_qans forallb tl] in *. apply andb_prop in H. exact (proj2 H). Qed.

Lemma exec_step_narrow : forall e f s st,
  small_qans (i_qans s) = true ->
  forallb narrow_ok (snd (exec_step e f s st)) = true
  /\ (forall s', fst (exec_step e f s st) = RCont s' -> small_qans (i_qans s') = true).
Proof.
  intros e f s st Hs. destruct st; cbn [exec_step].
  - pose proof (cfg_read_events (e_cfg e) off len) as Hc. destruct (cfg_read (e_cfg e) off len) as [o ev].
    cbn [snd] in Hc. apply cfg_narrow in Hc. destruct o; cbn [fst snd]; (split; [exact Hc|]); intros s' H; inversion H; subst; exact Hs.
  - unfold read_consistent.
    pose proof (rc_loop_events (S (length (e_gens e))) e (i_gen s) _ (read_seq_events (e_cfg e) reads)) as Hc.
    destruct (rc_loop (S (length (e_gens e))) e (i_gen s) (read_seq (e_cfg e) reads)) as [[o ev] k].
    cbn [fst snd] in Hc. apply cfg_narrow in Hc. destruct o; cbn [fst snd]; (split; [exact Hc|]); intros s' H; inversion H; subst; exact Hs.
  - unfold read_consistent.
    pose proof (rc_loop_events (S (length (e_gens e))) e (i_gen s) _ (tag_body_events (e_cfg e) (e_utf8 e))) as Hc.
    destruct (rc_loop (S (length (e_gens e))) e (i_gen s) (tag_body (e_cfg e) (e_utf8 e))) as [[o ev] k].
    cbn [fst snd] in Hc. apply cfg_narrow in Hc. destruct o; cbn [fst snd]; (split; [exact Hc|]); intros s' H; inversion H; subst; exact Hs.
  - pose proof (queue_new_ev_narrow e f (hd qa_default (i_qans s)) idx size (hd_small _ Hs)) as Hq.
    destruct (queue_new_ev e f (hd qa_default (i_qans s)) idx size) as [o ev]. cbn [snd] in Hq.
    destruct o; cbn [fst snd]; (split; [exact Hq|]); intros s' H; inversion H; subst. cbn [i_qans]. exact (tl_small _ Hs).
  - cbn [fst snd]. split; [apply repeat_forallb; reflexivity|]. intros s' H; inversion H; subst; exact Hs.
  - destruct (len <? 1526); cbn [fst snd]; (split; [reflexivity|]); intros s' H; inversion H; subst; exact Hs.
  - destruct (should_notify_at _ _ _ _); cbn [fst snd]; (split; [reflexivity|]); intros s' H; inversion H; subst; exact Hs.
  - cbn [fst snd]. split; [reflexivity|]. intros s' H; inversion H; subst; exact Hs.
Qed.

Lemma interp_narrow : forall e f sc s,
  small_qans (i_qans s) = true -> forallb narrow_ok (snd (interp e f s sc)) = true.
Proof.
  intros e f sc. induction sc as [|st rest IH]; intros s Hs; [reflexivity|].
  cbn [interp]. destruct (exec_step_narrow e f s st Hs) as [Hev Hst].
  destruct (exec_step e f s st) as [r ev]. cbn [fst snd] in *. destruct r as [s'|o]; [|exact Hev].
  specialize (IH s' (Hst s' eq_refl)). destruct (interp e f s' rest) as [o ev']. cbn [snd] in *.
  apply forallb_app_intro; assumption.
Qed.

Lemma pci_env_small : forall pe e, small_qans (e_qans (pci_env pe e)) = true.
Proof.
  intros pe e. cbn [pci_env e_qans]. unfold small_qans. induction (e_qans e) as [|a t IH]; [reflexivity|].
  cbn [map forallb qa16 qa_max]. rewrite IH, andb_true_r. apply N.ltb_lt. unfold w16. apply N.mod_lt. discriminate.
Qed.

Theorem construct_pci_narrow : forall d pe e,
  e_offered e < two64 -> forallb narrow_ok (snd (construct d (pci_env pe e))) = true.
Proof.
  intros d pe e Hoff.
  assert (G : forall sc, forallb narrow_ok (snd (run_body (pci_env pe e) (supported d) sc)) = true).
  { intro sc. rewrite run_body_eq. cbn [snd]. apply forallb_app_intro.
    - change (e_offered (pci_env pe e)) with (e_offered e). cbn [forallb narrow_ok].
      rewrite (proj2 (N.ltb_lt _ _) Hoff), (proj2 (N.ltb_lt _ _) (negotiated_lt d (e_offered e))). reflexivity.
    - apply interp_narrow. exact (pci_env_small pe e). }
  unfold construct. destruct d; try apply G. destruct (e_p1 (pci_env pe e) <=? 44); [reflexivity|apply G].
Qed.

(* the round trip for the constructors: a constructor on PciTransport that does not panic in notify shows
   the device, access by access, exactly its status writes, the offered word, the accepted word, every
   queue registration with size and the three addresses, and every notification *)
Theorem construct_pci_roundtrip : forall d pe e,
  pe_ok pe = true -> e_offered e < two64 ->
  fst (lower_pci (e_mode e) pe (e_cfg (pci_env pe e)) (snd (construct d (pci_env pe e)))) = false ->
  lift_pci (pe_mult pe) pst0 (paccs_of (snd (construct_pci d pe e))) = core (snd (construct d (pci_env pe e))).
Proof.
  intros d pe e Hpe Hoff Hp. unfold construct_pci.
  pose proof (construct_pci_narrow d pe e Hoff) as Hn.
  destruct (construct d (pci_env pe e)) as [o tr]. cbn [snd] in *.
  pose proof (lift_lower_pci_exact (e_mode e) pe (e_cfg (pci_env pe e)) tr Hpe Hn Hp) as H.
  destruct (lower_pci (e_mode e) pe (e_cfg (pci_env pe e)) tr) as [p l]. exact H.
Qed.

(* ---------------------------------------------------------------------------------------------- *)
(* what a true verdict of the PCI monitor means on ANY (in particular an observed) access sequence  *)
Definition is_status_write (a : pacc) : bool :=
  (p_win a =? WIN_COMMON) && p_write a && (p_off a =? 20) && (p_width a =? 1).

(* the value written last to device_status (8-bit write at offset 20 of the common configuration structure) *)
Fixpoint pci_last_status (acc : N) (l : list pacc) : N :=
  match l with
  | [] => acc
  | a :: t => pci_last_status (if is_status_write a then p_val a else acc) t
  end.

Ltac split_ifs :=
  repeat match goal with
    | |- context [if ?c then _ else _] => lazymatch c with
         | (_ && _) => let H := fresh "H" in destruct c eqn:H
         | both _ _ => destruct c
         end
    | |- context [let '(_, _) := ?p in _] => destruct p
    end; cbn [fst snd last_status];
  repeat match goal with
    | H : (_ && _) = true |- _ => apply andb_prop in H; destruct H
    | H : (_ =? _) = true |- _ => apply N.eqb_eq in H; subst
    end; try reflexivity;
  repeat match goal with |- context [if ?c then _ else _] => destruct c end; try reflexivity.

Lemma lift1_status : forall mult s a acc,
  last_status acc (snd (fst (lift1_pci mult s a))) = if is_status_write a then p_val a else acc.
Proof.
  intros mult s [win w off width v] acc. unfold lift1_pci, is_status_write. cbn [p_win p_write p_off p_width p_val].
  destruct (win =? WIN_COMMON) eqn:Hw; cbn [andb].
  - unfold common_step. destruct w; cbn [andb]; split_ifs.
    all: try (cbn in *; congruence).
  - destruct (win =? WIN_NOTIFY); [destruct w; reflexivity|].
    destruct (win =? WIN_ISR); [reflexivity|]. destruct (win =? WIN_DEVICE); reflexivity.
Qed.

Lemma lift_last_status : forall mult l s acc, last_status acc (lift_pci mult s l) = pci_last_status acc l.
Proof.
  induction l as [|a t IH]; intros s acc; [reflexivity|]. cbn [lift_pci pci_last_status].
  pose proof (lift1_status mult s a acc) as H1. destruct (lift1_pci mult s a) as [[s' ev] ok]. cbn [fst snd] in H1.
  rewrite last_status_app, H1. apply IH.
Qed.

(* no write to the notification window before device_status := ...|DRIVER_OK *)
Theorem pci_monitor_notify_meaning : forall sup off mult ok pre a post,
  pci_handshake_b sup off mult ok (pre ++ a :: post) = true ->
  p_win a = WIN_NOTIFY -> p_write a = true ->
  has (pci_last_status 0 pre) ST_DRIVER_OK = true.
Proof.
  intros sup off mult ok pre a post H Hw Hwr. unfold pci_handshake_b in H. apply andb_prop in H. destruct H as [H _].
  unfold hs_accept in H. destruct (hs_scan sup off hs0 (lift_pci mult pst0 (pre ++ a :: post))) as [h|] eqn:Hs; [|discriminate H].
  rewrite lift_pci_app in Hs. cbn [lift_pci] in Hs. unfold lift1_pci in Hs. rewrite Hw, Hwr in Hs.
  cbn [WIN_NOTIFY WIN_COMMON N.eqb Pos.eqb app] in Hs.
  rewrite <- (lift_last_status mult pre pst0 0). exact (hs_notify_sound _ _ _ _ _ _ Hs).
Qed.

(* queue_enable := 1 only between FEATURES_OK and DRIVER_OK *)
Theorem pci_monitor_enable_meaning : forall sup off mult ok pre v post,
  pci_handshake_b sup off mult ok (pre ++ mkP WIN_COMMON true 28 2 v :: post) = true ->
  v = 1
  /\ has (pci_last_status 0 pre) ST_FEATURES_OK = true /\ has (pci_last_status 0 pre) ST_DRIVER_OK = false.
Proof.
  intros sup off mult ok pre v post H. unfold pci_handshake_b in H. apply andb_prop in H. destruct H as [H Ho].
  assert (Hv : v = 1).
  { rewrite order_ok_pci_app in Ho. apply andb_prop in Ho. destruct Ho as [_ Ho]. cbn [order_ok_pci] in Ho.
    unfold lift1_pci in Ho. cbn [p_win p_write p_off p_width p_val WIN_COMMON N.eqb Pos.eqb common_step andb] in Ho.
    destruct (v =? 1) eqn:Hv; [apply N.eqb_eq; exact Hv|discriminate Ho]. }
  split; [exact Hv|]. subst v.
  unfold hs_accept in H.
  destruct (hs_scan sup off hs0 (lift_pci mult pst0 (pre ++ mkP WIN_COMMON true 28 2 1 :: post))) as [h|] eqn:Hs; [|discriminate H].
  rewrite lift_pci_app in Hs. cbn [lift_pci] in Hs. unfold lift1_pci in Hs.
  cbn [p_win p_write p_off p_width p_val WIN_COMMON N.eqb Pos.eqb common_step andb app] in Hs.
  rewrite <- (lift_last_status mult pre pst0 0). exact (hs_queue_set_sound _ _ _ _ _ _ _ _ _ _ Hs).
Qed.

(* ---------------------------------------------------------------------------------------------- *)
(* non-vacuity: the constructors succeed on a plain PCI function, and the monitor rejects what it must *)
Definition pe_plain : penv := mkPe 128 4 [0; 1; 2; 3] true 35184372097024.

Example pe_plain_ok : pe_ok pe_plain = true.
Proof. reflexivity. Qed.

Fixpoint list_eqb_N (a b : list N) : bool :=
  match a, b with
  | [], [] => true
  | x :: s, y :: t => (x =? y) && list_eqb_N s t
  | _, _ => false
  end.

Definition pci_statuses (l : list pacc) : list N :=
  concat (map (fun a => if (p_win a =? WIN_COMMON) && p_write a && (p_off a =? 20) then [p_val a] else []) l).

Example pci_constructors_succeed :
  forallb (fun d => is_ok (fst (construct_pci d pe_plain (env_good 0x330000225)))
                    && list_eqb_N (pci_statuses (paccs_of (snd (construct_pci d pe_plain (env_good 0x330000225))))) [0; 3; 11; 15]
                    && negb (fst (lower_pci Debug pe_plain (e_cfg (pci_env pe_plain (env_good 0x330000225)))
                                            (snd (construct d (pci_env pe_plain (env_good 0x330000225)))))))
          all_drivers = true.
Proof. vm_compute. reflexivity. Qed.

(* the accesses of the entropy driver's constructor, in full *)
Example pci_rng_trace_example :
  paccs_of (snd (construct_pci DRng pe_plain (mkEnv Release TKPci false 0x130000000 [] [] (good_qans 1) 0 0 true)))
  = [mkP 0 true 20 1 0; mkP 0 true 20 1 3;
     mkP 0 true 0 4 0; mkP 0 false 4 4 0x30000000; mkP 0 true 0 4 1; mkP 0 false 4 4 1;
     mkP 0 true 8 4 0; mkP 0 true 12 4 0x30000000; mkP 0 true 8 4 1; mkP 0 true 12 4 1;
     mkP 0 true 20 1 11;
     mkP 0 true 22 2 0; mkP 0 false 28 2 0; mkP 0 true 22 2 0; mkP 0 false 24 2 256;
     mkP 0 true 22 2 0; mkP 0 true 24 2 8; mkP 0 true 32 8 0x40000000; mkP 0 true 40 8 0x40000080;
     mkP 0 true 48 8 0x40008000; mkP 0 true 28 2 1;
     mkP 0 true 20 1 15]
  /\ lift_pci 4 pst0 (paccs_of (snd (construct_pci DRng pe_plain (mkEnv Release TKPci false 0x130000000 [] [] (good_qans 1) 0 0 true))))
     = [TSetStatus 0; TSetStatus 3; TReadFeatures 0x130000000; TWriteFeatures 0x130000000; TSetStatus 11;
        TQueueSet 0 8 0x40000000 0x40000080 0x40008000; TSetStatus 15].
Proof. vm_compute. split; reflexivity. Qed.

(* a notification on a window that is too short for the queue's offset: notify panics after the constructor
   has set DRIVER_OK; nothing was written to the notification window *)
Example pci_notify_panic_example :
  fst (construct_pci DInput (mkPe 2 4 [7; 0] true 35184372097024) (env_good 0)) = Panic
  /\ existsb (fun a => p_win a =? WIN_NOTIFY) (paccs_of (snd (construct_pci DInput (mkPe 2 4 [7; 0] true 35184372097024) (env_good 0)))) = false.
Proof. vm_compute. split; reflexivity. Qed.

(* what the monitor rejects. (a) the high half of the accepted features written under selector 0: the device never
   sees the high half, FEATURES_OK is refused; (b) set_status ORing a stale status in: the first write is not a reset;
   (c) queue_enable := 1 before the addresses; (d) a notification before DRIVER_OK; (e) a notification at another
   queue's offset; (f) a 32-bit write over device_status *)
Definition hs_head : list pacc :=
  [mkP 0 true 20 1 0; mkP 0 true 20 1 3; mkP 0 true 0 4 0; mkP 0 false 4 4 0; mkP 0 true 0 4 1; mkP 0 false 4 4 1].
Definition hs_feat : list pacc := [mkP 0 true 8 4 0; mkP 0 true 12 4 0; mkP 0 true 8 4 1; mkP 0 true 12 4 1].

Example pci_monitor_rejects :
  pci_handshake_b (supported DRng) 0x100000000 4 false (hs_head ++ hs_feat ++ [mkP 0 true 20 1 11]) = true
  /\ pci_handshake_b (supported DRng) 0x100000000 4 false
       (hs_head ++ [mkP 0 true 8 4 0; mkP 0 true 12 4 0; mkP 0 true 8 4 0; mkP 0 true 12 4 1] ++ [mkP 0 true 20 1 11]) = false
  /\ pci_handshake_b (supported DRng) 0x100000000 4 false [mkP 0 false 20 1 15; mkP 0 true 20 1 15; mkP 0 true 20 1 3] = false
  /\ pci_handshake_b (supported DRng) 0x100000000 4 false
       (hs_head ++ hs_feat ++ [mkP 0 true 20 1 11; mkP 0 true 22 2 0; mkP 0 true 24 2 8; mkP 0 true 28 2 1;
                               mkP 0 true 32 8 4096; mkP 0 true 40 8 8192; mkP 0 true 48 8 12288]) = false
  /\ pci_handshake_b (supported DRng) 0x100000000 4 false
       (hs_head ++ hs_feat ++ [mkP 0 true 20 1 11; mkP 0 true 22 2 0; mkP 0 false 30 2 0; mkP 1 true 0 2 0]) = false
  /\ pci_handshake_b (supported DRng) 0x100000000 4 false
       (hs_head ++ hs_feat ++ [mkP 0 true 20 1 11; mkP 0 true 20 1 15; mkP 0 true 22 2 1; mkP 0 false 30 2 1; mkP 1 true 0 2 1]) = false
  /\ pci_handshake_b (supported DRng) 0x100000000 4 false
       (hs_head ++ hs_feat ++ [mkP 0 true 20 1 11; mkP 0 true 20 1 15; mkP 0 true 22 2 1; mkP 0 false 30 2 1; mkP 1 true 4 2 1]) = true
  /\ pci_handshake_b (supported DRng) 0x100000000 4 false [mkP 0 true 20 4 0] = false.
Proof. vm_compute. repeat split; reflexivity. Qed.
