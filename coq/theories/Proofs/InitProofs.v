(* C08: proofs about the constructor models (Model/Init.v) against the initialisation automaton  *)
(* and the gating predicates of Model/InitSpec.v. Every statement is for ALL environments:       *)
(* offered feature word, config bytes, generation answers, per-queue answers, parameters.        *)
From Coq Require Import ZArith Lia ZifyBool ZifyN.
From VD Require Import Base.Words Model.Layout Model.Init Model.Mmio Model.MmioSpec Model.InitSpec.
Ltac Zify.zify_post_hook ::= Z.div_mod_to_equations.

Definition is_ok (o : outcome N) : bool := match o with Ok _ => true | _ => false end.

(* ---------------------------------------------------------------------------------------------- *)
(* bits                                                                                            *)
Lemma supported_version1 : forall d, bit (supported d) B_VERSION_1 = true.
Proof. destruct d; vm_compute; reflexivity. Qed.

Lemma supported_64 : forall d, N.land (supported d) (N.ones 64) = supported d.
Proof. destruct d; vm_compute; reflexivity. Qed.

Lemma negotiated_lt : forall d off, negotiated d off < two64.
Proof.
  intros d off. unfold negotiated.
  rewrite <- (supported_64 d), N.land_assoc, N.land_ones.
  apply N.mod_lt. discriminate.
Qed.

Lemma subset_land_l : forall a b, subset (N.land a b) a = true.
Proof.
  intros a b. unfold subset. apply N.eqb_eq. apply N.bits_inj. intro n.
  rewrite !N.land_spec. destruct (N.testbit a n), (N.testbit b n); reflexivity.
Qed.

Lemma subset_land_r : forall a b, subset (N.land a b) b = true.
Proof.
  intros a b. unfold subset. apply N.eqb_eq. apply N.bits_inj. intro n.
  rewrite !N.land_spec. destruct (N.testbit a n), (N.testbit b n); reflexivity.
Qed.

Lemma subset_spec : forall a b, subset a b = true -> forall k, N.testbit a k = true -> N.testbit b k = true.
Proof.
  intros a b H k Hk. unfold subset in H. apply N.eqb_eq in H.
  rewrite <- H in Hk. rewrite N.land_spec in Hk. apply andb_prop in Hk. tauto.
Qed.

Lemma bit_negotiated : forall d off k, bit (negotiated d off) k = bit off k && bit (supported d) k.
Proof. intros. unfold bit, negotiated. apply N.land_spec. Qed.

(* ---------------------------------------------------------------------------------------------- *)
(* begin_init                                                                                      *)
Theorem begin_init_ok : forall m d off,
  begin_init m (supported d) off =
  (Ok (negotiated d off),
   [TSetStatus 0; TSetStatus 3; TReadFeatures off; TWriteFeatures (negotiated d off); TSetStatus 11;
    TGuestPageSize 4096]).
Proof.
  intros m d off. unfold begin_init, negotiated.
  assert (H : bit off B_VERSION_1 && negb (bit (N.land off (supported d)) B_VERSION_1) = false).
  { pose proof (bit_negotiated d off B_VERSION_1) as Hb. unfold negotiated in Hb. rewrite Hb.
    rewrite supported_version1. destruct (bit off B_VERSION_1); reflexivity. }
  destruct m; [rewrite H|]; reflexivity.
Qed.

(* ---------------------------------------------------------------------------------------------- *)
(* classes of events and of statements                                                             *)
(* before DRIVER_OK: anything but status / feature traffic and notifications *)
Definition ev_pre (e : tev) : bool :=
  match e with
  | TSetStatus _ | TReadFeatures _ | TWriteFeatures _ | TNotify _ => false
  | _ => true
  end.
(* after DRIVER_OK: anything but status / feature traffic and queue registration *)
Definition ev_post (e : tev) : bool :=
  match e with
  | TSetStatus _ | TReadFeatures _ | TWriteFeatures _ | TQueueSet _ _ _ _ _ => false
  | _ => true
  end.
Definition ev_cfg (e : tev) : bool :=
  match e with TReadGen _ | TReadConfig _ _ _ => true | _ => false end.

Definition pre_stmt (s : stmt) : bool :=
  match s with SRead _ _ | SConsistent _ | STag | SQueue _ _ | SPost _ _ | SCheckRx _ => true | _ => false end.
Definition post_stmt (s : stmt) : bool :=
  match s with
  | SRead _ _ | SConsistent _ | STag | SPost _ _ | SCheckRx _ | SNotifyIf _ _ => true
  | _ => false
  end.
(* pre-statements, then finish_init exactly once, then post-statements *)
Fixpoint wf (sc : list stmt) : bool :=
  match sc with
  | [] => false
  | SFinish :: r => forallb post_stmt r
  | s :: r => pre_stmt s && wf r
  end.

Lemma forallb_app_intro : forall {A} (p : A -> bool) l1 l2,
  forallb p l1 = true -> forallb p l2 = true -> forallb p (l1 ++ l2) = true.
Proof. intros. rewrite forallb_app. rewrite H, H0. reflexivity. Qed.

Lemma forallb_weaken : forall {A} (p q : A -> bool) l,
  (forall x, p x = true -> q x = true) -> forallb p l = true -> forallb q l = true.
Proof.
  intros A p q l H. induction l as [|x l IH]; cbn [forallb]; intro Hl; [reflexivity|].
  apply andb_prop in Hl. destruct Hl as [Hx Hl]. rewrite (H _ Hx), (IH Hl). reflexivity.
Qed.

Lemma ev_cfg_pre : forall e, ev_cfg e = true -> ev_pre e = true.
Proof. destruct e; cbn; congruence. Qed.
Lemma ev_cfg_post : forall e, ev_cfg e = true -> ev_post e = true.
Proof. destruct e; cbn; congruence. Qed.

Lemma cfg_read_events : forall cfg off len, forallb ev_cfg (snd (cfg_read cfg off len)) = true.
Proof. intros. unfold cfg_read. destruct (cfg_ok cfg off len); reflexivity. Qed.

Lemma read_seq_events : forall cfg reads, forallb ev_cfg (snd (read_seq cfg reads)) = true.
Proof.
  intros cfg reads. induction reads as [|[off len] t IH]; [reflexivity|].
  cbn [read_seq]. pose proof (cfg_read_events cfg off len) as H.
  destruct (cfg_read cfg off len) as [o ev]. cbn [snd] in H.
  destruct o; try exact H.
  destruct (read_seq cfg t) as [o' ev']. cbn [snd] in *. apply forallb_app_intro; assumption.
Qed.

Lemma tag_body_events : forall cfg u, forallb ev_cfg (snd (tag_body cfg u)) = true.
Proof.
  intros cfg u. unfold tag_body.
  pose proof (cfg_read_events cfg 0 2) as H. destruct (cfg_read cfg 0 2) as [o ev]. cbn [snd] in H.
  destruct o; try exact H.
  destruct (a =? 0); [exact H|].
  match goal with |- context [read_seq cfg ?r] => pose proof (read_seq_events cfg r) as H2; destruct (read_seq cfg r) as [o' ev'] end.
  cbn [snd] in H2. destruct o'; cbn [snd]; apply forallb_app_intro; assumption.
Qed.

Lemma gen_read_events : forall e k, forallb ev_cfg (snd (fst (gen_read e k))) = true.
Proof. intros. unfold gen_read. destruct (e_tk e); reflexivity. Qed.

Lemma rc_loop_events : forall fuel e k body,
  forallb ev_cfg (snd body) = true ->
  forallb ev_cfg (snd (fst (rc_loop fuel e k body))) = true.
Proof.
  induction fuel as [|fuel IH]; intros e k body Hb; [reflexivity|].
  cbn [rc_loop].
  pose proof (gen_read_events e k) as H1. destruct (gen_read e k) as [[before ev1] k1]. cbn [fst snd] in H1.
  pose proof (gen_read_events e k1) as H2. destruct (gen_read e k1) as [[after ev2] k2]. cbn [fst snd] in H2.
  assert (Hevs : forallb ev_cfg (ev1 ++ snd body ++ ev2) = true).
  { apply forallb_app_intro; [assumption|]. apply forallb_app_intro; assumption. }
  destruct (before =? after); [exact Hevs|].
  specialize (IH e k2 body Hb). destruct (rc_loop fuel e k2 body) as [[o evs'] k']. cbn [fst snd] in *.
  apply forallb_app_intro; assumption.
Qed.

Lemma alloc_evs_pre : forall ap evs,
  (forall x, In x evs -> match x with EvQueueSet _ _ _ _ _ => False | _ => True end) ->
  forallb ev_pre (concat (map (alloc_ev ap) evs)) = true.
Proof.
  intros ap evs. induction evs as [|x t IH]; intro H; [reflexivity|].
  cbn [map concat]. apply forallb_app_intro.
  - destruct x; reflexivity.
  - apply IH. intros y Hy. apply H. right. exact Hy.
Qed.

Lemma allocate_no_queue_set : forall legacy n a1 a2 x,
  In x (snd (allocate legacy n a1 a2)) -> match x with EvQueueSet _ _ _ _ _ => False | _ => True end.
Proof.
  intros legacy n a1 a2 x. unfold allocate.
  destruct legacy; [destruct (N.eqb a1 0)|destruct (N.eqb a1 0); [|destruct (N.eqb a2 0)]];
    cbn [snd In]; intro H; repeat (destruct H as [H|H]; [subst x; exact I|]); contradiction.
Qed.

Lemma queue_new_ev_pre : forall e f a idx size, forallb ev_pre (snd (queue_new_ev e f a idx size)) = true.
Proof.
  intros. unfold queue_new_ev. destruct (qa_used a); [reflexivity|].
  destruct (w32 (qa_max a) <? size); [reflexivity|].
  pose proof (allocate_no_queue_set (legacy_layout e) size (qa_a1 a) (qa_a2 a)) as Hq.
  destruct (allocate (legacy_layout e) size (qa_a1 a) (qa_a2 a)) as [o evs]. cbn [snd] in Hq.
  pose proof (alloc_evs_pre (bit f B_ACCESS_PLATFORM) evs Hq) as Ha.
  destruct o; cbn [snd]; cbn [app forallb ev_pre andb];
    try (apply forallb_app_intro; [exact Ha|reflexivity]); try exact Ha.
Qed.

Lemma repeat_forallb : forall {A} (p : A -> bool) x n, p x = true -> forallb p (repeat x n) = true.
Proof. intros A p x n H. induction n; cbn [repeat forallb]; [reflexivity|]. rewrite H, IHn. reflexivity. Qed.

Lemma exec_step_pre : forall e f s st, pre_stmt st = true -> forallb ev_pre (snd (exec_step e f s st)) = true.
Proof.
  intros e f s st H. destruct st; try discriminate H; cbn [exec_step].
  - pose proof (cfg_read_events (e_cfg e) off len) as Hc. destruct (cfg_read (e_cfg e) off len) as [o ev].
    cbn [snd] in Hc. apply (forallb_weaken _ _ _ ev_cfg_pre) in Hc. destruct o; exact Hc.
  - unfold read_consistent.
    pose proof (rc_loop_events (S (length (e_gens e))) e (i_gen s) _ (read_seq_events (e_cfg e) reads)) as Hc.
    destruct (rc_loop (S (length (e_gens e))) e (i_gen s) (read_seq (e_cfg e) reads)) as [[o ev] k].
    cbn [fst snd] in Hc. apply (forallb_weaken _ _ _ ev_cfg_pre) in Hc. destruct o; exact Hc.
  - unfold read_consistent.
    pose proof (rc_loop_events (S (length (e_gens e))) e (i_gen s) _ (tag_body_events (e_cfg e) (e_utf8 e))) as Hc.
    destruct (rc_loop (S (length (e_gens e))) e (i_gen s) (tag_body (e_cfg e) (e_utf8 e))) as [[o ev] k].
    cbn [fst snd] in Hc. apply (forallb_weaken _ _ _ ev_cfg_pre) in Hc. destruct o; exact Hc.
  - pose proof (queue_new_ev_pre e f (hd qa_default (i_qans s)) idx size) as Hq.
    destruct (queue_new_ev e f (hd qa_default (i_qans s)) idx size) as [o ev]. destruct o; exact Hq.
  - cbn [snd]. apply repeat_forallb. reflexivity.
  - destruct (len <? 1526); reflexivity.
Qed.

Lemma exec_step_post : forall e f s st, post_stmt st = true -> forallb ev_post (snd (exec_step e f s st)) = true.
Proof.
  intros e f s st H. destruct st; try discriminate H; cbn [exec_step].
  - pose proof (cfg_read_events (e_cfg e) off len) as Hc. destruct (cfg_read (e_cfg e) off len) as [o ev].
    cbn [snd] in Hc. apply (forallb_weaken _ _ _ ev_cfg_post) in Hc. destruct o; exact Hc.
  - unfold read_consistent.
    pose proof (rc_loop_events (S (length (e_gens e))) e (i_gen s) _ (read_seq_events (e_cfg e) reads)) as Hc.
    destruct (rc_loop (S (length (e_gens e))) e (i_gen s) (read_seq (e_cfg e) reads)) as [[o ev] k].
    cbn [fst snd] in Hc. apply (forallb_weaken _ _ _ ev_cfg_post) in Hc. destruct o; exact Hc.
  - unfold read_consistent.
    pose proof (rc_loop_events (S (length (e_gens e))) e (i_gen s) _ (tag_body_events (e_cfg e) (e_utf8 e))) as Hc.
    destruct (rc_loop (S (length (e_gens e))) e (i_gen s) (tag_body (e_cfg e) (e_utf8 e))) as [[o ev] k].
    cbn [fst snd] in Hc. apply (forallb_weaken _ _ _ ev_cfg_post) in Hc. destruct o; exact Hc.
  - cbn [snd]. apply repeat_forallb. reflexivity.
  - destruct (len <? 1526); reflexivity.
  - destruct (should_notify_at _ _ _ _); reflexivity.
Qed.

Lemma interp_post : forall e f sc s,
  forallb post_stmt sc = true -> forallb ev_post (snd (interp e f s sc)) = true.
Proof.
  intros e f sc. induction sc as [|st rest IH]; intros s H; [reflexivity|].
  cbn [forallb] in H. apply andb_prop in H. destruct H as [Hst Hrest].
  cbn [interp]. pose proof (exec_step_post e f s st Hst) as Hs.
  destruct (exec_step e f s st) as [r ev]. cbn [snd] in Hs. destruct r as [s'|o]; [|exact Hs].
  specialize (IH s' Hrest). destruct (interp e f s' rest) as [o ev']. cbn [snd] in *.
  apply forallb_app_intro; assumption.
Qed.

(* a statement stops the constructor only with an error or a panic *)
Lemma exec_step_stop : forall e f s st o ev, exec_step e f s st = (RStop o, ev) -> is_ok o = false.
Proof.
  intros e f s st o ev H. destruct st; cbn [exec_step] in H.
  - destruct (cfg_read (e_cfg e) off len) as [o' ev']. destruct o'; inversion H; reflexivity.
  - destruct (read_consistent e (i_gen s) (read_seq (e_cfg e) reads)) as [[o' ev'] k].
    destruct o'; inversion H; reflexivity.
  - destruct (read_consistent e (i_gen s) (tag_body (e_cfg e) (e_utf8 e))) as [[o' ev'] k].
    destruct o'; inversion H; reflexivity.
  - destruct (queue_new_ev e f (hd qa_default (i_qans s)) idx size) as [o' ev'].
    destruct o'; inversion H; reflexivity.
  - inversion H.
  - destruct (len <? 1526); inversion H; reflexivity.
  - destruct (should_notify_at _ _ _ _); inversion H.
  - inversion H.
Qed.

(* the shape of a well-formed body: set-up, DRIVER_OK, then only post-live activity; a body that
   stops early never got past the set-up *)
Lemma interp_wf : forall e f sc s,
  wf sc = true ->
  (exists mid tail, snd (interp e f s sc) = mid ++ finish_init ++ tail
                    /\ forallb ev_pre mid = true /\ forallb ev_post tail = true)
  \/ (is_ok (fst (interp e f s sc)) = false /\ forallb ev_pre (snd (interp e f s sc)) = true).
Proof.
  intros e f sc. induction sc as [|st rest IH]; intros s H; [discriminate H|].
  destruct (match st with SFinish => true | _ => false end) eqn:Hfin.
  - destruct st; try discriminate Hfin. cbn [wf] in H. left.
    exists [], (snd (interp e f s rest)). cbn [interp exec_step].
    pose proof (interp_post e f rest s H) as Hp.
    destruct (interp e f s rest) as [o ev']. cbn [snd app] in *. repeat split; assumption.
  - assert (Hw : pre_stmt st = true /\ wf rest = true).
    { destruct st; cbn [wf] in H; try discriminate Hfin; apply andb_prop in H; exact H. }
    destruct Hw as [Hpre Hrest]. cbn [interp].
    pose proof (exec_step_pre e f s st Hpre) as Hs.
    pose proof (exec_step_stop e f s st) as Hstop.
    destruct (exec_step e f s st) as [r ev]. cbn [snd] in Hs. destruct r as [s'|o].
    + specialize (IH s' Hrest). destruct (interp e f s' rest) as [o ev']. cbn [fst snd] in *.
      destruct IH as [[mid [tail [Heq [Hm Ht]]]]|[Hno Hall]].
      * left. exists (ev ++ mid), tail. rewrite Heq, app_assoc. repeat split; try assumption.
        apply forallb_app_intro; assumption.
      * right. split; [assumption|]. apply forallb_app_intro; assumption.
    + right. cbn [fst snd]. split; [|exact Hs]. apply (Hstop o ev). reflexivity.
Qed.

(* ---------------------------------------------------------------------------------------------- *)
(* every constructor body is well-formed, for all generic parameters                               *)
Lemma net_post_post : forall q l, forallb post_stmt (net_post q l) = true.
Proof.
  intros q l. unfold net_post. generalize (seqN 0 (cnt q)). intro xs.
  induction xs as [|i t IH]; [reflexivity|]. cbn [map concat app forallb post_stmt andb]. exact IH.
Qed.

Lemma body_wf : forall d p1 p2, wf (body d p1 p2) = true.
Proof.
  intros d p1 p2. destruct d; try reflexivity.
  cbn [body net_raw_body app wf pre_stmt andb]. apply net_post_post.
Qed.

Lemma input_prefix_not_wf : wf input_body_prefix = false.
Proof. reflexivity. Qed.

(* ---------------------------------------------------------------------------------------------- *)
(* the automaton on the shapes above                                                               *)
Lemma hs_scan_app : forall sup off l1 l2 h,
  hs_scan sup off h (l1 ++ l2) =
  match hs_scan sup off h l1 with Some h' => hs_scan sup off h' l2 | None => None end.
Proof.
  intros sup off l1. induction l1 as [|e t IH]; intros l2 h; [reflexivity|].
  cbn [app hs_scan]. destruct (hs_step sup off h e); [apply IH|reflexivity].
Qed.

Definition h_setup : hs := mkHs true 11 true true.
Definition h_live : hs := mkHs true 15 true true.

Lemma scan_pre : forall sup off l, forallb ev_pre l = true -> hs_scan sup off h_setup l = Some h_setup.
Proof.
  intros sup off l. induction l as [|e t IH]; intro H; [reflexivity|].
  cbn [forallb] in H. apply andb_prop in H. destruct H as [He Ht].
  cbn [hs_scan]. destruct e; try discriminate He; cbn [hs_step]; try (apply IH; exact Ht).
Qed.

Lemma scan_post : forall sup off l, forallb ev_post l = true -> hs_scan sup off h_live l = Some h_live.
Proof.
  intros sup off l. induction l as [|e t IH]; intro H; [reflexivity|].
  cbn [forallb] in H. apply andb_prop in H. destruct H as [He Ht].
  cbn [hs_scan]. destruct e; try discriminate He; cbn [hs_step]; try (apply IH; exact Ht).
Qed.

Lemma scan_begin_init : forall d off,
  hs_scan (supported d) off hs0
    [TSetStatus 0; TSetStatus 3; TReadFeatures off; TWriteFeatures (negotiated d off); TSetStatus 11;
     TGuestPageSize 4096] = Some h_setup.
Proof.
  intros d off.
  change [TSetStatus 0; TSetStatus 3; TReadFeatures off; TWriteFeatures (negotiated d off); TSetStatus 11;
          TGuestPageSize 4096]
    with ([TSetStatus 0; TSetStatus 3; TReadFeatures off] ++ [TWriteFeatures (negotiated d off)] ++
          [TSetStatus 11; TGuestPageSize 4096]).
  rewrite hs_scan_app.
  assert (H1 : hs_scan (supported d) off hs0 [TSetStatus 0; TSetStatus 3; TReadFeatures off]
               = Some (mkHs true 3 true false)) by reflexivity.
  rewrite H1, hs_scan_app.
  assert (Hw : hs_scan (supported d) off (mkHs true 3 true false) [TWriteFeatures (negotiated d off)]
               = Some (mkHs true 3 true true)).
  { cbn [hs_scan hs_step h_status h_fread h_reset].
    change (has 3 ST_DRIVER && negb (has 3 ST_FEATURES_OK) && true) with true.
    unfold negotiated at 1 2. rewrite subset_land_l, subset_land_r.
    rewrite bit_negotiated, supported_version1. destruct (bit off B_VERSION_1); reflexivity. }
  rewrite Hw. reflexivity.
Qed.

Lemma scan_finish : forall sup off, hs_scan sup off h_setup finish_init = Some h_live.
Proof. reflexivity. Qed.

(* the constructor as begin_init followed by its body *)
Lemma run_body_eq : forall e d sc,
  run_body e (supported d) sc =
  (fst (interp e (negotiated d (e_offered e)) (ist0 e) sc),
   [TSetStatus 0; TSetStatus 3; TReadFeatures (e_offered e); TWriteFeatures (negotiated d (e_offered e));
    TSetStatus 11; TGuestPageSize 4096] ++ snd (interp e (negotiated d (e_offered e)) (ist0 e) sc)).
Proof.
  intros e d sc. unfold run_body. rewrite begin_init_ok.
  destruct (interp e (negotiated d (e_offered e)) (ist0 e) sc); reflexivity.
Qed.

Lemma run_body_accept : forall e d sc,
  wf sc = true ->
  hs_accept (supported d) (e_offered e) (is_ok (fst (run_body e (supported d) sc)))
            (snd (run_body e (supported d) sc)) = true.
Proof.
  intros e d sc Hwf. rewrite run_body_eq. cbn [fst snd]. unfold hs_accept.
  rewrite hs_scan_app, scan_begin_init.
  destruct (interp_wf e (negotiated d (e_offered e)) sc (ist0 e) Hwf) as [[mid [tail [Heq [Hm Ht]]]]|[Hno Hall]].
  - rewrite Heq, hs_scan_app, (scan_pre _ _ _ Hm), hs_scan_app, scan_finish, (scan_post _ _ _ Ht).
    cbn. apply Bool.implb_true_r.
  - rewrite (scan_pre _ _ _ Hall), Hno. reflexivity.
Qed.

(* MAIN: the observed-log monitor holds of every constructor, every environment *)
Theorem handshake_accept : forall d e,
  hs_accept (supported d) (e_offered e) (is_ok (fst (construct d e))) (snd (construct d e)) = true.
Proof.
  intros d e. unfold construct.
  destruct d; try (apply run_body_accept; apply body_wf).
  destruct (e_p1 e <=? 44); [reflexivity|]. apply run_body_accept; apply body_wf.
Qed.

(* the explicit form of the trace *)
Definition handshake_prefix (d : driver) (off : N) : list tev :=
  [TSetStatus 0; TSetStatus (ST_ACK + ST_DRIVER); TReadFeatures off; TWriteFeatures (negotiated d off);
   TSetStatus (ST_ACK + ST_DRIVER + ST_FEATURES_OK); TGuestPageSize 4096].

Theorem handshake_shape : forall d e,
  (d = DSocket /\ e_p1 e <= 44 /\ construct d e = (Panic, []))
  \/ exists rest,
       snd (construct d e) = handshake_prefix d (e_offered e) ++ rest
       /\ ((exists mid tail,
              rest = mid ++ [TSetStatus (ST_ACK + ST_DRIVER + ST_FEATURES_OK + ST_DRIVER_OK)] ++ tail
              /\ forallb ev_pre mid = true /\ forallb ev_post tail = true)
           \/ (is_ok (fst (construct d e)) = false /\ forallb ev_pre rest = true)).
Proof.
  intros d e.
  assert (G : forall sc, wf sc = true ->
    exists rest, snd (run_body e (supported d) sc) = handshake_prefix d (e_offered e) ++ rest
      /\ ((exists mid tail, rest = mid ++ [TSetStatus (ST_ACK + ST_DRIVER + ST_FEATURES_OK + ST_DRIVER_OK)] ++ tail
              /\ forallb ev_pre mid = true /\ forallb ev_post tail = true)
          \/ (is_ok (fst (run_body e (supported d) sc)) = false /\ forallb ev_pre rest = true))).
  { intros sc Hwf. rewrite run_body_eq. cbn [fst snd].
    exists (snd (interp e (negotiated d (e_offered e)) (ist0 e) sc)). split; [reflexivity|].
    exact (interp_wf e _ sc (ist0 e) Hwf). }
  unfold construct. destruct d; try (right; apply G; apply body_wf).
  destruct (e_p1 e <=? 44) eqn:Hp.
  - left. repeat split. apply N.leb_le. exact Hp.
  - right. apply G. apply body_wf.
Qed.

(* ---------------------------------------------------------------------------------------------- *)
(* what a true verdict of the automaton means, on ANY trace (in particular an observed one)        *)
Lemma hs_step_status : forall sup off h e h',
  hs_step sup off h e = Some h' -> h_status h' = last_status (h_status h) [e].
Proof.
  intros sup off h e h' H. destruct e; cbn [hs_step last_status] in *;
    repeat match type of H with
           | (if ?c then _ else _) = _ => destruct c eqn:?
           end; inversion H; cbn [h_status]; try reflexivity.
  symmetry. apply N.eqb_eq. assumption.
Qed.

Lemma last_status_app : forall l1 l2 a, last_status a (l1 ++ l2) = last_status (last_status a l1) l2.
Proof.
  induction l1 as [|e t IH]; intros l2 a; [reflexivity|]. destruct e; cbn [app last_status]; apply IH.
Qed.

Lemma hs_scan_status : forall sup off tr h h',
  hs_scan sup off h tr = Some h' -> h_status h' = last_status (h_status h) tr.
Proof.
  intros sup off tr. induction tr as [|e t IH]; intros h h' H.
  - inversion H. reflexivity.
  - cbn [hs_scan] in H. destruct (hs_step sup off h e) as [h1|] eqn:Hs; [|discriminate H].
    rewrite (IH _ _ H). rewrite (hs_step_status _ _ _ _ _ Hs).
    change (e :: t) with ([e] ++ t). rewrite last_status_app. reflexivity.
Qed.

(* no available-buffer notification before DRIVER_OK *)
Theorem hs_notify_sound : forall sup off pre q post h,
  hs_scan sup off hs0 (pre ++ TNotify q :: post) = Some h ->
  has (last_status 0 pre) ST_DRIVER_OK = true.
Proof.
  intros sup off pre q post h H. rewrite hs_scan_app in H.
  destruct (hs_scan sup off hs0 pre) as [h1|] eqn:H1; [|discriminate H].
  rewrite <- (hs_scan_status _ _ _ _ _ H1 : h_status h1 = last_status 0 pre).
  cbn [hs_scan hs_step] in H. destruct (has (h_status h1) ST_DRIVER_OK); [reflexivity|discriminate H].
Qed.

(* every queue is registered after FEATURES_OK and before DRIVER_OK *)
Theorem hs_queue_set_sound : forall sup off pre q n a b c post h,
  hs_scan sup off hs0 (pre ++ TQueueSet q n a b c :: post) = Some h ->
  has (last_status 0 pre) ST_FEATURES_OK = true /\ has (last_status 0 pre) ST_DRIVER_OK = false.
Proof.
  intros sup off pre q n a b c post h H. rewrite hs_scan_app in H.
  destruct (hs_scan sup off hs0 pre) as [h1|] eqn:H1; [|discriminate H].
  rewrite <- (hs_scan_status _ _ _ _ _ H1 : h_status h1 = last_status 0 pre).
  cbn [hs_scan hs_step] in H.
  destruct (has (h_status h1) ST_FEATURES_OK), (has (h_status h1) ST_DRIVER_OK); try discriminate H; split; reflexivity.
Qed.

(* the accepted feature set: a subset of the offered and of the supported bits, keeping VERSION_1 *)
Theorem hs_features_sound : forall sup off tr h h' f,
  hs_scan sup off h tr = Some h' -> In (TWriteFeatures f) tr ->
  subset f off = true /\ subset f sup = true /\ (bit off B_VERSION_1 = true -> bit f B_VERSION_1 = true).
Proof.
  intros sup off tr. induction tr as [|e t IH]; intros h h' f H Hin; [contradiction|].
  cbn [hs_scan] in H. destruct (hs_step sup off h e) as [h1|] eqn:Hs; [|discriminate H].
  destruct Hin as [He|Hin]; [|exact (IH _ _ _ H Hin)].
  subst e. cbn [hs_step] in Hs.
  destruct (subset f off), (subset f sup), (bit off B_VERSION_1), (bit f B_VERSION_1);
    repeat rewrite ?andb_true_r, ?andb_false_r in Hs; cbn in Hs; try discriminate Hs;
    repeat split; congruence.
Qed.

Lemma hs_step_reset : forall sup off h e h',
  hs_step sup off h e = Some h' -> h_reset h' = true -> h_reset h = true \/ e = TSetStatus 0.
Proof.
  intros sup off h e h' H Hr. destruct e; cbn [hs_step] in H;
    repeat match type of H with (if ?c then _ else _) = _ => destruct c eqn:? end;
    inversion H; subst; cbn [h_reset] in *; auto.
  - right. apply N.eqb_eq in Heqb. subst. reflexivity.
  - left. destruct (h_reset h); [reflexivity|discriminate].
Qed.

Lemma hs_reset_in : forall sup off tr h h',
  hs_scan sup off h tr = Some h' -> h_reset h' = true -> h_reset h = true \/ In (TSetStatus 0) tr.
Proof.
  intros sup off tr. induction tr as [|e t IH]; intros h h' H Hr.
  - inversion H. subst. left. exact Hr.
  - cbn [hs_scan] in H. destruct (hs_step sup off h e) as [h1|] eqn:Hs; [|discriminate H].
    destruct (IH _ _ H Hr) as [Hr1|Hin]; [|right; right; exact Hin].
    destruct (hs_step_reset _ _ _ _ _ Hs Hr1) as [Hh|He]; [left; exact Hh|right; left; exact He].
Qed.

(* status bits are only ever added after the reset, and the first status write is the reset *)
Theorem hs_status_sound : forall sup off pre s post h,
  hs_scan sup off hs0 (pre ++ TSetStatus s :: post) = Some h -> s <> 0 ->
  subset (last_status 0 pre) s = true /\ subset s 15 = true
  /\ (has s ST_DRIVER_OK = true -> has s ST_FEATURES_OK = true)
  /\ (has s ST_FEATURES_OK = true -> has s ST_DRIVER = true)
  /\ (has s ST_DRIVER = true -> has s ST_ACK = true)
  /\ In (TSetStatus 0) pre.
Proof.
  intros sup off pre s post h H Hs0. rewrite hs_scan_app in H.
  destruct (hs_scan sup off hs0 pre) as [h1|] eqn:H1; [|discriminate H].
  pose proof (hs_scan_status _ _ _ _ _ H1) as Hst. cbn [hs0 h_status] in Hst.
  assert (Hreset : h_reset h1 = true -> In (TSetStatus 0) pre).
  { intro Hr. destruct (hs_reset_in _ _ _ _ _ H1 Hr) as [Hf|Hin]; [discriminate Hf|exact Hin]. }
  cbn [hs_scan hs_step] in H. apply N.eqb_neq in Hs0. rewrite Hs0 in H.
  destruct (h_reset h1) eqn:Hr; cbn [negb] in H; [|discriminate H].
  rewrite <- Hst.
  destruct (subset s 15); cbn [negb] in H; [|discriminate H].
  destruct (subset (h_status h1) s); cbn [negb] in H; [|discriminate H].
  destruct (has s ST_DRIVER) eqn:Hd, (has s ST_ACK) eqn:Ha, (has s ST_FEATURES_OK) eqn:Hf, (has s ST_DRIVER_OK) eqn:Hk;
    cbn in H; try discriminate H; repeat split; try congruence; auto.
Qed.

(* ---------------------------------------------------------------------------------------------- *)
(* the clauses of the property, for every driver and every environment                             *)
Lemma construct_scan : forall d e,
  exists h, hs_scan (supported d) (e_offered e) hs0 (snd (construct d e)) = Some h
            /\ (is_ok (fst (construct d e)) = true -> h_status h = 15).
Proof.
  intros d e. pose proof (handshake_accept d e) as H. unfold hs_accept in H.
  destruct (hs_scan (supported d) (e_offered e) hs0 (snd (construct d e))) as [h|]; [|discriminate H].
  exists h. split; [reflexivity|]. intro Hok. rewrite Hok in H. cbn [implb] in H. apply N.eqb_eq. exact H.
Qed.

Theorem no_notify_before_driver_ok : forall d e pre q post,
  snd (construct d e) = pre ++ TNotify q :: post ->
  has (last_status 0 pre) ST_DRIVER_OK = true.
Proof.
  intros d e pre q post Heq. destruct (construct_scan d e) as [h [Hs _]]. rewrite Heq in Hs.
  exact (hs_notify_sound _ _ _ _ _ _ Hs).
Qed.

Theorem queue_set_before_driver_ok : forall d e pre q n a b c post,
  snd (construct d e) = pre ++ TQueueSet q n a b c :: post ->
  has (last_status 0 pre) ST_FEATURES_OK = true /\ has (last_status 0 pre) ST_DRIVER_OK = false.
Proof.
  intros d e pre q n a b c post Heq. destruct (construct_scan d e) as [h [Hs _]]. rewrite Heq in Hs.
  exact (hs_queue_set_sound _ _ _ _ _ _ _ _ _ _ Hs).
Qed.

Theorem ok_ends_live : forall d e,
  is_ok (fst (construct d e)) = true -> last_status 0 (snd (construct d e)) = 15.
Proof.
  intros d e Hok. destruct (construct_scan d e) as [h [Hs Hl]].
  pose proof (hs_scan_status _ _ _ _ _ Hs) as Hst. cbn [hs0 h_status] in Hst. rewrite <- Hst. exact (Hl Hok).
Qed.

Theorem features_written : forall d e f,
  In (TWriteFeatures f) (snd (construct d e)) ->
  f = N.land (e_offered e) (supported d)
  /\ subset f (e_offered e) = true /\ subset f (supported d) = true
  /\ (bit (e_offered e) B_VERSION_1 = true -> bit f B_VERSION_1 = true)
  /\ f < two64.
Proof.
  intros d e f Hin.
  assert (Hf : f = negotiated d (e_offered e)).
  { destruct (handshake_shape d e) as [[_ [_ Hp]]|[rest [Heq Hsh]]].
    - rewrite Hp in Hin. contradiction.
    - rewrite Heq in Hin. apply in_app_or in Hin. destruct Hin as [Hin|Hin].
      + cbn [handshake_prefix In] in Hin.
        repeat (destruct Hin as [Hin|Hin]; [try discriminate Hin; try (inversion Hin; reflexivity)|]); contradiction.
      + exfalso. destruct Hsh as [[mid [tail [Hr [Hm Ht]]]]|[_ Hall]].
        * rewrite Hr in Hin. apply in_app_or in Hin. destruct Hin as [Hin|Hin].
          { rewrite forallb_forall in Hm. specialize (Hm _ Hin). discriminate Hm. }
          apply in_app_or in Hin. destruct Hin as [Hin|Hin].
          { destruct Hin as [Hin|[]]. discriminate Hin. }
          rewrite forallb_forall in Ht. specialize (Ht _ Hin). discriminate Ht.
        * rewrite forallb_forall in Hall. specialize (Hall _ Hin). discriminate Hall. }
  split; [exact Hf|]. destruct (construct_scan d e) as [h [Hs _]].
  destruct (hs_features_sound _ _ _ _ _ _ Hs Hin) as [H1 [H2 H3]].
  repeat split; try assumption. rewrite Hf. apply negotiated_lt.
Qed.

(* ---------------------------------------------------------------------------------------------- *)
(* gating: the flags of every queue and of every platform call are the negotiated bits             *)
Lemma eqb_refl' : forall b, Bool.eqb b b = true.
Proof. destruct b; reflexivity. Qed.

Definition ev_noflag (e : tev) : bool :=
  match e with TQueueNew _ _ _ _ | TAlloc _ _ _ _ | TShare _ _ _ => false | _ => true end.

Lemma noflag_ok : forall f l, forallb ev_noflag l = true -> forallb (flags_ok_ev f) l = true.
Proof. intros f l. apply forallb_weaken. destruct x; cbn; congruence. Qed.

Lemma cfg_noflag : forall l, forallb ev_cfg l = true -> forallb ev_noflag l = true.
Proof. intro l. apply forallb_weaken. destruct x; cbn; congruence. Qed.

Lemma queue_new_ev_flags : forall e f a idx size,
  forallb (flags_ok_ev f) (snd (queue_new_ev e f a idx size)) = true.
Proof.
  intros. unfold queue_new_ev.
  assert (H0 : flags_ok_ev f (TQueueNew idx (bit f B_INDIRECT) (bit f B_EVENT_IDX) (bit f B_ACCESS_PLATFORM)) = true).
  { cbn [flags_ok_ev]. rewrite !eqb_refl'. reflexivity. }
  destruct (qa_used a); [cbn [snd forallb]; rewrite H0; reflexivity|].
  destruct (w32 (qa_max a) <? size); [cbn [snd forallb app]; rewrite H0; reflexivity|].
  assert (Ha : forall evs, forallb (flags_ok_ev f) (concat (map (alloc_ev (bit f B_ACCESS_PLATFORM)) evs)) = true).
  { induction evs as [|x t IH]; [reflexivity|]. cbn [map concat]. apply forallb_app_intro; [|exact IH].
    destruct x; cbn [alloc_ev forallb flags_ok_ev]; rewrite ?eqb_refl'; reflexivity. }
  destruct (allocate (legacy_layout e) size (qa_a1 a) (qa_a2 a)) as [o evs].
  destruct o; cbn [snd app forallb]; rewrite H0; cbn [flags_ok_ev andb];
    try (apply forallb_app_intro; [apply Ha|reflexivity]); apply Ha.
Qed.

Lemma exec_step_flags : forall e f s st, forallb (flags_ok_ev f) (snd (exec_step e f s st)) = true.
Proof.
  intros e f s st. destruct st; cbn [exec_step].
  - pose proof (cfg_read_events (e_cfg e) off len) as Hc. destruct (cfg_read (e_cfg e) off len) as [o ev].
    cbn [snd] in Hc. apply cfg_noflag, (noflag_ok f) in Hc. destruct o; exact Hc.
  - unfold read_consistent.
    pose proof (rc_loop_events (S (length (e_gens e))) e (i_gen s) _ (read_seq_events (e_cfg e) reads)) as Hc.
    destruct (rc_loop (S (length (e_gens e))) e (i_gen s) (read_seq (e_cfg e) reads)) as [[o ev] k].
    cbn [fst snd] in Hc. apply cfg_noflag, (noflag_ok f) in Hc. destruct o; exact Hc.
  - unfold read_consistent.
    pose proof (rc_loop_events (S (length (e_gens e))) e (i_gen s) _ (tag_body_events (e_cfg e) (e_utf8 e))) as Hc.
    destruct (rc_loop (S (length (e_gens e))) e (i_gen s) (tag_body (e_cfg e) (e_utf8 e))) as [[o ev] k].
    cbn [fst snd] in Hc. apply cfg_noflag, (noflag_ok f) in Hc. destruct o; exact Hc.
  - pose proof (queue_new_ev_flags e f (hd qa_default (i_qans s)) idx size) as Hq.
    destruct (queue_new_ev e f (hd qa_default (i_qans s)) idx size) as [o ev]. destruct o; exact Hq.
  - cbn [snd]. apply repeat_forallb. cbn [flags_ok_ev]. apply eqb_refl'.
  - destruct (len <? 1526); reflexivity.
  - destruct (should_notify_at _ _ _ _); reflexivity.
  - reflexivity.
Qed.

Lemma interp_flags : forall e f sc s, forallb (flags_ok_ev f) (snd (interp e f s sc)) = true.
Proof.
  intros e f sc. induction sc as [|st rest IH]; intro s; [reflexivity|].
  cbn [interp]. pose proof (exec_step_flags e f s st) as Hs.
  destruct (exec_step e f s st) as [r ev]. cbn [snd] in Hs. destruct r as [s'|o]; [|exact Hs].
  specialize (IH s'). destruct (interp e f s' rest) as [o ev']. cbn [snd] in *.
  apply forallb_app_intro; assumption.
Qed.

Theorem construct_flags : forall d e,
  flags_ok_b (negotiated d (e_offered e)) (snd (construct d e)) = true.
Proof.
  intros d e. unfold flags_ok_b.
  assert (G : forall sc, forallb (flags_ok_ev (negotiated d (e_offered e))) (snd (run_body e (supported d) sc)) = true).
  { intro sc. rewrite run_body_eq. cbn [snd]. apply forallb_app_intro; [reflexivity|apply interp_flags]. }
  unfold construct. destruct d; try apply G. destruct (e_p1 e <=? 44); [reflexivity|apply G].
Qed.

(* as propositions *)
Theorem queue_flags : forall d e q i v a,
  In (TQueueNew q i v a) (snd (construct d e)) ->
  i = bit (N.land (e_offered e) (supported d)) 28
  /\ v = bit (N.land (e_offered e) (supported d)) 29
  /\ a = bit (N.land (e_offered e) (supported d)) 33.
Proof.
  intros d e q i v a Hin. pose proof (construct_flags d e) as H. unfold flags_ok_b in H.
  rewrite forallb_forall in H. specialize (H _ Hin). cbn [flags_ok_ev] in H.
  apply andb_prop in H. destruct H as [H Ha]. apply andb_prop in H. destruct H as [Hi Hv].
  apply Bool.eqb_prop in Hi, Hv, Ha. repeat split; assumption.
Qed.

Theorem platform_flags : forall d e,
  (forall p dr a ap, In (TAlloc p dr a ap) (snd (construct d e)) -> ap = bit (N.land (e_offered e) (supported d)) 33)
  /\ (forall l dr ap, In (TShare l dr ap) (snd (construct d e)) -> ap = bit (N.land (e_offered e) (supported d)) 33).
Proof.
  intros d e. pose proof (construct_flags d e) as H. unfold flags_ok_b in H. rewrite forallb_forall in H.
  split; intros; match goal with Hin : In _ _ |- _ => specialize (H _ Hin) end; cbn [flags_ok_ev] in H;
    apply Bool.eqb_prop in H; exact H.
Qed.

(* the queues a successful constructor registers *)
Definition stmt_queues (sc : list stmt) : list (N * N) :=
  concat (map (fun s => match s with SQueue i n => [(i, n)] | _ => [] end) sc).

Lemma queues_of_app : forall l1 l2, queues_of (l1 ++ l2) = queues_of l1 ++ queues_of l2.
Proof. intros. unfold queues_of. rewrite map_app, concat_app. reflexivity. Qed.

Lemma queues_of_cons : forall e l,
  queues_of (e :: l) = match e with TQueueSet q n _ _ _ => [(q, n)] | _ => [] end ++ queues_of l.
Proof. intros. reflexivity. Qed.

Lemma queues_of_none : forall l, forallb ev_post l = true -> queues_of l = [].
Proof.
  induction l as [|e t IH]; intro H; [reflexivity|]. cbn [forallb] in H. apply andb_prop in H.
  destruct H as [He Ht]. unfold queues_of in *. cbn [map concat]. rewrite (IH Ht).
  destruct e; try discriminate He; reflexivity.
Qed.

Lemma cfg_post : forall l, forallb ev_cfg l = true -> forallb ev_post l = true.
Proof. intro l. apply forallb_weaken. exact ev_cfg_post. Qed.

Lemma alloc_evs_queues : forall ap evs,
  (forall x, In x evs -> match x with EvQueueSet _ _ _ _ _ => False | _ => True end) ->
  queues_of (concat (map (alloc_ev ap) evs)) = [].
Proof.
  intros ap evs. induction evs as [|x t IH]; intro H; [reflexivity|].
  cbn [map concat]. rewrite queues_of_app, IH by (intros y Hy; apply H; right; exact Hy).
  pose proof (H x (or_introl eq_refl)) as Hx. destruct x; try contradiction; reflexivity.
Qed.

Lemma queue_new_ev_queues : forall e f a idx size ev,
  queue_new_ev e f a idx size = (Ok 0, ev) -> queues_of ev = [(idx, size)].
Proof.
  intros e f a idx size ev H. unfold queue_new_ev in H.
  destruct (qa_used a); [inversion H|].
  destruct (w32 (qa_max a) <? size); [inversion H|].
  pose proof (allocate_no_queue_set (legacy_layout e) size (qa_a1 a) (qa_a2 a)) as Hq.
  destruct (allocate (legacy_layout e) size (qa_a1 a) (qa_a2 a)) as [o evs]. cbn [snd] in Hq.
  destruct o; inversion H. subst ev.
  rewrite !queues_of_cons, queues_of_app, (alloc_evs_queues _ _ Hq). reflexivity.
Qed.

Lemma queue_new_ev_ok0 : forall e f a idx size v ev,
  queue_new_ev e f a idx size = (Ok v, ev) -> v = 0.
Proof.
  intros e f a idx size v ev H. unfold queue_new_ev in H.
  destruct (qa_used a); [inversion H|]. destruct (w32 (qa_max a) <? size); [inversion H|].
  destruct (allocate (legacy_layout e) size (qa_a1 a) (qa_a2 a)) as [o evs]. destruct o; inversion H; reflexivity.
Qed.

Lemma exec_step_queues : forall e f s st s' ev,
  exec_step e f s st = (RCont s', ev) ->
  queues_of ev = match st with SQueue i n => [(i, n)] | _ => [] end.
Proof.
  intros e f s st s' ev H. destruct st; cbn [exec_step] in H.
  - pose proof (cfg_read_events (e_cfg e) off len) as Hc. destruct (cfg_read (e_cfg e) off len) as [o ev0].
    cbn [snd] in Hc. destruct o; inversion H; subst. apply queues_of_none, cfg_post, Hc.
  - unfold read_consistent in H.
    pose proof (rc_loop_events (S (length (e_gens e))) e (i_gen s) _ (read_seq_events (e_cfg e) reads)) as Hc.
    destruct (rc_loop (S (length (e_gens e))) e (i_gen s) (read_seq (e_cfg e) reads)) as [[o ev0] k].
    cbn [fst snd] in Hc. destruct o; inversion H; subst. apply queues_of_none, cfg_post, Hc.
  - unfold read_consistent in H.
    pose proof (rc_loop_events (S (length (e_gens e))) e (i_gen s) _ (tag_body_events (e_cfg e) (e_utf8 e))) as Hc.
    destruct (rc_loop (S (length (e_gens e))) e (i_gen s) (tag_body (e_cfg e) (e_utf8 e))) as [[o ev0] k].
    cbn [fst snd] in Hc. destruct o; inversion H; subst. apply queues_of_none, cfg_post, Hc.
  - destruct (queue_new_ev e f (hd qa_default (i_qans s)) idx size) as [o ev0] eqn:Hq.
    destruct o; inversion H; subst. pose proof (queue_new_ev_ok0 _ _ _ _ _ _ _ Hq). subst.
    exact (queue_new_ev_queues _ _ _ _ _ _ Hq).
  - inversion H. apply queues_of_none, repeat_forallb. reflexivity.
  - destruct (len <? 1526); inversion H. reflexivity.
  - destruct (should_notify_at _ _ _ _); inversion H; reflexivity.
  - inversion H. reflexivity.
Qed.

Lemma interp_queues : forall e f sc s,
  is_ok (fst (interp e f s sc)) = true -> queues_of (snd (interp e f s sc)) = stmt_queues sc.
Proof.
  intros e f sc. induction sc as [|st rest IH]; intros s Hok; [reflexivity|].
  cbn [interp] in *. pose proof (exec_step_queues e f s st) as Hq.
  pose proof (exec_step_stop e f s st) as Hstop.
  destruct (exec_step e f s st) as [r ev]. destruct r as [s'|o].
  - specialize (IH s'). destruct (interp e f s' rest) as [o ev']. cbn [fst snd] in *.
    rewrite queues_of_app, (Hq s' ev eq_refl), (IH Hok). unfold stmt_queues. cbn [map concat]. reflexivity.
  - cbn [fst] in Hok. rewrite (Hstop o ev eq_refl) in Hok. discriminate Hok.
Qed.

Lemma net_post_queues : forall q l, stmt_queues (net_post q l) = [].
Proof.
  intros q l. unfold net_post. generalize (seqN 0 (cnt q)). intro xs.
  induction xs as [|i t IH]; [reflexivity|]. unfold stmt_queues in *. cbn [map concat app]. exact IH.
Qed.

Lemma body_queues : forall d p1 p2, stmt_queues (body d p1 p2) = expected_queues d p1.
Proof.
  intros d p1 p2. destruct d; try reflexivity.
  cbn [body]. unfold stmt_queues. rewrite map_app, concat_app.
  change (concat (map (fun s => match s with SQueue i n => [(i, n)] | _ => [] end) (net_post p1 p2)))
    with (stmt_queues (net_post p1 p2)). rewrite net_post_queues. reflexivity.
Qed.

Theorem construct_queues : forall d e,
  is_ok (fst (construct d e)) = true -> queues_of (snd (construct d e)) = expected_queues d (e_p1 e).
Proof.
  intros d e.
  assert (G : forall sc, is_ok (fst (run_body e (supported d) sc)) = true ->
                         queues_of (snd (run_body e (supported d) sc)) = stmt_queues sc).
  { intros sc. rewrite run_body_eq. cbn [fst snd]. intro Hok. rewrite queues_of_app, (interp_queues _ _ _ _ Hok). reflexivity. }
  unfold construct. destruct d; try (intro Hok; rewrite (G _ Hok); apply body_queues).
  destruct (e_p1 e <=? 44); [discriminate|]. intro Hok; rewrite (G _ Hok); apply body_queues.
Qed.

(* ---------------------------------------------------------------------------------------------- *)
(* feature-gated operations                                                                        *)
Definition gop_code (o : gop) : N :=
  match o with
  | GBlkReadonly => 1 | GBlkFlush => 2 | GConsoleSize => 3 | GConsoleEmergWrite => 4 | GGpuGetEdid => 5
  | GNetHeader => 6 | GNetSend _ => 7 | GRngRequest _ => 8
  | GGpuEdidVia e => if e =? 10 then 10 else 9 | GNetRecvHdr => 11 | GNetTxBegin _ => 12 | GBlkFill => 13
  end.
Definition out_class (o : outcome N) : N := match o with Ok _ => 0 | Err _ => 1 | Panic => 2 | UB => 3 end.
Definition out_value (o : outcome N) : N := match o with Ok v => v | Err c => c | _ => 0 end.

Theorem blk_readonly_gate : forall f cfg g, gop_run f cfg g GBlkReadonly = (Ok (b2n (bit f 5)), [], 0).
Proof. reflexivity. Qed.

Theorem blk_flush_gate : forall f cfg g,
  (bit f 9 = false -> gop_run f cfg g GBlkFlush = (Ok 0, [], 0))
  /\ (bit f 9 = true -> exists ev, gop_run f cfg g GBlkFlush = (Ok 0, ev, used_event_after f)
                                   /\ In (TNotify 0) ev /\ In (TShare 16 DIR_TO_DEV (bit f 33)) ev).
Proof.
  intros f cfg g. cbn [gop_run]. split; intro H; rewrite H; [reflexivity|].
  eexists. split; [reflexivity|]. unfold chain_ev. destruct (bit f B_INDIRECT); cbn; auto 10.
Qed.

Theorem console_size_gate : forall f cfg g,
  (bit f 0 = false -> gop_run f cfg g GConsoleSize = (Ok 0, [], 0))
  /\ (bit f 0 = true -> forall o ev ue, gop_run f cfg g GConsoleSize = (o, ev, ue) ->
        In (TReadConfig 0 2 (cfg_ok cfg 0 2)) ev).
Proof.
  intros f cfg g. cbn [gop_run]. split; intro H; rewrite H; [reflexivity|].
  intros o ev ue. cbn [read_seq]. unfold cfg_read.
  destruct (cfg_ok cfg 0 2); [destruct (cfg_ok cfg 2 2)|]; intro Heq; inversion Heq; cbn; auto.
Qed.

Theorem console_emerg_gate : forall f cfg g,
  (bit f 2 = false -> gop_run f cfg g GConsoleEmergWrite = (Err EUnsupported, [], 0))
  /\ (bit f 2 = true -> snd (fst (gop_run f cfg g GConsoleEmergWrite)) = [TWriteConfig 8 4]).
Proof. intros f cfg g. cbn [gop_run]. split; intro H; rewrite H; reflexivity. Qed.

Theorem gpu_edid_gate : forall f cfg g,
  (bit f 1 = false -> gop_run f cfg g GGpuGetEdid = (Err EUnsupported, [], 0))
  /\ (bit f 1 = true -> In (TNotify 0) (snd (fst (gop_run f cfg g GGpuGetEdid)))).
Proof.
  intros f cfg g. cbn [gop_run]. split; intro H; rewrite H; [reflexivity|].
  cbn [fst snd]. unfold chain_ev. destruct (bit f B_INDIRECT); cbn; auto 10.
Qed.

(* the network header has its 12-byte form exactly when VERSION_1 was negotiated, i.e. offered *)
Theorem net_header_gate : forall d off cfg g,
  d = DNetRaw \/ d = DNet ->
  gop_run (negotiated d off) cfg g GNetHeader = (Ok (if bit off B_VERSION_1 then 12 else 10), [], 0)
  /\ (forall len, exists rest,
        snd (fst (gop_run (negotiated d off) cfg g (GNetSend len))) =
        TShare (if bit off B_VERSION_1 then 12 else 10) DIR_TO_DEV (bit (negotiated d off) 33) :: rest)
  /\ bit (supported d) 15 = false.
Proof.
  intros d off cfg g Hd. cbn [gop_run].
  assert (Hb : bit (negotiated d off) B_VERSION_1 = bit off B_VERSION_1).
  { rewrite bit_negotiated, supported_version1. apply andb_true_r. }
  rewrite Hb. repeat split.
  - intro len. unfold chain_ev. cbn [map app]. eexists. reflexivity.
  - destruct Hd; subst d; reflexivity.
Qed.

(* the gating monitor holds of every operation of the model *)
Ltac split_bits f :=
  repeat match goal with
         | |- context [bit f ?k] => let H := fresh "Hb" in destruct (bit f k) eqn:H; cbn -[bit cfg_ok cfg_val N.mul N.add] in *
         end.

Theorem gop_conforms : forall f cfg g o si,
  (si = true -> bit f B_INDIRECT = true) ->
  gate_ok_b f (gop_code o) (out_class (fst (fst (gop_run f cfg g o)))) (out_value (fst (fst (gop_run f cfg g o))))
            si (snd (gop_run f cfg g o)) (snd (fst (gop_run f cfg g o))) = true.
Proof.
  intros f cfg g o si Hsi.
  unfold B_INDIRECT, B_EVENT_IDX, B_ACCESS_PLATFORM, B_VERSION_1 in *.
  destruct si; [specialize (Hsi eq_refl)|clear Hsi].
  all: destruct o; unfold gate_ok_b, gop_run, gop_code, chain_ev, used_event_after, flags_ok_ev, table_shared, first_share_len,
         B_INDIRECT, B_EVENT_IDX, B_ACCESS_PLATFORM, B_VERSION_1 in *.
  all: try rewrite Hsi.
  all: try match goal with |- context [if ?l =? 0 then [] else [?l]] => destruct (l =? 0) end.
  all: try match goal with |- context [if ?e =? 10 then 10 else 9] => destruct (e =? 10) end.
  all: cbn -[bit cfg_ok cfg_val N.mul N.add read_seq].
  all: split_bits f.
  all: try reflexivity.
  all: unfold cfg_read; destruct (cfg_ok cfg 0 2); [destruct (cfg_ok cfg 2 2)|];
       cbn -[bit cfg_val N.mul N.add]; try reflexivity.
  all: repeat match goal with
              | |- context [?x =? 0] =>
                  match x with
                  | 1 + _ => replace (x =? 0) with false by (symmetry; apply N.eqb_neq; lia)
                  end
              end; try reflexivity.
Qed.

(* ---------------------------------------------------------------------------------------------- *)
(* VirtIOInput::new before its repair: the notification clause is refuted, the rest holds          *)
Definition good_qans (n : nat) : list qans :=
  map (fun i => mkQa false 256 (0x40000000 + 0x10000 * i) (0x40008000 + 0x10000 * i) 0 0) (seqN 0 n).
Definition env_plain (off : N) : env := mkEnv Debug TKModel false off [] [] (good_qans 4) 8 2048 true.

Theorem input_prefix_refuted :
  exists e pre q post,
    e_offered e < two64
    /\ fst (construct_input_prefix e) = Ok 0
    /\ snd (construct_input_prefix e) = pre ++ TNotify q :: post
    /\ has (last_status 0 pre) ST_DRIVER_OK = false
    /\ hs_accept (supported DInput) (e_offered e) true (snd (construct_input_prefix e)) = false.
Proof.
  exists (env_plain 0).
  exists (firstn 50 (snd (construct_input_prefix (env_plain 0)))), 0,
         (skipn 51 (snd (construct_input_prefix (env_plain 0)))).
  vm_compute. repeat split; reflexivity.
Qed.

(* the strongest statement true of the unrepaired constructor: apart from that notification the
   sequence is the prescribed one (reset, ACKNOWLEDGE|DRIVER, features, FEATURES_OK, queues, DRIVER_OK) *)
Definition pre_stmt_lax (s : stmt) : bool := pre_stmt s || match s with SNotifyIf _ _ => true | _ => false end.
Definition ev_pre_lax (e : tev) : bool := ev_pre e || match e with TNotify _ => true | _ => false end.

Lemma drop_notify_app : forall l1 l2, drop_notify (l1 ++ l2) = drop_notify l1 ++ drop_notify l2.
Proof. intros. unfold drop_notify. apply filter_app. Qed.

Lemma drop_notify_pre : forall l, forallb ev_pre_lax l = true -> forallb ev_pre (drop_notify l) = true.
Proof.
  induction l as [|e t IH]; intro H; [reflexivity|]. cbn [forallb] in H. apply andb_prop in H.
  destruct H as [He Ht]. unfold drop_notify in *. cbn [filter].
  destruct e; cbn [forallb ev_pre andb]; try (apply IH; exact Ht); try discriminate He.
Qed.

Lemma drop_notify_post : forall l, forallb ev_post l = true -> forallb ev_post (drop_notify l) = true.
Proof.
  induction l as [|e t IH]; intro H; [reflexivity|]. cbn [forallb] in H. apply andb_prop in H.
  destruct H as [He Ht]. unfold drop_notify in *. cbn [filter].
  destruct e; cbn [forallb ev_post andb]; try (apply IH; exact Ht); try discriminate He.
Qed.

Lemma exec_step_pre_lax : forall e f s st, pre_stmt_lax st = true -> forallb ev_pre_lax (snd (exec_step e f s st)) = true.
Proof.
  intros e f s st H. destruct (pre_stmt st) eqn:Hp.
  - apply (forallb_weaken ev_pre); [|apply exec_step_pre; exact Hp].
    intros x Hx. unfold ev_pre_lax. rewrite Hx. reflexivity.
  - destruct st; try discriminate H; try discriminate Hp. cbn [exec_step].
    destruct (should_notify_at _ _ _ _); reflexivity.
Qed.

Theorem input_prefix_partial : forall e,
  hs_accept (supported DInput) (e_offered e) (is_ok (fst (construct_input_prefix e)))
            (drop_notify (snd (construct_input_prefix e))) = true.
Proof.
  intro e. unfold construct_input_prefix. rewrite run_body_eq. cbn [fst snd]. unfold hs_accept.
  rewrite drop_notify_app.
  change (drop_notify [TSetStatus 0; TSetStatus 3; TReadFeatures (e_offered e);
                       TWriteFeatures (negotiated DInput (e_offered e)); TSetStatus 11; TGuestPageSize 4096])
    with [TSetStatus 0; TSetStatus 3; TReadFeatures (e_offered e);
          TWriteFeatures (negotiated DInput (e_offered e)); TSetStatus 11; TGuestPageSize 4096].
  rewrite hs_scan_app, scan_begin_init.
  set (f := negotiated DInput (e_offered e)).
  (* the five statements one after the other *)
  unfold input_body_prefix.
  assert (G : forall sc s,
    forallb pre_stmt_lax sc = true ->
    forallb ev_pre_lax (snd (interp e f s sc)) = true
    /\ (is_ok (fst (interp e f s sc)) = true -> True)).
  { intros sc. induction sc as [|st rest IH]; intros s Hsc; [split; [reflexivity|trivial]|].
    cbn [forallb] in Hsc. apply andb_prop in Hsc. destruct Hsc as [Hst Hrest]. cbn [interp].
    pose proof (exec_step_pre_lax e f s st Hst) as Hs. destruct (exec_step e f s st) as [r ev]. cbn [snd] in Hs.
    destruct r as [s'|o]; [|split; [exact Hs|trivial]].
    destruct (IH s' Hrest) as [Ha _]. destruct (interp e f s' rest) as [o ev']. cbn [snd] in *.
    split; [apply forallb_app_intro; assumption|trivial]. }
  (* split the body at finish_init *)
  change [SQueue 0 32; SQueue 1 32; SPost 32 8; SNotifyIf 0 32; SFinish]
    with ([SQueue 0 32; SQueue 1 32; SPost 32 8; SNotifyIf 0 32] ++ [SFinish]).
  assert (Hsplit : forall sc1 s,
    (exists s' , snd (interp e f s (sc1 ++ [SFinish])) = snd (interp e f s sc1) ++ finish_init
                 /\ is_ok (fst (interp e f s sc1)) = true /\ s' = s)
    \/ (snd (interp e f s (sc1 ++ [SFinish])) = snd (interp e f s sc1)
        /\ is_ok (fst (interp e f s (sc1 ++ [SFinish]))) = false)).
  { induction sc1 as [|st rest IH]; intro s.
    - left. exists s. cbn. repeat split; reflexivity.
    - cbn [app interp]. pose proof (exec_step_stop e f s st) as Hstop.
      destruct (exec_step e f s st) as [r ev]. destruct r as [s'|o].
      + destruct (IH s') as [[s2 [H1 [H2 _]]]|[H1 H2]];
          destruct (interp e f s' (rest ++ [SFinish])) as [o1 ev1]; destruct (interp e f s' rest) as [o2 ev2];
          cbn [fst snd] in *.
        * left. exists s. rewrite H1, app_assoc. repeat split; try reflexivity. exact H2.
        * right. rewrite H1. split; [reflexivity|exact H2].
      + right. cbn [fst snd]. split; [reflexivity|]. apply (Hstop o ev). reflexivity. }
  destruct (G [SQueue 0 32; SQueue 1 32; SPost 32 8; SNotifyIf 0 32] (ist0 e) eq_refl) as [Hlax _].
  destruct (Hsplit [SQueue 0 32; SQueue 1 32; SPost 32 8; SNotifyIf 0 32] (ist0 e)) as [[s2 [H1 [H2 _]]]|[H1 H2]].
  - rewrite H1, drop_notify_app, hs_scan_app, (scan_pre _ _ _ (drop_notify_pre _ Hlax)).
    change (drop_notify finish_init) with finish_init. rewrite scan_finish. cbn. apply Bool.implb_true_r.
  - rewrite H1, (scan_pre _ _ _ (drop_notify_pre _ Hlax)), H2. reflexivity.
Qed.

(* ---------------------------------------------------------------------------------------------- *)
(* read_consistent never runs out of the fuel the model gives it                                   *)
Lemma gen_nth_beyond : forall gens k, (length gens <= k)%nat -> gen_nth gens k = w32 (last gens 0).
Proof. intros gens k H. unfold gen_nth. rewrite nth_overflow by exact H. reflexivity. Qed.

Lemma nth_last_eq : forall (l : list N) k d d', length l = S k -> nth k l d = last l d'.
Proof.
  induction l as [|a t IH]; intros k d d' H; [discriminate H|].
  destruct t as [|b t'].
  - cbn in H. injection H as H. subst k. reflexivity.
  - destruct k as [|k']; [cbn in H; discriminate H|]. cbn [length] in H. injection H as H.
    cbn [nth]. change (last (a :: b :: t') d') with (last (b :: t') d'). apply IH. cbn [length]. f_equal. exact H.
Qed.

Lemma gen_nth_last : forall gens k, (length gens <= S k)%nat -> gen_nth gens k = w32 (last gens 0).
Proof.
  intros gens k H. destruct (Nat.eq_dec (length gens) (S k)) as [He|Hne].
  - unfold gen_nth. f_equal. apply nth_last_eq. exact He.
  - apply gen_nth_beyond. lia.
Qed.

Lemma rc_loop_fuel : forall fuel e k body,
  (0 < fuel)%nat -> (length (e_gens e) < k + 2 * fuel)%nat ->
  fst (fst (rc_loop fuel e k body)) = fst body.
Proof.
  induction fuel as [|fuel IH]; intros e k body Hpos Hf.
  - exfalso. lia.
  - cbn [rc_loop]. unfold gen_read. destruct (e_tk e) eqn:Htk.
    + destruct (gen_nth (e_gens e) k =? gen_nth (e_gens e) (S k)) eqn:Heq; [reflexivity|].
      assert (Hk : (S (S k) <= length (e_gens e))%nat).
      { destruct (le_lt_dec (S (S k)) (length (e_gens e))) as [Hle|Hlt]; [exact Hle|]. exfalso.
        rewrite (gen_nth_last (e_gens e) k), (gen_nth_beyond (e_gens e) (S k)) in Heq by lia.
        rewrite N.eqb_refl in Heq. discriminate Heq. }
      specialize (IH e (S (S k)) body). destruct (rc_loop fuel e (S (S k)) body) as [[o evs] k'].
      cbn [fst] in *. apply IH; lia.
    + rewrite N.eqb_refl. reflexivity.
    + destruct (gen_nth (e_gens e) k =? gen_nth (e_gens e) (S k)) eqn:Heq; [reflexivity|].
      assert (Hk : (S (S k) <= length (e_gens e))%nat).
      { destruct (le_lt_dec (S (S k)) (length (e_gens e))) as [Hle|Hlt]; [exact Hle|]. exfalso.
        rewrite (gen_nth_last (e_gens e) k), (gen_nth_beyond (e_gens e) (S k)) in Heq by lia.
        rewrite N.eqb_refl in Heq. discriminate Heq. }
      specialize (IH e (S (S k)) body). destruct (rc_loop fuel e (S (S k)) body) as [[o evs] k'].
      cbn [fst] in *. apply IH; lia.
    + (* TKPci: as the modern MMIO transport *)
      destruct (gen_nth (e_gens e) k =? gen_nth (e_gens e) (S k)) eqn:Heq; [reflexivity|].
      assert (Hk : (S (S k) <= length (e_gens e))%nat).
      { destruct (le_lt_dec (S (S k)) (length (e_gens e))) as [Hle|Hlt]; [exact Hle|]. exfalso.
        rewrite (gen_nth_last (e_gens e) k), (gen_nth_beyond (e_gens e) (S k)) in Heq by lia.
        rewrite N.eqb_refl in Heq. discriminate Heq. }
      specialize (IH e (S (S k)) body). destruct (rc_loop fuel e (S (S k)) body) as [[o evs] k'].
      cbn [fst] in *. apply IH; lia.
Qed.

Theorem read_consistent_result : forall e k body, fst (fst (read_consistent e k body)) = fst body.
Proof. intros. unfold read_consistent. apply rc_loop_fuel; lia. Qed.

(* ---------------------------------------------------------------------------------------------- *)
(* should_notify_at is VirtQueue::should_notify of the queue model (Model/Queue.v)                  *)
From VD Require Model.Queue.
Theorem should_notify_at_is_queue_model : forall (s : Queue.qstate) aevent uflags,
  should_notify_at (Queue.q_event_idx s) (Queue.q_avail_idx s) aevent uflags
  = Queue.should_notify s aevent uflags.
Proof. intros. reflexivity. Qed.

(* ---------------------------------------------------------------------------------------------- *)
(* on the real MMIO transport (composition with the register model of C10)                        *)
Definition statuses (tr : list tev) : list N :=
  concat (map (fun e => match e with TSetStatus s => [s] | _ => [] end) tr).
Definition status_writes (l : list access) : list N :=
  concat (map (fun a => if a_write a && (a_off a =? S_Status) then [a_val a] else []) l).

Lemma accesses_of_app : forall l1 l2, accesses_of (l1 ++ l2) = accesses_of l1 ++ accesses_of l2.
Proof. intros. unfold accesses_of. rewrite map_app, concat_app. reflexivity. Qed.
Lemma status_writes_app : forall l1 l2, status_writes (l1 ++ l2) = status_writes l1 ++ status_writes l2.
Proof. intros. unfold status_writes. rewrite map_app, concat_app. reflexivity. Qed.
Lemma accesses_of_racc : forall l, accesses_of (map RAcc l) = l.
Proof. induction l as [|a t IH]; [reflexivity|]. unfold accesses_of in *. cbn [map concat app]. rewrite IH. reflexivity. Qed.

(* config-space reads never touch the registers the handshake is made of *)
Definition above_header (a : access) : bool := (CONFIG_SPACE_OFFSET <=? a_off a) && negb (a_write a).

Lemma read_slice_above : forall fuel cfg off len, forallb above_header (read_slice fuel cfg off len) = true.
Proof.
  induction fuel as [|k IH]; intros cfg off len; [reflexivity|]. cbn [read_slice].
  assert (Hh : forall w v, above_header (mkAcc false (CONFIG_SPACE_OFFSET + off) w v) = true).
  { intros. unfold above_header. cbn [a_off a_write negb]. rewrite andb_true_r. apply N.leb_le. lia. }
  repeat match goal with |- context [if ?c then _ else _] => destruct c end;
    cbn [forallb]; rewrite ?Hh, ?IH; reflexivity.
Qed.

Lemma cfg_accesses_above : forall cfg off len, forallb above_header (cfg_accesses cfg off len) = true.
Proof.
  intros. unfold cfg_accesses. destruct (_ || _).
  - cbn [forallb]. unfold above_header. cbn [a_off a_write negb]. rewrite !andb_true_r. apply N.leb_le. lia.
  - apply read_slice_above.
Qed.

Lemma above_no_status : forall l, forallb above_header l = true -> status_writes l = [].
Proof.
  induction l as [|a t IH]; intro H; [reflexivity|]. cbn [forallb] in H. apply andb_prop in H. destruct H as [Ha Ht].
  unfold status_writes in *. cbn [map concat]. rewrite (IH Ht).
  unfold above_header in Ha. apply andb_prop in Ha. destruct Ha as [_ Hw]. destruct (a_write a); [discriminate Hw|reflexivity].
Qed.

Lemma lower1_status : forall m v cfg e,
  status_writes (accesses_of (snd (lower1 m v cfg e))) = match e with TSetStatus s => [s] | _ => [] end.
Proof.
  intros m v cfg e. destruct e; cbn [lower1 snd]; unfold acc_of; rewrite ?accesses_of_racc; try reflexivity;
    try (destruct v; reflexivity).
  - destruct v; cbn [exec].
    + destruct (legacy_queue_set_checks m size desc drv dev); cbn [snd]; rewrite accesses_of_racc; reflexivity.
    + cbn [snd]. rewrite accesses_of_racc. reflexivity.
  - destruct ok; [|reflexivity]. rewrite accesses_of_racc. apply above_no_status, cfg_accesses_above.
Qed.

(* the status register is written with the same values in the same order; when the legacy queue_set
   asserts stop the constructor, with a prefix of them *)
Theorem lower_statuses : forall m v cfg tr,
  exists rest, statuses tr = status_writes (accesses_of (snd (lower m v cfg tr))) ++ rest
               /\ (fst (lower m v cfg tr) = false -> rest = []).
Proof.
  intros m v cfg tr. induction tr as [|e t IH]; [exists []; split; reflexivity|].
  cbn [lower]. pose proof (lower1_status m v cfg e) as H1.
  destruct (lower1 m v cfg e) as [p l]. cbn [snd] in H1. destruct IH as [rest [Hr Hn]].
  unfold statuses in *. cbn [map concat]. destruct p.
  - cbn [fst snd]. rewrite H1. exists (concat (map (fun e0 => match e0 with TSetStatus s => [s] | _ => [] end) t)).
    split; [reflexivity|discriminate].
  - destruct (lower m v cfg t) as [p' l']. cbn [fst snd] in *.
    rewrite accesses_of_app, status_writes_app, H1, Hr. exists rest. split; [rewrite app_assoc; reflexivity|exact Hn].
Qed.

(* a QueueNotify write comes from a notify call, a Status write from a set_status call: together with
   no_notify_before_driver_ok, no register-level notification precedes Status := 15 *)
Definition notify_writes (l : list access) : list N :=
  concat (map (fun a => if a_write a && (a_off a =? S_QueueNotify) then [a_val a] else []) l).

Lemma lower1_notify : forall m v cfg e,
  notify_writes (accesses_of (snd (lower1 m v cfg e))) = match e with TNotify q => [q] | _ => [] end.
Proof.
  intros m v cfg e. destruct e; cbn [lower1 snd]; unfold acc_of; rewrite ?accesses_of_racc; try reflexivity;
    try (destruct v; reflexivity).
  - destruct v; cbn [exec].
    + destruct (legacy_queue_set_checks m size desc drv dev); cbn [snd]; rewrite accesses_of_racc; reflexivity.
    + cbn [snd]. rewrite accesses_of_racc. reflexivity.
  - destruct ok; [|reflexivity]. rewrite accesses_of_racc.
    pose proof (cfg_accesses_above cfg off len) as H. induction (cfg_accesses cfg off len) as [|a t IH]; [reflexivity|].
    cbn [forallb] in H. apply andb_prop in H. destruct H as [Ha Ht]. unfold notify_writes in *. cbn [map concat].
    rewrite (IH Ht). unfold above_header in Ha. apply andb_prop in Ha. destruct Ha as [_ Hw].
    destruct (a_write a); [discriminate Hw|reflexivity].
Qed.

(* the decoder of the specification's register table reads the lowered trace back as an accepted
   initialisation sequence *)
Definition wide_ok (e : tev) : bool := match e with TWriteFeatures f => f <? two64 | _ => true end.

Fixpoint lift_state (s : lst) (l : list access) : lst :=
  match l with
  | [] => s
  | a :: t => lift_state (fst (lift1 s a)) t
  end.

Lemma lift_app : forall l1 l2 s, lift s (l1 ++ l2) = lift s l1 ++ lift (lift_state s l1) l2.
Proof.
  induction l1 as [|a t IH]; intros l2 s; [reflexivity|].
  cbn [app lift lift_state]. destruct (lift1 s a) as [s' ev]. cbn [fst]. rewrite IH, app_assoc. reflexivity.
Qed.

Lemma lift_above : forall l s, forallb above_header l = true -> lift s l = [].
Proof.
  induction l as [|a t IH]; intros s H; [reflexivity|]. cbn [forallb] in H. apply andb_prop in H. destruct H as [Ha Ht].
  cbn [lift]. unfold above_header in Ha. apply andb_prop in Ha. destruct Ha as [Ho Hw].
  unfold lift1. destruct (a_write a); [discriminate Hw|].
  assert (Hne : (a_off a =? S_DeviceFeatures) = false).
  { apply N.eqb_neq. apply N.leb_le in Ho. unfold CONFIG_SPACE_OFFSET, S_DeviceFeatures in *. lia. }
  rewrite Hne. cbn [app]. apply IH. exact Ht.
Qed.

Lemma recombine : forall f, f < two64 -> w32 f + 4294967296 * w32 (N.shiftr f 32) = f.
Proof.
  intros f Hf. unfold w32, two64 in *. rewrite N.shiftr_div_pow2. change (2 ^ 32) with 4294967296.
  rewrite (N.mod_small (f / 4294967296)) by lia. lia.
Qed.

(* one Transport call: what the decoder reads back drives the automaton exactly as the call does *)
Lemma lift_lower1 : forall sup off m v cfg e s h h',
  wide_ok e = true -> hs_step sup off h e = Some h' ->
  hs_scan sup off h (lift s (accesses_of (snd (lower1 m v cfg e)))) = Some h'.
Proof.
  intros sup off m v cfg e s h h' Hw Hs.
  destruct e; cbn [lower1 snd]; unfold acc_of; rewrite ?accesses_of_racc.
  - (* set_status *)
    assert (Hl : lift s (snd (exec m v 0 (OSetStatus s0) [])) = [TSetStatus s0]) by (destruct v; reflexivity).
    rewrite Hl. cbn [hs_scan]. rewrite Hs. reflexivity.
  - (* read_device_features: the two halves *)
    assert (Hl : exists x y, lift s (snd (exec m v 0 OReadDeviceFeatures [w32 answer; N.shiftr answer 32]))
                             = [TReadFeatures x; TReadFeatures y])
      by (destruct v; eexists; eexists; reflexivity).
    destruct Hl as [x [y Hl]]. rewrite Hl.
    cbn [hs_step] in Hs. destruct (has (h_status h) ST_DRIVER) eqn:Hd; [|discriminate Hs]. inversion Hs; subst h'.
    cbn [hs_scan hs_step h_status]. rewrite Hd. cbn [h_status h_reset h_fread h_fwritten]. rewrite Hd. reflexivity.
  - (* write_driver_features: low word then high word *)
    cbn [wide_ok] in Hw. apply N.ltb_lt in Hw.
    assert (Hl : lift s (snd (exec m v 0 (OWriteDriverFeatures f) [])) = [TWriteFeatures f]).
    { transitivity [TWriteFeatures (w32 f + 4294967296 * w32 (N.shiftr f 32))]; [destruct v; reflexivity|].
      rewrite (recombine f Hw). reflexivity. }
    rewrite Hl. cbn [hs_scan]. rewrite Hs. reflexivity.
  - (* set_guest_page_size *) cbn [hs_step] in Hs. inversion Hs; subst. destruct v; reflexivity.
  - cbn [hs_step] in Hs. inversion Hs; subst. reflexivity.
  - cbn [hs_step] in Hs. inversion Hs; subst. destruct v; reflexivity.
  - cbn [hs_step] in Hs. inversion Hs; subst. destruct v; reflexivity.
  - cbn [hs_step] in Hs. inversion Hs; subst. reflexivity.
  - (* queue_set *)
    assert (Hh : h' = h). { cbn [hs_step] in Hs. destruct (_ && _); inversion Hs; reflexivity. }
    subst h'. destruct v; cbn [exec].
    + destruct (legacy_queue_set_checks m size desc drv dev) as [pfn| | |]; cbn [snd]; rewrite accesses_of_racc; try reflexivity.
      assert (Hl : lift s [W o_queue_sel q; W o_queue_num size; W o_queue_align PAGE_SIZE; W o_queue_pfn pfn]
                   = if pfn =? 0 then [] else [TQueueSet q 0 0 0 0]).
      { unfold lift, lift1, W, a_write, a_off, a_val.
        change (o_queue_sel =? S_Status) with false. change (o_queue_sel =? S_DriverFeaturesSel) with false.
        change (o_queue_sel =? S_DriverFeatures) with false. change (o_queue_sel =? S_QueueSel) with true.
        change (o_queue_num =? S_Status) with false. change (o_queue_num =? S_DriverFeaturesSel) with false.
        change (o_queue_num =? S_DriverFeatures) with false. change (o_queue_num =? S_QueueSel) with false.
        change ((o_queue_num =? S_QueueReady) || (o_queue_num =? S_QueuePFN)) with false.
        change (o_queue_num =? S_QueueNotify) with false.
        change (o_queue_align =? S_Status) with false. change (o_queue_align =? S_DriverFeaturesSel) with false.
        change (o_queue_align =? S_DriverFeatures) with false. change (o_queue_align =? S_QueueSel) with false.
        change ((o_queue_align =? S_QueueReady) || (o_queue_align =? S_QueuePFN)) with false.
        change (o_queue_align =? S_QueueNotify) with false.
        change (o_queue_pfn =? S_Status) with false. change (o_queue_pfn =? S_DriverFeaturesSel) with false.
        change (o_queue_pfn =? S_DriverFeatures) with false. change (o_queue_pfn =? S_QueueSel) with false.
        change ((o_queue_pfn =? S_QueueReady) || (o_queue_pfn =? S_QueuePFN)) with true.
        cbn [l_qsel l_fsel l_flow app]. destruct (pfn =? 0); reflexivity. }
      rewrite Hl. destruct (pfn =? 0); [reflexivity|]. cbn [hs_scan hs_step] in *. rewrite Hs. reflexivity.
    + cbn [snd]. rewrite accesses_of_racc.
      assert (Hl : lift s [W o_queue_sel q; W o_queue_num size; W o_queue_desc_low (w32 desc);
                           W o_queue_desc_high (w32 (N.shiftr desc 32)); W o_queue_driver_low (w32 drv);
                           W o_queue_driver_high (w32 (N.shiftr drv 32)); W o_queue_device_low (w32 dev);
                           W o_queue_device_high (w32 (N.shiftr dev 32)); W o_queue_ready 1]
                   = [TQueueSet q 0 0 0 0]) by reflexivity.
      rewrite Hl. cbn [hs_scan hs_step] in *. rewrite Hs. reflexivity.
  - cbn [hs_step] in Hs. inversion Hs; subst. destruct v; reflexivity.
  - cbn [hs_step] in Hs. inversion Hs; subst. destruct ok; [|reflexivity].
    rewrite accesses_of_racc, (lift_above _ _ (cfg_accesses_above cfg off0 len)). reflexivity.
  - cbn [hs_step] in Hs. inversion Hs; subst. reflexivity.
  - cbn [hs_step] in Hs. inversion Hs; subst. reflexivity.
  - (* notify *)
    assert (Hl : lift s (snd (exec m v 0 (ONotify q) [])) = [TNotify q]) by (destruct v; reflexivity).
    rewrite Hl. cbn [hs_scan]. rewrite Hs. reflexivity.
Qed.

Lemma lift_lower : forall sup off m v cfg tr s h h',
  forallb wide_ok tr = true -> hs_scan sup off h tr = Some h' ->
  exists h'', hs_scan sup off h (lift s (accesses_of (snd (lower m v cfg tr)))) = Some h''
              /\ (fst (lower m v cfg tr) = false -> h'' = h').
Proof.
  intros sup off m v cfg tr. induction tr as [|e t IH]; intros s h h' Hw Hs.
  - exists h. inversion Hs. split; [reflexivity|trivial].
  - cbn [forallb] in Hw. apply andb_prop in Hw. destruct Hw as [He Ht].
    cbn [hs_scan] in Hs. destruct (hs_step sup off h e) as [h1|] eqn:H1; [|discriminate Hs].
    pose proof (lift_lower1 sup off m v cfg e s h h1 He H1) as Hl.
    cbn [lower]. destruct (lower1 m v cfg e) as [p l]. cbn [snd] in Hl. destruct p.
    + exists h1. cbn [fst snd]. split; [exact Hl|discriminate].
    + destruct (IH (lift_state s (accesses_of l)) h1 h' Ht Hs) as [h2 [Hs2 Hn]].
      destruct (lower m v cfg t) as [p' l']. cbn [fst snd] in *.
      exists h2. rewrite accesses_of_app, lift_app, hs_scan_app, Hl. split; assumption.
Qed.

Lemma construct_wide : forall d e, forallb wide_ok (snd (construct d e)) = true.
Proof.
  intros d e. apply forallb_forall. intros x Hx. destruct x; try reflexivity.
  cbn [wide_ok]. apply N.ltb_lt. destruct (features_written d e f Hx) as [_ [_ [_ [_ H]]]]. exact H.
Qed.

(* C08 on the real MMIO transport, legacy and modern: the register accesses of every constructor, decoded
   with the register table of the specification, form an accepted initialisation sequence *)
Theorem construct_mmio_accept : forall d e,
  hs_accept (supported d) (e_offered e) (is_ok (fst (construct_mmio d e)))
            (lift lst0 (accesses_of (snd (construct_mmio d e)))) = true.
Proof.
  intros d e. unfold construct_mmio.
  destruct (construct_scan d e) as [h [Hs Hl]]. pose proof (construct_wide d e) as Hw.
  destruct (construct d e) as [o tr]. cbn [fst snd] in *.
  destruct (lift_lower _ _ (e_mode e) (mmio_version (e_tk e)) (e_cfg e) tr lst0 hs0 h Hw Hs) as [h2 [Hs2 Hn]].
  destruct (lower (e_mode e) (mmio_version (e_tk e)) (e_cfg e) tr) as [p l]. cbn [fst snd] in *.
  unfold hs_accept. rewrite Hs2. destruct p; [reflexivity|].
  rewrite (Hn eq_refl). destruct (is_ok o); [|reflexivity]. cbn [implb]. apply N.eqb_eq. exact (Hl eq_refl).
Qed.

(* begin_init rendered call by call is the begin_init of the C10 transport model *)
Lemma split64 : forall x, x < two64 -> w32 (w32 x) + N.shiftl (w32 (N.shiftr x 32)) 32 = x.
Proof.
  intros x Hx. unfold w32, two64 in *. rewrite N.shiftr_div_pow2, N.shiftl_mul_pow2. change (2 ^ 32) with 4294967296.
  rewrite N.mod_mod by discriminate. rewrite (N.mod_small (x / 4294967296)) by lia. lia.
Qed.

Theorem begin_init_is_c10_begin_init : forall m v d cfg off,
  off < two64 ->
  accesses_of (snd (lower m v cfg (snd (begin_init m (supported d) off))))
  = snd (exec m v 0 (OBeginInit (supported d)) [w32 off; N.shiftr off 32])
  /\ fst (exec m v 0 (OBeginInit (supported d)) [w32 off; N.shiftr off 32]) = Ok (negotiated d off).
Proof.
  intros m v d cfg off Hoff. rewrite begin_init_ok. cbn [snd exec].
  unfold ans_nth. cbn [nth]. rewrite (split64 off Hoff).
  assert (Hv : (negb (N.land off VERSION_1_BIT =? 0) && (N.land (N.land off (supported d)) VERSION_1_BIT =? 0)) = false).
  { destruct (N.land off VERSION_1_BIT =? 0) eqn:H1; [reflexivity|]. cbn [negb andb].
    apply N.eqb_neq. intro H2. apply N.eqb_neq in H1. apply H1.
    apply N.bits_inj. intro n. rewrite N.land_spec, N.bits_0.
    assert (H3 := f_equal (fun z => N.testbit z n) H2). cbn beta in H3. rewrite !N.land_spec, N.bits_0 in H3.
    destruct (N.eq_dec n 32) as [->|Hn].
    - pose proof (supported_version1 d) as Hs. unfold bit, B_VERSION_1 in Hs. rewrite Hs in H3.
      rewrite andb_true_r in H3. exact H3.
    - replace (N.testbit VERSION_1_BIT n) with false; [apply andb_false_r|].
      symmetry. unfold VERSION_1_BIT. change 4294967296 with (2 ^ 32). apply N.pow2_bits_false. congruence. }
  unfold negotiated. destruct m; [rewrite Hv|]; destruct v; split; reflexivity.
Qed.

(* ---------------------------------------------------------------------------------------------- *)
(* non-vacuity: every constructor succeeds in a plain environment, and the interesting branches exist *)
Definition all_drivers : list driver := [DBlk; DConsole; DGpu; DInput; DNetRaw; DNet; DRng; DRtc; DSocket; DSound; D9p].
Definition env_good (off : N) : env :=
  mkEnv Debug TKModel false off [3; 0; 97; 98; 99; 0; 0; 0; 0; 0; 0; 0; 0; 0; 0; 0] [] (good_qans 4) 64 2048 true.

Example constructors_succeed :
  forallb (fun d => is_ok (fst (construct d (env_good 0x330000225)))
                    && (last_status 0 (snd (construct d (env_good 0x330000225))) =? 15)) all_drivers = true.
Proof. vm_compute. reflexivity. Qed.

Example blk_trace_example :
  construct DBlk (env_good 0x100000220) =
  (Ok 0,
   [TSetStatus 0; TSetStatus 3; TReadFeatures 0x100000220; TWriteFeatures 0x100000220; TSetStatus 11;
    TGuestPageSize 4096; TReadGen 0; TReadConfig 0 4 true; TReadConfig 4 4 true; TReadGen 0;
    TQueueNew 0 false false false; TQueueUsed 0 false; TMaxQueueSize 0 256;
    TAlloc 1 0 0x40000000 false; TAlloc 1 1 0x40008000 false;
    TQueueSet 0 16 0x40000000 0x40000100 0x40008000; TSetStatus 15]).
Proof. vm_compute. reflexivity. Qed.

Example notify_after_driver_ok_example :
  exists pre post, snd (construct DInput (env_good 0)) = pre ++ TNotify 0 :: post
                   /\ last_status 0 pre = 15.
Proof.
  exists (firstn 51 (snd (construct DInput (env_good 0)))), (skipn 52 (snd (construct DInput (env_good 0)))).
  vm_compute. split; reflexivity.
Qed.

Example failing_constructor_example :
  fst (construct DConsole (mkEnv Debug TKModel false 0 [] [] [mkQa false 256 0x40000000 0x40008000 0 0; mkQa true 256 0 0 0 0] 0 0 true))
  = Err EAlreadyUsed.
Proof. vm_compute. reflexivity. Qed.

Example mmio_example :
  fst (construct_mmio DRng (mkEnv Release TKMmioLegacy false 0x30000000 [] [] (good_qans 1) 0 0 true)) = Ok 0
  /\ status_writes (accesses_of (snd (construct_mmio DRng (mkEnv Release TKMmioLegacy false 0x30000000 [] [] (good_qans 1) 0 0 true))))
     = [0; 3; 11; 15].
Proof. vm_compute. split; reflexivity. Qed.

Example gating_example :
  gop_run (negotiated DBlk 0x200) [] 0 GBlkFlush = (Ok 0, [TShare 16 0 false; TShare 1 1 false; TNotify 0], 0)
  /\ gop_run (negotiated DBlk 0x10000200) [] 0 GBlkFlush
     = (Ok 0, [TShare 16 0 false; TShare 1 1 false; TShare 32 0 false; TNotify 0], 0)
  /\ gop_run (negotiated DBlk 0x10000000) [] 0 GBlkFlush = (Ok 0, [], 0)
  /\ fst (fst (gop_run (negotiated DNetRaw 0x100000000) [] 0 GNetHeader)) = Ok 12
  /\ fst (fst (gop_run (negotiated DNetRaw 0x8000) [] 0 GNetHeader)) = Ok 10.
Proof. vm_compute. repeat split; reflexivity. Qed.
