(* C19 / C07: VirtIOInput's hand-written event queue (Model/Input.v): `new` stocks the queue with token i <-> *)
(* event_buf[i]; `pop_pending_event` keeps it stocked for EVERY device behaviour, delivers exactly the bytes of *)
(* the buffer the used ring names, re-posts it under the same token; histories: each completion once, in order. *)
From VD Require Import Base.Words Base.ListUpd Model.Queue Model.Owning Model.Input
  Proofs.QueueInv Proofs.QueueReach Proofs.QueueProps Proofs.OwningProofs Proofs.QueueNonInt.
From VD Require Proofs.DrvAdvProofs.
From Coq Require Import ZArith Lia ZifyBool ZifyN Permutation.
Ltac Zify.zify_post_hook ::= Z.div_mod_to_equations.

(* ------------------------------------------------------------------------------------------------ *)
(* small facts *)
Lemma in_upd_upd {A} (l : list A) : forall i x y, upd (upd l i x) i y = upd l i y.
Proof. induction l as [|a l IH]; intros [|i] x y; cbn [upd]; try reflexivity. now rewrite IH. Qed.

Lemma in_updN_updN {A} (l : list A) i x y : updN (updN l i x) i y = updN l i y.
Proof. unfold updN. apply in_upd_upd. Qed.

Lemma in_nthN_updN_same {A} (l : list A) i x d : i < lenN l -> nthN (updN l i x) i d = x.
Proof.
  intros Hi. pose proof (nthN_updN_eq l i x Hi) as H. unfold nthN, nthN_error in *.
  now apply nth_error_nth.
Qed.

Lemma in_length_updN {A} (l : list A) i x : length (updN l i x) = length l.
Proof. unfold updN. apply upd_length. Qed.

Lemma in_mk_eta s : mkIn (in_q s) (in_buf s) = s.
Proof. destruct s; reflexivity. Qed.

(* event_buf[i] is the buffer OwningQueue would call obuf i 8: the stocked-queue lemmas apply as they are *)
Lemma in_ebuf_obuf i a : in_ebuf i a = obuf i IN_EV_SIZE a.
Proof. reflexivity. Qed.

(* ------------------------------------------------------------------------------------------------ *)
(* the fresh queue: its free list is 0, 1, ..., size-1 in this order, wherever the indices start *)
Lemma qnew_invfl_seq k ind ev v :
  k <= 15 -> v < two16 ->
  InvFl (qset_indices (qnew (2 ^ k) ind ev) v) [] (seqN 0 (N.to_nat (2 ^ k))).
Proof.
  intros Hk Hv.
  apply InvFl_set_indices; [|exact Hv].
  pose proof (qnew_inv k ind ev Hk) as [fl Hfl].
  assert (Efl : fl = seqN 0 (N.to_nat (2 ^ k))); [|subst; exact Hfl].
  destruct Hfl as (Hnd & Hlen & Hrange & _ & Hseg & _).
  unfold all_idxs in *. cbn [map concat] in *. rewrite app_nil_r in *.
  cbn [qnew q_shadow q_free_head q_size] in *.
  assert (Hgen : forall m fl0 i, lseg (init_table 0 (N.to_nat (2 ^ k))) i fl0 -> length fl0 = m ->
                   N.of_nat m + i = 2 ^ k -> fl0 = seqN i m).
  { induction m as [|m IHm]; intros fl0 i Hs Hm Hsum.
    - destruct fl0; [reflexivity|discriminate].
    - destruct fl0 as [|x fl0]; [discriminate|]. cbn [lseg] in Hs. destruct Hs as (-> & Hx & Hs).
      cbn [seqN]. f_equal. apply IHm; [|cbn [length] in Hm; lia|lia].
      unfold nxt in Hs. rewrite init_table_spec in Hs by lia. cbn [d_next] in Hs.
      destruct m as [|m'].
      + cbn [length] in Hm. destruct fl0; [exact I|discriminate].
      + destruct (N.eqb_spec (x + 1) (N.of_nat (N.to_nat (2 ^ k)))); [lia|].
        replace (0 + x + 1) with (x + 1) in Hs by lia. exact Hs. }
  apply Hgen; [exact Hseg| |lia]. unfold lenN in Hlen. lia.
Qed.

(* ------------------------------------------------------------------------------------------------ *)
(* new *)
(* the chains the posting loop leaves behind: token i heads a one-descriptor chain holding event_buf[i] at the
   address the platform answered for it *)
Fixpoint in_posted (k : nat) (i : N) (addrs : list N) : list chain :=
  match k with
  | O => []
  | S k' => mkChain i [i] [(in_ebuf i (hd 0 addrs), true)] None :: in_posted k' (i + 1) (tl addrs)
  end.

Lemma in_posted_length k : forall i addrs, length (in_posted k i addrs) = k.
Proof. induction k as [|k IH]; intros i addrs; cbn [in_posted length]; [reflexivity|]. now rewrite IH. Qed.

Lemma in_posted_nth k : forall i addrs j, (j < k)%nat ->
  nth_error (in_posted k i addrs) j
  = Some (mkChain (i + N.of_nat j) [i + N.of_nat j] [(in_ebuf (i + N.of_nat j) (nth j addrs 0), true)] None).
Proof.
  induction k as [|k IH]; intros i addrs j Hj; [lia|].
  destruct j as [|j]; cbn [in_posted nth_error].
  - replace (i + N.of_nat 0) with i by lia. destruct addrs; reflexivity.
  - rewrite IH by lia. replace (i + 1 + N.of_nat j) with (i + N.of_nat (S j)) by lia.
    destruct addrs as [|a addrs]; cbn [tl nth]; [destruct j; reflexivity|reflexivity].
Qed.

Lemma in_posted_stock k : forall i addrs, Forall (stock_chain IN_EV_SIZE) (in_posted k i addrs).
Proof.
  induction k as [|k IH]; intros i addrs; cbn [in_posted]; constructor; [|apply IH].
  rewrite in_ebuf_obuf. apply stock_chain_new.
Qed.

Lemma input_post_loop_spec : forall k i addrs s chains h,
  Reach s chains h -> InvFl s chains (seqN i k) ->
  exists s' evs,
    input_post_loop k i addrs s = (Ok tt, s', evs)
    /\ Reach s' (chains ++ in_posted k i addrs) (h ++ evs)
    /\ InvFl s' (chains ++ in_posted k i addrs) []
    /\ q_size s' = q_size s.
Proof.
  induction k as [|k IH]; intros i addrs s chains h HR HI.
  - exists s, []. cbn [input_post_loop in_posted]. rewrite !app_nil_r. cbn [seqN] in HI. auto.
  - cbn [seqN] in HI.
    assert (Hb0 : b_len (in_ebuf i (hd 0 addrs)) <> 0) by (cbn; discriminate).
    assert (Hb32 : b_len (in_ebuf i (hd 0 addrs)) < two32) by (cbn; reflexivity).
    destruct (add_single_fl s chains i (seqN (i + 1) k) (in_ebuf i (hd 0 addrs)) HI Hb0 Hb32)
      as (s1 & evs1 & Hadd & HI1 & Hnc & Hsz & Hfh).
    assert (Hok : bufs_ok (tag_bufs [] [in_ebuf i (hd 0 addrs)])).
    { constructor; [split; assumption|constructor]. }
    pose proof (R_add _ _ _ _ _ _ _ _ _ HR Hok Hadd) as HR1. cbn iota in HR1. rewrite Hnc in HR1.
    destruct (IH (i + 1) (tl addrs) s1 _ _ HR1 HI1) as (s2 & evs2 & Hrun & HR2 & HI2 & Hsz2).
    exists s2, (evs1 ++ evs2).
    split. { cbn [input_post_loop]. rewrite Hadd, N.eqb_refl, Hrun. reflexivity. }
    cbn [in_posted]. rewrite <- app_assoc in HR2, HI2. cbn [app] in HR2, HI2.
    split; [now rewrite app_assoc|]. split; [exact HI2|]. lia.
Qed.

(* a queue in which every descriptor is posted as event_buf[token], 8 bytes, and the driver's array has its 32 cells *)
Definition IStocked (s : istate) (chains : list chain) : Prop :=
  Stocked (in_q s) chains IN_EV_SIZE /\ q_size (in_q s) = IN_QSIZE /\ length (in_buf s) = IN_QSIZE_nat.

(* VirtIOInput::new, event-queue part, for every start of the free-running indices, every share answer and both
   notification-suppression modes: no `?` and no assert fires, token i heads the chain of event_buf[i]
   (in_posted), all 32 descriptors are posted, finish_init comes before the notification, and the notification is
   sent iff should_notify says so *)
Theorem input_new_stocked ind ev v addrs poison ae uf :
  v < two16 ->
  exists s evs,
    input_new ind ev v addrs poison ae uf
      = (Ok tt, s, map IQ evs ++ IDriverOk :: (if should_notify (in_q s) ae uf then [INotify IN_Q_EVENT] else []))
    /\ Reach (in_q s) (in_posted IN_QSIZE_nat 0 addrs) evs
    /\ IStocked s (in_posted IN_QSIZE_nat 0 addrs)
    /\ q_avail_idx (in_q s) = w16 (v + IN_QSIZE) /\ q_last_used (in_q s) = v.
Proof.
  intros Hv.
  assert (HR0 : Reach (qset_indices (qnew (2 ^ 5) ind ev) v) [] []) by (apply R_new; [lia|exact Hv]).
  pose proof (qnew_invfl_seq 5 ind ev v ltac:(lia) Hv) as HI0.
  change (N.to_nat (2 ^ 5)) with IN_QSIZE_nat in HI0.
  destruct (input_post_loop_spec IN_QSIZE_nat 0 addrs _ [] [] HR0 HI0) as (q & evs & Hrun & HR & HI & Hsz).
  cbn [app] in HR, HI.
  exists (mkIn q (repeat poison IN_QSIZE_nat)), evs.
  split. { unfold input_new. change IN_QSIZE with (2 ^ 5). rewrite Hrun. reflexivity. }
  split; [exact HR|].
  split.
  { split; [|split].
    - split; [apply in_posted_stock|]. cbn [in_q]. unfold lenN. rewrite in_posted_length, Hsz. reflexivity.
    - cbn [in_q]. rewrite Hsz. reflexivity.
    - cbn [in_buf]. apply repeat_length. }
  cbn [in_q].
  (* the indices: 32 successful adds from v; nothing popped *)
  clear HI HI0.
  assert (Hidx : forall k i addrs0 s0 s1 evs0, input_post_loop k i addrs0 s0 = (Ok tt, s1, evs0) ->
            q_avail_idx s1 = w16 (q_avail_idx s0 + N.of_nat k) \/ (k = O /\ s1 = s0)).
  { clear. induction k as [|k IH]; intros i addrs0 s0 s1 evs0 H.
    - cbn [input_post_loop] in H. inversion H. right. auto.
    - left. cbn [input_post_loop] in H.
      destruct (add s0 [] [in_ebuf i (hd 0 addrs0)] 0) as [[o sa] ea] eqn:Ea.
      destruct o as [tok|e| |]; try discriminate.
      destruct (tok =? i); [|discriminate].
      destruct (input_post_loop k (i + 1) (tl addrs0) sa) as [[o2 s2] e2] eqn:E2.
      inversion H; subst o2 s2 evs0. clear H.
      assert (Ha : q_avail_idx sa = w16 (q_avail_idx s0 + 1)).
      { clear - Ea. unfold add in Ea. cbn [tag_bufs map app] in Ea. change (lenN [(in_ebuf i (hd 0 addrs0), true)]) with 1 in Ea.
        cbn [N.eqb Pos.eqb] in Ea. destruct (negb (capacity_ok s0 1)); [discriminate|].
        change (1 <? 1) with false in Ea. rewrite andb_false_r in Ea.
        destruct (add_direct s0 [(in_ebuf i (hd 0 addrs0), true)]) as [[o1 sb] eb] eqn:Ed.
        destruct o1; try discriminate. inversion Ea; subst. cbn [set_avail q_avail_idx].
        unfold add_direct in Ed.
        destruct (add_direct_loop _ _ _ _ _) as [[[[[sh dt] fh] last]|?| |] ?]; try (inversion Ed; fail).
        destruct (nthN_error sh last); inversion Ed; subst; reflexivity. }
      destruct (IH _ _ _ _ _ E2) as [E|[-> ->]].
      + rewrite E, Ha. unfold w16. rewrite Nat2N.inj_succ. lia.
      + rewrite Ha. reflexivity. }
  split.
  - destruct (Hidx _ _ _ _ _ _ Hrun) as [E|[E _]]; [|discriminate].
    rewrite E. reflexivity.
  - (* last_used is untouched by add *)
    assert (Hlu : forall k i addrs0 s0 s1 evs0, input_post_loop k i addrs0 s0 = (Ok tt, s1, evs0) ->
              q_last_used s1 = q_last_used s0).
    { clear. induction k as [|k IH]; intros i addrs0 s0 s1 evs0 H.
      - cbn [input_post_loop] in H. inversion H. reflexivity.
      - cbn [input_post_loop] in H.
        destruct (add s0 [] [in_ebuf i (hd 0 addrs0)] 0) as [[o sa] ea] eqn:Ea.
        destruct o as [tok|e| |]; try discriminate.
        destruct (tok =? i); [|discriminate].
        destruct (input_post_loop k (i + 1) (tl addrs0) sa) as [[o2 s2] e2] eqn:E2.
        inversion H; subst o2 s2 evs0. clear H.
        rewrite (IH _ _ _ _ _ E2).
        clear - Ea. unfold add in Ea. cbn [tag_bufs map app] in Ea. change (lenN [(in_ebuf i (hd 0 addrs0), true)]) with 1 in Ea.
        cbn [N.eqb Pos.eqb] in Ea. destruct (negb (capacity_ok s0 1)); [discriminate|].
        change (1 <? 1) with false in Ea. rewrite andb_false_r in Ea.
        destruct (add_direct s0 [(in_ebuf i (hd 0 addrs0), true)]) as [[o1 sb] eb] eqn:Ed.
        destruct o1; try discriminate. inversion Ea; subst. cbn [set_avail q_last_used].
        unfold add_direct in Ed.
        destruct (add_direct_loop _ _ _ _ _) as [[[[[sh dt] fh] last]|?| |] ?]; try (inversion Ed; fail).
        destruct (nthN_error sh last); inversion Ed; subst; reflexivity. }
    rewrite (Hlu _ _ _ _ _ _ Hrun). reflexivity.
Qed.

(* ------------------------------------------------------------------------------------------------ *)
(* pop_pending_event *)
(* the chain a completed event buffer is re-posted as *)
Definition in_chain (t addr : N) : chain := mkChain t [t] [(in_ebuf t addr, true)] None.

(* pop_pending_event in a stocked queue, for EVERY device behaviour: both reads of the used ring (index, id),
   the recorded length, the buffer contents, the share answer and the suppression words are arbitrary *)
Theorem input_pop_stocked s chains h v o s' evs :
  Reach (in_q s) chains h -> IStocked s chains ->
  input_pop s v = (o, s', evs) ->
  let q := in_q s in
  let t := w16 (iv_id1 v) in
  (* nothing pending: None, nothing changes *)
  (q_last_used q = w16 (iv_idx1 v) -> o = Ok None /\ s' = s /\ evs = [])
  (* the device names an id outside event_buf: the bounds-checked index panics before anything is touched *)
  /\ (q_last_used q <> w16 (iv_idx1 v) -> IN_QSIZE <= t -> o = Panic /\ s' = s /\ evs = [])
  (* pop_used refuses (the device changed index or id between the two reads): None, nothing changes *)
  /\ (q_last_used q <> w16 (iv_idx1 v) -> t < IN_QSIZE ->
      q_last_used q = w16 (iv_idx2 v) \/ w16 (iv_id2 v) <> t -> o = Ok None /\ s' = s /\ evs = [])
  (* a completion under a token of event_buf, whichever and however often the device has named it before *)
  /\ (q_last_used q <> w16 (iv_idx1 v) -> t < IN_QSIZE ->
      q_last_used q <> w16 (iv_idx2 v) -> w16 (iv_id2 v) = t ->
      exists pre c post a q2 evs_add,
        (* token t heads an outstanding chain that holds exactly event_buf[t], shared at address a *)
        chains = pre ++ c :: post /\ c_head c = t /\ c_bufs c = [(in_ebuf t a, true)]
        (* the event handed to the caller is what that buffer holds after the copy-back: its 8 bytes, whatever
           length the device recorded, whatever the array held before and holds while shared again *)
        /\ o = Ok (Some (in_ev_of_bytes (firstn 8 (iv_wr v))))
        /\ s' = mkIn q2 (updN (in_buf s) t (iv_poison v))
        (* effects, in order: the descriptor goes back to the free list, the buffer is unshared with the arguments
           of its share, used_event if negotiated, then the re-post, then the notification iff should_notify *)
        /\ evs = map IQ ([QStoreDesc t (mkDesc 0 0 (0 + wflag true) (q_free_head q)); QUnshare a t IN_EV_SIZE true]
                         ++ (if q_event_idx q then [QStoreUsedEvent (w16 (q_last_used q + 1))] else [])
                         ++ evs_add)
                 ++ (if should_notify q2 (iv_ae v) (iv_uf v) then [INotify IN_Q_EVENT] else [])
        (* the re-post returns the SAME token (the assert never fires) and shares event_buf[t] once *)
        /\ (exists q1, add q1 [] [in_ebuf t (iv_addr v)] 0 = (Ok t, q2, evs_add))
        /\ shares_of evs_add = [ShBuf (iv_addr v) t IN_EV_SIZE true] /\ unshares_of evs_add = []
        /\ q_last_used q2 = w16 (q_last_used q + 1) /\ q_avail_idx q2 = w16 (q_avail_idx q + 1)
        (* and the queue is fully stocked again *)
        /\ (exists h', Reach q2 ((pre ++ post) ++ [in_chain t (iv_addr v)]) h')
        /\ IStocked s' ((pre ++ post) ++ [in_chain t (iv_addr v)])).
Proof.
  intros HR (Hst & Hsz32 & Hlb) Hrun. cbv zeta.
  unfold input_pop, peek_used, can_pop in Hrun.
  destruct (N.eqb_spec (q_last_used (in_q s)) (w16 (iv_idx1 v))) as [E1|E1]; cbn [negb] in Hrun.
  { inversion Hrun; subst. split; [auto|]. split; [|split]; intros; contradiction. }
  destruct (N.leb_spec IN_QSIZE (w16 (iv_id1 v))) as [E2|E2].
  { inversion Hrun; subst. split; [intros; contradiction|]. split; [auto|]. split; intros; lia. }
  split; [intros; contradiction|]. split; [intros; lia|].
  set (t := w16 (iv_id1 v)) in *.
  assert (Ht : t < q_size (in_q s)) by (rewrite Hsz32; exact E2).
  destruct (stocked_has_chain (in_q s) chains h IN_EV_SIZE t HR Hst Ht) as (pre & c & post & -> & Hhead).
  destruct Hst as [Hst Hlen].
  assert (Hc : stock_chain IN_EV_SIZE c).
  { rewrite Forall_forall in Hst. apply Hst. apply in_or_app. right. now left. }
  destruct Hc as (Hci & Hct & a & Hcb).
  assert (Hkeys : keys (tag_bufs [] [in_ebuf t 0]) = keys (c_bufs c)).
  { rewrite Hcb, Hhead. reflexivity. }
  destruct (pop_refines (in_q s) pre c post h [] [in_ebuf t 0] (iv_idx2 v) (iv_id2 v) (iv_len v) HR Hkeys)
    as (P1 & P2 & P3).
  rewrite Hhead in P1, P2, P3.
  split.
  { (* refusals *)
    intros _ _ [E3|E3].
    - destruct (P1 E3) as [Ep _]. rewrite Ep in Hrun. inversion Hrun; subst. now rewrite in_mk_eta.
    - destruct (N.eq_dec (q_last_used (in_q s)) (w16 (iv_idx2 v))) as [E4|E4].
      + destruct (P1 E4) as [Ep _]. rewrite Ep in Hrun. inversion Hrun; subst. now rewrite in_mk_eta.
      + destruct (P2 E4 E3) as [Ep _]. rewrite Ep in Hrun. inversion Hrun; subst. now rewrite in_mk_eta. }
  intros _ _ E3 E4.
  destruct (P3 E3 E4) as (s1 & evs1 & Hpop & HR1 & Hlu & Hfh & Hnu & Hai1 & _ & _ & _ & Hsz & _ & Hev1 & _ & _ & Hevs1).
  rewrite Hpop in Hrun.
  assert (Hst1 : Forall (stock_chain IN_EV_SIZE) (pre ++ post)).
  { apply Forall_app in Hst. destruct Hst as [A B]. inversion B; subst. apply Forall_app. split; assumption. }
  (* the re-post: same token, from the LIFO free list *)
  assert (Hb0 : b_len (in_ebuf t (iv_addr v)) <> 0) by (cbn; discriminate).
  assert (Hb32 : b_len (in_ebuf t (iv_addr v)) < two32) by (cbn; reflexivity).
  destruct (lifo_token (in_q s) pre c post h [] [in_ebuf t 0] (iv_idx2 v) (iv_id2 v) (iv_len v) s1 evs1
              (in_ebuf t (iv_addr v)) true 0 HR Hkeys ltac:(rewrite Hhead; exact Hpop) Hb0 Hb32) as (s2' & evs2' & Hadd).
  cbn iota in Hadd. rewrite Hhead in Hadd. rewrite Hadd in Hrun. rewrite N.eqb_refl in Hrun.
  assert (Hok : bufs_ok (tag_bufs [] [in_ebuf t (iv_addr v)])).
  { constructor; [split; assumption|constructor]. }
  destruct (add_cases s1 (pre ++ post) [] [in_ebuf t (iv_addr v)] 0 (proj1 (Reach_Inv _ _ _ HR1)) Hok)
    as [[_ E]|[(_ & _ & E)|(Hne & Hcap & _)]]; try (rewrite E in Hadd; discriminate).
  destruct (add_ok s1 (pre ++ post) [] [in_ebuf t (iv_addr v)] 0 (proj1 (Reach_Inv _ _ _ HR1)) Hne Hok Hcap)
    as (s2 & evs2 & cx & Hr & _ & _ & _ & _ & Hai2 & _ & Hlu2 & Hsz2 & _ & _ & _ & _ & _ & _ & evs0 & Hex & _ & Hcx & Hsh & Hun).
  rewrite Hr in Hadd. injection Hadd as Efh Esx Eex. subst s2' evs2'.
  assert (Hnc : new_chain s1 [] [in_ebuf t (iv_addr v)] 0 = in_chain t (iv_addr v)).
  { unfold new_chain, in_chain. cbn [tag_bufs map app]. change (lenN [(in_ebuf t (iv_addr v), true)]) with 1.
    change (1 <? 1) with false. rewrite andb_false_r. cbn [length free_take]. now rewrite Hfh. }
  pose proof (R_add _ _ _ _ _ _ _ _ _ HR1 Hok Hr) as HR2. cbn iota in HR2. rewrite Hnc in HR2.
  assert (Hshares : shares_of evs2 = [ShBuf (iv_addr v) t IN_EV_SIZE true] /\ unshares_of evs2 = []).
  { rewrite Hex, shares_of_app, unshares_of_app, Hsh, Hun, Hcx, Hnc. cbn. split; reflexivity. }
  assert (Hlt : t < lenN (in_buf s)) by (unfold lenN; rewrite Hlb; exact E2).
  inversion Hrun; subst o s' evs. clear Hrun.
  exists pre, c, post, a, s2, evs2.
  split; [reflexivity|]. split; [exact Hhead|]. split; [now rewrite Hcb, Hhead|].
  split. { rewrite in_nthN_updN_same by exact Hlt. reflexivity. }
  split. { now rewrite in_updN_updN. }
  split.
  { rewrite Hevs1. unfold pop_evs. rewrite Hct, Hci, Hcb, Hhead. cbn [recycle_evs tag_bufs map app fst snd b_addr b_id b_len obuf in_ebuf].
    rewrite <- ?app_assoc. reflexivity. }
  split; [exists s1; rewrite Efh in Hr; exact Hr|].
  split; [exact (proj1 Hshares)|]. split; [exact (proj2 Hshares)|].
  split; [now rewrite Hlu2|]. split; [now rewrite Hai2, Hai1|].
  split; [eexists; exact HR2|].
  split; [|split].
  - split.
    + apply Forall_app. split; [exact Hst1|]. constructor; [|constructor].
      unfold in_chain. rewrite in_ebuf_obuf. apply stock_chain_new.
    + cbn [in_q]. rewrite lenN_app, lenN_cons, lenN_nil, Hsz2, Hsz, <- Hlen, !lenN_app, lenN_cons. lia.
  - cbn [in_q]. now rewrite Hsz2, Hsz.
  - cbn [in_buf]. rewrite !in_length_updN. exact Hlb.
Qed.

(* The length the device records plays no part: for EVERY used length (0, 4, 7, 8, 9, 2^32-1, ...) and EVERY driver state
   pop_pending_event does exactly the same - same result, same successor state, same effects. *)
Definition iv_set_len (v : inview) (len : N) : inview :=
  mkInV (iv_idx1 v) (iv_id1 v) (iv_idx2 v) (iv_id2 v) len (iv_wr v) (iv_addr v) (iv_poison v) (iv_ae v) (iv_uf v).

Lemma pop_used_len_indep s token ins outs u_idx u_id len1 len2 :
  let r1 := pop_used s token ins outs u_idx u_id len1 in
  let r2 := pop_used s token ins outs u_idx u_id len2 in
  snd (fst r1) = snd (fst r2) /\ snd r1 = snd r2
  /\ match fst (fst r1), fst (fst r2) with
     | Ok _, Ok _ => True | Err e1, Err e2 => e1 = e2 | Panic, Panic => True | UB, UB => True | _, _ => False
     end.
Proof.
  cbv zeta. unfold pop_used.
  destruct (negb (can_pop s u_idx)); [cbn; auto|].
  destruct (negb (w16 u_id =? token)); [cbn; auto|].
  destruct (recycle s (w16 u_id) (tag_bufs ins outs)) as [[o s1] evs].
  destruct o; [destruct (q_event_idx s1)|..]; cbn; auto.
Qed.

Theorem input_pop_any_len s v len : input_pop s (iv_set_len v len) = input_pop s v.
Proof.
  unfold input_pop, iv_set_len.
  cbn [iv_idx1 iv_id1 iv_idx2 iv_id2 iv_len iv_wr iv_addr iv_poison iv_ae iv_uf].
  destruct (peek_used (in_q s) (iv_idx1 v) (iv_id1 v)) as [token|]; [|reflexivity].
  destruct (IN_QSIZE <=? token); [reflexivity|].
  pose proof (pop_used_len_indep (in_q s) token [] [in_ebuf token 0] (iv_idx2 v) (iv_id2 v) len (iv_len v)) as H.
  cbv zeta in H.
  destruct (pop_used (in_q s) token [] [in_ebuf token 0] (iv_idx2 v) (iv_id2 v) len) as [[o1 q1] e1].
  destruct (pop_used (in_q s) token [] [in_ebuf token 0] (iv_idx2 v) (iv_id2 v) (iv_len v)) as [[o2 q2] e2].
  cbn [fst snd] in H. destruct H as (-> & -> & Ho).
  destruct o1, o2; try contradiction; try reflexivity.
Qed.

(* ... in particular the re-post: whatever length the device reports for a completion under a token of event_buf, the
   event is handed out, the buffer is posted again under the same token and the queue is fully stocked again *)
Theorem input_repost_every_len s chains h v len :
  Reach (in_q s) chains h -> IStocked s chains ->
  q_last_used (in_q s) <> w16 (iv_idx1 v) -> w16 (iv_id1 v) < IN_QSIZE ->
  q_last_used (in_q s) <> w16 (iv_idx2 v) -> w16 (iv_id2 v) = w16 (iv_id1 v) ->
  exists s' evs evs_add q1 pre post h',
    input_pop s (iv_set_len v len) = (Ok (Some (in_ev_of_bytes (firstn 8 (iv_wr v)))), s', evs)
    /\ add q1 [] [in_ebuf (w16 (iv_id1 v)) (iv_addr v)] 0 = (Ok (w16 (iv_id1 v)), in_q s', evs_add)
    /\ (forall e, In e evs_add -> In (IQ e) evs)
    /\ q_avail_idx (in_q s') = w16 (q_avail_idx (in_q s) + 1)
    /\ Reach (in_q s') ((pre ++ post) ++ [in_chain (w16 (iv_id1 v)) (iv_addr v)]) h'
    /\ IStocked s' ((pre ++ post) ++ [in_chain (w16 (iv_id1 v)) (iv_addr v)]).
Proof.
  intros HR Hst E1 E2 E3 E4.
  destruct (input_pop s (iv_set_len v len)) as [[o s'] evs] eqn:Epop.
  pose proof (input_pop_stocked s chains h (iv_set_len v len) o s' evs HR Hst Epop) as HP. cbv zeta in HP.
  unfold iv_set_len in HP. cbn [iv_idx1 iv_id1 iv_idx2 iv_id2 iv_len iv_wr iv_addr iv_poison iv_ae iv_uf] in HP.
  destruct HP as (_ & _ & _ & P4).
  destruct (P4 E1 E2 E3 E4) as (pre & c & post & a & q2 & evs_add & _ & _ & _ & Ho & Hs' & Hevs & [q1 Hadd] & _ & _ & _ & Hai & [h' HR'] & Hst').
  exists s', evs, evs_add, q1, pre, post, h'. subst o. split; [reflexivity|].
  subst s'. cbn [in_q]. split; [exact Hadd|].
  split.
  { intros e He. rewrite Hevs. apply in_or_app. left. apply in_map. apply in_or_app. right. apply in_or_app. now right. }
  split; [exact Hai|]. split; [exact HR'|exact Hst'].
Qed.

(* ------------------------------------------------------------------------------------------------ *)
(* histories: any number of events, any completion order, any burst size, polls more or less often than events *)
(* The device side is an abstract FIFO: `comps` lists its completions in used-ring order, each (token it picked,
   bytes the buffer holds after it); `pub` of them are published (used index = base + pub) when a poll runs; the
   driver has consumed k. Tokens are arbitrary below 32 - any order, any repetition: every buffer is posted again
   before the next poll, so the device may pick any of the 32 at any time. *)
Definition in_comp : Type := (N * list N)%type.
Definition in_comp0 : in_comp := (0, []).

Definition in_honest_view (base : N) (comps : list in_comp) (k pub : nat) (v : inview) : Prop :=
  (k <= pub <= length comps)%nat /\ (pub - k <= 32)%nat
  /\ iv_idx1 v = base + N.of_nat pub /\ iv_idx2 v = iv_idx1 v /\ iv_id2 v = iv_id1 v
  /\ ((k < pub)%nat -> w16 (iv_id1 v) = fst (nth k comps in_comp0) /\ iv_wr v = snd (nth k comps in_comp0)).

Fixpoint in_honest (base : N) (comps : list in_comp) (k : nat) (vs : list (nat * inview)) : Prop :=
  match vs with
  | [] => True
  | (pub, v) :: r =>
      in_honest_view base comps k pub v /\ in_honest base comps (if (k <? pub)%nat then S k else k) r
  end.

(* how many completions have been consumed after the polls *)
Fixpoint in_consumed (k : nat) (vs : list (nat * inview)) : nat :=
  match vs with
  | [] => k
  | (pub, _) :: r => in_consumed (if (k <? pub)%nat then S k else k) r
  end.

(* what each poll must return *)
Fixpoint in_expected (comps : list in_comp) (k : nat) (vs : list (nat * inview)) : list (outcome (option ievent)) :=
  match vs with
  | [] => []
  | (pub, _) :: r =>
      if (k <? pub)%nat
      then Ok (Some (in_ev_of_bytes (firstn 8 (snd (nth k comps in_comp0))))) :: in_expected comps (S k) r
      else Ok None :: in_expected comps k r
  end.

Definition in_delivered (os : list (outcome (option ievent))) : list ievent :=
  flat_map (fun o => match o with Ok (Some e) => [e] | _ => [] end) os.

Lemma w16_neq_near base k pub :
  (k < pub)%nat -> (pub - k <= 32)%nat -> w16 (base + N.of_nat k) <> w16 (base + N.of_nat pub).
Proof. intros H1 H2. unfold w16. lia. Qed.

Lemma w16_succ base k : w16 (w16 (base + N.of_nat k) + 1) = w16 (base + N.of_nat (S k)).
Proof. unfold w16. lia. Qed.

Theorem input_history base comps :
  Forall (fun c => fst c < IN_QSIZE) comps ->
  forall vs s chains h k,
  Reach (in_q s) chains h -> IStocked s chains ->
  q_last_used (in_q s) = w16 (base + N.of_nat k) ->
  in_honest base comps k vs ->
  exists s' chains' h',
    input_run s (map snd vs) = (in_expected comps k vs, s')
    /\ Reach (in_q s') chains' h' /\ IStocked s' chains'
    /\ q_last_used (in_q s') = w16 (base + N.of_nat (in_consumed k vs)).
Proof.
  intros Htok. induction vs as [|[pub v] r IH]; intros s chains h k HR Hst Hlu Hh.
  - exists s, chains, h. cbn. auto.
  - cbn [in_honest] in Hh. destruct Hh as [(Hrange & Hnear & Hi1 & Hi2 & Hid2 & Hpend) Hrest].
    cbn [map snd input_run in_expected in_consumed].
    destruct (input_pop s v) as [[o s1] e1] eqn:Epop.
    pose proof (input_pop_stocked s chains h v o s1 e1 HR Hst Epop) as HP. cbv zeta in HP.
    destruct HP as (P1 & P2 & P3 & P4).
    destruct (Nat.ltb_spec k pub) as [Hlt|Hge].
    + (* a completion is pending: it is the k-th of the device's list *)
      destruct (Hpend Hlt) as [Hid Hwr].
      assert (Hne1 : q_last_used (in_q s) <> w16 (iv_idx1 v)).
      { rewrite Hlu, Hi1. now apply w16_neq_near. }
      assert (Ht : w16 (iv_id1 v) < IN_QSIZE).
      { rewrite Hid. rewrite Forall_forall in Htok. apply Htok. apply nth_In. lia. }
      assert (Hne2 : q_last_used (in_q s) <> w16 (iv_idx2 v)) by (now rewrite Hi2).
      assert (Hid2' : w16 (iv_id2 v) = w16 (iv_id1 v)) by (now rewrite Hid2).
      destruct (P4 Hne1 Ht Hne2 Hid2') as (pre & c & post & a & q2 & evs_add & _ & _ & _ & Ho & Hs1 & _ & _ & _ & _ & Hlu2 & _ & [h2 HR2] & Hst2).
      assert (Hlu1 : q_last_used (in_q s1) = w16 (base + N.of_nat (S k))).
      { rewrite Hs1. cbn [in_q]. rewrite Hlu2, Hlu. apply w16_succ. }
      assert (HR2' : Reach (in_q s1) ((pre ++ post) ++ [in_chain (w16 (iv_id1 v)) (iv_addr v)]) h2).
      { rewrite Hs1. exact HR2. }
      destruct (IH s1 _ _ (S k) HR2' Hst2 Hlu1 Hrest) as (s' & chains' & h' & Hrun & HR' & Hst' & Hlu').
      exists s', chains', h'. rewrite Hrun, Ho, Hwr. auto.
    + (* nothing pending *)
      assert (Ek : k = pub) by lia. subst pub.
      assert (He1 : q_last_used (in_q s) = w16 (iv_idx1 v)) by (now rewrite Hlu, Hi1).
      destruct (P1 He1) as (-> & -> & _).
      destruct (IH s chains h k HR Hst Hlu Hrest) as (s' & chains' & h' & Hrun & HR' & Hst' & Hlu').
      exists s', chains', h'. rewrite Hrun. auto.
Qed.

Lemma skipn_nth_cons {A} (l : list A) k d : (k < length l)%nat -> skipn k l = nth k l d :: skipn (S k) l.
Proof.
  revert k. induction l as [|a l IH]; intros [|k] H; cbn [length] in H; try lia; [reflexivity|].
  cbn [skipn nth]. rewrite (IH k) by lia. reflexivity.
Qed.

Lemma in_consumed_ge k vs : (k <= in_consumed k vs)%nat.
Proof.
  revert k. induction vs as [|[pub v] r IH]; intros k; cbn [in_consumed]; [lia|].
  destruct (k <? pub)%nat; [specialize (IH (S k)); lia|apply IH].
Qed.

(* exactly once, in order: the events handed to the caller are the device's completions number k, k+1, ... in this
   order, none twice, none skipped, each with the first 8 bytes its buffer held *)
Lemma in_expected_delivered base comps : forall vs k,
  in_honest base comps k vs ->
  in_delivered (in_expected comps k vs)
  = map (fun c => in_ev_of_bytes (firstn 8 (snd c))) (firstn (in_consumed k vs - k) (skipn k comps)).
Proof.
  induction vs as [|[pub v] r IH]; intros k Hh.
  - cbn [in_expected in_consumed in_delivered flat_map]. rewrite Nat.sub_diag. reflexivity.
  - cbn [in_honest] in Hh. destruct Hh as [(Hrange & _) Hrest].
    cbn [in_expected in_consumed].
    destruct (Nat.ltb_spec k pub) as [Hlt|Hge].
    + unfold in_delivered. cbn [flat_map app]. fold (in_delivered (in_expected comps (S k) r)).
      rewrite (IH (S k) Hrest).
      pose proof (in_consumed_ge (S k) r) as Hge.
      rewrite (skipn_nth_cons comps k in_comp0) by lia.
      replace (in_consumed (S k) r - k)%nat with (S (in_consumed (S k) r - S k)) by lia.
      reflexivity.
    + unfold in_delivered. cbn [flat_map app]. fold (in_delivered (in_expected comps k r)). apply IH. exact Hrest.
Qed.

Theorem input_exactly_once_in_order base comps vs s chains h k :
  Forall (fun c => fst c < IN_QSIZE) comps ->
  Reach (in_q s) chains h -> IStocked s chains ->
  q_last_used (in_q s) = w16 (base + N.of_nat k) ->
  in_honest base comps k vs ->
  in_delivered (fst (input_run s (map snd vs)))
  = map (fun c => in_ev_of_bytes (firstn 8 (snd c))) (firstn (in_consumed k vs - k) (skipn k comps))
  /\ (forall o, In o (fst (input_run s (map snd vs))) -> o = Ok None \/ exists e, o = Ok (Some e)).
Proof.
  intros Htok HR Hst Hlu Hh.
  destruct (input_history base comps Htok vs s chains h k HR Hst Hlu Hh) as (s' & _ & _ & Hrun & _).
  rewrite Hrun. cbn [fst]. split; [now apply (in_expected_delivered base)|].
  clear. revert k. induction vs as [|[pub v] r IH]; intros k o Ho; [contradiction|].
  cbn [in_expected] in Ho. destruct (k <? pub)%nat; destruct Ho as [<-|Ho]; eauto.
Qed.

(* ------------------------------------------------------------------------------------------------ *)
(* the 8 bytes of an event *)
(* only the first 8 bytes of the buffer can reach the caller ... *)
Lemma in_ev_first8 l : in_ev_of_bytes (firstn 8 l) = in_ev_of_bytes l.
Proof.
  destruct l as [|a0 [|a1 [|a2 [|a3 [|a4 [|a5 [|a6 [|a7 l]]]]]]]]; reflexivity.
Qed.

(* ... they fill the three fields of InputEvent (2 + 2 + 4 bytes) and nothing else ... *)
Lemma in_ev_fields_bounded l :
  ie_type (in_ev_of_bytes l) < 65536 /\ ie_code (in_ev_of_bytes l) < 65536 /\ ie_value (in_ev_of_bytes l) < 4294967296.
Proof. unfold in_ev_of_bytes, in_byte, w8. cbn [ie_type ie_code ie_value]. lia. Qed.

(* ... and the event IS those bytes: reading the fields back little-endian gives the buffer contents *)
Lemma in_ev_bytes_roundtrip l :
  length l = 8%nat -> Forall (fun b => b < 256) l -> in_bytes_of_ev (in_ev_of_bytes l) = l.
Proof.
  intros Hl Hb.
  destruct l as [|a0 [|a1 [|a2 [|a3 [|a4 [|a5 [|a6 [|a7 [|x l]]]]]]]]]; try discriminate.
  repeat match goal with H : Forall _ (_ :: _) |- _ => inversion H; clear H; subst end.
  unfold in_bytes_of_ev, in_ev_of_bytes, in_byte, w8. cbn [nth ie_type ie_code ie_value].
  repeat f_equal; lia.
Qed.

(* ------------------------------------------------------------------------------------------------ *)
(* EVERY driver state (no reachability, no stocking): what pop_pending_event can do at all *)
Lemma add_single_no_ub s b : fst (fst (add s [] [b] 0)) <> UB.
Proof.
  unfold add. cbn [tag_bufs map app]. change (lenN [(b, true)]) with 1. cbn [N.eqb Pos.eqb].
  destruct (negb (capacity_ok s 1)); [discriminate|].
  change (1 <? 1) with false. rewrite andb_false_r.
  unfold add_direct. cbn [add_direct_loop].
  destruct (b_len b =? 0); [discriminate|].
  destruct (nthN_error (q_shadow s) (q_free_head s)) as [d|]; [|discriminate].
  destruct (two32 <=? b_len b); [discriminate|].
  destruct (nthN_error _ (q_free_head s)); discriminate.
Qed.

Lemma pop_used_no_ub s token ins outs u_idx u_id u_len : fst (fst (pop_used s token ins outs u_idx u_id u_len)) <> UB.
Proof. exact (proj1 (DrvAdvProofs.c07drv_queue_pop_total s token ins outs u_idx u_id u_len)). Qed.

(* result, error-free: None, an event, or a (clean) panic - never an error code, never outside a contract; an id
   outside event_buf and an empty used ring touch nothing; an event handed out is read from event_buf[id] with
   id < 32 after the copy-back - never from outside the array *)
Theorem input_pop_total s v :
  let r := input_pop s v in
  let o := fst (fst r) in
  o <> UB /\ (forall e, o <> Err e)
  /\ (q_last_used (in_q s) = w16 (iv_idx1 v) -> r = (Ok None, s, []))
  /\ (q_last_used (in_q s) <> w16 (iv_idx1 v) -> IN_QSIZE <= w16 (iv_id1 v) -> r = (Panic, s, []))
  /\ (forall e, o = Ok (Some e) ->
        w16 (iv_id1 v) < IN_QSIZE
        /\ e = in_ev_of_bytes (nthN (updN (in_buf s) (w16 (iv_id1 v)) (firstn 8 (iv_wr v))) (w16 (iv_id1 v)) [])).
Proof.
  cbv zeta. unfold input_pop, peek_used, can_pop.
  destruct (N.eqb_spec (q_last_used (in_q s)) (w16 (iv_idx1 v))) as [E1|E1]; cbn [negb].
  { cbn. split; [discriminate|]. split; [discriminate|]. split; [auto|]. split; [intros; contradiction|discriminate]. }
  destruct (N.leb_spec IN_QSIZE (w16 (iv_id1 v))) as [E2|E2].
  { cbn. split; [discriminate|]. split; [discriminate|]. split; [intros; contradiction|]. split; [auto|discriminate]. }
  pose proof (pop_used_no_ub (in_q s) (w16 (iv_id1 v)) [] [in_ebuf (w16 (iv_id1 v)) 0] (iv_idx2 v) (iv_id2 v) (iv_len v)) as Hp.
  destruct (pop_used _ _ _ _ _ _ _) as [[o1 q1] e1]. cbn [fst] in Hp.
  destruct o1 as [l|e| |]; try contradiction;
    try (cbn; split; [discriminate|]; split; [discriminate|]; split; [intros; contradiction|]; split; [intros; lia|discriminate]).
  pose proof (add_single_no_ub q1 (in_ebuf (w16 (iv_id1 v)) (iv_addr v))) as Ha.
  destruct (add q1 [] [in_ebuf (w16 (iv_id1 v)) (iv_addr v)] 0) as [[o2 q2] e2]. cbn [fst] in Ha.
  destruct o2 as [nt|e| |]; try contradiction;
    try (cbn; split; [discriminate|]; split; [discriminate|]; split; [intros; contradiction|]; split; [intros; lia|discriminate]).
  destruct (nt =? w16 (iv_id1 v));
    cbn [fst snd]; (split; [discriminate|]); (split; [discriminate|]); (split; [intros; contradiction|]); (split; [intros; lia|]).
  - intros e [= <-]. auto.
  - discriminate.
Qed.

(* ------------------------------------------------------------------------------------------------ *)
(* non-interference: pop_pending_event never reads the areas the driver writes for the device (descriptor table,
   available ring, flags, used_event): result, events, private queue state and event_buf are the same whatever those
   areas contain - whatever a device scribbles there *)
Definition in_res (r : outcome (option ievent) * istate * list iev) :=
  (fst (fst r), priv (in_q (snd (fst r))), in_buf (snd (fst r)), snd r).

Theorem input_pop_indep s1 s2 v :
  priv (in_q s1) = priv (in_q s2) -> in_buf s1 = in_buf s2 ->
  in_res (input_pop s1 v) = in_res (input_pop s2 v).
Proof.
  intros Hp Hb. unfold input_pop.
  destruct (queries_indep _ _ Hp) as (_ & _ & Hpeek & _). rewrite Hpeek.
  destruct (peek_used (in_q s2) (iv_idx1 v) (iv_id1 v)) as [token|]; [|unfold in_res; cbn; now rewrite Hp, Hb].
  destruct (IN_QSIZE <=? token); [unfold in_res; cbn; now rewrite Hp, Hb|].
  pose proof (pop_indep _ _ token [] [in_ebuf token 0] (iv_idx2 v) (iv_id2 v) (iv_len v) Hp) as HI.
  destruct (pop_used (in_q s1) token [] [in_ebuf token 0] (iv_idx2 v) (iv_id2 v) (iv_len v)) as [[o1 q1] e1].
  destruct (pop_used (in_q s2) token [] [in_ebuf token 0] (iv_idx2 v) (iv_id2 v) (iv_len v)) as [[o2 q2] e2].
  unfold res3 in HI. cbn [fst snd] in HI.
  assert (Ho : o1 = o2) by congruence. assert (He : e1 = e2) by congruence.
  assert (Hq : priv q1 = priv q2) by congruence. subst o1 e1. clear HI.
  destruct o2 as [l|e| |]; try (unfold in_res; cbn; now rewrite Hq, Hb).
  pose proof (add_indep _ _ [] [in_ebuf token (iv_addr v)] 0 Hq) as HA.
  destruct (add q1 [] [in_ebuf token (iv_addr v)] 0) as [[oa qa] ea].
  destruct (add q2 [] [in_ebuf token (iv_addr v)] 0) as [[ob qb] eb].
  unfold res3 in HA. cbn [fst snd] in HA.
  assert (Ho : oa = ob) by congruence. assert (He : ea = eb) by congruence.
  assert (Hq' : priv qa = priv qb) by congruence. subst oa ea. clear HA.
  destruct (queries_indep _ _ Hq') as (Hsn & _).
  destruct ob as [nt|e| |]; try (unfold in_res; cbn; now rewrite Hq', Hb).
  destruct (nt =? token); unfold in_res; cbn; now rewrite Hq', Hb, ?Hsn.
Qed.

(* ------------------------------------------------------------------------------------------------ *)
(* Observation (not a refutation of C19 as we read it): the length the device records is dropped (`.ok()?`), the
   whole 8-byte struct is handed out. A device that records fewer than 8 bytes - outside the device specification,
   an input event is always 8 bytes - still gets all 8 bytes of the buffer delivered; what the bytes it did NOT
   write are is up to the platform's copy-back (zero in a fresh bounce buffer, the previous event's bytes when the
   buffer is shared in place): the result depends on them. *)
Example input_len_ignored :
  let s := snd (fst (input_new false false 0 (seqN 100 32) [] 0 0)) in
  fst (fst (input_new false false 0 (seqN 100 32) [] 0 0)) = Ok tt
  /\ fst (fst (input_pop s (mkInV 1 7 1 7 4 [1; 2; 3; 4; 0; 0; 0; 0] 500 [] 0 0))) = Ok (Some (mkIEv 513 1027 0))
  /\ fst (fst (input_pop s (mkInV 1 7 1 7 4 [1; 2; 3; 4; 9; 9; 9; 9] 500 [] 0 0))) = Ok (Some (mkIEv 513 1027 151587081)).
Proof. vm_compute. split; [reflexivity|]. split; reflexivity. Qed.

(* non-vacuity: new succeeds, an event completed under token 7 is delivered and token 7 is posted again; across
   the 16-bit wrap of the indices as well, with indirect descriptors and event_idx negotiated *)
Example input_pop_nonvacuous :
  let s := snd (fst (input_new true true 65535 (seqN 100 32) [165] 0 0)) in
  let r := input_pop s (mkInV 0 7 0 65543 8 [1; 0; 30; 0; 1; 0; 0; 0; 77] 500 [165] 0 0) in
  fst (fst (input_new true true 65535 (seqN 100 32) [165] 0 0)) = Ok tt
  /\ fst (fst r) = Ok (Some (mkIEv 1 30 1))
  /\ q_num_used (in_q (snd (fst r))) = 32 /\ q_last_used (in_q (snd (fst r))) = 0 /\ q_avail_idx (in_q (snd (fst r))) = 32
  /\ existsb (fun e => match e with IQ (QUnshare 107 7 8 true) => true | _ => false end) (snd r) = true
  /\ existsb (fun e => match e with IQ (QShare 7 8 true 500) => true | _ => false end) (snd r) = true
  /\ existsb (fun e => match e with INotify 0 => true | _ => false end) (snd r) = true.
Proof. vm_compute. repeat (split; [reflexivity|]). reflexivity. Qed.

(* The None-after-pop path of the code (`add` refused after a successful pop_used: the event would be dropped and
   its buffer never posted again) exists in the model; input_pop_stocked shows that it is never taken from a state
   the driver can be in: pop_used has just put the descriptor on top of the free list, and a one-buffer chain is
   direct even when indirect descriptors were negotiated. *)

(* ------------------------------------------------------------------------------------------------ *)
(* query_config_select: `size` is the device's; the copy is bounded by the caller's slice, every byte read lies
   at data[i] with i < min(size, out.len()) <= 255, and nothing but Ok / ConfigSpaceTooSmall comes out.
   (Observation: unlike query_config_select_alloc, this function does not refuse size > 128, so with a slice longer
   than 128 bytes it asks the transport for offsets up to 8 + 254, beyond struct Config; the transport's bounds
   check - C13 - answers ConfigSpaceTooSmall or the bytes the window really has.) *)
Lemma input_cfg_copy_spec k : forall i data o evs,
  input_cfg_copy k i data = (o, evs) ->
  o <> Panic /\ o <> UB
  /\ (forall l, o = Ok l -> length l = k /\ Forall (fun b => b < 256) l)
  /\ Forall (fun e => exists j, e = ICRead (8 + j) /\ i <= j < i + N.of_nat k) evs.
Proof.
  induction k as [|k IH]; intros i data o evs H; cbn [input_cfg_copy] in H.
  - inversion H; subst. split; [discriminate|]. split; [discriminate|]. split; [|constructor].
    intros l [= <-]. split; [reflexivity|constructor].
  - destruct (hd None data) as [b|].
    + destruct (input_cfg_copy k (i + 1) (tl data)) as [o2 e2] eqn:E2.
      destruct (IH _ _ _ _ E2) as (A & B & C & D). inversion H; subst. clear H.
      split; [destruct o2; try discriminate; contradiction|].
      split; [destruct o2; try discriminate; contradiction|].
      split.
      * intros l Hl. destruct o2 as [l2| | |]; try discriminate. injection Hl as <-.
        destruct (C l2 eq_refl) as [C1 C2]. split; [cbn [length]; lia|].
        constructor; [unfold w8; lia|exact C2].
      * constructor; [exists i; split; [reflexivity|lia]|].
        eapply Forall_impl; [|exact D]. intros e (j & -> & Hj). exists j. split; [reflexivity|lia].
    + inversion H; subst. split; [discriminate|]. split; [discriminate|]. split; [discriminate|].
      constructor; [exists i; split; [reflexivity|lia]|constructor].
Qed.

Theorem input_query_config_bounded select subsel out_len w1 w2 size data o evs :
  input_query_config_select select subsel out_len w1 w2 size data = (o, evs) ->
  o <> Panic /\ o <> UB
  /\ (forall sz l, o = Ok (sz, l) ->
        sz < 256 /\ lenN l = N.min sz out_len /\ lenN l <= out_len /\ Forall (fun b => b < 256) l)
  /\ Forall (fun e => match e with
                      | ICWrite off _ => off < 2
                      | ICRead off => off = 2 \/ (8 <= off < 8 + N.min 255 out_len)
                      end) evs.
Proof.
  unfold input_query_config_select, input_query_config_select_gen. intros H.
  destruct w1; cbn [negb] in H.
  2:{ inversion H; subst. split; [discriminate|]. split; [discriminate|]. split; [discriminate|].
      repeat constructor. }
  destruct w2; cbn [negb] in H.
  2:{ inversion H; subst. split; [discriminate|]. split; [discriminate|]. split; [discriminate|].
      repeat constructor. }
  destruct size as [sz|].
  2:{ inversion H; subst. split; [discriminate|]. split; [discriminate|]. split; [discriminate|].
      repeat constructor. }
  cbn [andb] in H.
  destruct (IN_CFG_DATA_MAX <? w8 sz).
  { inversion H; subst. split; [discriminate|]. split; [discriminate|]. split; [discriminate|].
    repeat constructor. }
  destruct (input_cfg_copy (N.to_nat (N.min (w8 sz) out_len)) 0 data) as [o2 e2] eqn:E2.
  destruct (input_cfg_copy_spec _ _ _ _ _ E2) as (A & B & C & D). inversion H; subst. clear H.
  split; [destruct o2; try discriminate; contradiction|].
  split; [destruct o2; try discriminate; contradiction|].
  split.
  - intros sz0 l Hl. destruct o2 as [l2| | |]; try discriminate. injection Hl as <- <-.
    destruct (C l2 eq_refl) as [C1 C2].
    assert (Hw : w8 sz < 256) by (unfold w8; lia).
    split; [exact Hw|]. unfold lenN. rewrite C1. split; [lia|]. split; [lia|exact C2].
  - cbn [app]. constructor; [cbn; lia|]. constructor; [cbn; lia|]. constructor; [now left|].
    eapply Forall_impl; [|exact D]. intros e (j & -> & Hj). right.
    assert (Hw : w8 sz < 256) by (unfold w8; lia). lia.
Qed.

(* non-vacuity of the history theorems: a device that starts at index 65535, completes token 7, then token 3, then
   token 7 again (the buffer has been posted again in between), publishes the first two in one burst; five polls *)
Definition in_demo_comps : list in_comp :=
  [(7, [1; 0; 30; 0; 1; 0; 0; 0]); (3, [2; 0; 5; 1; 255; 255; 255; 255]); (7, [0; 0; 0; 0; 0; 0; 0; 0])].
Definition in_demo_view (pub : N) (k : nat) : inview :=
  let c := nth k in_demo_comps in_comp0 in
  mkInV (65535 + pub) (fst c) (65535 + pub) (fst c) 8 (snd c) (500 + pub) [165] 0 0.
Definition in_demo_polls : list (nat * inview) :=
  [(2%nat, in_demo_view 2 0); (2%nat, in_demo_view 2 1); (2%nat, in_demo_view 2 2); (3%nat, in_demo_view 3 2); (3%nat, in_demo_view 3 3)].

Example input_history_nonvacuous :
  in_honest 65535 in_demo_comps 0 in_demo_polls
  /\ Forall (fun c => fst c < IN_QSIZE) in_demo_comps
  /\ in_consumed 0 in_demo_polls = 3%nat
  /\ fst (input_run (snd (fst (input_new true true 65535 (seqN 100 32) [165] 0 0))) (map snd in_demo_polls))
     = [Ok (Some (mkIEv 1 30 1)); Ok (Some (mkIEv 2 261 4294967295)); Ok None; Ok (Some (mkIEv 0 0 0)); Ok None].
Proof.
  split.
  { unfold in_demo_polls, in_demo_view, in_honest, in_honest_view.
    cbn [Nat.ltb Nat.leb length in_demo_comps nth fst snd iv_idx1 iv_idx2 iv_id1 iv_id2 iv_wr].
    repeat split; try lia; try reflexivity; intros; try lia; try (vm_compute; reflexivity). }
  split; [repeat constructor|].
  split; [reflexivity|].
  vm_compute. reflexivity.
Qed.
