(* C12: proofs about Model/PciBus.v.                                                        *)
(*  1. bit-field arithmetic (lor of disjoint ranges = +, and-with-field = div/mod)           *)
(*  2. the reference PCI function (restore lemma, register decoding)                         *)
(*  3. bar_info / bar_info_prefix: symbolic execution against the reference function        *)
(*  4. what a well-formed BAR is; sizing arithmetic (finite sweeps over (type bits, log size)) *)
(*  5. the C12 BAR theorems (full for the repaired code, refuted + partial for the old code)  *)
(*  6. cam_offset   7. bus enumeration   8. capability walk                                  *)
From VD Require Import Base.Words Base.ListUpd Model.PciBus.
From Coq Require Import ZArith Lia ZifyBool ZifyN.
Ltac Zify.zify_post_hook ::= Z.div_mod_to_equations.

(* ===================== 1. bit fields ===================== *)
Lemma testbit_high_lt a n i : a < 2 ^ n -> n <= i -> N.testbit a i = false.
Proof.
  intros Ha Hi. destruct (N.eq_dec a 0) as [->|Hz]; [apply N.bits_0|].
  apply N.bits_above_log2. apply N.lt_le_trans with n; [|exact Hi].
  apply N.log2_lt_pow2; lia.
Qed.

Lemma land_low_high lo hi n : lo < 2 ^ n -> N.land lo (hi * 2 ^ n) = 0.
Proof.
  intros H. apply N.bits_inj_0. intros i. rewrite N.land_spec.
  destruct (N.lt_ge_cases i n) as [Hi|Hi].
  - rewrite N.mul_pow2_bits_low by exact Hi. apply andb_false_r.
  - rewrite (testbit_high_lt lo n i H Hi). reflexivity.
Qed.

Lemma lor_add_disjoint lo hi n : lo < 2 ^ n -> N.lor lo (hi * 2 ^ n) = lo + hi * 2 ^ n.
Proof.
  intros H. pose proof (land_low_high lo hi n H) as E.
  rewrite N.add_nocarry_lxor by exact E. symmetry. apply N.lxor_lor. exact E.
Qed.

Lemma lor_shiftl_add lo hi n : lo < 2 ^ n -> N.lor lo (N.shiftl hi n) = lo + hi * 2 ^ n.
Proof. intros H. rewrite N.shiftl_mul_pow2. apply lor_add_disjoint; exact H. Qed.

(* x & ((2^n - 1) << m) picks the bit field [m, m+n) *)
Lemma land_field x n m : N.land x (N.shiftl (N.ones n) m) = ((x / 2 ^ m) mod 2 ^ n) * 2 ^ m.
Proof.
  rewrite <- N.land_ones, <- N.shiftr_div_pow2, <- N.shiftl_mul_pow2.
  apply N.bits_inj. intros i. rewrite N.land_spec.
  destruct (N.lt_ge_cases i m) as [Hi|Hi].
  - rewrite !N.shiftl_spec_low by exact Hi. apply andb_false_r.
  - rewrite !N.shiftl_spec_high' by exact Hi. rewrite N.land_spec, N.shiftr_spec'.
    replace (i - m + m) with i by lia. reflexivity.
Qed.

Lemma land_lt_pow2 a b n : a < 2 ^ n -> N.land a b < 2 ^ n.
Proof.
  intros H. destruct (N.eq_dec (N.land a b) 0) as [E|E]; [rewrite E; lia|].
  apply N.log2_lt_pow2; [lia|].
  destruct (N.eq_dec a 0) as [->|Ha]; [rewrite N.land_0_l in E; congruence|].
  apply N.le_lt_trans with (N.log2 a).
  - pose proof (N.log2_land a b). lia.
  - apply N.log2_lt_pow2; lia.
Qed.

(* ===================== 2. lists, the reference function ===================== *)
(* ---- list helpers on nthN/updN with default ---- *)
Lemma nthN_updN_same {A} (l : list A) i x d : i < lenN l -> nthN (updN l i x) i d = x.
Proof.
  intros H. pose proof (nthN_updN_eq l i x H) as E. unfold nthN, nthN_error in *.
  apply nth_error_nth. exact E.
Qed.
Lemma nthN_updN_other {A} (l : list A) i j x d : i <> j -> nthN (updN l i x) j d = nthN l j d.
Proof.
  intros H. pose proof (nthN_updN_neq l i j x H) as E. unfold nthN, nthN_error in *.
  revert E. generalize (N.to_nat j). intros n E.
  destruct (nth_error l n) eqn:E1.
  - rewrite (nth_error_nth _ _ d E), (nth_error_nth _ _ d E1). reflexivity.
  - rewrite !nth_overflow; auto; apply nth_error_None; auto.
Qed.
Lemma upd_upd_same {A} (l : list A) i x y : upd (upd l i x) i y = upd l i y.
Proof. revert i; induction l as [|h t IH]; intros [|i]; simpl; auto. now rewrite IH. Qed.
Lemma updN_updN_same {A} (l : list A) i x y : updN (updN l i x) i y = updN l i y.
Proof. apply upd_upd_same. Qed.
Lemma upd_nth_id {A} (l : list A) i d : upd l i (nth i l d) = l.
Proof. revert i; induction l as [|h t IH]; intros [|i]; simpl; auto. now rewrite IH. Qed.
Lemma updN_nthN_id {A} (l : list A) i d : updN l i (nthN l i d) = l.
Proof. apply upd_nth_id. Qed.

(* ---- the reference function ---- *)
Lemma slot_write_restore k m v x : v < 2 ^ 32 ->
  slot_write (slot_write (mkSlot k m v) x) v = mkSlot k m v.
Proof.
  intros Hv. unfold slot_write; cbn [s_kind s_mask s_val]. f_equal.
  unfold w32. rewrite (N.mod_small v) by exact Hv.
  apply N.bits_inj. intros i.
  rewrite !N.lor_spec, !N.land_spec, !N.ldiff_spec, !N.lor_spec, !N.land_spec, !N.ldiff_spec.
  destruct (N.testbit m i), (N.testbit v i), (N.testbit (x mod 4294967296) i); reflexivity.
Qed.

Definition bar_at (d : pcifn) (i : N) : slot := nthN (f_bars d) i dslot.

Lemma cfg_read_sc d : cfg_read d 4 = f_status d * 65536 + f_cmd d.
Proof. reflexivity. Qed.
Lemma cfg_write_sc d v : cfg_write d 4 v = write_sc d v.
Proof. reflexivity. Qed.
Lemma bar_off_decode i : i < 6 ->
  (16 + 4 * i =? 4) = false /\ is_bar_off (16 + 4 * i) = true /\ (16 + 4 * i - 16) / 4 = i.
Proof. intros H. unfold is_bar_off. repeat split; lia. Qed.
Lemma cfg_read_bar d i : i < 6 -> cfg_read d (16 + 4 * i) = s_val (bar_at d i).
Proof.
  intros H. destruct (bar_off_decode i H) as (E1 & E2 & E3).
  unfold cfg_read. rewrite E1, E2, E3. reflexivity.
Qed.
Lemma cfg_write_bar d i v : i < 6 ->
  cfg_write d (16 + 4 * i) v = set_bar d i (slot_write (bar_at d i) v).
Proof.
  intros H. destruct (bar_off_decode i H) as (E1 & E2 & E3).
  unfold cfg_write. rewrite E1, E2, E3. reflexivity.
Qed.
Lemma bar_off_small m i : i < 6 -> bar_off m i = Some (16 + 4 * i).
Proof. intros H. unfold bar_off. destruct (N.leb_spec (16 + 4 * i) 255); [reflexivity|lia]. Qed.

Definition mask32 (r : N) : N := N.lor r (N.shiftl (if r =? 0 then 0 else ones32) 32).

Lemma combine_self l : forallb (fun p : N * N => fst p =? snd p) (combine l l) = true.
Proof. induction l; cbn; auto. rewrite N.eqb_refl. auto. Qed.

Lemma decode_off_and c : decode_on (N.land c (N.ldiff ones16 CMD_DECODE)) = false.
Proof.
  unfold decode_on, CMD_DECODE. change (N.ldiff ones16 3) with (N.shiftl (N.ones 14) 2).
  rewrite land_field. change 3 with (N.ones 2). rewrite N.land_ones.
  apply negb_false_iff, N.eqb_eq. change (2^2) with 4. change (2^14) with 16384. lia.
Qed.

(* ===================== 3. symbolic execution of bar_info ===================== *)
Lemma rd_eq d tr off :
  rd (d, tr) off = (cfg_read d off, (d, tr ++ [mkAcc false off (cfg_read d off) (f_cmd d)])).
Proof. reflexivity. Qed.
Lemma wr_eq d tr off v :
  wr (d, tr) off v = (cfg_write d off v, tr ++ [mkAcc true off v (f_cmd d)]).
Proof. reflexivity. Qed.
Lemma w16_small c : c < 65536 -> w16 c = c.
Proof. intros; unfold w16; lia. Qed.
Lemma land_cmd_lt c x : c < 65536 -> N.land c x < 65536.
Proof. intros H. change 65536 with (2 ^ 16) in *. apply land_lt_pow2; exact H. Qed.
Lemma write_sc_cmd_only c st bs rg v : v < 65536 ->
  write_sc (mkFn c st bs rg) v = mkFn v st bs rg.
Proof.
  intros H. unfold write_sc; cbn [f_status f_bars f_regs]. rewrite (w16_small v H).
  unfold w32. replace (v mod 4294967296 / 65536) with 0 by lia.
  rewrite N.land_0_l, N.ldiff_0_r. reflexivity.
Qed.

Ltac norm := repeat first
  [ rewrite cfg_write_bar by lia | rewrite cfg_read_bar by lia | rewrite cfg_write_sc | rewrite cfg_read_sc
  | progress unfold bar_at, set_bar | progress cbn [f_bars f_cmd f_status f_regs fst snd s_val]
  | rewrite write_sc_cmd_only by assumption
  | rewrite nthN_updN_same by (rewrite ?lenN_updN; lia) | rewrite nthN_updN_other by lia | rewrite updN_updN_same ].
Ltac step := first [rewrite wr_eq | rewrite rd_eq]; cbn [fst snd].
Ltac exec0 := unfold set_command, fin, STATUS_COMMAND_OFFSET; cbv zeta; repeat step.
Ltac exec := unfold bar_probe, bar_finish, set_command, fin, STATUS_COMMAND_OFFSET; cbv zeta; repeat (step; norm).
Lemma sws_cons a t :
  (a_write a = false \/ is_bar_off (a_off a) = false \/ decode_on (a_cmd a) = false) ->
  sizing_writes_safe t = true -> sizing_writes_safe (a :: t) = true.
Proof.
  intros H Ht. unfold sizing_writes_safe in *. cbn [forallb]. rewrite Ht, andb_true_r.
  destruct H as [->|[->| ->]]; cbn; auto; try apply orb_true_r.
  rewrite andb_false_r. reflexivity.
Qed.
Ltac sws := repeat (apply sws_cons;
  [cbn [a_write a_off a_cmd]; first [left; reflexivity | right; left; reflexivity | right; right; assumption]|]);
  reflexivity.
Lemma ds_cons b d a t :
  (decode_on (f_cmd (if a_write a then cfg_write d (a_off a) (a_val a) else d)) = false
   \/ map s_val (f_bars (if a_write a then cfg_write d (a_off a) (a_val a) else d)) = b) ->
  decode_safe b (if a_write a then cfg_write d (a_off a) (a_val a) else d) t = true ->
  decode_safe b d (a :: t) = true.
Proof.
  intros H Ht. cbn [decode_safe]. rewrite Ht, andb_true_r.
  destruct H as [->| ->]; cbn; auto. rewrite combine_self. apply orb_true_r.
Qed.

Ltac ds_tac Hoff tac := repeat (apply ds_cons; cbn [a_write a_off a_val];
  [norm; first [left; exact Hoff | right; tac; reflexivity] | norm]); reflexivity.

Lemma bar_info_run_not64 szf m d i :
  lenN (f_bars d) = 6 -> i < 6 -> f_cmd d < 65536 -> s_val (bar_at d i) < 2 ^ 32 ->
  (N.land (s_val (bar_at d i)) 7 =? 4) = false ->
  exists tr, bar_info_gen szf m d i =
    (bar_decode szf (s_val (bar_at d i)) 0 (mask32 (s_val (slot_write (bar_at d i) ones32))), d, tr)
    /\ sizing_writes_safe tr = true /\ decode_safe (bar_vals d) d tr = true.
Proof.
  intros Hlen Hi Hc Hv H64.
  unfold bar_info_gen. rewrite (bar_off_small m i Hi). exec0.
  rewrite (cfg_read_bar d i Hi), H64. cbn [andb].
  rewrite cfg_read_sc.
  assert (Ew : w16 (f_status d * 65536 + f_cmd d) = f_cmd d) by (unfold w16; lia).
  rewrite Ew.
  destruct d as [c st bs rg]. cbn [f_cmd f_status f_bars f_regs] in *.
  unfold bar_at in *. cbn [f_bars] in *.
  pose proof (land_cmd_lt c (N.ldiff ones16 CMD_DECODE) Hc) as Hc'.
  pose proof (decode_off_and c) as Hoff.
  set (c' := N.land c (N.ldiff ones16 CMD_DECODE)) in *.
  destruct (nthN bs i dslot) as [kk mm vv] eqn:Elo. cbn [s_val] in *.
  pose proof (slot_write_restore kk mm vv ones32 Hv) as Hres.
  assert (Hid : updN bs i (mkSlot kk mm vv) = bs) by (rewrite <- Elo; apply updN_nthN_id).
  unfold bar_vals; cbn [f_bars].
  destruct (c' =? c) eqn:Ech; cbn [negb].
  - (* decoding already disabled: the command register is not touched *)
    apply N.eqb_eq in Ech. rewrite Ech in Hoff.
    unfold bar_probe. rewrite H64. exec. rewrite Elo. norm. rewrite Hres, Hid.
    eexists. split; [reflexivity|]. cbn [app]. split.
    + sws.
    + ds_tac Hoff ltac:(idtac).
  - unfold bar_probe. rewrite H64. exec. rewrite Elo. norm. rewrite Hres, Hid.
    eexists. split; [reflexivity|]. cbn [app]. split.
    + sws.
    + ds_tac Hoff ltac:(try rewrite Elo; norm; try rewrite Hres; try rewrite Hid).
Qed.

Lemma updN_id_other {A} (l : list A) i j x y d :
  nthN l j d = y -> i <> j -> updN (updN l i x) j y = updN l i x.
Proof.
  intros E H. rewrite <- E, <- (nthN_updN_other l i j x d H). apply updN_nthN_id.
Qed.

Lemma bar_info_run_64 szf m d i :
  lenN (f_bars d) = 6 -> i < 5 -> f_cmd d < 65536 ->
  s_val (bar_at d i) < 2 ^ 32 -> s_val (bar_at d (i + 1)) < 2 ^ 32 ->
  (N.land (s_val (bar_at d i)) 7 =? 4) = true ->
  exists tr, bar_info_gen szf m d i =
    (bar_decode szf (s_val (bar_at d i)) (s_val (bar_at d (i + 1)))
       (N.lor (s_val (slot_write (bar_at d i) ones32))
              (N.shiftl (s_val (slot_write (bar_at d (i + 1)) ones32)) 32)), d, tr)
    /\ sizing_writes_safe tr = true /\ decode_safe (bar_vals d) d tr = true.
Proof.
  intros Hlen Hi Hc Hv Hv1 H64.
  assert (Hi6 : i < 6) by lia.
  unfold bar_info_gen. rewrite (bar_off_small m i Hi6). exec0.
  rewrite (cfg_read_bar d i Hi6), H64.
  replace (5 <=? i) with false by lia. cbn [andb].
  rewrite cfg_read_sc.
  assert (Ew : w16 (f_status d * 65536 + f_cmd d) = f_cmd d) by (unfold w16; lia).
  rewrite Ew.
  destruct d as [c st bs rg]. cbn [f_cmd f_status f_bars f_regs] in *.
  unfold bar_at in *. cbn [f_bars] in *.
  pose proof (land_cmd_lt c (N.ldiff ones16 CMD_DECODE) Hc) as Hc'.
  pose proof (decode_off_and c) as Hoff.
  set (c' := N.land c (N.ldiff ones16 CMD_DECODE)) in *.
  destruct (nthN bs i dslot) as [kk mm vv] eqn:Elo.
  destruct (nthN bs (i + 1) dslot) as [kh mh vh] eqn:Ehi. cbn [s_val] in *.
  pose proof (slot_write_restore kk mm vv ones32 Hv) as Hres.
  pose proof (slot_write_restore kh mh vh ones32 Hv1) as Hresh.
  assert (Hid : updN bs i (mkSlot kk mm vv) = bs) by (rewrite <- Elo; apply updN_nthN_id).
  assert (Hidh : forall x, updN (updN bs i x) (i + 1) (mkSlot kh mh vh) = updN bs i x)
    by (intros x; apply (updN_id_other bs i (i + 1) x _ dslot Ehi); lia).
  unfold bar_vals; cbn [f_bars].
  destruct (c' =? c) eqn:Ech; cbn [negb].
  - apply N.eqb_eq in Ech. rewrite Ech in Hoff.
    unfold bar_probe. rewrite H64. cbn [andb]. exec. rewrite ?Elo, ?Ehi. norm.
    rewrite ?Hresh, ?Hidh. norm. rewrite ?Hres, ?Hid.
    eexists. split; [reflexivity|]. cbn [app]. split.
    + sws.
    + ds_tac Hoff ltac:(idtac).
  - unfold bar_probe. rewrite H64. cbn [andb]. exec. rewrite ?Elo, ?Ehi. norm.
    rewrite ?Hresh, ?Hidh. norm. rewrite ?Hres, ?Hid.
    eexists. split; [reflexivity|]. cbn [app]. split.
    + sws.
    + ds_tac Hoff ltac:(rewrite ?Elo, ?Ehi; norm; rewrite ?Hresh, ?Hidh; norm; rewrite ?Hres, ?Hid).
Qed.

(* a 64-bit type in the last slot: refused before anything is written *)
Lemma bar_info_run_err szf m d :
  (N.land (s_val (bar_at d 5)) 7 =? 4) = true ->
  exists tr, bar_info_gen szf m d 5 = (Err EInvalidBarType, d, tr)
    /\ sizing_writes_safe tr = true /\ decode_safe (bar_vals d) d tr = true.
Proof.
  intros H64. unfold bar_info_gen. rewrite (bar_off_small m 5) by lia. exec0.
  rewrite (cfg_read_bar d 5) by lia. rewrite H64. cbn [andb N.leb N.compare Pos.compare Pos.compare_cont].
  eexists. split; [reflexivity|]. cbn [app]. split; [sws|].
  apply ds_cons; cbn [a_write a_off a_val]; [right; reflexivity|reflexivity].
Qed.

(* ---- the code before the repairs ---- *)
Definition cmd_named (c : N) : N := N.land c CMD_NAMED.
Definition cmd_disabled (c : N) : N := N.land (cmd_named c) (N.land (N.ldiff ones16 CMD_DECODE) CMD_NAMED).
(* what the old code leaves in the command register *)
Definition cmd_after_prefix (c : N) : N := if cmd_disabled c =? cmd_named c then c else cmd_named c.
Definition set_cmd (d : pcifn) (c : N) : pcifn := mkFn c (f_status d) (f_bars d) (f_regs d).

Lemma decode_off_prefix c : decode_on (cmd_disabled c) = false.
Proof.
  unfold decode_on, cmd_disabled, CMD_DECODE, CMD_NAMED.
  change (N.land (N.ldiff ones16 3) 1919) with 1916.
  rewrite <- N.land_assoc. change (N.land 1916 3) with 0. rewrite N.land_0_r. reflexivity.
Qed.

Lemma prefix_head d :
  f_cmd d < 65536 ->
  snd (fst (get_status_command (d, []))) = cmd_named (f_cmd d).
Proof.
  intros Hc. unfold get_status_command, status_command_of, STATUS_COMMAND_OFFSET. rewrite rd_eq. cbn [fst snd].
  rewrite cfg_read_sc. unfold cmd_named. f_equal. unfold w16. lia.
Qed.

Lemma bar_info_prefix_run_not64 m d i :
  lenN (f_bars d) = 6 -> i < 6 -> f_cmd d < 65536 -> s_val (bar_at d i) < 2 ^ 32 ->
  (N.land (s_val (bar_at d i)) 7 =? 4) = false ->
  exists tr, bar_info_prefix m d i =
    (bar_decode bar_size_prefix (s_val (bar_at d i)) 0 (mask32 (s_val (slot_write (bar_at d i) ones32))),
     set_cmd d (cmd_after_prefix (f_cmd d)), tr)
    /\ sizing_writes_safe tr = true /\ decode_safe (bar_vals d) d tr = true.
Proof.
  intros Hlen Hi Hc Hv H64.
  unfold bar_info_prefix. rewrite (prefix_head d Hc).
  unfold get_status_command, STATUS_COMMAND_OFFSET. rewrite rd_eq. cbn [fst snd].
  rewrite (bar_off_small m i Hi).
  fold (cmd_disabled (f_cmd d)). unfold cmd_after_prefix, set_cmd.
  destruct d as [c st bs rg]. cbn [f_cmd f_status f_bars f_regs] in *.
  unfold bar_at in *. cbn [f_bars] in *.
  assert (Hn : cmd_named c < 65536) by (apply land_cmd_lt; exact Hc).
  assert (Hd : cmd_disabled c < 65536) by (apply land_cmd_lt; exact Hn).
  pose proof (decode_off_prefix c) as Hoff.
  destruct (nthN bs i dslot) as [kk mm vv] eqn:Elo. cbn [s_val] in *.
  pose proof (slot_write_restore kk mm vv ones32 Hv) as Hres.
  assert (Hid : updN bs i (mkSlot kk mm vv) = bs) by (rewrite <- Elo; apply updN_nthN_id).
  unfold bar_vals; cbn [f_bars].
  destruct (cmd_disabled c =? cmd_named c) eqn:Ech; cbn [negb].
  - apply N.eqb_eq in Ech.
    assert (Hoffc : decode_on c = false).
    { rewrite Ech in Hoff. unfold decode_on, cmd_named, CMD_NAMED, CMD_DECODE in *.
      rewrite <- N.land_assoc in Hoff. exact Hoff. }
    exec0. norm. rewrite ?Elo. norm.
    unfold bar_probe. rewrite H64. exec. rewrite ?Elo. norm. rewrite Hres, Hid.
    eexists. split; [reflexivity|]. cbn [app]. split.
    + sws.
    + ds_tac Hoffc ltac:(idtac).
  - exec0. norm. rewrite ?Elo. norm.
    unfold bar_probe. rewrite H64. exec. rewrite ?Elo. norm. rewrite Hres, Hid.
    eexists. split; [reflexivity|]. cbn [app]. split.
    + sws.
    + ds_tac Hoff ltac:(rewrite ?Elo; norm; rewrite ?Hres, ?Hid).
Qed.

Lemma bar_info_prefix_run_64 m d i :
  lenN (f_bars d) = 6 -> i < 5 -> f_cmd d < 65536 ->
  s_val (bar_at d i) < 2 ^ 32 -> s_val (bar_at d (i + 1)) < 2 ^ 32 ->
  (N.land (s_val (bar_at d i)) 7 =? 4) = true ->
  exists tr, bar_info_prefix m d i =
    (bar_decode bar_size_prefix (s_val (bar_at d i)) (s_val (bar_at d (i + 1)))
       (N.lor (s_val (slot_write (bar_at d i) ones32))
              (N.shiftl (s_val (slot_write (bar_at d (i + 1)) ones32)) 32)),
     set_cmd d (cmd_after_prefix (f_cmd d)), tr)
    /\ sizing_writes_safe tr = true /\ decode_safe (bar_vals d) d tr = true.
Proof.
  intros Hlen Hi Hc Hv Hv1 H64.
  assert (Hi6 : i < 6) by lia.
  unfold bar_info_prefix. rewrite (prefix_head d Hc).
  unfold get_status_command, STATUS_COMMAND_OFFSET. rewrite rd_eq. cbn [fst snd].
  rewrite (bar_off_small m i Hi6).
  fold (cmd_disabled (f_cmd d)). unfold cmd_after_prefix, set_cmd.
  destruct d as [c st bs rg]. cbn [f_cmd f_status f_bars f_regs] in *.
  unfold bar_at in *. cbn [f_bars] in *.
  assert (Hn : cmd_named c < 65536) by (apply land_cmd_lt; exact Hc).
  assert (Hd : cmd_disabled c < 65536) by (apply land_cmd_lt; exact Hn).
  pose proof (decode_off_prefix c) as Hoff.
  destruct (nthN bs i dslot) as [kk mm vv] eqn:Elo.
  destruct (nthN bs (i + 1) dslot) as [kh mh vh] eqn:Ehi. cbn [s_val] in *.
  pose proof (slot_write_restore kk mm vv ones32 Hv) as Hres.
  pose proof (slot_write_restore kh mh vh ones32 Hv1) as Hresh.
  assert (Hid : updN bs i (mkSlot kk mm vv) = bs) by (rewrite <- Elo; apply updN_nthN_id).
  assert (Hidh : forall x, updN (updN bs i x) (i + 1) (mkSlot kh mh vh) = updN bs i x)
    by (intros x; apply (updN_id_other bs i (i + 1) x _ dslot Ehi); lia).
  unfold bar_vals; cbn [f_bars].
  replace (5 <=? i) with false by lia.
  destruct (cmd_disabled c =? cmd_named c) eqn:Ech; cbn [negb].
  - apply N.eqb_eq in Ech.
    assert (Hoffc : decode_on c = false).
    { rewrite Ech in Hoff. unfold decode_on, cmd_named, CMD_NAMED, CMD_DECODE in *.
      rewrite <- N.land_assoc in Hoff. exact Hoff. }
    exec0. norm. rewrite ?Elo. norm.
    unfold bar_probe. rewrite H64. replace (5 <=? i) with false by lia. cbn [andb].
    exec. rewrite ?Elo, ?Ehi. norm.
    rewrite ?Hresh, ?Hidh. norm. rewrite ?Hres, ?Hid.
    eexists. split; [reflexivity|]. cbn [app]. split.
    + sws.
    + ds_tac Hoffc ltac:(idtac).
  - exec0. norm. rewrite ?Elo. norm.
    unfold bar_probe. rewrite H64. replace (5 <=? i) with false by lia. cbn [andb].
    exec. rewrite ?Elo, ?Ehi. norm.
    rewrite ?Hresh, ?Hidh. norm. rewrite ?Hres, ?Hid.
    eexists. split; [reflexivity|]. cbn [app]. split.
    + sws.
    + ds_tac Hoff ltac:(rewrite ?Elo, ?Ehi; norm; rewrite ?Hresh, ?Hidh; norm; rewrite ?Hres, ?Hid).
Qed.

(* ===================== 4. well-formed BARs, sizing arithmetic ===================== *)
(* type bits of a memory BAR: bits 2:1 = type, bit 3 = prefetchable *)
Definition tbits (ty : N) (pf : bool) : N := 2 * ty + (if pf then 8 else 0).

(* A BAR whose writable address bits are the contiguous run [k, m): size 2^k, the device decodes m
   address bits.  m = 32 (64 for a 64-bit BAR) is the full decoder; m = 16 on an I/O BAR is the 16-bit
   I/O decoder of PCI 3.0 6.2.5.1 (upper 16 bits hard-wired zero); m = 20 a below-1-MiB memory BAR;
   m < 64 a 64-bit BAR of a device with fewer address lines. *)
Inductive barspec :=
| SUnimpl
| SIo (k m a : N)                       (* I/O, 2^k bytes at a *)
| SMem (ty : N) (pf : bool) (k m a : N) (* 32-bit register: ty 0 = anywhere in 32 bits, 1 = below 1 MiB *)
| SMem64 (pf : bool) (k m a : N).       (* two registers *)

Definition spec_ok (s : barspec) : Prop :=
  match s with
  | SUnimpl => True
  | SIo k m a => 2 <= k /\ k < m /\ m <= 32 /\ a mod 2 ^ k = 0 /\ a < 2 ^ m
  | SMem ty pf k m a => ty <= 1 /\ 4 <= k /\ k < m /\ m <= 32 /\ a mod 2 ^ k = 0 /\ a < 2 ^ m
  | SMem64 pf k m a => 4 <= k /\ k < m /\ m <= 64 /\ a mod 2 ^ k = 0 /\ a < 2 ^ m
  end.
(* the full decoders (all address bits >= k writable): what the code before F11 handled *)
Definition spec_full (s : barspec) : Prop :=
  match s with
  | SUnimpl => True
  | SIo k m a => m = 32
  | SMem ty pf k m a => m = 32
  | SMem64 pf k m a => m = 64
  end.
(* hard-wired bits of a 32-bit register whose writable bits are [k, m) *)
Definition fmask (k m : N) : N := N.lor (N.ones k) (N.ldiff ones32 (N.ones m)).
(* the register(s): bits below k hard-wired (type bits as encoded, address bits zero), bits >= m
   hard-wired zero, address bits in [k, m) writable; unimplemented = every bit hard-wired zero *)
Definition spec_slots (s : barspec) : list slot :=
  match s with
  | SUnimpl => [mkSlot 0 ones32 0]
  | SIo k m a => [mkSlot 1 (fmask k m) (a + 1)]
  | SMem ty pf k m a => [mkSlot (2 + ty) (fmask k m) (a + tbits ty pf)]
  | SMem64 pf k m a => [mkSlot 4 (fmask (N.min k 32) (N.min m 32)) (a mod 2 ^ 32 + tbits 2 pf);
                        mkSlot 5 (fmask (k - 32) (m - 32)) (a / 2 ^ 32)]
  end.
Definition spec_truth (s : barspec) : option barinfo :=
  match s with
  | SUnimpl => None
  | SIo k m a => Some (BarIO a (2 ^ k))
  | SMem ty pf k m a => Some (BarMem ty pf a (2 ^ k))
  | SMem64 pf k m a => Some (BarMem 2 pf a (2 ^ k))
  end.
(* the BAR occupies the registers from slot i on, and fits *)
Definition placed (d : pcifn) (i : N) (s : barspec) : Prop :=
  match spec_slots s with
  | [lo] => i < 6 /\ bar_at d i = lo
  | [lo; hi] => i < 5 /\ bar_at d i = lo /\ bar_at d (i + 1) = hi
  | _ => False
  end.

Lemma range_forallb (f : N -> bool) n : forall lo,
  forallb f (seqN lo n) = true -> forall k, lo <= k < lo + N.of_nat n -> f k = true.
Proof.
  induction n as [|n IH]; intros lo H k Hk; [lia|].
  cbn [seqN forallb] in H. apply andb_prop in H. destruct H as [H1 H2].
  destruct (N.eq_dec k lo) as [->|Hne]; [exact H1|].
  apply (IH (lo + 1) H2). lia.
Qed.

(* what is read back after writing all ones: type bits | writable bits *)
Definition rb (t k m : N) : N := N.lor t (N.ldiff (w32 ones32) (fmask k m)).

Lemma land_ones_low j x t : x mod 2 ^ j = 0 -> t < 2 ^ j -> N.land (N.ones j) (x + t) = t.
Proof.
  intros Hx Ht. rewrite N.land_comm, N.land_ones.
  assert (E : x = (x / 2 ^ j) * 2 ^ j).
  { pose proof (N.div_mod x (2 ^ j)) as D. rewrite Hx in D.
    rewrite N.mul_comm. rewrite N.add_0_r in D. apply D. apply N.pow_nonzero. discriminate. }
  rewrite E, N.add_comm, N.mod_add by (apply N.pow_nonzero; discriminate).
  apply N.mod_small. exact Ht.
Qed.

(* a multiple of 2^k below 2^m, plus less than 2^k, stays below 2^m *)
Lemma field_bound k m x t : k <= m -> x mod 2 ^ k = 0 -> x < 2 ^ m -> t < 2 ^ k -> x + t < 2 ^ m.
Proof.
  intros Hkm Hx Hlt Ht.
  assert (Hp : 2 ^ k <> 0) by (apply N.pow_nonzero; discriminate).
  assert (E : x = (x / 2 ^ k) * 2 ^ k).
  { pose proof (N.div_mod x (2 ^ k) Hp) as D. rewrite Hx, N.add_0_r, N.mul_comm in D. exact D. }
  assert (Em : 2 ^ m = 2 ^ (m - k) * 2 ^ k) by (rewrite <- N.pow_add_r; f_equal; lia).
  set (q := x / 2 ^ k) in *. set (P := 2 ^ k) in *. set (Q := 2 ^ (m - k)) in *.
  rewrite E, Em in *.
  assert (Hq : q < Q) by (apply (N.mul_lt_mono_pos_r P); [lia|exact Hlt]).
  assert (Hq1 : (q + 1) * P <= Q * P) by (apply N.mul_le_mono_r; lia).
  lia.
Qed.

(* the hard-wired bits of the register keep exactly the bits below k of a well-formed content *)
Lemma land_fmask k m x t : k <= m -> x mod 2 ^ k = 0 -> x < 2 ^ m -> t < 2 ^ k ->
  N.land (fmask k m) (x + t) = t.
Proof.
  intros Hkm Hx Hlt Ht. unfold fmask. rewrite N.land_lor_distr_l.
  rewrite (land_ones_low k x t Hx Ht).
  rewrite N.ldiff_ones_r, N.shiftl_mul_pow2, N.land_comm.
  rewrite (land_low_high (x + t) _ m (field_bound k m x t Hkm Hx Hlt Ht)).
  apply N.lor_0_r.
Qed.

Lemma slot_rb kk k m x t : k <= m -> x mod 2 ^ k = 0 -> x < 2 ^ m -> t < 2 ^ k ->
  s_val (slot_write (mkSlot kk (fmask k m) (x + t)) ones32) = rb t k m.
Proof.
  intros Hkm Hx Hlt Ht. unfold slot_write, rb. cbn [s_val s_mask].
  rewrite (land_fmask k m x t Hkm Hx Hlt Ht). reflexivity.
Qed.

Lemma pow2_le_16 j : 4 <= j -> 16 <= 2 ^ j.
Proof. intros H. change 16 with (2 ^ 4). apply N.pow_le_mono_r; lia. Qed.
Lemma mod_pow2_le a j k : j <= k -> a mod 2 ^ k = 0 -> a mod 2 ^ j = 0.
Proof.
  intros Hjk H. apply N.mod_divide in H; [|apply N.pow_nonzero; discriminate].
  apply N.mod_divide; [apply N.pow_nonzero; discriminate|].
  apply N.divide_trans with (2 ^ k); [|exact H].
  exists (2 ^ (k - j)). rewrite <- N.pow_add_r. f_equal. lia.
Qed.
Lemma mod_mod_pow2 a n k : a mod 2 ^ k = 0 -> (a mod 2 ^ n) mod 2 ^ k = 0.
Proof.
  intros H. rewrite <- !N.land_ones. rewrite <- N.land_assoc, (N.land_comm (N.ones n)), N.land_assoc.
  rewrite (N.land_ones a k), H. apply N.land_0_l.
Qed.

(* --- the sizing computation, for every (type bits, k, m): finite sweeps --- *)
Definition mask64 (t k m : N) : N :=
  N.lor (rb t (N.min k 32) (N.min m 32)) (N.shiftl (rb 0 (k - 32) (m - 32)) 32).
(* the statement about one size computation `szf`, for the three shapes *)
Definition ok_mem32 (szf : bool -> N -> N) (t k m : N) : bool :=
  (szf false (mask32 (rb t k m)) =? 2 ^ k) && negb (mask32 (rb t k m) =? 0).
Definition ok_io (szf : bool -> N -> N) (k m : N) : bool :=
  (w32 (szf true (mask32 (rb 1 k m))) =? 2 ^ k) && negb (mask32 (rb 1 k m) =? 0).
Definition ok_mem64 (szf : bool -> N -> N) (t k m : N) : bool :=
  (szf false (mask64 t k m) =? 2 ^ k) && negb (mask64 t k m =? 0).
(* all (k, m) with lo <= k < m <= top, all 16 values of the low four bits *)
Lemma sweep_mem32 :
  forallb (fun k => forallb (fun m => (m <=? k) ||
     forallb (fun t => ok_mem32 bar_size t k m) (seqN 0 16)) (seqN 5 28)) (seqN 4 28) = true.
Proof. vm_compute. reflexivity. Qed.
Lemma sweep_io :
  forallb (fun k => forallb (fun m => (m <=? k) || ok_io bar_size k m) (seqN 3 30)) (seqN 2 30) = true.
Proof. vm_compute. reflexivity. Qed.
Lemma sweep_mem64 :
  forallb (fun k => forallb (fun m => (m <=? k) ||
     forallb (fun t => ok_mem64 bar_size t k m) (seqN 0 16)) (seqN 5 60)) (seqN 4 60) = true.
Proof. vm_compute. reflexivity. Qed.
(* the computation before F11 is right for the full decoders only *)
Lemma sweep_prefix_full :
  forallb (fun k => forallb (fun t => ok_mem32 bar_size_prefix t k 32) (seqN 0 16)) (seqN 4 28) = true
  /\ forallb (fun k => ok_io bar_size_prefix k 32) (seqN 2 30) = true
  /\ forallb (fun k => forallb (fun t => ok_mem64 bar_size_prefix t k 64) (seqN 0 16)) (seqN 4 60) = true.
Proof. repeat split; vm_compute; reflexivity. Qed.

Lemma size_mem32 k m t : 4 <= k -> k < m -> m <= 32 -> t < 16 -> ok_mem32 bar_size t k m = true.
Proof.
  intros Hk Hkm Hm Ht.
  pose proof sweep_mem32 as S.
  pose proof (range_forallb _ _ _ S k ltac:(cbn; lia)) as S1. cbv beta in S1.
  pose proof (range_forallb _ _ _ S1 m ltac:(cbn; lia)) as S2. cbv beta in S2.
  replace (m <=? k) with false in S2 by lia. cbn [orb] in S2.
  exact (range_forallb _ _ _ S2 t ltac:(cbn; lia)).
Qed.
Lemma size_io k m : 2 <= k -> k < m -> m <= 32 -> ok_io bar_size k m = true.
Proof.
  intros Hk Hkm Hm.
  pose proof sweep_io as S.
  pose proof (range_forallb _ _ _ S k ltac:(cbn; lia)) as S1. cbv beta in S1.
  pose proof (range_forallb _ _ _ S1 m ltac:(cbn; lia)) as S2. cbv beta in S2.
  replace (m <=? k) with false in S2 by lia. exact S2.
Qed.
Lemma size_mem64 k m t : 4 <= k -> k < m -> m <= 64 -> t < 16 -> ok_mem64 bar_size t k m = true.
Proof.
  intros Hk Hkm Hm Ht.
  pose proof sweep_mem64 as S.
  pose proof (range_forallb _ _ _ S k ltac:(cbn; lia)) as S1. cbv beta in S1.
  pose proof (range_forallb _ _ _ S1 m ltac:(cbn; lia)) as S2. cbv beta in S2.
  replace (m <=? k) with false in S2 by lia. cbn [orb] in S2.
  exact (range_forallb _ _ _ S2 t ltac:(cbn; lia)).
Qed.
Lemma size_prefix_full :
  (forall k t, 4 <= k <= 31 -> t < 16 -> ok_mem32 bar_size_prefix t k 32 = true)
  /\ (forall k, 2 <= k <= 31 -> ok_io bar_size_prefix k 32 = true)
  /\ (forall k t, 4 <= k <= 63 -> t < 16 -> ok_mem64 bar_size_prefix t k 64 = true).
Proof.
  destruct sweep_prefix_full as (S1 & S2 & S3).
  split; [|split].
  - intros k t Hk Ht. pose proof (range_forallb _ _ _ S1 k ltac:(cbn; lia)) as A. cbv beta in A.
    exact (range_forallb _ _ _ A t ltac:(cbn; lia)).
  - intros k Hk. exact (range_forallb _ _ _ S2 k ltac:(cbn; lia)).
  - intros k t Hk Ht. pose proof (range_forallb _ _ _ S3 k ltac:(cbn; lia)) as A. cbv beta in A.
    exact (range_forallb _ _ _ A t ltac:(cbn; lia)).
Qed.

(* what a size computation must achieve for a given BAR *)
Definition size_fact (szf : bool -> N -> N) (s : barspec) : Prop :=
  match s with
  | SUnimpl => True
  | SIo k m a => ok_io szf k m = true
  | SMem ty pf k m a => ok_mem32 szf (tbits ty pf) k m = true
  | SMem64 pf k m a => ok_mem64 szf (tbits 2 pf) k m = true
  end.
Lemma tbits_lt ty pf : ty <= 2 -> tbits ty pf < 16.
Proof. intros H. unfold tbits. destruct pf; lia. Qed.
Lemma size_fact_now s : spec_ok s -> size_fact bar_size s.
Proof.
  destruct s as [|k m a|ty pf k m a|pf k m a]; cbn [spec_ok size_fact]; auto.
  - intros (Hk & Hkm & Hm & _). apply size_io; assumption.
  - intros (Hty & Hk & Hkm & Hm & _). apply size_mem32; try assumption. apply tbits_lt. lia.
  - intros (Hk & Hkm & Hm & _). apply size_mem64; try assumption. apply tbits_lt. lia.
Qed.
Lemma size_fact_prefix s : spec_ok s -> spec_full s -> size_fact bar_size_prefix s.
Proof.
  destruct size_prefix_full as (P1 & P2 & P3).
  destruct s as [|k m a|ty pf k m a|pf k m a]; cbn [spec_ok spec_full size_fact]; auto.
  - intros (Hk & Hkm & Hm & _) ->. apply P2. lia.
  - intros (Hty & Hk & Hkm & Hm & _) ->. apply P1; [lia|apply tbits_lt; lia].
  - intros (Hk & Hkm & Hm & _) ->. apply P3; [lia|apply tbits_lt; lia].
Qed.

(* --- decoding kind / address / prefetchable from the register value --- *)
Lemma land_1 x : N.land x 1 = x mod 2.
Proof. change 1 with (N.ones 1). apply N.land_ones. Qed.
Lemma land_7 x : N.land x 7 = x mod 8.
Proof. change 7 with (N.ones 3). apply N.land_ones. Qed.
Lemma land_6 x : N.land x 6 = ((x / 2) mod 4) * 2.
Proof. change 6 with (N.shiftl (N.ones 2) 1). apply land_field. Qed.
Lemma land_8 x : N.land x 8 = ((x / 8) mod 2) * 8.
Proof. change 8 with (N.shiftl (N.ones 1) 3). apply land_field. Qed.
Lemma land_fffffff0 x : N.land x 4294967280 = ((x / 16) mod 268435456) * 16.
Proof. change 4294967280 with (N.shiftl (N.ones 28) 4). apply land_field. Qed.
Lemma land_fffffffc x : N.land x 4294967292 = ((x / 4) mod 1073741824) * 4.
Proof. change 4294967292 with (N.shiftl (N.ones 30) 2). apply land_field. Qed.

Lemma decode_none szf v top : bar_decode szf v top 0 = Ok None.
Proof. reflexivity. Qed.

Lemma decode_io szf a top sm : a mod 4 = 0 -> a < 2 ^ 32 -> sm <> 0 ->
  bar_decode szf (a + 1) top sm = Ok (Some (BarIO a (w32 (szf true sm)))).
Proof.
  intros Ha Hlt Hsm. unfold bar_decode.
  rewrite land_1. replace ((a + 1) mod 2 =? 1) with true by (change (2 ^ 32) with 4294967296 in Hlt; lia).
  apply N.eqb_neq in Hsm. rewrite Hsm. rewrite land_fffffffc.
  do 3 f_equal. change (2 ^ 32) with 4294967296 in Hlt. lia.
Qed.

Lemma decode_mem szf ty pf alo top sm : ty <= 2 -> alo mod 16 = 0 -> alo < 2 ^ 32 -> sm <> 0 ->
  bar_decode szf (alo + tbits ty pf) top sm =
  Ok (Some (BarMem ty pf (N.lor alo (N.shiftl top 32)) (szf false sm))).
Proof.
  intros Hty Ha Hlt Hsm. unfold bar_decode. change (2 ^ 32) with 4294967296 in Hlt.
  apply N.eqb_neq in Hsm. rewrite Hsm.
  rewrite land_1, land_6, land_8, land_fffffff0, N.shiftr_div_pow2. change (2 ^ 1) with 2.
  assert (Hc : ty = 0 \/ ty = 1 \/ ty = 2) by lia.
  unfold tbits, w8, mem_bar_type.
  destruct Hc as [->|[->| ->]]; destruct pf;
    match goal with |- context [(?x mod 2 =? 1)] => replace (x mod 2 =? 1) with false by lia end;
    match goal with |- context [(?x mod 4 * 2 / 2) mod 256 ] =>
      let E := fresh in assert (E : (x mod 4 * 2 / 2) mod 256 = x mod 4) by lia; rewrite E; clear E end;
    match goal with |- context [(?x / 2) mod 4] =>
      let E := fresh in
      first [assert (E : (x / 2) mod 4 = 0) by lia | assert (E : (x / 2) mod 4 = 1) by lia | assert (E : (x / 2) mod 4 = 2) by lia];
      rewrite E; clear E end;
    cbn [N.leb N.compare Pos.compare Pos.compare_cont];
    match goal with |- context [(?x mod 2 * 8 =? 0)] =>
      first [replace (x mod 2 * 8 =? 0) with true by lia | replace (x mod 2 * 8 =? 0) with false by lia] end;
    cbn [negb];
    match goal with |- context [N.lor ?x (N.shiftl top 32)] => replace x with alo by lia end; reflexivity.
Qed.

(* ===================== 5. the BAR theorems ===================== *)
Lemma div_pow2_mod a k : a mod 2 ^ k = 0 -> (a / 2 ^ 32) mod 2 ^ (k - 32) = 0.
Proof.
  intros H. destruct (N.le_gt_cases k 32) as [Hk|Hk].
  - replace (k - 32) with 0 by lia. apply N.mod_1_r.
  - apply N.mod_divide in H; [|apply N.pow_nonzero; discriminate]. destruct H as [q ->].
    replace (2 ^ k) with (2 ^ (k - 32) * 2 ^ 32) by (rewrite <- N.pow_add_r; f_equal; lia).
    rewrite N.mul_assoc, N.div_mul by (apply N.pow_nonzero; discriminate).
    apply N.mod_mul. apply N.pow_nonzero. discriminate.
Qed.
(* the two halves of an address below 2^m *)
Lemma lo_half_bound a m : a < 2 ^ m -> a mod 2 ^ 32 < 2 ^ N.min m 32.
Proof.
  intros H. destruct (N.le_gt_cases m 32) as [Hm|Hm].
  - replace (N.min m 32) with m by lia.
    assert (a < 2 ^ 32) by (apply N.lt_le_trans with (2 ^ m); [exact H|apply N.pow_le_mono_r; lia]).
    rewrite N.mod_small; assumption.
  - replace (N.min m 32) with 32 by lia. apply N.mod_lt. discriminate.
Qed.
Lemma hi_half_bound a m : a < 2 ^ m -> a / 2 ^ 32 < 2 ^ (m - 32).
Proof.
  intros H. destruct (N.le_gt_cases m 32) as [Hm|Hm].
  - replace (m - 32) with 0 by lia.
    assert (a < 2 ^ 32) by (apply N.lt_le_trans with (2 ^ m); [exact H|apply N.pow_le_mono_r; lia]).
    rewrite N.div_small by assumption. reflexivity.
  - apply N.div_lt_upper_bound; [discriminate|]. rewrite <- N.pow_add_r.
    replace (32 + (m - 32)) with m by lia. exact H.
Qed.

(* the shared core: from the symbolic-execution lemmas to the truth of a well-formed BAR, for any
   version of the code (bi), what it leaves behind (fin) and any size computation that is right for
   this BAR *)
Lemma probe_core (szf : bool -> N -> N) (bi : pcifn -> N -> result) (fin : pcifn -> pcifn) d i s :
  (forall i, i < 6 -> s_val (bar_at d i) < 2 ^ 32 -> (N.land (s_val (bar_at d i)) 7 =? 4) = false ->
     exists tr, bi d i = (bar_decode szf (s_val (bar_at d i)) 0 (mask32 (s_val (slot_write (bar_at d i) ones32))), fin d, tr)
       /\ sizing_writes_safe tr = true /\ decode_safe (bar_vals d) d tr = true) ->
  (forall i, i < 5 -> s_val (bar_at d i) < 2 ^ 32 -> s_val (bar_at d (i + 1)) < 2 ^ 32 ->
     (N.land (s_val (bar_at d i)) 7 =? 4) = true ->
     exists tr, bi d i = (bar_decode szf (s_val (bar_at d i)) (s_val (bar_at d (i + 1)))
         (N.lor (s_val (slot_write (bar_at d i) ones32)) (N.shiftl (s_val (slot_write (bar_at d (i + 1)) ones32)) 32)),
         fin d, tr)
       /\ sizing_writes_safe tr = true /\ decode_safe (bar_vals d) d tr = true) ->
  spec_ok s -> size_fact szf s -> placed d i s ->
  exists tr, bi d i = (Ok (spec_truth s), fin d, tr)
       /\ sizing_writes_safe tr = true /\ decode_safe (bar_vals d) d tr = true.
Proof.
  intros R32 R64 Hok Hsz Hpl.
  destruct s as [|k m a|ty pf k m a|pf k m a]; unfold placed, spec_slots in Hpl; cbn [spec_ok] in Hok;
    cbn [size_fact] in Hsz.
  - (* unimplemented *)
    destruct Hpl as [Hi E].
    destruct (R32 i Hi) as (tr & Er & S1 & S2); rewrite ?E; cbn [s_val]; try reflexivity.
    exists tr. rewrite Er, E. repeat split; auto.
  - (* I/O *)
    destruct Hpl as [Hi E]. destruct Hok as (Hk & Hkm & Hm & Ha & Hlt).
    assert (Ha4 : a mod 4 = 0) by (apply (mod_pow2_le a 2 k); [lia|exact Ha]).
    assert (H1 : 1 < 2 ^ k) by (apply N.lt_le_trans with (2 ^ 2); [reflexivity|apply N.pow_le_mono_r; lia]).
    assert (Hlt32 : a + 1 < 2 ^ 32).
    { apply N.lt_le_trans with (2 ^ m); [|apply N.pow_le_mono_r; lia].
      apply (field_bound k m a 1); try assumption; lia. }
    assert (Hlt32' : a < 2 ^ 32) by lia.
    destruct (R32 i Hi) as (tr & Er & S1 & S2); rewrite ?E; cbn [s_val].
    + exact Hlt32.
    + rewrite land_7. apply N.eqb_neq. clear - Ha4. lia.
    + exists tr. rewrite Er, E. cbn [s_val]. rewrite (slot_rb 1 k m a 1 ltac:(lia) Ha Hlt H1).
      unfold ok_io in Hsz. apply andb_prop in Hsz. destruct Hsz as [Hs Hnz].
      apply N.eqb_eq in Hs. apply negb_true_iff, N.eqb_neq in Hnz.
      rewrite (decode_io szf a 0 _ Ha4 Hlt32' Hnz), Hs. repeat split; auto.
  - (* memory, one register *)
    destruct Hpl as [Hi E]. destruct Hok as (Hty & Hk & Hkm & Hm & Ha & Hlt).
    assert (Ha16 : a mod 16 = 0) by (apply (mod_pow2_le a 4 k); [lia|exact Ha]).
    assert (Ht : tbits ty pf < 16) by (apply tbits_lt; lia).
    assert (Ht8 : tbits ty pf mod 8 <> 4) by (unfold tbits; destruct pf; lia).
    pose proof (pow2_le_16 k ltac:(lia)) as H16.
    assert (Htk : tbits ty pf < 2 ^ k) by lia.
    assert (Hlt32 : a + tbits ty pf < 2 ^ 32).
    { apply N.lt_le_trans with (2 ^ m); [|apply N.pow_le_mono_r; lia].
      apply (field_bound k m a _); try assumption; lia. }
    assert (Hlt32' : a < 2 ^ 32) by lia.
    destruct (R32 i Hi) as (tr & Er & S1 & S2); rewrite ?E; cbn [s_val].
    + exact Hlt32.
    + rewrite land_7. apply N.eqb_neq. clear - Ha16 Ht8. lia.
    + exists tr. rewrite Er, E. cbn [s_val]. rewrite (slot_rb (2 + ty) k m a (tbits ty pf) ltac:(lia) Ha Hlt Htk).
      unfold ok_mem32 in Hsz. apply andb_prop in Hsz. destruct Hsz as [Hs Hnz].
      apply N.eqb_eq in Hs. apply negb_true_iff, N.eqb_neq in Hnz.
      rewrite (decode_mem szf ty pf a 0 _ ltac:(lia) Ha16 Hlt32' Hnz), Hs.
      rewrite N.shiftl_0_l, N.lor_0_r. repeat split; auto.
  - (* memory, two registers *)
    destruct Hpl as (Hi & E & E1). destruct Hok as (Hk & Hkm & Hm & Ha & Hlt).
    set (alo := a mod 2 ^ 32) in *. set (ahi := a / 2 ^ 32) in *.
    assert (Ha16 : alo mod 16 = 0).
    { unfold alo. apply (mod_mod_pow2 a 32 4). apply (mod_pow2_le a 4 k); [lia|exact Ha]. }
    assert (Hlo : alo < 2 ^ 32) by (apply N.mod_lt; discriminate).
    assert (Hlt64 : a < 2 ^ 64) by (apply N.lt_le_trans with (2 ^ m); [exact Hlt|apply N.pow_le_mono_r; lia]).
    assert (Hhi : ahi < 2 ^ 32).
    { apply N.div_lt_upper_bound; [discriminate|]. rewrite <- N.pow_add_r. exact Hlt64. }
    assert (Ht : tbits 2 pf < 16) by (apply tbits_lt; lia).
    assert (Ht8 : tbits 2 pf mod 8 = 4) by (unfold tbits; destruct pf; reflexivity).
    assert (Hj : 4 <= N.min k 32) by lia.
    pose proof (pow2_le_16 _ Hj) as H16.
    assert (Hloj : alo mod 2 ^ N.min k 32 = 0).
    { unfold alo. apply mod_mod_pow2. apply (mod_pow2_le a _ k); [lia|exact Ha]. }
    pose proof (lo_half_bound a m Hlt) as Hlom. fold alo in Hlom.
    pose proof (div_pow2_mod a k Ha) as Hhij. fold ahi in Hhij.
    pose proof (hi_half_bound a m Hlt) as Hhim. fold ahi in Hhim.
    assert (Ea : alo + ahi * 2 ^ 32 = a)
      by (unfold alo, ahi; rewrite N.mul_comm, N.add_comm; symmetry; apply N.div_mod; apply N.pow_nonzero; discriminate).
    clearbody alo ahi.
    assert (Hlo' : alo < 4294967296) by exact Hlo.
    assert (Hv0 : alo + tbits 2 pf < 4294967296) by (clear - Ha16 Hlo' Ht; lia).
    assert (Hm8 : (alo + tbits 2 pf) mod 8 = 4) by (clear - Ha16 Ht8; lia).
    assert (Ht2 : tbits 2 pf < 2 ^ N.min k 32) by (clear - Ht H16; lia).
    destruct (R64 i Hi) as (tr & Er & S1 & S2); rewrite ?E, ?E1; cbn [s_val].
    + exact Hv0.
    + exact Hhi.
    + rewrite land_7. apply N.eqb_eq. exact Hm8.
    + exists tr. rewrite Er, E, E1. cbn [s_val].
      rewrite (slot_rb 4 (N.min k 32) (N.min m 32) alo (tbits 2 pf) ltac:(clear - Hkm; lia) Hloj Hlom Ht2).
      rewrite <- (N.add_0_r ahi) at 2.
      rewrite (slot_rb 5 (k - 32) (m - 32) ahi 0 ltac:(clear - Hkm; lia) Hhij Hhim
                 ltac:(apply N.neq_0_lt_0, N.pow_nonzero; discriminate)).
      fold (mask64 (tbits 2 pf) k m).
      unfold ok_mem64 in Hsz. apply andb_prop in Hsz. destruct Hsz as [Hs Hnz].
      apply N.eqb_eq in Hs. apply negb_true_iff, N.eqb_neq in Hnz.
      rewrite (decode_mem szf 2 pf alo ahi _ ltac:(clear; lia) Ha16 Hlo Hnz), Hs.
      rewrite (lor_shiftl_add alo ahi 32 Hlo), Ea.
      repeat split; auto.
Qed.

Definition bars_lt32 (d : pcifn) : Prop := forall j, j < 6 -> s_val (bar_at d j) < 2 ^ 32.

(* ---- the code as it is now: full statement ---- *)
Theorem bar_info_correct m d i s :
  lenN (f_bars d) = 6 -> f_cmd d < 65536 -> spec_ok s -> placed d i s ->
  exists tr, bar_info m d i = (Ok (spec_truth s), d, tr)
    /\ sizing_writes_safe tr = true /\ decode_safe (bar_vals d) d tr = true.
Proof.
  intros Hlen Hc Hok Hpl.
  apply (probe_core bar_size (bar_info m) (fun d => d) d i s); auto.
  - intros j Hj Hv H. apply (bar_info_run_not64 bar_size); auto.
  - intros j Hj Hv Hv1 H. apply (bar_info_run_64 bar_size); auto.
  - apply size_fact_now. exact Hok.
Qed.

(* probing ANY register (well-formed or not) leaves the function exactly as it was, and no sizing
   pattern is ever decoded *)
Theorem bar_info_no_side_effects m d i :
  lenN (f_bars d) = 6 -> i < 6 -> f_cmd d < 65536 -> bars_lt32 d ->
  exists r tr, bar_info m d i = (r, d, tr)
    /\ sizing_writes_safe tr = true /\ decode_safe (bar_vals d) d tr = true.
Proof.
  intros Hlen Hi Hc Hv. unfold bar_info.
  destruct (N.land (s_val (bar_at d i)) 7 =? 4) eqn:H64.
  - destruct (N.eq_dec i 5) as [->|Hne].
    + destruct (bar_info_run_err bar_size m d H64) as (tr & E & S). eauto.
    + destruct (bar_info_run_64 bar_size m d i Hlen ltac:(lia) Hc (Hv i Hi) (Hv (i + 1) ltac:(lia)) H64) as (tr & E & S). eauto.
  - destruct (bar_info_run_not64 bar_size m d i Hlen Hi Hc (Hv i Hi) H64) as (tr & E & S). eauto.
Qed.

(* ---- the code after F5a/F5b but before F11 ---- *)
(* F11: an I/O BAR with a 16-bit decoder (upper 16 address bits hard-wired zero), 0x100 bytes at
   0xc000: lowest writable address bit 2^8, reported size 0xffff0100.  Likewise a below-1-MiB memory
   BAR with 20 address bits and a 64-bit BAR with 40 address lines. *)
Definition wit_io16 : pcifn :=
  mkFn 1 16 [mkSlot 1 4294902015 49153; dslot; dslot; dslot; dslot; dslot] [].
Theorem bar_info_f11_prefix_refuted :
  lenN (f_bars wit_io16) = 6 /\ f_cmd wit_io16 < 65536 /\ spec_ok (SIo 8 16 49152)
  /\ placed wit_io16 0 (SIo 8 16 49152)
  /\ spec_truth (SIo 8 16 49152) = Some (BarIO 49152 256)
  /\ fst (fst (bar_info_f11_prefix Debug wit_io16 0)) = Ok (Some (BarIO 49152 4294902016))
  /\ fst (fst (bar_info_prefix Debug wit_io16 0)) = Ok (Some (BarIO 49152 4294902016))
  /\ fst (fst (bar_info Debug wit_io16 0)) = Ok (Some (BarIO 49152 256)).
Proof. vm_compute. repeat split; try reflexivity; intros H; discriminate H. Qed.
Theorem bar_info_f11_prefix_refuted_mem :
  let a2 := 254 * 4294967296 + 4261412864 in
  let d1 := mkFn 2 16 [dslot; mkSlot 3 (fmask 12 20) (819200 + 2); dslot; dslot; dslot; dslot] [] in
  let d2 := mkFn 6 16 [dslot; dslot; mkSlot 4 (fmask 24 32) (4261412864 + 12); mkSlot 5 (fmask 0 8) 254; dslot; dslot] [] in
  spec_ok (SMem 1 false 12 20 819200) /\ placed d1 1 (SMem 1 false 12 20 819200)
  /\ fst (fst (bar_info_f11_prefix Debug d1 1)) <> Ok (Some (BarMem 1 false 819200 4096))
  /\ fst (fst (bar_info Debug d1 1)) = Ok (Some (BarMem 1 false 819200 4096))
  /\ spec_ok (SMem64 true 24 40 a2) /\ placed d2 2 (SMem64 true 24 40 a2)
  /\ fst (fst (bar_info_f11_prefix Debug d2 2)) <> Ok (Some (BarMem 2 true a2 16777216))
  /\ fst (fst (bar_info Debug d2 2)) = Ok (Some (BarMem 2 true a2 16777216)).
Proof. cbv zeta. vm_compute. repeat split; try reflexivity; intros H; discriminate H. Qed.
(* what IS true of it: everything, on the full decoders *)
Theorem bar_info_f11_prefix_partial m d i s :
  lenN (f_bars d) = 6 -> f_cmd d < 65536 -> spec_ok s -> spec_full s -> placed d i s ->
  exists tr, bar_info_f11_prefix m d i = (Ok (spec_truth s), d, tr)
    /\ sizing_writes_safe tr = true /\ decode_safe (bar_vals d) d tr = true.
Proof.
  intros Hlen Hc Hok Hfull Hpl.
  apply (probe_core bar_size_prefix (bar_info_f11_prefix m) (fun d => d) d i s); auto.
  - intros j Hj Hv H. apply (bar_info_run_not64 bar_size_prefix); auto.
  - intros j Hj Hv Hv1 H. apply (bar_info_run_64 bar_size_prefix); auto.
  - apply size_fact_prefix; assumption.
Qed.

(* ---- the code before all repairs ---- *)
(* what it does to the command register, exactly (full decoders: its size computation is the one
   before F11) *)
Theorem bar_info_prefix_partial m d i s :
  lenN (f_bars d) = 6 -> f_cmd d < 65536 -> spec_ok s -> spec_full s -> placed d i s ->
  exists tr, bar_info_prefix m d i = (Ok (spec_truth s), set_cmd d (cmd_after_prefix (f_cmd d)), tr)
    /\ sizing_writes_safe tr = true /\ decode_safe (bar_vals d) d tr = true.
Proof.
  intros Hlen Hc Hok Hfull Hpl.
  apply (probe_core bar_size_prefix (bar_info_prefix m) (fun d => set_cmd d (cmd_after_prefix (f_cmd d))) d i s); auto.
  - intros j Hj Hv H. apply bar_info_prefix_run_not64; auto.
  - intros j Hj Hv Hv1 H. apply bar_info_prefix_run_64; auto.
  - apply size_fact_prefix; assumption.
Qed.

Lemma land_ldiff_r a b c : N.land a (N.ldiff b c) = N.ldiff (N.land a b) c.
Proof.
  apply N.bits_inj. intros n. rewrite !N.land_spec, !N.ldiff_spec, N.land_spec. apply andb_assoc.
Qed.
Lemma cmd_after_prefix_named c : N.land c CMD_NAMED = c -> cmd_after_prefix c = c.
Proof. intros H. unfold cmd_after_prefix, cmd_named. rewrite H. destruct (_ =? _); reflexivity. Qed.
Lemma cmd_after_prefix_decode_off c : N.land c CMD_DECODE = 0 -> cmd_after_prefix c = c.
Proof.
  intros H. unfold cmd_after_prefix.
  replace (cmd_disabled c =? cmd_named c) with true; [reflexivity|].
  symmetry. apply N.eqb_eq. unfold cmd_disabled, cmd_named, CMD_NAMED, CMD_DECODE in *.
  change (N.land (N.ldiff ones16 3) 1919) with (N.ldiff 1919 3).
  rewrite land_ldiff_r, <- N.land_assoc. change (N.land 1919 1919) with 1919.
  rewrite <- (N.lor_ldiff_and (N.land c 1919) 3) at 2.
  rewrite <- N.land_assoc. change (N.land 1919 3) with 3. rewrite H, N.lor_0_r. reflexivity.
Qed.

(* the strongest true statement for the oldest code: a command value made of named flags only
   (or with decoding already disabled), a full decoder, and the BAR fits (placed: a 64-bit BAR
   starts below slot 5) *)
Theorem bar_info_prefix_partial_restores m d i s :
  lenN (f_bars d) = 6 -> f_cmd d < 65536 -> spec_ok s -> spec_full s -> placed d i s ->
  N.land (f_cmd d) CMD_NAMED = f_cmd d \/ N.land (f_cmd d) CMD_DECODE = 0 ->
  exists tr, bar_info_prefix m d i = (Ok (spec_truth s), d, tr)
    /\ sizing_writes_safe tr = true /\ decode_safe (bar_vals d) d tr = true.
Proof.
  intros Hlen Hc Hok Hfull Hpl Hcmd.
  destruct (bar_info_prefix_partial m d i s Hlen Hc Hok Hfull Hpl) as (tr & E & S).
  exists tr. split; [|exact S]. rewrite E. f_equal. f_equal.
  assert (Ec : cmd_after_prefix (f_cmd d) = f_cmd d)
    by (destruct Hcmd; [apply cmd_after_prefix_named|apply cmd_after_prefix_decode_off]; assumption).
  rewrite Ec. destruct d; reflexivity.
Qed.

(* F5b: a command bit without a named flag is lost when decoding was enabled *)
Definition wit_cmd : pcifn :=
  mkFn 131 16 [mkSlot 2 16383 4261412864; dslot; dslot; dslot; dslot; dslot] [].
Theorem bar_info_prefix_refuted_cmd :
  lenN (f_bars wit_cmd) = 6 /\ f_cmd wit_cmd < 65536 /\ spec_ok (SMem 0 false 14 32 4261412864)
  /\ placed wit_cmd 0 (SMem 0 false 14 32 4261412864)
  /\ fst (fst (bar_info_prefix Debug wit_cmd 0)) = Ok (Some (BarMem 0 false 4261412864 16384))
  /\ f_cmd (snd (fst (bar_info_prefix Debug wit_cmd 0))) = 3
  /\ f_cmd (snd (fst (bar_info_prefix Debug wit_cmd 0))) <> f_cmd wit_cmd.
Proof. vm_compute. repeat split; try discriminate; try reflexivity; try (intros H; discriminate H). Qed.

(* F5a: 64-bit type bits in the last register: an error is returned after the sizing write and the
   decode-disable, and neither is undone *)
Definition wit_slot5 : pcifn :=
  mkFn 3 16 [dslot; dslot; dslot; dslot; dslot; mkSlot 4 65535 4261412868] [].
Theorem bar_info_prefix_refuted_slot5 :
  lenN (f_bars wit_slot5) = 6 /\ f_cmd wit_slot5 < 65536 /\ bars_lt32 wit_slot5
  /\ fst (fst (bar_info_prefix Debug wit_slot5 5)) = Err EInvalidBarType
  /\ f_cmd (snd (fst (bar_info_prefix Debug wit_slot5 5))) = 0
  /\ bar_vals (snd (fst (bar_info_prefix Debug wit_slot5 5))) = [0; 0; 0; 0; 0; 4294901764]
  /\ snd (fst (bar_info_prefix Debug wit_slot5 5)) <> wit_slot5.
Proof.
  split; [reflexivity|]. split; [reflexivity|]. split.
  - intros j Hj. assert (Hc : j = 0 \/ j = 1 \/ j = 2 \/ j = 3 \/ j = 4 \/ j = 5) by lia.
    destruct Hc as [->|[->|[->|[->|[->| ->]]]]]; vm_compute; reflexivity.
  - vm_compute. repeat split; try reflexivity. intros H; discriminate H.
Qed.
(* the repaired code on the same two witnesses *)
Theorem bar_info_fixed_on_witnesses :
  bar_info Debug wit_slot5 5 = (Err EInvalidBarType, wit_slot5,
     [mkAcc false 36 4261412868 3])
  /\ snd (fst (bar_info Debug wit_cmd 0)) = wit_cmd
  /\ fst (fst (bar_info Debug wit_cmd 0)) = Ok (Some (BarMem 0 false 4261412864 16384)).
Proof. vm_compute. repeat split. Qed.

From Coq Require Import ZifyNat.
(* ===================== 5b. bars(): a whole function ===================== *)
Definition spec_two (s : barspec) : bool := match s with SMem64 _ _ _ _ => true | _ => false end.
Definition layout_slots (L : list barspec) : list slot := concat (map spec_slots L).
Definition layout_truth (L : list barspec) : list (option barinfo) :=
  concat (map (fun s => spec_truth s :: if spec_two s then [None] else []) L).

Lemma takes_two_truth s : spec_ok s -> takes_two (spec_truth s) = spec_two s.
Proof.
  destruct s as [|k m0 a|ty pf k m0 a|pf k m0 a]; cbn; auto. intros (H & _). apply N.eqb_neq. lia.
Qed.
Lemma skipn_nth {A} (d : A) : forall n l x r, skipn n l = x :: r -> nth n l d = x /\ skipn (S n) l = r.
Proof.
  induction n as [|n IH]; intros [|h t] x r H; cbn in *; try discriminate.
  - inversion H; auto.
  - apply IH. exact H.
Qed.
Lemma skipn_lt {A} : forall n (l : list A) x r, skipn n l = x :: r -> (n < length l)%nat.
Proof.
  intros n l x r H. destruct (Nat.lt_ge_cases n (length l)) as [Hl|Hl]; [exact Hl|].
  rewrite skipn_all2 in H by exact Hl. discriminate.
Qed.
Lemma upd_app_len {A} (pre : list A) y rest x : upd (pre ++ y :: rest) (length pre) x = pre ++ x :: rest.
Proof. induction pre as [|h t IH]; cbn; [reflexivity|]. now rewrite IH. Qed.
Lemma sws_app t1 t2 : sizing_writes_safe (t1 ++ t2) = sizing_writes_safe t1 && sizing_writes_safe t2.
Proof. apply forallb_app. Qed.

Lemma bars_loop_ok m d :
  lenN (f_bars d) = 6 -> f_cmd d < 65536 ->
  forall L fuel tr0 n pre,
  Forall spec_ok L -> skipn n (f_bars d) = layout_slots L -> length pre = n -> (length L <= fuel)%nat ->
  sizing_writes_safe tr0 = true ->
  exists tr, bars_loop bar_info fuel m (d, tr0) (N.of_nat n) (pre ++ repeat None (6 - n))
             = (Ok (pre ++ layout_truth L), d, tr) /\ sizing_writes_safe tr = true.
Proof.
  intros Hlen Hc. assert (Hlen' : length (f_bars d) = 6%nat) by (unfold lenN in Hlen; lia).
  induction L as [|s L IH]; intros fuel tr0 n pre Hok Hsk Hpre Hfuel Hs0.
  - (* nothing left: n >= 6 *)
    cbn [layout_slots map concat] in Hsk.
    assert (Hn : (6 <= n)%nat).
    { destruct (Nat.lt_ge_cases n 6) as [Hl|Hl]; [|exact Hl].
      assert (length (skipn n (f_bars d)) = (6 - n)%nat) by (rewrite skipn_length; lia).
      rewrite Hsk in H. cbn [length] in H. lia. }
    replace (6 - n)%nat with 0%nat by lia. cbn [repeat layout_truth map concat].
    exists tr0. split; [|exact Hs0].
    destruct fuel; cbn [bars_loop]; replace (6 <=? N.of_nat n) with true by lia; reflexivity.
  - apply Forall_cons_iff in Hok. destruct Hok as [Hs HL].
    unfold layout_slots in Hsk. cbn [map concat] in Hsk. fold (layout_slots L) in Hsk.
    destruct fuel as [|fuel]; [cbn in Hfuel; lia|].
    assert (Hstep : exists x r, spec_slots s ++ layout_slots L = x :: r) by (destruct s; cbn; eauto).
    destruct Hstep as (x0 & r0 & Ex). rewrite Ex in Hsk.
    pose proof (skipn_lt _ _ _ _ Hsk) as Hn6. rewrite Hlen' in Hn6.
    cbn [bars_loop]. replace (6 <=? N.of_nat n) with false by lia.
    cbn [fst snd].
    (* the BAR is placed at slot n *)
    assert (Hpl : placed d (N.of_nat n) s /\ skipn (n + (if spec_two s then 2 else 1)) (f_bars d) = layout_slots L
                  /\ (n + (if spec_two s then 2 else 1) <= 6)%nat).
    { unfold placed, bar_at, nthN. rewrite Nat2N.id.
      destruct s as [|k m0 a|ty pf k m0 a|pf k m0 a]; cbn [spec_slots spec_two app] in *;
        inversion Ex; subst x0 r0;
        destruct (skipn_nth dslot _ _ _ _ Hsk) as [E1 E2].
      1-3: (repeat split; [lia|exact E1|rewrite Nat.add_1_r; exact E2|lia]).
      destruct (skipn_nth dslot _ _ _ _ E2) as [E3 E4].
      pose proof (skipn_lt _ _ _ _ E2) as Hn5. rewrite Hlen' in Hn5.
      replace (N.to_nat (N.of_nat n + 1)) with (S n) by lia.
      repeat split; [lia|exact E1|exact E3|replace (n + 2)%nat with (S (S n)) by lia; exact E4|lia]. }
    destruct Hpl as (Hpl & Hsk' & Hfit).
    destruct (bar_info_correct m d (N.of_nat n) s Hlen Hc Hs Hpl) as (tr & E & S1 & _).
    rewrite E. rewrite (takes_two_truth s Hs).
    (* the output array after storing the entry *)
    assert (Eout : updN (pre ++ repeat None (6 - n)) (N.of_nat n) (spec_truth s)
                   = (pre ++ spec_truth s :: (if spec_two s then [None] else []))
                     ++ repeat None (6 - (n + (if spec_two s then 2 else 1)))).
    { unfold updN. rewrite Nat2N.id, <- Hpre.
      destruct (spec_two s).
      - replace (6 - length pre)%nat with (S (S (6 - (length pre + 2)))) by lia. cbn [repeat].
        rewrite upd_app_len, <- app_assoc. reflexivity.
      - replace (6 - length pre)%nat with (S (6 - (length pre + 1))) by lia. cbn [repeat].
        rewrite upd_app_len, <- app_assoc. reflexivity. }
    rewrite Eout.
    replace (N.of_nat n + (if spec_two s then 2 else 1)) with (N.of_nat (n + (if spec_two s then 2 else 1)))
      by (destruct (spec_two s); lia).
    destruct (IH fuel (tr0 ++ tr) (n + (if spec_two s then 2 else 1))%nat
                 (pre ++ spec_truth s :: (if spec_two s then [None] else [])) HL Hsk')
      as (tr' & E' & S'); [..|].
    + rewrite app_length. cbn [length]. destruct (spec_two s); cbn [length]; lia.
    + cbn [length] in Hfuel. lia.
    + rewrite sws_app, Hs0, S1. reflexivity.
    + exists tr'. split; [|exact S']. rewrite E'. f_equal. f_equal. f_equal.
      unfold layout_truth. cbn [map concat]. rewrite <- app_assoc. reflexivity.
Qed.

(* bars() on a function whose six registers are a sequence of well-formed BARs: every BAR reported
   as it is, the second register of a 64-bit BAR reported absent, the function unchanged, no sizing
   write with decoding enabled *)
Theorem bars_correct m d L :
  f_bars d = layout_slots L -> lenN (f_bars d) = 6 -> Forall spec_ok L -> f_cmd d < 65536 ->
  exists tr, bars m d = (Ok (layout_truth L), d, tr) /\ sizing_writes_safe tr = true.
Proof.
  intros Hb Hlen Hok Hc.
  assert (HL : (length L <= 6)%nat).
  { assert (H : (length L <= length (layout_slots L))%nat).
    { clear. induction L as [|s L IH]; cbn; [lia|]. unfold layout_slots in *. cbn [map concat].
      rewrite app_length. destruct s; cbn [spec_slots length]; lia. }
    rewrite <- Hb in H. unfold lenN in Hlen. lia. }
  destruct (bars_loop_ok m d Hlen Hc L 6 [] 0 [] Hok Hb eq_refl HL eq_refl) as (tr & E & S).
  exists tr. split; [|exact S]. exact E.
Qed.

(* Observation (outside the well-formedness above, recorded, not claimed): an I/O BAR whose upper 16
   address bits are hard-wired zero (16-bit I/O decoder, allowed by the PCI specification) has
   lowest writable address bit 2^8 but is reported with size 0xffff0100, because the size is taken
   as the two's complement of the whole mask instead of its lowest set bit. *)
Example io_bar_16bit_decoder_observation :
  fst (fst (bar_info_f11_prefix Debug (mkFn 1 16 [mkSlot 1 4294902015 49153; dslot; dslot; dslot; dslot; dslot] []) 0))
  = Ok (Some (BarIO 49152 4294902016)).
Proof. vm_compute. reflexivity. Qed.

(* ===================== 6. cam_offset ===================== *)
(* shifts and ors of disjoint bit ranges are a mixed-radix sum *)
Lemma bdf_sum bus dev fn : dev < 32 -> fn < 8 ->
  N.lor (N.lor (N.shiftl bus 8) (N.shiftl dev 3)) fn = bus * 256 + dev * 8 + fn.
Proof.
  intros Hd Hf.
  rewrite (N.lor_comm (N.shiftl bus 8)), (lor_shiftl_add (N.shiftl dev 3) bus 8).
  2:{ rewrite N.shiftl_mul_pow2. change (2 ^ 3) with 8. change (2 ^ 8) with 256. lia. }
  rewrite N.lor_comm, N.shiftl_mul_pow2.
  replace (dev * 2 ^ 3 + bus * 2 ^ 8) with ((dev + bus * 32) * 2 ^ 3) by (change (2 ^ 3) with 8; change (2 ^ 8) with 256; lia).
  rewrite (lor_add_disjoint fn (dev + bus * 32) 3) by (change (2 ^ 3) with 8; lia).
  change (2 ^ 3) with 8. lia.
Qed.

Definition cam_shift (ecam : bool) : N := if ecam then 4096 else 256.

Lemma cam_address_sum ecam bus dev fn reg :
  bus < 256 -> dev < 32 -> fn < 8 -> reg < cam_shift ecam ->
  N.lor (w32 (N.shiftl (N.lor (N.lor (N.shiftl bus 8) (N.shiftl dev 3)) fn) (if ecam then 12 else 8))) reg
  = (bus * 256 + dev * 8 + fn) * cam_shift ecam + reg.
Proof.
  intros Hb Hd Hf Hr. rewrite (bdf_sum bus dev fn Hd Hf).
  set (bdf := bus * 256 + dev * 8 + fn). assert (Hbdf : bdf < 65536) by (unfold bdf; lia).
  rewrite N.shiftl_mul_pow2. unfold cam_shift in *.
  destruct ecam.
  - change (2 ^ 12) with 4096. unfold w32. rewrite N.mod_small by lia.
    rewrite N.lor_comm. change 4096 with (2 ^ 12). rewrite (lor_add_disjoint reg bdf 12 Hr). lia.
  - change (2 ^ 8) with 256. unfold w32. rewrite N.mod_small by lia.
    rewrite N.lor_comm. change 256 with (2 ^ 8). rewrite (lor_add_disjoint reg bdf 8 Hr). lia.
Qed.

(* the preconditions the code asserts: DeviceFunction::valid (device < 32, function < 8) and
   4-alignment; bus and register_offset are u8 (the ECAM formula stays injective up to 4096) *)
Theorem cam_offset_ok ecam bus dev fn reg :
  bus < 256 -> dev < 32 -> fn < 8 -> reg < cam_shift ecam -> reg mod 4 = 0 ->
  cam_offset ecam bus dev fn reg = Ok ((bus * 256 + dev * 8 + fn) * cam_shift ecam + reg)
  /\ (bus * 256 + dev * 8 + fn) * cam_shift ecam + reg < cam_size ecam
  /\ ((bus * 256 + dev * 8 + fn) * cam_shift ecam + reg) mod 4 = 0.
Proof.
  intros Hb Hd Hf Hr Ha. unfold cam_offset.
  replace ((dev <? 32) && (fn <? 8)) with true by lia. cbn [negb].
  rewrite (cam_address_sum ecam bus dev fn reg Hb Hd Hf Hr).
  set (x := (bus * 256 + dev * 8 + fn) * cam_shift ecam + reg).
  assert (Hx : x < cam_size ecam) by (unfold x, cam_shift, cam_size in *; destruct ecam; lia).
  assert (Hx4 : x mod 4 = 0) by (unfold x, cam_shift in *; destruct ecam; lia).
  replace (x <? cam_size ecam) with true by lia. cbn [negb].
  change 3 with (N.ones 2). rewrite N.land_ones. change (2 ^ 2) with 4. rewrite Hx4. cbn. auto.
Qed.

Theorem cam_offset_injective ecam b1 d1 f1 r1 b2 d2 f2 r2 o :
  b1 < 256 -> d1 < 32 -> f1 < 8 -> r1 < cam_shift ecam -> r1 mod 4 = 0 ->
  b2 < 256 -> d2 < 32 -> f2 < 8 -> r2 < cam_shift ecam -> r2 mod 4 = 0 ->
  cam_offset ecam b1 d1 f1 r1 = Ok o -> cam_offset ecam b2 d2 f2 r2 = Ok o ->
  b1 = b2 /\ d1 = d2 /\ f1 = f2 /\ r1 = r2.
Proof.
  intros Hb1 Hd1 Hf1 Hr1 Ha1 Hb2 Hd2 Hf2 Hr2 Ha2 E1 E2.
  destruct (cam_offset_ok ecam b1 d1 f1 r1 Hb1 Hd1 Hf1 Hr1 Ha1) as (X1 & _).
  destruct (cam_offset_ok ecam b2 d2 f2 r2 Hb2 Hd2 Hf2 Hr2 Ha2) as (X2 & _).
  rewrite X1 in E1. rewrite X2 in E2. inversion E1 as [Y1]. inversion E2 as [Y2].
  unfold cam_shift in *. destruct ecam; lia.
Qed.

(* and it refuses (panics on) exactly the requests that violate an assertion *)
Theorem cam_offset_refuses ecam bus dev fn reg :
  bus < 256 -> reg < 256 ->
  (cam_offset ecam bus dev fn reg = Panic <-> (32 <= dev \/ 8 <= fn \/ reg mod 4 <> 0)).
Proof.
  intros Hb Hr. split.
  - intros H. destruct (N.lt_ge_cases dev 32) as [Hd|Hd]; [|auto].
    destruct (N.lt_ge_cases fn 8) as [Hf|Hf]; [|auto].
    destruct (N.eq_dec (reg mod 4) 0) as [Ha|Ha]; [|auto].
    assert (Hr' : reg < cam_shift ecam) by (unfold cam_shift; destruct ecam; lia).
    destruct (cam_offset_ok ecam bus dev fn reg Hb Hd Hf Hr' Ha) as (X & _). congruence.
  - intros H. unfold cam_offset.
    destruct ((dev <? 32) && (fn <? 8)) eqn:E; cbn [negb]; [|reflexivity].
    assert (Hd : dev < 32) by lia. assert (Hf : fn < 8) by lia.
    assert (Ha : reg mod 4 <> 0) by lia.
    assert (Hr' : reg < cam_shift ecam) by (unfold cam_shift; destruct ecam; lia).
    rewrite (cam_address_sum ecam bus dev fn reg Hb Hd Hf Hr').
    set (x := (bus * 256 + dev * 8 + fn) * cam_shift ecam + reg).
    destruct (x <? cam_size ecam); cbn [negb]; [|reflexivity].
    change 3 with (N.ones 2). rewrite N.land_ones. change (2 ^ 2) with 4.
    assert (Hx4 : x mod 4 <> 0) by (unfold x, cam_shift in *; destruct ecam; lia).
    replace (x mod 4 =? 0) with false by lia. reflexivity.
Qed.

(* ===================== 7. bus enumeration ===================== *)
(* position p = device * 8 + function; lexicographic order on (device, function) = order on p *)
Definition present (rdw : N -> N -> N -> N) (p : N) : bool :=
  negb (rdw (p / 8) (p mod 8) 0 =? ones32).
Definition item_at (rdw : N -> N -> N -> N) (p : N) : N * N * dfinfo :=
  (p / 8, p mod 8, decode_info (rdw (p / 8) (p mod 8) 0) (rdw (p / 8) (p mod 8) 8) (rdw (p / 8) (p mod 8) 12)).

Definition enum_body (inner outer : nat) rdw dev fn : list (N * N * dfinfo) :=
  match enum_next inner rdw dev fn with
  | (Some it, (dev', fn')) => it :: enum_collect outer rdw dev' fn'
  | (None, _) => []
  end.

Lemma advance_pos dev fn : fn < 8 ->
  fst (advance dev fn) * 8 + snd (advance dev fn) = dev * 8 + fn + 1 /\ snd (advance dev fn) < 8.
Proof. intros H. unfold advance. destruct (N.leb_spec 8 (fn + 1)); cbn [fst snd]; lia. Qed.

Lemma enum_body_spec rdw : forall n inner outer dev fn,
  fn < 8 -> dev * 8 + fn + N.of_nat n = 256 -> (n < inner)%nat -> (n <= outer)%nat ->
  enum_body inner outer rdw dev fn = map (item_at rdw) (filter (present rdw) (seqN (dev * 8 + fn) n)).
Proof.
  induction n as [|n IH]; intros inner outer dev fn Hf Hp Hi Ho.
  - destruct inner as [|inner]; [lia|]. unfold enum_body. cbn [enum_next seqN filter map].
    replace (dev <? 32) with false by lia. reflexivity.
  - destruct inner as [|inner]; [lia|]. unfold enum_body. cbn [enum_next].
    replace (dev <? 32) with true by lia.
    destruct (advance_pos dev fn Hf) as [Ha Ha8].
    destruct (advance dev fn) as [dev' fn'] eqn:Eadv. cbn [fst snd] in Ha, Ha8.
    assert (Ed : (dev * 8 + fn) / 8 = dev) by lia.
    assert (Em : (dev * 8 + fn) mod 8 = fn) by lia.
    cbn [seqN filter]. unfold present at 1. rewrite Ed, Em. unfold INVALID_READ.
    destruct (rdw dev fn 0 =? ones32) eqn:Einv; cbn [negb].
    + fold (enum_body inner outer rdw dev' fn').
      rewrite (IH inner outer dev' fn' Ha8) by lia. rewrite Ha. reflexivity.
    + cbn [map]. unfold item_at at 1. rewrite Ed, Em. f_equal.
      destruct outer as [|outer]; [lia|]. cbn [enum_collect]. fold (enum_body 257 outer rdw dev' fn').
      rewrite (IH 257%nat outer dev' fn' Ha8) by lia. rewrite Ha. reflexivity.
Qed.

(* the iterator yields exactly the functions whose first configuration word is not all ones, in
   lexicographic (device, function) order, each with its identity fields.  The multi-function bit of
   function 0 (header type bit 7) is not consulted by the code: all eight functions of every device
   are probed, whatever function 0 says (and even when function 0 is absent). *)
Theorem enumerate_bus_exact rdw :
  enumerate_bus rdw = map (item_at rdw) (filter (present rdw) (seqN 0 256)).
Proof.
  unfold enumerate_bus. change (enum_collect 257 rdw 0 0) with (enum_body 257 256 rdw 0 0).
  apply (enum_body_spec rdw 256 257 256 0 0); cbn; lia.
Qed.

Lemma seqN_in lo n x : In x (seqN lo n) <-> lo <= x < lo + N.of_nat n.
Proof.
  revert lo; induction n as [|n IH]; intros lo; cbn [seqN In]; [lia|].
  rewrite IH. lia.
Qed.
Lemma seqN_sorted lo n : forall i j a b, nth_error (seqN lo n) i = Some a -> nth_error (seqN lo n) j = Some b ->
  (i < j)%nat -> a < b.
Proof.
  revert lo; induction n as [|n IH]; intros lo i j a b Hi Hj Hij; [destruct i; discriminate|].
  destruct j as [|j]; [lia|]. cbn [seqN nth_error] in Hj.
  destruct i as [|i]; cbn [seqN nth_error] in Hi.
  - inversion Hi; subst. apply nth_error_In, seqN_in in Hj. lia.
  - apply (IH (lo + 1) i j a b Hi Hj). lia.
Qed.

(* membership form: (dev, fn) is reported iff it is a valid position that answers *)
Theorem enumerate_bus_mem rdw dev fn i :
  In (dev, fn, i) (enumerate_bus rdw) <->
  dev < 32 /\ fn < 8 /\ rdw dev fn 0 <> ones32
  /\ i = decode_info (rdw dev fn 0) (rdw dev fn 8) (rdw dev fn 12).
Proof.
  rewrite enumerate_bus_exact, in_map_iff. split.
  - intros (p & E & Hin). apply filter_In in Hin. destruct Hin as [Hr Hp].
    apply seqN_in in Hr. unfold item_at in E. inversion E; subst. unfold present in Hp.
    apply negb_true_iff, N.eqb_neq in Hp. repeat split; first [lia | exact Hp].
  - intros (Hd & Hf & Hp & ->). exists (dev * 8 + fn).
    assert (Ed : (dev * 8 + fn) / 8 = dev) by lia.
    assert (Em : (dev * 8 + fn) mod 8 = fn) by lia.
    split; [unfold item_at; rewrite Ed, Em; reflexivity|].
    apply filter_In. split; [apply seqN_in; cbn; lia|].
    unfold present. rewrite Ed, Em. apply negb_true_iff, N.eqb_neq. exact Hp.
Qed.

(* identity fields come from the right bit ranges *)
Theorem decode_info_fields w0 w2 w3 : w0 < 2 ^ 32 -> w2 < 2 ^ 32 -> w3 < 2 ^ 32 ->
  let i := decode_info w0 w2 w3 in
  i_vendor i = w0 mod 65536 /\ i_device i = w0 / 65536
  /\ i_class i = w2 / 16777216 /\ i_subclass i = (w2 / 65536) mod 256
  /\ i_prog_if i = (w2 / 256) mod 256 /\ i_revision i = w2 mod 256
  /\ i_header i = (w3 / 65536) mod 128.
Proof.
  intros H0 H2 H3. change (2 ^ 32) with 4294967296 in *.
  unfold decode_info. cbn [i_vendor i_device i_class i_subclass i_prog_if i_revision i_header].
  rewrite !N.shiftr_div_pow2. change 127 with (N.ones 7). rewrite N.land_ones.
  change (2 ^ 16) with 65536. change (2 ^ 24) with 16777216. change (2 ^ 8) with 256. change (2 ^ 7) with 128.
  unfold w8, w16. repeat split; lia.
Qed.

(* function 0 absent (or single-function), function 3 present: still reported *)
Example enumerate_ignores_multifunction_bit :
  let rdw := fun dev fn off => if (dev =? 4) && (fn =? 3) then (if off =? 0 then 268442356 else 0) else ones32 in
  map (fun x => (fst (fst x), snd (fst x))) (enumerate_bus rdw) = [(4, 3)].
Proof. vm_compute. reflexivity. Qed.

(* ===================== 8. capability walk ===================== *)
(* a legal capability offset, as the iterator sees it: inside the device-specific area, 4-aligned *)
Definition cap_off_ok (o : N) : Prop := 64 <= o < 256 /\ o mod 4 = 0.
(* a pointer value at which the walk stops: zero, below 64, or misaligned *)
Definition cap_stop (t : N) : Prop := t < 256 /\ (t < 64 \/ t mod 4 <> 0).

(* `rdc` holds the linked list L = [(offset, id, private_header); ...] ended by pointer `term`:
   the header word at each offset is id | next << 8 | private << 16 *)
Fixpoint chain (rdc : N -> N) (L : list (N * N * N)) (term : N) : Prop :=
  match L with
  | [] => True
  | (o, id, p) :: rest =>
      cap_off_ok o /\ id < 256 /\ p < 65536
      /\ rdc o = id + 256 * (match rest with [] => term | (o', _, _) :: _ => o' end) + 65536 * p
      /\ chain rdc rest term
  end.

Lemma header_fields id nx p : id < 256 -> nx < 256 -> p < 65536 ->
  w8 (id + 256 * nx + 65536 * p) = id
  /\ w8 (N.shiftr (id + 256 * nx + 65536 * p) 8) = nx
  /\ w16 (N.shiftr (id + 256 * nx + 65536 * p) 16) = p.
Proof.
  intros. rewrite !N.shiftr_div_pow2. change (2 ^ 8) with 256. change (2 ^ 16) with 65536.
  unfold w8, w16. repeat split; lia.
Qed.

Lemma next_of_ok o : cap_off_ok o ->
  (if o =? 0 then None else if (o <? 64) || negb (N.land o 3 =? 0) then None else Some o) = Some o.
Proof.
  intros [H1 H2]. change 3 with (N.ones 2). rewrite N.land_ones. change (2 ^ 2) with 4.
  replace (o =? 0) with false by lia. replace (o <? 64) with false by lia. rewrite H2. reflexivity.
Qed.
Lemma next_of_stop t : cap_stop t ->
  (if t =? 0 then None else if (t <? 64) || negb (N.land t 3 =? 0) then None else @Some N t) = None.
Proof.
  intros [H1 H2]. change 3 with (N.ones 2). rewrite N.land_ones. change (2 ^ 2) with 4.
  destruct (t =? 0); [reflexivity|]. destruct H2 as [H2|H2].
  - replace (t <? 64) with true by lia. reflexivity.
  - replace (t mod 4 =? 0) with false by lia. cbn [negb]. rewrite orb_true_r. reflexivity.
Qed.

Lemma caps_collect_chain rdc term : cap_stop term -> forall L fuel o id p,
  chain rdc ((o, id, p) :: L) term -> (length L < fuel)%nat ->
  caps_collect fuel rdc (Some o) = ((o, id, p) :: L, true).
Proof.
  intros Hterm. induction L as [|[[o' id'] p'] rest IH]; intros fuel o id p Hc Hf.
  - destruct fuel as [|fuel]; [cbn in Hf; lia|].
    cbn [chain] in Hc. destruct Hc as (Ho & Hid & Hp & Hr & _).
    cbn [caps_collect cap_next]. rewrite Hr.
    destruct Hterm as [Ht1 Ht2].
    destruct (header_fields id term p Hid Ht1 Hp) as (E1 & E2 & E3). rewrite E1, E2, E3.
    rewrite (next_of_stop term (conj Ht1 Ht2)).
    destruct fuel; reflexivity.
  - destruct fuel as [|fuel]; [cbn in Hf; lia|].
    cbn [chain] in Hc. destruct Hc as (Ho & Hid & Hp & Hr & Hc).
    assert (Ho' : cap_off_ok o') by (cbn [chain] in Hc; tauto).
    cbn [caps_collect cap_next]. rewrite Hr.
    destruct (header_fields id o' p Hid ltac:(destruct Ho'; lia) Hp) as (E1 & E2 & E3). rewrite E1, E2, E3.
    rewrite (next_of_ok o' Ho').
    rewrite (IH fuel o' id' p' Hc) by (cbn [length] in Hf; lia). reflexivity.
Qed.

(* the capability list of a function: status bit 4 announces it, the pointer register's low two bits
   are reserved (masked), an empty list is announced by the status bit being clear *)
Theorem capabilities_exact rdc L term fuel :
  cap_stop term -> chain rdc L term -> (length L <= fuel)%nat ->
  (match L with
   | [] => N.land (rdc 4 / 65536) 16 = 0
   | (o, _, _) :: _ => N.land (rdc 4 / 65536) 16 <> 0 /\ (rdc 52 mod 256) / 4 * 4 = o
   end) ->
  rdc 4 < 2 ^ 32 ->
  capabilities fuel rdc = (L, true).
Proof.
  intros Hterm Hc Hf Hhead H4.
  unfold capabilities, capabilities_offset, status_command_of. cbn [fst].
  assert (Est : N.land (N.land (w16 (N.shiftr (rdc 4) 16)) STATUS_NAMED) STATUS_CAP_LIST
                = N.land (rdc 4 / 65536) 16).
  { unfold STATUS_NAMED, STATUS_CAP_LIST. rewrite <- N.land_assoc. change (N.land 63928 16) with 16.
    rewrite N.shiftr_div_pow2. change (2 ^ 16) with 65536. unfold w16.
    change (2 ^ 32) with 4294967296 in H4. rewrite N.mod_small by lia. reflexivity. }
  rewrite Est.
  destruct L as [|[[o id] p] rest].
  - rewrite Hhead. cbn. destruct fuel; reflexivity.
  - destruct Hhead as [Hs Hptr]. apply N.eqb_neq in Hs. rewrite Hs.
    assert (Eptr : w8 (N.land (rdc 52) 252) = o).
    { change 252 with (N.shiftl (N.ones 6) 2). rewrite land_field.
      change (2 ^ 2) with 4. change (2 ^ 6) with 64. unfold w8. lia. }
    rewrite Eptr. apply (caps_collect_chain rdc term Hterm rest fuel o id p Hc). cbn [length] in Hf. lia.
Qed.

(* offsets of a chain are pairwise distinct (the list is acyclic): otherwise the stop pointer would
   have to be a legal offset.  Hence a well-formed list has at most 48 entries and fuel 48 suffices. *)
Lemma chain_tail_determined rdc term : forall L1 L2 o id1 p1 id2 p2,
  chain rdc ((o, id1, p1) :: L1) term -> chain rdc ((o, id2, p2) :: L2) term ->
  cap_stop term -> (length L1 < length L2)%nat -> False.
Proof.
  induction L1 as [|[[a ia] pa] L1 IH]; intros L2 o id1 p1 id2 p2 H1 H2 Ht Hlen.
  - destruct L2 as [|[[b ib] pb] L2]; [cbn in Hlen; lia|].
    cbn [chain] in H1, H2. destruct H1 as (_ & Hi1 & Hp1 & R1 & _).
    destruct H2 as (_ & Hi2 & Hp2 & R2 & (Hb & _)). rewrite R1 in R2.
    destruct Ht as [Ht1 Ht2]. destruct Hb as [Hb1 Hb2].
    assert (term = b) by lia. subst. lia.
  - destruct L2 as [|[[b ib] pb] L2]; [cbn in Hlen; lia|].
    cbn [chain] in H1, H2. destruct H1 as (_ & Hi1 & Hp1 & R1 & H1).
    destruct H2 as (_ & Hi2 & Hp2 & R2 & H2). rewrite R1 in R2.
    assert (Ha : cap_off_ok a) by (cbn [chain] in H1; tauto).
    assert (Hb : cap_off_ok b) by (cbn [chain] in H2; tauto).
    destruct Ha as [Ha1 Ha2]. destruct Hb as [Hb1 Hb2].
    assert (a = b) by lia. subst.
    apply (IH L2 b ia pa ib pb H1 H2 Ht). cbn [length] in Hlen. lia.
Qed.

Theorem chain_offsets_nodup rdc term : cap_stop term -> forall L,
  chain rdc L term -> NoDup (map (fun c => fst (fst c)) L).
Proof.
  intros Ht. induction L as [|[[o id] p] L IH]; intros Hc; [constructor|].
  cbn [map fst]. constructor.
  - intros Hin. apply in_map_iff in Hin. destruct Hin as ([[o' id'] p'] & E & Hin). cbn [fst] in E. subst o'.
    apply in_split in Hin. destruct Hin as (l1 & l2 & ->).
    assert (Hsuf : chain rdc ((o, id', p') :: l2) term).
    { cbn [chain] in Hc. destruct Hc as (_ & _ & _ & _ & Hc). clear IH.
      induction l1 as [|[[a ia] pa] l1 IHl]; [exact Hc|].
      apply IHl. cbn [app chain] in Hc. tauto. }
    apply (chain_tail_determined rdc term l2 (l1 ++ (o, id', p') :: l2) o id' p' id p Hsuf Hc Ht).
    rewrite app_length. cbn [length]. lia.
  - apply IH. cbn [chain] in Hc. tauto.
Qed.

Lemma seqN_in' lo n x : In x (seqN lo n) <-> lo <= x < lo + N.of_nat n.
Proof.
  revert lo; induction n as [|n IH]; intros lo; cbn [seqN In]; [lia|].
  rewrite IH. lia.
Qed.
(* at most 48 = (256 - 64) / 4 capabilities: fuel 48 always suffices for a well-formed list *)
Theorem chain_length_bound rdc term L : cap_stop term -> chain rdc L term -> (length L <= 48)%nat.
Proof.
  intros Ht Hc. pose proof (chain_offsets_nodup rdc term Ht L Hc) as Hnd.
  rewrite <- (map_length (fun c => fst (fst c)) L).
  change 48%nat with (length (map (fun x => 4 * x) (seqN 16 48))).
  apply NoDup_incl_length; [exact Hnd|].
  intros o Hin. apply in_map_iff in Hin. destruct Hin as ([[o' id] p] & E & Hin). cbn [fst] in E. subst o'.
  assert (Ho : cap_off_ok o).
  { clear Hnd. induction L as [|[[a ia] pa] L IH]; [destruct Hin|].
    cbn [chain] in Hc. destruct Hin as [E|Hin]; [inversion E; subst; tauto|apply IH; tauto]. }
  destruct Ho as [H1 H2]. apply in_map_iff. exists (o / 4). split; [lia|].
  apply seqN_in'. cbn. lia.
Qed.
Theorem capabilities_fuel48 rdc L term :
  cap_stop term -> chain rdc L term ->
  (match L with
   | [] => N.land (rdc 4 / 65536) 16 = 0
   | (o, _, _) :: _ => N.land (rdc 4 / 65536) 16 <> 0 /\ (rdc 52 mod 256) / 4 * 4 = o
   end) ->
  rdc 4 < 2 ^ 32 ->
  capabilities 48 rdc = (L, true).
Proof.
  intros Ht Hc Hh H4. apply (capabilities_exact rdc L term 48 Ht Hc); auto.
  apply (chain_length_bound rdc term L Ht Hc).
Qed.

(* a cyclic list is outside "well-formed": the real iterator never ends, the model runs out of fuel
   and says so *)
Example cyclic_list_runs_out_of_fuel :
  let rdc := fun off => if off =? 4 then 1048576 else if off =? 52 then 64
                        else if off =? 64 then 9 + 256 * 80 else if off =? 80 then 9 + 256 * 64 else 0 in
  snd (capabilities 64 rdc) = false /\ length (fst (capabilities 64 rdc)) = 64%nat.
Proof. vm_compute. split; reflexivity. Qed.
(* the first pointer is not range-checked by the code: with the list bit set and a zero pointer the
   iterator reports a "capability" at offset 0 (recorded as an observation, outside well-formed lists) *)
Example first_pointer_unchecked :
  let rdc := fun off => if off =? 4 then 1048576 else if off =? 0 then 268442356 else 0 in
  capabilities 64 rdc = ([(0, 244, 4096)], true).
Proof. vm_compute. reflexivity. Qed.
