(* What the C12 monitors of Extract/PciBusIO.v (kinds 1250 .. 1256, 1205, 1207) MEAN, and that they hold of the model.
   (Kind 1257, the HypCam addresses, has its meaning / completeness theorems in Proofs/HypPciProofs.v.)
     A. meaning: a TRUE verdict on ANY input list states the clause of C12, in terms of the decoded observation;
        decode lemmas: every accepted list IS a line of the layout the harness writes;
     B. completeness: the line built from the MODEL's own behaviour (Model/PciBus.v bar_info / bars / cam_offset /
        enumerate_bus / capabilities) is accepted - from the theorems of Proofs/PciBusProofs.v and PciProofs.v. *)
From VD Require Import Base.Words Base.ListUpd Model.PciBus Proofs.PciBusProofs Model.Pci Model.PciSpec Proofs.PciProofs Extract.PciBusIO.
From Coq Require Import ZArith Lia ZifyBool ZifyN ZifyNat.
Ltac Zify.zify_post_hook ::= Z.div_mod_to_equations.

Lemma b2n_1 b : [b2n b] = [1] -> b = true.
Proof. destruct b; [reflexivity|discriminate]. Qed.

(* ------------------------------------------------------------------------------------------------ *)
(* flat layouts and the parsers                                                                      *)
Fixpoint flat_slots (l : list slot) : list N :=
  match l with [] => [] | s :: t => s_kind s :: s_mask s :: s_val s :: flat_slots t end.

Lemma slot_eta s : mkSlot (s_kind s) (s_mask s) (s_val s) = s.
Proof. now destruct s. Qed.

Lemma take_slots_flat l r : take_slots (length l) (flat_slots l ++ r) = (l, r).
Proof.
  induction l as [|s t IH]; cbn [length flat_slots app take_slots]; [now destruct r|]. now rewrite IH, slot_eta.
Qed.
Lemma take_slots_inv : forall k l x y, take_slots k l = (x, y) -> l = flat_slots x ++ y /\ (length x <= k)%nat.
Proof.
  induction k as [|k IH]; intros l x y H.
  - cbn [take_slots] in H. assert (E : ([] : list slot, l) = (x, y)) by (destruct l; exact H). inversion E; subst. split; auto.
  - destruct l as [|a [|b [|c r]]]; cbn [take_slots] in H; try (inversion H; subst; split; cbn; auto; lia).
    destruct (take_slots k r) as [x' y'] eqn:E. inversion H; subst. destruct (IH _ _ _ E) as (E1 & E2).
    cbn [flat_slots app length s_kind s_mask s_val]. split; [now rewrite E1 at 1|lia].
Qed.

Lemma take_n_app l r : take_n (length l) (l ++ r) = (l, r).
Proof. induction l as [|a t IH]; cbn [length app take_n]; [now destruct r|]. now rewrite IH. Qed.
Lemma take_n_inv : forall k l x y, take_n k l = (x, y) -> l = x ++ y /\ length x = Nat.min k (length l).
Proof.
  induction k as [|k IH]; intros l x y H.
  - cbn [take_n] in H. assert (E : ([] : list N, l) = (x, y)) by (destruct l; exact H). inversion E; subst. split; auto.
  - destruct l as [|a r]; cbn [take_n] in H; [inversion H; subst; split; auto|].
    destruct (take_n k r) as [x' y'] eqn:E. inversion H; subst. destruct (IH _ _ _ E) as (E1 & E2).
    cbn [app length]. split; [now rewrite E1 at 1|lia].
Qed.

Lemma list_eqb_eq : forall a b, list_eqb a b = true <-> a = b.
Proof.
  induction a as [|x a IH]; intros [|y b]; cbn [list_eqb]; split; intros H; try reflexivity; try discriminate.
  - apply andb_prop in H. destruct H as [H1 H2]. apply N.eqb_eq in H1. apply IH in H2. now subst.
  - inversion H; subst. rewrite N.eqb_refl. cbn [andb]. now apply IH.
Qed.
Lemma list_eqb_refl a : list_eqb a a = true.
Proof. now apply list_eqb_eq. Qed.

Lemma pcnt_len {A} (x : list A) (l : list N) : lenN x <= lenN l -> pcnt (lenN x) l = length x.
Proof. intros H. unfold pcnt. rewrite N.min_l by exact H. unfold lenN. apply Nat2N.id. Qed.

(* what the result encoding says: class 0 = Ok, then (1 memory | 2 I/O | 0 absent, type, prefetchable, address, size) *)
Lemma enc_res_ok_inj t1 t2 : enc_res (Ok t1) = enc_res (Ok t2) -> t1 = t2.
Proof.
  destruct t1 as [[ty1 pf1 a1 s1|a1 s1]|], t2 as [[ty2 pf2 a2 s2|a2 s2]|]; cbn [enc_res enc_info]; intros H; inversion H; subst; try reflexivity.
  destruct pf1, pf2; try discriminate; reflexivity.
Qed.

(* ------------------------------------------------------------------------------------------------ *)
(* kind 1250: bar_info reports what the BAR is                                                        *)
(* MEANING.  i = the slot probed, bs = the six BAR registers of the reference function (descriptive kind, hard-wired bits,
   content), obs = the observed result [class; code | kind; type; prefetchable; address; size].  Wherever the registers
   at slot i describe a BAR (or an unimplemented register) - slot_truth, the specification's reading of kinds, masks and
   contents: size = 2^(lowest writable address bit), over both registers for a 64-bit BAR - the observed result is Ok of
   exactly that. *)
Theorem mon_truth_meaning i bs obs : length bs = 6%nat ->
  mon_truth (i :: flat_slots bs ++ obs) = [1] ->
  forall t, slot_truth bs i = Some t -> obs = enc_res (Ok t).
Proof.
  intros Hl H t Ht. unfold mon_truth in H. rewrite <- Hl, take_slots_flat, Ht in H.
  apply b2n_1 in H. apply list_eqb_eq in H. now symmetry.
Qed.

(* every accepted list is such a line, unless it is too short to hold six registers (then nothing is required: the
   registers missing read as unimplemented) *)
Theorem mon_truth_decodes ins : mon_truth ins = [1] ->
  exists i bs obs, ins = i :: flat_slots bs ++ obs /\ (length bs <= 6)%nat.
Proof.
  intros H. unfold mon_truth in H. destruct ins as [|i r]; [discriminate H|].
  destruct (take_slots 6 r) as [bs obs] eqn:E. destruct (take_slots_inv _ _ _ _ E) as (E1 & E2).
  exists i, bs, obs. now rewrite E1.
Qed.

(* ... in the terms of the property: for EVERY well-formed BAR s (Proofs/PciBusProofs.v spec_ok: I/O, memory 32-bit /
   below 1 MiB / 64-bit, writable address bits [k, m), address a) standing at slot i of the function, a true verdict says
   the call returned Ok(kind, address, prefetchable, 2^k) - None for an unimplemented register *)
Theorem mon_truth_meaning_placed i d obs s :
  length (f_bars d) = 6%nat -> spec_ok s -> placed d i s ->
  mon_truth (i :: flat_slots (f_bars d) ++ obs) = [1] ->
  obs = match s with
        | SUnimpl => [0; 0; 0; 0; 0; 0]
        | SIo k m a => [0; 2; 0; 0; a; 2 ^ k]
        | SMem ty pf k m a => [0; 1; ty; b2n pf; a; 2 ^ k]
        | SMem64 pf k m a => [0; 1; 2; b2n pf; a; 2 ^ k]
        end.
Proof.
  intros Hl Hs Hp H. rewrite (mon_truth_meaning i (f_bars d) obs Hl H _ (slot_truth_placed d i s Hs Hp)).
  destruct s; reflexivity.
Qed.

(* COMPLETENESS: the model's bar_info on every function whose descriptive kinds are honest (PciProofs.kinds_honest: wherever
   the kinds claim a BAR, the registers are a well-formed one), every slot, every command value, both profiles *)
Theorem mon1250_holds_of_model m d i :
  fn_ok d -> kinds_honest d -> i <= 5 ->
  mon_truth (i :: flat_slots (f_bars d) ++ enc_res (fst (fst (bar_info m d i)))) = [1].
Proof.
  intros Hok Hk Hi. unfold mon_truth.
  assert (Hl : length (f_bars d) = 6%nat) by (destruct Hok as (H & _); unfold lenN in H; lia).
  rewrite <- Hl, take_slots_flat.
  destruct (slot_truth (f_bars d) i) as [t|] eqn:Ht; [|reflexivity].
  destruct (truth_bar_of m d i t Hok Hk Hi Ht) as (Eb & _). unfold bar_of in Eb. rewrite Eb, list_eqb_refl. reflexivity.
Qed.

(* ------------------------------------------------------------------------------------------------ *)
(* kind 1251: [command register before; after] (also used as [0; number of configuration writes] for the read-only helpers) *)
Theorem mon_cmd_meaning a b : mon_cmd [a; b] = [1] -> b = a.
Proof. unfold mon_cmd. intros H. apply b2n_1 in H. lia. Qed.
Theorem mon_cmd_decodes ins : mon_cmd ins = [1] -> exists a b, ins = [a; b].
Proof. unfold mon_cmd. destruct ins as [|a [|b [|c r]]]; intros H; try discriminate H. now exists a, b. Qed.

(* kind 1252: the six BAR registers before, then after *)
Theorem mon_bars_meaning ins : mon_bars ins = [1] ->
  exists before, length before = 6%nat /\ ins = before ++ before.
Proof.
  unfold mon_bars. destruct (take_n 6 ins) as [a b] eqn:E. intros H. apply b2n_1 in H.
  apply andb_prop in H. destruct H as [H1 H2]. apply list_eqb_eq in H2. subst b.
  destruct (take_n_inv _ _ _ _ E) as (E1 & _). exists a. split; [unfold lenN in H1; lia|exact E1].
Qed.
Lemma app_eq_len {A} : forall (a b c d : list A), length a = length c -> a ++ b = c ++ d -> a = c /\ b = d.
Proof.
  induction a as [|x a IH]; intros b [|y c] d Hl H; cbn in *; try discriminate; [auto|].
  inversion H; subst. destruct (IH b c d ltac:(lia) H2) as [-> ->]. auto.
Qed.
(* the same, element by element: register j after = register j before *)
Theorem mon_bars_meaning_nth before after : length before = 6%nat -> mon_bars (before ++ after) = [1] -> after = before.
Proof.
  intros Hl H. destruct (mon_bars_meaning _ H) as (x & Hx & E).
  assert (E1 : x = before /\ x = after).
  { apply (app_eq_len x x before after); [now rewrite Hl, Hx|now symmetry]. }
  destruct E1 as [E1 E2]. now rewrite <- E1, <- E2.
Qed.

(* COMPLETENESS of 1251 / 1252: probing ANY register of ANY function (arbitrary masks and contents) with the model's bar_info *)
Theorem mon1251_1252_hold_of_model m d i :
  lenN (f_bars d) = 6 -> i < 6 -> f_cmd d < 65536 -> bars_lt32 d ->
  let d' := snd (fst (bar_info m d i)) in
  mon_cmd [f_cmd d; f_cmd d'] = [1] /\ mon_bars (bar_vals d ++ bar_vals d') = [1].
Proof.
  intros Hlen Hi Hc Hv. destruct (bar_info_no_side_effects m d i Hlen Hi Hc Hv) as (r & tr & E & _). cbv zeta.
  rewrite E. cbn [fst snd]. split.
  - unfold mon_cmd. now rewrite N.eqb_refl.
  - unfold mon_bars. assert (L : length (bar_vals d) = 6%nat) by (unfold bar_vals; rewrite map_length; unfold lenN in Hlen; lia).
    rewrite <- L, take_n_app, list_eqb_refl. unfold lenN. rewrite L. reflexivity.
Qed.

(* ------------------------------------------------------------------------------------------------ *)
(* kind 1253: no sizing pattern while decoding is enabled                                            *)
(* replaying the writes of a trace on the reference function *)
Definition apply_acc (d : pcifn) (a : acc) : pcifn := if a_write a then cfg_write d (a_off a) (a_val a) else d.
Definition replay (d : pcifn) (tr : list acc) : pcifn := fold_left apply_acc tr d.

Lemma cfg_write_bars_len d off v : length (f_bars (cfg_write d off v)) = length (f_bars d).
Proof.
  unfold cfg_write. destruct (off =? 4); [reflexivity|]. destruct (is_bar_off off); [|reflexivity].
  unfold set_bar. cbn [f_bars]. unfold updN. apply upd_length.
Qed.
Lemma replay_bars_len tr : forall d, length (f_bars (replay d tr)) = length (f_bars d).
Proof.
  induction tr as [|a t IH]; intros d; [reflexivity|]. unfold replay in *. cbn [fold_left]. rewrite IH.
  unfold apply_acc. destruct (a_write a); [apply cfg_write_bars_len|reflexivity].
Qed.

Lemma combine_eqb_eq : forall a b, length a = length b ->
  forallb (fun p : N * N => fst p =? snd p) (combine a b) = true -> a = b.
Proof.
  induction a as [|x a IH]; intros [|y b] Hl H; cbn in *; try discriminate; [reflexivity|].
  apply andb_prop in H. destruct H as [H1 H2]. apply N.eqb_eq in H1. subst. f_equal. apply IH; [lia|exact H2].
Qed.

Lemma decode_safe_sound bars0 : forall tr d, decode_safe bars0 d tr = true ->
  forall k, (k < length tr)%nat ->
    decode_on (f_cmd (replay d (firstn (S k) tr))) = true ->
    forallb (fun p : N * N => fst p =? snd p) (combine (map s_val (f_bars (replay d (firstn (S k) tr)))) bars0) = true.
Proof.
  induction tr as [|a t IH]; intros d H k Hk Hon; [cbn in Hk; lia|].
  cbn [decode_safe] in H. apply andb_prop in H. destruct H as [H1 H2]. fold (apply_acc d a) in H1, H2.
  destruct k as [|k].
  - cbn [firstn] in *. unfold replay in *. cbn [fold_left] in *. rewrite Hon in H1. exact H1.
  - cbn [firstn] in *. unfold replay in *. cbn [fold_left] in *. apply (IH _ H2 k); [cbn in Hk; lia|exact Hon].
Qed.

Lemma decode_on_land cmd : decode_on cmd = true <-> N.land cmd 3 <> 0.
Proof. unfold decode_on, CMD_DECODE. rewrite negb_true_iff, N.eqb_neq. tauto. Qed.

Lemma take_fn_enc c st bs rest : length bs = 6%nat ->
  take_fn (c :: st :: flat_slots bs ++ rest) = Some (mkFn c st bs [], rest).
Proof.
  intros Hl. unfold take_fn. rewrite <- Hl at 1. rewrite take_slots_flat. unfold lenN. rewrite Hl. reflexivity.
Qed.

(* MEANING.  [command; status; the six BAR registers (kind, mask, content) before the call; n; n accesses (is_write, offset,
   value, command register in force as the twin logged it)], tr = the accesses as the monitor decodes them:
   (a) every write of the all-ones pattern to a BAR register was issued with both decode bits clear;
   (b) replaying the writes on the reference function (Model/PciBus.v cfg_write: 16 command bits, RW1C status, hard-wired BAR
       bits), after every access after which decoding is enabled, all six BAR registers hold their original content;
   (c) nothing but the command register and the six BAR registers is written *)
Theorem mon_decode_meaning c st bs n r : length bs = 6%nat ->
  mon_decode (c :: st :: flat_slots bs ++ n :: r) = [1] ->
  let tr := dec_trace (pcnt n r) r in
  let d := mkFn c st bs [] in
  lenN tr = n
  /\ (forall a, In a tr -> a_write a = true -> 16 <= a_off a < 40 -> a_val a = 4294967295 -> N.land (a_cmd a) 3 = 0)
  /\ (forall k, (k < length tr)%nat -> N.land (f_cmd (replay d (firstn (S k) tr))) 3 <> 0 ->
        map s_val (f_bars (replay d (firstn (S k) tr))) = map s_val bs)
  /\ (forall a, In a tr -> a_write a = true -> a_off a = 4 \/ 16 <= a_off a < 40).
Proof.
  intros Hl H tr d. unfold mon_decode in H. rewrite (take_fn_enc c st bs (n :: r) Hl) in H. fold tr in H. fold d in H.
  apply b2n_1 in H. apply andb_prop in H. destruct H as [H Hc]. apply andb_prop in H. destruct H as [H Hb].
  apply andb_prop in H. destruct H as [Hn Ha]. apply N.eqb_eq in Hn.
  split; [exact Hn|]. split; [|split].
  - intros a Hi Hw Ho Hv. unfold sizing_writes_safe in Ha. rewrite forallb_forall in Ha. specialize (Ha a Hi).
    unfold is_bar_off, ones32 in Ha. rewrite Hw in Ha.
    replace ((16 <=? a_off a) && (a_off a <? 40)) with true in Ha by lia.
    replace (a_val a =? 4294967295) with true in Ha by lia. cbn [andb negb orb] in Ha.
    apply negb_true_iff in Ha. unfold decode_on in Ha. apply negb_false_iff in Ha. now apply N.eqb_eq in Ha.
  - intros k Hk Hon. apply decode_on_land in Hon.
    pose proof (decode_safe_sound _ _ _ Hb k Hk Hon) as E. apply combine_eqb_eq in E; [exact E|].
    unfold bar_vals. rewrite !map_length, replay_bars_len. reflexivity.
  - intros a Hi Hw. rewrite forallb_forall in Hc. specialize (Hc a Hi). rewrite Hw in Hc. cbn [negb orb] in Hc.
    unfold is_bar_off in Hc. lia.
Qed.

Theorem mon_decode_decodes ins : mon_decode ins = [1] ->
  exists c st bs n r, ins = c :: st :: flat_slots bs ++ n :: r /\ length bs = 6%nat.
Proof.
  intros H. unfold mon_decode, take_fn in H. destruct ins as [|c [|st r0]]; try discriminate H.
  destruct (take_slots 6 r0) as [bs rest] eqn:E. destruct (take_slots_inv _ _ _ _ E) as (E1 & E2).
  destruct (lenN bs =? 6) eqn:El; [|discriminate H]. destruct rest as [|n r]; [discriminate H|].
  exists c, st, bs, n, r. split; [now rewrite E1|]. apply N.eqb_eq in El. unfold lenN in El. lia.
Qed.

(* the harness' encoding of a trace is read back exactly *)
Lemma dec_trace_enc : forall tr fuel, (length tr <= fuel)%nat -> dec_trace fuel (enc_trace tr) = tr.
Proof.
  induction tr as [|a t IH]; intros fuel Hf; [destruct fuel; reflexivity|].
  destruct fuel as [|fuel]; [cbn in Hf; lia|]. unfold enc_trace in *. cbn [map concat app dec_trace].
  rewrite IH by (cbn in Hf; lia). destruct a as [w o v c]. cbn [a_write a_off a_val a_cmd]. destruct w; reflexivity.
Qed.
Lemma lenN_enc_trace tr : lenN (enc_trace tr) = 4 * lenN tr.
Proof. induction tr as [|a t IH]; [reflexivity|]. unfold enc_trace in *. cbn [map concat app]. rewrite !lenN_cons, IH. lia. Qed.

(* the verdict does not look at the registers that are neither command / status nor a BAR *)
Lemma decode_safe_regs bars0 : forall tr c st bs r1 r2,
  decode_safe bars0 (mkFn c st bs r1) tr = decode_safe bars0 (mkFn c st bs r2) tr.
Proof.
  induction tr as [|a t IH]; intros c st bs r1 r2; [reflexivity|]. cbn [decode_safe].
  destruct (a_write a); [|cbn [f_cmd f_bars]; now rewrite (IH c st bs r1 r2)].
  unfold cfg_write. destruct (a_off a =? 4).
  - unfold write_sc. cbn [f_cmd f_status f_bars f_regs]. now rewrite (IH _ _ _ r1 r2).
  - destruct (is_bar_off (a_off a)).
    + unfold set_bar. cbn [f_cmd f_status f_bars f_regs]. now rewrite (IH _ _ _ r1 r2).
    + cbn [f_cmd f_status f_bars f_regs]. now rewrite (IH _ _ _ (updN r1 (a_off a / 4) (w32 (a_val a))) (updN r2 (a_off a / 4) (w32 (a_val a)))).
Qed.

(* ---- clause (c) on the model: bar_info writes the command register and BAR registers only ---- *)
Definition only_cmd_bars (tr : list acc) : bool :=
  forallb (fun a => negb (a_write a) || is_bar_off (a_off a) || (a_off a =? 4)) tr.

Lemma ocb_rd s off : only_cmd_bars (snd (snd (rd s off))) = only_cmd_bars (snd s).
Proof. unfold rd, only_cmd_bars. cbn [snd a_write]. rewrite forallb_app. cbn [forallb a_write negb orb]. now rewrite !andb_true_r. Qed.
Lemma ocb_wr s off v : is_bar_off off || (off =? 4) = true -> only_cmd_bars (snd (wr s off v)) = only_cmd_bars (snd s).
Proof.
  intros H. unfold wr, only_cmd_bars. cbn [snd]. rewrite forallb_app. cbn [forallb a_write a_off negb orb].
  rewrite H. now rewrite !andb_true_r.
Qed.
Lemma ocb_set_command s c : only_cmd_bars (snd (set_command s c)) = only_cmd_bars (snd s).
Proof. unfold set_command. apply ocb_wr. reflexivity. Qed.

Lemma ocb_finish szf restore off a b c s :
  is_bar_off off = true -> only_cmd_bars (snd s) = true -> only_cmd_bars (snd (bar_finish szf restore off a b c s)) = true.
Proof.
  intros Ho Hs. unfold bar_finish, fin. cbn [snd].
  destruct restore as [cm|]; [rewrite ocb_set_command|]; (rewrite ocb_wr; [exact Hs|now rewrite Ho]).
Qed.

Lemma ocb_probe szf restore off i bar_orig s :
  is_bar_off off = true -> ((N.land bar_orig 7 =? 4) = true -> is_bar_off (16 + 4 * (i + 1)) = true) ->
  only_cmd_bars (snd s) = true -> only_cmd_bars (snd (bar_probe szf false restore off i bar_orig s)) = true.
Proof.
  intros Ho H1 Hs. unfold bar_probe. cbn [andb].
  destruct (N.land bar_orig 7 =? 4) eqn:E.
  - specialize (H1 eq_refl). apply ocb_finish; [exact Ho|].
    rewrite ocb_wr by (now rewrite H1). rewrite ocb_rd. rewrite ocb_wr by (now rewrite H1). rewrite ocb_rd, ocb_rd.
    rewrite ocb_wr by (now rewrite Ho). exact Hs.
  - apply ocb_finish; [exact Ho|]. rewrite ocb_rd. rewrite ocb_wr by (now rewrite Ho). exact Hs.
Qed.

Lemma bar_off_is_bar i : i < 6 -> is_bar_off (16 + 4 * i) = true.
Proof. intros H. unfold is_bar_off. lia. Qed.

Theorem bar_info_writes_only_cmd_bars szf m d i : i < 6 -> only_cmd_bars (snd (bar_info_gen szf m d i)) = true.
Proof.
  intros Hi. unfold bar_info_gen. rewrite (bar_off_small m i Hi).
  set (s0 := (d, []) : st).
  destruct ((N.land (fst (rd s0 (16 + 4 * i))) 7 =? 4) && (5 <=? i)) eqn:E.
  - unfold fin. cbn [snd]. now rewrite ocb_rd.
  - apply ocb_probe.
    + apply bar_off_is_bar. exact Hi.
    + intros E4. rewrite E4 in E. cbn [andb] in E. apply bar_off_is_bar. lia.
    + destruct (negb _); [rewrite ocb_set_command|]; now rewrite !ocb_rd.
Qed.

(* COMPLETENESS of 1253: the line built from the model's own trace - function before the call, number of accesses, the
   accesses with the command register in force - for ANY function and register *)
Definition enc_fn (d : pcifn) : list N := f_cmd d :: f_status d :: flat_slots (f_bars d).

Theorem mon1253_holds_of_model m d i :
  lenN (f_bars d) = 6 -> i < 6 -> f_cmd d < 65536 -> bars_lt32 d ->
  let tr := snd (bar_info m d i) in
  mon_decode (enc_fn d ++ lenN tr :: enc_trace tr) = [1].
Proof.
  intros Hlen Hi Hc Hv. cbv zeta.
  pose proof (bar_info_writes_only_cmd_bars bar_size m d i Hi) as Hw. fold (bar_info m d i) in Hw.
  destruct (bar_info_no_side_effects m d i Hlen Hi Hc Hv) as (r & tr & E & S1 & S2). rewrite E in *. cbn [snd] in *.
  assert (Hl : length (f_bars d) = 6%nat) by (unfold lenN in Hlen; lia).
  unfold mon_decode, enc_fn. cbn [app]. rewrite (take_fn_enc _ _ _ _ Hl).
  rewrite pcnt_len by (rewrite lenN_enc_trace; lia). rewrite dec_trace_enc by lia.
  rewrite N.eqb_refl, S1. cbn [andb].
  assert (D : decode_safe (bar_vals (mkFn (f_cmd d) (f_status d) (f_bars d) [])) (mkFn (f_cmd d) (f_status d) (f_bars d) []) tr = true).
  { unfold bar_vals. cbn [f_bars]. rewrite (decode_safe_regs _ tr _ _ _ [] (f_regs d)). destruct d; exact S2. }
  rewrite D. cbn [andb]. unfold only_cmd_bars in Hw. rewrite Hw. reflexivity.
Qed.

(* ------------------------------------------------------------------------------------------------ *)
(* kind 1254: bars() reports every BAR of the layout as it is                                        *)
(* the slots at which a BAR starts when the layout is read from slot 0: a 64-bit BAR takes two *)
Inductive starts_from (bs : list slot) : N -> N -> Prop :=
| sf_here i : starts_from bs i i
| sf_next i t j : i < 6 -> slot_truth bs i = Some t -> starts_from bs (i + (if takes_two t then 2 else 1)) j -> starts_from bs i j.

Lemma bars_truth_sound bs obs : forall fuel i, bars_truth fuel bs i obs = true -> 6 <= i + N.of_nat fuel ->
  forall j, starts_from bs i j -> j < 6 -> forall t, slot_truth bs j = Some t ->
    nthN obs j [] = enc_info t /\ (takes_two t = true -> nthN obs (j + 1) [] = enc_info None).
Proof.
  induction fuel as [|f IH]; intros i H Hf j Hr Hj t Ht.
  - inversion Hr; subst; lia.
  - cbn [bars_truth] in H. destruct (N.leb_spec 6 i) as [H6|H6]; [inversion Hr; subst; lia|].
    destruct (slot_truth bs i) as [t0|] eqn:E0.
    2:{ inversion Hr; subst; congruence. }
    apply andb_prop in H. destruct H as [H1 H2]. apply list_eqb_eq in H1.
    inversion Hr as [|? t1 ? _ Et1 Hr']; subst.
    + assert (t0 = t) by congruence. subst t0. split; [now symmetry|]. intros Ht2. rewrite Ht2 in H2.
      apply andb_prop in H2. destruct H2 as [H2 _]. apply list_eqb_eq in H2. now symmetry.
    + assert (t1 = t0) by congruence. subst t1.
      destruct (takes_two t0).
      * apply andb_prop in H2. destruct H2 as [_ H2]. apply (IH (i + 2) H2 ltac:(lia) j Hr' Hj t Ht).
      * apply (IH (i + 1) H2 ltac:(lia) j Hr' Hj t Ht).
Qed.

Lemma chunk5_concat : forall infos fuel, Forall (fun c : list N => length c = 5%nat) infos -> (length infos <= fuel)%nat ->
  chunk5 fuel (concat infos) = infos.
Proof.
  induction infos as [|c t IH]; intros fuel Hall Hf; [destruct fuel; reflexivity|].
  inversion Hall as [|? ? Hc Ht]; subst. destruct fuel as [|fuel]; [cbn in Hf; lia|].
  destruct c as [|a [|b [|c0 [|d0 [|e [|x r]]]]]]; try discriminate Hc.
  cbn [concat app chunk5]. rewrite IH; [reflexivity|exact Ht|cbn in Hf; lia].
Qed.

(* MEANING.  bs = the six BAR registers, infos = the six reported entries (kind 1 memory | 2 I/O | 0 absent; type;
   prefetchable; address; size).  Reading the layout from slot 0 for as long as the registers describe BARs: every BAR is
   reported in its own slot exactly as it is, and the slot after a 64-bit BAR is reported absent. *)
Theorem mon_bars_truth_meaning bs infos :
  length bs = 6%nat -> length infos = 6%nat -> Forall (fun c : list N => length c = 5%nat) infos ->
  mon_bars_truth (flat_slots bs ++ concat infos) = [1] ->
  forall j, starts_from bs 0 j -> j < 6 -> forall t, slot_truth bs j = Some t ->
    nthN infos j [] = enc_info t /\ (takes_two t = true -> nthN infos (j + 1) [] = enc_info None).
Proof.
  intros Hb Hi Hall H. unfold mon_bars_truth in H.
  pose proof (take_slots_flat bs (concat infos)) as T. rewrite Hb in T. rewrite T in H.
  apply b2n_1 in H. apply andb_prop in H. destruct H as [_ H]. rewrite chunk5_concat in H by (auto; lia).
  exact (bars_truth_sound bs infos 6 0 H ltac:(lia)).
Qed.

Theorem mon_bars_truth_decodes ins : mon_bars_truth ins = [1] ->
  exists bs obs, ins = flat_slots bs ++ obs /\ length bs = 6%nat /\ length obs = 30%nat.
Proof.
  unfold mon_bars_truth. destruct (take_slots 6 ins) as [bs obs] eqn:E. intros H. apply b2n_1 in H.
  destruct (take_slots_inv _ _ _ _ E) as (E1 & _).
  apply andb_prop in H. destruct H as [H _]. apply andb_prop in H. destruct H as [H1 H2].
  exists bs, obs. unfold lenN in *. repeat split; [exact E1|lia|lia].
Qed.

(* COMPLETENESS: bars() of the model on a function whose six registers are any sequence of well-formed BARs *)
Lemma nthN_app_len {A} (pre : list A) x rest d : nthN (pre ++ x :: rest) (N.of_nat (length pre)) d = x.
Proof. unfold nthN. rewrite Nat2N.id, app_nth2, Nat.sub_diag by lia. reflexivity. Qed.

Lemma bars_truth_layout d : lenN (f_bars d) = 6 ->
  forall L fuel n pre rest,
  Forall spec_ok L -> skipn n (f_bars d) = layout_slots L -> length pre = n -> (length L <= fuel)%nat ->
  bars_truth fuel (f_bars d) (N.of_nat n) (map enc_info (pre ++ layout_truth L ++ rest)) = true.
Proof.
  intros Hlen. assert (Hlen' : length (f_bars d) = 6%nat) by (unfold lenN in Hlen; lia).
  induction L as [|s L IH]; intros fuel n pre rest Hok Hsk Hpre Hfuel.
  - cbn [layout_slots map concat] in Hsk.
    assert (Hn : (6 <= n)%nat).
    { destruct (Nat.lt_ge_cases n 6) as [Hl|Hl]; [|exact Hl].
      assert (length (skipn n (f_bars d)) = (6 - n)%nat) by (rewrite skipn_length; lia).
      rewrite Hsk in H. cbn [length] in H. lia. }
    destruct fuel; cbn [bars_truth]; [reflexivity|]. replace (6 <=? N.of_nat n) with true by lia. reflexivity.
  - apply Forall_cons_iff in Hok. destruct Hok as [Hs HL].
    unfold layout_slots in Hsk. cbn [map concat] in Hsk. fold (layout_slots L) in Hsk.
    destruct fuel as [|fuel]; [cbn in Hfuel; lia|].
    assert (Hstep : exists x r, spec_slots s ++ layout_slots L = x :: r) by (destruct s; cbn; eauto).
    destruct Hstep as (x0 & r0 & Ex). rewrite Ex in Hsk.
    pose proof (skipn_lt _ _ _ _ Hsk) as Hn6. rewrite Hlen' in Hn6.
    cbn [bars_truth]. replace (6 <=? N.of_nat n) with false by lia.
    assert (Hpl : placed d (N.of_nat n) s /\ skipn (n + (if spec_two s then 2 else 1)) (f_bars d) = layout_slots L).
    { unfold placed, bar_at, nthN. rewrite Nat2N.id.
      destruct s as [|k m0 a|ty pf k m0 a|pf k m0 a]; cbn [spec_slots spec_two app] in *;
        inversion Ex; subst x0 r0;
        destruct (skipn_nth dslot _ _ _ _ Hsk) as [E1 E2].
      1-3: (repeat split; [lia|exact E1|rewrite Nat.add_1_r; exact E2]).
      destruct (skipn_nth dslot _ _ _ _ E2) as [E3 E4].
      pose proof (skipn_lt _ _ _ _ E2) as Hn5. rewrite Hlen' in Hn5.
      replace (N.to_nat (N.of_nat n + 1)) with (S n) by lia.
      repeat split; [lia|exact E1|exact E3|replace (n + 2)%nat with (S (S n)) by lia; exact E4]. }
    destruct Hpl as (Hpl & Hsk').
    rewrite (slot_truth_placed d (N.of_nat n) s Hs Hpl), (takes_two_truth s Hs).
    unfold layout_truth. cbn [map concat]. fold (layout_truth L).
    rewrite <- !app_assoc. cbn [app]. rewrite !map_app. cbn [map].
    assert (Hp' : length (map enc_info pre) = n) by (now rewrite map_length).
    rewrite <- Hp' at 1. rewrite nthN_app_len, list_eqb_refl. cbn [andb].
    destruct (spec_two s) eqn:E2.
    + cbn [app map].
      replace (map enc_info pre ++ enc_info (spec_truth s) :: enc_info None :: map enc_info (layout_truth L ++ rest))
        with ((map enc_info pre ++ [enc_info (spec_truth s)]) ++ enc_info None :: map enc_info (layout_truth L ++ rest))
        by (now rewrite <- app_assoc).
      replace (N.of_nat n + 1) with (N.of_nat (length (map enc_info pre ++ [enc_info (spec_truth s)])))
        by (rewrite app_length, Hp'; cbn [length]; lia).
      rewrite nthN_app_len, list_eqb_refl. cbn [andb].
      match goal with |- bars_truth _ _ ?ix ?l = true =>
        replace ix with (N.of_nat (n + 2)) by (rewrite ?app_length, ?Hp'; cbn [length]; lia);
        replace l with (map enc_info ((pre ++ [spec_truth s; None]) ++ layout_truth L ++ rest))
          by (rewrite !map_app, <- !app_assoc; reflexivity) end.
      apply IH; [exact HL|exact Hsk'|rewrite app_length; cbn [length]; lia|cbn in Hfuel; lia].
    + cbn [app map].
      match goal with |- bars_truth _ _ ?ix ?l = true =>
        replace ix with (N.of_nat (n + 1)) by lia;
        replace l with (map enc_info ((pre ++ [spec_truth s]) ++ layout_truth L ++ rest))
          by (rewrite !map_app, <- !app_assoc; reflexivity) end.
      apply IH; [exact HL|exact Hsk'|rewrite app_length; cbn [length]; lia|cbn in Hfuel; lia].
Qed.

Theorem mon1254_holds_of_model m d L :
  f_bars d = layout_slots L -> lenN (f_bars d) = 6 -> Forall spec_ok L -> f_cmd d < 65536 ->
  exists infos, fst (fst (bars m d)) = Ok infos
    /\ mon_bars_truth (flat_slots (f_bars d) ++ concat (map enc_info infos)) = [1].
Proof.
  intros Hb Hlen Hok Hc. destruct (bars_correct m d L Hb Hlen Hok Hc) as (tr & E & _).
  exists (layout_truth L). rewrite E. split; [reflexivity|].
  assert (Hl : length (f_bars d) = 6%nat) by (unfold lenN in Hlen; lia).
  (* bars() returns an array of six *)
  assert (H6 : length (layout_truth L) = 6%nat).
  { assert (G : length (layout_truth L) = length (layout_slots L)).
    { clear. induction L as [|s L IH]; [reflexivity|]. unfold layout_truth, layout_slots in *. cbn [map concat].
      rewrite !app_length, IH. destruct s; reflexivity. }
    rewrite G, <- Hb. exact Hl. }
  unfold mon_bars_truth. pose proof (take_slots_flat (f_bars d) (concat (map enc_info (layout_truth L)))) as T.
  rewrite Hl in T. rewrite T.
  assert (HL : (length L <= 6)%nat).
  { assert (H : (length L <= length (layout_slots L))%nat).
    { clear. induction L as [|s L IH]; cbn; [lia|]. unfold layout_slots in *. cbn [map concat].
      rewrite app_length. destruct s; cbn [spec_slots length]; lia. }
    rewrite <- Hb in H. lia. }
  assert (A5 : Forall (fun c : list N => length c = 5%nat) (map enc_info (layout_truth L))).
  { apply Forall_forall. intros c Hc5. apply in_map_iff in Hc5. destruct Hc5 as (x & <- & _). destruct x as [[? ? ? ?|? ?]|]; reflexivity. }
  rewrite chunk5_concat by (auto; rewrite map_length; lia).
  pose proof (bars_truth_layout d Hlen L 6 0 [] [] Hok Hb eq_refl HL) as B. cbn [app] in B. rewrite app_nil_r in B.
  change (N.of_nat 0) with 0 in B. rewrite B.
  replace (lenN (f_bars d) =? 6) with true by lia.
  assert (L30 : lenN (concat (map enc_info (layout_truth L))) = 30).
  { assert (G : forall l : list (list N), Forall (fun c => length c = 5%nat) l -> length (concat l) = (5 * length l)%nat).
    { induction 1 as [|c t Hc5 _ IH]; [reflexivity|]. cbn [concat length]. rewrite app_length, IH, Hc5. lia. }
    unfold lenN. rewrite (G _ A5), map_length, H6. reflexivity. }
  rewrite L30. reflexivity.
Qed.

(* ------------------------------------------------------------------------------------------------ *)
(* kind 1205: cam_offset / MmioCam                                                                   *)
(* MEANING: [ecam; bus; device; function; register; class (0 Ok, 2 refused); offset] for a request the code must serve
   (bus, register < 256; device < 32; function < 8; register 4-aligned): it was served, and the offset is EXACTLY the
   mixed-radix number ((bus * 32 + device) * 8 + function) * stride + register - hence inside the window, 4-aligned, and
   different for different requests (mon_cam_injective) *)
Theorem mon_cam_meaning e b d f r cls off :
  mon_cam [e; b; d; f; r; cls; off] = [1] ->
  b < 256 -> d < 32 -> f < 8 -> r < 256 -> r mod 4 = 0 ->
  let stride := if n2b e then 4096 else 256 in
  cls = 0 /\ off = ((b * 32 + d) * 8 + f) * stride + r
  /\ off < (if n2b e then 268435456 else 16777216) /\ off mod 4 = 0.
Proof.
  unfold mon_cam. intros H Hb Hd Hf Hr Ha. apply b2n_1 in H.
  replace ((b <? 256) && (d <? 32) && (f <? 8) && (r <? 256) && (r mod 4 =? 0)) with true in H by lia.
  unfold cam_size in H. destruct (n2b e); cbv zeta; lia.
Qed.

(* for any other request: refused, or at least an aligned offset inside the window *)
Theorem mon_cam_meaning_invalid e b d f r cls off :
  mon_cam [e; b; d; f; r; cls; off] = [1] ->
  ~ (b < 256 /\ d < 32 /\ f < 8 /\ r < 256 /\ r mod 4 = 0) ->
  cls = 2 \/ (off < (if n2b e then 268435456 else 16777216) /\ off mod 4 = 0).
Proof.
  unfold mon_cam. intros H Hn. apply b2n_1 in H.
  replace ((b <? 256) && (d <? 32) && (f <? 8) && (r <? 256) && (r mod 4 =? 0)) with false in H by lia.
  unfold cam_size in H. destruct (n2b e); lia.
Qed.

Theorem mon_cam_decodes ins : mon_cam ins = [1] -> exists e b d f r cls off, ins = [e; b; d; f; r; cls; off].
Proof.
  unfold mon_cam. destruct ins as [|x0 [|x1 [|x2 [|x3 [|x4 [|x5 [|x6 [|x7 t]]]]]]]]; intros H; try discriminate H.
  now exists x0, x1, x2, x3, x4, x5, x6.
Qed.

(* two accepted lines for valid requests under the same mechanism with the same offset are the same request *)
Theorem mon_cam_injective e b1 d1 f1 r1 c1 b2 d2 f2 r2 c2 off :
  mon_cam [e; b1; d1; f1; r1; c1; off] = [1] -> mon_cam [e; b2; d2; f2; r2; c2; off] = [1] ->
  b1 < 256 -> d1 < 32 -> f1 < 8 -> r1 < 256 -> r1 mod 4 = 0 ->
  b2 < 256 -> d2 < 32 -> f2 < 8 -> r2 < 256 -> r2 mod 4 = 0 ->
  b1 = b2 /\ d1 = d2 /\ f1 = f2 /\ r1 = r2.
Proof.
  intros H1 H2 A1 A2 A3 A4 A5 B1 B2 B3 B4 B5.
  destruct (mon_cam_meaning _ _ _ _ _ _ _ H1 A1 A2 A3 A4 A5) as (_ & E1 & _).
  destruct (mon_cam_meaning _ _ _ _ _ _ _ H2 B1 B2 B3 B4 B5) as (_ & E2 & _).
  cbv zeta in *. destruct (n2b e); lia.
Qed.

(* COMPLETENESS: cam_offset of the model, both mechanisms, every request with bus and register in u8 (as the types say) *)
Definition cam_class (o : outcome N) : N := match o with Ok _ => 0 | _ => 2 end.
Definition cam_value (o : outcome N) : N := match o with Ok a => a | _ => 0 end.

Theorem mon1205_holds_of_model ecam b d f r : b < 256 -> r < 256 ->
  mon_cam [b2n ecam; b; d; f; r; cam_class (cam_offset ecam b d f r); cam_value (cam_offset ecam b d f r)] = [1].
Proof.
  intros Hb Hr. unfold mon_cam. replace (n2b (b2n ecam)) with ecam by (destruct ecam; reflexivity).
  destruct ((b <? 256) && (d <? 32) && (f <? 8) && (r <? 256) && (r mod 4 =? 0)) eqn:Ev.
  - assert (Hr' : r < cam_shift ecam) by (unfold cam_shift; destruct ecam; lia).
    apply andb_prop in Ev. destruct Ev as [Ev E5]. apply andb_prop in Ev. destruct Ev as [Ev _].
    apply andb_prop in Ev. destruct Ev as [Ev E3]. apply andb_prop in Ev. destruct Ev as [_ E2].
    apply N.eqb_eq in E5. apply N.ltb_lt in E3. apply N.ltb_lt in E2.
    destruct (cam_offset_ok ecam b d f r Hb E2 E3 Hr' E5) as (E & Hlt & H4).
    rewrite E. cbn [cam_class cam_value]. unfold cam_shift, cam_size in *. change [1] with [b2n true].
    destruct ecam; do 2 f_equal; cbn [N.eqb andb]; lia.
  - assert (P : cam_offset ecam b d f r = Panic) by (apply (cam_offset_refuses ecam b d f r Hb Hr); lia).
    rewrite P. reflexivity.
Qed.

(* kind 1207: the whole space swept by the harness: [ecam; tuples; distinct offsets; outside the window; misaligned; refused] *)
Theorem mon_cam_all_meaning e n distinct oob mis refused :
  mon_cam_all [e; n; distinct; oob; mis; refused] = [1] ->
  n = 256 * 32 * 8 * 64 /\ distinct = n /\ oob = 0 /\ mis = 0 /\ refused = 0.
Proof. unfold mon_cam_all. intros H. apply b2n_1 in H. lia. Qed.

(* ------------------------------------------------------------------------------------------------ *)
(* kind 1255: bus enumeration                                                                        *)
From Coq Require Import Sorted.
Definition popent : Type := (N * N * (N * N * N))%type.
Fixpoint flat_pop (p : list popent) : list N :=
  match p with [] => [] | (d, f, (a, b, c)) :: t => d :: f :: a :: b :: c :: flat_pop t end.
(* strictly increasing *)
Definition increasing (l : list N) : Prop := StronglySorted N.lt l.
Definition item10 : Type := (N * N * N * N * N * N * N * N * N * N)%type.
Fixpoint flat_items (l : list item10) : list N :=
  match l with
  | [] => []
  | (b, d, fn, ven, dv, cl, sc, pi, rev, hdr) :: t => b :: d :: fn :: ven :: dv :: cl :: sc :: pi :: rev :: hdr :: flat_items t
  end.
Definition it_key (it : item10) : N * N := match it with (_, d, fn, _, _, _, _, _, _, _) => (d, fn) end.
Definition it_pos (it : item10) : N := match it with (_, d, fn, _, _, _, _, _, _, _) => d * 8 + fn end.
Definition pop_key (e : popent) : N * N := match e with (d, f, _) => (d, f) end.
Definition pop_present (e : popent) : bool := let '(d, f, (a, _, _)) := e in negb (a =? ones32) && (d <? 32) && (f <? 8).

(* one reported item against the population: the right bus; a listed function that answers (first word not all ones);
   vendor / device id, class, subclass, prog-if, revision, header type (7 bits) from the right bit ranges *)
Definition item_fact (p : list popent) (bus : N) (it : item10) : Prop :=
  match it with
  | (b, d, fn, ven, dv, cl, sc, pi, rev, hdr) =>
      b = bus /\ d < 32 /\ fn < 8
      /\ exists w0 w2 w3, In (d, fn, (w0, w2, w3)) p /\ w0 <> 4294967295
           /\ ven = w0 mod 65536 /\ dv = (w0 / 65536) mod 65536
           /\ cl = (w2 / 16777216) mod 256 /\ sc = (w2 / 65536) mod 256 /\ pi = (w2 / 256) mod 256 /\ rev = w2 mod 256
           /\ hdr = (w3 / 65536) mod 128
  end.

Lemma take_pop_flat p r : take_pop (length p) (flat_pop p ++ r) = (p, r).
Proof.
  induction p as [|[[d f] [[a b] c]] t IH]; cbn [length flat_pop app take_pop]; [now destruct r|]. now rewrite IH.
Qed.
Lemma lenN_flat_pop p : lenN (flat_pop p) = 5 * lenN p.
Proof. induction p as [|[[d f] [[a b] c]] t IH]; [reflexivity|]. cbn [flat_pop]. rewrite !lenN_cons, IH. lia. Qed.
Lemma take_pop_inv : forall k l x y, take_pop k l = (x, y) -> l = flat_pop x ++ y /\ (length x <= k)%nat.
Proof.
  induction k as [|k IH]; intros l x y H.
  - cbn [take_pop] in H. assert (E : ([] : list popent, l) = (x, y)) by (destruct l; exact H). inversion E; subst. split; auto.
  - destruct l as [|a [|b [|c [|d [|e r]]]]]; cbn [take_pop] in H; try (inversion H; subst; split; cbn; auto; lia).
    destruct (take_pop k r) as [x' y'] eqn:E. inversion H; subst. destruct (IH _ _ _ E) as (E1 & E2).
    cbn [flat_pop app length]. split; [now rewrite E1 at 1|lia].
Qed.

Lemma pop_find_in p d f w : pop_find p d f = Some w -> In (d, f, w) p.
Proof.
  induction p as [|[[d0 f0] w0] t IH]; cbn [pop_find]; [discriminate|].
  destruct ((d0 =? d) && (f0 =? f)) eqn:E.
  - intros H. inversion H; subst. left. apply andb_prop in E. destruct E as [E1 E2].
    apply N.eqb_eq in E1. apply N.eqb_eq in E2. now subst.
  - intros H. right. now apply IH.
Qed.

Lemma items_ok_inv p bus : forall fuel last l, items_ok fuel p bus last l = true ->
  exists its, l = flat_items its /\ (length its <= fuel)%nat
    /\ Forall (item_fact p bus) its
    /\ StronglySorted N.lt (map it_pos its) /\ Forall (fun it => last <= it_pos it) its.
Proof.
  induction fuel as [|fuel IH]; intros last l H.
  - destruct l; [|discriminate H]. exists []. repeat split; auto; constructor.
  - destruct l as [|b [|d [|fn [|ven [|dv [|cl [|sc [|pi [|rev [|hdr r]]]]]]]]]]; try discriminate H.
    { exists []. repeat split; auto; try constructor. cbn. lia. }
    cbn [items_ok] in H. apply andb_prop in H. destruct H as [H Hrest].
    apply andb_prop in H. destruct H as [H Hfind]. apply andb_prop in H. destruct H as [H Hf8].
    apply andb_prop in H. destruct H as [H Hd32]. apply andb_prop in H. destruct H as [Hbus Hlast].
    destruct (pop_find p d fn) as [[[w0 w2] w3]|] eqn:Ef; [|discriminate Hfind].
    apply N.eqb_eq in Hbus. apply N.ltb_lt in Hlast. apply N.ltb_lt in Hd32. apply N.ltb_lt in Hf8.
    apply andb_prop in Hfind. destruct Hfind as [Hfind G8]. apply andb_prop in Hfind. destruct Hfind as [Hfind G7].
    apply andb_prop in Hfind. destruct Hfind as [Hfind G6]. apply andb_prop in Hfind. destruct Hfind as [Hfind G5].
    apply andb_prop in Hfind. destruct Hfind as [Hfind G4]. apply andb_prop in Hfind. destruct Hfind as [Hfind G3].
    apply andb_prop in Hfind. destruct Hfind as [G1 G2].
    apply negb_true_iff in G1. apply N.eqb_neq in G1. unfold ones32 in G1.
    apply N.eqb_eq in G2. apply N.eqb_eq in G3. apply N.eqb_eq in G4. apply N.eqb_eq in G5. apply N.eqb_eq in G6.
    apply N.eqb_eq in G7. apply N.eqb_eq in G8.
    destruct (IH _ _ Hrest) as (its & -> & Hlen & Hfacts & Hsort & Hge).
    exists ((b, d, fn, ven, dv, cl, sc, pi, rev, hdr) :: its).
    split; [reflexivity|]. split; [cbn [length]; lia|]. split; [|split].
    + constructor; [|exact Hfacts]. cbn [item_fact]. split; [exact Hbus|]. split; [exact Hd32|]. split; [exact Hf8|].
      exists w0, w2, w3. split; [exact (pop_find_in _ _ _ _ Ef)|]. repeat split; assumption.
    + cbn [map]. constructor; [exact Hsort|]. rewrite Forall_map. eapply Forall_impl; [|exact Hge].
      intros it Hi. cbn [it_pos]. cbn beta in Hi. clear - Hi. lia.
    + constructor; [cbn [it_pos]; clear - Hlast; lia|]. eapply Forall_impl; [|exact Hge]. intros it Hi. cbn beta in Hi. clear - Hi Hlast. lia.
Qed.

Lemma SSorted_lt_NoDup l : StronglySorted N.lt l -> NoDup l.
Proof.
  induction 1 as [|a l _ IH Hall]; constructor; [|exact IH].
  intro Hin. rewrite Forall_forall in Hall. specialize (Hall a Hin). lia.
Qed.

(* MEANING.  [bus; n; n listed functions (device, function, word 0, word 2, word 3), every other function reads all ones;
   count; count items of ten numbers].  The items are listed functions that answer, each with correctly decoded identity,
   in strictly increasing (device, function) order - so none twice -, and there are as many as listed functions that
   answer (positions below 32 x 8). *)
Theorem mon_enum_meaning bus p its :
  mon_enum (bus :: lenN p :: flat_pop p ++ lenN its :: flat_items its) = [1] ->
  Forall (item_fact p bus) its
  /\ increasing (map it_pos its)
  /\ lenN its = lenN (filter pop_present p).
Proof.
  unfold mon_enum. intros H.
  rewrite pcnt_len in H by (rewrite lenN_app, lenN_flat_pop; lia). rewrite take_pop_flat in H. apply b2n_1 in H.
  apply andb_prop in H. destruct H as [H Hok]. apply andb_prop in H. destruct H as [Hcnt _]. apply N.eqb_eq in Hcnt.
  destruct (items_ok_inv _ _ _ _ _ Hok) as (its' & E & _ & Hf & Hs & _).
  assert (Eits : its' = its).
  { clear - E. revert its' E. induction its as [|[[[[[[[[[b d] fn] ven] dv] cl] sc] pi] rev] hdr] t IH]; intros [|[[[[[[[[[b' d'] fn'] ven'] dv'] cl'] sc'] pi'] rev'] hdr'] t'] E;
      cbn [flat_items] in E; try discriminate E; [reflexivity|]. inversion E; subst. f_equal. now apply IH. }
  subst its'. split; [exact Hf|]. split; [exact Hs|].
  rewrite Hcnt. apply (f_equal (@lenN popent)). apply filter_ext. intros [[d f] [[a b] c]]. reflexivity.
Qed.

(* hence, for a population that lists no (device, function) twice: EXACTLY the functions present are reported *)
Theorem mon_enum_exact bus p its :
  mon_enum (bus :: lenN p :: flat_pop p ++ lenN its :: flat_items its) = [1] ->
  NoDup (map pop_key p) ->
  forall d f w0 w2 w3, In (d, f, (w0, w2, w3)) p -> w0 <> 4294967295 -> d < 32 -> f < 8 ->
    exists it, In it its /\ it_key it = (d, f).
Proof.
  intros H Hnd d f w0 w2 w3 Hin Hw Hd Hf.
  destruct (mon_enum_meaning bus p its H) as (Hfacts & Hsort & Hlen).
  set (pres := map pop_key (filter pop_present p)).
  assert (Hnd' : NoDup pres).
  { unfold pres. clear - Hnd. induction p as [|e t IH]; [constructor|]. cbn [map] in Hnd. inversion Hnd as [|? ? Hn Ht]; subst.
    cbn [filter]. destruct (pop_present e); [|now apply IH]. cbn [map]. constructor; [|now apply IH].
    intro Hi. apply Hn. apply in_map_iff in Hi. destruct Hi as (x & Ex & Hx). apply filter_In in Hx. apply in_map_iff. exists x. tauto. }
  assert (Hkeys_nd : NoDup (map it_key its)).
  { apply SSorted_lt_NoDup in Hsort. clear - Hsort Hfacts.
    induction its as [|it t IH]; [constructor|]. cbn [map] in *. inversion Hsort as [|? ? Hn Ht]; subst.
    inversion Hfacts as [|? ? Hf1 Hf2]; subst. constructor; [|now apply IH].
    intro Hi. apply Hn. apply in_map_iff in Hi. destruct Hi as (x & Ex & Hx). apply in_map_iff. exists x. split; [|exact Hx].
    destruct x as [[[[[[[[[b' d'] fn'] ?] ?] ?] ?] ?] ?] ?], it as [[[[[[[[[b0 d0] fn0] ?] ?] ?] ?] ?] ?] ?].
    cbn [it_key it_pos] in *. inversion Ex; subst. reflexivity. }
  assert (Hincl : incl (map it_key its) pres).
  { intros k Hk. apply in_map_iff in Hk. destruct Hk as (it & <- & Hit). rewrite Forall_forall in Hfacts. specialize (Hfacts it Hit).
    destruct it as [[[[[[[[[b0 d0] fn0] ?] ?] ?] ?] ?] ?] ?]. cbn [item_fact it_key] in *.
    destruct Hfacts as (_ & Hd0 & Hf0 & x0 & x2 & x3 & Hin0 & Hne & _).
    unfold pres. apply in_map_iff. exists (d0, fn0, (x0, x2, x3)). split; [reflexivity|]. apply filter_In. split; [exact Hin0|].
    unfold pop_present, ones32. lia. }
  assert (Hrev : incl pres (map it_key its)).
  { apply NoDup_length_incl; [exact Hkeys_nd| |exact Hincl]. unfold pres. rewrite !map_length. unfold lenN in Hlen. lia. }
  assert (Hmine : In (d, f) pres).
  { unfold pres. apply in_map_iff. exists (d, f, (w0, w2, w3)). split; [reflexivity|]. apply filter_In. split; [exact Hin|].
    unfold pop_present, ones32. lia. }
  apply Hrev in Hmine. apply in_map_iff in Hmine. destruct Hmine as (it & E & Hit). now exists it.
Qed.

Theorem mon_enum_decodes ins : mon_enum ins = [1] ->
  exists bus n p its, ins = bus :: n :: flat_pop p ++ lenN its :: flat_items its /\ lenN p <= n.
Proof.
  unfold mon_enum. destruct ins as [|bus [|n r]]; try (intros H; discriminate H).
  destruct (take_pop (pcnt n r) r) as [p rest] eqn:E. destruct (take_pop_inv _ _ _ _ E) as (E1 & E2).
  destruct rest as [|cnt items]; [intros H; discriminate H|]. intros H. apply b2n_1 in H.
  apply andb_prop in H. destruct H as [H Hok]. apply andb_prop in H. destruct H as [_ Hlen]. apply N.eqb_eq in Hlen.
  destruct (items_ok_inv _ _ _ _ _ Hok) as (its & -> & Hl & _).
  exists bus, n, p, its. split.
  - rewrite E1. do 3 f_equal.
    assert (L : lenN (flat_items its) = 10 * lenN its).
    { clear. induction its as [|[[[[[[[[[b d] fn] ven] dv] cl] sc] pi] rev] hdr] t IH]; [reflexivity|].
      cbn [flat_items]. rewrite !lenN_cons, IH. lia. }
    assert (cnt = lenN its) by lia. now subst.
  - unfold pcnt in E2. pose proof (N.le_min_l n (lenN r)) as M. clear - E2 M. unfold lenN, popent in *. lia.
Qed.

(* ------------------------------------------------------------------------------------------------ *)
(* kind 1256: capability walk                                                                        *)
Fixpoint flat3 (l : list (N * N * N)) : list N :=
  match l with [] => [] | (o, i, p) :: t => o :: i :: p :: flat3 t end.
Lemma length_flat3 l : length (flat3 l) = (3 * length l)%nat.
Proof. induction l as [|[[o i] p] t IH]; [reflexivity|]. cbn [flat3 length]. lia. Qed.
Lemma flat3_inj : forall a b, flat3 a = flat3 b -> a = b.
Proof.
  induction a as [|[[o i] p] a IH]; intros [|[[o' i'] p'] b] H; cbn [flat3] in H; try discriminate H; [reflexivity|].
  inversion H; subst. f_equal. now apply IH.
Qed.
Lemma enc_caps_flat3 l : enc_caps l = flat3 l.
Proof. induction l as [|[[o i] p] t IH]; [reflexivity|]. unfold enc_caps in *. cbn [map concat app flat3]. now rewrite IH. Qed.

(* MEANING.  [n; the n capabilities (offset, id, private header) laid out in configuration space, in list order; count;
   the capabilities the iterator yielded]: the iterator yielded exactly the list - each capability once, in order *)
Theorem mon_caps_meaning want got cnt :
  mon_caps (lenN want :: flat3 want ++ cnt :: flat3 got) = [1] -> cnt = lenN want /\ got = want.
Proof.
  unfold mon_caps. intros H.
  assert (Hc : (3 * pcnt (lenN want) (flat3 want ++ cnt :: flat3 got))%nat = length (flat3 want)).
  { rewrite length_flat3. f_equal. apply pcnt_len. unfold lenN. rewrite app_length, length_flat3. lia. }
  rewrite Hc, take_n_app in H. apply b2n_1 in H. apply andb_prop in H. destruct H as [H1 H2].
  apply N.eqb_eq in H1. apply list_eqb_eq in H2. split; [exact H1|]. symmetry. now apply flat3_inj.
Qed.

(* every accepted list is [n; 3 n numbers; count; observed numbers], the observed numbers being those 3 n *)
Theorem mon_caps_decodes ins : mon_caps ins = [1] ->
  exists n want, ins = n :: want ++ n :: want /\ length want = (3 * N.to_nat n)%nat.
Proof.
  unfold mon_caps. destruct ins as [|n r]; [intros H; discriminate H|].
  destruct (take_n (3 * pcnt n r) r) as [want rest] eqn:E. destruct (take_n_inv _ _ _ _ E) as (E1 & E2).
  destruct rest as [|cnt got]; [intros H; discriminate H|]. intros H. apply b2n_1 in H.
  apply andb_prop in H. destruct H as [H1 H2]. apply N.eqb_eq in H1. apply list_eqb_eq in H2. subst cnt got.
  exists n, want. split; [now rewrite E1|].
  assert (L : length r = (length want + S (length want))%nat) by (rewrite E1 at 1; rewrite app_length; reflexivity).
  unfold pcnt in E2. unfold lenN in E2. lia.
Qed.

(* COMPLETENESS: the model's iterator on every well-formed list (offsets in [64,256), 4-aligned, ended by a pointer that is
   0 / below 64 / misaligned) *)
Theorem mon1256_holds_of_model rdc L term fuel :
  cap_stop term -> chain rdc L term -> (length L <= fuel)%nat ->
  (match L with
   | [] => N.land (rdc 4 / 65536) 16 = 0
   | (o, _, _) :: _ => N.land (rdc 4 / 65536) 16 <> 0 /\ (rdc 52 mod 256) / 4 * 4 = o
   end) ->
  rdc 4 < 2 ^ 32 ->
  mon_caps (lenN L :: flat3 L ++ lenN (fst (capabilities fuel rdc)) :: enc_caps (fst (capabilities fuel rdc))) = [1].
Proof.
  intros Ht Hc Hf Hh H4. rewrite (capabilities_exact rdc L term fuel Ht Hc Hf Hh H4). cbn [fst]. rewrite enc_caps_flat3.
  unfold mon_caps.
  assert (E : (3 * pcnt (lenN L) (flat3 L ++ lenN L :: flat3 L))%nat = length (flat3 L)).
  { rewrite length_flat3. f_equal. apply pcnt_len. unfold lenN. rewrite app_length, length_flat3. lia. }
  rewrite E, take_n_app, N.eqb_refl, list_eqb_refl. reflexivity.
Qed.

(* ------------------------------------------------------------------------------------------------ *)
(* ---- COMPLETENESS of 1255: the model's enumerate_bus over the population's read oracle ---- *)
Definition to_item10 (bus : N) (it : N * N * dfinfo) : item10 :=
  let '(d, f, i) := it in (bus, d, f, i_vendor i, i_device i, i_class i, i_subclass i, i_prog_if i, i_revision i, i_header i).

Lemma enc_items_flat bus l : concat (map (enc_item bus) l) = flat_items (map (to_item10 bus) l).
Proof. induction l as [|[[d f] i] t IH]; [reflexivity|]. cbn [map concat enc_item to_item10 flat_items app]. now rewrite IH. Qed.

Lemma lenN_flat_items its : lenN (flat_items its) = 10 * lenN its.
Proof.
  induction its as [|[[[[[[[[[b d] fn] ven] dv] cl] sc] pi] rev] hdr] t IH]; [reflexivity|].
  cbn [flat_items]. rewrite !lenN_cons, IH. lia.
Qed.

(* the oracle against the first listed entry *)
Lemma pop_read_find p d f off :
  pop_read p d f off = match pop_find p d f with
                       | Some (a, b, c) => if off =? 0 then a else if off =? 8 then b else if off =? 12 then c else 0
                       | None => ones32 end.
Proof.
  induction p as [|[[d0 f0] [[a b] c]] t IH]; [reflexivity|]. cbn [pop_read pop_find].
  destruct ((d0 =? d) && (f0 =? f)); [reflexivity|exact IH].
Qed.
Lemma pop_find_none p d f : ~ In (d, f) (map pop_key p) -> pop_find p d f = None.
Proof.
  induction p as [|[[d0 f0] w] t IH]; [reflexivity|]. cbn [map pop_key pop_find]. intros Hn.
  destruct ((d0 =? d) && (f0 =? f)) eqn:E.
  - exfalso. apply Hn. left. apply andb_prop in E. destruct E as [E1 E2]. apply N.eqb_eq in E1. apply N.eqb_eq in E2. now subst.
  - apply IH. intro Hi. apply Hn. now right.
Qed.

(* one item of the model is accepted by the monitor's per-item test *)
Lemma item_fields w0 w2 w3 :
  let i := decode_info w0 w2 w3 in
  i_vendor i = w0 mod 65536 /\ i_device i = (w0 / 65536) mod 65536
  /\ i_class i = (w2 / 16777216) mod 256 /\ i_subclass i = (w2 / 65536) mod 256
  /\ i_prog_if i = (w2 / 256) mod 256 /\ i_revision i = w2 mod 256
  /\ i_header i = (w3 / 65536) mod 128.
Proof.
  cbv zeta. unfold decode_info. cbn [i_vendor i_device i_class i_subclass i_prog_if i_revision i_header].
  rewrite !N.shiftr_div_pow2. change 127 with (N.ones 7). rewrite N.land_ones.
  change (2 ^ 16) with 65536. change (2 ^ 24) with 16777216. change (2 ^ 8) with 256. change (2 ^ 7) with 128.
  unfold w8, w16. repeat split; try reflexivity. lia.
Qed.

Lemma items_ok_complete p bus : forall ps fuel last,
  StronglySorted N.lt ps -> Forall (fun q => last <= q /\ q < 256 /\ present (pop_read p) q = true) ps -> (length ps <= fuel)%nat ->
  items_ok fuel p bus last (flat_items (map (to_item10 bus) (map (item_at (pop_read p)) ps))) = true.
Proof.
  induction ps as [|q ps IH]; intros fuel last Hs Hall Hf; [destruct fuel; reflexivity|].
  destruct fuel as [|fuel]; [cbn in Hf; lia|].
  inversion Hs as [|? ? Hs' Hlt]; subst. inversion Hall as [|? ? (Hl & Hq & Hp) Hall']; subst.
  cbn [map item_at to_item10 flat_items items_ok].
  unfold present in Hp. rewrite pop_read_find in Hp.
  rewrite !pop_read_find.
  destruct (pop_find p (q / 8) (q mod 8)) as [[[w0 w2] w3]|] eqn:Ef; [|rewrite N.eqb_refl in Hp; discriminate Hp].
  cbn [N.eqb Pos.eqb] in *.
  destruct (item_fields w0 w2 w3) as (F1 & F2 & F3 & F4 & F5 & F6 & F7). cbv zeta in *.
  rewrite F1, F2, F3, F4, F5, F6, F7, !N.eqb_refl, Hp.
  replace (last <? 1 + q / 8 * 8 + q mod 8) with true by lia.
  replace (q / 8 <? 32) with true by lia. replace (q mod 8 <? 8) with true by lia. cbn [andb].
  apply IH; [exact Hs'| |cbn in Hf; lia].
  rewrite Forall_forall in *. intros x Hx. destruct (Hall' x Hx) as (_ & B & C). specialize (Hlt x Hx). repeat split; auto. lia.
Qed.

Lemma seqN_nodup' : forall n lo, NoDup (seqN lo n).
Proof.
  induction n as [|n IH]; intros lo; cbn [seqN]; constructor; [|apply IH]. intro H. apply seqN_in in H. lia.
Qed.

Lemma seqN_ssorted : forall n lo, StronglySorted N.lt (seqN lo n).
Proof.
  induction n as [|n IH]; intros lo; cbn [seqN]; constructor; [apply IH|].
  apply Forall_forall. intros x Hx. apply seqN_in in Hx. lia.
Qed.

(* counting: the positions that answer are as many as the listed entries that answer *)
Lemma filter_count_update (f g : N -> bool) (q0 : N) (b : bool) : forall l, NoDup l -> In q0 l -> g q0 = false ->
  (forall q, f q = if q =? q0 then b else g q) ->
  length (filter f l) = (length (filter g l) + (if b then 1 else 0))%nat.
Proof.
  induction l as [|x l IH]; intros Hnd Hin Hg Hf; [contradiction|].
  inversion Hnd as [|? ? Hnx Hnd']; subst. cbn [filter]. rewrite (Hf x).
  destruct (N.eqb_spec x q0) as [->|Hne].
  - rewrite Hg.
    assert (E : filter f l = filter g l).
    { apply filter_ext_in. intros y Hy. rewrite Hf. destruct (N.eqb_spec y q0) as [->|_]; [contradiction|reflexivity]. }
    rewrite E. destruct b; cbn [length]; lia.
  - destruct Hin as [->|Hin]; [contradiction|]. specialize (IH Hnd' Hin Hg Hf).
    destruct (g x); cbn [length]; lia.
Qed.

Lemma present_count p : NoDup (map pop_key p) ->
  length (filter (present (pop_read p)) (seqN 0 256)) = length (filter pop_present p).
Proof.
  induction p as [|[[d f] [[a b] c]] t IH]; intros Hnd.
  - cbn [filter length]. assert (E : filter (present (pop_read [])) (seqN 0 256) = filter (fun _ => false) (seqN 0 256)).
    { apply filter_ext. intros q. unfold present. cbn [pop_read]. now rewrite N.eqb_refl. }
    transitivity (length (filter (fun _ : N => false) (seqN 0 256))); [f_equal; exact E|].
    clear. induction (seqN 0 256) as [|x l IH]; [reflexivity|exact IH].
  - cbn [map pop_key] in Hnd. inversion Hnd as [|? ? Hnk Hnd']; subst. specialize (IH Hnd').
    cbn [filter pop_present].
    destruct ((d <? 32) && (f <? 8)) eqn:Ev.
    + (* the entry names a position of the bus *)
      assert (Hd : d < 32) by lia. assert (Hf : f < 8) by lia.
      rewrite (filter_count_update (present (pop_read ((d, f, (a, b, c)) :: t))) (present (pop_read t)) (d * 8 + f) (negb (a =? ones32))).
      * rewrite IH. replace (negb (a =? ones32) && (d <? 32) && (f <? 8)) with (negb (a =? ones32)) by lia.
        destruct (negb (a =? ones32)); cbn [length]; lia.
      * apply seqN_nodup'.
      * apply seqN_in. lia.
      * unfold present. replace ((d * 8 + f) / 8) with d by lia. replace ((d * 8 + f) mod 8) with f by lia.
        rewrite pop_read_find, (pop_find_none t d f Hnk). now rewrite N.eqb_refl.
      * intros q. unfold present. cbn [pop_read].
        destruct (N.eqb_spec q (d * 8 + f)) as [->|Hne].
        -- replace ((d * 8 + f) / 8) with d by lia. replace ((d * 8 + f) mod 8) with f by lia. now rewrite !N.eqb_refl.
        -- replace ((d =? q / 8) && (f =? q mod 8)) with false by lia. reflexivity.
    + replace (negb (a =? ones32) && (d <? 32) && (f <? 8)) with false by lia. rewrite <- IH.
      f_equal. apply filter_ext_in. intros q Hq. apply seqN_in in Hq. unfold present. cbn [pop_read].
      replace ((d =? q / 8) && (f =? q mod 8)) with false by lia. reflexivity.
Qed.

Theorem mon1255_holds_of_model bus p : NoDup (map pop_key p) ->
  let l := enumerate_bus (pop_read p) in
  mon_enum (bus :: lenN p :: flat_pop p ++ lenN l :: concat (map (enc_item bus) l)) = [1].
Proof.
  intros Hnd. cbv zeta. rewrite enumerate_bus_exact, enc_items_flat.
  set (ps := filter (present (pop_read p)) (seqN 0 256)).
  unfold mon_enum. rewrite pcnt_len by (rewrite lenN_app, lenN_flat_pop; lia). rewrite take_pop_flat.
  rewrite lenN_flat_items, !lenN_map.
  assert (C : lenN ps = lenN (filter (fun e : N * N * (N * N * N) => let '(d, f, (a, _, _)) := e in negb (a =? ones32) && (d <? 32) && (f <? 8)) p)).
  { unfold lenN, ps. rewrite (present_count p Hnd). reflexivity. }
  rewrite <- C, !N.eqb_refl. cbn [andb].
  rewrite items_ok_complete; [reflexivity| | |].
  - unfold ps. clear. pose proof (seqN_ssorted 256 0) as S.
    revert S. induction (seqN 0 256) as [|x l IH]; intros S; cbn [filter]; [constructor|].
    inversion S as [|? ? S' Hlt]; subst. destruct (present (pop_read p) x); [|now apply IH].
    constructor; [now apply IH|]. apply Forall_forall. intros y Hy. apply filter_In in Hy. rewrite Forall_forall in Hlt. apply Hlt. tauto.
  - apply Forall_forall. intros q Hq. unfold ps in Hq. apply filter_In in Hq. destruct Hq as [Hq Hp]. apply seqN_in in Hq. repeat split; [lia|lia|exact Hp].
  - unfold pcnt. rewrite lenN_flat_items, !lenN_map. rewrite N.min_l by lia. unfold lenN. lia.
Qed.

(* ------------------------------------------------------------------------------------------------ *)
(* AUDIT witnesses (machine-checked; discussed in the builder's report)                              *)
(* 1254 stops at the first slot whose registers do not describe a BAR (here: the reserved memory type in slot 0): a real
   4 KiB memory BAR in slot 1 reported as absent is accepted.  By design (nothing is required of a malformed layout); the real
   bars() answers such a layout with an error, and then no 1254 line is written *)
Example mon1254_stops_at_first_malformed_slot :
  mon_bars_truth (flat_slots [mkSlot 6 15 6; mkSlot 2 4095 4261412864; dslot; dslot; dslot; dslot] ++ repeat 0 30) = [1].
Proof. vm_compute. reflexivity. Qed.
(* 1255 on a population that lists one (device, function) twice - which the harness never generates: the correct answer
   (one item) is rejected because two listed entries answer *)
Example mon1255_duplicate_population_false_alarm :
  mon_enum [0; 2; 3; 1; 1; 0; 0; 3; 1; 1; 0; 0; 1; 0; 3; 1; 1; 0; 0; 0; 0; 0; 0] = [0].
Proof. vm_compute. reflexivity. Qed.
