(* C05: the notification predicate, for all 2^16 x 2^16 index pairs and every batch size. *)
From VD Require Import Base.Words Model.Queue.
From Coq Require Import ZArith Lia ZifyBool ZifyN.
Ltac Zify.zify_post_hook ::= Z.div_mod_to_equations.

Lemma flag_mode s ae uf : q_event_idx s = false -> should_notify s ae uf = (N.land uf 1 =? 0).
Proof. intros H. unfold should_notify. now rewrite H. Qed.

Lemma land1_testbit uf : (N.land uf 1 =? 0) = negb (N.testbit uf 0).
Proof.
  change 1 with (N.ones 1). rewrite N.land_ones. change (2 ^ 1) with 2.
  rewrite N.bit0_odd. rewrite <- N.negb_even. rewrite Bool.negb_involutive.
  destruct (N.even uf) eqn:E.
  - apply N.even_spec in E. destruct E as [k ->]. rewrite N.mul_comm, N.mod_mul by discriminate. reflexivity.
  - assert (O : N.odd uf = true) by (rewrite <- N.negb_even, E; reflexivity).
    apply N.odd_spec in O. destruct O as [k ->].
    replace (2 * k + 1) with (1 + k * 2) by lia. rewrite N.mod_add by discriminate. reflexivity.
Qed.

(* the specification's predicate implies the driver's, whenever the entries made available since the
   last check are between 1 and 2^15 (the largest queue) *)
Lemma event_mode_sound avail old ev :
  avail < two16 -> old < two16 -> ev < two16 ->
  1 <= sub16 avail old <= 32768 ->
  need_event ev avail old = true ->
  (sub16 avail (add16 (w16 ev) 1) <? 32768) = true.
Proof.
  unfold need_event, sub16, add16, w16, two16. intros Ha Ho He Hb Hn. lia.
Qed.

Lemma event_mode s ae uf old :
  q_event_idx s = true -> q_avail_idx s < two16 -> old < two16 ->
  1 <= sub16 (q_avail_idx s) old <= 32768 ->
  need_event (w16 ae) (q_avail_idx s) old = true ->
  should_notify s ae uf = true.
Proof.
  intros He Ha Ho Hb Hn. unfold should_notify. rewrite He.
  assert (Hw : w16 ae < two16) by (unfold w16, two16; apply N.mod_lt; discriminate).
  pose proof (event_mode_sound (q_avail_idx s) old (w16 ae) Ha Ho Hw Hb Hn) as H.
  replace (w16 (w16 ae)) with (w16 ae) in H by (unfold w16; now rewrite N.mod_mod).
  exact H.
Qed.

(* the comparison used before the repair is refuted by a concrete reachable triple *)
Lemma plain_refuted :
  exists avail old ev,
    avail < two16 /\ old < two16 /\ ev < two16 /\ 1 <= sub16 avail old <= 4
    /\ need_event ev avail old = true /\ should_notify_plain avail ev = false.
Proof. exists 0, 65533, 65533. vm_compute. repeat split; congruence. Qed.

(* away from the wrap-around the repaired and the old comparison agree *)
Lemma plain_agrees avail ev :
  avail < two16 -> ev < 65535 -> (avail + 32768 > ev + 1) -> (ev + 1 + 32768 > avail) ->
  should_notify_plain avail ev = (sub16 avail (add16 (w16 ev) 1) <? 32768).
Proof. unfold should_notify_plain, sub16, add16, w16, two16. intros. lia. Qed.

(* used_event is re-armed by every successful pop: the next completion always interrupts *)
Lemma rearm_need_event lu :
  lu < two16 -> need_event lu (w16 (lu + 1)) lu = true.
Proof. unfold need_event, sub16, w16, two16. intros. lia. Qed.

Lemma set_dev_notify_flag s en :
  q_event_idx s = false ->
  q_aflags (fst (set_dev_notify s en)) = (if en then 0 else 1)
  /\ snd (set_dev_notify s en) = [QStoreFlags (if en then 0 else 1)].
Proof. intros H. unfold set_dev_notify. rewrite H. destruct en; split; reflexivity. Qed.

Lemma set_dev_notify_event_idx s en :
  q_event_idx s = true -> set_dev_notify s en = (s, []).
Proof. intros H. unfold set_dev_notify. now rewrite H. Qed.
