(* C07 at driver level: what the driver models guarantee about values the DEVICE chooses.
   In every statement below the used index / id / length, the response bytes and the configuration values are
   universally quantified (no hypothesis says that the device is honest). The statements are written with
   qualified names (Console.read, ConnMgr.cm_poll, ...) so that they can be copied into Properties/C07.v whatever
   other models that file imports: several driver models reuse short names. *)
From VD Require Import Base.Words Base.ListUpd Model.Queue.
From VD Require Model.Owning Model.Console Model.ConnMgr Model.Vsock Model.Net Model.Blk Model.Edid Model.Gpu Model.Sound Model.Misc.
From VD Require Proofs.QueueInv Proofs.OwningProofs Proofs.NetProofs Proofs.VsockProofs Proofs.ConnMgrProofs Proofs.BlkProofs
  Proofs.GpuProofs Proofs.SoundProofs Proofs.MiscProofs.
From Coq Require Import ZArith Lia ZifyBool ZifyN.
Ltac Zify.zify_post_hook ::= Z.div_mod_to_equations.

(* ------------------------------------------------------------------------------------------------ *)
(* small list facts *)
Lemma lenN_firstn_le {A} (k : nat) (l : list A) : lenN (firstn k l) <= N.of_nat k.
Proof. unfold lenN. rewrite firstn_length. lia. Qed.
Lemma lenN_firstn_le_l {A} (k : nat) (l : list A) : lenN (firstn k l) <= lenN l.
Proof. unfold lenN. rewrite firstn_length. lia. Qed.
Lemma lenN_skipn {A} (k : nat) (l : list A) : lenN (skipn k l) = lenN l - N.of_nat k.
Proof. unfold lenN. rewrite skipn_length. lia. Qed.

(* ------------------------------------------------------------------------------------------------ *)
(* the queue under every driver: pop_used for EVERY private state, token, buffer list and device words.
   No reachability, no caller contract: the result is a length, NotReady, WrongToken or a panic; a foreign id is
   refused with the state untouched; the value returned is the device's word, as the device wrote it. *)
Lemma recycle_loop_total bufs : forall sh dt next fh nu,
  (exists r, fst (recycle_loop bufs sh dt next fh nu) = Ok r) \/ fst (recycle_loop bufs sh dt next fh nu) = Panic.
Proof.
  induction bufs as [|[b w] rest IH]; intros sh dt next fh nu; cbn [recycle_loop].
  - destruct next; cbn; eauto.
  - destruct (b_len b =? 0); [right; reflexivity|].
    destruct next as [i|]; [|right; reflexivity].
    destruct (nthN_error sh i) as [d|]; [|right; reflexivity].
    destruct (nu =? 0); [right; reflexivity|].
    match goal with |- context [recycle_loop rest ?a ?b ?c ?d ?e] => specialize (IH a b c d e); destruct (recycle_loop rest a b c d e) as [o evs] end.
    cbn [fst] in *. exact IH.
Qed.

Lemma unshare_ind_total bufs : forall tbl,
  fst (unshare_ind bufs tbl) = Ok tt \/ fst (unshare_ind bufs tbl) = Panic.
Proof.
  induction bufs as [|[b w] rest IH]; intros tbl; cbn [unshare_ind]; [left; reflexivity|].
  destruct (b_len b =? 0); [right; reflexivity|].
  destruct tbl as [|d tbl']; [right; reflexivity|].
  specialize (IH tbl'). destruct (unshare_ind rest tbl') as [o evs]. cbn [fst] in *. exact IH.
Qed.

Lemma recycle_total s head bufs :
  fst (fst (recycle s head bufs)) = Ok tt \/ fst (fst (recycle s head bufs)) = Panic.
Proof.
  unfold recycle.
  destruct (nthN_error (q_shadow s) head) as [hd|]; [|right; reflexivity].
  destruct (has_flag (d_flags hd) F_INDIRECT).
  - destruct (nthN_error (q_ind s) head) as [[tbl|]|]; try (right; reflexivity).
    destruct (q_num_used s =? 0); [right; reflexivity|].
    destruct (negb (lenN tbl =? lenN bufs)); [right; reflexivity|].
    pose proof (unshare_ind_total bufs tbl) as H. destruct (unshare_ind bufs tbl) as [o evs]. cbn [fst] in *. exact H.
  - pose proof (recycle_loop_total bufs (q_shadow s) (q_dtable s) (Some head) (q_free_head s) (q_num_used s)) as H.
    destruct (recycle_loop bufs (q_shadow s) (q_dtable s) (Some head) (q_free_head s) (q_num_used s)) as [o evs].
    cbn [fst] in H. destruct H as [[[[sh dt] nu] ->]| ->]; [left|right]; reflexivity.
Qed.

Lemma c07drv_queue_pop_total s token ins outs u_idx u_id u_len :
  let r := Queue.pop_used s token ins outs u_idx u_id u_len in
  let o := fst (fst r) in
  o <> UB
  /\ (forall e, o = Err e ->
        snd (fst r) = s /\ snd r = []
        /\ ((e = ENotReady /\ q_last_used s = w16 u_idx) \/ (e = EWrongToken /\ q_last_used s <> w16 u_idx /\ w16 u_id <> token)))
  /\ (forall l, o = Ok l -> l = w32 u_len /\ w16 u_id = token /\ q_last_used s <> w16 u_idx).
Proof.
  cbv zeta. unfold pop_used, can_pop.
  destruct (N.eqb_spec (q_last_used s) (w16 u_idx)) as [E|E]; cbn [negb].
  { cbn. split; [discriminate|]. split; [|discriminate]. intros e [= <-]. auto. }
  destruct (N.eqb_spec (w16 u_id) token) as [T|T]; cbn [negb].
  2:{ cbn. split; [discriminate|]. split; [|discriminate]. intros e [= <-]. auto 6. }
  pose proof (recycle_total s (w16 u_id) (tag_bufs ins outs)) as H.
  destruct (recycle s (w16 u_id) (tag_bufs ins outs)) as [[o s1] evs]. cbn [fst] in H.
  destruct H as [-> | ->].
  - destruct (q_event_idx s1); cbn; (split; [discriminate|]); (split; [discriminate|]); intros l [= <-]; auto.
  - cbn. split; [discriminate|]. split; discriminate.
Qed.

(* ------------------------------------------------------------------------------------------------ *)
(* OwningQueue::poll (vsock RX queue, sound event queue): for every state and every device word, a slice handed to
   the handler (and a length reported to the caller) never exceeds BUFFER_SIZE *)
Lemma c07drv_owning_len_bounded s bufsz u_idx u_id u_len addr ae uf hres l t s' evs :
  Owning.owning_poll s bufsz u_idx u_id u_len addr ae uf hres = (Ok (Some (l, t)), s', evs) -> l <= bufsz.
Proof.
  unfold Owning.owning_poll.
  destruct (Owning.owning_pop s bufsz u_idx u_id u_len) as [[o s1] e1].
  destruct o as [[[len tok]|]|e| |]; try discriminate.
  destruct (Owning.owning_readd s1 bufsz tok addr ae uf) as [[o2 s2] e2].
  destruct o2; try discriminate.
  destruct (N.ltb_spec bufsz len) as [L|L]; [discriminate|].
  unfold Owning.handler_result. destruct (hres =? 0); [|destruct (hres =? 1); discriminate].
  intros [= <- <- <- <-]. exact L.
Qed.

(* ------------------------------------------------------------------------------------------------ *)
(* VirtIOSocket::poll -> read_header_and_body on arbitrary bytes: the body handed to the caller lies inside the
   bytes received, behind the header, and is exactly as long as the header announces; anything else is an error *)
Lemma c07drv_vsock_body_within_buffer b h body :
  Vsock.read_header_and_body b = Ok (h, body) ->
  lenN body = Vsock.h_len h /\ 44 + lenN body <= lenN b
  /\ body = firstn (N.to_nat (Vsock.h_len h)) (skipn 44 b).
Proof.
  intros H. destruct (VsockProofs.rhb_sound b h body H) as (_ & A & B & C). rewrite A. auto.
Qed.

Lemma c07drv_vsock_parse_total b :
  (exists r, Vsock.read_header_and_body b = Ok r) \/ (exists e, Vsock.read_header_and_body b = Err e).
Proof.
  unfold Vsock.read_header_and_body.
  destruct (lenN b <? Vsock.HDR_SIZE); [right; eauto|]. cbv zeta.
  destruct (two64 <=? Vsock.HDR_SIZE + Vsock.h_len (Vsock.dec_hdr b)); [right; eauto|].
  destruct (lenN b <? Vsock.HDR_SIZE + Vsock.h_len (Vsock.dec_hdr b)); [right; eauto|left; eauto].
Qed.

(* ------------------------------------------------------------------------------------------------ *)
(* VsockConnectionManager *)
(* the same parser as the connection manager model has it *)
Local Opaque skipn firstn.
Lemma c07drv_connmgr_body_within_buffer b h body :
  ConnMgr.read_header_and_body b = inl (h, body) ->
  lenN body = ConnMgr.vh_len h /\ 44 + lenN body <= lenN b.
Proof.
  unfold ConnMgr.read_header_and_body, ConnMgr.HDR_SIZE, ConnMgr.cntN.
  destruct (N.ltb_spec (lenN b) 44) as [|H44]; [discriminate|]. cbv zeta.
  destruct (N.ltb_spec (lenN b) (44 + ConnMgr.vh_len (ConnMgr.decode_hdr b))) as [|HL]; [discriminate|].
  intros [= <- <-]. cbn [ConnMgr.vh_len ConnMgr.decode_hdr] in *.
  generalize dependent (ConnMgr.le_field b 24 4). intros n HL.
  unfold lenN in *. rewrite firstn_length, skipn_length. lia.
Qed.

(* a used length above RX_BUFFER_SIZE is refused before any byte is looked at; nothing changes, nothing is sent *)
Lemma c07drv_connmgr_oversize_len_refused m ulen bytes :
  ConnMgr.m_rxsz m < ulen -> ConnMgr.cm_poll m (Some (ulen, bytes)) = (m, Err EIoError, []).
Proof. intros H. unfold ConnMgr.cm_poll. destruct (N.ltb_spec (ConnMgr.m_rxsz m) ulen); [reflexivity|lia]. Qed.

(* poll ends in a result or an error for every used length and every byte content *)
Lemma c07drv_connmgr_poll_total md m rx m' r tx :
  ConnMgrProofs.KeysUnique m -> ConnMgr.cm_step md m (ConnMgr.OpPoll rx) = (m', r, tx) -> r <> Panic /\ r <> UB.
Proof. exact (ConnMgrProofs.poll_no_panic md m rx m' r tx). Qed.

(* recv never hands out more bytes than the caller's buffer holds *)
Lemma c07drv_connmgr_recv_bounded md m peer sp n m' out tx :
  ConnMgr.cm_recv md m peer sp n = (m', Ok (ConnMgr.VBytes out), tx) -> lenN out <= n.
Proof.
  unfold ConnMgr.cm_recv.
  destruct (ConnMgr.get_connection (ConnMgr.m_conns m) peer sp) as [[i c]|]; [|discriminate]. cbv zeta.
  assert (B : lenN (firstn (ConnMgr.cntN n (ConnMgr.cn_buf c)) (ConnMgr.cn_buf c)) <= n).
  { unfold ConnMgr.cntN, lenN. rewrite firstn_length. lia. }
  destruct (ConnMgr.credit_done_forwarding _ _ _); [|discriminate].
  match goal with |- context [if ?b then _ else _] => destruct b end; intros [= _ <- _]; exact B.
Qed.

(* ------------------------------------------------------------------------------------------------ *)
(* VirtIOConsole: the pending length is taken from the device as it is, but every access to the 4096-byte buffer is
   bounds-checked: for EVERY driver state and every device view, what `read` / `fill_buf` hand to the caller fits
   the caller's buffer and the driver's page; `recv` only reads inside the page *)
Lemma lenN_buf_slice c from k : lenN (Console.buf_slice c from k) <= N.min k Console.PAGE.
Proof. unfold Console.buf_slice. pose proof (lenN_firstn_le (N.to_nat (N.min k Console.PAGE)) (skipn (N.to_nat (N.min from Console.PAGE)) (Console.c_buf c))). lia. Qed.

Lemma c07drv_console_read_bounded md c n addr ae uf views sp l c' e :
  Console.read md c n addr ae uf views = (Some (Ok (sp, l)), c', e) -> lenN l <= n /\ lenN l <= Console.PAGE.
Proof.
  unfold Console.read.
  destruct (n =? 0). { intros [= <- <- _ _]. cbn. lia. }
  destruct (Console.wait_for_receive c addr ae uf views) as [[[o|] c1] e1]; [|discriminate].
  destruct o as [spins|x| |]; try discriminate.
  destruct (Console.usub md (Console.c_pending c1) (Console.c_cursor c1)) as [avail|x| |]; try discriminate.
  cbv zeta.
  destruct (Console.uadd md (Console.c_cursor c1) (N.min n avail)) as [ee|x| |]; try discriminate.
  destruct ((ee <? Console.c_cursor c1) || (Console.PAGE <? ee))%bool; [discriminate|].
  intros [= _ <- _ _].
  pose proof (lenN_buf_slice c1 (Console.c_cursor c1) (N.min n avail)). lia.
Qed.

Lemma c07drv_console_fill_buf_bounded c addr ae uf views sp l c' e :
  Console.fill_buf c addr ae uf views = (Some (Ok (sp, l)), c', e) -> lenN l <= Console.PAGE.
Proof.
  unfold Console.fill_buf.
  destruct (Console.wait_for_receive c addr ae uf views) as [[[o|] c1] e1]; [|discriminate].
  destruct o as [spins|x| |]; try discriminate.
  destruct ((Console.c_pending c1 <? Console.c_cursor c1) || (Console.PAGE <? Console.c_pending c1))%bool; [discriminate|].
  intros [= _ <- _ _].
  pose proof (lenN_buf_slice c1 (Console.c_cursor c1) (Console.c_pending c1 - Console.c_cursor c1)). lia.
Qed.

Lemma c07drv_console_index_checked c i ch : Console.buf_at c i = Some ch -> i < Console.PAGE.
Proof. unfold Console.buf_at. destruct (N.leb_spec Console.PAGE i); [discriminate|]. intros _. lia. Qed.

(* ------------------------------------------------------------------------------------------------ *)
(* VirtIOBlk *)
(* whatever byte the device leaves as status: a result or an error *)
Lemma c07drv_blk_status_total st : Blk.status_result st = Ok tt \/ exists e, Blk.status_result st = Err e.
Proof. unfold Blk.status_result. repeat match goal with |- context [if ?b then _ else _] => destruct b end; eauto. Qed.

(* complete_read_blocks / complete_write_blocks for EVERY driver state, token, buffers, used-ring words and status
   byte: never outside its contract; a refusal of the queue (nothing pending, another id) leaves the queue as it was *)
Lemma c07drv_blk_complete_total s token r u_idx u_id u_len st :
  let res := Blk.blk_complete s token r u_idx u_id u_len st in
  fst (fst res) <> UB
  /\ (q_last_used (Blk.b_q s) = w16 u_idx -> fst (fst res) = Err ENotReady /\ Blk.b_q (snd (fst res)) = Blk.b_q s)
  /\ (q_last_used (Blk.b_q s) <> w16 u_idx -> w16 u_id <> token ->
      fst (fst res) = Err EWrongToken /\ Blk.b_q (snd (fst res)) = Blk.b_q s).
Proof.
  cbv zeta. unfold Blk.blk_complete.
  pose proof (c07drv_queue_pop_total (Blk.b_q s) token (Blk.req_ins r) (Blk.req_outs r) u_idx u_id u_len) as H. cbv zeta in H.
  pose proof (QueueInv.pop_not_ready (Blk.b_q s) token (Blk.req_ins r) (Blk.req_outs r) u_idx u_id u_len) as HN.
  pose proof (QueueInv.pop_wrong_token (Blk.b_q s) token (Blk.req_ins r) (Blk.req_outs r) u_idx u_id u_len) as HW.
  destruct (pop_used (Blk.b_q s) token (Blk.req_ins r) (Blk.req_outs r) u_idx u_id u_len) as [[o q'] evs].
  cbn [fst snd] in H. destruct H as (HU & _ & _).
  split.
  - destruct o; cbn [fst]; try discriminate; [|congruence].
    destruct (c07drv_blk_status_total (w8 st)) as [-> | [e ->]]; discriminate.
  - split.
    + intros E. specialize (HN E). injection HN as -> -> ->. cbn. destruct s; auto.
    + intros E T. specialize (HW E T). injection HW as -> -> ->. cbn. destruct s; auto.
Qed.

(* device_id: the length reported never exceeds the 20-byte array, whatever the device put there *)
Lemma c07drv_blk_device_id_bounded s hdr data resp taddr ae uf polls u_id u_len st idbytes n s' evs sp :
  Blk.blk_device_id s hdr data resp taddr ae uf polls u_id u_len st idbytes = Some (Ok n, s', evs, sp) -> n <= 20.
Proof.
  unfold Blk.blk_device_id.
  destruct (Blk.blk_request _ _ _ _ _ _ _ _ _) as [[[[o s1] e1] sp1]|]; [|discriminate].
  destruct o; try discriminate. intros [= <- _ _ _].
  destruct (BlkProofs.id_length_spec (firstn 20 idbytes)) as (H & _).
  pose proof (lenN_firstn_le 20 idbytes). lia.
Qed.

(* ------------------------------------------------------------------------------------------------ *)
(* VirtIOGpu: the answers are arbitrary byte lists *)
(* get_edid: at most 1024 data bytes whatever `size` the device states (the size is only ever compared with 128) *)
Lemma c07drv_gpu_edid_data_bounded sc s rs d sz s1 t e :
  Gpu.get_edid sc s rs = Some (Ok (d, sz), s1, t, e) -> lenN d <= 1024 /\ sz < two32.
Proof.
  cbv beta iota delta [Gpu.get_edid Gpu.gbind Gpu.gget Gpu.ctrl_request Gpu.glift Gpu.check_type Gpu.gret Gpu.gfail].
  destruct (negb (Gpu.g_edid s)); [discriminate|].
  destruct rs as [|[e0|b] rs]; try discriminate.
  destruct (Gpu.hdr_type b =? Gpu.OK_EDID); [|discriminate]. intros H. injection H as <- <- _ _ _.
  split; [|apply GpuProofs.rdf_lt]. rewrite lenN_map. apply (lenN_firstn_le 1024).
Qed.

(* the display size the driver allocates for fits 32 bits each way, for every answer *)
Lemma c07drv_gpu_display_info_range s rs wh s1 t e :
  Gpu.get_display_info s rs = Some (Ok wh, s1, t, e) -> fst wh < two32 /\ snd wh < two32.
Proof. exact (GpuProofs.get_display_info_range s rs wh s1 t e). Qed.

(* EDID parsing is total on every byte list and every stated size: at most eight timings, each at most 2288 wide / high *)
Lemma c07drv_gpu_edid_timings_total d size :
  exists l, Edid.standard_timings d size = Ok l /\ (length l <= 8)%nat /\ (forall p, In p l -> fst p <= 2288 /\ snd p <= 2288).
Proof.
  destruct (GpuProofs.edid_standard d size) as (l & E & Hs & Hb). exists l. split; [exact E|].
  destruct (N.lt_ge_cases size 128) as [H|H].
  - rewrite (Hs H). split; [cbn; lia|intros p []].
  - destruct (Hb H) as (_ & _ & _ & A & B). auto.
Qed.

(* ------------------------------------------------------------------------------------------------ *)
(* VirtIONetRaw / VirtIONet *)
(* receive_complete for EVERY state: never outside its contract; errors are NotReady / WrongToken / IoError.
   The model is the code as it stands in the tree the models were written from: the packet length is the device's
   used length minus the header, not compared with the buffer (see c07drv_net_passes_device_length_through) *)
Lemma c07drv_net_receive_complete_total s token b u_idx u_id u_len :
  let o := fst (fst (Net.receive_complete s token b u_idx u_id u_len)) in
  o <> UB
  /\ (forall e, o = Err e -> e = ENotReady \/ e = EWrongToken \/ e = EIoError)
  /\ (forall h p, o = Ok (h, p) -> h = Net.hdr_size (Net.n_legacy s) /\ h + p = w32 u_len /\ w16 u_id = token).
Proof.
  cbv zeta. unfold Net.receive_complete.
  pose proof (c07drv_queue_pop_total (Net.n_rx s) token [] [b] u_idx u_id u_len) as H. cbv zeta in H.
  destruct (pop_used (Net.n_rx s) token [] [b] u_idx u_id u_len) as [[o q'] evs]. cbn [fst snd] in H.
  destruct H as (HU & HE & HO).
  destruct o as [len|e| |]; cbn [fst].
  - destruct (HO len eq_refl) as (-> & T & _).
    destruct (N.ltb_spec (w32 u_len) (Net.hdr_size (Net.n_legacy s))) as [L|L]; cbn [fst].
    + split; [discriminate|]. split; [|discriminate]. intros e [= <-]. auto.
    + split; [discriminate|]. split; [discriminate|]. intros h p [= <- <-]. split; [reflexivity|]. split; [lia|exact T].
  - split; [discriminate|]. split; [|discriminate]. intros e' [= <-].
    destruct (HE e eq_refl) as (_ & _ & [[-> _]|[-> _]]); auto.
  - split; [discriminate|]. split; discriminate.
  - congruence.
Qed.

(* VirtIONet::receive for EVERY state (no invariant): never outside its contract *)
Lemma c07drv_net_receive_total v u_idx u_id u_len :
  fst (fst (Net.vnet_receive v u_idx u_id u_len)) <> UB.
Proof.
  unfold Net.vnet_receive.
  destruct (Net.poll_receive (Net.v_raw v) u_idx u_id) as [token|]; [|discriminate].
  destruct (nthN_error (Net.v_slots v) token) as [[b|]|]; try discriminate.
  destruct (negb (token =? Net.rb_idx b)); [discriminate|].
  pose proof (c07drv_net_receive_complete_total (Net.v_raw v) token (Net.rx_ubuf b 0) u_idx u_id u_len) as H. cbv zeta in H.
  destruct (Net.receive_complete (Net.v_raw v) token (Net.rx_ubuf b 0) u_idx u_id u_len) as [[o s1] evs]. cbn [fst] in H.
  destruct H as (HU & _). destruct o as [[h p]|e| |]; cbn [fst]; try discriminate. congruence.
Qed.

(* RxBuffer::packet: the slice the caller gets is inside the buffer, or the call panics (bounds check) *)
Lemma c07drv_net_packet_within_buffer legacy bytes plen :
  (forall p, Net.rx_packet legacy bytes plen = Ok p -> lenN p = plen /\ Net.hdr_size legacy + plen <= lenN bytes)
  /\ (lenN bytes < Net.hdr_size legacy + plen -> Net.rx_packet legacy bytes plen = Panic).
Proof.
  destruct (NetProofs.rx_packet_total legacy bytes plen) as (A & B). split; [|exact B].
  intros p Hp. destruct (N.lt_ge_cases (lenN bytes) (Net.hdr_size legacy + plen)) as [L|L].
  - rewrite (B L) in Hp. discriminate.
  - destruct (A L) as (p' & E & Hl). rewrite E in Hp. injection Hp as <-. auto.
Qed.

(* observation (not a C07 matter: a number, no slice; RxBuffer::packet bounds-checks): the packet length is the
   device's used length minus the header, passed through: a 2048-byte buffer, the device reports 2^32-1 bytes, and
   receive_wait returns a packet length of 2^32-13 *)
Example c07drv_net_passes_device_length_through :
  exists s' evs,
    Net.receive_wait (Net.mkRaw false (qnew 4 false false) (qnew 4 false false)) (mkBuf 1 2048 1000) 0 0 1 0 4294967295
    = (Ok (12, 4294967283), s', evs).
Proof. vm_compute. eauto. Qed.

(* ------------------------------------------------------------------------------------------------ *)
(* rng / 9p: observations: the returned length is the device's number, passed through (C20 requires returned values to
   equal what the device reported); the bytes delivered are a prefix of the caller's buffer (C20_misc) *)
Example c07drv_rng_passes_device_length_through :
  exists q2 evs sp, Misc.rng_request_entropy (qnew 8 false false) (mkBuf 1 4 1000) 0 0 0 [1] 0 100 = Some (Ok 100, q2, evs, sp).
Proof. exact MiscProofs.rng_length_not_clamped. Qed.

Example c07drv_9p_passes_device_length_through :
  exists q2 evs sp,
    Misc.p9_request (qnew 16 false false) (mkBuf 1 3 1000) (mkBuf 2 7 2000) 0 0 0 [1] 0 100 [100; 0; 0; 0] = Some (Ok 100, q2, evs, sp).
Proof. exact MiscProofs.p9_size_not_clamped. Qed.

(* rtc: whatever status byte the device leaves: a result or an error *)
Lemma c07drv_rtc_status_total st : Misc.rtc_status_result st = Ok tt \/ exists e, Misc.rtc_status_result st = Err e.
Proof. unfold Misc.rtc_status_result. repeat match goal with |- context [if ?b then _ else _] => destruct b end; eauto. Qed.

(* ------------------------------------------------------------------------------------------------ *)
(* VirtIOSound *)
(* jack / stream / channel-map infos: however many items the configuration space announces and whatever the
   response says, an item is only ever read from inside the 4096-byte response buffer; otherwise the slice bound panics *)
Lemma c07drv_sound_infos_fit {A} (parse : list N -> A) size rsp : forall n i l,
  Sound.parse_infos parse size rsp i n = Ok l -> n <> O -> 4 + (i + N.of_nat n) * size <= Sound.RECV_SIZE.
Proof.
  intros n i l H Hn. destruct (N.le_gt_cases (4 + (i + N.of_nat n) * size) Sound.RECV_SIZE) as [L|L]; [exact L|].
  rewrite (SoundProofs.parse_infos_overflow parse size rsp n i L Hn) in H. discriminate.
Qed.

Lemma c07drv_sound_infos_total {A} (parse : list N -> A) size rsp : forall n i,
  (exists l, Sound.parse_infos parse size rsp i n = Ok l) \/ Sound.parse_infos parse size rsp i n = Panic.
Proof.
  induction n as [|n IH]; intros i; cbn [Sound.parse_infos]; [left; eauto|].
  destruct (Sound.RECV_SIZE <? 4 + (i + 1) * size); [right; reflexivity|].
  destruct (IH (i + 1)) as [[l ->] | ->]; [left; eauto|right; reflexivity].
Qed.

(* pcm_xfer_ok for EVERY state, token and device words: an unknown token is a clean panic (the two asserts), a
   completion for another id is WrongToken with the transfer left as it was, and nothing is ever outside its contract *)
Lemma c07drv_sound_xfer_ok_total chk s token u_idx u_id u_len st :
  let res := Sound.snd_pcm_xfer_ok_gen chk s token u_idx u_id u_len st in
  fst (fst res) <> UB
  /\ (Sound.map_get (Sound.s_tok_buf s) token = None -> res = (Panic, s, [])).
Proof.
  cbv zeta. unfold Sound.snd_pcm_xfer_ok_gen.
  destruct (Sound.map_get (Sound.s_tok_buf s) token) as [[bid buf]|]; [|split; [discriminate|reflexivity]].
  split; [|discriminate].
  destruct (Sound.map_get (Sound.s_tok_rsp s) token) as [rid|]; [|discriminate].
  pose proof (c07drv_queue_pop_total (Sound.s_tx s) token [mkBuf bid (lenN buf) 0] [mkBuf rid 8 0] u_idx u_id u_len) as H. cbv zeta in H.
  destruct (pop_used (Sound.s_tx s) token [mkBuf bid (lenN buf) 0] [mkBuf rid 8 0] u_idx u_id u_len) as [[o q1] evs].
  cbn [fst] in H. destruct H as (HU & _).
  destruct o; cbn [fst Sound.fail_as]; try discriminate; [|congruence].
  destruct (chk && negb (w32 st =? Sound.CC_SOk))%bool; discriminate.
Qed.
