(* C14: block requests carry the caller's data intact and match the right completion.              *)
(* Model/Blk.v (the driver, on top of the virtqueue model) against Model/BlkSpec.v (wire format,   *)
(* device-side parse, status table, config fields from the VirtIO text; the Hal memory contract).  *)
(* The out-of-order theorem is a corollary of the queue theorems (Reach_Inv, add_ok, pop_refines,  *)
(* all_chains_walk: outstanding chains are disjoint and bound to their token) + the codec round trip. *)
From VD Require Import Base.Words Base.ListUpd Model.Queue Model.Blk Model.BlkSpec
  Proofs.QueueInv Proofs.QueueReach Proofs.QueueProps.
From Coq Require Import ZArith Lia ZifyBool ZifyN Permutation.
Ltac Zify.zify_post_hook ::= Z.div_mod_to_equations.

(* ================= codec ================= *)
Lemma le_bytes_length n x : length (le_bytes n x) = n.
Proof. revert x. induction n as [|n IH]; intros x; cbn [le_bytes length]; [reflexivity|]. now rewrite IH. Qed.

Lemma le_bytes_byte n x b : In b (le_bytes n x) -> b < 256.
Proof.
  revert x. induction n as [|n IH]; intros x H; cbn [le_bytes] in H; [contradiction|].
  destruct H as [<-|H]; [apply N.mod_lt; discriminate|eauto].
Qed.

Lemma le_val_le_bytes n x : le_val (le_bytes n x) = x mod 256 ^ N.of_nat n.
Proof.
  revert x. induction n as [|n IH]; intros x.
  - cbn [le_bytes le_val]. change (256 ^ N.of_nat 0) with 1. now rewrite N.mod_1_r.
  - cbn [le_bytes le_val]. rewrite IH.
    replace (N.of_nat (S n)) with (N.succ (N.of_nat n)) by lia.
    rewrite N.pow_succ_r'. rewrite N.mod_mul_r; [reflexivity|discriminate|].
    apply N.pow_nonzero. discriminate.
Qed.

Lemma enc_req_length ty sector : length (enc_req ty sector) = 16%nat.
Proof. unfold enc_req. now rewrite !app_length, !le_bytes_length. Qed.

Lemma enc_req_parts ty sector :
  firstn 4 (enc_req ty sector) = le_bytes 4 ty
  /\ firstn 4 (skipn 4 (enc_req ty sector)) = le_bytes 4 0
  /\ skipn 8 (enc_req ty sector) = le_bytes 8 sector.
Proof. repeat split; reflexivity. Qed.

(* the independent decoder recovers exactly what the driver encoded *)
Theorem hdr_roundtrip ty sector :
  ty < two32 -> sector < two64 ->
  spec_decode_hdr (enc_req ty sector) = Some (ty, 0, sector).
Proof.
  intros Ht Hs. unfold spec_decode_hdr.
  assert (E : lenN (enc_req ty sector) = 16) by (unfold lenN; now rewrite enc_req_length).
  rewrite E. cbn [N.eqb Pos.eqb].
  destruct (enc_req_parts ty sector) as (E1 & E2 & E3). rewrite E1, E2, E3, !le_val_le_bytes.
  change (256 ^ N.of_nat 4) with two32. change (256 ^ N.of_nat 8) with two64.
  rewrite (N.mod_small ty), (N.mod_small sector) by assumption. reflexivity.
Qed.

Example hdr_roundtrip_nonvacuous :
  spec_decode_hdr (enc_req 1 18446744073709551615) = Some (1, 0, 18446744073709551615)
  /\ enc_req 8 258 = [8;0;0;0; 0;0;0;0; 2;1;0;0;0;0;0;0].
Proof. split; vm_compute; reflexivity. Qed.

(* two requests with the same header bytes are the same request *)
Theorem enc_req_injective ty1 s1 ty2 s2 :
  ty1 < two32 -> s1 < two64 -> ty2 < two32 -> s2 < two64 ->
  enc_req ty1 s1 = enc_req ty2 s2 -> ty1 = ty2 /\ s1 = s2.
Proof.
  intros A B C D E. pose proof (hdr_roundtrip ty1 s1 A B) as H1. rewrite E, (hdr_roundtrip ty2 s2 C D) in H1.
  injection H1 as -> ->. auto.
Qed.

(* ================= status ================= *)
Definition outcome_class (o : outcome unit) : N * N :=
  match o with Ok _ => (0, 0) | Err e => (1, e) | Panic => (2, 0) | UB => (3, 0) end.

Theorem status_map st :
  (status_result st = Ok tt <-> st = 0)
  /\ (st = 1 -> status_result st = Err EIoError)
  /\ (st = 2 -> status_result st = Err EUnsupported)
  /\ (st = 3 -> status_result st = Err ENotReady)
  /\ (3 < st -> status_result st = Err EIoError)
  /\ result_conforms st (fst (outcome_class (status_result st))) (snd (outcome_class (status_result st))) = true.
Proof.
  unfold status_result, result_conforms, spec_status, S_OK, S_IOERR, S_UNSUPP.
  destruct (N.eqb_spec st 0) as [->|H0]; [cbn; repeat split; intros; try lia; reflexivity|].
  destruct (N.eqb_spec st 1) as [->|H1]; [cbn; repeat split; intros; try lia; try reflexivity; discriminate|].
  destruct (N.eqb_spec st 2) as [->|H2]; [cbn; repeat split; intros; try lia; try reflexivity; discriminate|].
  destruct (N.eqb_spec st 3) as [->|H3]; [cbn; repeat split; intros; try lia; try reflexivity; discriminate|].
  cbn. repeat split; intros; try lia; try reflexivity; discriminate.
Qed.

(* ================= configuration ================= *)
Lemma lor_shift32 a b : N.lor (w32 a) (N.shiftl b 32) = w32 a + 4294967296 * b.
Proof.
  unfold w32. change 4294967296 with (2 ^ 32).
  assert (H : N.land (a mod 2 ^ 32) (N.shiftl b 32) = 0).
  { apply N.bits_inj. intro m. rewrite N.land_spec, N.bits_0. destruct (N.lt_ge_cases m 32) as [L|L].
    - rewrite N.shiftl_spec_low by exact L. apply andb_false_r.
    - rewrite N.mod_pow2_bits_high by exact L. reflexivity. }
  rewrite <- N.lxor_lor by exact H. rewrite <- N.add_nocarry_lxor by exact H.
  rewrite N.shiftl_mul_pow2. lia.
Qed.

Lemma has_feat_testbit f k : has_feat f (2 ^ k) = N.testbit f k.
Proof.
  unfold has_feat. destruct (N.testbit f k) eqn:E.
  - destruct (N.eqb_spec (N.land f (2 ^ k)) 0) as [Z|_]; [|reflexivity].
    assert (B : N.testbit (N.land f (2 ^ k)) k = true) by (rewrite N.land_spec, E, N.pow2_bits_true; reflexivity).
    rewrite Z, N.bits_0 in B. discriminate.
  - replace (N.land f (2 ^ k)) with 0; [reflexivity|]. symmetry. apply N.bits_inj. intro m.
    rewrite N.land_spec, N.bits_0, N.pow2_bits_eqb. destruct (N.eqb_spec k m) as [->|_]; [now rewrite E|apply andb_false_r].
Qed.

Definition stable (t : cfg_try) : Prop := w32 (t_g1 t) = w32 (t_g2 t).

(* read_consistent: the answer comes from the FIRST attempt whose generation did not move; every
   earlier (possibly torn) attempt is discarded *)
Lemma read_capacity_spec tries r evs :
  read_capacity tries = (Some r, evs) ->
  exists pre t post, tries = pre ++ t :: post /\ Forall (fun x => ~ stable x) pre /\ stable t
                     /\ r = try_result t /\ evs = concat (map try_events (pre ++ [t])).
Proof.
  revert r evs. induction tries as [|t rest IH]; intros r evs H; cbn [read_capacity] in H; [discriminate|].
  destruct (N.eqb_spec (w32 (t_g1 t)) (w32 (t_g2 t))) as [E|E].
  - injection H as <- <-. exists [], t, rest. cbn [app map concat]. rewrite app_nil_r. repeat split; auto.
  - destruct (read_capacity rest) as [r' evs'] eqn:Er. injection H as -> <-.
    destruct (IH _ _ eq_refl) as (pre & t' & post & -> & Hpre & Hst & Hr & Hev).
    exists (t :: pre), t', post. cbn [app map concat]. rewrite Hev. repeat split; auto.
Qed.

Theorem new_config dev_features tries s pre post :
  blk_new dev_features tries = Some (Ok s, pre, post) ->
  (exists tpre t tpost lo hi, tries = tpre ++ t :: tpost /\ Forall (fun x => ~ stable x) tpre /\ stable t
      /\ t_lo t = Some lo /\ t_hi t = Some hi
      /\ blk_capacity s = spec_capacity (w32 lo) (w32 hi))
  /\ blk_readonly s = spec_readonly dev_features
  /\ has_feat (b_feat s) BF_FLUSH = spec_may_flush dev_features
  /\ b_feat s = N.land dev_features SUPPORTED_FEATURES
  /\ b_q s = qnew 16 (N.testbit dev_features 28) (N.testbit dev_features 29)
  /\ post = [TSetStatus 15].
Proof.
  unfold blk_new. destruct (read_capacity tries) as [[r|] cevs] eqn:Er; [|discriminate].
  destruct r as [cap|e| |]; try discriminate. intros H. injection H as <- <- <-.
  destruct (read_capacity_spec _ _ _ Er) as (tpre & t & tpost & -> & Hpre & Hst & Hr & _).
  assert (Hbit : forall k, N.testbit SUPPORTED_FEATURES k = true ->
            has_feat (N.land dev_features SUPPORTED_FEATURES) (2 ^ k) = N.testbit dev_features k).
  { intros k Hk. rewrite has_feat_testbit, N.land_spec, Hk. apply andb_true_r. }
  split.
  { unfold try_result in Hr. destruct (t_lo t) as [lo|] eqn:El; [|discriminate]. destruct (t_hi t) as [hi|] eqn:Eh; [|discriminate].
    exists tpre, t, tpost, lo, hi. repeat split; auto. injection Hr as ->.
    cbn [blk_capacity b_cap]. rewrite lor_shift32. unfold spec_capacity. reflexivity. }
  cbn [blk_readonly b_feat b_q].
  split; [exact (Hbit 5 eq_refl)|]. split; [exact (Hbit 9 eq_refl)|]. split; [reflexivity|].
  split; [|reflexivity].
  change BF_INDIRECT with (2 ^ 28). change BF_EVENT_IDX with (2 ^ 29).
  rewrite (Hbit 28 eq_refl), (Hbit 29 eq_refl). reflexivity.
Qed.

Example new_config_nonvacuous :
  (* a torn first attempt (generation 7 -> 8 between the halves) is discarded *)
  exists s pre, blk_new (BF_RO + BF_FLUSH + 2) [mkTry 7 (Some 66) (Some 9) 8; mkTry 8 (Some 5) (Some 2) 8]
                = Some (Ok s, pre, [TSetStatus 15])
                /\ blk_capacity s = 8589934597 /\ blk_readonly s = true.
Proof. eexists; eexists. vm_compute. repeat split. Qed.

Theorem new_error dev_features tries e pre post :
  blk_new dev_features tries = Some (Err e, pre, post) ->
  e = EConfigSpaceTooSmall /\ post = []
  /\ exists tpre t tpost, tries = tpre ++ t :: tpost /\ stable t /\ (t_lo t = None \/ t_hi t = None).
Proof.
  unfold blk_new. destruct (read_capacity tries) as [[r|] cevs] eqn:Er; [|discriminate].
  destruct r as [cap|e'| |]; try discriminate. intros H. injection H as <- <- <-.
  destruct (read_capacity_spec _ _ _ Er) as (tpre & t & tpost & -> & _ & Hst & Hr & _).
  unfold try_result in Hr. destruct (t_lo t) eqn:El; [destruct (t_hi t) eqn:Eh|]; try discriminate;
    injection Hr as ->; repeat split; eauto 8.
Qed.

(* ================= the Hal memory contract over the ledger view of events ================= *)
From VD Require Import Model.BlkWorld.

Definition hal_share (w : world) (s : shr) : world :=
  match s with ShBuf addr id len wr => hal_ev w (QShare id len wr addr) | ShTbl _ _ _ => w end.
Definition hal_unshare (w : world) (s : shr) : world :=
  match s with ShBuf addr id len wr => hal_ev w (QUnshare addr id len wr) | ShTbl _ _ _ => w end.

Lemma hal_run_app w a b : hal_run w (a ++ b) = hal_run (hal_run w a) b.
Proof. unfold hal_run. apply fold_left_app. Qed.

Lemma hal_run_shares evs : unshares_of evs = [] ->
  forall w, hal_run w evs = fold_left hal_share (shares_of evs) w.
Proof.
  unfold hal_run, shares_of, unshares_of.
  induction evs as [|e evs IH]; intros Hu w; [reflexivity|].
  destruct e; simpl in Hu |- *; try discriminate; apply IH; exact Hu.
Qed.

Lemma hal_run_unshares evs : shares_of evs = [] ->
  forall w, hal_run w evs = fold_left hal_unshare (unshares_of evs) w.
Proof.
  unfold hal_run, shares_of, unshares_of.
  induction evs as [|e evs IH]; intros Hu w; [reflexivity|].
  destruct e; simpl in Hu |- *; try discriminate; apply IH; exact Hu.
Qed.

Lemma add_world s chains ins outs taddr tok s' evs :
  Inv s chains -> bufs_ok (tag_bufs ins outs) -> add s ins outs taddr = (Ok tok, s', evs) ->
  forall w, hal_run w evs = fold_left hal_share (buf_shares (tag_bufs ins outs)) w.
Proof.
  intros HI Hok Hadd w.
  destruct (add_cases s chains ins outs taddr HI Hok) as [[_ E]|[(_ & _ & E)|(Hne & Hcap & _)]];
    try (rewrite E in Hadd; discriminate).
  destruct (add_ok s chains ins outs taddr HI Hne Hok Hcap)
    as (s1 & evs1 & c & Hrun & _ & _ & Hcb & _ & _ & _ & _ & _ & _ & _ & _ & _ & _ & _ & evs0 & Hevs & _ & _ & Hsh & Hun).
  rewrite Hrun in Hadd. injection Hadd as _ _ <-. rewrite Hevs, hal_run_app.
  rewrite (hal_run_shares evs0 Hun), Hsh. unfold chain_shares. rewrite fold_left_app, Hcb.
  destruct (c_tbl c) as [[ta tbl]|]; reflexivity.
Qed.

Lemma pop_world s pre c post h ins outs u_idx u_id u_len v s' evs :
  Reach s (pre ++ c :: post) h -> keys (tag_bufs ins outs) = keys (c_bufs c) ->
  pop_used s (c_head c) ins outs u_idx u_id u_len = (Ok v, s', evs) ->
  forall w, hal_run w evs = fold_left hal_unshare (buf_shares (c_bufs c)) w.
Proof.
  intros HR Hkeys Hpop w.
  destruct (pop_refines s pre c post h ins outs u_idx u_id u_len HR Hkeys) as (P1 & P2 & P3).
  destruct (N.eq_dec (q_last_used s) (w16 u_idx)) as [E1|E1].
  { destruct (P1 E1) as [E _]. rewrite E in Hpop. discriminate. }
  destruct (N.eq_dec (w16 u_id) (c_head c)) as [E2|E2].
  2:{ destruct (P2 E1 E2) as [E _]. rewrite E in Hpop. discriminate. }
  destruct (P3 E1 E2) as (s1 & evs1 & E & _ & _ & _ & _ & _ & _ & _ & _ & _ & _ & _ & _ & _ & Hevs).
  rewrite E in Hpop. injection Hpop as _ _ <-. rewrite Hevs, hal_run_app.
  destruct (Reach_Inv _ _ _ HR) as [HI _].
  destruct HI as (fl & _ & _ & _ & _ & _ & Hch & _).
  rewrite Forall_forall in Hch. specialize (Hch c ltac:(apply in_or_app; right; now left)). unfold chain_ok in Hch.
  assert (Htail : forall w0, hal_run w0 (if q_event_idx s then [QStoreUsedEvent (w16 (q_last_used s + 1))] else []) = w0).
  { intros w0. destruct (q_event_idx s); reflexivity. }
  rewrite Htail. unfold pop_evs. destruct (c_tbl c) as [[ta tbl]|].
  - destruct (ledger_unshare_evs (c_bufs c) (tag_bufs ins outs) Hkeys) as [A B].
    change (QUnshareTable ta (c_head c) (lenN (c_bufs c)) :: unshare_evs (c_bufs c) (tag_bufs ins outs))
      with ([QUnshareTable ta (c_head c) (lenN (c_bufs c))] ++ unshare_evs (c_bufs c) (tag_bufs ins outs)).
    rewrite hal_run_app. change (hal_run w [QUnshareTable ta (c_head c) (lenN (c_bufs c))]) with w.
    rewrite (hal_run_unshares _ B), A. reflexivity.
  - destruct Hch as (Hd & _). destruct (dchain_length _ _ _ Hd) as [Hl _].
    destruct (ledger_recycle_evs (c_idxs c) (c_bufs c) (tag_bufs ins outs) (q_free_head s) Hkeys Hl) as [A B].
    rewrite (hal_run_unshares _ B), A. reflexivity.
Qed.

(* ================= requests ================= *)
Definition has_data (r : breq) : bool := match r_op r with OpFlush => false | _ => true end.

Definition data_len_ok (r : breq) : Prop :=
  match r_op r with
  | OpIn | OpOut => b_len (r_data r) <> 0 /\ b_len (r_data r) mod 512 = 0 /\ b_len (r_data r) < two32
  | OpGetId => b_len (r_data r) = 20
  | OpFlush => True
  end.

(* the caller's side of the contract: the header buffer is a BlkReq (16 bytes), the response a
   BlkResp (1 byte), the three buffers are different objects; the platform's side: two shares that
   are live at the same time do not get the same device address *)
Definition req_ok (r : breq) : Prop :=
  b_len (r_hdr r) = 16 /\ b_len (r_resp r) = 1 /\ data_len_ok r /\ r_sector r < two64
  /\ b_id (r_hdr r) <> b_id (r_resp r)
  /\ (has_data r = true ->
      b_id (r_hdr r) <> b_id (r_data r) /\ b_id (r_data r) <> b_id (r_resp r) /\ b_addr (r_hdr r) <> b_addr (r_data r)).

Definition req_bufs (r : breq) : list (ubuf * bool) := tag_bufs (req_ins r) (req_outs r).

(* what the specification-side parse of the chain must yield *)
Definition expect_sreq (w : world) (r : breq) : sreq :=
  mkS (op_type (r_op r)) 0 (r_sector r)
      (match r_op r with OpOut => takeN (b_len (r_data r)) (w_caller w (b_id (r_data r))) | _ => [] end)
      (match r_op r with OpIn | OpGetId => b_len (r_data r) | _ => 0 end).

Definition data_len (r : breq) : N := match r_op r with OpFlush => 0 | _ => b_len (r_data r) end.

Lemma req_ok_bufs_ok r : req_ok r -> bufs_ok (req_bufs r).
Proof.
  intros (Hh & Hr & Hd & _). unfold req_bufs, req_ins, req_outs, data_len_ok in *.
  destruct (r_op r); cbn [tag_bufs map app]; repeat constructor; cbn [fst]; rewrite ?Hh, ?Hr; unfold two32 in *; try lia.
Qed.

Lemma req_ok_asserts r : req_ok r -> len_asserts r = true.
Proof.
  intros (_ & _ & Hd & _). unfold len_asserts, data_len_ok, SECTOR_SIZE in *.
  destruct (r_op r); try reflexivity; destruct Hd as (A & B & _);
    (destruct (N.eqb_spec (b_len (r_data r)) 0); [contradiction|]); rewrite B; reflexivity.
Qed.

Lemma qevs_map_BQ l : qevs (map BQ l) = l.
Proof. unfold qevs. induction l as [|x l IH]; [reflexivity|]. cbn [map flat_map app]. now rewrite IH. Qed.

Lemma qevs_app a b : qevs (a ++ b) = qevs a ++ qevs b.
Proof. unfold qevs. apply flat_map_app. Qed.

Lemma aset_eq m k v : aset m k v k = v.
Proof. unfold aset. now rewrite N.eqb_refl. Qed.
Lemma aset_neq m k v x : x <> k -> aset m k v x = m x.
Proof. unfold aset. intros H. destruct (N.eqb_spec x k); [contradiction|reflexivity]. Qed.

Lemma takeN_idem {A} n (l : list A) : takeN n (takeN n l) = takeN n l.
Proof. unfold takeN. rewrite firstn_firstn. now rewrite Nat.min_id. Qed.

Lemma takeN_all {A} n (l : list A) : lenN l = n -> takeN n l = l.
Proof. unfold takeN, lenN. intros <-. rewrite Nat2N.id. apply firstn_all. Qed.

Lemma firstn_skipn_app {A} n (a b : list A) : length a = n -> firstn n (a ++ b) = a /\ skipn n (a ++ b) = b.
Proof.
  intros <-. split.
  - rewrite firstn_app, Nat.sub_diag, firstn_all. cbn [firstn]. apply app_nil_r.
  - rewrite skipn_app, Nat.sub_diag, skipn_all. reflexivity.
Qed.

Lemma hdr_bytes_len r : lenN (hdr_bytes r) = 16.
Proof. unfold hdr_bytes, lenN. now rewrite enc_req_length. Qed.

Lemma hdr_firstn r : firstn 16 (hdr_bytes r) = hdr_bytes r.
Proof. apply firstn_all2. unfold hdr_bytes. rewrite enc_req_length. apply le_n. Qed.
Lemma hdr_skipn r : skipn 16 (hdr_bytes r) = [].
Proof. apply skipn_all2. unfold hdr_bytes. rewrite enc_req_length. apply le_n. Qed.

Lemma op_type_lt o : op_type o < two32.
Proof. destruct o; reflexivity. Qed.

(* C14_wire *)
Theorem submit_wire s chains h w r taddr ae uf tok s' evs w' tmem :
  Reach (b_q s) chains h -> req_ok r ->
  blk_submit_w s w r taddr ae uf = (Ok tok, s', evs, w') ->
  (forall ta tbl, c_tbl (new_chain (b_q s) (req_ins r) (req_outs r) taddr) = Some (ta, tbl) -> tmem ta = Some tbl) ->
  let els := elems (req_bufs r) in
  (* the device reaches exactly the caller's three (two) buffers from the published head ... *)
  walk (q_dtable (b_q s')) tmem tok (N.to_nat (q_size (b_q s'))) = Some els
  (* ... laid out as the specification's [header R][data R|W][status W] ... *)
  /\ spec_shape (op_type (r_op r)) (data_len r) = Some (strip_addr els)
  (* ... and decodes to the operation, the exact sector, and (writes) the caller's bytes *)
  /\ dev_parse els (w_dev w') = Some (expect_sreq w r)
  (* the only caller memory the driver wrote is the header buffer *)
  /\ w_caller w' = aset (w_caller w) (b_id (r_hdr r)) (hdr_bytes r)
  /\ Reach (b_q s') (chains ++ [new_chain (b_q s) (req_ins r) (req_outs r) taddr]) (h ++ qevs evs)
  /\ c_head (new_chain (b_q s) (req_ins r) (req_outs r) taddr) = tok
  /\ evs = map BQ (qevs evs) ++ (if should_notify (b_q s') ae uf then [BNotify] else [])
  /\ b_cap s' = b_cap s /\ b_feat s' = b_feat s.
Proof.
  intros HR Hok Hrun Hmem els.
  unfold blk_submit_w, blk_submit in Hrun. rewrite (req_ok_asserts r Hok) in Hrun. cbn [negb] in Hrun.
  destruct (add (b_q s) (req_ins r) (req_outs r) taddr) as [[o q'] qe] eqn:Hadd.
  destruct o as [tok'| | |]; try discriminate.
  injection Hrun as <- <- <- <-.
  pose proof (req_ok_bufs_ok r Hok) as Hbok. unfold req_bufs in Hbok.
  destruct (add_publishes (b_q s) chains h (req_ins r) (req_outs r) taddr tok' q' qe tmem HR Hbok Hadd Hmem)
    as (_ & Hhead & _ & Hwalk & _ & _ & _ & _ & _ & _ & _ & HR').
  rewrite qevs_app, qevs_map_BQ.
  assert (Hq0 : qevs (if should_notify q' ae uf then [BNotify] else []) = []) by (destruct (should_notify q' ae uf); reflexivity).
  rewrite Hq0, app_nil_r.
  destruct (Reach_Inv _ _ _ HR) as [HI _].
  rewrite (add_world (b_q s) chains _ _ taddr tok' q' qe HI Hbok Hadd).
  cbn [setq b_q b_cap b_feat].
  split; [exact Hwalk|].
  unfold store_hdr. rewrite (req_ok_asserts r Hok).
  destruct Hok as (Hh & Hr & Hd & Hsec & Hid1 & Hid2).
  pose proof (hdr_bytes_len r) as Hlen.
  assert (Hdec : spec_decode_hdr (hdr_bytes r) = Some (op_type (r_op r), 0, r_sector r)).
  { unfold hdr_bytes. unfold w64. rewrite (N.mod_small (r_sector r)) by exact Hsec.
    apply hdr_roundtrip; [apply op_type_lt|exact Hsec]. }
  assert (Hl16 : length (hdr_bytes r) = 16%nat) by (unfold hdr_bytes; apply enc_req_length).
  unfold els, req_bufs, expect_sreq, data_len, req_ins, req_outs, data_len_ok, has_data in *.
  destruct r as [op sector [hid hl ha] [did dl da] [rid rl ra]].
  cbn [r_op r_sector r_hdr r_data r_resp b_id b_len b_addr] in *. subst hl rl.
  destruct op; cbn [tag_bufs map app buf_shares fold_left hal_share hal_ev fst snd b_id b_len b_addr w_caller w_dev
                   elems strip_addr op_type].
  - (* IN *)
    destruct Hd as (D0 & D512 & D32).
    split. { unfold spec_shape, T_IN. cbn [N.eqb]. destruct (N.eqb_spec dl 0); [contradiction|]. rewrite D512. reflexivity. }
    split; [|repeat split; auto].
    unfold dev_parse. cbn [readable_first forallb snd readable_part writable_part filter negb map concat fst snd sumN app].
    unfold el_bytes; cbn [fst snd].
    rewrite aset_eq, aset_eq, (takeN_all 16 _ Hlen), (takeN_all 16 _ Hlen), app_nil_r.
    rewrite hdr_firstn, Hdec, hdr_skipn.
    destruct (N.leb_spec 1 (dl + (1 + 0))); [|lia]. cbn [andb].
    do 2 f_equal. lia.
  - (* OUT *)
    destruct Hd as (D0 & D512 & D32). destruct (Hid2 eq_refl) as (I1 & I2 & A1).
    split. { unfold spec_shape, T_IN, T_OUT. cbn [N.eqb Pos.eqb]. destruct (N.eqb_spec dl 0); [contradiction|]. rewrite D512. reflexivity. }
    split; [|repeat split; auto].
    unfold dev_parse. cbn [readable_first forallb snd readable_part writable_part filter negb map concat fst snd sumN app].
    unfold el_bytes; cbn [fst snd].
    rewrite (aset_neq _ da _ ha A1), !aset_eq, (aset_neq _ hid _ did) by congruence.
    rewrite (takeN_all 16 _ Hlen), (takeN_all 16 _ Hlen), app_nil_r, takeN_idem.
    destruct (firstn_skipn_app 16 (hdr_bytes (mkReq OpOut sector (mkBuf hid 16 ha) (mkBuf did dl da) (mkBuf rid 1 ra)))
                (takeN dl (w_caller w did)) Hl16) as [F1 F2].
    rewrite F1, F2, Hdec. cbn [N.leb N.compare Pos.compare Pos.compare_cont N.add N.sub Pos.add Pos.sub]. reflexivity.
  - (* FLUSH *)
    split; [reflexivity|]. split; [|repeat split; auto].
    unfold dev_parse. cbn [readable_first forallb snd readable_part writable_part filter negb map concat fst snd sumN app].
    unfold el_bytes; cbn [fst snd].
    rewrite aset_eq, aset_eq, (takeN_all 16 _ Hlen), (takeN_all 16 _ Hlen), app_nil_r.
    rewrite hdr_firstn, Hdec, hdr_skipn. reflexivity.
  - (* GET_ID *)
    subst dl.
    split; [reflexivity|]. split; [|repeat split; auto].
    unfold dev_parse. cbn [readable_first forallb snd readable_part writable_part filter negb map concat fst snd sumN app].
    unfold el_bytes; cbn [fst snd].
    rewrite aset_eq, aset_eq, (takeN_all 16 _ Hlen), (takeN_all 16 _ Hlen), app_nil_r.
    rewrite hdr_firstn, Hdec, hdr_skipn. reflexivity.
Qed.

Lemma setq_id s : setq s (b_q s) = s.
Proof. destruct s; reflexivity. Qed.

Lemma req_bufs_len r : 2 <= lenN (req_bufs r) <= 3.
Proof. unfold req_bufs, req_ins, req_outs. destruct (r_op r); cbn; lia. Qed.

(* a submission is refused exactly when the queue has no room: nothing is shared, nothing published *)
Theorem submit_refusals s chains h w r taddr ae uf :
  Reach (b_q s) chains h -> req_ok r ->
  (capacity_ok (b_q s) (lenN (req_bufs r)) = false ->
     blk_submit_w s w r taddr ae uf = (Err EQueueFull, s, [], store_hdr w r))
  /\ (capacity_ok (b_q s) (lenN (req_bufs r)) = true ->
     exists tok s' evs w', blk_submit_w s w r taddr ae uf = (Ok tok, s', evs, w')).
Proof.
  intros HR Hok. pose proof (req_ok_bufs_ok r Hok) as Hbok.
  destruct (add_refusals (b_q s) chains h (req_ins r) (req_outs r) taddr HR Hbok) as (_ & R2 & R3).
  assert (Hne : tag_bufs (req_ins r) (req_outs r) <> []).
  { pose proof (req_bufs_len r) as L. unfold req_bufs in L. intros E. rewrite E in L. cbn in L. lia. }
  unfold blk_submit_w, blk_submit. rewrite (req_ok_asserts r Hok). cbn [negb]. split; intros Hc.
  - rewrite (R2 Hne Hc). rewrite setq_id. reflexivity.
  - destruct (R3 Hne Hc) as (s1 & evs1 & E). rewrite E. eauto.
Qed.

(* the documented length asserts: nothing happens at all *)
Lemma submit_bad_length s w r taddr ae uf :
  len_asserts r = false -> blk_submit_w s w r taddr ae uf = (Panic, s, [], w).
Proof. intros H. unfold blk_submit_w, blk_submit, store_hdr. rewrite H. reflexivity. Qed.

(* how many requests fit: with indirect descriptors one per table entry, else one per 3 (2) descriptors *)
Lemma capacity_16 q n : q_size q = 16 -> 1 <= n <= 3 ->
  capacity_ok q n = (if q_indirect q then q_num_used q <? 16 else q_num_used q + n <=? 16).
Proof. intros Hs Hn. unfold capacity_ok. rewrite Hs. destruct (q_indirect q); cbn [negb andb]; lia. Qed.

Lemma hd_takeN1 (l : list N) : hd 0 (takeN 1 l) = hd 0 l.
Proof. destruct l; reflexivity. Qed.

Lemma keys_resp r r0 : keys (req_bufs r) = keys (req_bufs r0) -> b_id (r_resp r) = b_id (r_resp r0).
Proof.
  unfold req_bufs, req_ins, req_outs, keys. intros H.
  destruct (r_op r), (r_op r0); cbn [tag_bufs map app fst snd] in H; try discriminate; injection H; intros; congruence.
Qed.

Definition is_read (r : breq) : bool := match r_op r with OpIn | OpGetId => true | _ => false end.

(* C14 completions: presenting the buffers of request r0 (token = head of its chain c), whatever else
   is outstanding (pre, post) and whatever the device wrote anywhere *)
Theorem complete_own s pre c post h w r r0 u_idx u_id u_len :
  Reach (b_q s) (pre ++ c :: post) h ->
  c_bufs c = req_bufs r0 -> keys (req_bufs r) = keys (req_bufs r0) -> req_ok r0 ->
  (q_last_used (b_q s) = w16 u_idx ->
     blk_complete_w s w (c_head c) r u_idx u_id u_len = (Err ENotReady, s, [], w))
  /\ (q_last_used (b_q s) <> w16 u_idx -> w16 u_id <> c_head c ->
     blk_complete_w s w (c_head c) r u_idx u_id u_len = (Err EWrongToken, s, [], w))
  /\ (q_last_used (b_q s) <> w16 u_idx -> w16 u_id = c_head c ->
     exists s' evs w',
       blk_complete_w s w (c_head c) r u_idx u_id u_len
         = (status_result (w8 (hd 0 (w_dev w (b_addr (r_resp r0))))), s', evs, w')
       /\ Reach (b_q s') (pre ++ post) (h ++ qevs evs)
       /\ w_dev w' = w_dev w
       /\ (is_read r0 = true ->
           w_caller w' (b_id (r_data r0)) = takeN (b_len (r_data r0)) (w_dev w (b_addr (r_data r0))))
       /\ (forall id, id <> b_id (r_resp r0) -> (is_read r0 = true -> id <> b_id (r_data r0)) ->
           w_caller w' id = w_caller w id)
       /\ b_cap s' = b_cap s /\ b_feat s' = b_feat s).
Proof.
  intros HR Hcb Hkeys Hok.
  assert (Hk : keys (tag_bufs (req_ins r) (req_outs r)) = keys (c_bufs c)) by (rewrite Hcb; exact Hkeys).
  destruct (pop_refines (b_q s) pre c post h (req_ins r) (req_outs r) u_idx u_id u_len HR Hk) as (P1 & P2 & P3).
  unfold blk_complete_w, blk_complete.
  split; [|split].
  - intros E. destruct (P1 E) as [-> _]. cbn [hal_run fold_left map]. now rewrite setq_id.
  - intros E1 E2. destruct (P2 E1 E2) as [-> _]. cbn [hal_run fold_left map]. now rewrite setq_id.
  - intros E1 E2.
    destruct (P3 E1 E2) as (s1 & evs1 & Hpop & HR1 & _).
    pose proof (pop_world (b_q s) pre c post h (req_ins r) (req_outs r) u_idx u_id u_len _ s1 evs1 HR Hk Hpop w) as Hw.
    rewrite Hpop. rewrite Hw. unfold resp_byte. rewrite (keys_resp r r0 Hkeys).
    rewrite Hcb. clear Hw Hpop P1 P2 P3 Hk.
    destruct Hok as (Hh & Hr & Hd & Hsec & Hid1 & Hid2).
    unfold req_bufs, req_ins, req_outs, is_read, has_data in *.
    destruct r0 as [op sector [hid hl ha] [did dl da] [rid rl ra]].
    cbn [r_op r_sector r_hdr r_data r_resp b_id b_len b_addr] in *. subst hl rl.
    destruct op; eexists; eexists; eexists;
      cbn [tag_bufs map app buf_shares fold_left hal_unshare hal_ev fst snd b_id b_len b_addr w_caller w_dev].
    + destruct (Hid2 eq_refl) as (I1 & I2 & _).
      rewrite aset_eq, hd_takeN1. split; [reflexivity|]. rewrite qevs_map_BQ. cbn [setq b_q b_cap b_feat w_dev w_caller].
      split; [exact HR1|]. split; [reflexivity|].
      split; [intros _; rewrite aset_neq by congruence; apply aset_eq|].
      split; [|split; reflexivity]. intros id A B. rewrite !aset_neq; auto.
    + rewrite aset_eq, hd_takeN1. split; [reflexivity|]. rewrite qevs_map_BQ. cbn [setq b_q b_cap b_feat w_dev w_caller].
      split; [exact HR1|]. split; [reflexivity|]. split; [intros X; discriminate X|].
      split; [|split; reflexivity]. intros id A B. rewrite !aset_neq; auto.
    + rewrite aset_eq, hd_takeN1. split; [reflexivity|]. rewrite qevs_map_BQ. cbn [setq b_q b_cap b_feat w_dev w_caller].
      split; [exact HR1|]. split; [reflexivity|]. split; [intros X; discriminate X|].
      split; [|split; reflexivity]. intros id A B. rewrite !aset_neq; auto.
    + destruct (Hid2 eq_refl) as (I1 & I2 & _).
      rewrite aset_eq, hd_takeN1. split; [reflexivity|]. rewrite qevs_map_BQ. cbn [setq b_q b_cap b_feat w_dev w_caller].
      split; [exact HR1|]. split; [reflexivity|].
      split; [intros _; rewrite aset_neq by congruence; apply aset_eq|].
      split; [|split; reflexivity]. intros id A B. rewrite !aset_neq; auto.
Qed.

(* ================= several requests outstanding, completed in any order ================= *)
(* an outstanding request: its token and its buffers as submitted (with the addresses Hal answered) *)
Definition matches (c : chain) (tr : N * breq) : Prop :=
  c_head c = fst tr /\ c_bufs c = req_bufs (snd tr).
Definition outstanding (chains : list chain) (rs : list (N * breq)) : Prop := Forall2 matches chains rs.

(* caller buffers a completion writes: the response byte, and the data buffer of a read *)
Definition wids (r : breq) : list N :=
  b_id (r_resp r) :: (if is_read r then [b_id (r_data r)] else []).

(* the completions happen in the order the DEVICE chose (each step: the used ring presents tok next);
   the used index, id and length words the driver reads are otherwise arbitrary *)
Inductive Completes : bstate -> world -> list (N * breq) -> list (outcome unit) -> bstate -> world -> Prop :=
| C_nil s w : Completes s w [] [] s w
| C_step s w tok r rest u_idx u_id u_len o s1 evs w1 os s2 w2 :
    q_last_used (b_q s) <> w16 u_idx -> w16 u_id = tok ->
    blk_complete_w s w tok r u_idx u_id u_len = (o, s1, evs, w1) ->
    Completes s1 w1 rest os s2 w2 ->
    Completes s w ((tok, r) :: rest) (o :: os) s2 w2.

Definition own_status (w : world) (tr : N * breq) : outcome unit :=
  status_result (w8 (hd 0 (w_dev w (b_addr (r_resp (snd tr)))))).
Definition own_data (w : world) (tr : N * breq) : list N :=
  takeN (b_len (r_data (snd tr))) (w_dev w (b_addr (r_data (snd tr)))).

(* C14_out_of_order: rs = the outstanding requests in submission order, order = ANY permutation of
   them. Each completion returns the status found at its own request's status address, each read
   leaves in its own buffer what the device put at its own data address, nothing else is touched,
   and the queue is empty afterwards. *)
Theorem out_of_order : forall order s w os s2 w2,
  Completes s w order os s2 w2 ->
  forall chains h rs,
  Reach (b_q s) chains h -> outstanding chains rs -> Permutation order rs ->
  Forall (fun tr => req_ok (snd tr)) order ->
  NoDup (concat (map (fun tr => wids (snd tr)) order)) ->
  os = map (own_status w) order
  /\ (forall tr, In tr order -> is_read (snd tr) = true -> w_caller w2 (b_id (r_data (snd tr))) = own_data w tr)
  /\ (forall id, ~ In id (concat (map (fun tr => wids (snd tr)) order)) -> w_caller w2 id = w_caller w id)
  /\ w_dev w2 = w_dev w
  /\ (exists h', Reach (b_q s2) [] h')
  /\ b_cap s2 = b_cap s /\ b_feat s2 = b_feat s.
Proof.
  induction 1 as [s w|s w tok r rest u_idx u_id u_len o s1 evs w1 os s2 w2 E1 E2 Hrun Hrest IH];
    intros chains h rs HR Hout Hperm Hok Hnd.
  - apply Permutation_nil in Hperm. subst rs. inversion Hout; subst.
    cbn [map concat]. repeat split; auto; try contradiction. eauto.
  - assert (Hin : In (tok, r) rs) by (eapply Permutation_in; [exact Hperm|now left]).
    apply in_split in Hin. destruct Hin as (r1 & r2 & ->).
    apply Forall2_app_inv_r in Hout. destruct Hout as (pre & cpost & Hpre & Hcpost & ->).
    inversion Hcpost as [|c ? post ? [Hhead Hbufs] Hpost]; subst. cbn [fst snd] in Hhead, Hbufs.
    apply Permutation_cons_app_inv in Hperm.
    inversion Hok as [|? ? Hokr Hokrest]; subst. cbn [snd] in Hokr.
    cbn [map concat snd] in Hnd.
    destruct (complete_own s pre c post h w r r u_idx u_id u_len HR Hbufs eq_refl Hokr) as (_ & _ & P3).
    rewrite <- Hhead in Hrun.
    destruct (P3 E1 (eq_sym Hhead)) as (s1' & evs' & w1' & Hrun' & HR1 & Hdev & Hdata & Hframe & Hc & Hf).
    rewrite Hrun' in Hrun. injection Hrun as <- <- <- <-.
    assert (Hout' : outstanding (pre ++ post) (r1 ++ r2)) by (apply Forall2_app; assumption).
    destruct (IH _ _ _ HR1 Hout' Hperm Hokrest (NoDup_app_remove_l _ _ Hnd))
      as (Hos & Hdat & Hfr & Hdv & Hre & Hc2 & Hf2).
    assert (Hsame : forall tr, own_status w1' tr = own_status w tr /\ own_data w1' tr = own_data w tr).
    { intros tr. unfold own_status, own_data. now rewrite Hdev. }
    split.
    { cbn [map]. f_equal. rewrite Hos. apply map_ext. intros tr. apply Hsame. }
    split.
    { intros tr [<-|Hin] Hrd.
      - cbn [snd] in *. rewrite Hfr.
        + unfold own_data. cbn [snd]. apply Hdata. exact Hrd.
        + intros Hbad. apply (NoDup_app_disj _ _ (b_id (r_data r)) Hnd); [|exact Hbad].
          unfold wids. rewrite Hrd. right. now left.
      - rewrite (Hdat tr Hin Hrd). apply Hsame. }
    split.
    { intros id Hid. cbn [map concat snd] in Hid. rewrite Hfr by (intros B; apply Hid; apply in_or_app; now right).
      apply Hframe.
      - intros ->. apply Hid. apply in_or_app. left. unfold wids. now left.
      - intros Hrd ->. apply Hid. apply in_or_app. left. unfold wids. rewrite Hrd. right. now left. }
    split; [now rewrite Hdv|]. split; [exact Hre|]. split; congruence.
Qed.

(* ================= the world-level operations are the flat operations the correspondence ties ================= *)
Lemma submit_w_core s w r taddr ae uf :
  blk_submit_w s w r taddr ae uf
  = (let '(o, s', evs) := blk_submit s r taddr ae uf in (o, s', evs, hal_run (store_hdr w r) (qevs evs))).
Proof. reflexivity. Qed.

Lemma complete_w_core s w token r u_idx u_id u_len o s' evs w' :
  blk_complete_w s w token r u_idx u_id u_len = (o, s', evs, w') ->
  blk_complete s token r u_idx u_id u_len (resp_byte w' r) = (o, s', evs).
Proof.
  unfold blk_complete_w. destruct (pop_used (b_q s) token (req_ins r) (req_outs r) u_idx u_id u_len) as [[o1 q1] qe].
  destruct (blk_complete s token r u_idx u_id u_len (resp_byte (hal_run w qe) r)) as [[o2 s2] e2] eqn:E.
  intros H. injection H as <- <- <- <-. exact E.
Qed.

Lemma wait_loop_spec q polls n sp u : wait_loop q polls n = Some (sp, u) -> can_pop q u = true.
Proof.
  revert n. induction polls as [|p polls IH]; intros n H; cbn [wait_loop] in H; [discriminate|].
  destruct (can_pop q p) eqn:E; [injection H as _ <-; exact E|eauto].
Qed.

(* ================= blocking calls ================= *)
(* C14_result: one blocking request on an idle queue, for EVERY device behaviour (dev: any change of
   device-visible memory between submission and completion; any used-ring words) *)
Theorem request_blocking s h w r taddr ae uf dev polls u_id u_len o s2 evs w3 tmem :
  Reach (b_q s) [] h -> q_size (b_q s) = 16 -> req_ok r ->
  blk_request_w s w r taddr ae uf dev polls u_id u_len = Some (o, s2, evs, w3) ->
  (forall ta tbl, c_tbl (new_chain (b_q s) (req_ins r) (req_outs r) taddr) = Some (ta, tbl) -> tmem ta = Some tbl) ->
  let w0 := mkW (aset (w_caller w) (b_id (r_resp r)) [RESP_DEFAULT]) (w_dev w) in
  exists tok s1 evs1 w1,
    blk_submit_w s w0 r taddr ae uf = (Ok tok, s1, evs1, w1)
    (* the device finds the request, and for a write exactly the caller's bytes *)
    /\ walk (q_dtable (b_q s1)) tmem tok (N.to_nat (q_size (b_q s1))) = Some (elems (req_bufs r))
    /\ dev_parse (elems (req_bufs r)) (w_dev w1) = Some (expect_sreq w0 r)
    /\ let dm := dev (w_dev w1) in
       (w16 u_id = tok ->
          o = status_result (w8 (hd 0 (dm (b_addr (r_resp r)))))
          /\ (is_read r = true -> w_caller w3 (b_id (r_data r)) = takeN (b_len (r_data r)) (dm (b_addr (r_data r))))
          /\ (exists h', Reach (b_q s2) [] h')
          /\ b_cap s2 = b_cap s /\ b_feat s2 = b_feat s)
       (* a device that completes something else first breaks the documented assumption of
          add_notify_wait_pop: the error is returned and the request stays in the queue *)
       /\ (w16 u_id <> tok -> o = Err EWrongToken).
Proof.
  intros HR Hsz Hok Hrun Hmem w0.
  destruct (counts_exact _ _ _ HR) as (Hnu & _). cbn in Hnu.
  pose proof (req_bufs_len r) as Hlen.
  assert (Hcap : capacity_ok (b_q s) (lenN (req_bufs r)) = true).
  { rewrite capacity_16 by (auto; lia). rewrite Hnu. destruct (q_indirect (b_q s)); [reflexivity|]. lia. }
  destruct (submit_refusals s [] h w0 r taddr ae uf HR Hok) as (_ & R2).
  destruct (R2 Hcap) as (tok & s1 & evs1 & w1 & Hsub).
  unfold blk_request_w in Hrun. fold w0 in Hrun. rewrite Hsub in Hrun.
  destruct (submit_wire s [] h w0 r taddr ae uf tok s1 evs1 w1 tmem HR Hok Hsub Hmem)
    as (Hwalk & _ & Hparse & _ & HR1 & Hhead & _ & Hc1 & Hf1).
  exists tok, s1, evs1, w1. split; [exact Hsub|]. split; [exact Hwalk|]. split; [exact Hparse|].
  destruct (wait_loop (b_q s1) polls 0) as [[sp u_idx]|] eqn:Ew; [|discriminate].
  apply wait_loop_spec in Ew. unfold can_pop in Ew.
  destruct (N.eqb_spec (q_last_used (b_q s1)) (w16 u_idx)) as [|E1]; [discriminate|].
  set (c := new_chain (b_q s) (req_ins r) (req_outs r) taddr) in *.
  set (w2 := mkW (w_caller w1) (dev (w_dev w1))) in *.
  cbn [app] in HR1.
  assert (Hcb : c_bufs c = req_bufs r) by (unfold c; apply new_chain_bufs).
  destruct (complete_own s1 [] c [] (h ++ qevs evs1) w2 r r u_idx u_id u_len HR1 Hcb eq_refl Hok) as (_ & P2 & P3).
  rewrite Hhead in P2, P3.
  destruct (blk_complete_w s1 w2 tok r u_idx u_id u_len) as [[[o2 s2'] evs2] w3'] eqn:Ec.
  injection Hrun as <- <- <- <-.
  split.
  - intros E2. destruct (P3 E1 E2) as (sx & ex & wx & Heq & HRx & _ & Hdata & _ & Hcx & Hfx).
    injection Heq as -> <- <- <-. cbn [w_dev] in *.
    split; [reflexivity|]. split; [exact Hdata|]. split; [eauto|]. split; congruence.
  - intros E2. pose proof (P2 E1 E2) as Q. congruence.
Qed.

(* ================= flush gating, device id ================= *)
Theorem flush_gating s hdr resp taddr ae uf polls u_id u_len st :
  (has_feat (b_feat s) BF_FLUSH = false ->
     blk_flush s hdr resp taddr ae uf polls u_id u_len st = Some (Ok tt, s, [], 0))
  /\ (has_feat (b_feat s) BF_FLUSH = true ->
     blk_flush s hdr resp taddr ae uf polls u_id u_len st
     = blk_request s (mkReq OpFlush 0 hdr (mkBuf 0 0 0) resp) taddr ae uf polls u_id u_len st).
Proof. unfold blk_flush. split; intros ->; reflexivity. Qed.

(* the features survive every operation, so the gate is the negotiation result for the whole life
   of the driver; together with new_config: flush reaches the device iff the device offered bit 9 *)
Lemma request_keeps_config s r taddr ae uf polls u_id u_len st o s' evs sp :
  blk_request s r taddr ae uf polls u_id u_len st = Some (o, s', evs, sp) ->
  b_cap s' = b_cap s /\ b_feat s' = b_feat s.
Proof.
  unfold blk_request, blk_submit, blk_complete.
  destruct (negb (len_asserts r)); [intros H; injection H as <- <- <- <-; auto|].
  destruct (add (b_q s) (req_ins r) (req_outs r) taddr) as [[o1 q1] e1].
  destruct o1 as [tok| | |]; try (intros H; injection H as <- <- <- <-; auto).
  destruct (wait_loop (b_q (setq s q1)) polls 0) as [[sp' u]|]; [|discriminate].
  destruct (pop_used (b_q (setq s q1)) tok (req_ins r) (req_outs r) u u_id u_len) as [[o2 q2] e2].
  destruct o2; intros H; injection H as <- <- <- <-; auto.
Qed.

Theorem id_length_spec l :
  id_length l <= lenN l
  /\ Forall (fun b => b <> 0) (firstn (N.to_nat (id_length l)) l)
  /\ (id_length l < lenN l -> nthN_error l (id_length l) = Some 0).
Proof.
  induction l as [|b l (IH1 & IH2 & IH3)]; [cbn; repeat split; [lia|constructor|lia]|].
  cbn [id_length]. rewrite lenN_cons. destruct (N.eqb_spec b 0) as [->|Hb].
  - split; [lia|]. split; [constructor|]. intros _. reflexivity.
  - split; [lia|]. replace (N.to_nat (1 + id_length l)) with (S (N.to_nat (id_length l))) by lia.
    split; [cbn [firstn]; constructor; assumption|].
    intros H. unfold nthN_error in *. replace (N.to_nat (1 + id_length l)) with (S (N.to_nat (id_length l))) by lia.
    cbn [nth_error]. apply IH3. lia.
Qed.

(* ================= the specification-side device's answer lands where the driver looks ================= *)
Lemma lenN_0_nil {A} (l : list A) : lenN l = 0 -> l = [].
Proof. destruct l; [reflexivity|]. rewrite lenN_cons. lia. Qed.

Theorem answer_lands r payload st m :
  req_ok r -> (is_read r = true -> b_addr (r_data r) <> b_addr (r_resp r)) ->
  lenN payload = (if is_read r then b_len (r_data r) else 0) ->
  let m' := dev_answer (elems (req_bufs r)) payload st m in
  hd 0 (m' (b_addr (r_resp r))) = st
  /\ (is_read r = true -> takeN (b_len (r_data r)) (m' (b_addr (r_data r))) = payload)
  /\ (forall a, a <> b_addr (r_resp r) -> (is_read r = true -> a <> b_addr (r_data r)) -> m' a = m a).
Proof.
  intros (Hh & Hr & _) Haddr Hlen m'. subst m'.
  unfold dev_answer, req_bufs, req_ins, req_outs, is_read in *.
  destruct r as [op sector [hid hl ha] [did dl da] [rid rl ra]].
  cbn [r_op r_sector r_hdr r_data r_resp b_id b_len b_addr] in *. subst hl rl.
  assert (T1 : forall x : N, takeN 1 [x] = [x]) by reflexivity.
  destruct op; cbn [tag_bufs map app elems writable_part filter fst snd b_addr b_len dev_respond].
  - assert (L : length payload = N.to_nat dl) by (unfold lenN in Hlen; lia).
    destruct (firstn_skipn_app (N.to_nat dl) payload [st] L) as [F1 F2].
    change (takeN dl (payload ++ [st])) with (firstn (N.to_nat dl) (payload ++ [st])). rewrite F1, F2, T1. specialize (Haddr eq_refl).
    split; [now rewrite aset_eq|].
    split; [intros _; rewrite aset_neq by exact Haddr; rewrite aset_eq; now apply takeN_all|].
    intros a A B. rewrite !aset_neq; auto.
  - apply lenN_0_nil in Hlen. subst payload. cbn [app]. rewrite T1.
    split; [now rewrite aset_eq|]. split; [intros X; discriminate X|]. intros a A _. now rewrite aset_neq.
  - apply lenN_0_nil in Hlen. subst payload. cbn [app]. rewrite T1.
    split; [now rewrite aset_eq|]. split; [intros X; discriminate X|]. intros a A _. now rewrite aset_neq.
  - assert (L : length payload = N.to_nat dl) by (unfold lenN in Hlen; lia).
    destruct (firstn_skipn_app (N.to_nat dl) payload [st] L) as [F1 F2].
    change (takeN dl (payload ++ [st])) with (firstn (N.to_nat dl) (payload ++ [st])). rewrite F1, F2, T1. specialize (Haddr eq_refl).
    split; [now rewrite aset_eq|].
    split; [intros _; rewrite aset_neq by exact Haddr; rewrite aset_eq; now apply takeN_all|].
    intros a A B. rewrite !aset_neq; auto.
Qed.

(* end to end: a device that answers per the specification (payload for IN / GET_ID, then the status
   byte, laid over the device-writable part of the chain it walked) makes the blocking call return
   the mapped status with exactly the payload in the caller's buffer *)
Theorem request_spec_device s h w r taddr ae uf payload st polls u_id u_len o s2 evs w3 tok s1 evs1 w1 :
  Reach (b_q s) [] h -> q_size (b_q s) = 16 -> req_ok r ->
  (is_read r = true -> b_addr (r_data r) <> b_addr (r_resp r)) ->
  lenN payload = (if is_read r then b_len (r_data r) else 0) ->
  blk_submit_w s (mkW (aset (w_caller w) (b_id (r_resp r)) [RESP_DEFAULT]) (w_dev w)) r taddr ae uf = (Ok tok, s1, evs1, w1) ->
  blk_request_w s w r taddr ae uf (dev_answer (elems (req_bufs r)) payload st) polls u_id u_len = Some (o, s2, evs, w3) ->
  w16 u_id = tok ->
  o = status_result (w8 st) /\ (is_read r = true -> w_caller w3 (b_id (r_data r)) = payload).
Proof.
  intros HR Hsz Hok Haddr Hlen Hsub Hrun Etok.
  set (tm := fun _ : N => option_map snd (c_tbl (new_chain (b_q s) (req_ins r) (req_outs r) taddr))).
  destruct (request_blocking s h w r taddr ae uf _ polls u_id u_len o s2 evs w3 tm HR Hsz Hok Hrun)
    as (tok' & s1' & evs1' & w1' & Hsub' & _ & _ & Hres & _).
  { intros ta tbl E. unfold tm. rewrite E. reflexivity. }
  rewrite Hsub in Hsub'. injection Hsub' as <- <- <- <-.
  destruct (Hres Etok) as (Ho & Hdata & _).
  destruct (answer_lands r payload st (w_dev w1) Hok Haddr Hlen) as (A1 & A2 & _).
  rewrite A1 in Ho. split; [exact Ho|]. intros Hrd. rewrite (Hdata Hrd). apply A2. exact Hrd.
Qed.

(* ================= non-vacuity: concrete instances of every hypothesis set ================= *)
Definition ex_s0 (ind ev : bool) : bstate := mkB (qnew 16 ind ev) 100 0.
Definition ex_w : world := mkW (fun id => if id =? 5 then repeat 7 512 else []) (fun a => if a =? 6000 then [2] else if a =? 2000 then repeat 9 512 else []).
Definition ex_r1 : breq := mkReq OpIn 5 (mkBuf 1 16 1000) (mkBuf 2 512 2000) (mkBuf 3 1 3000).
Definition ex_r2 : breq := mkReq OpOut 18446744073709551615 (mkBuf 4 16 4000) (mkBuf 5 512 5000) (mkBuf 6 1 6000).

Lemma ex_reach0 ind ev : Reach (b_q (ex_s0 ind ev)) [] [].
Proof. exact (R_new 4 ind ev 0 ltac:(lia) ltac:(reflexivity)). Qed.

Lemma ex_r1_ok : req_ok ex_r1.
Proof. unfold req_ok, ex_r1, data_len_ok, has_data, two32, two64; cbn. repeat split; try lia; discriminate. Qed.
Lemma ex_r2_ok : req_ok ex_r2.
Proof. unfold req_ok, ex_r2, data_len_ok, has_data, two32, two64; cbn. repeat split; try lia; discriminate. Qed.

Example submit_wire_nonvacuous :
  exists tok s' evs w', blk_submit_w (ex_s0 true true) ex_w ex_r2 777 0 0 = (Ok tok, s', evs, w')
    /\ Reach (b_q (ex_s0 true true)) [] [] /\ req_ok ex_r2 /\ tok = 0 /\ In BNotify evs.
Proof.
  eexists; eexists; eexists; eexists. split; [vm_compute; reflexivity|].
  split; [apply ex_reach0|]. split; [apply ex_r2_ok|]. split; [reflexivity|]. cbn. tauto.
Qed.

(* a read and a write outstanding on a direct queue, completed in the reverse order *)
Example out_of_order_nonvacuous :
  exists s w chains h rs order os s2 w2,
    Reach (b_q s) chains h /\ outstanding chains rs /\ Permutation order rs /\ order <> rs
    /\ Forall (fun tr => req_ok (snd tr)) order
    /\ NoDup (concat (map (fun tr => wids (snd tr)) order))
    /\ Completes s w order os s2 w2 /\ os = [Err EUnsupported; Ok tt].
Proof.
  destruct (blk_submit_w (ex_s0 false false) ex_w ex_r1 0 0 0) as [[[o1 s1] e1] w1] eqn:E1.
  assert (E1' := E1). vm_compute in E1'. injection E1' as Ho1 Hs1 He1 Hw1. subst o1.
  destruct (submit_wire _ [] [] ex_w ex_r1 0 0 0 0 s1 e1 w1 (fun _ => None) (ex_reach0 false false) ex_r1_ok E1)
    as (_ & _ & _ & _ & HR1 & Hh1 & _); [intros ta tbl X; discriminate X|].
  destruct (blk_submit_w s1 w1 ex_r2 0 0 0) as [[[o2 s2] e2] w2] eqn:E2.
  assert (E2' := E2). rewrite <- Hs1, <- Hw1 in E2'. vm_compute in E2'. injection E2' as Ho2 Hs2 He2 Hw2. subst o2.
  destruct (submit_wire s1 _ _ w1 ex_r2 0 0 0 3 s2 e2 w2 (fun _ => None) HR1 ex_r2_ok E2)
    as (_ & _ & _ & _ & HR2 & Hh2 & _).
  { intros ta tbl X. rewrite <- Hs1 in X. vm_compute in X. discriminate X. }
  set (c1 := new_chain (b_q (ex_s0 false false)) (req_ins ex_r1) (req_outs ex_r1) 0) in *.
  set (c2 := new_chain (b_q s1) (req_ins ex_r2) (req_outs ex_r2) 0) in *.
  exists s2, w2, (([] ++ [c1]) ++ [c2]), (([] ++ qevs e1) ++ qevs e2), [(0, ex_r1); (3, ex_r2)], [(3, ex_r2); (0, ex_r1)].
  eexists; eexists; eexists.
  split; [exact HR2|].
  split. { repeat constructor; cbn [fst snd]; auto; apply new_chain_bufs. }
  split; [apply perm_swap|]. split; [discriminate|].
  split; [constructor; [apply ex_r2_ok|constructor; [apply ex_r1_ok|constructor]]|].
  split. { cbn. repeat constructor; cbn; intuition discriminate. }
  rewrite <- Hs2, <- Hw2.
  split.
  - eapply (C_step _ _ 3 ex_r2 _ 1 3 1); [vm_compute; discriminate|reflexivity|vm_compute; reflexivity|].
    eapply (C_step _ _ 0 ex_r1 _ 2 0 513); [vm_compute; discriminate|reflexivity|vm_compute; reflexivity|].
    apply C_nil.
  - reflexivity.
Qed.

Example request_blocking_nonvacuous :
  exists o s2 evs w3,
    blk_request_w (ex_s0 true false) ex_w ex_r1 555 0 0 (dev_answer (elems (req_bufs ex_r1)) (repeat 66 512) 0) [0; 0; 1] 0 513
      = Some (o, s2, evs, w3)
    /\ o = Ok tt /\ w_caller w3 2 = repeat 66 512.
Proof. eexists; eexists; eexists; eexists. split; [vm_compute; reflexivity|]. split; reflexivity. Qed.

Example complete_own_nonvacuous :
  (* the hypotheses of complete_own are those established by submit_wire (Reach, c_bufs) *)
  forall s chains h w r taddr ae uf tok s' evs w',
  Reach (b_q s) chains h -> req_ok r -> blk_submit_w s w r taddr ae uf = (Ok tok, s', evs, w') ->
  exists c, Reach (b_q s') (chains ++ c :: []) (h ++ qevs evs) /\ c_bufs c = req_bufs r /\ c_head c = tok.
Proof.
  intros s chains h w r taddr ae uf tok s' evs w' HR Hok Hsub.
  set (tm := fun _ : N => option_map snd (c_tbl (new_chain (b_q s) (req_ins r) (req_outs r) taddr))).
  destruct (submit_wire s chains h w r taddr ae uf tok s' evs w' tm HR Hok Hsub) as (_ & _ & _ & _ & HR1 & Hh & _).
  { intros ta tbl E. unfold tm. rewrite E. reflexivity. }
  eexists. split; [exact HR1|]. split; [apply new_chain_bufs|exact Hh].
Qed.
