(* C20 (part: rng / rtc / 9p): the three small command/response drivers.                               *)
(* Model/Misc.v (the drivers, on top of the virtqueue model) against Model/MiscSpec.v (wire formats,    *)
(* status and capability tables, config layout, UTF-8, written from the specification text) and the    *)
(* Hal memory contract of Model/BlkSpec.v (hal_ev / hal_run: what share / unshare do to memory).        *)
(* The queue-level facts are corollaries of the virtqueue theorems (add_publishes, pop_refines, ...).   *)
From VD Require Import Base.Words Base.ListUpd Model.Queue Model.Blk Model.BlkSpec Model.BlkWorld
  Model.Misc Model.MiscSpec
  Proofs.QueueInv Proofs.QueueReach Proofs.QueueProps Proofs.BlkProofs.
From Coq Require Import ZArith Lia ZifyBool ZifyN Permutation.
Ltac Zify.zify_post_hook ::= Z.div_mod_to_equations.

(* ====================================================================================== *)
(* 1. add_notify_wait_pop on an idle queue, against memory, for EVERY device behaviour    *)
(* ====================================================================================== *)

(* the helper run against memory: shares happen in add, the device then does anything it likes to
   device-visible memory (dev), the unshares of pop_used copy back *)
Definition anwp_w (q : qstate) (w : world) (ins outs : list ubuf) (taddr ae uf : N) (dev : amap -> amap)
  (polls : list N) (u_id u_len : N) : option (outcome N * qstate * list bev * N * world) :=
  let '(o, q1, evs) := add q ins outs taddr in
  let w1 := hal_run w evs in
  match o with
  | Ok tok =>
      let nevs := map BQ evs ++ (if should_notify q1 ae uf then [BNotify] else []) in
      match wait_loop q1 polls 0 with
      | None => None
      | Some (spins, u_idx) =>
          let w2 := mkW (w_caller w1) (dev (w_dev w1)) in
          let '(o2, q2, evs2) := pop_used q1 tok ins outs u_idx u_id u_len in
          Some (o2, q2, nevs ++ map BQ evs2, spins, hal_run w2 evs2)
      end
  | Err e => Some (Err e, q1, map BQ evs, 0, w1)
  | Panic => Some (Panic, q1, map BQ evs, 0, w1)
  | UB => Some (UB, q1, map BQ evs, 0, w1)
  end.

(* ... is the flat operation that is replayed against the implementation, plus memory *)
Lemma anwp_w_core q w ins outs taddr ae uf dev polls u_id u_len :
  option_map (fun x => fst x) (anwp_w q w ins outs taddr ae uf dev polls u_id u_len)
  = anwp q ins outs taddr ae uf polls u_id u_len.
Proof.
  unfold anwp_w, anwp. destruct (add q ins outs taddr) as [[o q1] evs].
  destruct o; try reflexivity.
  destruct (wait_loop q1 polls 0) as [[sp u_idx]|]; [|reflexivity].
  destruct (pop_used q1 a ins outs u_idx u_id u_len) as [[o2 q2] evs2]. reflexivity.
Qed.

Definition Idle (q : qstate) : Prop := exists h, Reach q [] h.

Lemma idle_capacity q n : Idle q -> 1 <= n <= q_size q -> capacity_ok q n = true.
Proof.
  intros [h HR] Hn. destruct (counts_exact _ _ _ HR) as (Hnu & _). cbn in Hnu.
  unfold capacity_ok. rewrite Hnu.
  destruct (N.ltb_spec (q_size q) (0 + 1)); [lia|].
  destruct (N.ltb_spec (q_size q) n); [lia|].
  destruct (N.ltb_spec (q_size q) (0 + n)); [lia|]. now rewrite andb_false_r.
Qed.

Lemma lenN_pos {A} (l : list A) : l <> [] -> 1 <= lenN l.
Proof. destruct l; [congruence|]. intros _. rewrite lenN_cons. lia. Qed.

(* The central statement. For every idle reachable queue state, every caller buffers (non-empty,
   fitting the queue), every share address, every memory, every device behaviour between submission and
   completion, every used-ring content on which the wait ends:
   - the submission succeeds, the device reaches exactly the caller's buffers from the published head,
     readable ones first, and device-visible memory holds the readable buffers' contents;
   - notify iff should_notify;
   - if the device used the chain it was given: the result is the used length it recorded (mod 2^32),
     the writable buffers hold what the device left at their addresses, the queue is idle again;
   - if the device used another id: WrongToken, and nothing is copied back. *)
Theorem anwp_blocking q w ins outs taddr ae uf dev polls u_id u_len o q2 evs sp w3 tmem :
  Idle q -> bufs_ok (tag_bufs ins outs) -> tag_bufs ins outs <> [] -> lenN (tag_bufs ins outs) <= q_size q ->
  anwp_w q w ins outs taddr ae uf dev polls u_id u_len = Some (o, q2, evs, sp, w3) ->
  (forall ta tbl, c_tbl (new_chain q ins outs taddr) = Some (ta, tbl) -> tmem ta = Some tbl) ->
  let tok := q_free_head q in
  exists q1 evs1 evs2,
    add q ins outs taddr = (Ok tok, q1, evs1)
    /\ walk (q_dtable q1) tmem tok (N.to_nat (q_size q1)) = Some (elems (tag_bufs ins outs))
    /\ readable_first (elems (tag_bufs ins outs)) = true
    /\ evs = map BQ evs1 ++ (if should_notify q1 ae uf then [BNotify] else []) ++ map BQ evs2
    /\ let w1 := fold_left hal_share (buf_shares (tag_bufs ins outs)) w in
       let w2 := mkW (w_caller w1) (dev (w_dev w1)) in
       (w16 u_id = tok ->
          o = Ok (w32 u_len)
          /\ w3 = fold_left hal_unshare (buf_shares (tag_bufs ins outs)) w2
          /\ Idle q2 /\ q_size q2 = q_size q /\ q_indirect q2 = q_indirect q /\ q_event_idx q2 = q_event_idx q)
       /\ (w16 u_id <> tok -> o = Err EWrongToken /\ w3 = w2 /\ evs2 = []).
Proof.
  intros HId Hok Hne Hlen Hrun Hmem tok.
  assert (Hcap : capacity_ok q (lenN (tag_bufs ins outs)) = true).
  { apply idle_capacity; [exact HId|]. split; [now apply lenN_pos|exact Hlen]. }
  destruct HId as [h HR].
  destruct (add_refusals q [] h ins outs taddr HR Hok) as (_ & _ & A3).
  destruct (A3 Hne Hcap) as (q1 & evs1 & Hadd).
  fold tok in Hadd.
  destruct (add_publishes q [] h ins outs taddr tok q1 evs1 tmem HR Hok Hadd Hmem)
    as (_ & Hhead & Hcb & Hwalk & Hrf & _ & _ & _ & _ & _ & _ & HR1).
  cbn [app] in HR1.
  destruct (Reach_Inv _ _ _ HR) as [HI _].
  pose proof (add_world q [] ins outs taddr tok q1 evs1 HI Hok Hadd) as Hw1.
  unfold anwp_w in Hrun. rewrite Hadd in Hrun.
  destruct (wait_loop q1 polls 0) as [[sp' u_idx]|] eqn:Ew; [|discriminate].
  apply wait_loop_spec in Ew. unfold can_pop in Ew.
  destruct (N.eqb_spec (q_last_used q1) (w16 u_idx)) as [|E1]; [discriminate|].
  set (c := new_chain q ins outs taddr) in *.
  destruct (pop_refines q1 [] c [] (h ++ evs1) ins outs u_idx u_id u_len HR1) as (_ & P2 & P3).
  { now rewrite Hcb. }
  rewrite Hhead in P2, P3.
  destruct (pop_used q1 tok ins outs u_idx u_id u_len) as [[o2 q2'] evs2] eqn:Epop.
  injection Hrun as <- <- <- <- <-.
  exists q1, evs1, evs2.
  split; [exact Hadd|]. split; [exact Hwalk|]. split; [exact Hrf|].
  split; [now rewrite <- app_assoc|].
  rewrite Hw1. cbn zeta. split.
  - intros E2. destruct (P3 E1 E2) as (sx & ex & Heq & HRx & _ & _ & _ & _ & _ & _ & _ & Hsz & Hind & Hev & _).
    injection Heq as -> <- <-.
    split; [reflexivity|]. split.
    + rewrite <- Hhead in Epop.
      rewrite (pop_world q1 [] c [] (h ++ evs1) ins outs u_idx u_id u_len _ _ _ HR1 ltac:(now rewrite Hcb) Epop).
      now rewrite Hcb.
    + cbn [app] in HRx. split; [eexists; exact HRx|].
      destruct (add_ok q [] ins outs taddr HI Hne Hok Hcap)
        as (s1 & e1 & c1 & Hrun1 & _ & _ & _ & _ & _ & _ & _ & Hsz1 & Hind1 & Hev1 & _).
      rewrite Hadd in Hrun1. injection Hrun1 as <- <-.
      repeat split; congruence.
  - intros E2. destruct (P2 E1 E2) as [Heq _]. injection Heq as -> -> ->. auto.
Qed.

(* ====================================================================================== *)
(* 2. wire formats                                                                        *)
(* ====================================================================================== *)
Lemma le_num_le_bytes n x : le_num (le_bytes n x) = x mod 256 ^ N.of_nat n.
Proof.
  revert x. induction n as [|n IH]; intros x.
  - cbn [le_bytes le_num fold_right]. change (256 ^ N.of_nat 0) with 1. now rewrite N.mod_1_r.
  - cbn [le_bytes]. unfold le_num in *. cbn [fold_right]. rewrite IH.
    replace (N.of_nat (S n)) with (N.succ (N.of_nat n)) by lia.
    rewrite N.pow_succ_r'. rewrite N.mod_mul_r; [reflexivity|discriminate|].
    apply N.pow_nonzero. discriminate.
Qed.

Lemma ltb256 x : (x mod 256 <? 256) = true.
Proof. apply N.ltb_lt. apply N.mod_lt. discriminate. Qed.

(* the abstract request a driver-side request stands for; clock_id: u16, hw_counter: u8 *)
Definition abs_req (r : rtc_req) : sreq :=
  match r with
  | RCfg => SCfg
  | RClockCap id => SClockCap id
  | RRead id => SRead id
  | RCrossCap id hw => SCrossCap id hw
  | RReadCross id hw => SReadCross id hw
  end.

Definition req_wf (r : rtc_req) : Prop :=
  match r with
  | RCfg => True
  | RClockCap id | RRead id => id < 65536
  | RCrossCap id hw | RReadCross id hw => id < 65536 /\ hw < 256
  end.

Lemma rtc_enc_req_len r : lenN (rtc_enc_req r) = spec_req_size (abs_req r).
Proof. destruct r; reflexivity. Qed.

Lemma le16_id id : id < 65536 -> id mod 256 + 256 * ((id / 256) mod 256) = id.
Proof. intros H. lia. Qed.

(* C20_misc_rtc_roundtrip: the decoder written from the field tables recovers exactly the request the
   driver encoded, for every request structure of the file and every parameter value *)
Theorem rtc_req_roundtrip r : req_wf r -> spec_dec_req (rtc_enc_req r) = Some (abs_req r).
Proof.
  destruct r as [|id|id|id hw|id hw]; cbn [req_wf abs_req]; intros Hwf.
  - reflexivity.
  - unfold spec_dec_req.
    change (rtc_enc_req (RClockCap id)) with [1; 16; 0; 0; 0; 0; 0; 0; id mod 256; (id / 256) mod 256; 0; 0; 0; 0; 0; 0].
    cbn [all_bytes forallb]. rewrite !ltb256.
    change (1 <? 256) with true. change (16 <? 256) with true. change (0 <? 256) with true.
    cbn [andb negb]. cbn [lenN length].
    change (N.of_nat 16 <? 8) with false. change (N.of_nat 16 =? 8) with false. change (N.of_nat 16 =? 16) with true.
    cbv [zero_range seq forallb byte_at nth le16_at Nat.add]. cbn [N.eqb Pos.eqb andb negb].
    rewrite le16_id by exact Hwf. reflexivity.
  - unfold spec_dec_req.
    change (rtc_enc_req (RRead id)) with [1; 0; 0; 0; 0; 0; 0; 0; id mod 256; (id / 256) mod 256; 0; 0; 0; 0; 0; 0].
    cbn [all_bytes forallb]. rewrite !ltb256.
    change (1 <? 256) with true. change (0 <? 256) with true.
    cbn [andb negb]. cbn [lenN length].
    change (N.of_nat 16 <? 8) with false. change (N.of_nat 16 =? 8) with false. change (N.of_nat 16 =? 16) with true.
    cbv [zero_range seq forallb byte_at nth le16_at Nat.add]. cbn [N.eqb Pos.eqb andb negb].
    rewrite le16_id by exact Hwf. reflexivity.
  - destruct Hwf as [Hid Hhw]. unfold spec_dec_req.
    change (rtc_enc_req (RCrossCap id hw)) with [2; 16; 0; 0; 0; 0; 0; 0; id mod 256; (id / 256) mod 256; hw mod 256; 0; 0; 0; 0; 0].
    cbn [all_bytes forallb]. rewrite !ltb256.
    change (2 <? 256) with true. change (16 <? 256) with true. change (0 <? 256) with true.
    cbn [andb negb]. cbn [lenN length].
    change (N.of_nat 16 <? 8) with false. change (N.of_nat 16 =? 8) with false. change (N.of_nat 16 =? 16) with true.
    cbv [zero_range seq forallb byte_at nth le16_at Nat.add]. cbn [N.eqb Pos.eqb andb negb].
    rewrite le16_id by exact Hid. rewrite (N.mod_small hw) by exact Hhw. reflexivity.
  - destruct Hwf as [Hid Hhw]. unfold spec_dec_req.
    change (rtc_enc_req (RReadCross id hw)) with [2; 0; 0; 0; 0; 0; 0; 0; id mod 256; (id / 256) mod 256; hw mod 256; 0; 0; 0; 0; 0].
    cbn [all_bytes forallb]. rewrite !ltb256.
    change (2 <? 256) with true. change (0 <? 256) with true.
    cbn [andb negb]. cbn [lenN length].
    change (N.of_nat 16 <? 8) with false. change (N.of_nat 16 =? 8) with false. change (N.of_nat 16 =? 16) with true.
    cbv [zero_range seq forallb byte_at nth le16_at Nat.add]. cbn [N.eqb Pos.eqb andb negb].
    rewrite le16_id by exact Hid. rewrite (N.mod_small hw) by exact Hhw. reflexivity.
Qed.

Example rtc_req_roundtrip_nonvacuous :
  rtc_enc_req (RClockCap 258) = [1; 16; 0; 0; 0; 0; 0; 0; 2; 1; 0; 0; 0; 0; 0; 0]
  /\ rtc_enc_req (RRead 65535) = [1; 0; 0; 0; 0; 0; 0; 0; 255; 255; 0; 0; 0; 0; 0; 0]
  /\ rtc_enc_req RCfg = [0; 16; 0; 0; 0; 0; 0; 0]
  /\ spec_dec_req (rtc_enc_req (RReadCross 513 7)) = Some (SReadCross 513 7)
  /\ spec_dec_req [1; 0; 0; 0; 0; 0; 0; 0; 2; 1; 0; 0; 0; 0; 0; 0] = Some (SRead 258)
  /\ spec_dec_req [1; 0; 0; 0; 0; 0; 0; 0; 1; 2; 0; 0; 0; 0; 0; 0] = Some (SRead 513)
  /\ spec_dec_req [1; 0; 0; 0; 0; 0; 0; 1; 2; 1; 0; 0; 0; 0; 0; 0] = None.
Proof. repeat split; vm_compute; reflexivity. Qed.

Lemma abs_req_inj a b : abs_req a = abs_req b -> a = b.
Proof. destruct a, b; cbn; intros H; try discriminate; try reflexivity; injection H; intros; subst; reflexivity. Qed.

(* two different requests never have the same bytes *)
Theorem rtc_enc_req_injective a b : req_wf a -> req_wf b -> rtc_enc_req a = rtc_enc_req b -> a = b.
Proof.
  intros Ha Hb E. pose proof (rtc_req_roundtrip a Ha) as H. rewrite E, (rtc_req_roundtrip b Hb) in H.
  injection H as H. symmetry. now apply abs_req_inj.
Qed.

(* the requests of the three public operations are well-formed for EVERY argument *)
Lemma rtc_op_req_wf op clock_id : req_wf (rtc_op_req op clock_id).
Proof.
  unfold rtc_op_req. destruct (op =? 0); [exact I|].
  destruct (op =? 1); cbn [req_wf]; unfold w16; apply N.mod_lt; discriminate.
Qed.

(* ---------------- status ---------------- *)
Definition outcome_cc {A} (o : outcome A) : N * N :=
  match o with Ok _ => (0, 0) | Err e => (1, e) | Panic => (2, 0) | UB => (3, 0) end.

(* C20_misc_rtc_status: for EVERY status byte the result is Ok exactly for VIRTIO_RTC_S_OK, and the error is
   the one the specification's status table calls for (never success for a value it does not define) *)
Theorem rtc_status_map st :
  (rtc_status_result st = Ok tt <-> st = 0)
  /\ rtc_result_conforms st (fst (outcome_cc (rtc_status_result st))) (snd (outcome_cc (rtc_status_result st))) = true
  /\ (st = 2 -> rtc_status_result st = Err EUnsupported)
  /\ (st = 3 \/ st = 4 -> rtc_status_result st = Err EInvalidParam)
  /\ (st <> 0 -> st <> 2 -> st <> 3 -> st <> 4 -> rtc_status_result st = Err EIoError).
Proof.
  unfold rtc_status_result, rtc_result_conforms, spec_rtc_status.
  destruct (N.eqb_spec st 0) as [->|H0]; [repeat split; intros; try reflexivity; try lia; destruct H; discriminate|].
  destruct (N.eqb_spec st 2) as [->|H2]; [repeat split; intros; try reflexivity; try lia; try discriminate; destruct H; discriminate|].
  destruct (N.eqb_spec st 3) as [->|H3]; [repeat split; intros; try reflexivity; try lia; try discriminate|].
  destruct (N.eqb_spec st 4) as [->|H4]; [repeat split; intros; try reflexivity; try lia; try discriminate|].
  destruct (N.eqb_spec st 5) as [->|H5]; cbn [orb]; repeat split; intros; try reflexivity; try lia; try discriminate;
    try (destruct H; lia).
Qed.

(* ---------------- values ---------------- *)
Lemma b8_succ x k : b8 x (k + 1) = b8 (x / 256) k.
Proof.
  unfold b8. rewrite N.pow_add_r, N.pow_1_r, (N.mul_comm (256 ^ k) 256), <- N.div_div; [reflexivity|discriminate|].
  apply N.pow_nonzero. discriminate.
Qed.

Lemma b8_0 x : b8 x 0 = x mod 256.
Proof. unfold b8. change (256 ^ 0) with 1. now rewrite N.div_1_r. Qed.

Lemma le_bytes_b8 n : forall x, le_bytes n x = map (b8 x) (seqN 0 n).
Proof.
  induction n as [|n IH]; intros x; [reflexivity|].
  cbn [le_bytes seqN map]. rewrite b8_0. f_equal. rewrite IH.
  clear IH. generalize 0 as k. induction n as [|n IH]; intros k; [reflexivity|].
  cbn [seqN map]. rewrite b8_succ. f_equal. apply IH.
Qed.

Lemma field_resp (hdr body rest : list N) n :
  length hdr = 8%nat -> length body = n -> field (hdr ++ body ++ rest) 8 n = le_num body.
Proof.
  intros Hh Hb. unfold field.
  rewrite skipn_app, Hh. replace (8 - 8)%nat with O by lia.
  rewrite (skipn_all2 hdr) by lia. cbn [app skipn].
  rewrite firstn_app, Hb. replace (n - n)%nat with O by lia. cbn [firstn].
  rewrite app_nil_r. rewrite <- Hb. now rewrite firstn_all.
Qed.

(* C20_misc_rtc_values: what the driver returns is what the device reported, for every reported value *)
Theorem rtc_num_clocks_value st n : n < 65536 -> rtc_dec_num_clocks (spec_resp_cfg st n) = n.
Proof.
  intros Hn. unfold rtc_dec_num_clocks, spec_resp_cfg.
  rewrite (field_resp (spec_head st) [b8 n 0; b8 n 1] (z 6) 2) by reflexivity.
  change [b8 n 0; b8 n 1] with (map (b8 n) (seqN 0 2)). rewrite <- le_bytes_b8, le_num_le_bytes.
  apply N.mod_small. exact Hn.
Qed.

Theorem rtc_read_value st t : t < two64 -> rtc_dec_read (spec_resp_read st t) = t.
Proof.
  intros Ht. unfold rtc_dec_read, spec_resp_read.
  rewrite <- (app_nil_r [b8 t 0; b8 t 1; b8 t 2; b8 t 3; b8 t 4; b8 t 5; b8 t 6; b8 t 7]).
  rewrite (field_resp (spec_head st) _ [] 8) by reflexivity.
  change [b8 t 0; b8 t 1; b8 t 2; b8 t 3; b8 t 4; b8 t 5; b8 t 6; b8 t 7] with (map (b8 t) (seqN 0 8)).
  rewrite <- le_bytes_b8, le_num_le_bytes. apply N.mod_small. exact Ht.
Qed.

Lemma land1_testbit fl : negb (N.land fl 1 =? 0) = N.testbit fl 0.
Proof.
  rewrite N.bit0_odd. change 1 with (N.ones 1). rewrite N.land_ones. change (2 ^ 1) with 2.
  rewrite <- N.bit0_mod, N.bit0_odd. destruct (N.odd fl); reflexivity.
Qed.

Definition cap_result (o : outcome (N * N * bool)) : option (N * N * bool) :=
  match o with Ok v => Some v | _ => None end.

(* clock capabilities: for every (type, smearing, flags) a device can report, the driver returns exactly the
   capability the specification's tables give, and Unsupported for a type / variant they do not define *)
Theorem rtc_clock_cap_value st ty sm fl :
  rtc_dec_clock_cap (spec_resp_clock_cap st ty sm fl)
  = match spec_clock_cap ty sm fl with Some v => Ok v | None => Err EUnsupported end.
Proof.
  unfold rtc_dec_clock_cap, spec_resp_clock_cap, spec_clock_cap.
  assert (F1 : field (spec_head st ++ [ty; sm; fl] ++ z 5) 8 1 = ty) by (cbv [field spec_head z repeat app skipn firstn le_num fold_right]; lia).
  assert (F2 : field (spec_head st ++ [ty; sm; fl] ++ z 5) 9 1 = sm) by (cbv [field spec_head z repeat app skipn firstn le_num fold_right]; lia).
  assert (F3 : field (spec_head st ++ [ty; sm; fl] ++ z 5) 10 1 = fl) by (cbv [field spec_head z repeat app skipn firstn le_num fold_right]; lia).
  rewrite F1, F2, F3, land1_testbit.
  destruct (4 <? ty); [reflexivity|].
  destruct (ty =? 3); [|reflexivity].
  destruct (N.eqb_spec sm 0) as [->|H0]; [reflexivity|].
  destruct (N.eqb_spec sm 2) as [->|H2]; [reflexivity|].
  destruct (N.eqb_spec sm 1) as [->|H1]; [reflexivity|].
  destruct (N.ltb_spec 2 sm); [reflexivity|lia].
Qed.

Example rtc_values_nonvacuous :
  rtc_dec_num_clocks (spec_resp_cfg 0 65535) = 65535
  /\ rtc_dec_read (spec_resp_read 0 18446744073709551615) = 18446744073709551615
  /\ rtc_dec_read (spec_resp_read 0 72623859790382856) = 72623859790382856
  /\ spec_resp_read 0 72623859790382856 = [0;0;0;0;0;0;0;0; 8;7;6;5;4;3;2;1]
  /\ rtc_dec_clock_cap (spec_resp_clock_cap 0 3 2 1) = Ok (3, 2, true)
  /\ rtc_dec_clock_cap (spec_resp_clock_cap 0 3 1 254) = Ok (3, 1, false)
  /\ rtc_dec_clock_cap (spec_resp_clock_cap 0 4 2 3) = Ok (4, 0, true)
  /\ rtc_dec_clock_cap (spec_resp_clock_cap 0 3 3 0) = Err EUnsupported
  /\ rtc_dec_clock_cap (spec_resp_clock_cap 0 5 0 0) = Err EUnsupported.
Proof. repeat split; vm_compute; reflexivity. Qed.

(* ====================================================================================== *)
(* 3. rng: request_entropy                                                                *)
(* ====================================================================================== *)
Definition rng_request_entropy_w (q : qstate) (w : world) (dst : ubuf) (taddr ae uf : N) (dev : amap -> amap)
  (polls : list N) (u_id u_len : N) := anwp_w q w [] [dst] taddr ae uf dev polls u_id u_len.

Lemma rng_w_core q w dst taddr ae uf dev polls u_id u_len :
  option_map (fun x => fst x) (rng_request_entropy_w q w dst taddr ae uf dev polls u_id u_len)
  = rng_request_entropy q dst taddr ae uf polls u_id u_len.
Proof. apply anwp_w_core. Qed.

Lemma no_table_single q (b : ubuf) (wr : bool) taddr ta tbl :
  c_tbl (new_chain q (if wr then [] else [b]) (if wr then [b] else []) taddr) = Some (ta, tbl) -> False.
Proof.
  unfold new_chain. destruct wr; cbn [tag_bufs map app lenN length];
    change (1 <? N.of_nat 1) with false; rewrite andb_false_r; discriminate.
Qed.

(* C20_misc_rng: for every idle queue state, every destination buffer, every device behaviour:
   exactly one device-writable buffer of the caller's length is published; if the device uses it, the result
   is the used length the device recorded (as a u32, whatever the buffer length: it is not clamped), the
   caller's buffer holds exactly the bytes the device left at the buffer's device address, no other caller
   memory changes, and the queue is idle again; a foreign used id gives WrongToken *)
Theorem rng_request_spec q w dst taddr ae uf dev polls u_id u_len o q2 evs sp w3 tmem :
  Idle q -> 1 <= q_size q -> b_len dst <> 0 -> b_len dst < two32 ->
  rng_request_entropy_w q w dst taddr ae uf dev polls u_id u_len = Some (o, q2, evs, sp, w3) ->
  let tok := q_free_head q in
  exists q1 evs1 evs2,
    add q [] [dst] taddr = (Ok tok, q1, evs1)
    /\ walk (q_dtable q1) tmem tok (N.to_nat (q_size q1)) = Some [(b_addr dst, b_len dst, true)]
    /\ evs = map BQ evs1 ++ (if should_notify q1 ae uf then [BNotify] else []) ++ map BQ evs2
    /\ (w16 u_id = tok ->
          o = Ok (w32 u_len)
          /\ w_caller w3 (b_id dst) = takeN (b_len dst) (dev (w_dev w) (b_addr dst))
          /\ (forall id, id <> b_id dst -> w_caller w3 id = w_caller w id)
          /\ Idle q2 /\ q_size q2 = q_size q /\ q_indirect q2 = q_indirect q /\ q_event_idx q2 = q_event_idx q)
    /\ (w16 u_id <> tok -> o = Err EWrongToken /\ w_caller w3 = w_caller w).
Proof.
  intros HId Hsz Hz H32 Hrun tok. subst tok.
  assert (Hok : bufs_ok (tag_bufs [] [dst])) by (constructor; [split; assumption|constructor]).
  destruct (anwp_blocking q w [] [dst] taddr ae uf dev polls u_id u_len o q2 evs sp w3 tmem HId Hok
              ltac:(discriminate) ltac:(exact Hsz) Hrun)
    as (q1 & evs1 & evs2 & Hadd & Hwalk & _ & Hevs & Hgood & Hbad).
  { intros ta tbl H. exfalso. exact (no_table_single q dst true taddr ta tbl H). }
  exists q1, evs1, evs2. split; [exact Hadd|]. split; [exact Hwalk|]. split; [exact Hevs|].
  cbn [tag_bufs map app buf_shares fold_left hal_share hal_unshare hal_ev fst snd w_caller w_dev] in Hgood, Hbad.
  split.
  - intros E. destruct (Hgood E) as (-> & -> & HI2 & A & B & C).
    split; [reflexivity|]. cbn [w_caller]. split; [apply aset_eq|].
    split; [intros id Hid; now apply aset_neq|]. auto.
  - intros E. destruct (Hbad E) as (-> & -> & _). auto.
Qed.

(* the length is passed through unclamped: a device may make request_entropy return more than dst.len() *)
Example rng_length_not_clamped :
  exists q2 evs sp, rng_request_entropy (qnew 8 false false) (mkBuf 1 4 1000) 0 0 0 [1] 0 100 = Some (Ok 100, q2, evs, sp).
Proof. vm_compute. eauto. Qed.

Lemma idle_new k ind ev : k <= 15 -> Idle (qnew (2 ^ k) ind ev).
Proof.
  intros Hk. exists []. pose proof (R_new k ind ev 0 Hk ltac:(reflexivity)) as H.
  replace (qset_indices (qnew (2 ^ k) ind ev) 0) with (qnew (2 ^ k) ind ev) in H; [exact H|].
  unfold qset_indices, qnew. reflexivity.
Qed.

Example rng_request_spec_nonvacuous :
  Idle (qnew RNG_QUEUE_SIZE false true)
  /\ exists q2 evs sp w3,
       rng_request_entropy_w (qnew RNG_QUEUE_SIZE false true) (mkW (fun _ => [9; 9; 9; 9]) (fun _ => [])) (mkBuf 1 4 1000) 0 0 0
         (fun m => aset m 1000 [5; 6; 7; 8; 99]) [0; 1] 0 3 = Some (Ok 3, q2, evs, sp, w3)
       /\ w_caller w3 1 = [5; 6; 7; 8].
Proof.
  split; [exact (idle_new 3 false true ltac:(lia))|].
  vm_compute. do 4 eexists. split; reflexivity.
Qed.

(* ====================================================================================== *)
(* 4. rtc: request and the three public operations                                        *)
(* ====================================================================================== *)
(* VirtIORtc::request against memory: the two locals of the function are caller-side objects req_id
   (holding the request structure's bytes) and resp_id (Rsp::new_zeroed()); the response is read from the
   local after pop_used *)
Definition rtc_locals (w : world) (r : rtc_req) (req_id resp_id : N) : world :=
  mkW (aset (aset (w_caller w) req_id (rtc_enc_req r)) resp_id (zeros (N.to_nat (rtc_resp_size r)))) (w_dev w).

Definition rtc_request_w (q : qstate) (w : world) (r : rtc_req) (req_id req_addr resp_id resp_addr : N)
  (taddr ae uf : N) (dev : amap -> amap) (polls : list N) (u_id u_len : N)
  : option (outcome (list N) * qstate * list bev * N * world) :=
  let req := rtc_req_buf r req_id req_addr in
  let resp := rtc_resp_buf r resp_id resp_addr in
  match anwp_w q (rtc_locals w r req_id resp_id) [req] [resp] taddr ae uf dev polls u_id u_len with
  | None => None
  | Some (_, _, _, _, w3) =>
      match rtc_request q r req resp taddr ae uf polls u_id u_len (w_caller w3 resp_id) with
      | None => None
      | Some (o, q2, evs, sp) => Some (o, q2, evs, sp, w3)
      end
  end.

(* what the status check makes of the response bytes *)
Definition rtc_check (rb : list N) : outcome (list N) :=
  match rtc_status_result (hd 0 rb) with
  | Ok _ => Ok rb | Err e => Err e | Panic => Panic | UB => UB
  end.

Lemma takeN_len {A} n (l : list A) : n <= lenN l -> lenN (takeN n l) = n.
Proof. intros H. unfold takeN, lenN in *. rewrite firstn_length. lia. Qed.

Lemma rtc_sizes r : (lenN (rtc_enc_req r) = 8 \/ lenN (rtc_enc_req r) = 16) /\ (rtc_resp_size r = 16 \/ rtc_resp_size r = 24).
Proof. destruct r; cbn; auto. Qed.

Definition rtc_post (o : outcome N) (rb : list N) : outcome (list N) :=
  match o with
  | Ok _ => if lenN rb <? 8 then Panic else rtc_check rb
  | Err e => Err e | Panic => Panic | UB => UB
  end.

Lemma rtc_request_post q r req resp taddr ae uf polls u_id u_len rb :
  rtc_request q r req resp taddr ae uf polls u_id u_len rb
  = match anwp q [req] [resp] taddr ae uf polls u_id u_len with
    | None => None
    | Some (o, q2, evs, sp) => Some (rtc_post o rb, q2, evs, sp)
    end.
Proof.
  unfold rtc_request, rtc_post, rtc_check.
  destruct (anwp q [req] [resp] taddr ae uf polls u_id u_len) as [[[[o q2] evs] sp]|]; [|reflexivity].
  destruct o; try reflexivity.
  destruct (lenN rb <? 8); [reflexivity|]. destruct (rtc_status_result (hd 0 rb)); reflexivity.
Qed.

(* C20_misc_rtc_request: one request on an idle queue, for EVERY device behaviour:
   - the chain the device walks is [request bytes, readable, of the structure's size][response area,
     writable, of the response structure's size];
   - device-visible memory at the first element holds exactly the encoded request, which the
     specification-side decoder reads back as the request the caller asked for;
   - if the device uses the chain: the result is decided by the status byte the device left (Ok with the
     response bytes found at the response address for S_OK, the mapped error otherwise); the used length
     the device records plays no role; the queue is idle again;
   - a foreign used id gives WrongToken. *)
Theorem rtc_request_spec q w r req_id req_addr resp_id resp_addr taddr ae uf dev polls u_id u_len o q2 evs sp w3 tmem :
  Idle q -> 2 <= q_size q -> req_wf r -> req_id <> resp_id ->
  rtc_request_w q w r req_id req_addr resp_id resp_addr taddr ae uf dev polls u_id u_len = Some (o, q2, evs, sp, w3) ->
  (forall ta tbl, c_tbl (new_chain q [rtc_req_buf r req_id req_addr] [rtc_resp_buf r resp_id resp_addr] taddr) = Some (ta, tbl)
                  -> tmem ta = Some tbl) ->
  let tok := q_free_head q in
  exists q1 evs1 evs2,
    add q [rtc_req_buf r req_id req_addr] [rtc_resp_buf r resp_id resp_addr] taddr = (Ok tok, q1, evs1)
    /\ walk (q_dtable q1) tmem tok (N.to_nat (q_size q1))
       = Some [(req_addr, spec_req_size (abs_req r), false); (resp_addr, spec_resp_size (abs_req r), true)]
    /\ evs = map BQ evs1 ++ (if should_notify q1 ae uf then [BNotify] else []) ++ map BQ evs2
    /\ let dm := aset (w_dev w) req_addr (rtc_enc_req r) in       (* device-visible memory after the shares *)
       spec_dec_req (dm req_addr) = Some (abs_req r)
       /\ (w16 u_id = tok ->
             let rb := takeN (rtc_resp_size r) (dev dm resp_addr) in
             o = (if lenN rb <? 8 then Panic else rtc_check rb)
             /\ Idle q2 /\ q_size q2 = q_size q /\ q_indirect q2 = q_indirect q /\ q_event_idx q2 = q_event_idx q)
       /\ (w16 u_id <> tok -> o = Err EWrongToken).
Proof.
  intros HId Hsz Hwf Hids Hrun Hmem tok. subst tok.
  unfold rtc_request_w in Hrun.
  set (req := rtc_req_buf r req_id req_addr) in *. set (resp := rtc_resp_buf r resp_id resp_addr) in *.
  set (w0 := rtc_locals w r req_id resp_id) in *.
  destruct (anwp_w q w0 [req] [resp] taddr ae uf dev polls u_id u_len) as [[[[[o' q2'] evs'] sp'] w3']|] eqn:Ea; [|discriminate].
  pose proof (anwp_w_core q w0 [req] [resp] taddr ae uf dev polls u_id u_len) as Hcore. rewrite Ea in Hcore. cbn in Hcore.
  rewrite rtc_request_post, <- Hcore in Hrun. injection Hrun as <- <- <- <- <-.
  destruct (rtc_sizes r) as [Hq Hr].
  assert (Hok : bufs_ok (tag_bufs [req] [resp])).
  { constructor; [|constructor; [|constructor]]; cbn [fst b_len req resp rtc_req_buf rtc_resp_buf]; unfold two32; lia. }
  destruct (anwp_blocking q w0 [req] [resp] taddr ae uf dev polls u_id u_len o' q2' evs' sp' w3' tmem HId Hok
              ltac:(discriminate) ltac:(exact Hsz) Ea Hmem)
    as (q1 & evs1 & evs2 & Hadd & Hwalk & _ & Hevs & Hgood & Hbad).
  exists q1, evs1, evs2. split; [exact Hadd|].
  split. { rewrite Hwalk. cbn [tag_bufs map app elems fst snd b_addr b_len req resp rtc_req_buf rtc_resp_buf].
           rewrite rtc_enc_req_len. destruct r; reflexivity. }
  assert (Hreqmem : takeN (lenN (rtc_enc_req r)) (w_caller w0 req_id) = rtc_enc_req r).
  { unfold w0, rtc_locals. cbn [w_caller]. rewrite aset_neq by exact Hids. rewrite aset_eq. now apply takeN_all. }
  cbn [tag_bufs map app buf_shares fold_left hal_share hal_unshare hal_ev fst snd w_caller w_dev
       b_addr b_len b_id req resp rtc_req_buf rtc_resp_buf] in Hgood, Hbad.
  rewrite Hreqmem in Hgood, Hbad.
  change (w_dev w0) with (w_dev w) in Hgood, Hbad.
  split; [exact Hevs|]. cbn zeta.
  split. { rewrite aset_eq. now apply rtc_req_roundtrip. }
  split.
  - intros E. destruct (Hgood E) as (-> & -> & HI2 & A & B & C).
    cbn [w_caller rtc_post]. rewrite aset_eq. auto.
  - intros E. destruct (Hbad E) as (-> & _ & _). reflexivity.
Qed.

(* the three public operations against memory *)
Definition rtc_op_w (q : qstate) (w : world) (op clock_id req_id req_addr resp_id resp_addr taddr ae uf : N)
  (dev : amap -> amap) (polls : list N) (u_id u_len : N)
  : option (outcome (list N) * qstate * list bev * N * world) :=
  match rtc_request_w q w (rtc_op_req op clock_id) req_id req_addr resp_id resp_addr taddr ae uf dev polls u_id u_len with
  | None => None
  | Some (Ok rb, q2, evs, sp, w3) => Some (rtc_op_decode op rb, q2, evs, sp, w3)
  | Some (Err e, q2, evs, sp, w3) => Some (Err e, q2, evs, sp, w3)
  | Some (Panic, q2, evs, sp, w3) => Some (Panic, q2, evs, sp, w3)
  | Some (UB, q2, evs, sp, w3) => Some (UB, q2, evs, sp, w3)
  end.

(* ... is the flat operation replayed against the implementation, with the response read from memory *)
Lemma rtc_op_w_core q w op clock_id req_id req_addr resp_id resp_addr taddr ae uf dev polls u_id u_len o q2 evs sp w3 :
  rtc_op_w q w op clock_id req_id req_addr resp_id resp_addr taddr ae uf dev polls u_id u_len = Some (o, q2, evs, sp, w3) ->
  rtc_op q op clock_id req_id req_addr resp_id resp_addr taddr ae uf polls u_id u_len (w_caller w3 resp_id) = Some (o, q2, evs, sp).
Proof.
  unfold rtc_op_w, rtc_request_w, rtc_op. intros H.
  destruct (anwp_w _ _ _ _ _ _ _ _ _ _ _) as [[[[[o' q2'] evs'] sp'] w3']|]; [|discriminate].
  destruct (rtc_request _ _ _ _ _ _ _ _ _ _ (w_caller w3' resp_id)) as [[[[o1 q21] evs1] sp1]|] eqn:E; [|discriminate].
  destruct o1; injection H as <- <- <- <- <-; rewrite E; reflexivity.
Qed.

(* the request the specification associates with each public operation *)
Definition op_abs (op clock_id : N) : sreq :=
  if op =? 0 then SCfg else if op =? 1 then SClockCap clock_id else SRead clock_id.

Lemma op_abs_req op clock_id : clock_id < 65536 -> abs_req (rtc_op_req op clock_id) = op_abs op clock_id.
Proof.
  intros H. unfold rtc_op_req, op_abs, w16. destruct (op =? 0); [reflexivity|].
  destruct (op =? 1); cbn [abs_req]; now rewrite N.mod_small.
Qed.

Definition map_outcome {A B} (f : A -> B) (o : outcome A) : outcome B :=
  match o with Ok a => Ok (f a) | Err e => Err e | Panic => Panic | UB => UB end.

(* the meaning of a response per the specification, as the flat result of the operation:
   S_OK -> the reported value(s); any other status -> the error of the status table *)
Definition spec_result (op : N) (ans : list N) : outcome (list N) :=
  match rtc_status_result (byte_at ans 0) with
  | Ok _ =>
      if op =? 0 then Ok [le16_at ans 8; 0; 0]
      else if op =? 1 then
        match spec_clock_cap (byte_at ans 8) (byte_at ans 9) (byte_at ans 10) with
        | Some (k, s, a) => Ok [k; s; b2n a]
        | None => Err EUnsupported
        end
      else Ok [le64_at ans 8; 0; 0]
  | Err e => Err e | Panic => Panic | UB => UB
  end.

Lemma le_num_2 a b : le_num [a; b] = a + 256 * b.
Proof. unfold le_num. cbn [fold_right]. lia. Qed.

Lemma le_num_1 a : le_num [a] = a.
Proof. unfold le_num. cbn [fold_right]. lia. Qed.

Lemma le_num_8 a b c d e f g h :
  le_num [a; b; c; d; e; f; g; h]
  = a + 256 * b + 65536 * c + 16777216 * d + 4294967296 * (e + 256 * f + 65536 * g + 16777216 * h).
Proof. unfold le_num. cbn [fold_right]. lia. Qed.

(* on ANY 16 response bytes the driver's field decoders and the positional readers of the
   specification side agree: field positions and byte order *)
Lemma rtc_op_decode_spec op rb : length rb = 16%nat -> hd 0 rb = byte_at rb 0 /\
  match rtc_status_result (hd 0 rb) with
  | Ok _ => rtc_op_decode op rb = spec_result op rb
  | _ => True
  end.
Proof.
  intros Hl.
  do 16 (destruct rb as [|? rb]; [discriminate|]). destruct rb; [|discriminate].
  split; [reflexivity|].
  unfold spec_result. cbn [hd byte_at nth].
  destruct (rtc_status_result n); try exact I.
  unfold rtc_op_decode, rtc_dec_num_clocks, rtc_dec_read, rtc_dec_clock_cap, spec_clock_cap, field.
  cbn [skipn firstn]. rewrite le_num_2, le_num_8, !le_num_1.
  unfold le16_at, le64_at, le32_at, byte_at. cbn [nth Nat.add].
  rewrite land1_testbit.
  destruct (op =? 0); [reflexivity|]. destruct (op =? 1); [|f_equal; f_equal; lia].
  destruct (4 <? n7); [reflexivity|].
  destruct (n7 =? 3); [|reflexivity].
  destruct (N.eqb_spec n8 0) as [->|H0]; [reflexivity|].
  destruct (N.eqb_spec n8 2) as [->|H2]; [reflexivity|].
  destruct (N.eqb_spec n8 1) as [->|H1]; [reflexivity|].
  destruct (N.ltb_spec 2 n8); [reflexivity|lia].
Qed.

(* C20_misc_rtc_operation: num_clocks / clock_cap / read, end to end, for EVERY clock id, EVERY idle queue
   state, EVERY 16 bytes a device leaves in the response area (ans) and EVERY used length it records:
   the device decodes the request the caller asked for; the result is Ok exactly when the status byte is S_OK and
   then carries exactly the reported values read at the specified positions (for clock_cap: the specification's
   capability table, Unsupported for an undefined type or smearing variant); any other status gives the error of
   the status table; the queue is idle again, so the statement applies to every operation of a history *)
Theorem rtc_op_spec q w op clock_id req_id req_addr resp_id resp_addr taddr ae uf dev polls u_id u_len o q2 evs sp w3 tmem ans :
  Idle q -> 2 <= q_size q -> clock_id < 65536 -> req_id <> resp_id ->
  rtc_op_w q w op clock_id req_id req_addr resp_id resp_addr taddr ae uf dev polls u_id u_len = Some (o, q2, evs, sp, w3) ->
  let r := rtc_op_req op clock_id in
  (forall ta tbl, c_tbl (new_chain q [rtc_req_buf r req_id req_addr] [rtc_resp_buf r resp_id resp_addr] taddr) = Some (ta, tbl)
                  -> tmem ta = Some tbl) ->
  let dm := aset (w_dev w) req_addr (rtc_enc_req r) in
  dev dm resp_addr = ans -> length ans = 16%nat ->
  exists q1 evs1,
    add q [rtc_req_buf r req_id req_addr] [rtc_resp_buf r resp_id resp_addr] taddr = (Ok (q_free_head q), q1, evs1)
    /\ walk (q_dtable q1) tmem (q_free_head q) (N.to_nat (q_size q1))
       = Some [(req_addr, spec_req_size (op_abs op clock_id), false); (resp_addr, 16, true)]
    /\ spec_dec_req (dm req_addr) = Some (op_abs op clock_id)
    /\ (w16 u_id = q_free_head q ->
          o = spec_result op ans
          /\ (forall v, o = Ok v -> byte_at ans 0 = 0)
          /\ (byte_at ans 0 <> 0 -> exists e, o = Err e /\ rtc_result_conforms (byte_at ans 0) 1 e = true)
          /\ Idle q2 /\ q_size q2 = q_size q /\ q_indirect q2 = q_indirect q /\ q_event_idx q2 = q_event_idx q)
    /\ (w16 u_id <> q_free_head q -> o = Err EWrongToken).
Proof.
  intros HId Hsz Hid Hids Hrun r Hmem dm Hans Hlen.
  unfold rtc_op_w in Hrun. fold r in Hrun.
  destruct (rtc_request_w q w r req_id req_addr resp_id resp_addr taddr ae uf dev polls u_id u_len)
    as [[[[[o' q2'] evs'] sp'] w3']|] eqn:Er; [|discriminate].
  destruct (rtc_request_spec q w r req_id req_addr resp_id resp_addr taddr ae uf dev polls u_id u_len o' q2' evs' sp' w3' tmem
              HId Hsz (rtc_op_req_wf op clock_id) Hids Er Hmem)
    as (q1 & evs1 & evs2 & Hadd & Hwalk & _ & Hdec & Hgood & Hbad).
  assert (Hrs : rtc_resp_size r = 16) by (unfold r, rtc_op_req; destruct (op =? 0); [|destruct (op =? 1)]; reflexivity).
  exists q1, evs1. split; [exact Hadd|].
  split. { rewrite Hwalk. unfold r. rewrite op_abs_req by exact Hid.
           unfold op_abs. destruct (op =? 0); [|destruct (op =? 1)]; reflexivity. }
  split. { fold dm in Hdec. rewrite Hdec. unfold r. now rewrite op_abs_req. }
  fold dm in Hgood. rewrite Hans, Hrs in Hgood.
  assert (Htk : takeN 16 ans = ans) by (apply takeN_all; unfold lenN; now rewrite Hlen).
  rewrite Htk in Hgood. cbn zeta in Hgood.
  assert (Hl8 : (lenN ans <? 8) = false) by (unfold lenN; rewrite Hlen; reflexivity).
  rewrite Hl8 in Hgood.
  split.
  - intros E. destruct (Hgood E) as (-> & HI2 & A & B & C).
    destruct (rtc_op_decode_spec op ans Hlen) as [Hhd Hd].
    unfold rtc_check in Hrun. unfold spec_result. rewrite <- Hhd.
    destruct (rtc_status_map (hd 0 ans)) as (S0 & S1 & _).
    assert (Ho : o = match rtc_status_result (hd 0 ans) with Ok _ => spec_result op ans | Err e => Err e | Panic => Panic | UB => UB end
                 /\ q2' = q2).
    { destruct (rtc_status_result (hd 0 ans)); injection Hrun as <- <- <- <- <-; (split; [first [exact Hd|reflexivity]|reflexivity]). }
    clear Hrun. destruct Ho as [Ho <-]. split.
    { rewrite Ho. destruct (rtc_status_result (hd 0 ans)) eqn:Es; try reflexivity.
      unfold spec_result. rewrite <- Hhd, Es. reflexivity. }
    split.
    { intros v Hv. apply S0. rewrite Ho in Hv.
      destruct (rtc_status_result (hd 0 ans)) as [[]| | |]; try discriminate. reflexivity. }
    split; [|auto].
    intros Hnz.
    destruct (rtc_status_result (hd 0 ans)) as [[]|e| |] eqn:Es.
    + exfalso. apply Hnz. now apply S0.
    + exists e. split; [exact Ho|]. exact S1.
    + unfold rtc_status_result in Es. repeat destruct (_ =? _) in Es; cbn in Es; discriminate.
    + unfold rtc_status_result in Es. repeat destruct (_ =? _) in Es; cbn in Es; discriminate.
  - intros E. rewrite (Hbad E) in Hrun. injection Hrun as <- _ _ _ _. reflexivity.
Qed.

(* the specification's positional readers recover what the specification's device-side encoders wrote *)
Lemma spec_result_cfg st n : n < 65536 ->
  spec_result 0 (spec_resp_cfg st n) = map_outcome (fun _ => [n; 0; 0]) (rtc_status_result st).
Proof.
  intros Hn. unfold spec_result, spec_resp_cfg, spec_head, z. cbn [repeat app byte_at nth le16_at Nat.add N.eqb].
  rewrite b8_0. unfold b8. change (256 ^ 1) with 256.
  destruct (rtc_status_result st); cbn [map_outcome]; try reflexivity. f_equal. f_equal.
  unfold le16_at, byte_at. cbn [nth Nat.add]. now apply le16_id.
Qed.

Lemma spec_result_read st t : t < two64 ->
  spec_result 2 (spec_resp_read st t) = map_outcome (fun _ => [t; 0; 0]) (rtc_status_result st).
Proof.
  intros Ht. unfold spec_result, spec_resp_read, spec_head, z. cbn [repeat app byte_at nth N.eqb Pos.eqb].
  destruct (rtc_status_result st); cbn [map_outcome]; try reflexivity. f_equal. f_equal.
  unfold le64_at, le32_at, byte_at. cbn [nth Nat.add].
  rewrite <- le_num_8. change [b8 t 0; b8 t 1; b8 t 2; b8 t 3; b8 t 4; b8 t 5; b8 t 6; b8 t 7] with (map (b8 t) (seqN 0 8)).
  rewrite <- le_bytes_b8, le_num_le_bytes. apply N.mod_small. exact Ht.
Qed.

Lemma spec_result_cap st ty sm fl :
  spec_result 1 (spec_resp_clock_cap st ty sm fl)
  = match rtc_status_result st with
    | Ok _ => match spec_clock_cap ty sm fl with Some (k, s, a) => Ok [k; s; b2n a] | None => Err EUnsupported end
    | Err e => Err e | Panic => Panic | UB => UB
    end.
Proof. reflexivity. Qed.

(* C20_misc_rtc_values_end_to_end: against a device answering per the specification (status st, values as below)
   and completing the chain it was given:
     num_clocks  returns Ok n                  iff st = S_OK      (n the reported le16 num_clocks)
     read        returns Ok t                  iff st = S_OK      (t the reported le64 clock_reading)
     clock_cap   returns the capability table's reading of (type, smearing, flags) iff st = S_OK and defined
   and the mapped error otherwise. *)
Theorem rtc_values_end_to_end q w op clock_id req_id req_addr resp_id resp_addr taddr ae uf dev polls u_id u_len o q2 evs sp w3 tmem
  st n t ty sm fl :
  Idle q -> 2 <= q_size q -> clock_id < 65536 -> req_id <> resp_id -> n < 65536 -> t < two64 ->
  rtc_op_w q w op clock_id req_id req_addr resp_id resp_addr taddr ae uf dev polls u_id u_len = Some (o, q2, evs, sp, w3) ->
  let r := rtc_op_req op clock_id in
  (forall ta tbl, c_tbl (new_chain q [rtc_req_buf r req_id req_addr] [rtc_resp_buf r resp_id resp_addr] taddr) = Some (ta, tbl)
                  -> tmem ta = Some tbl) ->
  w16 u_id = q_free_head q ->
  dev (aset (w_dev w) req_addr (rtc_enc_req r)) resp_addr
    = (if op =? 0 then spec_resp_cfg st n else if op =? 1 then spec_resp_clock_cap st ty sm fl else spec_resp_read st t) ->
  o = match rtc_status_result st with
      | Ok _ => if op =? 0 then Ok [n; 0; 0]
                else if op =? 1 then match spec_clock_cap ty sm fl with Some (k, s, a) => Ok [k; s; b2n a] | None => Err EUnsupported end
                else Ok [t; 0; 0]
      | Err e => Err e | Panic => Panic | UB => UB
      end
  /\ Idle q2.
Proof.
  intros HId Hsz Hid Hids Hn Ht Hrun r Hmem Htok Hans.
  assert (Hl : length (if op =? 0 then spec_resp_cfg st n else if op =? 1 then spec_resp_clock_cap st ty sm fl else spec_resp_read st t) = 16%nat)
    by (destruct (op =? 0); [|destruct (op =? 1)]; reflexivity).
  destruct (rtc_op_spec q w op clock_id req_id req_addr resp_id resp_addr taddr ae uf dev polls u_id u_len o q2 evs sp w3 tmem _
              HId Hsz Hid Hids Hrun Hmem Hans Hl) as (q1 & evs1 & _ & _ & _ & Hgood & _).
  destruct (Hgood Htok) as (-> & _ & _ & HI2 & _). split; [|exact HI2].
  destruct (N.eqb_spec op 0) as [->|H0].
  { rewrite spec_result_cfg by exact Hn. destruct (rtc_status_result st); reflexivity. }
  destruct (N.eqb_spec op 1) as [->|H1].
  { now rewrite spec_result_cap. }
  assert (E : spec_result op (spec_resp_read st t) = spec_result 2 (spec_resp_read st t)).
  { unfold spec_result. destruct (N.eqb_spec op 0); [contradiction|]. destruct (N.eqb_spec op 1); [contradiction|]. reflexivity. }
  rewrite E, spec_result_read by exact Ht. destruct (rtc_status_result st); reflexivity.
Qed.

Definition ex_w0 : world := mkW (fun _ => []) (fun _ => []).

Example rtc_op_spec_nonvacuous :
  Idle (qnew RTC_QUEUE_SIZE true true)
  /\ (exists q2 evs sp w3,
       rtc_op_w (qnew RTC_QUEUE_SIZE true true) ex_w0 2 513 1 1000 2 2000 3000 0 0
         (fun m => aset m 2000 (spec_resp_read 0 72623859790382856)) [0; 0; 1] 0 16 = Some (Ok [72623859790382856; 0; 0], q2, evs, sp, w3))
  /\ (exists q2 evs sp w3,
       rtc_op_w (qnew RTC_QUEUE_SIZE false false) ex_w0 1 7 1 1000 2 2000 3000 0 0
         (fun m => aset m 2000 (spec_resp_clock_cap 0 3 2 1)) [1] 0 16 = Some (Ok [3; 2; 1], q2, evs, sp, w3))
  /\ (exists q2 evs sp w3,
       rtc_op_w (qnew RTC_QUEUE_SIZE false false) ex_w0 0 0 1 1000 2 2000 3000 0 0
         (fun m => aset m 2000 (spec_resp_cfg 3 9)) [1] 0 16 = Some (Err EInvalidParam, q2, evs, sp, w3)).
Proof.
  split; [exact (idle_new 3 true true ltac:(lia))|].
  repeat split; vm_compute; do 4 eexists; reflexivity.
Qed.

(* ====================================================================================== *)
(* 5. 9p: request                                                                         *)
(* ====================================================================================== *)
Definition p9_request_w (q : qstate) (w : world) (req resp : ubuf) (taddr ae uf : N) (dev : amap -> amap)
  (polls : list N) (u_id u_len : N) : option (outcome N * qstate * list bev * N * world) :=
  if (b_len req =? 0) || (b_len resp <? P9_HEADER_SIZE) then Some (Err EInvalidParam, q, [], 0, w)
  else
    match anwp_w q w [req] [resp] taddr ae uf dev polls u_id u_len with
    | None => None
    | Some (_, _, _, _, w3) =>
        match p9_request q req resp taddr ae uf polls u_id u_len (w_caller w3 (b_id resp)) with
        | None => None
        | Some (o, q2, evs, sp) => Some (o, q2, evs, sp, w3)
        end
    end.

Definition p9_post (o : outcome N) (hdr : list N) : outcome N :=
  match o with
  | Ok used => if negb (le_num (firstn 4 hdr) =? used) then Err EIoError else Ok used
  | Err e => Err e | Panic => Panic | UB => UB
  end.

Lemma p9_request_post q req resp taddr ae uf polls u_id u_len hdr :
  (b_len req =? 0) || (b_len resp <? P9_HEADER_SIZE) = false ->
  p9_request q req resp taddr ae uf polls u_id u_len hdr
  = match anwp q [req] [resp] taddr ae uf polls u_id u_len with
    | None => None
    | Some (o, q2, evs, sp) => Some (p9_post o hdr, q2, evs, sp)
    end.
Proof.
  intros Ha. unfold p9_request, p9_post. rewrite Ha.
  destruct (anwp q [req] [resp] taddr ae uf polls u_id u_len) as [[[[o q2] evs] sp]|]; [|reflexivity].
  destruct o; try reflexivity. destruct (negb _); reflexivity.
Qed.

Lemma le_num_firstn4 rb : (4 <= length rb)%nat -> le_num (firstn 4 rb) = spec_p9_size rb.
Proof.
  intros H. do 4 (destruct rb as [|? rb]; [cbn in H; lia|]).
  unfold spec_p9_size, le32_at, byte_at, le_num. cbn [firstn fold_right nth Nat.add]. lia.
Qed.

(* ... is the flat operation replayed against the implementation, with the size field read from the caller's buffer *)
Lemma p9_w_core q w req resp taddr ae uf dev polls u_id u_len o q2 evs sp w3 :
  p9_request_w q w req resp taddr ae uf dev polls u_id u_len = Some (o, q2, evs, sp, w3) ->
  p9_request q req resp taddr ae uf polls u_id u_len (w_caller w3 (b_id resp)) = Some (o, q2, evs, sp).
Proof.
  unfold p9_request_w. intros H.
  destruct ((b_len req =? 0) || (b_len resp <? P9_HEADER_SIZE)) eqn:Ea.
  - injection H as <- <- <- <- <-. unfold p9_request. now rewrite Ea.
  - destruct (anwp_w _ _ _ _ _ _ _ _ _ _ _) as [[[[[o' q2'] evs'] sp'] w3']|]; [|discriminate].
    destruct (p9_request _ _ _ _ _ _ _ _ _ (w_caller w3' (b_id resp))) as [[[[o1 q21] evs1] sp1]|] eqn:E; [|discriminate].
    injection H as <- <- <- <- <-. exact E.
Qed.

(* C20_misc_9p_request, the argument check: an empty request or a response buffer shorter than a 9P header is
   refused with InvalidParam before anything is shared, stored or notified, for every state *)
Theorem p9_request_args q w req resp taddr ae uf dev polls u_id u_len :
  b_len req = 0 \/ b_len resp < 7 ->
  p9_request_w q w req resp taddr ae uf dev polls u_id u_len = Some (Err EInvalidParam, q, [], 0, w)
  /\ p9_request q req resp taddr ae uf polls u_id u_len [] = Some (Err EInvalidParam, q, [], 0).
Proof.
  intros H. unfold p9_request_w, p9_request, P9_HEADER_SIZE.
  assert (E : (b_len req =? 0) || (b_len resp <? 7) = true).
  { destruct H as [H|H]; [rewrite H; reflexivity|]. apply orb_true_iff. right. now apply N.ltb_lt. }
  rewrite E. auto.
Qed.

(* C20_misc_9p_request: a request with acceptable arguments on an idle queue, for EVERY device behaviour:
   - the chain the device walks is [request, readable, req.len()][response buffer, writable, resp.len()] and
     device-visible memory at the first element holds exactly the caller's request bytes;
   - if the device uses the chain: the caller's response buffer holds what the device left at its address, the
     request buffer is untouched, and the result is Ok(used length) exactly when the little-endian size field in
     the first four response bytes equals the used length the device recorded (as u32) and IoError otherwise -
     no comparison with resp.len() is made (p9_size_not_clamped); the queue is idle again;
   - a foreign used id gives WrongToken. *)
Theorem p9_request_spec q w req resp taddr ae uf dev polls u_id u_len o q2 evs sp w3 tmem :
  Idle q -> 2 <= q_size q -> b_len req <> 0 -> b_len req < two32 -> 7 <= b_len resp -> b_len resp < two32 ->
  b_id req <> b_id resp ->
  p9_request_w q w req resp taddr ae uf dev polls u_id u_len = Some (o, q2, evs, sp, w3) ->
  (forall ta tbl, c_tbl (new_chain q [req] [resp] taddr) = Some (ta, tbl) -> tmem ta = Some tbl) ->
  let tok := q_free_head q in
  exists q1 evs1 evs2,
    add q [req] [resp] taddr = (Ok tok, q1, evs1)
    /\ walk (q_dtable q1) tmem tok (N.to_nat (q_size q1)) = Some [(b_addr req, b_len req, false); (b_addr resp, b_len resp, true)]
    /\ evs = map BQ evs1 ++ (if should_notify q1 ae uf then [BNotify] else []) ++ map BQ evs2
    /\ let dm := aset (w_dev w) (b_addr req) (takeN (b_len req) (w_caller w (b_id req))) in
       (w16 u_id = tok ->
          let rb := takeN (b_len resp) (dev dm (b_addr resp)) in
          w_caller w3 (b_id resp) = rb
          /\ (forall id, id <> b_id resp -> w_caller w3 id = w_caller w id)
          /\ o = (if le_num (firstn 4 rb) =? w32 u_len then Ok (w32 u_len) else Err EIoError)
          /\ Idle q2 /\ q_size q2 = q_size q /\ q_indirect q2 = q_indirect q /\ q_event_idx q2 = q_event_idx q)
       /\ (w16 u_id <> tok -> o = Err EWrongToken /\ w_caller w3 = w_caller w).
Proof.
  intros HId Hsz Hq0 Hq32 Hr7 Hr32 Hids Hrun Hmem tok. subst tok.
  unfold p9_request_w in Hrun.
  assert (Ha : (b_len req =? 0) || (b_len resp <? P9_HEADER_SIZE) = false).
  { apply orb_false_iff. split; [now apply N.eqb_neq|]. apply N.ltb_ge. exact Hr7. }
  rewrite Ha in Hrun.
  destruct (anwp_w q w [req] [resp] taddr ae uf dev polls u_id u_len) as [[[[[o' q2'] evs'] sp'] w3']|] eqn:Ea; [|discriminate].
  pose proof (anwp_w_core q w [req] [resp] taddr ae uf dev polls u_id u_len) as Hcore. rewrite Ea in Hcore. cbn in Hcore.
  rewrite (p9_request_post _ _ _ _ _ _ _ _ _ _ Ha), <- Hcore in Hrun. injection Hrun as <- <- <- <- <-.
  assert (Hok : bufs_ok (tag_bufs [req] [resp])).
  { constructor; [|constructor; [|constructor]]; cbn [fst]; split; try assumption. lia. }
  destruct (anwp_blocking q w [req] [resp] taddr ae uf dev polls u_id u_len o' q2' evs' sp' w3' tmem HId Hok
              ltac:(discriminate) ltac:(exact Hsz) Ea Hmem)
    as (q1 & evs1 & evs2 & Hadd & Hwalk & _ & Hevs & Hgood & Hbad).
  exists q1, evs1, evs2. split; [exact Hadd|]. split; [exact Hwalk|]. split; [exact Hevs|].
  cbn [tag_bufs map app buf_shares fold_left hal_share hal_unshare hal_ev fst snd w_caller w_dev] in Hgood, Hbad.
  cbn zeta. split.
  - intros E. destruct (Hgood E) as (-> & -> & HI2 & A & B & C).
    cbn [w_caller p9_post]. rewrite aset_eq.
    split; [reflexivity|]. split; [intros id Hid; now apply aset_neq|].
    split; [destruct (le_num _ =? _); reflexivity|]. auto.
  - intros E. destruct (Hbad E) as (-> & -> & _). auto.
Qed.

(* the used length / size field are compared with each other only: a device may make request() return more
   than resp.len() *)
Example p9_size_not_clamped :
  exists q2 evs sp,
    p9_request (qnew 16 false false) (mkBuf 1 3 1000) (mkBuf 2 7 2000) 0 0 0 [1] 0 100 [100; 0; 0; 0] = Some (Ok 100, q2, evs, sp).
Proof. vm_compute. eauto. Qed.

(* against a device that answers with a 9P message of `size` bytes fitting the buffer, whose size[4] field says so,
   and records exactly that as the used length: Ok(size), and the caller's buffer starts with the message *)
Theorem p9_request_spec_device q w req resp taddr ae uf dev polls u_id u_len o q2 evs sp w3 tmem msg :
  Idle q -> 2 <= q_size q -> b_len req <> 0 -> b_len req < two32 -> 7 <= b_len resp -> b_len resp < two32 ->
  b_id req <> b_id resp ->
  p9_request_w q w req resp taddr ae uf dev polls u_id u_len = Some (o, q2, evs, sp, w3) ->
  (forall ta tbl, c_tbl (new_chain q [req] [resp] taddr) = Some (ta, tbl) -> tmem ta = Some tbl) ->
  w16 u_id = q_free_head q ->
  let dm := aset (w_dev w) (b_addr req) (takeN (b_len req) (w_caller w (b_id req))) in
  firstn (length msg) (dev dm (b_addr resp)) = msg -> 7 <= lenN msg <= b_len resp ->
  spec_p9_size msg = lenN msg -> u_len = lenN msg ->
  o = Ok (lenN msg) /\ firstn (length msg) (w_caller w3 (b_id resp)) = msg /\ Idle q2.
Proof.
  intros HId Hsz Hq0 Hq32 Hr7 Hr32 Hids Hrun Hmem Htok dm Hmsg Hlen Hsize Hused.
  destruct (p9_request_spec q w req resp taddr ae uf dev polls u_id u_len o q2 evs sp w3 tmem
              HId Hsz Hq0 Hq32 Hr7 Hr32 Hids Hrun Hmem) as (q1 & evs1 & evs2 & _ & _ & _ & Hgood & _).
  fold dm in Hgood. destruct (Hgood Htok) as (Hrb & _ & Ho & HI2 & _).
  set (m := dev dm (b_addr resp)) in *.
  assert (Hl : (length msg <= length m)%nat).
  { rewrite <- Hmsg. rewrite firstn_length. lia. }
  assert (Hfm : firstn (length msg) (takeN (b_len resp) m) = msg).
  { unfold takeN. rewrite firstn_firstn. replace (Init.Nat.min (length msg) (N.to_nat (b_len resp))) with (length msg); [exact Hmsg|].
    unfold lenN in Hlen. lia. }
  assert (H4 : firstn 4 (takeN (b_len resp) m) = firstn 4 msg).
  { transitivity (firstn 4 (firstn (length msg) (takeN (b_len resp) m))); [|now rewrite Hfm].
    rewrite firstn_firstn. replace (Init.Nat.min 4 (length msg)) with 4%nat; [reflexivity|].
    unfold lenN in Hlen. lia. }
  rewrite H4, le_num_firstn4, Hsize, Hused in Ho by (unfold lenN in Hlen; lia).
  assert (Hw : w32 (lenN msg) = lenN msg) by (unfold w32; apply N.mod_small; unfold two32 in *; lia).
  rewrite Hw, N.eqb_refl in Ho. split; [exact Ho|]. split; [|exact HI2]. rewrite Hrb. exact Hfm.
Qed.

Example p9_request_spec_nonvacuous :
  Idle (qnew P9_QUEUE_SIZE true false)
  /\ exists q2 evs sp w3,
       p9_request_w (qnew P9_QUEUE_SIZE true false) (mkW (fun id => if id =? 1 then [1; 2; 3] else []) (fun _ => []))
         (mkBuf 1 3 1000) (mkBuf 2 9 2000) 3000 0 0 (fun m => aset m 2000 [8; 0; 0; 0; 101; 1; 0; 42; 77; 78]) [0; 1] 0 8
       = Some (Ok 8, q2, evs, sp, w3)
       /\ w_caller w3 2 = [8; 0; 0; 0; 101; 1; 0; 42; 77].
Proof.
  split; [exact (idle_new 4 true false ltac:(lia))|].
  vm_compute. do 4 eexists. split; reflexivity.
Qed.

(* ====================================================================================== *)
(* 6. 9p: the mount tag                                                                   *)
(* ====================================================================================== *)
Definition tstable (t : tag_try) : Prop := w32 (tt_g1 t) = w32 (tt_g2 t).

(* read_consistent: the result is that of the FIRST attempt during which the config generation did not move;
   torn attempts are discarded whatever they produced (even errors) *)
Lemma read_mount_tag_first_stable tries o evs :
  read_mount_tag tries = Some (o, evs) ->
  exists pre t post cevs,
    tries = pre ++ t :: post /\ Forall (fun x => ~ tstable x) pre /\ tstable t
    /\ tag_closure (tt_len t) (tt_bytes t) = Some (o, cevs).
Proof.
  revert o evs. induction tries as [|t rest IH]; intros o evs H; cbn [read_mount_tag] in H; [discriminate|].
  destruct (tag_closure (tt_len t) (tt_bytes t)) as [[o1 e1]|] eqn:Ec; [|discriminate].
  destruct (N.eqb_spec (w32 (tt_g1 t)) (w32 (tt_g2 t))) as [Es|En].
  - injection H as <- <-. exists [], t, rest, e1. repeat split; auto.
  - destruct (read_mount_tag rest) as [[o2 e2]|] eqn:Er; [|discriminate]. injection H as <- <-.
    destruct (IH o2 e2 eq_refl) as (pre & t' & post & cevs & -> & Hpre & Hst & Hcl).
    exists (t :: pre), t', post, cevs. repeat split; auto.
Qed.

(* the answers of a transport in front of a device whose config space holds the bytes cfg *)
Definition cfg_len_ans (cfg : list N) : cans :=
  if 2 <=? lenN cfg then AOk (le16_at cfg 0) else AErr EConfigSpaceTooSmall.
Definition cfg_byte_ans (cfg : list N) (n : N) : list cans :=
  let avail := skipn 2 cfg in
  if n <=? lenN avail then map AOk (takeN n avail) else map AOk avail ++ [AErr EConfigSpaceTooSmall].

(* what the property asks read_mount_tag to return for that device *)
Definition tag_result (cfg : list N) : outcome (list N) :=
  match spec_tag cfg with
  | Some tag => if utf8_valid tag then Ok tag else Err EIoError
  | None => if (2 <=? lenN cfg) && (le16_at cfg 0 =? 0) then Err EInvalidParam else Err EConfigSpaceTooSmall
  end.

Lemma tag_loop_all bs : forall idx rest, Forall (fun b => b < 256) bs ->
  exists evs, tag_loop (map AOk bs ++ rest) idx (lenN bs) = Some (Ok bs, evs).
Proof.
  induction bs as [|b bs IH]; intros idx rest Hb.
  - destruct rest; cbn; eauto.
  - inversion Hb as [|? ? Hb1 Hb2]; subst. cbn [map app tag_loop].
    rewrite lenN_cons. destruct (N.eqb_spec (1 + lenN bs) 0) as [E|_]; [lia|].
    replace (1 + lenN bs - 1) with (lenN bs) by lia.
    destruct (IH (idx + 1) rest Hb2) as [evs ->]. unfold w8. rewrite N.mod_small by exact Hb1. eauto.
Qed.

Lemma tag_loop_short bs : forall idx n e rest, lenN bs < n ->
  exists evs, tag_loop (map AOk bs ++ AErr e :: rest) idx n = Some (Err e, evs).
Proof.
  induction bs as [|b bs IH]; intros idx n e rest Hn.
  - cbn [map app tag_loop]. destruct (N.eqb_spec n 0) as [E|_]; [rewrite lenN_nil in Hn; lia|]. eauto.
  - cbn [map app tag_loop]. rewrite lenN_cons in Hn. destruct (N.eqb_spec n 0) as [E|_]; [lia|].
    destruct (IH (idx + 1) (n - 1) e rest ltac:(lia)) as [evs ->]. eauto.
Qed.

Lemma all_bytes_Forall bs : all_bytes bs = true -> Forall (fun b => b < 256) bs.
Proof.
  unfold all_bytes. rewrite forallb_forall, Forall_forall. intros H x Hx. apply N.ltb_lt. now apply H.
Qed.

Lemma le16_at_lt bs : all_bytes bs = true -> le16_at bs 0 < 65536.
Proof.
  intros H. apply all_bytes_Forall in H. rewrite Forall_forall in H. unfold le16_at, byte_at.
  assert (A : forall i, nth i bs 0 < 256).
  { intros i. destruct (nth_in_or_default i bs 0) as [Hi| ->]; [now apply H|lia]. }
  pose proof (A 0%nat). pose proof (A (0 + 1)%nat). lia.
Qed.

(* the closure of read_mount_tag in front of a device exposing cfg returns exactly what the specification's
   config layout says the tag is: the tag_len bytes after the length field when they are all there and are
   well-formed UTF-8; InvalidParam for tag_len = 0; the transport's error when the config space ends before the
   tag does; IoError for a tag that is not UTF-8 *)
Theorem tag_closure_cfg cfg :
  all_bytes cfg = true ->
  exists evs, tag_closure (cfg_len_ans cfg) (cfg_byte_ans cfg (le16_at cfg 0)) = Some (tag_result cfg, evs).
Proof.
  intros Hb. pose proof (le16_at_lt cfg Hb) as Hl.
  unfold tag_closure, cfg_len_ans, tag_result, spec_tag.
  destruct (N.leb_spec 2 (lenN cfg)) as [H2|H2].
  2:{ destruct (N.ltb_spec (lenN cfg) 2); [|lia]. cbn [andb]. eauto. }
  destruct (N.ltb_spec (lenN cfg) 2); [lia|]. cbn [andb].
  unfold w16. rewrite N.mod_small by exact Hl.
  destruct (N.eqb_spec (le16_at cfg 0) 0) as [E0|E0]; [eauto|].
  set (n := le16_at cfg 0) in *.
  assert (Hsk : lenN (skipn 2 cfg) = lenN cfg - 2).
  { unfold lenN. rewrite skipn_length. unfold lenN in H2. lia. }
  assert (Hfb : Forall (fun b => b < 256) (skipn 2 cfg)).
  { apply all_bytes_Forall in Hb. rewrite Forall_forall in *. intros x Hx. apply Hb.
    rewrite <- (firstn_skipn 2 cfg). apply in_or_app. now right. }
  unfold cfg_byte_ans. rewrite Hsk.
  destruct (N.leb_spec (2 + n) (lenN cfg)) as [Hfit|Hfit].
  - destruct (N.leb_spec n (lenN cfg - 2)); [|lia].
    set (tag := takeN n (skipn 2 cfg)).
    assert (Htl : lenN tag = n) by (apply takeN_len; lia).
    assert (Hft : Forall (fun b => b < 256) tag).
    { rewrite Forall_forall in *. intros x Hx. apply Hfb. unfold tag, takeN in Hx. eapply firstn_in; eauto. }
    destruct (tag_loop_all tag 0 [] Hft) as [evs He]. rewrite app_nil_r, Htl in He. rewrite He.
    fold (takeN n (skipn 2 cfg)). fold tag. eauto.
  - destruct (N.leb_spec n (lenN cfg - 2)); [lia|].
    destruct (tag_loop_short (skipn 2 cfg) 0 n EConfigSpaceTooSmall [] ltac:(lia)) as [evs ->]. eauto.
Qed.

(* C20_misc_mount_tag: read_mount_tag, for every schedule of config changes: the result is decided by the first
   attempt with a stable generation, and if that attempt saw the config space cfg it is the specification's tag
   of cfg (or the error the property names) *)
Theorem mount_tag_spec tries o evs :
  read_mount_tag tries = Some (o, evs) ->
  exists pre t post,
    tries = pre ++ t :: post /\ Forall (fun x => ~ tstable x) pre /\ tstable t
    /\ forall cfg, all_bytes cfg = true -> tt_len t = cfg_len_ans cfg -> tt_bytes t = cfg_byte_ans cfg (le16_at cfg 0) ->
         o = tag_result cfg.
Proof.
  intros H. destruct (read_mount_tag_first_stable tries o evs H) as (pre & t & post & cevs & E & Hpre & Hst & Hcl).
  exists pre, t, post. repeat split; auto.
  intros cfg Hb Hl Hbs. destruct (tag_closure_cfg cfg Hb) as [evs' Hc]. rewrite <- Hl, <- Hbs, Hcl in Hc.
  now injection Hc.
Qed.

Example mount_tag_spec_nonvacuous :
  let cfg1 := [5; 0; 118; 101; 114; 105; 102; 0; 0] in
  let cfg2 := [3; 0; 237; 160; 128] in       (* a UTF-16 surrogate: not UTF-8 *)
  let cfg3 := [4; 0; 97; 98] in              (* tag_len says 4, the config space holds 2 *)
  let t c g1 g2 := mkTT g1 (cfg_len_ans c) (cfg_byte_ans c (le16_at c 0)) g2 in
  (exists evs, read_mount_tag [t cfg2 0 1; t cfg1 1 1] = Some (Ok [118; 101; 114; 105; 102], evs))
  /\ tag_result cfg1 = Ok [118; 101; 114; 105; 102]
  /\ tag_result cfg2 = Err EIoError
  /\ tag_result cfg3 = Err EConfigSpaceTooSmall
  /\ tag_result [0; 0; 1] = Err EInvalidParam
  /\ (exists evs, read_mount_tag [t cfg3 7 7] = Some (Err EConfigSpaceTooSmall, evs)).
Proof. cbv zeta. repeat split; vm_compute; eauto. Qed.

(* ====================================================================================== *)
(* 7. UTF-8: the validator of the model is exactly Unicode's definition (D92)             *)
(* ====================================================================================== *)
Lemma inr_spec lo hi b : inr lo hi b = true <-> lo <= b <= hi.
Proof. unfold inr. rewrite andb_true_iff, N.leb_le, N.leb_le. tauto. Qed.


Lemma inr_false lo hi b : b < lo \/ hi < b -> inr lo hi b = false.
Proof. intros H. unfold inr. destruct (N.leb_spec lo b); destruct (N.leb_spec b hi); try reflexivity; lia. Qed.

(* decide every test on the lead byte b0 that the hypotheses decide *)
Ltac lead b0 :=
  repeat match goal with
         | |- context [b0 <? ?k] => first [rewrite (proj2 (N.ltb_lt b0 k)) by lia | rewrite (proj2 (N.ltb_ge b0 k)) by lia]
         | |- context [b0 =? ?k] => first [rewrite (proj2 (N.eqb_eq b0 k)) by lia | rewrite (proj2 (N.eqb_neq b0 k)) by lia]
         | |- context [inr ?lo ?hi b0] => first [rewrite (proj2 (inr_spec lo hi b0)) by lia | rewrite (inr_false lo hi b0) by lia]
         end; cbn [andb orb negb].

Lemma u8_step1 b t : b < 128 -> utf8_valid (b :: t) = utf8_valid t.
Proof. intros H. cbn [utf8_valid]. lead b. reflexivity. Qed.

Lemma u8_step2 b0 b1 t : 194 <= b0 <= 223 -> utf8_valid (b0 :: b1 :: t) = cont b1 && utf8_valid t.
Proof. intros H. cbn [utf8_valid]. lead b0. reflexivity. Qed.

Lemma u8_step3 b0 b1 b2 t : 224 <= b0 <= 239 ->
  utf8_valid (b0 :: b1 :: b2 :: t)
  = inr (if b0 =? 224 then 160 else 128) (if b0 =? 237 then 159 else 191) b1 && cont b2 && utf8_valid t.
Proof.
  intros H. cbn [utf8_valid].
  destruct (N.eq_dec b0 224) as [E1|E1]; [lead b0; reflexivity|].
  destruct (N.eq_dec b0 237) as [E2|E2]; [lead b0; reflexivity|].
  destruct (N.le_gt_cases b0 236); lead b0; reflexivity.
Qed.

Lemma u8_step4 b0 b1 b2 b3 t : 240 <= b0 <= 244 ->
  utf8_valid (b0 :: b1 :: b2 :: b3 :: t)
  = inr (if b0 =? 240 then 144 else 128) (if b0 =? 244 then 143 else 191) b1 && cont b2 && cont b3 && utf8_valid t.
Proof.
  intros H. cbn [utf8_valid].
  destruct (N.eq_dec b0 240) as [E1|E1]; [lead b0; reflexivity|].
  destruct (N.eq_dec b0 244) as [E2|E2]; lead b0; reflexivity.
Qed.

(* lead bytes that start nothing, and sequences cut short *)
Lemma u8_bad_lead b0 t : 128 <= b0 <= 193 \/ 245 <= b0 -> utf8_valid (b0 :: t) = false.
Proof.
  intros H. destruct t as [|b1 [|b2 [|b3 t3]]]; cbn [utf8_valid]; lead b0; reflexivity.
Qed.
Lemma u8_short1 b0 : 128 <= b0 -> utf8_valid [b0] = false.
Proof. intros H. cbn [utf8_valid]. lead b0. reflexivity. Qed.
Lemma u8_short2 b0 b1 : 224 <= b0 -> utf8_valid [b0; b1] = false.
Proof. intros H. cbn [utf8_valid]. lead b0. reflexivity. Qed.
Lemma u8_short3 b0 b1 b2 : 240 <= b0 -> utf8_valid [b0; b1; b2] = false.
Proof. intros H. cbn [utf8_valid]. lead b0. reflexivity. Qed.

Lemma scalar_spec cp : scalar cp = true <-> cp < 55296 \/ 57344 <= cp < 1114112.
Proof. unfold scalar. rewrite orb_true_iff, andb_true_iff, !N.ltb_lt, N.leb_le. tauto. Qed.

Lemma cont_spec b : cont b = true <-> 128 <= b <= 191.
Proof. apply inr_spec. Qed.

(* completeness: the encoding of every Unicode scalar value is accepted *)
Lemma utf8_valid_enc cp t : scalar cp = true -> utf8_valid (utf8_enc cp ++ t) = utf8_valid t.
Proof.
  intros Hs. apply scalar_spec in Hs. unfold utf8_enc.
  destruct (N.ltb_spec cp 128); [cbn [app]; now apply u8_step1|].
  destruct (N.ltb_spec cp 2048).
  { cbn [app]. rewrite u8_step2 by lia. rewrite (proj2 (cont_spec _)) by lia. reflexivity. }
  destruct (N.ltb_spec cp 65536).
  { cbn [app]. rewrite u8_step3 by lia. rewrite (proj2 (cont_spec (128 + cp mod 64))) by lia.
    rewrite (proj2 (inr_spec _ _ _)); [reflexivity|].
    destruct (N.eqb_spec (224 + cp / 4096) 224); destruct (N.eqb_spec (224 + cp / 4096) 237); lia. }
  cbn [app]. rewrite u8_step4 by lia.
  rewrite (proj2 (cont_spec (128 + cp mod 64))) by lia. rewrite (proj2 (cont_spec (128 + (cp / 64) mod 64))) by lia.
  rewrite (proj2 (inr_spec _ _ _)); [reflexivity|].
  destruct (N.eqb_spec (240 + cp / 262144) 240); destruct (N.eqb_spec (240 + cp / 262144) 244); lia.
Qed.

Theorem utf8_valid_complete cps : Forall (fun cp => scalar cp = true) cps -> utf8_valid (utf8_string cps) = true.
Proof.
  induction 1 as [|cp cps Hcp _ IH]; [reflexivity|].
  unfold utf8_string in *. cbn [flat_map]. now rewrite utf8_valid_enc.
Qed.

(* soundness: whatever is accepted starts with the encoding of a scalar value, and the rest is accepted *)
Lemma utf8_valid_head bs : utf8_valid bs = true -> bs <> [] ->
  exists cp t, scalar cp = true /\ bs = utf8_enc cp ++ t /\ utf8_valid t = true /\ (length t < length bs)%nat.
Proof.
  intros Hv Hne. destruct bs as [|b0 t0]; [congruence|].
  destruct (N.ltb_spec b0 128) as [H0|H0].
  { rewrite u8_step1 in Hv by exact H0. exists b0, t0. split; [apply scalar_spec; lia|].
    split; [unfold utf8_enc; destruct (N.ltb_spec b0 128); [reflexivity|lia]|]. split; [exact Hv|cbn; lia]. }
  destruct (N.le_gt_cases b0 193) as [Hlow|Hlow]; [rewrite u8_bad_lead in Hv by lia; discriminate|].
  destruct (N.le_gt_cases 245 b0) as [Hhi|Hhi]; [rewrite u8_bad_lead in Hv by lia; discriminate|].
  destruct t0 as [|b1 t1]; [rewrite u8_short1 in Hv by lia; discriminate|].
  destruct (N.le_gt_cases b0 223) as [H2|H2].
  { rewrite u8_step2 in Hv by lia. apply andb_true_iff in Hv. destruct Hv as [Hc Hv]. apply cont_spec in Hc.
    exists ((b0 - 192) * 64 + (b1 - 128)), t1. split; [apply scalar_spec; lia|].
    split; [|split; [exact Hv|cbn; lia]].
    unfold utf8_enc. destruct (N.ltb_spec ((b0 - 192) * 64 + (b1 - 128)) 128); [lia|].
    destruct (N.ltb_spec ((b0 - 192) * 64 + (b1 - 128)) 2048); [|lia].
    cbn [app]. f_equal; [lia|]. f_equal. lia. }
  destruct t1 as [|b2 t2]; [rewrite u8_short2 in Hv by lia; discriminate|].
  destruct (N.le_gt_cases b0 239) as [H3|H3].
  { rewrite u8_step3 in Hv by lia. apply andb_true_iff in Hv. destruct Hv as [Hv Hvt].
    apply andb_true_iff in Hv. destruct Hv as [Hc1 Hc2]. apply inr_spec in Hc1. apply cont_spec in Hc2.
    set (cp := (b0 - 224) * 4096 + (b1 - 128) * 64 + (b2 - 128)).
    assert (Hb1 : 128 <= b1 <= 191) by (destruct (b0 =? 224); destruct (b0 =? 237); lia).
    assert (Hr : 2048 <= cp < 65536 /\ (cp < 55296 \/ 57344 <= cp)).
    { unfold cp. destruct (N.eqb_spec b0 224); destruct (N.eqb_spec b0 237); lia. }
    exists cp, t2. split; [apply scalar_spec; lia|]. split; [|split; [exact Hvt|cbn; lia]].
    unfold utf8_enc. destruct (N.ltb_spec cp 128); [lia|]. destruct (N.ltb_spec cp 2048); [lia|].
    destruct (N.ltb_spec cp 65536); [|lia].
    assert (Hd : cp / 4096 = b0 - 224 /\ (cp / 64) mod 64 = b1 - 128 /\ cp mod 64 = b2 - 128) by (unfold cp; lia).
    destruct Hd as (D1 & D2 & D3). rewrite D1, D2, D3.
    cbn [app]. f_equal; [lia|]. f_equal; [lia|]. f_equal. lia. }
  destruct t2 as [|b3 t3]; [rewrite u8_short3 in Hv by lia; discriminate|].
  rewrite u8_step4 in Hv by lia. apply andb_true_iff in Hv. destruct Hv as [Hv Hvt].
  apply andb_true_iff in Hv. destruct Hv as [Hv Hc3]. apply andb_true_iff in Hv. destruct Hv as [Hc1 Hc2].
  apply inr_spec in Hc1. apply cont_spec in Hc2, Hc3.
  set (cp := (b0 - 240) * 262144 + (b1 - 128) * 4096 + (b2 - 128) * 64 + (b3 - 128)).
  assert (Hb1 : 128 <= b1 <= 191) by (destruct (b0 =? 240); destruct (b0 =? 244); lia).
  assert (Hr : 65536 <= cp < 1114112).
  { unfold cp. destruct (N.eqb_spec b0 240); destruct (N.eqb_spec b0 244); lia. }
  exists cp, t3. split; [apply scalar_spec; lia|]. split; [|split; [exact Hvt|cbn; lia]].
  unfold utf8_enc. destruct (N.ltb_spec cp 128); [lia|]. destruct (N.ltb_spec cp 2048); [lia|].
  destruct (N.ltb_spec cp 65536); [lia|].
  assert (Hd : cp / 262144 = b0 - 240 /\ (cp / 4096) mod 64 = b1 - 128 /\ (cp / 64) mod 64 = b2 - 128 /\ cp mod 64 = b3 - 128)
    by (unfold cp; lia).
  destruct Hd as (D1 & D2 & D3 & D4). rewrite D1, D2, D3, D4.
  cbn [app]. f_equal; [lia|]. f_equal; [lia|]. f_equal; [lia|]. f_equal. lia.
Qed.

Theorem utf8_valid_sound bs : utf8_valid bs = true ->
  exists cps, Forall (fun cp => scalar cp = true) cps /\ bs = utf8_string cps.
Proof.
  remember (length bs) as n eqn:Hn. revert bs Hn.
  induction n as [n IH] using lt_wf_ind. intros bs Hn Hv.
  destruct bs as [|b t] eqn:Eb; [exists []; split; [constructor|reflexivity]|]. rewrite <- Eb in *.
  destruct (utf8_valid_head bs Hv ltac:(rewrite Eb; discriminate)) as (cp & t' & Hs & Hbs & Hvt & Hlt).
  destruct (IH (length t') ltac:(lia) t' eq_refl Hvt) as (cps & Hcps & Ht').
  exists (cp :: cps). split; [now constructor|]. unfold utf8_string in *. cbn [flat_map]. now rewrite <- Ht'.
Qed.

(* C20_misc_utf8: accepted exactly the byte strings that encode a sequence of Unicode scalar values *)
Theorem utf8_valid_iff bs :
  utf8_valid bs = true <-> exists cps, Forall (fun cp => scalar cp = true) cps /\ bs = utf8_string cps.
Proof.
  split; [apply utf8_valid_sound|]. intros (cps & H & ->). now apply utf8_valid_complete.
Qed.

Example utf8_nonvacuous :
  utf8_valid (utf8_string [65; 233; 8364; 128512; 1114111; 55295; 57344]) = true
  /\ utf8_string [8364] = [226; 130; 172]
  /\ utf8_valid [237; 160; 128] = false       (* U+D800 *)
  /\ utf8_valid [192; 128] = false            (* overlong NUL *)
  /\ utf8_valid [224; 159; 191] = false       (* overlong 3-byte form *)
  /\ utf8_valid [240; 143; 191; 191] = false  (* overlong 4-byte form *)
  /\ utf8_valid [244; 144; 128; 128] = false  (* U+110000 *)
  /\ utf8_valid [226; 130] = false            (* truncated *)
  /\ utf8_valid [128] = false.
Proof. repeat split; vm_compute; reflexivity. Qed.

(* ====================================================================================== *)
(* 8. histories: every operation of every sequence of clock operations                    *)
(* ====================================================================================== *)
(* a memory for indirect tables that holds what the chain's table is (always exists) *)
Definition tmem_of (c : chain) : N -> option (list desc) :=
  fun a => match c_tbl c with Some (ta, tbl) => if a =? ta then Some tbl else None | None => None end.
Lemma tmem_of_ok c ta tbl : c_tbl c = Some (ta, tbl) -> tmem_of c ta = Some tbl.
Proof. intros H. unfold tmem_of. rewrite H, N.eqb_refl. reflexivity. Qed.

(* a history of public operations against a device that completes the chains it is given (any status, any
   values, any used length, any delay); the trace records (operation, the 16 bytes the device left, result) *)
Inductive RtcRun : qstate -> world -> list (N * list N * outcome (list N)) -> qstate -> world -> Prop :=
| RR_nil q w : RtcRun q w [] q w
| RR_op q w op clock_id req_id req_addr resp_id resp_addr taddr ae uf dev polls u_id u_len o q2 evs sp w3 ans rest q' w' :
    clock_id < 65536 -> req_id <> resp_id ->
    rtc_op_w q w op clock_id req_id req_addr resp_id resp_addr taddr ae uf dev polls u_id u_len = Some (o, q2, evs, sp, w3) ->
    w16 u_id = q_free_head q ->
    dev (aset (w_dev w) req_addr (rtc_enc_req (rtc_op_req op clock_id))) resp_addr = ans -> length ans = 16%nat ->
    RtcRun q2 w3 rest q' w' ->
    RtcRun q w ((op, ans, o) :: rest) q' w'.

(* C20_misc_rtc_history: in every such history, of any length, starting from any idle queue, EVERY operation
   returns what the specification's reading of the device's answer is (Ok with the reported values exactly for
   S_OK, the status table's error otherwise), and the queue ends idle *)
Theorem rtc_history q w tr q' w' :
  Idle q -> 2 <= q_size q -> RtcRun q w tr q' w' ->
  Forall (fun x => snd x = spec_result (fst (fst x)) (snd (fst x))) tr /\ Idle q' /\ q_size q' = q_size q.
Proof.
  intros HId Hsz HR. induction HR as [q w|q w op clock_id req_id req_addr resp_id resp_addr taddr ae uf dev polls u_id u_len
                                           o q2 evs sp w3 ans rest q' w' Hid Hids Hrun Htok Hans Hlen HR IH].
  - split; [constructor|]. auto.
  - set (r := rtc_op_req op clock_id) in *.
    set (c := new_chain q [rtc_req_buf r req_id req_addr] [rtc_resp_buf r resp_id resp_addr] taddr).
    destruct (rtc_op_spec q w op clock_id req_id req_addr resp_id resp_addr taddr ae uf dev polls u_id u_len o q2 evs sp w3
                (tmem_of c) ans HId Hsz Hid Hids Hrun (tmem_of_ok c) Hans Hlen) as (q1 & evs1 & _ & _ & _ & Hgood & _).
    destruct (Hgood Htok) as (Ho & _ & _ & HI2 & Hs2 & _).
    destruct (IH HI2 ltac:(lia)) as (A & B & C).
    split; [constructor; [exact Ho|exact A]|]. split; [exact B|lia].
Qed.

Example rtc_history_nonvacuous :
  exists q' w', RtcRun (qnew RTC_QUEUE_SIZE true true) ex_w0
    [(0, spec_resp_cfg 0 3, Ok [3; 0; 0]); (2, spec_resp_read 5 77, Err EIoError); (1, spec_resp_clock_cap 0 1 0 1, Ok [1; 0; 1])] q' w'.
Proof.
  do 2 eexists.
  eapply (RR_op _ _ 0 0 1 1000 2 2000 3000 0 0 (fun m => aset m 2000 (spec_resp_cfg 0 3)) [0; 1] 0 16);
    [reflexivity|discriminate|vm_compute; reflexivity|reflexivity|reflexivity|reflexivity|].
  eapply (RR_op _ _ 2 9 3 1100 4 2100 3100 0 0 (fun m => aset m 2100 (spec_resp_read 5 77)) [2] 0 16);
    [reflexivity|discriminate|vm_compute; reflexivity|reflexivity|reflexivity|reflexivity|].
  eapply (RR_op _ _ 1 65535 5 1200 6 2200 3200 0 0 (fun m => aset m 2200 (spec_resp_clock_cap 0 1 0 1)) [3] 0 0);
    [reflexivity|discriminate|vm_compute; reflexivity|reflexivity|reflexivity|reflexivity|].
  apply RR_nil.
Qed.

(* ====================================================================================== *)
(* 9. the two remaining public operations                                                 *)
(* ====================================================================================== *)
(* invalid_feature_bits: exactly the offered bits that the rtc Feature type does not name *)
Theorem rtc_invalid_bits_spec f k :
  N.testbit (rtc_invalid_feature_bits f) k = N.testbit (w64 f) k && negb (N.testbit RTC_KNOWN_FEATURES k).
Proof. unfold rtc_invalid_feature_bits. apply N.ldiff_spec. Qed.

Example rtc_invalid_bits_nonvacuous :
  rtc_invalid_feature_bits RTC_KNOWN_FEATURES = 0
  /\ rtc_invalid_feature_bits (RTC_KNOWN_FEATURES + 2 ^ 42 + 2) = 2 ^ 42 + 2
  /\ forallb (fun k => N.testbit RTC_KNOWN_FEATURES k) [0; 24; 27; 28; 29; 30; 32; 33; 34; 35; 36; 37; 38; 39; 40; 41; 43] = true
  /\ forallb (fun k => negb (N.testbit RTC_KNOWN_FEATURES k)) [1; 23; 25; 26; 31; 42; 44; 63] = true.
Proof. repeat split; vm_compute; reflexivity. Qed.

(* enable / disable_interrupts on a reachable queue keep it reachable (idle stays idle) *)
Lemma rng_set_interrupts_idle q en : Idle q -> Idle (fst (rng_set_interrupts q en)).
Proof.
  intros [h HR]. unfold rng_set_interrupts. pose proof (R_notify q [] h en HR) as H.
  destruct (set_dev_notify q en) as [q' evs]. cbn [fst snd] in *. eexists; exact H.
Qed.

(* ====================================================================================== *)
(* 10. histories of blocking calls in general (rng, 9p: any mixture of buffer shapes)     *)
(* ====================================================================================== *)
(* every call may come with its own memory, addresses, device behaviour and delays; the device completes the
   chain it was given. The trace records (used length the device recorded, result of the helper) *)
Inductive AnwpRun : qstate -> list (N * outcome N) -> qstate -> Prop :=
| AR_nil q : AnwpRun q [] q
| AR_call q w ins outs taddr ae uf dev polls u_id u_len o q2 evs sp w3 rest q' :
    bufs_ok (tag_bufs ins outs) -> tag_bufs ins outs <> [] -> lenN (tag_bufs ins outs) <= q_size q ->
    anwp_w q w ins outs taddr ae uf dev polls u_id u_len = Some (o, q2, evs, sp, w3) ->
    w16 u_id = q_free_head q ->
    AnwpRun q2 rest q' ->
    AnwpRun q ((u_len, o) :: rest) q'.

(* C20_misc_history: in every history of blocking calls on a queue that starts idle, every call returns the used
   length the device recorded for it and the queue is idle again after every call (so each of rng_request_spec /
   p9_request_spec / rtc_request_spec applies to every call of the history, not only to the first) *)
Theorem anwp_history q tr q' :
  Idle q -> AnwpRun q tr q' ->
  Forall (fun x => snd x = Ok (w32 (fst x))) tr /\ Idle q' /\ q_size q' = q_size q.
Proof.
  intros HId HR. induction HR as [q|q w ins outs taddr ae uf dev polls u_id u_len o q2 evs sp w3 rest q' Hok Hne Hlen Hrun Htok HR IH].
  - split; [constructor|]. auto.
  - set (c := new_chain q ins outs taddr).
    destruct (anwp_blocking q w ins outs taddr ae uf dev polls u_id u_len o q2 evs sp w3 (tmem_of c) HId Hok Hne Hlen Hrun (tmem_of_ok c))
      as (q1 & evs1 & evs2 & _ & _ & _ & _ & Hgood & _).
    destruct (Hgood Htok) as (Ho & _ & HI2 & Hs2 & _).
    destruct (IH HI2) as (A & B & C).
    split; [constructor; [exact Ho|exact A]|]. split; [exact B|congruence].
Qed.

Example anwp_history_nonvacuous :
  exists q', AnwpRun (qnew 8 false true) [(3, Ok 3); (4294967297, Ok 1)] q'.
Proof.
  eexists.
  eapply AR_call with (w := ex_w0) (ins := []) (outs := [mkBuf 1 4 1000]) (taddr := 0) (ae := 0) (uf := 0)
                      (dev := fun m => m) (polls := [0; 1]) (u_id := 0).
  - constructor; [split; [discriminate|reflexivity]|constructor].
  - discriminate.
  - cbn. lia.
  - vm_compute. reflexivity.
  - reflexivity.
  - eapply AR_call with (w := ex_w0) (ins := [mkBuf 2 2 1100]) (outs := [mkBuf 3 9 2000]) (taddr := 0) (ae := 0) (uf := 0)
                        (dev := fun m => m) (polls := [2]) (u_id := 0).
    + constructor; [split; [discriminate|reflexivity]|constructor; [split; [discriminate|reflexivity]|constructor]].
    + discriminate.
    + cbn. lia.
    + vm_compute. reflexivity.
    + reflexivity.
    + apply AR_nil.
Qed.
