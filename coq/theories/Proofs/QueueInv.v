(* The central invariant of the split virtqueue and its preservation by every operation. *)
From VD Require Import Base.Words Base.ListUpd Model.Queue.
From Coq Require Import ZArith Lia ZifyBool ZifyN.
Ltac Zify.zify_post_hook ::= Z.div_mod_to_equations.

(* ------------------------------------------------------------------------------------------ *)
(* linked lists threaded through the shadow table                                              *)
Definition nxt (sh : list desc) (i : N) : N :=
  match nthN_error sh i with Some d => d_next d | None => 0 end.

(* the cells l, in order, starting at h, each linked to the following by d_next; the link of the
   last cell is unconstrained (it is whatever was there) *)
Fixpoint lseg (sh : list desc) (h : N) (l : list N) : Prop :=
  match l with
  | [] => True
  | x :: l' => h = x /\ x < lenN sh /\ lseg sh (nxt sh x) l'
  end.

Lemma nxt_updN_neq sh i j d : i <> j -> nxt (updN sh i d) j = nxt sh j.
Proof. intros H. unfold nxt. now rewrite nthN_updN_neq. Qed.

Lemma nxt_updN_eq sh i d : i < lenN sh -> nxt (updN sh i d) i = d_next d.
Proof. intros H. unfold nxt. now rewrite nthN_updN_eq. Qed.

Lemma lseg_updN_out sh h l i d : ~ In i l -> lseg sh h l -> lseg (updN sh i d) h l.
Proof.
  revert h. induction l as [|x l IH]; intros h Hn H; simpl in *; auto.
  destruct H as (-> & Hx & Hl). split; [reflexivity|]. split; [now rewrite lenN_updN|].
  rewrite nxt_updN_neq by (intro; subst; apply Hn; now left).
  apply IH; auto.
Qed.

Lemma lseg_in_range sh h l x : lseg sh h l -> In x l -> x < lenN sh.
Proof.
  revert h. induction l as [|y l IH]; intros h H Hin; simpl in *; [contradiction|].
  destruct H as (-> & Hy & Hl). destruct Hin as [<-|Hin]; eauto.
Qed.

Lemma lseg_app sh h a b :
  lseg sh h (a ++ b) <-> lseg sh h a /\ lseg sh (match a with [] => h | _ => nxt sh (last a 0) end) b.
Proof.
  revert h. induction a as [|x a IH]; intros h; simpl.
  - tauto.
  - rewrite IH. destruct a as [|y a]; simpl; tauto.
Qed.

(* ------------------------------------------------------------------------------------------ *)
(* descriptor chains                                                                            *)
Definition bufdesc (b : ubuf) (w : bool) (more : bool) (nx : N) : desc :=
  mkDesc (b_addr b) (b_len b) ((if more then F_NEXT else 0) + wflag w) nx.

(* chain under construction by add_direct: every cell still carries NEXT, the last links to t *)
Fixpoint dchain_next (sh : list desc) (idxs : list N) (bufs : list (ubuf * bool)) (t : N) : Prop :=
  match idxs, bufs with
  | [], [] => True
  | i :: idxs', (b, w) :: bufs' =>
      nthN_error sh i = Some (bufdesc b w true (hd t idxs')) /\ dchain_next sh idxs' bufs' t
  | _, _ => False
  end.

(* a finished direct chain: NEXT on all cells but the last *)
Fixpoint dchain (sh : list desc) (idxs : list N) (bufs : list (ubuf * bool)) : Prop :=
  match idxs, bufs with
  | [i], [(b, w)] => exists nx, nthN_error sh i = Some (bufdesc b w false nx)
  | i :: ((j :: _) as idxs'), (b, w) :: bufs' =>
      nthN_error sh i = Some (bufdesc b w true j) /\ dchain sh idxs' bufs'
  | _, _ => False
  end.

Lemma dchain_length sh idxs bufs : dchain sh idxs bufs -> length idxs = length bufs /\ idxs <> [].
Proof.
  revert bufs. induction idxs as [|i idxs IH]; intros bufs H; simpl in H; [contradiction|].
  destruct idxs as [|j idxs].
  - destruct bufs as [|[b w] [|? ?]]; try contradiction. split; [reflexivity|discriminate].
  - destruct bufs as [|[b w] bufs]; [contradiction|]. destruct H as [_ H].
    apply IH in H. simpl in *. split; [lia|discriminate].
Qed.

Lemma dchain_next_length sh idxs bufs t : dchain_next sh idxs bufs t -> length idxs = length bufs.
Proof.
  revert bufs. induction idxs as [|i idxs IH]; intros [|[b w] bufs] H; simpl in *; try contradiction; auto.
  destruct H as [_ H]. apply IH in H. lia.
Qed.

Lemma dchain_next_updN_out sh idxs bufs t i d :
  ~ In i idxs -> dchain_next sh idxs bufs t -> dchain_next (updN sh i d) idxs bufs t.
Proof.
  revert bufs. induction idxs as [|x idxs IH]; intros [|[b w] bufs] Hn H; simpl in *; auto.
  destruct H as [H1 H2]. split.
  - rewrite nthN_updN_neq by (intro; subst; apply Hn; now left). exact H1.
  - apply IH; auto.
Qed.

Lemma dchain_updN_out sh idxs bufs i d :
  ~ In i idxs -> dchain sh idxs bufs -> dchain (updN sh i d) idxs bufs.
Proof.
  revert bufs. induction idxs as [|x idxs IH]; intros bufs Hn H; simpl in *; [contradiction|].
  destruct idxs as [|j idxs].
  - destruct bufs as [|[b w] [|? ?]]; try contradiction. destruct H as [nx H]. exists nx.
    rewrite nthN_updN_neq by (intro; subst; apply Hn; now left). exact H.
  - destruct bufs as [|[b w] bufs]; [contradiction|]. destruct H as [H1 H2]. split.
    + rewrite nthN_updN_neq by (intro; subst; apply Hn; now left). exact H1.
    + apply IH; [intro Hi; apply Hn; now right | exact H2].
Qed.

Lemma ldiff_next w : N.ldiff (F_NEXT + wflag w) F_NEXT = 0 + wflag w.
Proof. destruct w; reflexivity. Qed.

Lemma last_in (l : list N) d : l <> [] -> In (last l d) l.
Proof.
  induction l as [|a l IH]; intros H; [congruence|].
  destruct l as [|b l]; [now left|]. right. apply IH. discriminate.
Qed.

Lemma last_indep (l : list N) d1 d2 : l <> [] -> last l d1 = last l d2.
Proof.
  induction l as [|a l IH]; intros H; [congruence|].
  destruct l as [|b l]; [reflexivity|]. apply IH. discriminate.
Qed.

(* removing NEXT from the last cell finishes the chain *)
Lemma dchain_finish sh idxs bufs t dl :
  idxs <> [] -> NoDup idxs -> dchain_next sh idxs bufs t ->
  nthN_error sh (last idxs 0) = Some dl -> last idxs 0 < lenN sh ->
  dchain (updN sh (last idxs 0) (clear_next dl)) idxs bufs.
Proof.
  revert bufs. induction idxs as [|i idxs IH]; intros bufs Hne Hnd H Hl Hlt; [congruence|].
  destruct bufs as [|[b w] bufs]; simpl in H; [contradiction|]. destruct H as [H1 H2].
  destruct idxs as [|j idxs].
  - destruct bufs; simpl in H2; [|contradiction]. simpl in *.
    rewrite H1 in Hl. inversion Hl; subst dl. exists t.
    rewrite nthN_updN_eq by assumption. unfold clear_next, bufdesc; cbn [d_addr d_len d_flags d_next]. now rewrite ldiff_next.
  - change (last (i :: j :: idxs) 0) with (last (j :: idxs) 0) in *.
    inversion Hnd as [|? ? Hni Hnd']; subst.
    assert (Hneq : last (j :: idxs) 0 <> i).
    { intro E. apply Hni. rewrite <- E. apply last_in. discriminate. }
    split.
    + rewrite nthN_updN_neq by assumption. exact H1.
    + apply IH; auto. discriminate.
Qed.

(* ------------------------------------------------------------------------------------------ *)
(* add_direct                                                                                   *)
Definition bufs_ok (bufs : list (ubuf * bool)) : Prop :=
  Forall (fun bw => b_len (fst bw) <> 0 /\ b_len (fst bw) < two32) bufs.

Fixpoint direct_evs (idxs : list N) (bufs : list (ubuf * bool)) (t : N) : list qev :=
  match idxs, bufs with
  | i :: idxs', (b, w) :: bufs' =>
      QShare (b_id b) (b_len b) w (b_addr b) :: QStoreDesc i (bufdesc b w true (hd t idxs'))
             :: direct_evs idxs' bufs' t
  | _, _ => []
  end.

Lemma firstn_in {A} n (l : list A) x : In x (firstn n l) -> In x l.
Proof. revert l; induction n as [|n IH]; intros [|a l] H; simpl in *; try contradiction; destruct H; auto. Qed.

Lemma add_direct_loop_spec : forall bufs sh dt fh last0 fl,
  lseg sh fh fl -> NoDup fl -> (length bufs <= length fl)%nat -> lenN dt = lenN sh -> bufs_ok bufs ->
  exists sh' dt' fh' last' evs,
    add_direct_loop bufs sh dt fh last0 = (Ok (sh', dt', fh', last'), evs)
    /\ lseg sh' fh' (skipn (length bufs) fl)
    /\ last' = last (firstn (length bufs) fl) last0
    /\ (bufs = [] -> fh' = fh)
    /\ dchain_next sh' (firstn (length bufs) fl) bufs fh'
    /\ (forall j, ~ In j (firstn (length bufs) fl) ->
                  nthN_error sh' j = nthN_error sh j /\ nthN_error dt' j = nthN_error dt j)
    /\ (forall j, In j (firstn (length bufs) fl) -> nthN_error dt' j = nthN_error sh' j)
    /\ lenN sh' = lenN sh /\ lenN dt' = lenN sh
    /\ evs = direct_evs (firstn (length bufs) fl) bufs fh'.
Proof.
  induction bufs as [|[b w] rest IH]; intros sh dt fh last0 fl Hseg Hnd Hlen Hdt Hok.
  - exists sh, dt, fh, last0, []. simpl. repeat split; auto. intros j [].
  - destruct fl as [|x fl']; [simpl in Hlen; lia|].
    simpl in Hseg. destruct Hseg as (-> & Hx & Hseg).
    inversion Hnd as [|? ? Hnx Hnd']; subst.
    inversion Hok as [|? ? [Hl0 Hl32] Hok']; subst. simpl in Hl0, Hl32.
    destruct (nthN_lt_some _ _ Hx) as [d Hd].
    assert (Hnxt : nxt sh x = d_next d) by (unfold nxt; now rewrite Hd).
    rewrite Hnxt in Hseg.
    set (d' := mkDesc (b_addr b) (b_len b) (F_NEXT + wflag w) (d_next d)).
    assert (Hseg1 : lseg (updN sh x d') (d_next d) fl') by (apply lseg_updN_out; auto).
    assert (Hdt1 : lenN (updN dt x d') = lenN (updN sh x d')) by (now rewrite !lenN_updN).
    simpl in Hlen.
    destruct (IH (updN sh x d') (updN dt x d') (d_next d) x fl' Hseg1 Hnd' ltac:(lia) Hdt1 Hok')
      as (sh' & dt' & fh' & last' & evs & Hrun & Hs' & Hlast & Hfh & Hch & Hout & Hin & Hl1 & Hl2 & Hevs).
    exists sh', dt', fh', last', (QShare (b_id b) (b_len b) w (b_addr b) :: QStoreDesc x d' :: evs).
    assert (Hxout : ~ In x (firstn (length rest) fl')) by (intro Hi; apply Hnx; eapply firstn_in; eauto).
    destruct (Hout x Hxout) as [Hsx Hdx].
    rewrite nthN_updN_eq in Hsx by assumption.
    rewrite nthN_updN_eq in Hdx by lia.
    assert (Hhd : d_next d = hd fh' (firstn (length rest) fl')).
    { destruct rest as [|r rest'].
      - simpl. symmetry. now apply Hfh.
      - destruct fl' as [|y fl'']; [simpl in Hlen; lia|]. simpl.
        simpl in Hseg. destruct Hseg as [-> _]. reflexivity. }
    split.
    { cbn [add_direct_loop].
      destruct (N.eqb_spec (b_len b) 0) as [E|_]; [contradiction|].
      rewrite Hd.
      destruct (N.leb_spec two32 (b_len b)) as [E|_]; [lia|].
      fold d'. rewrite Hrun. reflexivity. }
    cbn [length firstn skipn].
    split; [exact Hs'|].
    split. { rewrite Hlast. destruct (firstn (length rest) fl') as [|n l]; [reflexivity|].
             change (last (x :: n :: l) last0) with (last (n :: l) last0). apply last_indep. discriminate. }
    split; [discriminate|].
    split. { cbn [dchain_next]. split; [|exact Hch]. rewrite Hsx. unfold d', bufdesc. now rewrite Hhd. }
    split. { intros j Hj. assert (j <> x) by (intro; subst; apply Hj; now left).
             assert (Hj' : ~ In j (firstn (length rest) fl')) by (intro; apply Hj; now right).
             destruct (Hout j Hj') as [A B]. rewrite A, B. rewrite !nthN_updN_neq by congruence. tauto. }
    split. { intros j [<-|Hj]; [now rewrite Hsx, Hdx | now apply Hin]. }
    split; [now rewrite Hl1, lenN_updN|]. split; [now rewrite Hl2, lenN_updN|].
    cbn [direct_evs]. rewrite Hevs. unfold d', bufdesc. now rewrite Hhd.
Qed.

(* ------------------------------------------------------------------------------------------ *)
(* ghost bookkeeping: the outstanding chains                                                    *)
Record chain := mkChain {
  c_head : N;
  c_idxs : list N;                    (* descriptors of the main table the chain occupies *)
  c_bufs : list (ubuf * bool);        (* the caller's buffers, in order, with direction *)
  c_tbl : option (N * list desc) }.   (* indirect: device address and contents of the table *)

Definition chain_ok (sh dt : list desc) (ind : list (option (list desc))) (c : chain) : Prop :=
  match c_tbl c with
  | None =>
      dchain sh (c_idxs c) (c_bufs c) /\ c_head c = hd 0 (c_idxs c)
      /\ (forall i, In i (c_idxs c) -> nthN_error dt i = nthN_error sh i /\ nthN_error ind i = Some None)
  | Some (taddr, tbl) =>
      c_idxs c = [c_head c] /\ tbl = ind_table (c_bufs c) 0 /\ (1 < length (c_bufs c))%nat
      /\ (exists nx, nthN_error sh (c_head c) = Some (mkDesc taddr (16 * lenN (c_bufs c)) F_INDIRECT nx))
      /\ nthN_error dt (c_head c) = nthN_error sh (c_head c)
      /\ nthN_error ind (c_head c) = Some (Some tbl)
  end.

Definition all_idxs (chains : list chain) : list N := concat (map c_idxs chains).

Definition InvFl (s : qstate) (chains : list chain) (fl : list N) : Prop :=
    NoDup (fl ++ all_idxs chains)
    /\ lenN (fl ++ all_idxs chains) = q_size s
    /\ (forall i, In i (fl ++ all_idxs chains) -> i < q_size s)
    /\ q_num_used s = lenN (all_idxs chains)
    /\ lseg (q_shadow s) (q_free_head s) fl
    /\ Forall (chain_ok (q_shadow s) (q_dtable s) (q_ind s)) chains
    /\ (forall i, In i fl -> nthN_error (q_ind s) i = Some None)
    /\ lenN (q_shadow s) = q_size s /\ lenN (q_dtable s) = q_size s
    /\ lenN (q_ind s) = q_size s /\ lenN (q_aring s) = q_size s
    /\ q_aidx s = q_avail_idx s /\ q_avail_idx s < two16 /\ q_last_used s < two16
    /\ (exists k, k <= 15 /\ q_size s = 2 ^ k).

Definition Inv (s : qstate) (chains : list chain) : Prop := exists fl, InvFl s chains fl.

Lemma dchain_ext sh sh' idxs bufs :
  (forall i, In i idxs -> nthN_error sh' i = nthN_error sh i) -> dchain sh idxs bufs -> dchain sh' idxs bufs.
Proof.
  revert bufs. induction idxs as [|x idxs IH]; intros bufs He H; simpl in *; [contradiction|].
  destruct idxs as [|j idxs].
  - destruct bufs as [|[b w] [|? ?]]; try contradiction. destruct H as [nx H]. exists nx.
    rewrite He by (now left). exact H.
  - destruct bufs as [|[b w] bufs]; [contradiction|]. destruct H as [H1 H2]. split.
    + rewrite He by (now left). exact H1.
    + apply IH; [intros i Hi; apply He; now right | exact H2].
Qed.

Lemma dchain_in_range sh idxs bufs i : dchain sh idxs bufs -> In i idxs -> i < lenN sh.
Proof.
  revert bufs. induction idxs as [|x idxs IH]; intros bufs H Hi; simpl in *; [contradiction|].
  destruct idxs as [|j idxs].
  - destruct bufs as [|[b w] [|? ?]]; try contradiction. destruct H as [nx H].
    destruct Hi as [<-|[]]. eapply nthN_some_lt; eauto.
  - destruct bufs as [|[b w] bufs]; [contradiction|]. destruct H as [H1 H2].
    destruct Hi as [<-|Hi]; [eapply nthN_some_lt; eauto | eapply IH; eauto].
Qed.

Lemma lseg_ext sh sh' h l :
  lenN sh' = lenN sh -> (forall i, In i l -> nthN_error sh' i = nthN_error sh i) ->
  lseg sh h l -> lseg sh' h l.
Proof.
  revert h. induction l as [|x l IH]; intros h Hl He H; simpl in *; auto.
  destruct H as (-> & Hx & H). split; [reflexivity|]. split; [lia|].
  assert (E : nxt sh' x = nxt sh x) by (unfold nxt; rewrite He by (now left); reflexivity).
  rewrite E. apply IH; auto.
Qed.

(* frame: a chain only depends on the cells it occupies *)
Lemma chain_ok_frame sh dt ind sh' dt' ind' c :
  (forall i, In i (c_idxs c) -> nthN_error sh' i = nthN_error sh i /\ nthN_error dt' i = nthN_error dt i
                               /\ nthN_error ind' i = nthN_error ind i) ->
  chain_ok sh dt ind c -> chain_ok sh' dt' ind' c.
Proof.
  unfold chain_ok. intros He H. destruct (c_tbl c) as [[taddr tbl]|].
  - destruct H as (Hi & Ht & Hn & [nx Hs] & Hd & Hind).
    assert (Hin : In (c_head c) (c_idxs c)) by (rewrite Hi; now left).
    destruct (He _ Hin) as (E1 & E2 & E3).
    split; [exact Hi|]. split; [exact Ht|]. split; [exact Hn|].
    split; [exists nx; now rewrite E1|]. split; [now rewrite E1, E2 | now rewrite E3].
  - destruct H as (Hc & Hh & Hall). split; [|split; [exact Hh|]].
    + eapply dchain_ext; [|exact Hc]. intros i Hi. now destruct (He i Hi).
    + intros i Hi. destruct (He i Hi) as (E1 & E2 & E3). rewrite E1, E2, E3. now apply Hall.
Qed.

Lemma in_all_idxs chains c i : In c chains -> In i (c_idxs c) -> In i (all_idxs chains).
Proof.
  intros Hc Hi. unfold all_idxs. apply in_concat. exists (c_idxs c). split; [|exact Hi].
  apply in_map. exact Hc.
Qed.

Lemma all_idxs_app a b : all_idxs (a ++ b) = all_idxs a ++ all_idxs b.
Proof. unfold all_idxs. now rewrite map_app, concat_app. Qed.

Lemma NoDup_app_disj {A} (a b : list A) x : NoDup (a ++ b) -> In x a -> In x b -> False.
Proof.
  induction a as [|y a IH]; intros H Ha Hb; [contradiction|].
  simpl in H. inversion H as [|? ? Hn Hd]; subst. destruct Ha as [->|Ha].
  - apply Hn. apply in_or_app. now right.
  - eapply IH; eauto.
Qed.

Lemma NoDup_app_l {A} (a b : list A) : NoDup (a ++ b) -> NoDup a.
Proof. induction a as [|x a IH]; intros H; [constructor|]. simpl in H. inversion H; subst.
       constructor; [intro Hi; apply H2; apply in_or_app; now left | auto]. Qed.

From Coq Require Import Permutation.

Lemma all_idxs_snoc chains c : all_idxs (chains ++ [c]) = all_idxs chains ++ c_idxs c.
Proof. rewrite all_idxs_app. unfold all_idxs at 2. simpl. now rewrite app_nil_r. Qed.

Lemma perm_take n (fl all : list N) :
  Permutation (fl ++ all) (skipn n fl ++ all ++ firstn n fl).
Proof.
  rewrite <- (firstn_skipn n fl) at 1.
  rewrite <- app_assoc. rewrite (app_assoc (skipn n fl)).
  apply Permutation_app_comm.
Qed.

Lemma firstn_nonempty {A} n (l : list A) : (0 < n)%nat -> l <> [] -> firstn n l <> [].
Proof. destruct n; [lia|]. destruct l; [congruence|]. discriminate. Qed.

Lemma skipn_in {A} n (l : list A) x : In x (skipn n l) -> In x l.
Proof. revert l; induction n as [|n IH]; intros [|a l] H; simpl in *; auto. Qed.

Lemma NoDup_firstn_skipn_disj {A} n (l : list A) x :
  NoDup l -> In x (firstn n l) -> In x (skipn n l) -> False.
Proof. intros H. rewrite <- (firstn_skipn n l) in H. apply NoDup_app_disj. exact H. Qed.

Lemma NoDup_app_remove_l {A} (a b : list A) : NoDup (a ++ b) -> NoDup b.
Proof. induction a as [|x a IH]; intros H; [exact H|]. simpl in H. inversion H; auto. Qed.

Lemma lenN_length_le {A B} (a : list A) (b : list B) : lenN a <= lenN b -> (length a <= length b)%nat.
Proof. unfold lenN. lia. Qed.

(* state components that add_direct / add_indirect / recycle leave alone *)
Definition same_rings (s s' : qstate) : Prop :=
  q_size s' = q_size s /\ q_indirect s' = q_indirect s /\ q_event_idx s' = q_event_idx s
  /\ q_avail_idx s' = q_avail_idx s /\ q_last_used s' = q_last_used s /\ q_aflags s' = q_aflags s
  /\ q_aidx s' = q_aidx s /\ q_uevent s' = q_uevent s /\ q_aring s' = q_aring s.

(* the cells add_direct will take: the first n cells of the free list *)
Fixpoint free_take (sh : list desc) (fh : N) (n : nat) : list N :=
  match n with O => [] | S k => fh :: free_take sh (nxt sh fh) k end.

Lemma free_take_firstn sh : forall n fh fl, lseg sh fh fl -> (n <= length fl)%nat -> free_take sh fh n = firstn n fl.
Proof.
  induction n as [|n IH]; intros fh fl Hs Hl; [reflexivity|].
  destruct fl as [|x fl]; [simpl in Hl; lia|]. simpl in Hs. destruct Hs as (-> & _ & Hs).
  cbn [free_take firstn]. f_equal. apply IH; [exact Hs|simpl in Hl; lia].
Qed.

(* ledger view of events: what is shared / unshared, with which arguments *)
Inductive shr :=
| ShBuf (addr id len : N) (w : bool)
| ShTbl (addr head n : N).

Definition shares_of (evs : list qev) : list shr :=
  flat_map (fun e => match e with
                     | QShare id len w addr => [ShBuf addr id len w]
                     | QShareTable head n addr => [ShTbl addr head n]
                     | _ => [] end) evs.
Definition unshares_of (evs : list qev) : list shr :=
  flat_map (fun e => match e with
                     | QUnshare addr id len w => [ShBuf addr id len w]
                     | QUnshareTable addr head n => [ShTbl addr head n]
                     | _ => [] end) evs.

Definition buf_shares (bufs : list (ubuf * bool)) : list shr :=
  map (fun bw => ShBuf (b_addr (fst bw)) (b_id (fst bw)) (b_len (fst bw)) (snd bw)) bufs.

Lemma shares_direct_evs : forall idxs bufs t, length idxs = length bufs ->
  shares_of (direct_evs idxs bufs t) = buf_shares bufs /\ unshares_of (direct_evs idxs bufs t) = [].
Proof.
  induction idxs as [|i l IH]; intros [|[b w] bufs] t Hl; simpl in Hl; try lia; [split; reflexivity|].
  destruct (IH bufs t ltac:(lia)) as [A B]. cbn [direct_evs shares_of unshares_of flat_map app buf_shares map fst snd].
  fold (shares_of (direct_evs l bufs t)). fold (unshares_of (direct_evs l bufs t)). rewrite A, B. split; reflexivity.
Qed.

Lemma shares_share_evs bufs : shares_of (share_evs bufs) = buf_shares bufs /\ unshares_of (share_evs bufs) = [].
Proof.
  induction bufs as [|[b w] bufs [A B]]; [split; reflexivity|].
  cbn [share_evs map shares_of unshares_of flat_map app buf_shares fst snd].
  fold (share_evs bufs). fold (shares_of (share_evs bufs)). fold (unshares_of (share_evs bufs)).
  rewrite A, B. split; reflexivity.
Qed.

Lemma shares_of_app a b : shares_of (a ++ b) = shares_of a ++ shares_of b.
Proof. unfold shares_of. now rewrite flat_map_app. Qed.
Lemma unshares_of_app a b : unshares_of (a ++ b) = unshares_of a ++ unshares_of b.
Proof. unfold unshares_of. now rewrite flat_map_app. Qed.

Lemma add_direct_invfl s chains fl bufs :
  InvFl s chains fl -> bufs <> [] -> bufs_ok bufs -> q_num_used s + lenN bufs <= q_size s ->
  exists s' evs idxs dl,
    add_direct s bufs = (Ok (q_free_head s), s', evs)
    /\ InvFl s' (chains ++ [mkChain (q_free_head s) idxs bufs None]) (skipn (length bufs) fl)
    /\ same_rings s s'
    /\ idxs <> [] /\ hd 0 idxs = q_free_head s /\ length idxs = length bufs
    /\ idxs = free_take (q_shadow s) (q_free_head s) (length bufs)
    /\ evs = direct_evs idxs bufs (q_free_head s') ++ [QStoreDesc (last idxs 0) (clear_next dl)]
    /\ (forall j, ~ In j idxs -> nthN_error (q_dtable s') j = nthN_error (q_dtable s) j)
    /\ q_num_used s' = q_num_used s + lenN bufs.
Proof.
  intros (Hnd & Hlen & Hrange & Hnu & Hseg & Hch & Hind & Hlsh & Hldt & Hlind & Hlring & Hai & Hav & Hlu & Hpow)
         Hne Hok Hcap.
  rewrite lenN_app in Hlen.
  assert (Hfl : lenN bufs <= lenN fl) by lia.
  apply lenN_length_le in Hfl.
  assert (Hndfl : NoDup fl) by (eapply NoDup_app_l; eauto).
  destruct (add_direct_loop_spec bufs (q_shadow s) (q_dtable s) (q_free_head s) (q_free_head s) fl
              Hseg Hndfl Hfl ltac:(lia) Hok)
    as (sh' & dt' & fh' & last' & evs & Hrun & Hs' & Hlast & _ & Hdc & Hout & Hin & Hl1 & Hl2 & Hevs).
  set (n := length bufs) in *.
  set (idxs := firstn n fl) in *.
  assert (Hn0 : (0 < n)%nat) by (unfold n; destruct bufs; [congruence|simpl; lia]).
  assert (Hflne : fl <> []) by (intro E; subst fl; simpl in Hfl; lia).
  assert (Hidne : idxs <> []) by (apply firstn_nonempty; auto).
  assert (Hlast0 : last' = last idxs 0) by (rewrite Hlast; now apply last_indep).
  assert (Hlin : In last' idxs) by (rewrite Hlast0; now apply last_in).
  assert (Hlfl : In last' fl) by (eapply firstn_in; eauto).
  assert (Hllt : last' < lenN sh').
  { rewrite Hl1. eapply lseg_in_range; eauto. }
  destruct (nthN_lt_some _ _ Hllt) as [dl Hdl].
  exists (set_core s (q_num_used s + lenN bufs) fh' (updN sh' last' (clear_next dl)) (q_ind s)
                   (updN dt' last' (clear_next dl))),
         (evs ++ [QStoreDesc last' (clear_next dl)]), idxs, dl.
  assert (Hhd : hd 0 idxs = q_free_head s).
  { unfold idxs. destruct fl as [|x fl']; [congruence|]. destruct n; [lia|]. simpl.
    simpl in Hseg. now destruct Hseg as [-> _]. }
  assert (Hidlen : length idxs = length bufs).
  { unfold idxs. apply firstn_length_le. exact Hfl. }
  split. { unfold add_direct. rewrite Hrun, Hdl. reflexivity. }
  split.
  { unfold InvFl. fold n. cbn [set_core q_size q_num_used q_free_head q_shadow q_dtable q_ind q_aring q_aidx
                              q_avail_idx q_last_used].
    rewrite all_idxs_snoc. cbn [c_idxs].
    pose proof (perm_take n fl (all_idxs chains)) as Hperm. fold idxs in Hperm.
    split; [eapply Permutation_NoDup; eauto|].
    split. { unfold lenN. rewrite <- (Permutation_length Hperm). fold (lenN (fl ++ all_idxs chains)).
             rewrite lenN_app. exact Hlen. }
    split. { intros i Hi. apply Hrange. eapply Permutation_in; [apply Permutation_sym; exact Hperm|exact Hi]. }
    split. { rewrite lenN_app, Hnu. f_equal. unfold lenN. now rewrite Hidlen. }
    split. { apply lseg_updN_out; [|exact Hs'].
             intro Hi. eapply NoDup_firstn_skipn_disj; [exact Hndfl| |exact Hi]. exact Hlin. }
    split.
    { apply Forall_app. split.
      - rewrite Forall_forall in Hch |- *. intros c Hc. eapply chain_ok_frame; [|apply Hch; exact Hc].
        intros i Hi.
        assert (Hia : In i (all_idxs chains)) by (eapply in_all_idxs; eauto).
        assert (Hnfl : ~ In i fl) by (intro Hf; eapply NoDup_app_disj; eauto).
        assert (Hnid : ~ In i idxs) by (intro Hf; apply Hnfl; eapply firstn_in; eauto).
        assert (Hnl : last' <> i) by (intro; subst; contradiction).
        rewrite !nthN_updN_neq by assumption. destruct (Hout i Hnid) as [A B]. now rewrite A, B.
      - constructor; [|constructor]. unfold chain_ok. cbn [c_tbl c_idxs c_bufs c_head].
        assert (Hndid : NoDup idxs).
        { unfold idxs. rewrite <- (firstn_skipn n fl) in Hndfl. eapply NoDup_app_l; eauto. }
        split. { rewrite Hlast0. rewrite Hlast0 in Hdl, Hllt. eapply dchain_finish; eauto. }
        split; [now rewrite Hhd|].
        intros i Hi. split.
        + destruct (N.eq_dec i last') as [->|Hneq].
          * rewrite !nthN_updN_eq by lia. reflexivity.
          * rewrite !nthN_updN_neq by congruence. now apply Hin.
        + apply Hind. eapply firstn_in; eauto. }
    split. { intros i Hi. apply Hind. eapply skipn_in; eauto. }
    rewrite !lenN_updN. repeat split; try assumption; lia. }
  split. { unfold same_rings. cbn. tauto. }
  split; [exact Hidne|]. split; [exact Hhd|]. split; [exact Hidlen|].
  split. { unfold idxs, n. symmetry. apply free_take_firstn; assumption. }
  split. { cbn [set_core q_free_head]. rewrite Hevs, Hlast0. reflexivity. }
  split. { intros j Hj. cbn [set_core q_dtable].
           assert (last' <> j) by (intro; subst; contradiction).
           rewrite nthN_updN_neq by assumption. now apply Hout. }
  reflexivity.
Qed.

Lemma add_direct_inv s chains bufs :
  Inv s chains -> bufs <> [] -> bufs_ok bufs -> q_num_used s + lenN bufs <= q_size s ->
  exists s' evs idxs dl,
    add_direct s bufs = (Ok (q_free_head s), s', evs)
    /\ Inv s' (chains ++ [mkChain (q_free_head s) idxs bufs None])
    /\ same_rings s s'
    /\ idxs <> [] /\ hd 0 idxs = q_free_head s /\ length idxs = length bufs
    /\ idxs = free_take (q_shadow s) (q_free_head s) (length bufs)
    /\ evs = direct_evs idxs bufs (q_free_head s') ++ [QStoreDesc (last idxs 0) (clear_next dl)]
    /\ (forall j, ~ In j idxs -> nthN_error (q_dtable s') j = nthN_error (q_dtable s) j)
    /\ q_num_used s' = q_num_used s + lenN bufs.
Proof.
  intros [fl HI] Hne Hok Hcap.
  destruct (add_direct_invfl s chains fl bufs HI Hne Hok Hcap) as (s' & evs & idxs & dl & A & B & C).
  exists s', evs, idxs, dl. split; [exact A|]. split; [eexists; exact B|]. exact C.
Qed.

Lemma bufs_ok_no_big bufs : bufs_ok bufs -> existsb (fun bw => two32 <=? b_len (fst bw)) bufs = false.
Proof.
  induction 1 as [|bw l [_ H] _ IH]; [reflexivity|]. simpl. rewrite IH.
  destruct (N.leb_spec two32 (b_len (fst bw))); [lia|reflexivity].
Qed.

Lemma add_indirect_inv s chains bufs taddr :
  Inv s chains -> (1 < length bufs)%nat -> bufs_ok bufs -> q_num_used s + 1 <= q_size s ->
  exists s' nx,
    let head := q_free_head s in
    let d' := mkDesc taddr (16 * lenN bufs) F_INDIRECT nx in
    add_indirect s bufs taddr
      = (Ok head, s', share_evs bufs ++ [QShareTable head (lenN bufs) taddr; QStoreDesc head d'])
    /\ Inv s' (chains ++ [mkChain head [head] bufs (Some (taddr, ind_table bufs 0))])
    /\ same_rings s s'
    /\ q_num_used s' = q_num_used s + 1
    /\ (forall j, j <> head -> nthN_error (q_dtable s') j = nthN_error (q_dtable s) j)
    /\ nthN_error (q_dtable s') head = Some d'.
Proof.
  intros (fl & Hnd & Hlen & Hrange & Hnu & Hseg & Hch & Hind & Hlsh & Hldt & Hlind & Hlring & Hai & Hav & Hlu & Hpow)
         Hn Hok Hcap.
  rewrite lenN_app in Hlen.
  destruct fl as [|x fl']; [rewrite lenN_nil in Hlen; lia|].
  simpl in Hseg. destruct Hseg as (Hfh & Hx & Hseg).
  destruct (nthN_lt_some _ _ Hx) as [d Hd].
  assert (Hnxt : nxt (q_shadow s) x = d_next d) by (unfold nxt; now rewrite Hd).
  rewrite Hnxt in Hseg.
  assert (Hix : nthN_error (q_ind s) x = Some None) by (apply Hind; now left).
  simpl in Hnd. apply NoDup_cons_iff in Hnd. destruct Hnd as [Hnx Hnd'].
  set (d' := mkDesc taddr (16 * lenN bufs) F_INDIRECT (d_next d)).
  exists (set_core s (q_num_used s + 1) (d_next d) (updN (q_shadow s) x d')
                   (updN (q_ind s) x (Some (ind_table bufs 0))) (updN (q_dtable s) x d')), (d_next d).
  cbn zeta. rewrite Hfh.
  split. { unfold add_indirect. rewrite bufs_ok_no_big by assumption. rewrite Hfh, Hix, Hd. reflexivity. }
  split.
  { exists fl'. unfold InvFl. cbn [set_core q_size q_num_used q_free_head q_shadow q_dtable q_ind q_aring q_aidx
                              q_avail_idx q_last_used].
    rewrite all_idxs_snoc. cbn [c_idxs].
    assert (Hperm : Permutation ((x :: fl') ++ all_idxs chains) (fl' ++ all_idxs chains ++ [x])).
    { simpl. rewrite app_assoc. apply Permutation_cons_append. }
    assert (Hnd0 : NoDup ((x :: fl') ++ all_idxs chains)) by (simpl; constructor; auto).
    split; [eapply Permutation_NoDup; eauto|].
    split. { unfold lenN. rewrite <- (Permutation_length Hperm). fold (lenN ((x :: fl') ++ all_idxs chains)).
             rewrite lenN_app. exact Hlen. }
    split. { intros i Hi. apply Hrange. eapply Permutation_in; [apply Permutation_sym; exact Hperm|exact Hi]. }
    split. { rewrite lenN_app, Hnu. reflexivity. }
    assert (Hxfl : ~ In x fl') by (intro Hi; apply Hnx; apply in_or_app; now left).
    split. { apply lseg_updN_out; assumption. }
    split.
    { apply Forall_app. split.
      - rewrite Forall_forall in Hch |- *. intros c Hc. eapply chain_ok_frame; [|apply Hch; exact Hc].
        intros i Hi.
        assert (Hia : In i (all_idxs chains)) by (eapply in_all_idxs; eauto).
        assert (Hne : x <> i) by (intro; subst; apply Hnx; apply in_or_app; now right).
        rewrite !nthN_updN_neq by assumption. tauto.
      - constructor; [|constructor]. unfold chain_ok. cbn [c_tbl c_idxs c_bufs c_head].
        split; [reflexivity|]. split; [reflexivity|]. split; [exact Hn|].
        split. { exists (d_next d). now rewrite nthN_updN_eq. }
        split. { rewrite !nthN_updN_eq by lia. reflexivity. }
        rewrite nthN_updN_eq by lia. reflexivity. }
    split. { intros i Hi. assert (x <> i) by (intro; subst; contradiction).
             rewrite nthN_updN_neq by assumption. apply Hind. now right. }
    rewrite !lenN_updN. repeat split; try assumption; lia. }
  split. { unfold same_rings. cbn. tauto. }
  split; [reflexivity|].
  split. { intros j Hj. cbn [set_core q_dtable]. rewrite nthN_updN_neq by congruence. reflexivity. }
  cbn [set_core q_dtable]. rewrite nthN_updN_eq by lia. reflexivity.
Qed.

(* ------------------------------------------------------------------------------------------ *)
(* add                                                                                          *)
Lemma land_mask a k : N.land a (2 ^ k - 1) = a mod 2 ^ k.
Proof. rewrite <- N.pred_sub, <- N.ones_equiv. apply N.land_ones. Qed.

Lemma Inv_set_avail s chains ai ring :
  Inv s chains -> ai < two16 -> lenN ring = q_size s -> Inv (set_avail s ai ring) chains.
Proof.
  intros (fl & H) Ha Hr. exists fl. unfold InvFl in *. cbn. tauto.
Qed.

Lemma add_refuse_empty s taddr : add s [] [] taddr = (Err EInvalidParam, s, []).
Proof. reflexivity. Qed.

Lemma add_refuse_full s ins outs taddr :
  tag_bufs ins outs <> [] -> capacity_ok s (lenN (tag_bufs ins outs)) = false ->
  add s ins outs taddr = (Err EQueueFull, s, []).
Proof.
  intros Hne Hc. unfold add.
  destruct (N.eqb_spec (lenN (tag_bufs ins outs)) 0) as [E|_].
  - destruct (tag_bufs ins outs); [congruence|]. rewrite lenN_cons in E. lia.
  - rewrite Hc. reflexivity.
Qed.

(* events of a submission before the ring slot is written: shares and stores into the chain's own cells *)
Definition pre_publish_ev (idxs : list N) (e : qev) : Prop :=
  match e with
  | QShare _ _ _ _ | QShareTable _ _ _ => True
  | QStoreDesc i _ => In i idxs
  | _ => False
  end.

Lemma direct_evs_shape idxs bufs t e : In e (direct_evs idxs bufs t) -> pre_publish_ev idxs e.
Proof.
  revert bufs. induction idxs as [|i l IH]; intros [|[b w] bufs] He; simpl in *; try contradiction.
  destruct He as [<-|[<-|He]]; [exact I | now left |].
  apply IH in He. destruct e; simpl in *; auto.
Qed.

Definition new_chain (s : qstate) (ins outs : list ubuf) (taddr : N) : chain :=
  let bufs := tag_bufs ins outs in
  if q_indirect s && (1 <? lenN bufs)
  then mkChain (q_free_head s) [q_free_head s] bufs (Some (taddr, ind_table bufs 0))
  else mkChain (q_free_head s) (free_take (q_shadow s) (q_free_head s) (length bufs)) bufs None.

Definition chain_shares (c : chain) : list shr :=
  buf_shares (c_bufs c)
  ++ match c_tbl c with Some (taddr, _) => [ShTbl taddr (c_head c) (lenN (c_bufs c))] | None => [] end.

Lemma add_ok s chains ins outs taddr :
  Inv s chains ->
  let bufs := tag_bufs ins outs in
  bufs <> [] -> bufs_ok bufs -> capacity_ok s (lenN bufs) = true ->
  exists s' evs c,
    add s ins outs taddr = (Ok (q_free_head s), s', evs)
    /\ Inv s' (chains ++ [c])
    /\ c_head c = q_free_head s /\ c_bufs c = bufs
    /\ (c_tbl c <> None <-> (q_indirect s = true /\ (1 < length bufs)%nat))
    /\ q_avail_idx s' = w16 (q_avail_idx s + 1)
    /\ q_aring s' = updN (q_aring s) (q_avail_idx s mod q_size s) (q_free_head s)
    /\ q_last_used s' = q_last_used s /\ q_size s' = q_size s
    /\ q_indirect s' = q_indirect s /\ q_event_idx s' = q_event_idx s
    /\ q_aflags s' = q_aflags s /\ q_uevent s' = q_uevent s
    /\ q_num_used s' = q_num_used s + lenN (c_idxs c)
    /\ (forall j, ~ In j (c_idxs c) -> nthN_error (q_dtable s') j = nthN_error (q_dtable s) j)
    /\ exists evs0, evs = evs0 ++ [QStoreRing (q_avail_idx s mod q_size s) (q_free_head s); QFence;
                                   QStoreIdx (w16 (q_avail_idx s + 1))]
                    /\ (forall e, In e evs0 -> pre_publish_ev (c_idxs c) e)
                    /\ c = new_chain s ins outs taddr
                    /\ shares_of evs0 = chain_shares c /\ unshares_of evs0 = [].
Proof.
  intros HI bufs Hne Hok Hcap.
  assert (HI' := HI).
  destruct HI' as (fl & Hnd & Hlen & Hrange & Hnu & Hseg & Hch & Hind & Hlsh & Hldt & Hlind & Hlring & Hai & Hav & Hlu & [k [Hk Hpow]]).
  unfold capacity_ok in Hcap.
  assert (Hn0 : lenN bufs <> 0).
  { destruct bufs; [congruence|]. rewrite lenN_cons. lia. }
  unfold add. fold bufs.
  destruct (N.eqb_spec (lenN bufs) 0) as [E|_]; [contradiction|].
  unfold capacity_ok. rewrite Hcap. cbn [negb].
  assert (Hmask : forall s1, q_size s1 = q_size s -> q_avail_idx s1 = q_avail_idx s ->
                  N.land (q_avail_idx s1) (q_size s1 - 1) = q_avail_idx s mod q_size s).
  { intros s1 E1 E2. rewrite E1, E2, Hpow. apply land_mask. }
  assert (Hslot : q_avail_idx s mod q_size s < q_size s).
  { apply N.mod_lt. rewrite Hpow. apply N.pow_nonzero. discriminate. }
  destruct (q_indirect s && (1 <? lenN bufs)) eqn:Hbr.
  - (* indirect *)
    assert (Hbr' := Hbr). apply andb_prop in Hbr'. destruct Hbr' as [Hi1 Hi2]. apply N.ltb_lt in Hi2.
    assert (Hlen1 : (1 < length bufs)%nat) by (unfold lenN in Hi2; lia).
    destruct (add_indirect_inv s chains bufs taddr HI Hlen1 Hok ltac:(lia))
      as (s1 & nx & Hrun & Hinv1 & Hsame & Hnu1 & Hdt1 & Hdh).
    cbn zeta in Hrun. rewrite Hrun.
    destruct Hsame as (S1 & S2 & S3 & S4 & S5 & S6 & S7 & S8 & S9).
    rewrite (Hmask s1 S1 S4). rewrite S4, S9.
    eexists; eexists; eexists. split; [reflexivity|].
    split. { apply Inv_set_avail; [exact Hinv1| |].
             - unfold w16, two16. apply N.mod_lt. discriminate.
             - rewrite lenN_updN. lia. }
    cbn [c_head c_bufs c_tbl c_idxs set_avail q_avail_idx q_aring q_last_used q_size q_indirect q_event_idx
         q_aflags q_uevent q_num_used q_dtable length].
    split; [reflexivity|]. split; [reflexivity|].
    split. { split; [intros _; split; assumption | intros _; discriminate]. }
    split; [reflexivity|]. split; [reflexivity|].
    split; [exact S5|]. split; [exact S1|]. split; [exact S2|]. split; [exact S3|].
    split; [exact S6|]. split; [exact S8|].
    split. { rewrite Hnu1. reflexivity. }
    split. { intros j Hj. apply Hdt1. intro; subst; apply Hj; now left. }
    eexists. split; [reflexivity|].
    split.
    { intros e He. apply in_app_or in He. destruct He as [He|He].
      + unfold share_evs in He. apply in_map_iff in He. destruct He as [bw [<- _]]. exact I.
      + destruct He as [<-|[<-|[]]]; [exact I|simpl; now left]. }
    split. { unfold new_chain. fold bufs. rewrite Hbr. reflexivity. }
    rewrite shares_of_app, unshares_of_app.
    destruct (shares_share_evs bufs) as [A B]. rewrite A, B. split; reflexivity.
  - (* direct *)
    assert (Hcap2 : q_num_used s + lenN bufs <= q_size s).
    { destruct (q_indirect s) eqn:Ei; [|lia].
      assert (lenN bufs <= 1) by lia. lia. }
    destruct (add_direct_inv s chains bufs HI Hne Hok Hcap2)
      as (s1 & evs1 & idxs & dl & Hrun & Hinv1 & Hsame & Hidne & Hhd & Hidlen & Hft & Hevs & Hdt1 & Hnu1).
    rewrite Hrun.
    destruct Hsame as (S1 & S2 & S3 & S4 & S5 & S6 & S7 & S8 & S9).
    rewrite (Hmask s1 S1 S4). rewrite S4, S9.
    eexists; eexists; eexists. split; [reflexivity|].
    split. { apply Inv_set_avail; [exact Hinv1| |].
             - unfold w16, two16. apply N.mod_lt. discriminate.
             - rewrite lenN_updN. lia. }
    cbn [c_head c_bufs c_tbl c_idxs set_avail q_avail_idx q_aring q_last_used q_size q_indirect q_event_idx
         q_aflags q_uevent q_num_used q_dtable].
    split; [reflexivity|]. split; [reflexivity|].
    split. { split; [congruence|]. intros [A B]. rewrite A in Hbr. unfold lenN in Hbr. lia. }
    split; [reflexivity|]. split; [reflexivity|].
    split; [exact S5|]. split; [exact S1|]. split; [exact S2|]. split; [exact S3|].
    split; [exact S6|]. split; [exact S8|].
    split. { rewrite Hnu1. unfold lenN. now rewrite Hidlen. }
    split; [exact Hdt1|].
    eexists. split; [reflexivity|].
    split.
    { intros e He. rewrite Hevs in He. apply in_app_or in He. destruct He as [He|He].
      + eapply direct_evs_shape; eauto.
      + destruct He as [<-|[]]. simpl. now apply last_in. }
    split. { unfold new_chain. fold bufs. rewrite Hbr. rewrite <- Hft. reflexivity. }
    rewrite Hevs, shares_of_app, unshares_of_app.
    destruct (shares_direct_evs idxs bufs (q_free_head s1) Hidlen) as [A B]. rewrite A, B.
    unfold chain_shares. cbn [c_bufs c_tbl]. split; reflexivity.
Qed.

(* ------------------------------------------------------------------------------------------ *)
(* recycle_descriptors, direct branch                                                           *)
Definition lens_nz (bufs : list (ubuf * bool)) : Prop := Forall (fun bw => b_len (fst bw) <> 0) bufs.

Lemma flag_next_last w : has_flag (0 + wflag w) F_NEXT = false.
Proof. destruct w; reflexivity. Qed.
Lemma flag_next_more w : has_flag (F_NEXT + wflag w) F_NEXT = true.
Proof. destruct w; reflexivity. Qed.
Lemma flag_ind_buf (m w : bool) : has_flag ((if m then F_NEXT else 0) + wflag w) F_INDIRECT = false.
Proof. destruct m, w; reflexivity. Qed.
Lemma flag_write_buf (m w : bool) : has_flag ((if m then F_NEXT else 0) + wflag w) F_WRITE = w.
Proof. destruct m, w; reflexivity. Qed.

(* cb: the buffers as submitted (they determine flags and device addresses);
   bufs: what the caller passes to pop_used (identity and length are taken from these) *)
Fixpoint recycle_evs (idxs : list N) (cb bufs : list (ubuf * bool)) (orig : N) : list qev :=
  match idxs, cb, bufs with
  | i :: idxs', bw :: cb', bw' :: bufs' =>
      let d2 := match idxs' with
                | [] => mkDesc 0 0 (0 + wflag (snd bw)) orig
                | j :: _ => mkDesc 0 0 (F_NEXT + wflag (snd bw)) j
                end in
      QStoreDesc i d2 :: QUnshare (b_addr (fst bw)) (b_id (fst bw')) (b_len (fst bw')) (snd bw')
        :: recycle_evs idxs' cb' bufs' orig
  | _, _, _ => []
  end.

Lemma recycle_loop_spec : forall idxs cb bufs sh dt orig nu,
  dchain sh idxs cb -> NoDup idxs -> length bufs = length idxs -> lens_nz bufs ->
  lenN idxs <= nu -> lenN dt = lenN sh ->
  exists sh' dt',
    recycle_loop bufs sh dt (Some (hd 0 idxs)) orig nu
      = (Ok (sh', dt', nu - lenN idxs), recycle_evs idxs cb bufs orig)
    /\ lseg sh' (hd 0 idxs) idxs /\ nxt sh' (last idxs 0) = orig
    /\ (forall j, ~ In j idxs -> nthN_error sh' j = nthN_error sh j /\ nthN_error dt' j = nthN_error dt j)
    /\ (forall j, In j idxs -> nthN_error dt' j = nthN_error sh' j)
    /\ lenN sh' = lenN sh /\ lenN dt' = lenN dt.
Proof.
  induction idxs as [|i rest IH]; intros cb bufs sh dt orig nu Hc Hnd Hlen Hnz Hnu Hdt; [simpl in Hc; contradiction|].
  destruct bufs as [|[b' w'] bufs]; [simpl in Hlen; lia|].
  inversion Hnz as [|? ? Hb0 Hnz']; subst. simpl in Hb0.
  apply NoDup_cons_iff in Hnd. destruct Hnd as [Hni Hnd'].
  destruct rest as [|j rest].
  - (* last cell *)
    destruct cb as [|[b w] [|? ?]]; simpl in Hc; try contradiction. destruct Hc as [nx Hd].
    destruct bufs; [|simpl in Hlen; lia].
    assert (Hi : i < lenN sh) by (eapply nthN_some_lt; eauto).
    set (d2 := mkDesc 0 0 (0 + wflag w) orig).
    exists (updN sh i d2), (updN dt i d2).
    split.
    { cbn [recycle_loop hd]. destruct (N.eqb_spec (b_len b') 0); [contradiction|].
      rewrite Hd. rewrite lenN_cons, lenN_nil in *.
      destruct (N.eqb_spec nu 0); [lia|].
      cbn [d_flags bufdesc]. rewrite flag_next_last.
      cbn [recycle_evs]. unfold unset_buf, set_next, bufdesc. cbn [d_addr d_len d_flags d_next].
      fold d2. rewrite ?(@lenN_nil N). replace (nu - (1 + 0)) with (nu - 1) by lia. reflexivity. }
    split. { simpl. split; [reflexivity|]. split; [now rewrite lenN_updN | exact I]. }
    split. { simpl. now rewrite nxt_updN_eq. }
    split. { intros k Hk. assert (i <> k) by (intro; subst; apply Hk; now left).
             now rewrite !nthN_updN_neq. }
    split. { intros k [<-|[]]. rewrite !nthN_updN_eq by lia. reflexivity. }
    now rewrite !lenN_updN.
  - (* more cells follow *)
    destruct cb as [|[b w] cb]; [simpl in Hc; contradiction|].
    simpl in Hc. destruct Hc as [Hd Hc'].
    assert (Hi : i < lenN sh) by (eapply nthN_some_lt; eauto).
    set (d2 := mkDesc 0 0 (F_NEXT + wflag w) j).
    assert (Hc1 : dchain (updN sh i d2) (j :: rest) cb) by (apply dchain_updN_out; auto).
    simpl in Hlen.
    rewrite lenN_cons in Hnu.
    destruct (IH cb bufs (updN sh i d2) (updN dt i d2) orig (nu - 1) Hc1 Hnd' ltac:(simpl; lia) Hnz' ltac:(lia)
               ltac:(now rewrite !lenN_updN))
      as (sh' & dt' & Hrun & Hseg & Hnx & Hout & Hin & Hl1 & Hl2).
    exists sh', dt'.
    rewrite !lenN_updN in Hl1, Hl2.
    destruct (Hout i Hni) as [Hsi Hdi].
    rewrite nthN_updN_eq in Hsi by assumption. rewrite nthN_updN_eq in Hdi by lia.
    split.
    { cbn [recycle_loop hd]. destruct (N.eqb_spec (b_len b') 0); [contradiction|].
      rewrite Hd. destruct (N.eqb_spec nu 0); [lia|].
      cbn [d_flags bufdesc]. rewrite flag_next_more.
      unfold unset_buf, bufdesc. cbn [d_addr d_len d_flags d_next]. fold d2.
      cbn [hd] in Hrun. rewrite Hrun.
      replace (nu - lenN (i :: j :: rest)) with (nu - 1 - lenN (j :: rest)) by (rewrite (lenN_cons i); lia).
      reflexivity. }
    split. { cbn [lseg hd]. split; [reflexivity|]. split; [lia|].
             assert (E : nxt sh' i = j) by (unfold nxt; now rewrite Hsi). rewrite E. exact Hseg. }
    split. { exact Hnx. }
    split. { intros k Hk. assert (i <> k) by (intro; subst; apply Hk; now left).
             assert (Hk' : ~ In k (j :: rest)) by (intro; apply Hk; now right).
             destruct (Hout k Hk') as [A B]. rewrite A, B. now rewrite !nthN_updN_neq. }
    split. { intros k [<-|Hk]; [now rewrite Hsi, Hdi | now apply Hin]. }
    split; assumption.
Qed.

(* ------------------------------------------------------------------------------------------ *)
(* recycle / pop_used                                                                           *)
Lemma all_idxs_mid pre c post : all_idxs (pre ++ c :: post) = all_idxs pre ++ c_idxs c ++ all_idxs post.
Proof. rewrite all_idxs_app. unfold all_idxs at 2. simpl. reflexivity. Qed.

Lemma perm_give (fl a i b : list N) : Permutation (fl ++ a ++ i ++ b) ((i ++ fl) ++ a ++ b).
Proof.
  rewrite <- app_assoc.
  eapply perm_trans; [apply Permutation_app_head; apply Permutation_app_swap_app|].
  apply Permutation_app_swap_app.
Qed.

Lemma chain_head_in sh dt ind c : chain_ok sh dt ind c -> In (c_head c) (c_idxs c).
Proof.
  unfold chain_ok. destruct (c_tbl c) as [[ta tb]|].
  - intros (-> & _). now left.
  - intros (Hd & -> & _). apply dchain_length in Hd. destruct Hd as [_ Hne].
    destruct (c_idxs c); [congruence|now left].
Qed.

Definition keys (bufs : list (ubuf * bool)) : list (N * N * bool) :=
  map (fun bw => (b_id (fst bw), b_len (fst bw), snd bw)) bufs.

Lemma keys_length a b : keys a = keys b -> length a = length b.
Proof. unfold keys. intros H. apply (f_equal (@length _)) in H. now rewrite !map_length in H. Qed.

Lemma recycle_direct_inv s pre c post bufs :
  Inv s (pre ++ c :: post) -> c_tbl c = None -> length bufs = length (c_bufs c) -> lens_nz bufs ->
  exists s',
    recycle s (c_head c) bufs = (Ok tt, s', recycle_evs (c_idxs c) (c_bufs c) bufs (q_free_head s))
    /\ Inv s' (pre ++ post) /\ same_rings s s'
    /\ q_free_head s' = c_head c
    /\ q_num_used s' = q_num_used s - lenN (c_idxs c) /\ lenN (c_idxs c) <= q_num_used s
    /\ (forall j, ~ In j (c_idxs c) -> nthN_error (q_dtable s') j = nthN_error (q_dtable s) j).
Proof.
  intros (fl & Hnd & Hlen & Hrange & Hnu & Hseg & Hch & Hind & Hlsh & Hldt & Hlind & Hlring & Hai & Hav & Hlu & Hpow)
         Htbl Hblen Hnz.
  rewrite all_idxs_mid in *.
  assert (Hc : chain_ok (q_shadow s) (q_dtable s) (q_ind s) c).
  { rewrite Forall_forall in Hch. apply Hch. apply in_or_app. right. now left. }
  assert (Hc' := Hc). unfold chain_ok in Hc'. rewrite Htbl in Hc'. destruct Hc' as (Hd & Hhd & Hcells).
  destruct (dchain_length _ _ _ Hd) as [Hil Hine].
  assert (Hndi : NoDup (c_idxs c)).
  { apply NoDup_app_remove_l in Hnd. apply NoDup_app_remove_l in Hnd. eapply NoDup_app_l; eauto. }
  assert (Hnu' : lenN (c_idxs c) <= q_num_used s) by (rewrite Hnu, !lenN_app; lia).
  destruct (recycle_loop_spec (c_idxs c) (c_bufs c) bufs (q_shadow s) (q_dtable s) (q_free_head s) (q_num_used s)
              Hd Hndi ltac:(lia) Hnz Hnu' ltac:(lia))
    as (sh' & dt' & Hrun & Hseg' & Hnx & Hout & Hin & Hl1 & Hl2).
  rewrite <- Hhd in Hrun, Hseg'.
  assert (Hheadin : In (c_head c) (c_idxs c)) by (eapply chain_head_in; eauto).
  assert (Hsh : exists dh, nthN_error (q_shadow s) (c_head c) = Some dh /\ has_flag (d_flags dh) F_INDIRECT = false).
  { destruct (c_idxs c) as [|i [|j l]] eqn:E; [congruence| |].
    - destruct (c_bufs c) as [|[b w] [|? ?]]; simpl in Hd; try contradiction. destruct Hd as [nx Hd].
      simpl in Hhd. subst i. eexists; split; [exact Hd|]. apply (flag_ind_buf false).
    - destruct (c_bufs c) as [|[b w] ?]; simpl in Hd; try contradiction. destruct Hd as [Hd _].
      simpl in Hhd. subst i. eexists; split; [exact Hd|]. apply (flag_ind_buf true). }
  destruct Hsh as (dh & Hdh & Hfl).
  exists (set_core s (q_num_used s - lenN (c_idxs c)) (c_head c) sh' (q_ind s) dt').
  split. { unfold recycle. rewrite Hdh, Hfl, Hrun. reflexivity. }
  split.
  { exists (c_idxs c ++ fl). unfold InvFl. cbn [set_core q_size q_num_used q_free_head q_shadow q_dtable q_ind q_aring q_aidx
                              q_avail_idx q_last_used].
    rewrite all_idxs_app.
    pose proof (perm_give fl (all_idxs pre) (c_idxs c) (all_idxs post)) as Hperm.
    split; [eapply Permutation_NoDup; eauto|].
    split. { unfold lenN. rewrite <- (Permutation_length Hperm). exact Hlen. }
    split. { intros i Hi. apply Hrange. eapply Permutation_in; [apply Permutation_sym; exact Hperm|exact Hi]. }
    split. { rewrite Hnu, !lenN_app. lia. }
    assert (Hdisj : forall i, In i fl -> ~ In i (c_idxs c)).
    { intros i Hf Hi. eapply NoDup_app_disj; [exact Hnd|exact Hf|].
      apply in_or_app. right. apply in_or_app. now left. }
    split.
    { apply lseg_app. split; [exact Hseg'|].
      destruct (c_idxs c) as [|i0 l0] eqn:E; [congruence|]. rewrite Hnx.
      eapply lseg_ext; [exact Hl1| |exact Hseg]. intros i Hi. apply Hout. now apply Hdisj. }
    split.
    { rewrite Forall_forall in Hch |- *. intros c0 Hc0.
      assert (Hc0' : In c0 (pre ++ c :: post)).
      { apply in_app_or in Hc0. apply in_or_app. destruct Hc0; [now left|right; now right]. }
      eapply chain_ok_frame; [|apply Hch; exact Hc0'].
      intros i Hi.
      assert (Hni : ~ In i (c_idxs c)).
      { intro Hic. apply in_app_or in Hc0. 
        apply NoDup_app_remove_l in Hnd.
        destruct Hc0 as [Hp|Hp].
        - eapply (NoDup_app_disj (all_idxs pre)); [exact Hnd| |apply in_or_app; left; exact Hic].
          eapply in_all_idxs; eauto.
        - apply NoDup_app_remove_l in Hnd.
          eapply (NoDup_app_disj (c_idxs c)); [exact Hnd|exact Hic|]. eapply in_all_idxs; eauto. }
      destruct (Hout i Hni) as [A B]. rewrite A, B. tauto. }
    split. { intros i Hi. apply in_app_or in Hi. destruct Hi as [Hi|Hi]; [now apply Hcells | now apply Hind]. }
    repeat split; try assumption; lia. }
  split. { unfold same_rings. cbn. tauto. }
  split; [reflexivity|]. split; [reflexivity|]. split; [exact Hnu'|].
  intros j Hj. cbn [set_core q_dtable]. now apply Hout.
Qed.

Lemma ind_table_length bufs i : length (ind_table bufs i) = length bufs.
Proof.
  revert i. induction bufs as [|[b w] bufs IH]; intros i; [reflexivity|].
  destruct bufs as [|bw bufs]; [reflexivity|].
  change (ind_table ((b, w) :: bw :: bufs) i)
    with (mkDesc (b_addr b) (b_len b) (F_NEXT + wflag w) (i + 1) :: ind_table (bw :: bufs) (i + 1)).
  cbn [length]. f_equal. rewrite IH. reflexivity.
Qed.

(* events of the indirect branch: the table addresses are those written at submission *)
Fixpoint unshare_evs (cb bufs : list (ubuf * bool)) : list qev :=
  match cb, bufs with
  | bw :: cb', bw' :: bufs' =>
      QUnshare (b_addr (fst bw)) (b_id (fst bw')) (b_len (fst bw')) (snd bw') :: unshare_evs cb' bufs'
  | _, _ => []
  end.

Lemma unshare_ind_spec cb bufs i :
  length bufs = length cb -> lens_nz bufs ->
  unshare_ind bufs (ind_table cb i) = (Ok tt, unshare_evs cb bufs).
Proof.
  revert bufs i. induction cb as [|[b w] cb IH]; intros [|[b' w'] bufs] i Hl Hnz; simpl in Hl; try lia.
  - reflexivity.
  - inversion Hnz as [|? ? Hb Hnz']; subst. simpl in Hb.
    destruct cb as [|bw cb].
    + destruct bufs; [|simpl in Hl; lia]. simpl.
      destruct (N.eqb_spec (b_len b') 0); [contradiction|]. reflexivity.
    + change (ind_table ((b, w) :: bw :: cb) i)
        with (mkDesc (b_addr b) (b_len b) (F_NEXT + wflag w) (i + 1) :: ind_table (bw :: cb) (i + 1)).
      cbn [unshare_ind]. destruct (N.eqb_spec (b_len b') 0); [contradiction|].
      rewrite (IH bufs (i + 1)) by (auto; lia). reflexivity.
Qed.

Lemma recycle_indirect_inv s pre c post bufs taddr tbl :
  Inv s (pre ++ c :: post) -> c_tbl c = Some (taddr, tbl) -> length bufs = length (c_bufs c) -> lens_nz bufs ->
  exists s',
    recycle s (c_head c) bufs
      = (Ok tt, s', QUnshareTable taddr (c_head c) (lenN (c_bufs c)) :: unshare_evs (c_bufs c) bufs)
    /\ Inv s' (pre ++ post) /\ same_rings s s'
    /\ q_free_head s' = c_head c
    /\ q_num_used s' = q_num_used s - lenN (c_idxs c) /\ lenN (c_idxs c) <= q_num_used s
    /\ q_dtable s' = q_dtable s.
Proof.
  intros (fl & Hnd & Hlen & Hrange & Hnu & Hseg & Hch & Hind & Hlsh & Hldt & Hlind & Hlring & Hai & Hav & Hlu & Hpow)
         Htbl Hblen Hnz.
  rewrite all_idxs_mid in *.
  assert (Hc : chain_ok (q_shadow s) (q_dtable s) (q_ind s) c).
  { rewrite Forall_forall in Hch. apply Hch. apply in_or_app. right. now left. }
  assert (Hc' := Hc). unfold chain_ok in Hc'. rewrite Htbl in Hc'.
  destruct Hc' as (Hidx & Htb & Hn & [nx Hsh] & Hdt & Hi).
  rewrite Hidx in *. rewrite lenN_cons, lenN_nil in *.
  assert (Hnu' : 1 <= q_num_used s) by (rewrite Hnu, !lenN_app, lenN_cons; lia).
  assert (Hhlt : c_head c < lenN (q_shadow s)) by (eapply nthN_some_lt; eauto).
  set (d' := set_next (unset_buf (mkDesc taddr (16 * lenN (c_bufs c)) F_INDIRECT nx)) (q_free_head s)).
  exists (set_core s (q_num_used s - 1) (c_head c) (updN (q_shadow s) (c_head c) d')
                   (updN (q_ind s) (c_head c) None) (q_dtable s)).
  split.
  { unfold recycle. rewrite Hsh. cbn [d_flags]. change (has_flag F_INDIRECT F_INDIRECT) with true. cbn iota.
    rewrite Hi. destruct (N.eqb_spec (q_num_used s) 0); [lia|].
    assert (El : lenN tbl = lenN bufs).
    { subst tbl. unfold lenN. now rewrite ind_table_length, Hblen. }
    rewrite El, N.eqb_refl. cbn [negb].
    subst tbl. rewrite unshare_ind_spec by assumption.
    cbn [d_addr]. fold d'. replace (lenN bufs) with (lenN (c_bufs c)) by (unfold lenN; now rewrite Hblen).
    reflexivity. }
  assert (Hhfl : ~ In (c_head c) fl).
  { intro Hf. eapply NoDup_app_disj; [exact Hnd|exact Hf|].
    apply in_or_app. right. apply in_or_app. left. now left. }
  split.
  { exists (c_head c :: fl). unfold InvFl. cbn [set_core q_size q_num_used q_free_head q_shadow q_dtable q_ind q_aring q_aidx
                              q_avail_idx q_last_used].
    rewrite all_idxs_app.
    pose proof (perm_give fl (all_idxs pre) [c_head c] (all_idxs post)) as Hperm.
    change ([c_head c] ++ fl) with (c_head c :: fl) in Hperm.
    split; [eapply Permutation_NoDup; eauto|].
    split. { unfold lenN. rewrite <- (Permutation_length Hperm). exact Hlen. }
    split. { intros i Hi'. apply Hrange. eapply Permutation_in; [apply Permutation_sym; exact Hperm|exact Hi']. }
    split. { rewrite Hnu, !lenN_app, lenN_cons, lenN_nil. lia. }
    split.
    { cbn [lseg]. split; [reflexivity|]. split; [now rewrite lenN_updN|].
      rewrite nxt_updN_eq by assumption. cbn [d' set_next d_next].
      apply lseg_updN_out; assumption. }
    split.
    { rewrite Forall_forall in Hch |- *. intros c0 Hc0.
      assert (Hc0' : In c0 (pre ++ c :: post)).
      { apply in_app_or in Hc0. apply in_or_app. destruct Hc0; [now left|right; now right]. }
      eapply chain_ok_frame; [|apply Hch; exact Hc0'].
      intros i Hi'.
      assert (Hni : c_head c <> i).
      { intro; subst i. apply in_app_or in Hc0.
        apply NoDup_app_remove_l in Hnd.
        destruct Hc0 as [Hp|Hp].
        - eapply (NoDup_app_disj (all_idxs pre)); [exact Hnd| |apply in_or_app; left; now left].
          eapply in_all_idxs; eauto.
        - apply NoDup_app_remove_l in Hnd.
          eapply (NoDup_app_disj [c_head c]); [exact Hnd|now left|]. eapply in_all_idxs; eauto. }
      rewrite !nthN_updN_neq by assumption. tauto. }
    split. { intros i [<-|Hi']; [rewrite nthN_updN_eq by lia; reflexivity|].
             assert (c_head c <> i) by (intro; subst; contradiction).
             rewrite nthN_updN_neq by assumption. now apply Hind. }
    rewrite !lenN_updN. repeat split; try assumption; lia. }
  split. { unfold same_rings. cbn. tauto. }
  split; [reflexivity|]. split; [reflexivity|]. split; [exact Hnu'|]. reflexivity.
Qed.

(* ------------------------------------------------------------------------------------------ *)
(* pop_used                                                                                     *)
Lemma pop_not_ready s token ins outs u_idx u_id u_len :
  q_last_used s = w16 u_idx -> pop_used s token ins outs u_idx u_id u_len = (Err ENotReady, s, []).
Proof. intros H. unfold pop_used, can_pop. rewrite H, N.eqb_refl. reflexivity. Qed.

Lemma pop_wrong_token s token ins outs u_idx u_id u_len :
  q_last_used s <> w16 u_idx -> w16 u_id <> token ->
  pop_used s token ins outs u_idx u_id u_len = (Err EWrongToken, s, []).
Proof.
  intros H1 H2. unfold pop_used, can_pop.
  destruct (N.eqb_spec (q_last_used s) (w16 u_idx)); [contradiction|]. cbn [negb].
  destruct (N.eqb_spec (w16 u_id) token); [contradiction|]. reflexivity.
Qed.

Definition pop_evs (c : chain) (bufs : list (ubuf * bool)) (orig : N) : list qev :=
  match c_tbl c with
  | None => recycle_evs (c_idxs c) (c_bufs c) bufs orig
  | Some (taddr, _) => QUnshareTable taddr (c_head c) (lenN (c_bufs c)) :: unshare_evs (c_bufs c) bufs
  end.

Lemma Inv_set_last_used s chains lu ue :
  Inv s chains -> lu < two16 -> Inv (set_last_used s lu ue) chains.
Proof. intros (fl & H) Hl. exists fl. unfold InvFl in *. cbn. tauto. Qed.

Lemma pop_ok s pre c post ins outs u_idx u_id u_len :
  Inv s (pre ++ c :: post) ->
  q_last_used s <> w16 u_idx -> w16 u_id = c_head c ->
  length (tag_bufs ins outs) = length (c_bufs c) -> lens_nz (tag_bufs ins outs) ->
  exists s',
    pop_used s (c_head c) ins outs u_idx u_id u_len
      = (Ok (w32 u_len), s',
         pop_evs c (tag_bufs ins outs) (q_free_head s)
           ++ (if q_event_idx s then [QStoreUsedEvent (w16 (q_last_used s + 1))] else []))
    /\ Inv s' (pre ++ post)
    /\ q_last_used s' = w16 (q_last_used s + 1)
    /\ q_free_head s' = c_head c
    /\ q_num_used s' = q_num_used s - lenN (c_idxs c) /\ lenN (c_idxs c) <= q_num_used s
    /\ q_avail_idx s' = q_avail_idx s /\ q_aidx s' = q_aidx s /\ q_aring s' = q_aring s
    /\ q_aflags s' = q_aflags s /\ q_size s' = q_size s
    /\ q_indirect s' = q_indirect s /\ q_event_idx s' = q_event_idx s
    /\ q_uevent s' = (if q_event_idx s then w16 (q_last_used s + 1) else q_uevent s)
    /\ (forall j, ~ In j (c_idxs c) -> nthN_error (q_dtable s') j = nthN_error (q_dtable s) j).
Proof.
  intros HI Hne Htok Hlen Hnz.
  assert (Hrec : exists s1,
    recycle s (c_head c) (tag_bufs ins outs) = (Ok tt, s1, pop_evs c (tag_bufs ins outs) (q_free_head s))
    /\ Inv s1 (pre ++ post) /\ same_rings s s1 /\ q_free_head s1 = c_head c
    /\ q_num_used s1 = q_num_used s - lenN (c_idxs c) /\ lenN (c_idxs c) <= q_num_used s
    /\ (forall j, ~ In j (c_idxs c) -> nthN_error (q_dtable s1) j = nthN_error (q_dtable s) j)).
  { unfold pop_evs. destruct (c_tbl c) as [[taddr tbl]|] eqn:Et.
    - destruct (recycle_indirect_inv s pre c post _ taddr tbl HI Et Hlen Hnz) as (s1 & A & B & C & D & E & F & G).
      exists s1. split; [exact A|]. split; [exact B|]. split; [exact C|]. split; [exact D|].
      split; [exact E|]. split; [exact F|]. intros j _. now rewrite G.
    - destruct (recycle_direct_inv s pre c post _ HI Et Hlen Hnz) as (s1 & A & B & C & D & E & F & G).
      exists s1. split; [exact A|]. split; [exact B|]. split; [exact C|]. split; [exact D|].
      split; [exact E|]. split; [exact F|]. exact G. }
  destruct Hrec as (s1 & Hrun & Hinv & Hsame & Hfh & Hnu & Hle & Hdt).
  destruct Hsame as (S1 & S2 & S3 & S4 & S5 & S6 & S7 & S8 & S9).
  assert (Hw : w16 (q_last_used s + 1) < two16) by (unfold w16, two16; apply N.mod_lt; discriminate).
  unfold pop_used, can_pop.
  destruct (N.eqb_spec (q_last_used s) (w16 u_idx)); [contradiction|]. cbn [negb].
  rewrite Htok, N.eqb_refl. cbn [negb]. rewrite Hrun. rewrite S3, S5.
  destruct (q_event_idx s) eqn:Ee.
  - eexists. split; [reflexivity|].
    split; [apply Inv_set_last_used; assumption|].
    cbn [set_last_used q_last_used q_free_head q_num_used q_avail_idx q_aidx q_aring q_aflags q_size q_indirect
         q_event_idx q_uevent q_dtable].
    repeat split; auto.
  - rewrite app_nil_r. eexists. split; [reflexivity|].
    split; [apply Inv_set_last_used; assumption|].
    cbn [set_last_used q_last_used q_free_head q_num_used q_avail_idx q_aidx q_aring q_aflags q_size q_indirect
         q_event_idx q_uevent q_dtable].
    repeat split; auto.
Qed.

(* ------------------------------------------------------------------------------------------ *)
(* new, set_dev_notify                                                                          *)
Lemma init_table_nth : forall k i j, (j < k)%nat ->
  nth_error (init_table i k) j
  = Some (mkDesc 0 0 0 (if Nat.eqb (S j) k then 0 else i + N.of_nat j + 1)).
Proof.
  induction k as [|k IH]; intros i j Hj; [lia|].
  destruct k as [|k'].
  - assert (j = 0)%nat by lia. subst. reflexivity.
  - change (init_table i (S (S k'))) with (mkDesc 0 0 0 (i + 1) :: init_table (i + 1) (S k')).
    destruct j as [|j'].
    + cbn [nth_error]. cbn [Nat.eqb]. do 3 f_equal. lia.
    + cbn [nth_error]. rewrite IH by lia.
      change (Nat.eqb (S (S j')) (S (S k'))) with (Nat.eqb (S j') (S k')).
      destruct (Nat.eqb (S j') (S k')); do 3 f_equal; lia.
Qed.

Lemma init_table_spec : forall k i j,
  j < N.of_nat k ->
  nthN_error (init_table i k) j
  = Some (mkDesc 0 0 0 (if j + 1 =? N.of_nat k then 0 else i + j + 1)).
Proof.
  intros k i j Hj. unfold nthN_error. rewrite init_table_nth by lia.
  destruct (Nat.eqb_spec (S (N.to_nat j)) k), (N.eqb_spec (j + 1) (N.of_nat k)); try lia; do 3 f_equal; lia.
Qed.

Lemma init_table_length k i : length (init_table i k) = k.
Proof.
  revert i. induction k as [|k IH]; intros i; [reflexivity|].
  destruct k as [|k']; [reflexivity|].
  change (init_table i (S (S k'))) with (mkDesc 0 0 0 (i + 1) :: init_table (i + 1) (S k')).
  cbn [length]. now rewrite IH.
Qed.

Lemma lseg_init : forall k i n, N.of_nat k + i = n ->
  lseg (init_table 0 (N.to_nat n)) i (seqN i k).
Proof.
  induction k as [|k IH]; intros i n Hn; [exact I|].
  cbn [seqN lseg]. split; [reflexivity|].
  split. { unfold lenN. rewrite init_table_length. lia. }
  unfold nxt. rewrite init_table_spec by lia. cbn [d_next].
  destruct k as [|k']; [exact I|].
  destruct (N.eqb_spec (i + 1) (N.of_nat (N.to_nat n))); [lia|].
  replace (0 + i + 1) with (i + 1) by lia. apply IH. lia.
Qed.

Lemma seqN_in i k x : In x (seqN i k) <-> i <= x < i + N.of_nat k.
Proof.
  revert i. induction k as [|k IH]; intros i; cbn [seqN In]; [lia|].
  rewrite IH. lia.
Qed.

Lemma seqN_nodup i k : NoDup (seqN i k).
Proof.
  revert i. induction k as [|k IH]; intros i; cbn [seqN]; constructor; [|apply IH].
  rewrite seqN_in. lia.
Qed.

Lemma seqN_length i k : length (seqN i k) = k.
Proof. revert i. induction k as [|k IH]; intros i; cbn [seqN length]; auto. Qed.

Lemma qnew_inv k ind ev : k <= 15 -> Inv (qnew (2 ^ k) ind ev) [].
Proof.
  intros Hk. set (n := 2 ^ k).
  assert (Hn : 0 < n) by (unfold n; apply N.neq_0_lt_0, N.pow_nonzero; discriminate).
  exists (seqN 0 (N.to_nat n)). unfold InvFl, all_idxs. cbn [map concat]. rewrite app_nil_r.
  cbn [qnew q_size q_num_used q_free_head q_shadow q_dtable q_ind q_aring q_aidx q_avail_idx q_last_used].
  split; [apply seqN_nodup|].
  split. { unfold lenN. rewrite seqN_length. lia. }
  split. { intros i Hi. apply seqN_in in Hi. lia. }
  split; [reflexivity|].
  split. { apply lseg_init. lia. }
  split; [constructor|].
  split. { intros i Hi. apply seqN_in in Hi. apply nthN_repeat. lia. }
  unfold lenN. rewrite init_table_length, !repeat_length.
  repeat split; try lia; try reflexivity.
  exists k. split; [exact Hk|reflexivity].
Qed.

Lemma set_dev_notify_inv s chains en : Inv s chains -> Inv (fst (set_dev_notify s en)) chains.
Proof.
  intros (fl & H). unfold set_dev_notify. destruct (q_event_idx s); [exists fl; exact H|].
  exists fl. unfold InvFl in *. cbn. tauto.
Qed.

Lemma qset_indices_inv s chains v : Inv s chains -> v < two16 -> Inv (qset_indices s v) chains.
Proof. intros (fl & H) Hv. exists fl. unfold InvFl in *. cbn. tauto. Qed.
